"""Per-property configuration of bin/check: which Coq file holds the theorems and which
harness units (Go side `drv`, Coq side `coq` = module with case/check_case/model_obs) tie
the model to the code."""

PROPS = {
    "C08": {
        "units": [
            {"drv": "varint", "coq": "V.Wire.VarintRun", "n_quick": 400, "n_thorough": 5000, "shard": 3000},
        ],
        "level_text": "Theorems over the Gallina codec models (varint first; frames and headers as they land): encode->parse identity with exact consumed length and |encode| = Len for every value < 2^62 and every trailing input; tied to the code by replaying harness-generated encode and parse cases (boundary values, random byte strings, all 1-2 byte inputs in the thorough tier) through the model.",
        "level_note": "Proved about the model, not about Go: Go panics/out-of-bounds are only observed through recover() in the harness; codecs not yet modelled are covered by Go-side round-trip monitors only.",
        "assumptions": ["Go memory safety (panics, out-of-bounds) is observed by recover() in the harness, not proved"],
    },
}
