"""Per-property configuration of bin/check, one JSON file per property in bin/registry.d/:
  units:       correspondence units: drv = harness unit name (verifdrv <drv> <seed> <n>),
               coq = Coq module with `case`, `check_case`, `model_obs` (omit for monitor-only units),
               n_quick / n_thorough = case counts, shard = cases per vm_compute file, args = extra argv
  level_text, level_note, technique, assumptions, trusted, rule: copied into MANIFEST / evidence
  disabled + na_reason: listed under not_applicable instead of claimed
"""
import json, os, glob
D = os.path.join(os.path.dirname(os.path.abspath(__file__)), "registry.d")
PROPS = {}
for f in sorted(glob.glob(os.path.join(D, "C*.json"))):
    PROPS[os.path.basename(f)[:-5]] = json.load(open(f))
