#!/usr/bin/env python3
"""Resolve a merge conflict in known_findings.json: union of ours and theirs by (property,key)."""
import json, subprocess, sys
ours = json.loads(subprocess.check_output(["git", "show", "HEAD:known_findings.json"]))
theirs = json.loads(subprocess.check_output(["git", "show", sys.argv[1] + ":known_findings.json"]))
seen, out = {}, []
for f in ours.get("findings", []) + theirs.get("findings", []):
    k = (f["property"], f["key"])
    if k in seen:
        out[seen[k]] = f  # theirs (later) wins: status updates travel with the unit branch
    else:
        seen[k] = len(out); out.append(f)
ours["findings"] = out
json.dump(ours, open("known_findings.json", "w"), indent=1)
print(len(out), "findings")
