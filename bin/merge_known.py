#!/usr/bin/env python3
"""known_findings.json merge policy: a unit branch `unit-Cxx` owns the entries of property Cxx
(its version replaces ours wholesale); every other entry is taken from ours.
Usage: merge_known.py <branch> [--rebuild]  (--rebuild: recompute every property from its branch)."""
import json, subprocess, sys, re

def show(ref):
    try:
        return json.loads(subprocess.check_output(["git", "show", ref + ":known_findings.json"], stderr=subprocess.DEVNULL))
    except Exception:
        return {"findings": []}

def own(branch, cur):
    m = re.search(r"unit-(C\d+)", branch)
    if not m:
        return cur
    pid = m.group(1)
    theirs = [f for f in show(branch).get("findings", []) if f["property"] == pid]
    if not theirs and not any(f["property"] == pid for f in cur["findings"]):
        return cur
    if not theirs:
        # branch has no entries for its property: it withdrew them all
        pass
    cur["findings"] = [f for f in cur["findings"] if f["property"] != pid] + theirs
    return cur

cur = show("HEAD")
if "--rebuild" in sys.argv:
    brs = subprocess.check_output(["git", "branch", "--list", "unit-C*", "--format=%(refname:short)"], text=True).split()
    for b in sorted(brs):
        if re.fullmatch(r"unit-C\d+", b) and subprocess.call(["git", "merge-base", "--is-ancestor", b, "HEAD"]) == 0:
            cur = own(b, cur)
else:
    cur = own(sys.argv[1], cur)
cur["findings"].sort(key=lambda f: (f["property"], f["status"], f["key"]))
json.dump(cur, open("known_findings.json", "w"), indent=1)
print(len(cur["findings"]), "findings")
