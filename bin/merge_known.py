#!/usr/bin/env python3
"""known_findings.json merge policy: a unit branch `unit-Cxx` owns the entries of property Cxx
(its version replaces ours wholesale); every other entry is taken from ours.
Usage: merge_known.py <branch> [--rebuild]  (--rebuild: recompute every property from its branch)."""
import json, subprocess, sys, re

def show(ref):
    try:
        return json.loads(subprocess.check_output(["git", "show", ref + ":known_findings.json"], stderr=subprocess.DEVNULL))
    except Exception:
        return {"findings": []}

def own(branch, cur):
    m = re.search(r"unit-(C\d+)", branch)
    if not m:
        return cur
    pid = m.group(1)
    theirs = [f for f in show(branch).get("findings", []) if f["property"] == pid]
    if not theirs and not any(f["property"] == pid for f in cur["findings"]):
        return cur
    if not theirs:
        # branch has no entries for its property: it withdrew them all
        pass
    cur["findings"] = [f for f in cur["findings"] if f["property"] != pid] + theirs
    return cur

cur = show("HEAD")
if "--rebuild" in sys.argv:
    brs = subprocess.check_output(["git", "branch", "--list", "unit-C*", "--format=%(refname:short)"], text=True).split()
    for b in sorted(brs):
        if re.fullmatch(r"unit-C\d+", b) and subprocess.call(["git", "merge-base", "--is-ancestor", b, "HEAD"]) == 0:
            cur = own(b, cur)
else:
    cur = own(sys.argv[1], cur)
cur["findings"].sort(key=lambda f: (f["property"], f["status"], f["key"]))
json.dump(cur, open("known_findings.json", "w"), indent=1)
print(len(cur["findings"]), "findings")

# fill in the /repo commit of every fixed entry from fixes/commits.json
import os
cj = os.path.join(os.path.dirname(os.path.abspath(__file__)), "..", "fixes", "commits.json")
if os.path.exists(cj):
    c = json.load(open(cj))
    d = json.load(open("known_findings.json"))
    for e in c.get("extra_findings", []):
        if not any(f["property"] == e["property"] and f["key"] == e["key"] for f in d["findings"]):
            d["findings"].append(e)
    for f in d["findings"]:
        for prop, sub, status, patch in c.get("overrides", []):
            if f["property"] == prop and sub in f["key"] and f.get("status") != status:
                f["status"] = status
                f.setdefault("line", "fixed: property=%s COMMIT %s" % (prop, f.get("description", "")[:240]))
        if f.get("status") != "fixed":
            continue
        for prop, sub, patch in c["rules"]:
            if f["property"] == prop and sub in f["key"]:
                f["commit"] = c["hashes"][patch]
                f["line"] = f.get("line", "fixed: property=%s COMMIT %s" % (prop, f.get("description", "")[:200])).replace("COMMIT", c["hashes"][patch])
                break
    json.dump(d, open("known_findings.json", "w"), indent=1)
    left = [f["key"] for f in d["findings"] if f.get("status") == "fixed" and f.get("commit") in (None, "COMMIT")]
    if left:
        print("fixed entries without commit:", left)
