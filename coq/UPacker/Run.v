(** Correspondence glue for unit `upacker` (C10): a case is what the Go harness logged. *)
From Coq Require Import List ZArith Bool String.
From V Require Import Gen.Params Lib.Hex Wire.Varint PktProt.PktNum PktProt.InitialProtect.
From V Require Export UPacker.Model.   (* the case terms use the model's constructors (bkind, dgres) *)
Import ListNotations.
Open Scope Z_scope.

Inductive case :=
| FlightCase (dcid scid ipn firstPN : Z) (lens : list Z) (single : Z)
             (expl : option (option string)) (ctl : Z) (prefix tail : string) (conftok : option string)
             (bk : bkind) (plans : list (Z * Z)) (udpMin maxSize helloLen : Z) (plens : list Z)
             (* observed *)
             (obsInitialPN : Z) (obsToken : option string) (obsBudgets : list Z) (obs : list dgres)
| DialCase (specDcid specScid ipn : Z) (lens : list Z) (single : Z)
           (expl : option (option string)) (ctl : Z) (prefix tail : string) (conftok : option string)
           (* observed on the first Initial packet of a whole dial *)
           (obsDcid obsScid obsPN obsPNLen : Z) (obsToken : option string) (obsHdrLen : Z)
| ValidateCase (specDcid specScid ipn : Z) (lens : list Z) (single udpMin : Z) (plans : list (Z * Z)) (maxPacket tokLen : Z)
               (* observed: the whole dial failed with "invalid QUICSpec" before sending anything *)
               (obsRejected : bool)
| VNCase (ipn : Z) (lens : list Z) (single : Z)
         (* observed: (packet number, encoding length) of every client Initial of ONE Dial that was
            re-created after a Version Negotiation packet, both connections, in sending order *)
         (obsPackets : list (Z * Z))
| WireCase (ver : Z) (dcid scid token : string) (lf pn pnLen : Z) (payload : string)
           (* observed: the protected packet as it left the packer (header through AEAD tag) *)
           (obsPacket : string)
| PayloadCase (hello : string) (frames : list (Z * Z)) (pad : Z)
              (* observed: the decrypted frame payload of a pass-through datagram *)
              (obsPayload : string)
| HeaderCase (ver : Z) (dcid scid token : string) (lf pn pnLen : Z)
             (* observed: the packet's header bytes after the independent observer removed header protection *)
             (obsHeader : string).

Definition ohx (o : option string) : option (list Z) :=
  match o with Some s => Some (hx s) | None => None end.
Definition oohx (o : option (option string)) : option (option (list Z)) :=
  match o with Some s => Some (ohx s) | None => None end.

Definition obytes_eqb (a b : option (list Z)) : bool :=
  match a, b with
  | Some x, Some y => zeqb_list x y
  | None, None => true
  | _, _ => false
  end.

Definition pair_eqb (a b : Z * Z) : bool := (fst a =? fst b) && (snd a =? snd b).

Fixpoint list_eqb {A} (eq : A -> A -> bool) (a b : list A) : bool :=
  match a, b with
  | [], [] => true
  | x :: a', y :: b' => eq x y && list_eqb eq a' b'
  | _, _ => false
  end.

Definition dgres_eqb (a b : dgres) : bool :=
  match a, b with
  | DG pn pl h fs lf pk dl ix rp, DG pn' pl' h' fs' lf' pk' dl' ix' rp' =>
    (pn =? pn') && (pl =? pl') && (h =? h') && list_eqb pair_eqb fs fs' && (lf =? lf') && (pk =? pk')
    && (dl =? dl') && (ix =? ix') && Bool.eqb rp rp'
  | DGErr x, DGErr y => x =? y
  | _, _ => false
  end.

Definition tokLenOf (t : option (list Z)) : Z :=
  match t with Some b => zlen b | None => 0 end.

(** what the model predicts for a flight case *)
Record fobs := { fo_initialPN : Z; fo_token : option (list Z); fo_budgets : list Z; fo_dgs : list dgres }.

Definition flight_obs (dcid scid ipn firstPN : Z) (lens : list Z) (single : Z)
           (expl : option (option string)) (ctl : Z) (prefix tail : string) (conftok : option string)
           (bk : bkind) (plans : list (Z * Z)) (udpMin maxSize helloLen : Z) (plens : list Z) : fobs :=
  let tok := resolveToken (oohx expl) ctl (hx prefix) (hx tail) (ohx conftok) in
  let c := {| c_dcid := dcid; c_scid := scid; c_ipn := ipn; c_first := firstPN; c_lens := lens; c_single := single;
              c_tokLen := tokLenOf tok; c_bk := bk; c_plans := plans; c_udpMin := udpMin; c_maxSize := maxSize |} in
  {| fo_initialPN := initialPN ipn; fo_token := tok;
     fo_budgets := match bk with BFlight => if helloLen >? 0 then flightBudgets c helloLen else [] | _ => [] end;
     fo_dgs := flight c helloLen plens |}.

Record dobs := { do_dcid : Z; do_scid : Z; do_pn : Z; do_pnLen : Z; do_token : option (list Z); do_hdr : Z }.

Definition dial_obs (specDcid specScid ipn : Z) (lens : list Z) (single : Z)
           (expl : option (option string)) (ctl : Z) (prefix tail : string) (conftok : option string) (drawn : Z) : dobs :=
  let tok := resolveToken (oohx expl) ctl (hx prefix) (hx tail) (ohx conftok) in
  let d := dialDcidLen specDcid drawn in
  let s := dialScidLen specScid in
  let pn := initialPN ipn in
  let pl := peekPnLen lens single (pnBase ipn) pn in
  {| do_dcid := d; do_scid := s; do_pn := pn; do_pnLen := pl; do_token := tok;
     do_hdr := hdrLen d s (tokLenOf tok) pl |}.

Inductive obs := FObs (o : fobs) | DObs (o : dobs) | VObs (rejected : bool) | HObs (cls : Z) (bytes : list Z) | NObs (pkts : list (Z * Z)) | WObs (cls : Z) (pkt : list Z) | PObs (payload : list Z).

Definition model_obs (c : case) : obs :=
  match c with
  | FlightCase dcid scid ipn firstPN lens single expl ctl prefix tail conftok bk plans udpMin maxSize helloLen plens _ _ _ _ =>
    FObs (flight_obs dcid scid ipn firstPN lens single expl ctl prefix tail conftok bk plans udpMin maxSize helloLen plens)
  | DialCase specDcid specScid ipn lens single expl ctl prefix tail conftok obsDcid _ _ _ _ _ =>
    DObs (dial_obs specDcid specScid ipn lens single expl ctl prefix tail conftok obsDcid)
  | ValidateCase specDcid specScid ipn lens single udpMin plans maxPacket tokLen _ =>
    VObs (negb (validateSpecT specScid specDcid ipn lens single udpMin plans maxPacket tokLen))
  | VNCase ipn lens single ops =>
    (* the packet number space continues across the re-creation; the length list stays indexed
       from the spec's InitPacketNumber *)
    NObs (map (fun i => let pn := initialPN ipn + i in (pn, peekPnLen lens single (pnBase ipn) pn))
              (zseq (List.length ops) 0))
  | WireCase ver dcid scid token lf pn pnLen payload _ =>
    (* serialise the header (C08's codec), protect with the client Initial keys of the DCID and
       version (C05's Gallina HKDF / AES-128-GCM / AES-ECB) *)
    let '(c, hdr) := initialHeaderBytes ver (hx dcid) (hx scid) (hx token) lf pn pnLen in
    WObs c (initial_protect (ver =? H_Version2) true (hx dcid) hdr (hx payload) pn (Z.to_nat pnLen))
  | PayloadCase hello frames pad _ => PObs (passPayload (hx hello) frames pad)
  | HeaderCase ver dcid scid token lf pn pnLen _ =>
    let '(c, b) := initialHeaderBytes ver (hx dcid) (hx scid) (hx token) lf pn pnLen in HObs c b
  end.

(** an absent token and an empty token give the same wire image; the harness reports what
    SetToken received (None: not called) *)
Definition check_case (c : case) : bool :=
  match c, model_obs c with
  | FlightCase _ _ _ _ _ _ _ _ _ _ _ bk _ _ _ _ _ oipn otok obud odgs, FObs o =>
    (fo_initialPN o =? oipn) && obytes_eqb (fo_token o) (ohx otok)
    && list_eqb Z.eqb (fo_budgets o) obud && list_eqb dgres_eqb (fo_dgs o) odgs
  | DialCase specDcid _ _ _ _ _ _ _ _ _ od os opn opl otok oh, DObs o =>
    (do_dcid o =? od) && (do_scid o =? os) && (do_pn o =? opn) && (do_pnLen o =? opl)
    && zeqb_list (match do_token o with Some b => b | None => [] end) (match ohx otok with Some b => b | None => [] end)
    && (do_hdr o =? oh)
    && ((specDcid >? 0) || ((upMinConnectionIDLenInitial <=? od) && (od <=? upMaxConnIDLen)))
  | ValidateCase _ _ _ _ _ _ _ _ _ orej, VObs r => Bool.eqb r orej
  | VNCase _ _ _ ops, NObs m => list_eqb pair_eqb m ops
  | WireCase _ _ _ _ _ _ _ _ ow, WObs c b => (c =? 0) && zeqb_list b (hx ow)
  | PayloadCase _ _ _ op, PObs b => zeqb_list b (hx op)
  | HeaderCase _ _ _ _ _ _ _ oh, HObs c b => (c =? 0) && zeqb_list b (hx oh)
  | _, _ => false
  end.
