(** C10 proofs, part 1: initial packet number, packet-number length selection, token,
    connection ID lengths, and the size rules of appendInitialPacketPayload. *)
From Coq Require Import List ZArith Bool Lia.
From Coq Require Import ZifyBool.
From V Require Import Gen.Params Wire.Varint Wire.VarintProofs PktProt.PktNum PktProt.PktNumProofs UPacker.Model.
Import ListNotations.
Open Scope Z_scope.
Local Ltac Zify.zify_post_hook ::= Z.div_mod_to_equations.

(** the numbers the property fixes *)
Lemma overhead_16 : overhead = 16. Proof. reflexivity. Qed.
Lemma bufCap_1452 : bufCap = 1452. Proof. reflexivity. Qed.
Lemma dfltUDPMin_1200 : dfltUDPMin = 1200. Proof. reflexivity. Qed.

(** * initialPN *)
Lemma initialPN_spec ipn : 0 <= ipn < two64 ->
  (ipn <= two62 - 1 -> initialPN ipn = ipn) /\
  (two62 - 1 < ipn -> initialPN ipn = 0) /\
  0 <= initialPN ipn <= two62 - 1.
Proof.
  unfold initialPN, two62, two64. intros H.
  destruct (Z.gtb_spec ipn (4611686018427387904 - 1)); repeat split; lia.
Qed.

Lemma wrap64_small z : - two63 <= z < two63 -> wrap64 z = z.
Proof.
  unfold wrap64, two63, two64. intros H.
  destruct (Z.geb_spec (z mod 18446744073709551616) 9223372036854775808); lia.
Qed.

Lemma pnBase_small ipn : 0 <= ipn <= two62 - 1 -> pnBase ipn = ipn.
Proof. unfold pnBase, two62. intros H. apply wrap64_small. unfold two63. lia. Qed.

(** * PeekPacketNumber *)

(** per-packet list: entry min(i, n-1) for the i-th Initial packet, whenever the spec's first
    packet number is a valid one *)
Lemma peekPnLen_list lens single ipn i :
  lens <> [] -> 0 <= ipn <= two62 - 1 -> Z.of_nat i < two62 ->
  peekPnLen lens single (pnBase ipn) (initialPN ipn + Z.of_nat i)
  = nth (Nat.min i (length lens - 1)) lens 0.
Proof.
  intros Hne Hipn Hi. unfold peekPnLen.
  destruct lens as [|l0 lr]; [congruence|].
  rewrite (pnBase_small ipn Hipn).
  destruct (initialPN_spec ipn) as [Hs _]; [unfold two62, two64 in *; lia|].
  rewrite Hs by lia.
  replace (ipn + Z.of_nat i - ipn) with (Z.of_nat i) by lia.
  set (L := l0 :: lr).
  assert (HL : (0 < length L)%nat) by (unfold L; simpl; lia).
  rewrite wrap64_small by (unfold two63, two62 in *; lia).
  destruct (Z.ltb_spec (Z.of_nat i) 0); [lia|].
  destruct (Z.geb_spec (Z.of_nat i) (Z.of_nat (length L))) as [Hg|Hl]; f_equal; lia.
Qed.

Lemma peekPnLen_single single base pn :
  single <> 0 -> peekPnLen [] single base pn = single.
Proof. intros H. unfold peekPnLen. destruct (Z.eqb_spec single 0); [congruence|reflexivity]. Qed.

Lemma peekPnLen_default base pn : 2 <= peekPnLen [] 0 base pn <= 4.
Proof. unfold peekPnLen. cbn [Z.eqb negb]. apply lenForHeader_ge2. Qed.

(** the list entry selected is always an entry of the list *)
Lemma peekPnLen_in lens single base pn :
  lens <> [] -> In (peekPnLen lens single base pn) lens.
Proof.
  intros Hne. unfold peekPnLen. destruct lens as [|l0 lr]; [congruence|].
  set (L := l0 :: lr).
  assert (HL : (0 < length L)%nat) by (unfold L; simpl; lia).
  apply nth_In.
  destruct (Z.ltb_spec (wrap64 (pn - base)) 0);
    [destruct (Z.geb_spec 0 (Z.of_nat (length L)))|destruct (Z.geb_spec (wrap64 (pn - base)) (Z.of_nat (length L)))]; lia.
Qed.

(** * token *)
Lemma dummyPop_spec tlen prefix tail :
  tlen = tokenLength tlen prefix -> (Z.to_nat tlen - length prefix <= length tail)%nat ->
  length (dummyPop tlen prefix tail) = Z.to_nat tlen /\
  firstn (length prefix) (dummyPop tlen prefix tail) = prefix.
Proof.
  unfold tokenLength, dummyPop. intros Ht Htail.
  assert (Hp : (length prefix <= Z.to_nat tlen)%nat) by lia.
  rewrite firstn_all2 by lia.
  split.
  - rewrite app_length, firstn_length. lia.
  - rewrite firstn_app, firstn_all, Nat.sub_diag. cbn. apply app_nil_r.
Qed.

Lemma resolveToken_synth ctl prefix tail conf :
  tokenLength ctl prefix > 0 ->
  (Z.to_nat (tokenLength ctl prefix) - length prefix <= length tail)%nat ->
  exists t, resolveToken None ctl prefix tail conf = Some t /\
            Z.of_nat (length t) = Z.max ctl (Z.of_nat (length prefix)) /\
            firstn (length prefix) t = prefix.
Proof.
  intros Hpos Htail. unfold resolveToken.
  destruct (Z.gtb_spec (tokenLength ctl prefix) 0); [|lia].
  eexists; split; [reflexivity|].
  destruct (dummyPop_spec (tokenLength ctl prefix) prefix tail) as [Hl Hf]; [unfold tokenLength; lia|assumption|].
  split; [rewrite Hl; unfold tokenLength in *; lia|exact Hf].
Qed.

(** the synthesised token is the prefix followed by the random source's bytes, and nothing
    else: two dials send the same token exactly when the source delivered the same bytes *)
Lemma dummyPop_is_prefix_oracle tlen prefix tail :
  (length prefix <= Z.to_nat tlen)%nat ->
  dummyPop tlen prefix tail = prefix ++ firstn (Z.to_nat tlen - length prefix) tail.
Proof. intros H. unfold dummyPop. rewrite firstn_all2 by lia. reflexivity. Qed.

Lemma resolveToken_is_prefix_oracle ctl prefix tail conf :
  tokenLength ctl prefix > 0 ->
  resolveToken None ctl prefix tail conf
  = Some (prefix ++ firstn (Z.to_nat (tokenLength ctl prefix) - length prefix) tail).
Proof.
  intros Hpos. unfold resolveToken. destruct (Z.gtb_spec (tokenLength ctl prefix) 0); [|lia].
  rewrite dummyPop_is_prefix_oracle by (unfold tokenLength; lia). reflexivity.
Qed.

Lemma token_fresh_iff ctl prefix tail1 tail2 conf1 conf2 :
  tokenLength ctl prefix > 0 ->
  let k := (Z.to_nat (tokenLength ctl prefix) - length prefix)%nat in
  (resolveToken None ctl prefix tail1 conf1 = resolveToken None ctl prefix tail2 conf2
   <-> firstn k tail1 = firstn k tail2).
Proof.
  intros Hpos k. rewrite !resolveToken_is_prefix_oracle by assumption. fold k. split.
  - intros H. inversion H as [H1]. apply app_inv_head in H1. exact H1.
  - intros ->. reflexivity.
Qed.

Lemma resolveToken_explicit t ctl prefix tail conf :
  resolveToken (Some t) ctl prefix tail conf = t.
Proof. reflexivity. Qed.

Lemma resolveToken_none ctl prefix tail conf :
  ctl <= 0 -> prefix = [] -> resolveToken None ctl prefix tail conf = conf.
Proof.
  intros Hc ->. unfold resolveToken, tokenLength. cbn [length Z.of_nat].
  destruct (Z.gtb_spec (Z.max ctl 0) 0); [lia|reflexivity].
Qed.

(** * connection ID lengths *)
Lemma dial_cid_lengths specScid specDcid drawn :
  dialScidLen specScid = specScid /\ (specDcid > 0 -> dialDcidLen specDcid drawn = specDcid) /\
  (specDcid <= 0 -> dialDcidLen specDcid drawn = drawn).
Proof.
  unfold dialScidLen, dialDcidLen. repeat split.
  - destruct (Z.eqb_spec specScid 0); lia.
  - intros H. destruct (Z.gtb_spec specDcid 0); lia.
  - intros H. destruct (Z.gtb_spec specDcid 0); lia.
Qed.

(** * appendInitialPacketPayload *)

(** exact size: the frames fit => packet and datagram are exactly PacketSize, the Length
    field counts packet number + payload (padded) + tag *)
Lemma append_exact_fits cl ps hdr pnLen plen udpMin :
  0 < ps -> hdr + plen + overhead <= ps -> ps <= bufCap ->
  appendInitial (cl, ps) hdr pnLen plen udpMin
  = AppOk (pnLen + (ps - hdr - overhead) + overhead) ps ps false.
Proof.
  intros Hps Hfit Hcap. unfold appendInitial, paddedLen. cbn [snd].
  destruct (Z.gtb_spec ps 0); [|lia].
  destruct (Z.gtb_spec ps (hdr + plen + overhead)) as [Hgt|Hle].
  - replace (hdr + (plen + (ps - (hdr + plen + overhead))) + overhead) with ps by lia.
    destruct (Z.gtb_spec ps bufCap); [lia|].
    destruct (Z.eqb_spec ps 0); [lia|]. f_equal; lia.
  - assert (ps = hdr + plen + overhead) by lia. subst ps.
    destruct (Z.gtb_spec (hdr + plen + overhead) bufCap); [lia|].
    destruct (Z.eqb_spec (hdr + plen + overhead) 0); [lia|]. f_equal; lia.
Qed.

(** exact size: the frames do not fit => no error below the buffer capacity; the packet is
    header + frames + tag, LARGER than PacketSize *)
Lemma append_exact_overshoot cl ps hdr pnLen plen udpMin :
  0 < ps -> ps < hdr + plen + overhead -> hdr + plen + overhead <= bufCap ->
  appendInitial (cl, ps) hdr pnLen plen udpMin
  = AppOk (pnLen + plen + overhead) (hdr + plen + overhead) (hdr + plen + overhead) false.
Proof.
  intros Hps Hover Hcap. unfold appendInitial, paddedLen. cbn [snd].
  destruct (Z.gtb_spec ps 0); [|lia].
  destruct (Z.gtb_spec ps (hdr + plen + overhead)); [lia|].
  destruct (Z.gtb_spec (hdr + plen + overhead) bufCap); [lia|].
  destruct (Z.eqb_spec ps 0); [lia|]. f_equal; lia.
Qed.

(** no exact size: the packet is header + frames + tag; the datagram is extended with bytes
    OUTSIDE the packet up to UDPDatagramMinSize (default 1200), never past the packet buffer *)
Lemma append_udp_min cl hdr pnLen plen udpMin :
  hdr + plen + overhead <= bufCap ->
  let mn := Z.min (if udpMin =? 0 then dfltUDPMin else udpMin) bufCap in
  appendInitial (cl, 0) hdr pnLen plen udpMin
  = AppOk (pnLen + plen + overhead) (hdr + plen + overhead) (Z.max (hdr + plen + overhead) mn) false.
Proof.
  intros Hcap mn. unfold appendInitial, paddedLen. cbn [snd Z.gtb Z.compare Z.eqb]. fold mn.
  destruct (Z.gtb_spec (hdr + plen + overhead) bufCap); [lia|].
  destruct (Z.ltb_spec (hdr + plen + overhead) mn) as [Hlt|Hge]; f_equal; lia.
Qed.

(** the open finding size-max/udp-min, precisely: with PacketSize 0 the QUIC packet and its
    Length field do not depend on UDPDatagramMinSize at all; the datagram exceeds a maximum
    packet size that the packet respects exactly when the (buffer-capped) UDP minimum does,
    and then the datagram IS that minimum -- all of the excess is padding behind the packet *)
Lemma udp_min_excess cl hdr pnLen plen udpMin maxSize :
  hdr + plen + overhead <= bufCap -> hdr + plen + overhead <= maxSize ->
  let mn := Z.min (if udpMin =? 0 then dfltUDPMin else udpMin) bufCap in
  exists dl, appendInitial (cl, 0) hdr pnLen plen udpMin
             = AppOk (pnLen + plen + overhead) (hdr + plen + overhead) dl false /\
             (maxSize < dl <-> maxSize < mn) /\ (maxSize < dl -> dl = mn).
Proof.
  intros Hcap Hmax mn. rewrite append_udp_min by assumption. fold mn.
  eexists. split; [reflexivity|]. split; lia.
Qed.

(** output never exceeds the packet buffer, or an error is returned; releasing the buffer
    never panics *)
Lemma append_fits_or_error plan hdr pnLen plen udpMin :
  match appendInitial plan hdr pnLen plen udpMin with
  | AppErr => hdr + paddedLen (snd plan) hdr plen + overhead > bufCap
  | AppOk lf pl dl rp =>
    pl <= bufCap /\ pl = hdr + paddedLen (snd plan) hdr plen + overhead /\
    lf = pnLen + paddedLen (snd plan) hdr plen + overhead /\
    pl <= dl /\ dl <= bufCap /\ rp = false
  end.
Proof.
  unfold appendInitial. set (p' := paddedLen (snd plan) hdr plen).
  set (mn := Z.min (if udpMin =? 0 then dfltUDPMin else udpMin) bufCap).
  destruct (Z.gtb_spec (hdr + p' + overhead) bufCap) as [Hg|Hg]; [lia|].
  destruct (Z.eqb_spec (snd plan) 0) as [E|E].
  - destruct (Z.ltb_spec (hdr + p' + overhead) mn) as [Hl|Hl]; repeat split; lia.
  - repeat split; lia.
Qed.

Lemma paddedLen_ge ps hdr plen : plen <= paddedLen ps hdr plen.
Proof.
  unfold paddedLen. destruct (Z.gtb_spec ps 0); [|lia].
  destruct (Z.gtb_spec ps (hdr + plen + overhead)); lia.
Qed.

(** the datagram stays inside the connection's maximum packet size WHEN the spec's own sizes
    do (the code checks none of the three hypotheses) *)
Lemma append_le_max plan hdr pnLen plen udpMin maxSize lf pl dl rp :
  appendInitial plan hdr pnLen plen udpMin = AppOk lf pl dl rp ->
  hdr + plen + overhead <= maxSize ->
  snd plan <= maxSize ->
  (snd plan = 0 -> (if udpMin =? 0 then dfltUDPMin else udpMin) <= maxSize) ->
  dl <= maxSize.
Proof.
  unfold appendInitial, paddedLen. intros H Hfit Hps Hmin.
  destruct (Z.gtb_spec (snd plan) 0) as [Hp|Hp].
  - destruct (Z.gtb_spec (snd plan) (hdr + plen + overhead)) as [Hg|Hg];
    (match type of H with (if ?b then _ else _) = _ => destruct b; [discriminate|] end);
    (destruct (Z.eqb_spec (snd plan) 0); [lia|]); inversion H; subst; lia.
  - (match type of H with (if ?b then _ else _) = _ => destruct b; [discriminate|] end).
    destruct (Z.eqb_spec (snd plan) 0) as [E|E].
    + specialize (Hmin E).
      destruct (Z.ltb_spec (hdr + plen + overhead) (Z.min (if udpMin =? 0 then dfltUDPMin else udpMin) bufCap));
        inversion H; subst; lia.
    + inversion H; subst; lia.
Qed.

(** header protection needs 4 bytes of packet number + payload before the 16-byte sample *)
Lemma append_sample plan hdr pnLen plen udpMin lf pl dl rp :
  appendInitial plan hdr pnLen plen udpMin = AppOk lf pl dl rp ->
  4 <= pnLen + plen -> 20 <= lf.
Proof.
  intros H Hs. pose proof (append_fits_or_error plan hdr pnLen plen udpMin) as F. rewrite H in F.
  destruct F as (_ & _ & Hlf & _). pose proof (paddedLen_ge (snd plan) hdr plen). unfold overhead, upSealerOverhead in *. lia.
Qed.

(** * refutations (witnesses evaluated by the kernel) *)

(** frames that do not fit PacketSize: no error, the packet silently exceeds it *)
Lemma exact_size_overshoot_witness :
  appendInitial (0, 1200) 19 1 1200 0 = AppOk 1217 1235 1235 false.
Proof. vm_compute. reflexivity. Qed.

(** PacketSize above the connection's maximum packet size, inside the buffer: accepted *)
Lemma le_max_plan_witness :
  appendInitial (0, 1400) 19 1 1000 0 = AppOk 1382 1400 1400 false.
Proof. vm_compute. reflexivity. Qed.

(** UDPDatagramMinSize above the maximum packet size: the datagram is that large *)
Lemma le_max_udpmin_witness :
  appendInitial (0, 0) 22 1 516 1357 = AppOk 533 554 1357 false.
Proof. vm_compute. reflexivity. Qed.

(** regression (was: append() past the pooled buffer, Release() panicked): UDPDatagramMinSize
    above the buffer is refused by dial; in the packer the padding stops at the buffer's end *)
Lemma release_panic_regression :
  appendInitial (0, 0) 19 1 504 1500 = AppOk 521 539 1452 false.
Proof. vm_compute. reflexivity. Qed.

(** packet-number length list with InitPacketNumber = 2^64-1: the base is -1, so packet 0
    (packet number 0) takes entry 1 *)
Lemma pn_len_list_witness :
  peekPnLen [1; 2; 3] 0 (pnBase (two64 - 1)) (initialPN (two64 - 1) + 0) = 2.
Proof. vm_compute. reflexivity. Qed.

(** ... and with InitPacketNumber = 2^62 the base is 2^62 while the flight starts at 0, so
    every packet takes entry 0 *)
Lemma pn_len_list_witness2 :
  peekPnLen [1; 2; 3] 0 (pnBase two62) (initialPN two62 + 1) = 1.
Proof. vm_compute. reflexivity. Qed.

(** * InitialPacketSpec.validate *)

Lemma validateSpec_spec scid dcid ipn lens single udpMin plans maxPacket :
  validateSpec scid dcid ipn lens single udpMin plans maxPacket = true ->
  0 <= scid <= 20 /\ (dcid = 0 \/ 8 <= dcid <= 20) /\
  ipn <= two62 - 1 /\ ipn < 2 ^ (8 * firstPnLen lens single ipn) /\
  Forall (fun l => 1 <= l <= 4) lens /\ single <= 4 /\
  (udpMin = 0 \/ 1200 <= udpMin <= 1452) /\
  Forall (fun p => 0 <= fst p /\ (snd p = 0 \/ 1200 <= snd p <= maxPacket)) plans.
Proof.
  unfold validateSpec. intros H.
  apply andb_prop in H as [H Hplans]. apply andb_prop in H as [H Hudp].
  apply andb_prop in H as [H Hfit]. apply andb_prop in H as [H Hsingle].
  apply andb_prop in H as [H Hlens]. apply andb_prop in H as [H Hipn].
  apply andb_prop in H as [H Hdcid]. apply andb_prop in H as [Hs0 Hs1].
  unfold upMaxConnIDLen, upMinConnectionIDLenInitial, upMinInitialPacketSize, bufCap, upMaxPacketBufferSize in *.
  split; [lia|]. split.
  { apply Bool.orb_prop in Hdcid. destruct Hdcid as [E|E]; [left; lia|right]. apply andb_prop in E. lia. }
  split; [lia|]. split; [lia|]. split.
  { rewrite forallb_forall in Hlens. apply Forall_forall. intros l Hl. specialize (Hlens l Hl). unfold validPnLen in Hlens.
    apply andb_prop in Hlens. lia. }
  split; [lia|]. split.
  { apply Bool.orb_prop in Hudp. destruct Hudp as [E|E]; [left; lia|right]. apply andb_prop in E. lia. }
  rewrite forallb_forall in Hplans. apply Forall_forall. intros p Hp. specialize (Hplans p Hp). unfold validPlan in Hplans.
  apply andb_prop in Hplans. destruct Hplans as [Hf Hs]. split; [lia|].
  apply Bool.orb_prop in Hs. destruct Hs as [E|E]; [left; lia|right]. apply andb_prop in E. unfold upMinInitialPacketSize in E. lia.
Qed.

(** the first packet number of an accepted spec is InitPacketNumber itself and the list is
    indexed from it *)
Lemma validateSpec_pn scid dcid ipn lens single udpMin plans maxPacket :
  0 <= ipn -> validateSpec scid dcid ipn lens single udpMin plans maxPacket = true ->
  initialPN ipn = ipn /\ pnBase ipn = ipn /\
  peekPnLen lens single (pnBase ipn) (initialPN ipn) = firstPnLen lens single ipn.
Proof.
  intros H0 H. apply validateSpec_spec in H. destruct H as (_ & _ & Hi & _).
  destruct (initialPN_spec ipn) as [Hs _]; [unfold two62, two64 in *; lia|].
  rewrite Hs by lia. rewrite pnBase_small by lia. repeat split.
  unfold peekPnLen, firstPnLen. destruct lens as [|l0 lr].
  - rewrite Hs by lia. reflexivity.
  - replace (ipn - ipn) with 0 by lia.
    rewrite wrap64_small by (unfold two63; lia). cbn [Z.ltb Z.compare].
    set (L := l0 :: lr). assert (HL : (0 < length L)%nat) by (unfold L; simpl; lia).
    destruct (Z.geb_spec 0 (Z.of_nat (length L))); [lia|]. reflexivity.
Qed.

(** what dial refuses: the witnesses of the former findings *)
Lemma validate_rejects :
  validateSpec 0 8 two62 [1; 2; 3] 0 0 [] 1280 = false /\            (* InitPacketNumber 2^62 *)
  validateSpec 0 8 (two64 - 1) [1; 2; 3] 0 0 [] 1280 = false /\      (* InitPacketNumber 2^64-1 *)
  validateSpec 0 8 300 [] 1 0 [] 1280 = false /\                     (* 300 in one byte *)
  validateSpec 0 8 (two62 - 1) [4] 0 0 [] 1280 = false /\            (* 2^62-1: the next number would be 2^62 *)
  validateSpec 0 4 1 [] 1 0 [] 1280 = false /\                       (* DestConnIDLength 4 *)
  validateSpec 0 8 1 [] 1 600 [] 1280 = false /\                     (* UDPDatagramMinSize 600 *)
  validateSpec 0 8 1 [] 1 1500 [] 1280 = false /\                    (* UDPDatagramMinSize 1500 *)
  validateSpec 0 8 1 [] 1 0 [(0, 1400)] 1280 = false /\              (* PacketSize 1400 on a 1280 connection *)
  validateSpec 0 8 1 [1; 2] 0 0 [(999, 1200); (0, 1200)] 1280 = true /\  (* Chrome_146 with a plan *)
  validateSpec 3 8 0 [] 1 1357 [] 1280 = true.                        (* Firefox_116A *)
Proof. vm_compute. repeat split; reflexivity. Qed.

(** * validate, complete: the flight is realisable *)

(** what dial now refuses in addition (audit round): a synthesised token that leaves no room
    for a CRYPTO byte (was: nothing sent, the dial timed out without an error) and a
    CryptoLength its packet cannot hold (was: the stream was silently cut elsewhere, e.g. at
    1241 instead of 1300) *)
Lemma validate_room_regression :
  validateSpec 0 8 1 [] 1 0 [] 1280 = true /\ validateSpecT 0 8 1 [] 1 0 [] 1280 1300 = false /\
  validateSpecT 0 8 1 [] 1 0 [] 1280 1240 = false /\ validateSpecT 0 8 1 [] 1 0 [] 1280 1233 = true /\
  validateSpec 0 8 1 [] 1 0 [(1300, 0)] 1280 = true /\ validateSpecT 0 8 1 [] 1 0 [(1300, 0)] 1280 0 = false /\
  validateSpecT 0 8 1 [] 1 0 [(1160, 1200)] 1280 0 = false /\
  validateSpecT 0 8 1 [1; 2] 0 0 [(999, 1200); (0, 1200)] 1280 70 = true /\
  validateSpecT 3 8 0 [] 1 1357 [] 1280 0 = true.
Proof. vm_compute. repeat split; reflexivity. Qed.

Lemma validateSpecT_spec scid dcid ipn lens single udpMin plans maxPacket tokLen :
  validateSpecT scid dcid ipn lens single udpMin plans maxPacket tokLen = true ->
  validateSpec scid dcid ipn lens single udpMin plans maxPacket = true /\
  let mh := maxHdrLen scid dcid lens single tokLen in
  mh + 27 <= maxPacket /\
  Forall (fun p => mh + 27 <= planLimit maxPacket p /\
                   (0 < fst p -> mh + 1 + 4 + vlen (fst p) + fst p < planLimit maxPacket p - 16)) plans.
Proof.
  unfold validateSpecT, roomOk. intros H.
  apply andb_prop in H as [Hv H]. apply andb_prop in H as [H H3]. apply andb_prop in H as [H1 H2].
  split; [exact Hv|]. cbv zeta. split; [lia|].
  rewrite forallb_forall in H2, H3. apply Forall_forall. intros p Hp.
  specialize (H2 p Hp). specialize (H3 p Hp). split; [lia|].
  intros Hpos. apply Bool.orb_prop in H3. destruct H3 as [E|E]; lia.
Qed.
