(** Model of the uQUIC Initial flight (C10): what InitialPacketSpec does to the long header,
    the packet numbering, the token, the CRYPTO split and the packet / datagram sizes.

    Mirrors
      u_initial_packet_spec.go   initialPN, planFor, tokenLength, getTokenStore, dummyTokenStore.Pop
      u_transport.go             dial / doDial: spec validation, connection ID lengths, initial packet number
      u_connection.go            SetInitialPacketNumberLength(s) wiring, token pop
      internal/ackhandler/u_sent_packet_handler.go   PeekPacketNumber
      internal/wire/extended_header.go               GetLength (Initial)
      internal/wire/crypto_frame.go                  MaxDataLen, Length
      crypto_stream.go           baseCryptoStream.PopCryptoFrame
      packet_packer.go           maybeGetCryptoPacket (CRYPTO loop; no ACK, no retransmission)
      u_packet_packer.go         PackCoalescedPacket (Initial budget), appendInitialPacket,
                                 appendInitialPacketPayload, planInitialFlight, flightBudgets,
                                 initialFrameBudget, validateInitialFlight (size rule),
                                 packPlannedInitial

    Numbers are [Z]. The frame builder's output enters as an oracle: the length of the frame
    payload it returned for each datagram (-1: it returned an error); for the pass-through
    builders (nil / empty QUICFrames) the model computes the payload itself.
    Executable definitions only. *)
From Coq Require Import List ZArith Bool.
From V Require Import Gen.Params Lib.Hex Wire.Varint Wire.Headers Wire.FramesBase Wire.FramesStream PktProt.PktNum.
Import ListNotations.
Open Scope Z_scope.

Definition overhead : Z := upSealerOverhead.          (* sealer.Overhead() *)
Definition bufCap : Z := upMaxPacketBufferSize.       (* cap(buffer.Data) of getPacketBuffer() *)
Definition dfltUDPMin : Z := upDefaultUDPDatagramMinSize.
Definition paddingReserve : Z := 16.                  (* const in PackCoalescedPacket *)
Definition two62 : Z := 4611686018427387904.
Definition two63 : Z := 9223372036854775808.
Definition two64 : Z := 18446744073709551616.

(** ** u_initial_packet_spec.go *)

(** initialPN: [ipn] is the uint64 InitPacketNumber. *)
Definition initialPN (ipn : Z) : Z := if ipn >? two62 - 1 then 0 else ipn.

(** conversion uint64 / int64 difference -> int64 (two's complement) *)
Definition wrap64 (z : Z) : Z := let m := z mod two64 in if m >=? two63 then m - two64 else m.

(** protocol.PacketNumber(uSpec.InitialPacketSpec.InitPacketNumber) in newUClientConnection:
    the base handed to SetInitialPacketNumberLengths is NOT guarded like initialPN. *)
Definition pnBase (ipn : Z) : Z := wrap64 ipn.

Definition planFor (plans : list (Z * Z)) (idx : Z) : Z * Z :=
  match plans with
  | [] => (0, 0)
  | _ => let n := Z.of_nat (length plans) in
         nth (Z.to_nat (if idx >=? n then n - 1 else idx)) plans (0, 0)
  end.

Definition tokenLength (ctl : Z) (prefix : list Z) : Z := Z.max ctl (Z.of_nat (length prefix)).

(** dummyTokenStore.Pop: make(tokenLength); n := copy(data, prefix); rand.Read(data[n:]) — [tail]
    are the bytes the random source delivered. *)
Definition dummyPop (tlen : Z) (prefix tail : list Z) : list Z :=
  let d := firstn (Z.to_nat tlen) prefix in
  d ++ firstn (Z.to_nat tlen - length d) tail.

(** getTokenStore + UpdateConfig + the Pop in newUClientConnection.
    [expl]: the spec's explicit TokenStore (Some None: it pops nil); [conf]: what the
    Config-level store pops (None: no store / nil). Result None: SetToken is not called. *)
Definition resolveToken (expl : option (option (list Z))) (ctl : Z) (prefix tail : list Z)
           (conf : option (list Z)) : option (list Z) :=
  match expl with
  | Some t => t
  | None => if tokenLength ctl prefix >? 0 then Some (dummyPop (tokenLength ctl prefix) prefix tail)
            else conf
  end.

(** InitialPacketSpec.validate (called by UTransport.dial): what is refused before anything
    is sent.  [scid], [dcid]: SrcConnIDLength, DestConnIDLength; [maxPacket]: Config.InitialPacketSize. *)
Definition firstPnLen (lens : list Z) (single ipn : Z) : Z :=
  match lens with
  | l :: _ => l
  | [] => if negb (single =? 0) then single else lenForHeader (initialPN ipn) InvalidPacketNumber
  end.

Definition validPnLen (l : Z) : bool := (1 <=? l) && (l <=? 4).

Definition validPlan (maxPacket : Z) (p : Z * Z) : bool :=
  (0 <=? fst p) && ((snd p =? 0) || ((upMinInitialPacketSize <=? snd p) && (snd p <=? maxPacket))).

Definition validateSpec (scid dcid ipn : Z) (lens : list Z) (single udpMin : Z) (plans : list (Z * Z)) (maxPacket : Z) : bool :=
  (0 <=? scid) && (scid <=? upMaxConnIDLen)
  && ((dcid =? 0) || ((upMinConnectionIDLenInitial <=? dcid) && (dcid <=? upMaxConnIDLen)))
  && (ipn <=? two62 - 1)
  && forallb validPnLen lens && (single <=? 4)
  && (ipn <? 2 ^ (8 * firstPnLen lens single ipn))
  && ((udpMin =? 0) || ((upMinInitialPacketSize <=? udpMin) && (udpMin <=? bufCap)))
  && forallb (validPlan maxPacket) plans.

(** maxInitialHeaderLen: the longest header the spec can produce (library-chosen DCID: 20
    bytes; longest configured packet-number length, 4 for the default algorithm; [tokLen] = the
    synthesised token's length, 0 with an explicit TokenStore whose token is not known yet) *)
Definition maxPnLen (lens : list Z) (single : Z) : Z :=
  match lens with
  | [] => if single =? 0 then 4 else single
  | _ => fold_right Z.max 1 lens
  end.

Definition maxHdrLen (scid dcid : Z) (lens : list Z) (single tokLen : Z) : Z :=
  1 + 4 + 1 + (if dcid =? 0 then upMaxConnIDLen else dcid) + 1 + scid + maxPnLen lens single + 2 + (vlen tokLen + tokLen).

Definition planLimit (maxPacket : Z) (p : Z * Z) : Z :=
  if (snd p >? 0) && (snd p <? maxPacket) then snd p else maxPacket.

(** the flight is realisable: a CRYPTO byte fits every packet, a pinned split fits its packet *)
Definition roomOk (maxHdr maxPacket : Z) (plans : list (Z * Z)) : bool :=
  (* minCryptoFrame = type + offset varint (up to 8 bytes) + length + one data byte *)
  (maxHdr + 16 + 11 <=? maxPacket)
  && forallb (fun p => maxHdr + 16 + 11 <=? planLimit maxPacket p) plans
  && forallb (fun p => (fst p <=? 0) || (maxHdr + 1 + 4 + vlen (fst p) + fst p <? planLimit maxPacket p - 16)) plans.

(** InitialPacketSpec.validate, complete (the checks of [validateSpec] come first in the code
    except that negative CryptoLength / PacketSize range are tested after the room checks:
    the boolean is the same) *)
Definition validateSpecT (scid dcid ipn : Z) (lens : list Z) (single udpMin : Z) (plans : list (Z * Z)) (maxPacket tokLen : Z) : bool :=
  validateSpec scid dcid ipn lens single udpMin plans maxPacket
  && roomOk (maxHdrLen scid dcid lens single tokLen) maxPacket plans.

(** ** u_transport.go: connection ID lengths.  [drawn]: the length GenerateConnectionIDForInitial
    drew (8..20) when the spec does not pin it. *)
Definition dialScidLen (specScid : Z) : Z := if specScid =? 0 then 0 else specScid.
Definition dialDcidLen (specDcid drawn : Z) : Z := if specDcid >? 0 then specDcid else drawn.

(** ** uSentPacketHandler.PeekPacketNumber (Initial space, nothing acknowledged yet) *)
Definition peekPnLen (lens : list Z) (single base pn : Z) : Z :=
  match lens with
  | _ :: _ =>
    let idx := wrap64 (pn - base) in
    let idx := if idx <? 0 then 0 else idx in
    let n := Z.of_nat (length lens) in
    let idx := if idx >=? n then n - 1 else idx in
    nth (Z.to_nat idx) lens 0
  | [] => if negb (single =? 0) then single else lenForHeader pn InvalidPacketNumber
  end.

(** ** wire.ExtendedHeader.GetLength for an Initial packet *)
Definition hdrLen (dcid scid tokLen pnLen : Z) : Z :=
  1 + 4 + 1 + dcid + 1 + scid + pnLen + 2 + (vlen tokLen + tokLen).

(** ** the serialised long header: packetPacker.getLongHeader fills a wire.ExtendedHeader
    (type Initial, the connection's version, the packer's source connection ID, the current
    destination connection ID, the token, the peeked packet number and its length),
    appendInitialPacketPayload sets Length and calls ExtendedHeader.Append — C08's model
    [Wire.Headers.append_ext] (class 0 = no error, bytes) *)
Definition initialExt (ver : Z) (dcid scid token : list Z) (lf pn pnLen : Z) : exthdr :=
  mkExt (mkHeader 0 H_PacketTypeInitial ver scid dcid lf token 0) 0 pnLen pn 0.

Definition initialHeaderBytes (ver : Z) (dcid scid token : list Z) (lf pn pnLen : Z) : Z * list Z :=
  append_ext (initialExt ver dcid scid token lf pn pnLen) ver.

(** ** the frame payload of a pass-through datagram (nil / empty QUICFrames builder:
    MarshalInitialPacketPayload re-emits the popped CRYPTO frames; appendInitialPacketPayload adds
    exact-size PADDING), bytes via C08's wire.CryptoFrame model [body_crypto] *)
Definition zslice (data : list Z) (off len : Z) : list Z := firstn (Z.to_nat len) (skipn (Z.to_nat off) data).

(** the wire image of one popped CRYPTO frame (offset, length) over the stream [data] *)
Definition cryptoEnc (data : list Z) (f : Z * Z) : list Z :=
  FT_Crypto :: body_crypto (fst f) (zslice data (fst f) (snd f)).

(** payload of a pass-through datagram: the popped frames, then [pad] bytes of PADDING *)
Definition passPayload (data : list Z) (frames : list (Z * Z)) (pad : Z) : list Z :=
  concat (map (cryptoEnc data) frames) ++ repeat 0 (Z.to_nat pad).

(** ** wire.CryptoFrame *)
Definition maxDataLen (off m : Z) : Z :=
  let hl := 1 + vlen off + 1 in
  if hl >? m then 0
  else let d := m - hl in if negb (vlen d =? 1) then d - 1 else d.

Definition cframeLen (off n : Z) : Z := 1 + vlen off + vlen n + n.

(** ** maybeGetCryptoPacket's loop over baseCryptoStream.PopCryptoFrame.
    [off] = writeOffset, [rem] = len(writeBuf), [m] = remaining maxPacketSize.
    Returns the frames (offset, length), the new offset and what is left queued. *)
Fixpoint popLoop (fuel : nat) (off rem m : Z) : list (Z * Z) * Z * Z :=
  match fuel with
  | O => ([], off, rem)
  | S f =>
    if rem <=? 0 then ([], off, rem)
    else
      let n := Z.min (maxDataLen off m) rem in
      if n <=? 0 then ([], off, rem)
      else
        let '(fs, off', rem') := popLoop f (off + n) (rem - n) (m - cframeLen off n) in
        ((off, n) :: fs, off', rem')
  end.

Definition framesLen (fs : list (Z * Z)) : Z :=
  fold_right (fun f acc => cframeLen (fst f) (snd f) + acc) 0 fs.

(** ** frame builders, by what the packer's type switches see *)
Inductive bkind :=
| BPass                       (* nil or empty QUICFrames: the popped frames are re-emitted as they are *)
| BPlain                      (* QUICFrameBuilder only: initialDatagramIdx never advances *)
| BEx                         (* QUICFrameBuilderEx *)
| BRandom (rfs : list (Z * Z * Z * Z))
    (* *QUICRandomFrames (one entry) or *QUICMultiDatagramFrames (PerDatagram): per entry
       (Length, MinPADDING, largest PING count, largest CRYPTO count) *)
| BFlight.                    (* QUICFlightFrameBuilder *)

(** randomFramesForDatagram: the entry for datagram idx (last one repeats) *)
Definition rfFor (rfs : list (Z * Z * Z * Z)) (idx : Z) : option (Z * Z * Z * Z) :=
  match rfs with
  | [] => None
  | _ => let n := Z.of_nat (length rfs) in
         let i := if idx <? 0 then 0 else idx in
         Some (nth (Z.to_nat (if i >=? n then n - 1 else i)) rfs (0, 0, 0, 0))
  end.

(** QUICRandomFrames.maxCryptoData: the CRYPTO bytes that can always be re-framed within
    Length, leaving MinPADDING bytes, for every draw of the PING and CRYPTO counts *)
Definition maxCryptoData (rf : Z * Z * Z * Z) (off : Z) : Z :=
  let '(len, minpad, maxping, maxcrypto) := rf in
  let perFrame := 1 + vlen (off + len) + vlen len in
  Z.max (len - maxping - minpad - Z.max maxcrypto 1 * perFrame) 0.

(** ** PackCoalescedPacket: the Initial packet's size budget.
    [idx] = initialDatagramIdx.  A PacketSize below the maximum packet size caps the packet;
    then CryptoLength pins the CRYPTO bytes, else a random builder gets what it can always
    re-frame within its Length; each cap only when 0 < budget < the packet's maximum. *)
Definition initialBudget (hdr off maxSize : Z) (plan : Z * Z) (bk : bkind) (idx : Z) : Z :=
  let ps := snd plan in
  let ims := (if (ps >? 0) && (ps <? maxSize) then ps else maxSize) - overhead in
  let cl := fst plan in
  if cl >? 0 then
    let b := hdr + (1 + vlen off + vlen cl + cl) in
    if (b >? 0) && (b <? ims) then b else ims
  else
    match bk with
    | BRandom rfs =>
      match rfFor rfs idx with
      | Some rf =>
        let '(len, minpad, _, _) := rf in
        if (len >? 0) && (minpad >=? 1) then
          let n := maxCryptoData rf off in
          if n >? 0 then
            let b := hdr + (1 + vlen off + vlen n + n) in
            if (b >? 0) && (b <? ims) then b else ims
          else ims
        else ims
      | None => ims
      end
    | _ => ims
    end.

(** ** appendInitialPacketPayload: sizes only.
    [plen] = len(uPayload) as the builder returned it. *)
Inductive appres :=
| AppErr                                                  (* "does not fit the packet buffer" *)
| AppOk (lengthField packetLen dgramLen : Z) (relPanic : bool).
    (* relPanic: releasing the buffer panics -- never since the UDP-minimum padding is kept
       inside the buffer; the harness still observes it *)

Definition paddedLen (ps hdr plen : Z) : Z :=
  if ps >? 0 then
    let cur := hdr + plen + overhead in
    if ps >? cur then plen + (ps - cur) else plen
  else plen.

Definition appendInitial (plan : Z * Z) (hdr pnLen plen udpMin : Z) : appres :=
  let ps := snd plan in
  let plen' := paddedLen ps hdr plen in
  let lf := pnLen + overhead + plen' in
  let pl := hdr + plen' + overhead in
  if pl >? bufCap then AppErr
  else if ps =? 0 then
    (* the padding stays inside the pooled buffer (minUDPSize = min(minUDPSize, cap)) *)
    let mn := Z.min (if udpMin =? 0 then dfltUDPMin else udpMin) bufCap in
    if pl <? mn then AppOk lf pl mn false
    else AppOk lf pl pl false
  else AppOk lf pl pl false.

(** ** the flight *)
Record cfg := {
  c_dcid : Z; c_scid : Z;            (* connection ID lengths on the wire *)
  c_ipn : Z;                         (* InitPacketNumber (uint64): the index base of the length list *)
  c_first : Z;                       (* the packet number the connection's Initial space is seeded with:
                                        initialPN(InitPacketNumber) on a first connection, the previous
                                        connection's next packet number on the one a Dial re-creates after
                                        Version Negotiation *)
  c_lens : list Z; c_single : Z;     (* InitPacketNumberLengths, InitPacketNumberLength *)
  c_tokLen : Z;                      (* length of the token the packer was given (0: none) *)
  c_bk : bkind;
  c_plans : list (Z * Z);            (* (CryptoLength, PacketSize) *)
  c_udpMin : Z; c_maxSize : Z
}.

Inductive dgres :=
| DG (pn pnLen hdr : Z) (frames : list (Z * Z)) (lengthField packetLen dgramLen idxAfter : Z) (relPanic : bool)
| DGErr (cls : Z).   (* 1: does not fit the packet buffer; 2: the builder / flight validation failed *)

Definition pnOf (c : cfg) (i : Z) : Z := c_first c + i.
Definition pnLenOf (c : cfg) (i : Z) : Z := peekPnLen (c_lens c) (c_single c) (pnBase (c_ipn c)) (pnOf c i).
Definition hdrOf (c : cfg) (i : Z) : Z := hdrLen (c_dcid c) (c_scid c) (c_tokLen c) (pnLenOf c i).

(** per-datagram path (every builder but a flight builder).
    [i]: Initial packets sent so far; [idx]: uPacketPacker.initialDatagramIdx (equal to i
    during the first flight; kept separate as in the code). *)
Fixpoint flightLoop (fuel : nat) (c : cfg) (plens : list Z) (i idx off rem : Z) : list dgres :=
  match fuel with
  | O => if rem <=? 0 then [] else [DGErr 98]   (* out of fuel (model artefact, excluded by
                                                  flight_fuel_sufficient): the code has no bound *)
  | S f =>
    let pnLen := pnLenOf c i in
    let hdr := hdrOf c i in
    let plan := planFor (c_plans c) idx in
    let m := initialBudget hdr off (c_maxSize c) plan (c_bk c) idx - hdr in
    let '(frames, off', rem') := popLoop 4 off rem m in
    match frames with
    | [] => []                                   (* nothing to send: PackCoalescedPacket returns nil *)
    | _ =>
      let plen := match c_bk c with
                  | BPass => framesLen frames
                  | _ => nth 0 plens (-1)
                  end in
      let idx' := idx + 1 in       (* MarshalInitialPacketPayload: one datagram per call, every builder kind *)
      if plen <? 0 then [DGErr 2]
      else
        match appendInitial plan hdr pnLen plen (c_udpMin c) with
        | AppErr => [DGErr 1]
        | AppOk lf pl dl rp =>
          DG (pnOf c i) pnLen hdr frames lf pl dl idx' rp
          :: flightLoop f c (tl plens) (i + 1) idx' off' rem'
        end
    end
  end.

(** initialFrameBudget / flightBudgets: the header is the one datagram i's packet will have
    (the entry of InitPacketNumberLengths PeekPacketNumber selects for it); without a list,
    the one of the packet number peeked when the flight is planned *)
Definition budgetHdr (c : cfg) (i : Z) : Z :=
  match c_lens c with
  | [] => hdrOf c 0
  | _ => hdrOf c i
  end.

Definition frameBudget (c : cfg) (i size : Z) : Z := Z.max (size - budgetHdr c i - overhead) 0.

Definition nBudgets (c : cfg) (cryptoLen : Z) : Z :=
  let n := Z.of_nat (length (c_plans c)) in
  if n =? 0 then
    let b := frameBudget c 0 (c_maxSize c) in
    Z.max (if b >? 0 then (cryptoLen + b - 1) / b else 0) 1
  else n.

Definition budgetAt (c : cfg) (i : Z) : Z :=
  let ps := snd (planFor (c_plans c) i) in
  frameBudget c i (if ps >? 0 then ps else c_maxSize c).

Fixpoint zseq (n : nat) (from : Z) : list Z :=
  match n with O => [] | S k => from :: zseq k (from + 1) end.

Definition flightBudgets (c : cfg) (cryptoLen : Z) : list Z :=
  map (budgetAt c) (zseq (Z.to_nat (nBudgets c cryptoLen)) 0).

(** validateInitialFlight, the size rule (coverage and well-formedness are the builder's). *)
Fixpoint sizeRuleOk (budgets : list Z) (n : Z) (i : Z) (plens : list Z) : bool :=
  match plens with
  | [] => true
  | p :: r =>
    let b := nth (Z.to_nat (Z.min i (n - 1))) budgets 0 in
    if (b >? 0) && (p >? b) then false else sizeRuleOk budgets n (i + 1) r
  end.

(** packPlannedInitial, one call per planned payload *)
Fixpoint plannedLoop (c : cfg) (plens : list Z) (i : Z) : list dgres :=
  match plens with
  | [] => []
  | plen :: r =>
    let pnLen := pnLenOf c i in
    let hdr := hdrOf c i in
    match appendInitial (planFor (c_plans c) i) hdr pnLen plen (c_udpMin c) with
    | AppErr => [DGErr 1]
    | AppOk lf pl dl rp => DG (pnOf c i) pnLen hdr [] lf pl dl (i + 1) rp :: plannedLoop c r (i + 1)
    end
  end.

Definition flightPlanned (c : cfg) (helloLen : Z) (plens : list Z) : list dgres :=
  if helloLen <=? 0 then []
  else
    match plens with
    | [] => [DGErr 2]                      (* "BuildFlight returned no Initial datagrams" *)
    | p0 :: _ =>
      if p0 <? 0 then [DGErr 2]            (* BuildFlight returned an error *)
      else
        let bs := flightBudgets c helloLen in
        if sizeRuleOk bs (Z.of_nat (length bs)) 0 plens then plannedLoop c plens 0 else [DGErr 2]
    end.

(** There is no bound on the number of Initial datagrams in the code (the connection calls
    PackCoalescedPacket until it returns nil).  Every datagram carries at least one CRYPTO byte,
    so helloLen + 1 steps always suffice: the fuel never runs out (flight_fuel_sufficient). *)
Definition flightFuel (helloLen : Z) : nat := S (Z.to_nat helloLen).

Definition flight (c : cfg) (helloLen : Z) (plens : list Z) : list dgres :=
  match c_bk c with
  | BFlight => flightPlanned c helloLen plens
  | _ => flightLoop (flightFuel helloLen) c plens 0 0 0 helloLen
  end.
