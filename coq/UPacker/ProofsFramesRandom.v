(** C10 proofs, part 8: the frames a server reads from the payload of a RE-FRAMING builder:
    C09's wire image of a builder's output ([UFrames.Model.encode]: PING, PADDING and CRYPTO
    frames in the builder's order) parsed with C08's frame codec ([Wire.Frames.parse_next]
    iterated by [parseAll]) gives back exactly the PING and CRYPTO frames, PADDING skipped;
    for QUICRandomFrames.buildInternal these CRYPTO frames tile the slice it was handed with
    the ClientHello's bytes (C09's exact_cover). *)
From Coq Require Import List ZArith Bool Lia Permutation.
From V Require Import Gen.Params Lib.Hex Wire.Varint Wire.VarintProofs.
From V Require Wire.FramesBase Wire.FramesStream Wire.FramesStreamProofs Wire.FramesCtl Wire.Frames Wire.FramesProofs.
From V Require UFrames.Model UFrames.Proofs UFrames.ProofsLength.
From V Require Import UPacker.Model UPacker.ProofsFrames UPacker.ProofsRandom.
Import ListNotations.
Open Scope Z_scope.

Module W := Wire.FramesBase.
Module WF := Wire.Frames.
Module U := UFrames.Model.

(** what the receiver gets for each builder frame *)
Definition wireFrames (ws : list U.wframe) : list W.frame :=
  flat_map (fun w => match w with
                     | U.WPing => [W.FPing]
                     | U.WPad _ => []
                     | U.WCrypto o d => [W.FCrypto o d]
                     end) ws.

Definition wvalid (ws : list U.wframe) : Prop :=
  Forall (fun w => match w with U.WCrypto o d => vwf o /\ vwf (zlen d) | _ => True end) ws.

Lemma ping_allowed c : WF.type_valid c FT_Ping = true /\ WF.type_allowed W_EncryptionInitial FT_Ping = true.
Proof. split; reflexivity. Qed.

Lemma parse_next_ping c rest : WF.parse_next c W_EncryptionInitial ([1] ++ rest) = W.Ok (W.FPing, 1, rest).
Proof.
  destruct (ping_allowed c) as [Hv Ha].
  apply (Wire.FramesProofs.frame_roundtrip c W_EncryptionInitial W.FPing [1] rest).
  - cbn. exact I.
  - reflexivity.
  - exact Hv.
  - exact Ha.
  - discriminate.
Qed.

Lemma parse_next_crypto_gen c o d rest : vwf o -> vwf (zlen d) ->
  WF.parse_next c W_EncryptionInitial ((6 :: vappend o ++ vappend (zlen d) ++ d) ++ rest)
  = W.Ok (W.FCrypto o d, zlen (6 :: vappend o ++ vappend (zlen d) ++ d), rest).
Proof.
  intros Ho Hd. destruct (crypto_allowed c) as [Hv Ha].
  apply (Wire.FramesProofs.frame_roundtrip c W_EncryptionInitial (W.FCrypto o d) (6 :: vappend o ++ vappend (zlen d) ++ d) rest).
  - split; assumption.
  - reflexivity.
  - exact Hv.
  - exact Ha.
  - discriminate.
Qed.

(** PADDING in front changes neither the frame found nor the kind of end *)
Lemma parse_next_zeros c lvl k b :
  match WF.parse_next c lvl b with
  | W.Ok (f, _, rest) => exists n, WF.parse_next c lvl (repeat 0 k ++ b) = W.Ok (f, n, rest)
  | W.Err e _ => exists n, WF.parse_next c lvl (repeat 0 k ++ b) = W.Err e n
  end.
Proof.
  unfold WF.parse_next. rewrite app_length, repeat_length.
  rewrite Wire.FramesProofs.parse_type_padding, Wire.FramesProofs.parse_type_shift.
  destruct (WF.parse_type (length b) c lvl b 0) as [[[t m] r]|e m]; cbn [Wire.FramesProofs.shift_res].
  - destruct (WF.parse_body c lvl t r) as [[f' rest']|e m']; eexists; reflexivity.
  - eexists. reflexivity.
Qed.

Lemma parseAll_zeros fuel c k b :
  parseAll fuel c W_EncryptionInitial (repeat 0 k ++ b) = parseAll fuel c W_EncryptionInitial b.
Proof.
  destruct fuel as [|f]; [reflexivity|]. cbn [parseAll].
  pose proof (parse_next_zeros c W_EncryptionInitial k b) as H.
  destruct (WF.parse_next c W_EncryptionInitial b) as [[[fr n] rest]|e n].
  - destruct H as [n' ->]. reflexivity.
  - destruct H as [n' ->]. reflexivity.
Qed.

(** the receiver's view of any builder output *)
Lemma parseAll_encode c : forall ws fuel,
  wvalid ws -> (length (wireFrames ws) < fuel)%nat ->
  parseAll fuel c W_EncryptionInitial (U.encode ws) = Some (wireFrames ws).
Proof.
  induction ws as [|w r IH]; intros fuel Hv Hf.
  - destruct fuel as [|f]; [cbn in Hf; lia|]. reflexivity.
  - inversion Hv as [|? ? Hw Hr]; subst.
    unfold U.encode. cbn [map concat]. fold (U.encode r).
    destruct w as [|k|o d]; cbn [U.enc_w wireFrames flat_map app] in *; fold (wireFrames r) in *.
    + destruct fuel as [|f]; [lia|]. cbn [parseAll].
      change (1 :: U.encode r) with ([1] ++ U.encode r). rewrite parse_next_ping.
      rewrite (IH f Hr ltac:(cbn [length] in Hf; lia)). reflexivity.
    + unfold U.zeros. rewrite parseAll_zeros. apply IH; assumption.
    + destruct fuel as [|f]; [lia|]. cbn [parseAll].
      change (6 :: (vappend o ++ vappend (zlen d) ++ d) ++ U.encode r)
        with ((6 :: vappend o ++ vappend (zlen d) ++ d) ++ U.encode r).
      destruct Hw as [Ho Hd]. rewrite (parse_next_crypto_gen c o d (U.encode r) Ho Hd).
      rewrite (IH f Hr ltac:(cbn [length] in Hf; lia)). reflexivity.
Qed.

Lemma cvalid_wvalid ws : cvalid (UFrames.Proofs.wcryptos ws) -> wvalid ws.
Proof.
  induction ws as [|w r IH]; intros H; [constructor|].
  destruct w as [|k|o d]; cbn [UFrames.Proofs.wcryptos flat_map app] in H.
  - constructor; [exact I|apply IH; exact H].
  - constructor; [exact I|apply IH; exact H].
  - inversion H as [|? ? Hp Hr]; subst. cbn [fst snd] in Hp.
    constructor; [|apply IH; exact Hr]. assert (0 <= zlen d) by (unfold zlen; lia). unfold vwf. lia.
Qed.

(** QUICRandomFrames.buildInternal, every draw: a server parsing the payload reads exactly the
    builder's PING and CRYPTO frames, and the CRYPTO frames partition the slice
    [base, base+|data|) with the ClientHello's bytes *)
Lemma random_payload_parses c p data base bs us ws bs' us' :
  UFrames.Proofs.rf_wf p -> 0 <= base -> base + zlen data <= maxVarInt8 ->
  U.build_internal p data base bs us = U.Ok (ws, bs', us') ->
  parseAll (S (length ws)) c W_EncryptionInitial (U.encode ws) = Some (wireFrames ws) /\
  UFrames.Proofs.exact_cover data base ws.
Proof.
  intros Hwf Hb Hmx Hbuild.
  pose proof (UFrames.Proofs.build_internal_exact p data base bs us Hwf Hb Hmx) as Hex. rewrite Hbuild in Hex.
  destruct Hex as [Hcover Hpads]. split; [|exact Hcover].
  destruct Hcover as (ps & Hperm & Hch & Hcat).
  assert (Hcv : cvalid ps).
  { assert (0 <= zlen data) by (unfold zlen; lia).
    destruct (chained_ctotal ps base maxVarInt8 maxVarInt8 Hch Hb) as [_ Hc]; try (rewrite Hcat; fold (zlen data); lia); try lia.
    exact Hc. }
  apply parseAll_encode.
  - apply cvalid_wvalid. eapply cvalid_perm; [apply Permutation_sym; exact Hperm|exact Hcv].
  - assert (length (wireFrames ws) <= length ws)%nat.
    { clear. induction ws as [|w r IH]; [cbn; lia|]. destruct w; cbn [wireFrames flat_map app length] in *; fold (wireFrames r); lia. }
    lia.
Qed.
