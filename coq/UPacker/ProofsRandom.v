(** C10 proofs, part 4: a QUICRandomFrames payload is exactly Length bytes long when the packer
    hands the builder no more than maxCryptoData bytes — C09's model of buildInternal
    (coq/UFrames, tied to the code by unit uframes) composed with the reserve arithmetic of
    PackCoalescedPacket (tied by unit upacker).  No oracle for the payload length is left. *)
From Coq Require Import List ZArith Bool Lia Permutation.
From V Require Import Gen.Params Lib.Hex Wire.Varint Wire.VarintProofs
     UFrames.Model UFrames.ProofsBase UFrames.Proofs UFrames.ProofsLength UFrames.ProofsCounts
     UPacker.Model UPacker.ProofsSize UPacker.ProofsFlight.
Import ListNotations.
Open Scope Z_scope.

(** bytes of the CRYPTO frames of a payload *)
Fixpoint ctotal (ps : list (Z * list Z)) : Z :=
  match ps with
  | [] => 0
  | (o, d) :: r => 1 + vlen o + vlen (zlen d) + zlen d + ctotal r
  end.

Lemma ctotal_perm a b : Permutation a b -> ctotal a = ctotal b.
Proof.
  induction 1 as [|[o d] l l' _ IH|[o d] [o' d'] l|l l' l'' _ IH1 _ IH2]; cbn [ctotal]; lia.
Qed.

Lemma ctotal_app a b : ctotal (a ++ b) = ctotal a + ctotal b.
Proof. induction a as [|[o d] r IH]; cbn [ctotal app]; lia. Qed.

Definition cvalid (ps : list (Z * list Z)) : Prop :=
  Forall (fun p => 0 <= fst p <= maxVarInt8 /\ zlen (snd p) <= maxVarInt8) ps.

(** a payload is its PADDING bytes + one byte per PING + its CRYPTO frames *)
Lemma total_split ws : wpads_ok ws -> cvalid (wcryptos ws) ->
  total ws = wpadbytes ws + zlen (wpings ws) + ctotal (wcryptos ws).
Proof.
  induction ws as [|w r IH]; intros Hp Hc; [reflexivity|].
  inversion Hp as [|? ? Hw Hr]; subst.
  destruct w as [|k|o d]; cbn [total enc_w wpadbytes wpings wcryptos flat_map app ctotal] in *;
    fold (wpings r) in *; fold (wcryptos r) in *.
  - rewrite IH by assumption. unfold zlen. cbn [length]. lia.
  - rewrite IH by assumption. unfold zeros, zlen. rewrite repeat_length. cbn [length]. lia.
  - inversion Hc as [|? ? Ho Hc']; subst. cbn [fst snd] in Ho.
    rewrite IH by assumption.
    unfold zlen at 1. cbn [length]. rewrite !app_length.
    pose proof (vappend_length o ltac:(unfold vwf; lia)) as E1.
    pose proof (vappend_length (zlen d) ltac:(unfold vwf; pose proof (zlen_nonneg d); lia)) as E2.
    unfold zlen in *. lia.
Qed.

(** consecutive CRYPTO ranges starting at o, ending at most at B, each at most L long *)
Lemma chained_ctotal ps : forall o B L,
  chained o ps -> 0 <= o -> o + zlen (concat (map snd ps)) <= B -> B <= maxVarInt8 ->
  zlen (concat (map snd ps)) <= L -> L <= maxVarInt8 ->
  ctotal ps <= Z.of_nat (length ps) * (1 + vlen B + vlen L) + zlen (concat (map snd ps)) /\ cvalid ps.
Proof.
  induction ps as [|[o' d] r IH]; intros o B L Hch Ho HB HBm HL HLm.
  - cbn. split; [lia|constructor].
  - cbn [chained] in Hch. destruct Hch as [-> Hch].
    cbn [map concat snd] in *. rewrite zlen_app in *.
    pose proof (zlen_nonneg d) as Hd. pose proof (zlen_nonneg (concat (map snd r))) as Hr.
    destruct (IH (o + zlen d) B L Hch ltac:(lia) ltac:(lia) HBm ltac:(lia) HLm) as [IH1 IH2].
    split.
    + cbn [ctotal length]. rewrite Nat2Z.inj_succ.
      pose proof (vlen_mono o B ltac:(lia) HBm). pose proof (vlen_mono (zlen d) L ltac:(lia) HLm).
      pose proof (vlen_nonneg B). pose proof (vlen_nonneg L). lia.
    + constructor; [cbn [fst snd]; lia|exact IH2].
Qed.

Lemma cvalid_perm a b : Permutation a b -> cvalid a -> cvalid b.
Proof. intros P H. unfold cvalid in *. eapply Permutation_Forall; eassumption. Qed.

(** the model's view of a QUICRandomFrames, as the packer's budget uses it *)
Definition rfTuple (p : rf) : Z * Z * Z * Z :=
  (rfLen p, minPad p, Z.max (minPing p) (maxPing p - 1), Z.max (minCrypto p) (maxCrypto p - 1)).

(** QUICRandomFrames.buildInternal on a slice of at most maxCryptoData bytes: for every draw of
    both randomness oracles the payload is exactly Length bytes long and carries at least
    MinPADDING bytes of PADDING. *)
Lemma random_payload_exact p data base bs us ws bs' us' :
  rf_wf p -> 0 <= base -> 0 < rfLen p -> 1 <= minPad p -> base + rfLen p <= maxVarInt8 ->
  0 < zlen data <= maxCryptoData (rfTuple p) base ->
  build_internal p data base bs us = Ok (ws, bs', us') ->
  zlen (encode ws) = rfLen p /\ minPad p <= wpadbytes ws.
Proof.
  intros Hwf Hb Hlen Hpad Hmax [Hd0 Hd] Hbuild.
  assert (HdL : zlen data <= rfLen p).
  { unfold rfTuple, maxCryptoData in Hd.
    pose proof (vlen_nonneg (base + rfLen p)). pose proof (vlen_nonneg (rfLen p)).
    destruct Hwf as (H1 & _).
    assert (0 <= Z.max (Z.max (minCrypto p) (maxCrypto p - 1)) 1 * (1 + vlen (base + rfLen p) + vlen (rfLen p))) by nia.
    lia. }
  assert (Hmx : base + zlen data <= maxVarInt8) by lia.
  pose proof (build_internal_exact p data base bs us Hwf Hb Hmx) as Hex.
  pose proof (build_internal_counts p data base bs us Hwf Hb Hmx) as Hcnt.
  pose proof (build_internal_length p data base bs us Hwf Hb Hmx) as Hl.
  rewrite Hbuild in Hex, Hcnt, Hl.
  destruct Hex as [(ps & Hperm & Hch & Hcat) Hpads].
  destruct Hcnt as [Hping Hcry]. destruct Hl as [Hge Heq].
  assert (Hcat' : zlen (concat (map snd ps)) = zlen data) by (rewrite Hcat; reflexivity).
  destruct (chained_ctotal ps base (base + rfLen p) (rfLen p) Hch Hb ltac:(lia) Hmax ltac:(lia) ltac:(lia)) as [Hct Hcv].
  assert (Hcv' : cvalid (wcryptos ws)) by (eapply cvalid_perm; [apply Permutation_sym; exact Hperm|exact Hcv]).
  rewrite zlen_encode in *. rewrite (total_split ws Hpads Hcv') in *.
  rewrite (ctotal_perm _ _ Hperm) in *.
  assert (Hcount : Z.of_nat (length ps) <= Z.max (Z.max (minCrypto p) (maxCrypto p - 1)) 1).
  { unfold crypto_bounds in Hcry. destruct (Z.eqb_spec (zlen data) 0); [lia|].
    assert (E : zlen (wcryptos ws) = Z.of_nat (length ps)) by (unfold zlen; rewrite (Permutation_length Hperm); reflexivity).
    lia. }
  unfold ping_bounds in Hping.
  unfold rfTuple, maxCryptoData in Hd.
  set (perFrame := 1 + vlen (base + rfLen p) + vlen (rfLen p)) in *.
  assert (Hpf : 0 <= perFrame) by (subst perFrame; pose proof (vlen_nonneg (base + rfLen p)); pose proof (vlen_nonneg (rfLen p)); lia).
  assert (Hmul : Z.of_nat (length ps) * perFrame <= Z.max (Z.max (minCrypto p) (maxCrypto p - 1)) 1 * perFrame)
    by (apply Z.mul_le_mono_nonneg_r; lia).
  assert (Hwp : 0 <= wpadbytes ws).
  { clear -Hpads. induction Hpads as [|w r Hw _ IH]; [cbn; lia|]. destruct w; cbn [wpadbytes]; lia. }
  assert (Hnon : zlen (wpings ws) + ctotal ps <= rfLen p - minPad p) by lia.
  assert (Hpos : 0 < wpadbytes ws) by lia.
  specialize (Heq Hpos). split; lia.
Qed.

(** non-vacuity: Chrome_146's builder on a full 1145-byte slice, with concrete oracle streams *)
Definition ex_p : rf := mkRF 1 4 6 14 2 6 1215.
Definition ex_bs : list Z := map (fun i => (Z.of_nat i * 37 + 11) mod 256) (seq 0 2000).
Definition ex_us : list Z := map (fun i => (Z.of_nat i * 7919 + 13) mod 2147483648) (seq 0 200).

Lemma random_payload_example :
  rf_wf ex_p /\ maxCryptoData (rfTuple ex_p) 0 = 1145 /\
  match build_internal ex_p (repeat 7 1145%nat) 0 ex_bs ex_us with
  | Ok (ws, _, _) => zlen (encode ws) = 1215 /\ wpadbytes ws = 23
  | _ => False
  end.
Proof. split; [vm_compute; repeat split; congruence|]. split; vm_compute; [reflexivity|split; reflexivity]. Qed.
