(** C10 proofs, part 7: the frames a server reads from the payload of a pass-through Initial
    packet, with C08's frame codec (coq/Wire/Frames, tied to the code by unit frames):
    the payload the nil / empty-QUICFrames builder emits is the CRYPTO frames the packer popped,
    carrying the ClientHello bytes of their ranges, followed by exact-size PADDING; parsing it
    frame by frame at the Initial level yields exactly those CRYPTO frames. *)
From Coq Require Import List ZArith Bool Lia.
From V Require Import Gen.Params Lib.Hex Wire.Varint Wire.VarintProofs Wire.FramesBase Wire.FramesStream
     Wire.FramesStreamProofs Wire.Frames Wire.FramesProofs UPacker.Model.
Import ListNotations.
Open Scope Z_scope.

(** the receiver's loop (Conn.handleFrames: parse the next frame until the parser reports the
    end of the packet, class 1 = io.EOF after optional PADDING) *)
Fixpoint parseAll (fuel : nat) (c : Frames.cfg) (lvl : Z) (b : list Z) : option (list frame) :=
  match fuel with
  | O => None
  | S f =>
    match parse_next c lvl b with
    | Ok (fr, _, rest) => match parseAll f c lvl rest with Some l => Some (fr :: l) | None => None end
    | Err 1 _ => Some []
    | Err _ _ => None
    end
  end.

Lemma crypto_allowed c : type_valid c FT_Crypto = true /\ type_allowed W_EncryptionInitial FT_Crypto = true.
Proof. split; reflexivity. Qed.

Lemma zslice_length data off len : 0 <= off -> 0 <= len -> off + len <= zlen data -> zlen (zslice data off len) = len.
Proof.
  intros Ho Hl Hd. unfold zslice, zlen in *. rewrite firstn_length, skipn_length. lia.
Qed.

Lemma parse_next_crypto c data f rest :
  vwf (fst f) -> vwf (zlen (zslice data (fst f) (snd f))) ->
  parse_next c W_EncryptionInitial (cryptoEnc data f ++ rest)
  = Ok (FCrypto (fst f) (zslice data (fst f) (snd f)), zlen (cryptoEnc data f), rest).
Proof.
  intros Ho Hd. destruct (crypto_allowed c) as [Hv Ha].
  apply (frame_roundtrip c W_EncryptionInitial (FCrypto (fst f) (zslice data (fst f) (snd f))) (cryptoEnc data f) rest).
  - split; assumption.
  - reflexivity.
  - exact Hv.
  - exact Ha.
  - discriminate.
Qed.

Lemma parse_next_only_padding c lvl k : exists n, parse_next c lvl (repeat 0 k) = Err 1 n.
Proof.
  unfold parse_next. rewrite repeat_length.
  pose proof (parse_type_padding k 0 c lvl [] 0) as H. rewrite app_nil_r, Nat.add_0_r in H. rewrite H.
  cbn [parse_type]. eexists. reflexivity.
Qed.

(** a server parsing the payload of a pass-through datagram reads exactly the popped CRYPTO
    frames with the stream's bytes *)
Lemma parse_passPayload c data : forall frames pad,
  Forall (fun f => 0 <= fst f <= maxVarInt8 /\ 0 <= snd f /\ fst f + snd f <= zlen data /\ snd f <= maxVarInt8) frames ->
  parseAll (S (length frames)) c W_EncryptionInitial (passPayload data frames pad)
  = Some (map (fun f => FCrypto (fst f) (zslice data (fst f) (snd f))) frames).
Proof.
  induction frames as [|f r IH]; intros pad H.
  - unfold passPayload. cbn [map concat app length parseAll].
    destruct (parse_next_only_padding c W_EncryptionInitial (Z.to_nat pad)) as [n ->]. reflexivity.
  - inversion H as [|? ? Hf Hr]; subst. destruct Hf as (Ho & Hl & Hd & Hm).
    unfold passPayload. cbn [map concat]. rewrite <- app_assoc. fold (passPayload data r pad).
    change (parseAll (S (length (f :: r))) c W_EncryptionInitial (cryptoEnc data f ++ passPayload data r pad))
      with (match parse_next c W_EncryptionInitial (cryptoEnc data f ++ passPayload data r pad) with
            | Ok (fr, _, rest) => match parseAll (S (length r)) c W_EncryptionInitial rest with Some l => Some (fr :: l) | None => None end
            | Err 1 _ => Some []
            | Err _ _ => None
            end).
    rewrite parse_next_crypto.
    + rewrite (IH pad Hr). reflexivity.
    + unfold vwf. lia.
    + rewrite zslice_length by lia. unfold vwf. lia.
Qed.
