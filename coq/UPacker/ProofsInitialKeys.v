(** C10 proofs, part 6: the server-reads-back theorem with NO cryptographic hypothesis — the
    abstract AEAD / mask of ProofsWire instantiated with C05's concrete Initial protection
    (SHA-256/HMAC/HKDF-derived keys, AES-128-GCM, AES-ECB header protection, all in Gallina:
    coq/PktProt/InitialKeys, Aes, InitialProtect; imported read-only). *)
From Coq Require Import List ZArith Bool Lia.
From V Require Import Gen.Params Lib.Hex Wire.Varint Wire.Headers Wire.HeadersProofs
     PktProt.PktNum PktProt.Protect PktProt.ProtectProofs PktProt.Aes PktProt.AesProofs
     PktProt.InitialKeys PktProt.InitialProtect
     UPacker.Model UPacker.ProofsSize UPacker.ProofsFlight UPacker.ProofsDecrypt UPacker.ProofsWire.
Import ListNotations.
Open Scope Z_scope.

(** The k-th Initial packet of any flight, serialised and protected with the client Initial
    keys of the connection's first Destination Connection ID [keyDcid] (the standard keys of
    RFC 9001 5.2 / RFC 9369 3.3.1 for the packet's version): the bytes on the wire parse as an
    Initial long header with exactly (version, dcid, scid, token) and a Length covering the
    rest of the packet, and the server's Initial opener recovers the first byte, the packet
    number, its length and the frame payload. *)
Lemma flight_server_reads_back_initial_keys c helloLen plens k pn pnLen h fs lf pk dl ix rp
      ver (keyDcid dcid scid token payload : list Z) largest :
  nth_error (flight c helloLen plens) k = Some (DG pn pnLen h fs lf pk dl ix rp) ->
  valid_version ver -> zlen dcid = c_dcid c -> zlen scid = c_scid c -> zlen token = c_tokLen c ->
  zlen dcid <= 20 -> zlen scid <= 20 ->
  1 <= pnLen <= 4 -> pn < 2 ^ 62 -> 0 <= c_first c ->
  zlen payload = pk - h - overhead -> payload <> [] -> 4 <= pnLen + zlen payload ->
  (largest = pn - 1 \/ (largest = -1 /\ pn < 2 ^ (pnLen * 8))) ->
  let v2 := ver =? H_Version2 in
  let hb := initialHeaderBytes ver dcid scid token lf pn pnLen in
  let pkt := initial_protect v2 true keyDcid (snd hb) payload pn (Z.to_nat pnLen) in
  fst hb = 0 /\ zlen (snd hb) = h /\
  exists hd, parse_header pkt = Some (hd, 0) /\
    hType hd = H_PacketTypeInitial /\ hVersion hd = ver /\ hDst hd = dcid /\ hSrc hd = scid /\
    hToken hd = token /\ hLength hd = lf /\ hParsedLen hd = h - pnLen /\
    zlen pkt = hParsedLen hd + hLength hd /\
    initial_unprotect v2 true keyDcid (Z.to_nat (hParsedLen hd)) largest pkt
    = UOk (initialFirst ver pnLen) pn pnLen 0 payload.
Proof.
  intros Hnth Hv Ed Es Et Hd Hs Hp Hpn Hf Hpl Hne Hmin Hlg v2 hb pkt.
  subst pkt. unfold initial_protect, initial_unprotect, mk_ikeys.
  pose proof (initial_keys_lengths v2 true keyDcid) as HL.
  destruct (initial_keys v2 true keyDcid) as [[kk iv] hp]. destruct HL as (Hk & Hiv & Hhp).
  set (K := {| ik_rks := aes_expand kk; ik_iv := iv; ik_hp := aes_expand hp |}).
  apply (flight_server_reads_back (init_seal K) (init_open K) (init_mask K)
           ltac:(intros n kp ad p; unfold init_open, init_seal; apply gcm_open_seal; [apply aes_expand_wf, Hk|apply quic_nonce_length, Hiv])
           ltac:(intros n kp ad p; unfold init_seal; apply gcm_seal_length; [apply aes_expand_wf, Hk|apply quic_nonce_length, Hiv])
           c helloLen plens k pn pnLen h fs lf pk dl ix rp ver dcid scid token payload largest); assumption.
Qed.
