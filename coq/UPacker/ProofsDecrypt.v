(** C10 proofs, part 3: a conformant receiver recovers the packet number of every Initial
    packet of the flight and opens it (on top of C05's packet-protection round trip), and the
    flight-level witnesses of the refuted sub-claims. *)
From Coq Require Import List ZArith Bool Lia.
From Coq Require Import ZifyBool.
From V Require Import Gen.Params Wire.Varint PktProt.PktNum PktProt.PktNumProofs PktProt.Protect PktProt.ProtectProofs
     UPacker.Model UPacker.ProofsSize UPacker.ProofsFlight.
Import ListNotations.
Open Scope Z_scope.
Local Ltac Zify.zify_post_hook ::= Z.div_mod_to_equations.

Lemma pow_len len : valid_len len ->
  2 ^ (len * 8) = 256 \/ 2 ^ (len * 8) = 65536 \/ 2 ^ (len * 8) = 16777216 \/ 2 ^ (len * 8) = 4294967296.
Proof. intros [-> | [-> | [-> | ->]]]; cbn; auto. Qed.

(** the first packet of a connection (nothing received yet: largest = -1) is decoded to the
    sender's packet number exactly when that number fits the encoding length *)
Lemma first_pn_decodable_iff len pn :
  valid_len len -> 0 <= pn < 2 ^ 62 ->
  (decodePN len (-1) (truncatePN len pn) = pn <-> pn < 2 ^ (len * 8)).
Proof.
  intros Hlen Hpn.
  assert (Hl0 : 0 <= len) by (destruct Hlen as [-> | [-> | [-> | ->]]]; lia).
  pose proof (truncatePN_range len pn Hl0) as Ht.
  rewrite decodePN_is_arith by assumption.
  unfold decodePN_arith. cbv zeta.
  assert (Htr : truncatePN len pn = pn mod 2 ^ (len * 8)).
  { unfold truncatePN. rewrite Z.shiftl_mul_pow2, Z.mul_1_l by lia. reflexivity. }
  replace (-1 + 1) with 0 by lia.
  set (win := 2 ^ (len * 8)) in *.
  assert (Hw : win = 256 \/ win = 65536 \/ win = 16777216 \/ win = 4294967296) by (apply pow_len; assumption).
  replace (0 / win) with 0 by (symmetry; apply Z.div_0_l; lia).
  replace (win * 0 + truncatePN len pn) with (truncatePN len pn) by lia.
  destruct (Z.leb_spec (truncatePN len pn) (0 - win / 2)) as [H1|H1]; [lia|]. cbn [andb].
  destruct (Z.geb_spec (truncatePN len pn) win) as [H2|H2]; [lia|]. rewrite andb_false_r.
  rewrite Htr. split; intros H.
  - lia.
  - apply Z.mod_small. lia.
Qed.

(** later packets: the receiver has opened pn-1, the next number always decodes *)
Lemma next_pn_decodable len pn :
  valid_len len -> 1 <= pn < 2 ^ 62 -> decodePN len (pn - 1) (truncatePN len pn) = pn.
Proof.
  intros Hlen Hpn. apply decode_window; try assumption; try lia.
  destruct (pow_len len Hlen) as [-> | [-> | [-> | ->]]]; lia.
Qed.

Lemma first_pn_undecodable_witness : decodePN 1 (-1) (truncatePN 1 300) = 44.
Proof. vm_compute. reflexivity. Qed.

(** a spec that dial accepts starts with a packet every receiver decodes *)
Lemma validated_first_decodable scid dcid ipn lens single udpMin plans maxPacket :
  0 <= ipn -> 0 <= single ->
  validateSpec scid dcid ipn lens single udpMin plans maxPacket = true ->
  let l := firstPnLen lens single ipn in
  initialPN ipn = ipn /\ peekPnLen lens single (pnBase ipn) (initialPN ipn) = l /\ valid_len l /\
  decodePN l (-1) (truncatePN l (initialPN ipn)) = initialPN ipn.
Proof.
  intros Hi Hs Hv l.
  destruct (validateSpec_pn _ _ _ _ _ _ _ _ Hi Hv) as (Hpn & _ & Hpeek).
  destruct (validateSpec_spec _ _ _ _ _ _ _ _ Hv) as (_ & _ & Hmax & Hfit & Hlens & Hsingle & _).
  assert (Hvl : valid_len l).
  { unfold l, firstPnLen. destruct lens as [|l0 lr].
    - destruct (Z.eqb_spec single 0); cbn [negb]; [apply lenForHeader_valid|unfold valid_len; lia].
    - inversion Hlens; subst. unfold valid_len. lia. }
  split; [exact Hpn|]. split; [exact Hpeek|]. split; [exact Hvl|].
  rewrite Hpn. apply first_pn_decodable_iff; [exact Hvl| unfold two62 in Hmax; lia |].
  fold l in Hfit. replace (l * 8) with (8 * l) by lia. exact Hfit.
Qed.

Section Decrypt.
  Variable aead_seal : Z -> Z -> list Z -> list Z -> list Z.
  Variable aead_open : Z -> Z -> list Z -> list Z -> option (list Z).
  Variable hp_mask : list Z -> list Z.
  Hypothesis open_seal : forall pn kp ad p, aead_open pn kp ad (aead_seal pn kp ad p) = Some p.
  Hypothesis seal_length : forall pn kp ad p, length (aead_seal pn kp ad p) = (length p + 16)%nat.

  (** Every packet of a flight (k-th result of the model, packet number pn, encoded in pnLen
      bytes) whose payload — of the length the model computed, exact-size PADDING included —
      is protected by encryptPacket opens at a receiver that has seen the flight's earlier
      packets (or nothing, for the first one, provided its number fits the window): the
      receiver recovers the first byte, the full packet number, its length and the payload.
      [mid] = version, connection IDs, token and Length field, whatever they are. *)
  Lemma flight_decryptable c helloLen plens k pn pnLen h fs lf pk dl ix rp (mid payload : list Z) largest :
    nth_error (flight c helloLen plens) k = Some (DG pn pnLen h fs lf pk dl ix rp) ->
    1 <= pnLen <= 4 -> pn < 2 ^ 62 -> 0 <= c_first c ->
    Z.of_nat (length payload) = pk - h - overhead -> payload <> [] ->
    4 <= pnLen + Z.of_nat (length payload) ->
    (largest = pn - 1 \/ (largest = -1 /\ pn <= 2 ^ (pnLen * 8) / 2)) ->
    unprotect aead_open hp_mask true (1 + length mid) largest
      (protect aead_seal hp_mask true (mk_header (long_first 0 (Z.to_nat pnLen)) mid (Z.to_nat pnLen) pn) payload pn 0 (Z.to_nat pnLen))
    = UOk (long_first 0 (Z.to_nat pnLen)) pn pnLen 0 payload /\
    lf = pnLen + Z.of_nat (length payload) + overhead.
  Proof.
    intros Hnth Hlen Hpn Hipn Hpl Hne Hmin Hlg.
    pose proof (flight_ok _ _ _ _ _ Hnth) as Hok. cbn [dg_ok] in Hok.
    destruct Hok as (Hpnv & _ & _ & Hlf & _).
    assert (Hpn0 : 0 <= pn) by lia.
    split; [|lia].
    replace pnLen with (Z.of_nat (Z.to_nat pnLen)) at 5 by lia.
    apply (protect_roundtrip aead_seal aead_open hp_mask open_seal seal_length).
    - lia.
    - apply long_first_wf; lia.
    - lia.
    - destruct Hlg as [-> | [-> _]]; lia.
    - rewrite Z2Nat.id by lia.
      assert (Hv : valid_len pnLen) by (unfold valid_len; lia).
      destruct (pow_len pnLen Hv) as [E | [E | [E | E]]]; rewrite E in *; destruct Hlg as [-> | [-> Hw]]; lia.
    - assumption.
    - lia.
  Qed.
End Decrypt.

(** * flight-level witnesses *)

Definition wcfg (bk : bkind) (lens : list Z) (single : Z) (plans : list (Z * Z)) (udpMin : Z) : cfg :=
  {| c_dcid := 8; c_scid := 0; c_ipn := 1; c_first := 1; c_lens := lens; c_single := single; c_tokLen := 0;
     c_bk := bk; c_plans := plans; c_udpMin := udpMin; c_maxSize := 1280 |}.

(** regression (was: every datagram followed entry 0 unless the builder was a
    QUICFrameBuilderEx): nil builder, InitialPackets = [{999,1200},{0,1250}] -- the second
    datagram is sized by entry 1 *)
Lemma plan_index_regression :
  flight (wcfg BPass [] 1 [(999, 1200); (0, 1250)] 0) 1700 [] =
  [DG 1 1 19 [(0, 999)] 1182 1200 1200 1 false; DG 2 1 19 [(999, 701)] 1232 1250 1250 2 false].
Proof. vm_compute. reflexivity. Qed.

Lemma plan_index_plain :
  flight (wcfg BPlain [] 1 [(999, 1200); (0, 1250)] 0) 1700 [1003; 705] =
  [DG 1 1 19 [(0, 999)] 1182 1200 1200 1 false; DG 2 1 19 [(999, 701)] 1232 1250 1250 2 false].
Proof. vm_compute. reflexivity. Qed.

(** regression (was: PacketSize alone did not limit the CRYPTO popped, the first packet was
    1280 bytes): nil builder, PacketSize 1232, 1734-byte ClientHello *)
Lemma packet_size_caps_regression :
  flight (wcfg BPass [] 1 [(0, 1232)] 0) 1734 [] =
  [DG 1 1 19 [(0, 1193)] 1214 1232 1232 1 false; DG 2 1 19 [(1193, 541)] 1214 1232 1232 2 false].
Proof. vm_compute. reflexivity. Qed.

(** regression (was: budgets [1165;1165], packet 1 = 1203 bytes): the budget of datagram 1
    is computed with ITS packet-number length; the old payload is refused by the size rule *)
Lemma flight_budget_regression :
  flightBudgets (wcfg BFlight [1; 4] 0 [(0, 1200); (0, 1200)] 0) 1700 = [1165; 1162] /\
  flight (wcfg BFlight [1; 4] 0 [(0, 1200); (0, 1200)] 0) 1700 [1165; 1162] =
  [DG 1 1 19 [] 1182 1200 1200 1 false; DG 2 4 22 [] 1182 1200 1200 2 false] /\
  flight (wcfg BFlight [1; 4] 0 [(0, 1200); (0, 1200)] 0) 1700 [1165; 1165] = [DGErr 2].
Proof. vm_compute. repeat split; reflexivity. Qed.

(** regression (was: 1195 bytes popped, frames up to 1253 bytes, datagram up to 1288): Chrome_146's
    QUICRandomFrames{Length 1215, <= 3 PING, <= 13 CRYPTO, MinPADDING 2} gets 1145 bytes per
    datagram, which every draw re-frames within 1213 bytes; with payloads of exactly Length the
    datagrams are 1250 and 1251 bytes *)
Lemma random_reserve_regression :
  maxCryptoData (1215, 2, 3, 13) 0 = 1145 /\
  flight (wcfg (BRandom [(1215, 2, 3, 13)]) [1; 2] 0 [] 0) 1734 [1215; 1215] =
  [DG 1 1 19 [(0, 1145)] 1232 1250 1250 1 false; DG 2 2 20 [(1145, 589)] 1233 1251 1251 2 false].
Proof. vm_compute. split; reflexivity. Qed.

(** still open: a builder whose output does not fit is not refused *)
Lemma builder_overshoot_witness :
  flight (wcfg BEx [] 1 [] 0) 1241 [1300] = [DG 1 1 19 [(0, 1241)] 1317 1335 1335 1 false].
Proof. vm_compute. reflexivity. Qed.

(** Chrome_146's numbering (InitPacketNumber 1, lengths {1,2}) on the connection re-created
    after two Initials were sent with the first version: packet numbers 3 and 4, both in two
    bytes (indexing the list from the connection's first number instead -- seeded change C10-c
    -- would encode packet number 3 in one byte) *)
Lemma recreated_witness :
  flight {| c_dcid := 8; c_scid := 0; c_ipn := 1; c_first := 3; c_lens := [1; 2]; c_single := 0; c_tokLen := 0;
            c_bk := BPass; c_plans := []; c_udpMin := 0; c_maxSize := 1280 |} 1734 [] =
  [DG 3 2 20 [(0, 1240)] 1262 1280 1280 1 false; DG 4 2 20 [(1240, 494)] 517 535 1200 2 false].
Proof. vm_compute. reflexivity. Qed.

(** non-vacuity of [random_fits]: Chrome_146's spec (8-byte DCID, no SCID / token, lengths {1,2},
    Length 1215, up to 3 PING and 13 CRYPTO frames, MinPADDING 2, no plan, maximum 1280) *)
Lemma vlen_le8 x : vlen x <= 8.
Proof.
  unfold vlen. destruct (x <=? maxVarInt1); [lia|]. destruct (x <=? maxVarInt2); [lia|].
  destruct (x <=? maxVarInt4); [lia|]. destruct (x <=? maxVarInt8); lia.
Qed.

Lemma random_fits_chrome146 : random_fits (wcfg (BRandom [(1215, 2, 3, 13)]) [1; 2] 0 [] 0) [(1215, 2, 3, 13)].
Proof.
  intros i off rf Hi Hoff Hrf.
  assert (Erf : rf = (1215, 2, 3, 13)).
  { unfold rfFor in Hrf. cbn [length Z.of_nat Pos.of_succ_nat] in Hrf.
    destruct (Z.ltb_spec i 0); [lia|].
    destruct (Z.geb_spec i 1) as [Hg|Hg]; cbn [Z.sub Z.to_nat nth] in Hrf.
    - inversion Hrf. reflexivity.
    - replace i with 0 in Hrf by lia. cbn in Hrf. inversion Hrf. reflexivity. }
  subst rf. clear Hrf.
  cbn [fst snd planFor wcfg c_plans].
  split; [reflexivity|]. split; [lia|]. split; [lia|].
  unfold maxCryptoData. change (vlen 1215) with 2.
  pose proof (vlen_nonneg (off + 1215)) as H1. pose proof (vlen_le8 (off + 1215)) as H2.
  set (w := vlen (off + 1215)) in *. change (Z.max 13 1) with 13.
  assert (En : Z.max (1215 - 3 - 2 - 13 * (1 + w + 2)) 0 = 1215 - 3 - 2 - 13 * (1 + w + 2)) by lia.
  rewrite En. set (n := 1215 - 3 - 2 - 13 * (1 + w + 2)) in *.
  assert (Hn : 1067 <= n <= 1171) by (subst n; lia).
  split; [lia|].
  assert (Hvn : vlen n = 2) by (apply vlen_mid; lia).
  rewrite Hvn.
  pose proof (vlen_nonneg off). pose proof (vlen_le8 off).
  assert (Hh : 19 <= hdrOf (wcfg (BRandom [(1215, 2, 3, 13)]) [1; 2] 0 [] 0) i <= 20).
  { unfold hdrOf, pnLenOf, hdrLen. cbn [wcfg c_dcid c_scid c_tokLen c_lens c_single c_ipn c_first].
    change (vlen 0) with 1.
    pose proof (peekPnLen_in [1; 2] 0 (pnBase 1) (pnOf (wcfg (BRandom [(1215, 2, 3, 13)]) [1; 2] 0 [] 0) i) ltac:(discriminate)) as Hin.
    cbn [In] in Hin. destruct Hin as [E | [E | []]]; rewrite <- E; lia. }
  unfold capAt, capOf. cbn [wcfg c_plans c_maxSize planFor snd Z.gtb Z.compare andb]. unfold overhead, upSealerOverhead. lia.
Qed.

Lemma random_fits_chrome115 : random_fits (wcfg (BRandom [(1215, 3, 9, 9)]) [] 1 [] 0) [(1215, 3, 9, 9)].
Proof.
  intros i off rf Hi Hoff Hrf.
  assert (Erf : rf = (1215, 3, 9, 9)).
  { unfold rfFor in Hrf. cbn [length Z.of_nat Pos.of_succ_nat] in Hrf.
    destruct (Z.ltb_spec i 0); [lia|].
    destruct (Z.geb_spec i 1) as [Hg|Hg]; cbn [Z.sub Z.to_nat nth] in Hrf.
    - inversion Hrf. reflexivity.
    - replace i with 0 in Hrf by lia. cbn in Hrf. inversion Hrf. reflexivity. }
  subst rf. clear Hrf.
  cbn [fst snd planFor wcfg c_plans].
  split; [reflexivity|]. split; [lia|]. split; [lia|].
  unfold maxCryptoData. change (vlen 1215) with 2.
  pose proof (vlen_nonneg (off + 1215)) as H1. pose proof (vlen_le8 (off + 1215)) as H2.
  set (w := vlen (off + 1215)) in *. change (Z.max 9 1) with 9.
  assert (En : Z.max (1215 - 9 - 3 - 9 * (1 + w + 2)) 0 = 1215 - 9 - 3 - 9 * (1 + w + 2)) by lia.
  rewrite En. set (n := 1215 - 9 - 3 - 9 * (1 + w + 2)) in *.
  assert (Hn : 1104 <= n <= 1176) by (subst n; lia).
  split; [lia|].
  assert (Hvn : vlen n = 2) by (apply vlen_mid; lia).
  rewrite Hvn.
  pose proof (vlen_nonneg off). pose proof (vlen_le8 off).
  assert (Hh : 19 <= hdrOf (wcfg (BRandom [(1215, 3, 9, 9)]) [] 1 [] 0) i <= 20).
  { unfold hdrOf, pnLenOf, hdrLen. cbn [wcfg c_dcid c_scid c_tokLen c_lens c_single c_ipn c_first].
    change (vlen 0) with 1.
    rewrite peekPnLen_single by discriminate. lia. }
  unfold capAt, capOf. cbn [wcfg c_plans c_maxSize planFor snd Z.gtb Z.compare andb]. unfold overhead, upSealerOverhead. lia.
Qed.
