(** C10: the statements of coq/Props/C10.v, proved here (Props only contains [exact]). *)
From Coq Require Import List ZArith Bool.
From V Require Import Gen.Params Wire.Varint PktProt.PktNum PktProt.PktNumProofs PktProt.Protect PktProt.ProtectProofs
     UPacker.Model UPacker.ProofsSize UPacker.ProofsFlight UPacker.ProofsDecrypt.
Import ListNotations.
Open Scope Z_scope.

Lemma t_C10_header_fields : forall c helloLen plens k pn pnLen h fs lf pk dl ix rp,
  nth_error (flight c helloLen plens) k = Some (DG pn pnLen h fs lf pk dl ix rp) ->
  pn = initialPN (c_ipn c) + Z.of_nat k /\
  pnLen = peekPnLen (c_lens c) (c_single c) (pnBase (c_ipn c)) pn /\
  h = 1 + 4 + 1 + c_dcid c + 1 + c_scid c + pnLen + 2 + (vlen (c_tokLen c) + c_tokLen c) /\
  lf = pnLen + (pk - h - 16) + 16 /\
  pk <= 1452 /\ pk <= dl.
Proof. intros c helloLen plens k pn pnLen h fs lf pk dl ix rp H. exact (flight_ok c helloLen plens k _ H). Qed.

Lemma t_C10_initial_pn : forall ipn, 0 <= ipn < 2 ^ 64 ->
  (ipn <= 2 ^ 62 - 1 -> initialPN ipn = ipn) /\ (2 ^ 62 - 1 < ipn -> initialPN ipn = 0) /\
  0 <= initialPN ipn <= 2 ^ 62 - 1.
Proof. exact initialPN_spec. Qed.

Lemma t_C10_pn_len_list : forall lens single ipn i,
  lens <> [] -> 0 <= ipn <= 2 ^ 62 - 1 -> Z.of_nat i < 2 ^ 62 ->
  peekPnLen lens single (pnBase ipn) (initialPN ipn + Z.of_nat i) = nth (Nat.min i (length lens - 1)) lens 0.
Proof. exact peekPnLen_list. Qed.

Lemma t_C10_pn_len_single_default : forall single base pn,
  (single <> 0 -> peekPnLen [] single base pn = single) /\ 2 <= peekPnLen [] 0 base pn <= 4.
Proof. intros single base pn. exact (conj (peekPnLen_single single base pn) (peekPnLen_default base pn)). Qed.

Lemma t_C10_pn_len_list_refuted :
  (exists ipn, 0 <= ipn < 2 ^ 64 /\ peekPnLen [1; 2; 3] 0 (pnBase ipn) (initialPN ipn + 0) <> nth 0 [1; 2; 3] 0) /\
  (exists ipn, 0 <= ipn < 2 ^ 64 /\ peekPnLen [1; 2; 3] 0 (pnBase ipn) (initialPN ipn + 1) <> nth 1 [1; 2; 3] 0).
Proof.
  split; [exists (two64 - 1)|exists two62]; (split; [vm_compute; split; congruence|]).
  - rewrite pn_len_list_witness. discriminate.
  - rewrite pn_len_list_witness2. discriminate.
Qed.

Lemma t_C10_token : forall ctl prefix tail conf,
  (forall t, resolveToken (Some t) ctl prefix tail conf = t) /\
  (Z.max ctl (Z.of_nat (length prefix)) > 0 ->
   (Z.to_nat (Z.max ctl (Z.of_nat (length prefix))) - length prefix <= length tail)%nat ->
   exists t, resolveToken None ctl prefix tail conf = Some t /\
             Z.of_nat (length t) = Z.max ctl (Z.of_nat (length prefix)) /\ firstn (length prefix) t = prefix) /\
  (ctl <= 0 -> prefix = [] -> resolveToken None ctl prefix tail conf = conf).
Proof.
  intros ctl prefix tail conf. split; [|split].
  - intros t. apply resolveToken_explicit.
  - exact (resolveToken_synth ctl prefix tail conf).
  - exact (resolveToken_none ctl prefix tail conf).
Qed.

Lemma t_C10_cid_lengths : forall specScid specDcid drawn,
  dialScidLen specScid = specScid /\ (specDcid > 0 -> dialDcidLen specDcid drawn = specDcid) /\
  (specDcid <= 0 -> dialDcidLen specDcid drawn = drawn).
Proof. exact dial_cid_lengths. Qed.

Lemma t_C10_crypto_split_exact : forall fuel hdr off rem maxSize c ps bk,
  1 <= c <= 16383 -> c <= rem ->
  0 < hdr + (1 + vlen off + vlen c + c) < maxSize - 16 ->
  popLoop (S fuel) off rem (initialBudget hdr off maxSize (c, ps) bk - hdr) = ([(off, c)], off + c, rem - c).
Proof. exact crypto_split_exact. Qed.

Lemma t_C10_crypto_split_nonvacuous :
  1 <= 999 <= 16383 /\ 999 <= 1734 /\ 0 < 19 + (1 + vlen 0 + vlen 999 + 999) < 1280 - 16 /\
  flight (wcfg BEx [] 1 [(999, 1200); (0, 1250)] 0) 1700 [1003; 705] =
  [DG 1 1 19 [(0, 999)] 1182 1200 1200 1 false; DG 2 1 19 [(999, 701)] 1232 1250 1250 2 false].
Proof. split; [vm_compute; split; congruence|]. split; [vm_compute; congruence|]. split; [vm_compute; split; reflexivity|]. exact plan_index_ex. Qed.

Lemma t_C10_exact_size : forall cl s hdr pnLen plen udpMin,
  0 < s -> hdr + plen + 16 <= s -> s <= 1452 ->
  appendInitial (cl, s) hdr pnLen plen udpMin = AppOk (pnLen + (s - hdr - 16) + 16) s s false.
Proof. exact append_exact_fits. Qed.

Lemma t_C10_udp_min_size : forall cl hdr pnLen plen udpMin,
  hdr + plen + 16 <= 1452 ->
  let mn := if udpMin =? 0 then 1200 else udpMin in
  exists rp,
    appendInitial (cl, 0) hdr pnLen plen udpMin
    = AppOk (pnLen + plen + 16) (hdr + plen + 16) (Z.max (hdr + plen + 16) mn) rp /\
    (rp = true <-> hdr + plen + 16 < mn /\ 1452 < mn).
Proof. exact append_udp_min. Qed.

Lemma t_C10_exact_size_refuted :
  (forall cl s hdr pnLen plen udpMin, 0 < s -> s < hdr + plen + 16 -> hdr + plen + 16 <= 1452 ->
     appendInitial (cl, s) hdr pnLen plen udpMin = AppOk (pnLen + plen + 16) (hdr + plen + 16) (hdr + plen + 16) false) /\
  (exists s hdr pnLen plen pk lf dl rp, appendInitial (0, s) hdr pnLen plen 0 = AppOk lf pk dl rp /\ s < pk).
Proof.
  split; [exact append_exact_overshoot|].
  exists 1200, 19, 1, 1200, 1235, 1217, 1235, false. split; [exact exact_size_overshoot_witness|reflexivity].
Qed.

Lemma t_C10_fits_or_error : forall plan hdr pnLen plen udpMin,
  match appendInitial plan hdr pnLen plen udpMin with
  | AppErr => hdr + paddedLen (snd plan) hdr plen + 16 > 1452
  | AppOk lf pl dl rp =>
    pl <= 1452 /\ pl = hdr + paddedLen (snd plan) hdr plen + 16 /\
    lf = pnLen + paddedLen (snd plan) hdr plen + 16 /\ pl <= dl /\ (rp = false -> dl <= 1452)
  end.
Proof. exact append_fits_or_error. Qed.

Lemma t_C10_le_max_packet_size : forall plan hdr pnLen plen udpMin maxSize lf pl dl rp,
  appendInitial plan hdr pnLen plen udpMin = AppOk lf pl dl rp ->
  hdr + plen + 16 <= maxSize -> snd plan <= maxSize ->
  (snd plan = 0 -> (if udpMin =? 0 then 1200 else udpMin) <= maxSize) ->
  dl <= maxSize.
Proof. exact append_le_max. Qed.

Lemma t_C10_passthrough_le_max : forall c helloLen plens d,
  c_bk c = BPass -> 0 <= c_maxSize c <= 16383 -> (forall j, 0 <= hdrOf c j) ->
  Forall (fun p => 0 <= snd p <= c_maxSize c) (c_plans c) ->
  (if c_udpMin c =? 0 then 1200 else c_udpMin c) <= c_maxSize c ->
  In d (flight c helloLen plens) ->
  match d with DG _ _ _ _ _ pk dl _ _ => pk <= c_maxSize c /\ dl <= c_maxSize c | DGErr _ => True end.
Proof.
  intros c helloLen plens d Hbk [Hm0 Hm] Hh Hp Hu Hin.
  exact (flight_pass_le c helloLen plens d Hbk Hm Hh Hp Hm0 Hu Hin).
Qed.

Lemma t_C10_passthrough_nonvacuous :
  exists d, In d (flight (wcfg BPass [] 1 [(999, 1200); (0, 1250)] 0) 1700 []) /\ d = DG 2 1 19 [(999, 701)] 1182 1200 1200 0 false.
Proof. eexists. split; [rewrite plan_index_witness; right; left; reflexivity|reflexivity]. Qed.

Lemma t_C10_le_max_packet_size_refuted :
  (exists lf, appendInitial (0, 1400) 19 1 1000 0 = AppOk lf 1400 1400 false) /\     (* PacketSize 1400 vs 1280 *)
  (exists lf, appendInitial (0, 0) 22 1 516 1357 = AppOk lf 554 1357 false) /\       (* Firefox: UDPDatagramMinSize 1357 vs 1280 *)
  (exists lf, appendInitial (0, 0) 19 1 504 1500 = AppOk lf 539 1500 true) /\        (* beyond the pooled buffer: Release() panics *)
  (exists d r, flight (wcfg (BRandom 1215 2) [1; 2] 0 [] 0) 1734 [1253; 1216] = d :: r /\
               d = DG 1 1 19 [(0, 1195)] 1270 1288 1288 1 false).                      (* Chrome_146 draw: 1288 > 1280 *)
Proof.
  split; [eexists; exact le_max_plan_witness|].
  split; [eexists; exact le_max_udpmin_witness|].
  split; [eexists; exact release_panic_witness|].
  eexists; eexists. split; [exact random_overshoot_witness|reflexivity].
Qed.

Lemma t_C10_plan_index_refuted :
  flight (wcfg BPass [] 1 [(999, 1200); (0, 1250)] 0) 1700 [] =
  [DG 1 1 19 [(0, 999)] 1182 1200 1200 0 false; DG 2 1 19 [(999, 701)] 1182 1200 1200 0 false].
Proof. exact plan_index_witness. Qed.

Lemma t_C10_flight_budget_refuted :
  flightBudgets (wcfg BFlight [1; 4] 0 [(0, 1200); (0, 1200)] 0) 1700 = [1165; 1165] /\
  flight (wcfg BFlight [1; 4] 0 [(0, 1200); (0, 1200)] 0) 1700 [1165; 1165] =
  [DG 1 1 19 [] 1182 1200 1200 1 false; DG 2 4 22 [] 1185 1203 1203 2 false].
Proof. exact flight_budget_witness. Qed.

Lemma t_C10_decryptable :
  forall (aead_seal : Z -> Z -> list Z -> list Z -> list Z)
         (aead_open : Z -> Z -> list Z -> list Z -> option (list Z))
         (hp_mask : list Z -> list Z),
    (forall pn kp ad p, aead_open pn kp ad (aead_seal pn kp ad p) = Some p) ->
    (forall pn kp ad p, length (aead_seal pn kp ad p) = (length p + 16)%nat) ->
    forall c helloLen plens k pn pnLen h fs lf pk dl ix rp (mid payload : list Z) largest,
      nth_error (flight c helloLen plens) k = Some (DG pn pnLen h fs lf pk dl ix rp) ->
      1 <= pnLen <= 4 -> pn < 2 ^ 62 -> 0 <= c_ipn c < 2 ^ 64 ->
      Z.of_nat (length payload) = pk - h - 16 -> payload <> [] ->
      4 <= pnLen + Z.of_nat (length payload) ->
      (largest = pn - 1 \/ (largest = -1 /\ pn <= 2 ^ (pnLen * 8) / 2)) ->
      unprotect aead_open hp_mask true (1 + length mid) largest
        (protect aead_seal hp_mask true (mk_header (long_first 0 (Z.to_nat pnLen)) mid (Z.to_nat pnLen) pn) payload pn 0 (Z.to_nat pnLen))
      = UOk (long_first 0 (Z.to_nat pnLen)) pn pnLen 0 payload /\
      lf = pnLen + Z.of_nat (length payload) + 16.
Proof. exact flight_decryptable. Qed.

Lemma t_C10_first_pn_decodable_iff : forall len pn,
  valid_len len -> 0 <= pn < 2 ^ 62 ->
  (decodePN len (-1) (truncatePN len pn) = pn <-> pn < 2 ^ (len * 8)).
Proof. exact first_pn_decodable_iff. Qed.

Lemma t_C10_next_pn_decodable : forall len pn,
  valid_len len -> 1 <= pn < 2 ^ 62 -> decodePN len (pn - 1) (truncatePN len pn) = pn.
Proof. exact next_pn_decodable. Qed.

Lemma t_C10_first_pn_decodable_refuted : decodePN 1 (-1) (truncatePN 1 300) <> 300.
Proof. rewrite first_pn_undecodable_witness. discriminate. Qed.

Lemma t_C10_hp_sample_inside : forall plan hdr pnLen plen udpMin lf pl dl rp,
  appendInitial plan hdr pnLen plen udpMin = AppOk lf pl dl rp -> 4 <= pnLen + plen -> 20 <= lf.
Proof. exact append_sample. Qed.
