(** C10: the statements of coq/Props/C10.v, proved here (Props only contains [exact]). *)
From Coq Require Import List ZArith Bool.
From V Require Import Gen.Params Lib.Hex Wire.Varint Wire.Headers Wire.HeadersProofs
     PktProt.PktNum PktProt.PktNumProofs PktProt.Protect PktProt.ProtectProofs PktProt.ProtectExamples
     PktProt.InitialProtect
     UFrames.Model UFrames.Proofs UFrames.ProofsLength Wire.FramesBase Wire.Frames
     UPacker.Model UPacker.ProofsSize UPacker.ProofsFlight UPacker.ProofsDecrypt UPacker.ProofsRandom UPacker.ProofsWire UPacker.ProofsInitialKeys UPacker.ProofsFrames UPacker.ProofsFramesRandom.
Import ListNotations.
Open Scope Z_scope.

Lemma t_C10_header_fields : forall c helloLen plens k pn pnLen h fs lf pk dl ix rp,
  nth_error (flight c helloLen plens) k = Some (DG pn pnLen h fs lf pk dl ix rp) ->
  pn = c_first c + Z.of_nat k /\
  pnLen = peekPnLen (c_lens c) (c_single c) (pnBase (c_ipn c)) pn /\
  h = 1 + 4 + 1 + c_dcid c + 1 + c_scid c + pnLen + 2 + (vlen (c_tokLen c) + c_tokLen c) /\
  lf = pnLen + (pk - h - 16) + 16 /\
  pk <= 1452 /\ pk <= dl /\ dl <= 1452 /\ rp = false /\
  exists plen, appendInitial (planFor (c_plans c) (Z.of_nat k)) h pnLen plen (c_udpMin c) = AppOk lf pk dl rp.
Proof.
  intros c helloLen plens k pn pnLen h fs lf pk dl ix rp H.
  pose proof (flight_ok c helloLen plens k _ H) as Hok. cbn [dg_ok] in Hok.
  destruct Hok as (H1 & H2 & H3 & H4 & H5 & H6 & H7 & H8 & plen & H9 & _).
  repeat (split; [assumption|]). exists plen. exact H9.
Qed.

Lemma t_C10_initial_pn : forall ipn, 0 <= ipn < 2 ^ 64 ->
  (ipn <= 2 ^ 62 - 1 -> initialPN ipn = ipn) /\ (2 ^ 62 - 1 < ipn -> initialPN ipn = 0) /\
  0 <= initialPN ipn <= 2 ^ 62 - 1.
Proof. exact initialPN_spec. Qed.

Lemma t_C10_pn_len_list : forall lens single ipn i,
  lens <> [] -> 0 <= ipn <= 2 ^ 62 - 1 -> Z.of_nat i < 2 ^ 62 ->
  peekPnLen lens single (pnBase ipn) (initialPN ipn + Z.of_nat i) = nth (Nat.min i (length lens - 1)) lens 0.
Proof. exact peekPnLen_list. Qed.

Lemma t_C10_pn_len_across_recreation : forall c helloLen plens k k0 pn pnLen h fs lf pk dl ix rp,
  nth_error (flight c helloLen plens) k = Some (DG pn pnLen h fs lf pk dl ix rp) ->
  c_lens c <> [] -> 0 <= c_ipn c <= 2 ^ 62 - 1 -> c_first c = c_ipn c + Z.of_nat k0 ->
  Z.of_nat (k0 + k) < 2 ^ 62 ->
  pn = c_ipn c + Z.of_nat (k0 + k) /\
  pnLen = nth (Nat.min (k0 + k) (length (c_lens c) - 1)) (c_lens c) 0.
Proof. exact flight_pn_len_recreated. Qed.

Lemma t_C10_pn_len_across_recreation_example :
  flight {| c_dcid := 8; c_scid := 0; c_ipn := 1; c_first := 3; c_lens := [1; 2]; c_single := 0; c_tokLen := 0;
            c_bk := BPass; c_plans := []; c_udpMin := 0; c_maxSize := 1280 |} 1734 [] =
  [DG 3 2 20 [(0, 1240)] 1262 1280 1280 1 false; DG 4 2 20 [(1240, 494)] 517 535 1200 2 false].
Proof. exact recreated_witness. Qed.

Lemma t_C10_pn_len_single_default : forall single base pn,
  (single <> 0 -> peekPnLen [] single base pn = single) /\ 2 <= peekPnLen [] 0 base pn <= 4.
Proof. intros single base pn. exact (conj (peekPnLen_single single base pn) (peekPnLen_default base pn)). Qed.

Lemma t_C10_spec_validation : forall scid dcid ipn lens single udpMin plans maxPacket,
  validateSpec scid dcid ipn lens single udpMin plans maxPacket = true ->
  0 <= scid <= 20 /\ (dcid = 0 \/ 8 <= dcid <= 20) /\
  ipn <= 2 ^ 62 - 1 /\ ipn < 2 ^ (8 * firstPnLen lens single ipn) /\
  Forall (fun l => 1 <= l <= 4) lens /\ single <= 4 /\
  (udpMin = 0 \/ 1200 <= udpMin <= 1452) /\
  Forall (fun p => 0 <= fst p /\ (snd p = 0 \/ 1200 <= snd p <= maxPacket)) plans.
Proof. exact validateSpec_spec. Qed.

Lemma t_C10_validated_first_packet : forall scid dcid ipn lens single udpMin plans maxPacket,
  0 <= ipn -> 0 <= single ->
  validateSpec scid dcid ipn lens single udpMin plans maxPacket = true ->
  let l := firstPnLen lens single ipn in
  initialPN ipn = ipn /\ peekPnLen lens single (pnBase ipn) (initialPN ipn) = l /\ valid_len l /\
  decodePN l (-1) (truncatePN l (initialPN ipn)) = initialPN ipn.
Proof. exact validated_first_decodable. Qed.

Lemma t_C10_flight_fuel_sufficient : forall c helloLen plens, ~ In (DGErr 98) (flight c helloLen plens).
Proof. exact flight_fuel_sufficient. Qed.

Lemma t_C10_long_flight_example :
  length (flight (wcfg BPass [] 1 [(100, 1200)] 0) 1700 []) = 17%nat /\
  nth_error (flight (wcfg BPass [] 1 [(100, 1200)] 0) 1700 []) 16 = Some (DG 17 1 19 [(1600, 100)] 1182 1200 1200 17 false).
Proof. split; vm_compute; reflexivity. Qed.

Lemma t_C10_spec_validation_room : forall scid dcid ipn lens single udpMin plans maxPacket tokLen,
  validateSpecT scid dcid ipn lens single udpMin plans maxPacket tokLen = true ->
  validateSpec scid dcid ipn lens single udpMin plans maxPacket = true /\
  let mh := maxHdrLen scid dcid lens single tokLen in
  mh + 27 <= maxPacket /\
  Forall (fun p => mh + 27 <= planLimit maxPacket p /\
                   (0 < fst p -> mh + 1 + 4 + vlen (fst p) + fst p < planLimit maxPacket p - 16)) plans.
Proof. exact validateSpecT_spec. Qed.

Lemma t_C10_validation_room_regression :
  validateSpec 0 8 1 [] 1 0 [] 1280 = true /\ validateSpecT 0 8 1 [] 1 0 [] 1280 1300 = false /\
  validateSpecT 0 8 1 [] 1 0 [] 1280 1240 = false /\ validateSpecT 0 8 1 [] 1 0 [] 1280 1233 = true /\
  validateSpec 0 8 1 [] 1 0 [(1300, 0)] 1280 = true /\ validateSpecT 0 8 1 [] 1 0 [(1300, 0)] 1280 0 = false /\
  validateSpecT 0 8 1 [] 1 0 [(1160, 1200)] 1280 0 = false /\
  validateSpecT 0 8 1 [1; 2] 0 0 [(999, 1200); (0, 1200)] 1280 70 = true /\
  validateSpecT 3 8 0 [] 1 1357 [] 1280 0 = true.
Proof. exact validate_room_regression. Qed.

Lemma t_C10_builtin_specs_accepted :
  validateSpecT 0 8 1 [] 1 0 [] 1280 0 = true /\          (* Chrome_115 IPv4 / IPv6 *)
  validateSpecT 0 8 1 [1; 2] 0 0 [] 1280 0 = true /\      (* Chrome_146 IPv4 / IPv6 *)
  validateSpecT 3 8 0 [] 1 1357 [] 1280 0 = true /\       (* Firefox_116A *)
  validateSpecT 3 9 0 [] 1 1357 [] 1280 0 = true /\       (* Firefox_116B *)
  validateSpecT 3 15 0 [] 1 1357 [] 1280 0 = true.        (* Firefox_116C *)
Proof. vm_compute. repeat split; reflexivity. Qed.

Lemma t_C10_random_fits_chrome115 : random_fits (wcfg (BRandom [(1215, 3, 9, 9)]) [] 1 [] 0) [(1215, 3, 9, 9)].
Proof. exact random_fits_chrome115. Qed.

Lemma t_C10_validation_regression :
  validateSpec 0 8 two62 [1; 2; 3] 0 0 [] 1280 = false /\
  validateSpec 0 8 (two64 - 1) [1; 2; 3] 0 0 [] 1280 = false /\
  validateSpec 0 8 300 [] 1 0 [] 1280 = false /\
  validateSpec 0 8 (two62 - 1) [4] 0 0 [] 1280 = false /\
  validateSpec 0 4 1 [] 1 0 [] 1280 = false /\
  validateSpec 0 8 1 [] 1 600 [] 1280 = false /\
  validateSpec 0 8 1 [] 1 1500 [] 1280 = false /\
  validateSpec 0 8 1 [] 1 0 [(0, 1400)] 1280 = false /\
  validateSpec 0 8 1 [1; 2] 0 0 [(999, 1200); (0, 1200)] 1280 = true /\
  validateSpec 3 8 0 [] 1 1357 [] 1280 = true.
Proof. exact validate_rejects. Qed.

Lemma t_C10_token : forall ctl prefix tail conf,
  (forall t, resolveToken (Some t) ctl prefix tail conf = t) /\
  (Z.max ctl (Z.of_nat (length prefix)) > 0 ->
   (Z.to_nat (Z.max ctl (Z.of_nat (length prefix))) - length prefix <= length tail)%nat ->
   exists t, resolveToken None ctl prefix tail conf = Some t /\
             Z.of_nat (length t) = Z.max ctl (Z.of_nat (length prefix)) /\ firstn (length prefix) t = prefix) /\
  (ctl <= 0 -> prefix = [] -> resolveToken None ctl prefix tail conf = conf).
Proof.
  intros ctl prefix tail conf. split; [|split].
  - intros t. apply resolveToken_explicit.
  - exact (resolveToken_synth ctl prefix tail conf).
  - exact (resolveToken_none ctl prefix tail conf).
Qed.

Lemma t_C10_token_prefix_oracle : forall ctl prefix tail conf,
  Z.max ctl (Z.of_nat (length prefix)) > 0 ->
  resolveToken None ctl prefix tail conf
  = Some (prefix ++ firstn (Z.to_nat (Z.max ctl (Z.of_nat (length prefix))) - length prefix) tail).
Proof. exact resolveToken_is_prefix_oracle. Qed.

Lemma t_C10_token_fresh_iff : forall ctl prefix tail1 tail2 conf1 conf2,
  Z.max ctl (Z.of_nat (length prefix)) > 0 ->
  let k := (Z.to_nat (Z.max ctl (Z.of_nat (length prefix))) - length prefix)%nat in
  (resolveToken None ctl prefix tail1 conf1 = resolveToken None ctl prefix tail2 conf2
   <-> firstn k tail1 = firstn k tail2).
Proof. exact token_fresh_iff. Qed.

Lemma t_C10_wire_token : forall ver dcid scid ctl prefix tail conf lf pn pnLen,
  Z.max ctl (Z.of_nat (length prefix)) > 0 ->
  (Z.to_nat (Z.max ctl (Z.of_nat (length prefix))) - length prefix <= length tail)%nat ->
  (ver = H_Version1 \/ ver = H_Version2) -> zlen dcid <= 20 -> zlen scid <= 20 -> 0 <= lf <= 16383 -> 1 <= pnLen <= 4 ->
  Z.max ctl (Z.of_nat (length prefix)) <= maxVarInt8 ->
  let k := (Z.to_nat (Z.max ctl (Z.of_nat (length prefix))) - length prefix)%nat in
  exists t, resolveToken None ctl prefix tail conf = Some t /\
    t = prefix ++ firstn k tail /\ zlen t = Z.max ctl (zlen prefix) /\
    initialHeaderBytes ver dcid scid t lf pn pnLen
    = (0, (192 + 16 * type_code ver H_PacketTypeInitial + (pnLen - 1))
          :: (be 4 ver ++ [zlen dcid] ++ dcid ++ [zlen scid] ++ scid ++
              vappend (Z.max ctl (zlen prefix)) ++ (prefix ++ firstn k tail) ++ vappend_len lf 2)
          ++ pn_bytes (Z.to_nat pnLen) pn).
Proof. exact wire_token. Qed.

Lemma t_C10_wire_token_example :
  resolveToken None 1 [7; 8; 9] [] None = Some [7; 8; 9] /\ resolveToken None 5 [7; 8; 9] [1; 2; 3] None = Some [7; 8; 9; 1; 2].
Proof. split; reflexivity. Qed.

Lemma t_C10_cid_lengths_by_construction : forall specScid specDcid drawn,
  dialScidLen specScid = specScid /\ (specDcid > 0 -> dialDcidLen specDcid drawn = specDcid) /\
  (specDcid <= 0 -> dialDcidLen specDcid drawn = drawn).
Proof. exact dial_cid_lengths. Qed.

Lemma t_C10_crypto_split_exact : forall fuel hdr off rem maxSize c ps bk idx,
  1 <= c <= 16383 -> c <= rem ->
  0 < hdr + (1 + vlen off + vlen c + c) < (if (ps >? 0) && (ps <? maxSize) then ps else maxSize) - 16 ->
  popLoop (S fuel) off rem (initialBudget hdr off maxSize (c, ps) bk idx - hdr) = ([(off, c)], off + c, rem - c).
Proof. exact crypto_split_exact. Qed.

Lemma t_C10_crypto_split_nonvacuous :
  1 <= 999 <= 16383 /\ 999 <= 1734 /\ 0 < 19 + (1 + vlen 0 + vlen 999 + 999) < 1200 - 16 /\
  flight (wcfg BPlain [] 1 [(999, 1200); (0, 1250)] 0) 1700 [1003; 705] =
  [DG 1 1 19 [(0, 999)] 1182 1200 1200 1 false; DG 2 1 19 [(999, 701)] 1232 1250 1250 2 false].
Proof. split; [vm_compute; split; congruence|]. split; [vm_compute; congruence|]. split; [vm_compute; split; reflexivity|]. exact plan_index_plain. Qed.

Lemma t_C10_random_split_exact : forall fuel hdr off rem maxSize ps rfs idx rf,
  rfFor rfs idx = Some rf -> 0 < fst (fst (fst rf)) -> 1 <= snd (fst (fst rf)) ->
  let n := maxCryptoData rf off in
  1 <= n <= 16383 -> n <= rem ->
  0 < hdr + (1 + vlen off + vlen n + n) < (if (ps >? 0) && (ps <? maxSize) then ps else maxSize) - 16 ->
  popLoop (S fuel) off rem (initialBudget hdr off maxSize (0, ps) (BRandom rfs) idx - hdr) = ([(off, n)], off + n, rem - n).
Proof. exact random_split_exact. Qed.

Lemma t_C10_flight_datagram_crypto_bound : forall c helloLen plens k rfs pn pnLen h fs lf pk dl ix rp,
  c_bk c = BRandom rfs -> rfs <> [] -> random_fits c rfs ->
  nth_error (flight c helloLen plens) k = Some (DG pn pnLen h fs lf pk dl ix rp) ->
  exists rf o n, rfFor rfs (Z.of_nat k) = Some rf /\ fs = [(o, n)] /\ 0 <= o /\ 0 < n <= maxCryptoData rf o.
Proof. exact flight_datagram_crypto_bound. Qed.

Lemma t_C10_random_fits_chrome146 : random_fits (wcfg (BRandom [(1215, 2, 3, 13)]) [1; 2] 0 [] 0) [(1215, 2, 3, 13)].
Proof. exact random_fits_chrome146. Qed.

Lemma t_C10_random_reserve_sufficient : forall len minpad maxping maxcrypto off (fs : list (Z * Z)) pings,
  0 <= off -> 0 < len -> off + len <= maxVarInt8 ->
  0 < maxCryptoData (len, minpad, maxping, maxcrypto) off ->
  dataLen fs <= maxCryptoData (len, minpad, maxping, maxcrypto) off ->
  Z.of_nat (length fs) <= Z.max maxcrypto 1 ->
  Forall (fun f => fst f <= off + len /\ 0 <= snd f <= len) fs ->
  0 <= pings <= maxping ->
  pings + framesLen fs <= len - minpad.
Proof. exact reserve_sufficient. Qed.

Lemma t_C10_random_payload_exact : forall p data base bs us ws bs' us',
  rf_wf p -> 0 <= base -> 0 < rfLen p -> 1 <= minPad p -> base + rfLen p <= maxVarInt8 ->
  0 < zlen data <= maxCryptoData (rfTuple p) base ->
  build_internal p data base bs us = UFrames.Model.Ok (ws, bs', us') ->
  zlen (encode ws) = rfLen p /\ minPad p <= wpadbytes ws.
Proof. exact random_payload_exact. Qed.

Lemma t_C10_random_datagram_exact : forall p data base bs us ws bs' us' cl s hdr pnLen udpMin,
  rf_wf p -> 0 <= base -> 0 < rfLen p -> 1 <= minPad p -> base + rfLen p <= maxVarInt8 ->
  0 < zlen data <= maxCryptoData (rfTuple p) base ->
  build_internal p data base bs us = UFrames.Model.Ok (ws, bs', us') ->
  (hdr + rfLen p + 16 <= 1452 ->
   appendInitial (cl, 0) hdr pnLen (zlen (encode ws)) udpMin
   = AppOk (pnLen + rfLen p + 16) (hdr + rfLen p + 16)
           (Z.max (hdr + rfLen p + 16) (Z.min (if udpMin =? 0 then 1200 else udpMin) 1452)) false) /\
  (0 < s -> hdr + rfLen p + 16 <= s -> s <= 1452 ->
   appendInitial (cl, s) hdr pnLen (zlen (encode ws)) udpMin = AppOk (pnLen + (s - hdr - 16) + 16) s s false).
Proof.
  intros p data base bs us ws bs' us' cl s hdr pnLen udpMin H1 H2 H3 H4 H5 H6 H7.
  destruct (random_payload_exact p data base bs us ws bs' us' H1 H2 H3 H4 H5 H6 H7) as [E _]. rewrite E.
  split; [apply append_udp_min|apply append_exact_fits].
Qed.

Lemma t_C10_random_payload_nonvacuous :
  rf_wf ex_p /\ maxCryptoData (rfTuple ex_p) 0 = 1145 /\
  match build_internal ex_p (repeat 7 1145%nat) 0 ex_bs ex_us with
  | UFrames.Model.Ok (ws, _, _) => zlen (encode ws) = 1215 /\ wpadbytes ws = 23
  | _ => False
  end.
Proof. exact random_payload_example. Qed.

Lemma t_C10_random_reserve_regression :
  maxCryptoData (1215, 2, 3, 13) 0 = 1145 /\
  flight (wcfg (BRandom [(1215, 2, 3, 13)]) [1; 2] 0 [] 0) 1734 [1215; 1215] =
  [DG 1 1 19 [(0, 1145)] 1232 1250 1250 1 false; DG 2 2 20 [(1145, 589)] 1233 1251 1251 2 false].
Proof. exact random_reserve_regression. Qed.

Lemma t_C10_exact_size : forall cl s hdr pnLen plen udpMin,
  0 < s -> hdr + plen + 16 <= s -> s <= 1452 ->
  appendInitial (cl, s) hdr pnLen plen udpMin = AppOk (pnLen + (s - hdr - 16) + 16) s s false.
Proof. exact append_exact_fits. Qed.

Lemma t_C10_udp_min_size : forall cl hdr pnLen plen udpMin,
  hdr + plen + 16 <= 1452 ->
  let mn := Z.min (if udpMin =? 0 then 1200 else udpMin) 1452 in
  appendInitial (cl, 0) hdr pnLen plen udpMin
  = AppOk (pnLen + plen + 16) (hdr + plen + 16) (Z.max (hdr + plen + 16) mn) false.
Proof. exact append_udp_min. Qed.

Lemma t_C10_passthrough_sizes : forall c helloLen plens k pn pnLen h fs lf pk dl ix rp,
  c_bk c = BPass -> 0 <= c_maxSize c <= 16383 -> 0 <= h ->
  nth_error (flight c helloLen plens) k = Some (DG pn pnLen h fs lf pk dl ix rp) ->
  let ps := snd (planFor (c_plans c) (Z.of_nat k)) in
  (0 < ps <= c_maxSize c -> ps <= 1452 -> pk = ps /\ dl = ps) /\
  (ps = 0 -> (if c_udpMin c =? 0 then 1200 else c_udpMin c) <= c_maxSize c -> pk <= c_maxSize c /\ dl <= c_maxSize c).
Proof. exact flight_pass_sizes. Qed.

Lemma t_C10_passthrough_sizes_regression :
  flight (wcfg BPass [] 1 [(0, 1232)] 0) 1734 [] =
  [DG 1 1 19 [(0, 1193)] 1214 1232 1232 1 false; DG 2 1 19 [(1193, 541)] 1214 1232 1232 2 false].
Proof. exact packet_size_caps_regression. Qed.

Lemma t_C10_exact_size_refuted :
  (forall cl s hdr pnLen plen udpMin, 0 < s -> s < hdr + plen + 16 -> hdr + plen + 16 <= 1452 ->
     appendInitial (cl, s) hdr pnLen plen udpMin = AppOk (pnLen + plen + 16) (hdr + plen + 16) (hdr + plen + 16) false) /\
  (exists s hdr pnLen plen pk lf dl rp, appendInitial (0, s) hdr pnLen plen 0 = AppOk lf pk dl rp /\ s < pk).
Proof.
  split; [exact append_exact_overshoot|].
  exists 1200, 19, 1, 1200, 1235, 1217, 1235, false. split; [exact exact_size_overshoot_witness|reflexivity].
Qed.

Lemma t_C10_plan_index_regression :
  flight (wcfg BPass [] 1 [(999, 1200); (0, 1250)] 0) 1700 [] =
  [DG 1 1 19 [(0, 999)] 1182 1200 1200 1 false; DG 2 1 19 [(999, 701)] 1232 1250 1250 2 false].
Proof. exact plan_index_regression. Qed.

Lemma t_C10_fits_or_error : forall plan hdr pnLen plen udpMin,
  match appendInitial plan hdr pnLen plen udpMin with
  | AppErr => hdr + paddedLen (snd plan) hdr plen + 16 > 1452
  | AppOk lf pl dl rp =>
    pl <= 1452 /\ pl = hdr + paddedLen (snd plan) hdr plen + 16 /\
    lf = pnLen + paddedLen (snd plan) hdr plen + 16 /\ pl <= dl /\ dl <= 1452 /\ rp = false
  end.
Proof. exact append_fits_or_error. Qed.

Lemma t_C10_release_panic_regression :
  appendInitial (0, 0) 19 1 504 1500 = AppOk 521 539 1452 false.
Proof. exact release_panic_regression. Qed.

Lemma t_C10_le_max_packet_size : forall plan hdr pnLen plen udpMin maxSize lf pl dl rp,
  appendInitial plan hdr pnLen plen udpMin = AppOk lf pl dl rp ->
  hdr + plen + 16 <= maxSize -> snd plan <= maxSize ->
  (snd plan = 0 -> (if udpMin =? 0 then 1200 else udpMin) <= maxSize) ->
  dl <= maxSize.
Proof. exact append_le_max. Qed.

Lemma t_C10_udp_min_excess : forall cl hdr pnLen plen udpMin maxSize,
  hdr + plen + 16 <= 1452 -> hdr + plen + 16 <= maxSize ->
  let mn := Z.min (if udpMin =? 0 then 1200 else udpMin) 1452 in
  exists dl, appendInitial (cl, 0) hdr pnLen plen udpMin = AppOk (pnLen + plen + 16) (hdr + plen + 16) dl false /\
             (maxSize < dl <-> maxSize < mn) /\ (maxSize < dl -> dl = mn).
Proof. exact udp_min_excess. Qed.

Lemma t_C10_le_max_packet_size_refuted :
  (exists lf, appendInitial (0, 0) 22 1 516 1357 = AppOk lf 554 1357 false) /\
  flight (wcfg BEx [] 1 [] 0) 1241 [1300] = [DG 1 1 19 [(0, 1241)] 1317 1335 1335 1 false].
Proof. split; [eexists; exact le_max_udpmin_witness|exact builder_overshoot_witness]. Qed.

Lemma t_C10_flight_budget_fits : forall c i plen,
  c_lens c <> [] \/ c_single c <> 0 -> 0 < budgetAt c i -> plen <= budgetAt c i ->
  let ps := snd (planFor (c_plans c) i) in
  (0 < ps <= 1452 ->
   appendInitial (planFor (c_plans c) i) (hdrOf c i) (pnLenOf c i) plen (c_udpMin c)
   = AppOk (pnLenOf c i + (ps - hdrOf c i - 16) + 16) ps ps false) /\
  (ps = 0 -> hdrOf c i + plen + 16 <= c_maxSize c).
Proof. intros c i plen H. exact (planned_within_budget c i plen (budgetHdr_eq c i H)). Qed.

Lemma t_C10_flight_budget_regression :
  flightBudgets (wcfg BFlight [1; 4] 0 [(0, 1200); (0, 1200)] 0) 1700 = [1165; 1162] /\
  flight (wcfg BFlight [1; 4] 0 [(0, 1200); (0, 1200)] 0) 1700 [1165; 1162] =
  [DG 1 1 19 [] 1182 1200 1200 1 false; DG 2 4 22 [] 1182 1200 1200 2 false] /\
  flight (wcfg BFlight [1; 4] 0 [(0, 1200); (0, 1200)] 0) 1700 [1165; 1165] = [DGErr 2].
Proof. exact flight_budget_regression. Qed.

Lemma t_C10_decryptable :
  forall (aead_seal : Z -> Z -> list Z -> list Z -> list Z)
         (aead_open : Z -> Z -> list Z -> list Z -> option (list Z))
         (hp_mask : list Z -> list Z),
    (forall pn kp ad p, aead_open pn kp ad (aead_seal pn kp ad p) = Some p) ->
    (forall pn kp ad p, length (aead_seal pn kp ad p) = (length p + 16)%nat) ->
    forall c helloLen plens k pn pnLen h fs lf pk dl ix rp (mid payload : list Z) largest,
      nth_error (flight c helloLen plens) k = Some (DG pn pnLen h fs lf pk dl ix rp) ->
      1 <= pnLen <= 4 -> pn < 2 ^ 62 -> 0 <= c_first c ->
      Z.of_nat (length payload) = pk - h - 16 -> payload <> [] ->
      4 <= pnLen + Z.of_nat (length payload) ->
      (largest = pn - 1 \/ (largest = -1 /\ pn <= 2 ^ (pnLen * 8) / 2)) ->
      unprotect aead_open hp_mask true (1 + length mid) largest
        (protect aead_seal hp_mask true (mk_header (long_first 0 (Z.to_nat pnLen)) mid (Z.to_nat pnLen) pn) payload pn 0 (Z.to_nat pnLen))
      = UOk (long_first 0 (Z.to_nat pnLen)) pn pnLen 0 payload /\
      lf = pnLen + Z.of_nat (length payload) + 16.
Proof. exact flight_decryptable. Qed.

Lemma t_C10_header_bytes : forall ver dcid scid token lf pn pnLen,
  (ver = H_Version1 \/ ver = H_Version2) -> zlen dcid <= 20 -> zlen scid <= 20 -> 0 <= lf <= 16383 ->
  1 <= pnLen <= 4 -> zlen token <= maxVarInt8 ->
  initialHeaderBytes ver dcid scid token lf pn pnLen
  = (0, (192 + 16 * type_code ver H_PacketTypeInitial + (pnLen - 1))
        :: (be 4 ver ++ [zlen dcid] ++ dcid ++ [zlen scid] ++ scid ++ vappend (zlen token) ++ token ++ vappend_len lf 2)
        ++ pn_bytes (Z.to_nat pnLen) pn) /\
  zlen (snd (initialHeaderBytes ver dcid scid token lf pn pnLen))
  = 1 + 4 + 1 + zlen dcid + 1 + zlen scid + pnLen + 2 + (vlen (zlen token) + zlen token).
Proof.
  intros ver dcid scid token lf pn pnLen Hv Hd Hs Hl Hp Ht.
  pose proof (Build_wf_initial ver dcid scid token lf pnLen Hv Hd Hs Hl Hp Ht) as W.
  split; [exact (initial_header_bytes ver dcid scid token lf pn pnLen W)|exact (initial_header_length ver dcid scid token lf pn pnLen W)].
Qed.

Lemma t_C10_server_reads_back :
  forall (aead_seal : Z -> Z -> list Z -> list Z -> list Z)
         (aead_open : Z -> Z -> list Z -> list Z -> option (list Z))
         (hp_mask : list Z -> list Z),
    (forall pn kp ad p, aead_open pn kp ad (aead_seal pn kp ad p) = Some p) ->
    (forall pn kp ad p, length (aead_seal pn kp ad p) = (length p + 16)%nat) ->
    forall c helloLen plens k pn pnLen h fs lf pk dl ix rp ver (dcid scid token payload : list Z) largest,
      nth_error (flight c helloLen plens) k = Some (DG pn pnLen h fs lf pk dl ix rp) ->
      (ver = H_Version1 \/ ver = H_Version2) ->
      zlen dcid = c_dcid c -> zlen scid = c_scid c -> zlen token = c_tokLen c ->
      zlen dcid <= 20 -> zlen scid <= 20 ->
      1 <= pnLen <= 4 -> pn < 2 ^ 62 -> 0 <= c_first c ->
      zlen payload = pk - h - 16 -> payload <> [] -> 4 <= pnLen + zlen payload ->
      (largest = pn - 1 \/ (largest = -1 /\ pn < 2 ^ (pnLen * 8))) ->
      let hb := initialHeaderBytes ver dcid scid token lf pn pnLen in
      let pkt := protect aead_seal hp_mask true (snd hb) payload pn 0 (Z.to_nat pnLen) in
      fst hb = 0 /\ zlen (snd hb) = h /\
      exists hd, parse_header pkt = Some (hd, 0) /\
        hType hd = H_PacketTypeInitial /\ hVersion hd = ver /\ hDst hd = dcid /\ hSrc hd = scid /\
        hToken hd = token /\ hLength hd = lf /\ hParsedLen hd = h - pnLen /\
        zlen pkt = hParsedLen hd + hLength hd /\
        unprotect aead_open hp_mask true (Z.to_nat (hParsedLen hd)) largest pkt
        = UOk (192 + 16 * type_code ver H_PacketTypeInitial + (pnLen - 1)) pn pnLen 0 payload.
Proof. exact flight_server_reads_back. Qed.

Lemma t_C10_server_reads_back_initial_keys :
  forall c helloLen plens k pn pnLen h fs lf pk dl ix rp ver (keyDcid dcid scid token payload : list Z) largest,
    nth_error (flight c helloLen plens) k = Some (DG pn pnLen h fs lf pk dl ix rp) ->
    (ver = H_Version1 \/ ver = H_Version2) ->
    zlen dcid = c_dcid c -> zlen scid = c_scid c -> zlen token = c_tokLen c ->
    zlen dcid <= 20 -> zlen scid <= 20 ->
    1 <= pnLen <= 4 -> pn < 2 ^ 62 -> 0 <= c_first c ->
    zlen payload = pk - h - 16 -> payload <> [] -> 4 <= pnLen + zlen payload ->
    (largest = pn - 1 \/ (largest = -1 /\ pn < 2 ^ (pnLen * 8))) ->
    let v2 := ver =? H_Version2 in
    let hb := initialHeaderBytes ver dcid scid token lf pn pnLen in
    let pkt := initial_protect v2 true keyDcid (snd hb) payload pn (Z.to_nat pnLen) in
    fst hb = 0 /\ zlen (snd hb) = h /\
    exists hd, parse_header pkt = Some (hd, 0) /\
      hType hd = H_PacketTypeInitial /\ hVersion hd = ver /\ hDst hd = dcid /\ hSrc hd = scid /\
      hToken hd = token /\ hLength hd = lf /\ hParsedLen hd = h - pnLen /\
      zlen pkt = hParsedLen hd + hLength hd /\
      initial_unprotect v2 true keyDcid (Z.to_nat (hParsedLen hd)) largest pkt
      = UOk (192 + 16 * type_code ver H_PacketTypeInitial + (pnLen - 1)) pn pnLen 0 payload.
Proof. exact flight_server_reads_back_initial_keys. Qed.

Lemma t_C10_server_parses_passthrough : forall (c : Frames.cfg) data frames pad,
  Forall (fun f => 0 <= fst f <= maxVarInt8 /\ 0 <= snd f /\ fst f + snd f <= zlen data /\ snd f <= maxVarInt8) frames ->
  parseAll (S (length frames)) c W_EncryptionInitial (passPayload data frames pad)
  = Some (map (fun f => FramesBase.FCrypto (fst f) (zslice data (fst f) (snd f))) frames).
Proof. exact parse_passPayload. Qed.

Lemma t_C10_server_parses_passthrough_example :
  passPayload [10; 11; 12; 13; 14] [(0, 2); (2, 3)] 2 = [6; 0; 2; 10; 11; 6; 2; 3; 12; 13; 14; 0; 0] /\
  parseAll 3 (Cfg false false false 3) W_EncryptionInitial (passPayload [10; 11; 12; 13; 14] [(0, 2); (2, 3)] 2)
  = Some [FramesBase.FCrypto 0 [10; 11]; FramesBase.FCrypto 2 [12; 13; 14]].
Proof. split; vm_compute; reflexivity. Qed.

Lemma t_C10_server_parses_random : forall (c : Frames.cfg) p data base bs us ws bs' us',
  rf_wf p -> 0 <= base -> base + zlen data <= maxVarInt8 ->
  build_internal p data base bs us = UFrames.Model.Ok (ws, bs', us') ->
  parseAll (S (length ws)) c W_EncryptionInitial (encode ws) = Some (wireFrames ws) /\
  exact_cover data base ws.
Proof. exact random_payload_parses. Qed.

Lemma t_C10_server_reads_back_nonvacuous :
  (forall pn kp ad p, toy_open pn kp ad (toy_seal pn kp ad p) = Some p) /\
  (forall pn kp ad p, length (toy_seal pn kp ad p) = (length p + 16)%nat) /\
  nth_error (flight (wcfg BPass [] 1 [(999, 1200); (0, 1250)] 0) 1700 []) 0 = Some (DG 1 1 19 [(0, 999)] 1182 1200 1200 1 false) /\
  zlen (repeat 7 8) = 8 /\ zlen (repeat 1 1165) = 1200 - 19 - 16 /\ repeat 1 1165 <> [] /\ 4 <= 1 + zlen (repeat 1 1165) /\
  1 < 2 ^ (1 * 8).
Proof.
  split; [exact toy_open_seal|]. split; [exact toy_seal_length|].
  split; [rewrite plan_index_regression; reflexivity|].
  repeat split; try (vm_compute; congruence); discriminate.
Qed.

Lemma t_C10_first_pn_decodable_iff : forall len pn,
  valid_len len -> 0 <= pn < 2 ^ 62 ->
  (decodePN len (-1) (truncatePN len pn) = pn <-> pn < 2 ^ (len * 8)).
Proof. exact first_pn_decodable_iff. Qed.

Lemma t_C10_next_pn_decodable : forall len pn,
  valid_len len -> 1 <= pn < 2 ^ 62 -> decodePN len (pn - 1) (truncatePN len pn) = pn.
Proof. exact next_pn_decodable. Qed.

Lemma t_C10_hp_sample_inside : forall plan hdr pnLen plen udpMin lf pl dl rp,
  appendInitial plan hdr pnLen plen udpMin = AppOk lf pl dl rp -> 4 <= pnLen + plen -> 20 <= lf.
Proof. exact append_sample. Qed.
