(** C10 proofs, part 2: the CRYPTO split, the pass-through size bound, and the header fields
    of every packet of a flight. *)
From Coq Require Import List ZArith Bool Lia.
From Coq Require Import ZifyBool.
From V Require Import Gen.Params Wire.Varint Wire.VarintProofs PktProt.PktNum PktProt.PktNumProofs UPacker.Model UPacker.ProofsSize.
Import ListNotations.
Open Scope Z_scope.
Local Ltac Zify.zify_post_hook ::= Z.div_mod_to_equations.

(** * varint widths *)
Lemma vlen_nonneg v : 0 <= vlen v.
Proof.
  unfold vlen. destruct (v <=? maxVarInt1); [lia|]. destruct (v <=? maxVarInt2); [lia|].
  destruct (v <=? maxVarInt4); [lia|]. destruct (v <=? maxVarInt8); lia.
Qed.

Lemma vlen_small n : n <= 63 -> vlen n = 1.
Proof. unfold vlen, maxVarInt1. intros H. destruct (Z.leb_spec n 63); [reflexivity|lia]. Qed.

Lemma vlen_mid n : 64 <= n <= 16383 -> vlen n = 2.
Proof.
  unfold vlen, maxVarInt1, maxVarInt2. intros H.
  destruct (Z.leb_spec n 63); [lia|]. destruct (Z.leb_spec n 16383); [reflexivity|lia].
Qed.

Lemma vlen_big n : 16384 <= n -> vlen n <> 1.
Proof.
  unfold vlen, maxVarInt1, maxVarInt2, maxVarInt4, maxVarInt8. intros H.
  destruct (Z.leb_spec n 63); [lia|]. destruct (Z.leb_spec n 16383); [lia|].
  destruct (n <=? 1073741823); [lia|]. destruct (n <=? 4611686018427387903); lia.
Qed.

Lemma vlen_1_iff d : vlen d = 1 <-> d <= 63.
Proof.
  split; intros H; [|apply vlen_small; assumption].
  destruct (Z.leb_spec d 63) as [|Hgt]; [assumption|exfalso].
  destruct (Z.leb_spec d 16383).
  - rewrite vlen_mid in H by lia. lia.
  - apply (vlen_big d); [lia|assumption].
Qed.

(** * PopCryptoFrame *)

Lemma maxDataLen_zero off m : m <= 0 -> maxDataLen off m = 0.
Proof.
  intros H. unfold maxDataLen. pose proof (vlen_nonneg off).
  destruct (Z.gtb_spec (1 + vlen off + 1) m); [reflexivity|lia].
Qed.

(** MaxDataLen for the budget of exactly c data bytes *)
Lemma maxDataLen_exact off c : 1 <= c <= 16383 ->
  maxDataLen off (1 + vlen off + vlen c + c) = c.
Proof.
  intros Hc. unfold maxDataLen. pose proof (vlen_nonneg off) as Ho. pose proof (vlen_nonneg c) as Hcn.
  destruct (Z.leb_spec c 63) as [Hs|Hb].
  - rewrite (vlen_small c) by lia.
    destruct (Z.gtb_spec (1 + vlen off + 1) (1 + vlen off + 1 + c)); [lia|].
    replace (1 + vlen off + 1 + c - (1 + vlen off + 1)) with c by lia.
    rewrite (vlen_small c) by lia. reflexivity.
  - rewrite (vlen_mid c) by lia.
    destruct (Z.gtb_spec (1 + vlen off + 1) (1 + vlen off + 2 + c)); [lia|].
    replace (1 + vlen off + 2 + c - (1 + vlen off + 1)) with (c + 1) by lia.
    destruct (Z.eqb_spec (vlen (c + 1)) 1) as [E|E]; cbn [negb]; [|lia].
    apply vlen_1_iff in E. lia.
Qed.

Lemma popLoop_S f off rem m :
  popLoop (S f) off rem m =
  if rem <=? 0 then ([], off, rem)
  else let n := Z.min (maxDataLen off m) rem in
       if n <=? 0 then ([], off, rem)
       else let '(fs, off', rem') := popLoop f (off + n) (rem - n) (m - cframeLen off n) in
            ((off, n) :: fs, off', rem').
Proof. reflexivity. Qed.

Lemma popLoop_stop fuel off rem m : m <= 0 -> popLoop fuel off rem m = ([], off, rem).
Proof.
  intros Hm. destruct fuel as [|f]; [reflexivity|]. rewrite popLoop_S.
  destruct (rem <=? 0); [reflexivity|].
  rewrite maxDataLen_zero by assumption. cbv zeta.
  destruct (Z.leb_spec (Z.min 0 rem) 0); [reflexivity|lia].
Qed.

Lemma popLoop_nil fuel off rem m : m <= 0 -> fst (fst (popLoop fuel off rem m)) = [].
Proof. intros Hm. rewrite popLoop_stop by assumption. reflexivity. Qed.

(** C10_crypto_split_exact, on the packer's loop: with the budget the CryptoLength cap
    computes, exactly one CRYPTO frame (off, c) is popped, and the stream moves to off + c --
    whatever the varint width of the write offset *)
Lemma popLoop_split_exact fuel off rem c :
  1 <= c <= 16383 -> c <= rem ->
  popLoop (S fuel) off rem (1 + vlen off + vlen c + c) = ([(off, c)], off + c, rem - c).
Proof.
  intros Hc Hrem. rewrite popLoop_S.
  destruct (Z.leb_spec rem 0); [lia|].
  rewrite maxDataLen_exact by assumption. cbv zeta.
  rewrite Z.min_l by lia.
  destruct (Z.leb_spec c 0); [lia|].
  rewrite popLoop_stop by (unfold cframeLen; lia). reflexivity.
Qed.

(** the packet's maximum: PacketSize when it is set below the maximum packet size *)
Definition capOf (maxSize ps : Z) : Z := if (ps >? 0) && (ps <? maxSize) then ps else maxSize.

Lemma capOf_le maxSize ps : capOf maxSize ps <= maxSize.
Proof. unfold capOf. destruct (Z.gtb_spec ps 0); destruct (Z.ltb_spec ps maxSize); cbn [andb]; lia. Qed.

Lemma capOf_ps maxSize ps : 0 < ps <= maxSize -> capOf maxSize ps = ps.
Proof. intros H. unfold capOf. destruct (Z.gtb_spec ps 0); destruct (Z.ltb_spec ps maxSize); cbn [andb]; lia. Qed.

Lemma initialBudget_cap hdr off maxSize c ps bk idx :
  0 < c -> 0 < hdr + (1 + vlen off + vlen c + c) < capOf maxSize ps - overhead ->
  initialBudget hdr off maxSize (c, ps) bk idx - hdr = 1 + vlen off + vlen c + c.
Proof.
  intros Hc Hb. unfold initialBudget. cbn [fst snd]. fold (capOf maxSize ps).
  destruct (Z.gtb_spec c 0); [|lia].
  destruct (Z.gtb_spec (hdr + (1 + vlen off + vlen c + c)) 0); [|lia].
  destruct (Z.ltb_spec (hdr + (1 + vlen off + vlen c + c)) (capOf maxSize ps - overhead)); [|lia].
  cbn [andb]. lia.
Qed.

Lemma crypto_split_exact fuel hdr off rem maxSize c ps bk idx :
  1 <= c <= 16383 -> c <= rem ->
  0 < hdr + (1 + vlen off + vlen c + c) < capOf maxSize ps - overhead ->
  popLoop (S fuel) off rem (initialBudget hdr off maxSize (c, ps) bk idx - hdr)
  = ([(off, c)], off + c, rem - c).
Proof.
  intros Hc Hrem Hb. rewrite initialBudget_cap by (try assumption; lia).
  apply popLoop_split_exact; assumption.
Qed.

(** a random builder (no CryptoLength): the CRYPTO popped is what maxCryptoData allows *)
Lemma initialBudget_random hdr off maxSize ps rfs idx rf :
  rfFor rfs idx = Some rf -> 0 < fst (fst (fst rf)) -> 1 <= snd (fst (fst rf)) ->
  let n := maxCryptoData rf off in
  0 < n -> 0 < hdr + (1 + vlen off + vlen n + n) < capOf maxSize ps - overhead ->
  initialBudget hdr off maxSize (0, ps) (BRandom rfs) idx - hdr = 1 + vlen off + vlen n + n.
Proof.
  intros Hrf Hlen Hpad n Hn Hb. unfold initialBudget. cbn [fst snd]. fold (capOf maxSize ps).
  cbn [Z.gtb Z.compare]. rewrite Hrf. destruct rf as [[[len minpad] mp] mc]. cbn [fst snd] in *.
  destruct (Z.gtb_spec len 0); [|lia]. destruct (Z.geb_spec minpad 1); [|lia]. cbn [andb].
  fold n. destruct (Z.gtb_spec n 0); [|lia].
  destruct (Z.gtb_spec (hdr + (1 + vlen off + vlen n + n)) 0); [|lia].
  destruct (Z.ltb_spec (hdr + (1 + vlen off + vlen n + n)) (capOf maxSize ps - overhead)); [|lia].
  cbn [andb]. lia.
Qed.

Lemma random_split_exact fuel hdr off rem maxSize ps rfs idx rf :
  rfFor rfs idx = Some rf -> 0 < fst (fst (fst rf)) -> 1 <= snd (fst (fst rf)) ->
  let n := maxCryptoData rf off in
  1 <= n <= 16383 -> n <= rem -> 0 < hdr + (1 + vlen off + vlen n + n) < capOf maxSize ps - overhead ->
  popLoop (S fuel) off rem (initialBudget hdr off maxSize (0, ps) (BRandom rfs) idx - hdr)
  = ([(off, n)], off + n, rem - n).
Proof.
  intros Hrf Hlen Hpad n Hn Hrem Hb. unfold n in *. rewrite (initialBudget_random _ _ _ _ _ _ rf) by (try assumption; lia).
  apply popLoop_split_exact; assumption.
Qed.

(** less than c bytes queued: everything is popped *)
Lemma popLoop_split_rest fuel off rem c :
  1 <= c <= 16383 -> 0 < rem < c ->
  popLoop (S fuel) off rem (1 + vlen off + vlen c + c) = ([(off, rem)], off + rem, 0).
Proof.
  intros Hc Hrem. rewrite popLoop_S.
  destruct (Z.leb_spec rem 0); [lia|].
  rewrite maxDataLen_exact by assumption. cbv zeta.
  rewrite Z.min_r by lia.
  destruct (Z.leb_spec rem 0); [lia|].
  replace (rem - rem) with 0 by lia.
  destruct fuel as [|f]; [reflexivity|]. rewrite popLoop_S. reflexivity.
Qed.

(** the popped frames never exceed the space they were given (frames of up to 16383 bytes) *)
Lemma popLoop_le fuel : forall off rem m, m <= 16383 ->
  framesLen (fst (fst (popLoop fuel off rem m))) <= Z.max m 0.
Proof.
  induction fuel as [|f IH]; intros off rem m Hm.
  - cbn. lia.
  - rewrite popLoop_S. cbv zeta. destruct (Z.leb_spec rem 0); [cbn; lia|].
    destruct (Z.leb_spec (Z.min (maxDataLen off m) rem) 0) as [Hn|Hn]; [cbn; lia|].
    set (n := Z.min (maxDataLen off m) rem) in *.
    assert (Hcf : cframeLen off n <= m /\ 0 < cframeLen off n).
    { unfold cframeLen. pose proof (vlen_nonneg off) as Ho. pose proof (vlen_nonneg n) as Hnn.
      assert (Hmd : n <= maxDataLen off m) by (unfold n; lia).
      unfold maxDataLen in Hmd.
      destruct (Z.gtb_spec (1 + vlen off + 1) m) as [Hg|Hg]; [lia|].
      destruct (Z.eqb_spec (vlen (m - (1 + vlen off + 1))) 1) as [E|E]; cbn [negb] in Hmd.
      - apply vlen_1_iff in E. rewrite (vlen_small n) by lia. lia.
      - assert (Hd : 64 <= m - (1 + vlen off + 1)).
        { destruct (Z.leb_spec (m - (1 + vlen off + 1)) 63) as [Hle|]; [|lia].
          exfalso. apply E. apply vlen_small. assumption. }
        destruct (Z.leb_spec n 63).
        + rewrite (vlen_small n) by lia. lia.
        + rewrite (vlen_mid n) by lia. lia. }
    assert (IH' := IH (off + n) (rem - n) (m - cframeLen off n) ltac:(lia)).
    destruct (popLoop f (off + n) (rem - n) (m - cframeLen off n)) as [[fs o'] r'].
    cbn [fst snd] in IH'. cbn [fst snd framesLen fold_right]. fold (framesLen fs). lia.
Qed.

Lemma initialBudget_le hdr off maxSize plan bk idx :
  initialBudget hdr off maxSize plan bk idx <= capOf maxSize (snd plan) - overhead.
Proof.
  unfold initialBudget. fold (capOf maxSize (snd plan)).
  set (ims := capOf maxSize (snd plan) - overhead).
  assert (Hb : forall b, (if (b >? 0) && (b <? ims) then b else ims) <= ims).
  { intros b. destruct (b >? 0); cbn [andb]; [|lia]. destruct (Z.ltb_spec b ims); lia. }
  destruct (fst plan >? 0); [apply Hb|].
  destruct bk; try lia.
  destruct (rfFor rfs idx) as [[[[len minpad] mp] mc]|]; [|lia].
  destruct ((len >? 0) && (minpad >=? 1)); [|lia].
  destruct (maxCryptoData (len, minpad, mp, mc) off >? 0); [apply Hb|lia].
Qed.

(** * flights *)

Definition capAt (c : cfg) (i : Z) : Z := capOf (c_maxSize c) (snd (planFor (c_plans c) i)).

Definition dg_ok (c : cfg) (i : Z) (d : dgres) : Prop :=
  match d with
  | DG pn pl h _ lf pk dl _ rp =>
    pn = c_first c + i /\
    pl = peekPnLen (c_lens c) (c_single c) (pnBase (c_ipn c)) pn /\
    h = hdrLen (c_dcid c) (c_scid c) (c_tokLen c) pl /\
    lf = pl + (pk - h - overhead) + overhead /\
    pk <= bufCap /\ pk <= dl /\ dl <= bufCap /\ rp = false /\
    (* datagram i is sized by InitialPackets[i], for every builder kind *)
    exists plen, appendInitial (planFor (c_plans c) i) h pl plen (c_udpMin c) = AppOk lf pk dl rp /\
                 (* ... and for the pass-through builders the frames fit the packet's maximum *)
                 (c_bk c = BPass -> c_maxSize c <= 16383 -> 0 <= h -> h + plen + overhead <= capAt c i)
  | DGErr _ => True
  end.

Lemma appendInitial_dg_ok c i plen lf pk dl rp fs ix :
  appendInitial (planFor (c_plans c) i) (hdrOf c i) (pnLenOf c i) plen (c_udpMin c) = AppOk lf pk dl rp ->
  (c_bk c = BPass -> c_maxSize c <= 16383 -> 0 <= hdrOf c i -> hdrOf c i + plen + overhead <= capAt c i) ->
  dg_ok c i (DG (pnOf c i) (pnLenOf c i) (hdrOf c i) fs lf pk dl ix rp).
Proof.
  intros H Hfit. pose proof (append_fits_or_error (planFor (c_plans c) i) (hdrOf c i) (pnLenOf c i) plen (c_udpMin c)) as F.
  rewrite H in F. destruct F as (F1 & F2 & F3 & F4 & F5 & F6).
  unfold dg_ok. split; [reflexivity|]. split; [reflexivity|]. split; [reflexivity|].
  split; [lia|]. split; [lia|]. split; [lia|]. split; [lia|]. split; [assumption|].
  exists plen. split; assumption.
Qed.

Lemma flightLoop_ok fuel : forall c plens i off rem k d,
  nth_error (flightLoop fuel c plens i i off rem) k = Some d -> dg_ok c (i + Z.of_nat k) d.
Proof.
  induction fuel as [|f IH]; intros c plens i off rem k d H; cbn [flightLoop] in H.
  - destruct (rem <=? 0); [destruct k; discriminate|].
    destruct k as [|[|k]]; cbn in H; try discriminate. inversion H. exact I.
  - set (plan := planFor (c_plans c) i) in *.
    set (m := initialBudget (hdrOf c i) off (c_maxSize c) plan (c_bk c) i - hdrOf c i) in *.
    pose proof (popLoop_nil 4 off rem m) as Hnil.
    assert (Hle : m <= 16383 -> framesLen (fst (fst (popLoop 4 off rem m))) <= Z.max m 0) by apply popLoop_le.
    destruct (popLoop 4 off rem m) as [[frames off'] rem'] eqn:EP. cbn [fst] in Hnil, Hle.
    destruct frames as [|fr frs] eqn:EF; [destruct k; discriminate|]. rewrite <- EF in *.
    assert (Hmpos : 0 < m).
    { destruct (Z.leb_spec m 0) as [Hz|]; [|assumption]. rewrite Hnil in EF by assumption. discriminate. }
    match type of H with context [if ?b then _ else _] => destruct b end.
    { destruct k as [|[|k]]; cbn in H; try discriminate. inversion H. exact I. }
    match type of H with context [appendInitial ?p ?h ?l ?pl ?u] => destruct (appendInitial p h l pl u) eqn:EA end.
    { destruct k as [|[|k]]; cbn in H; try discriminate. inversion H. exact I. }
    destruct k as [|k].
    + cbn in H. inversion H; subst d. replace (i + Z.of_nat 0) with i by lia.
      eapply appendInitial_dg_ok; [exact EA|].
      intros Hbk Hmax Hh. rewrite Hbk. cbv beta iota.
      pose proof (initialBudget_le (hdrOf c i) off (c_maxSize c) plan (c_bk c) i) as Hib.
      pose proof (capOf_le (c_maxSize c) (snd plan)) as Hcl.
      assert (Hcap : capAt c i = capOf (c_maxSize c) (snd plan)) by reflexivity.
      rewrite Hcap. fold m in Hib.
      assert (Hib' : m + hdrOf c i <= capOf (c_maxSize c) (snd plan) - overhead) by (subst m; lia).
      assert (Hm : m <= 16383) by (unfold overhead, upSealerOverhead in *; lia).
      specialize (Hle Hm). lia.
    + cbn [nth_error] in H. apply IH in H.
      replace (i + Z.of_nat (S k)) with (i + 1 + Z.of_nat k) by lia. exact H.
Qed.

Lemma plannedLoop_ok c : c_bk c = BFlight -> forall plens i k d,
  nth_error (plannedLoop c plens i) k = Some d -> dg_ok c (i + Z.of_nat k) d.
Proof.
  intros Hbk. induction plens as [|p r IH]; intros i k d H; cbn [plannedLoop] in H.
  - destruct k; discriminate.
  - destruct (appendInitial _ _ _ _ _) eqn:EA.
    { destruct k as [|[|k]]; cbn in H; try discriminate. inversion H. exact I. }
    destruct k as [|k].
    + cbn in H. inversion H; subst d. replace (i + Z.of_nat 0) with i by lia.
      eapply appendInitial_dg_ok; [exact EA|]. intros Hb. rewrite Hbk in Hb. discriminate.
    + cbn [nth_error] in H. apply IH in H.
      replace (i + Z.of_nat (S k)) with (i + 1 + Z.of_nat k) by lia. exact H.
Qed.

Lemma nth_error_firstn {A} n : forall (l : list A) k d,
  nth_error (firstn n l) k = Some d -> nth_error l k = Some d.
Proof.
  induction n as [|n IH]; intros l k d H; [destruct k; discriminate|].
  destruct l as [|x l]; [destruct k; discriminate|].
  destruct k as [|k]; [exact H|]. cbn in *. apply IH. exact H.
Qed.

Lemma flight_ok c helloLen plens k d :
  nth_error (flight c helloLen plens) k = Some d -> dg_ok c (Z.of_nat k) d.
Proof.
  unfold flight. intros H.
  assert (Hloop : forall l, nth_error (flightLoop (flightFuel helloLen) c l 0 0 0 helloLen) k = Some d -> dg_ok c (Z.of_nat k) d).
  { intros l Hl. apply flightLoop_ok in Hl. exact Hl. }
  destruct (c_bk c) eqn:Hbk; try (apply (Hloop plens); exact H).
  unfold flightPlanned in H.
  destruct (helloLen <=? 0); [destruct k; discriminate|].
  destruct plens as [|p0 r].
  { destruct k as [|[|k]]; cbn in H; try discriminate. inversion H. exact I. }
  destruct (p0 <? 0).
  { destruct k as [|[|k]]; cbn in H; try discriminate. inversion H. exact I. }
  destruct (sizeRuleOk _ _ _ _).
  - apply (plannedLoop_ok c Hbk) in H. exact H.
  - destruct k as [|[|k]]; cbn in H; try discriminate. inversion H. exact I.
Qed.

(** * pass-through builders: exact size and the maximum packet size *)

Lemma planFor_in plans idx : plans <> [] -> In (planFor plans idx) plans.
Proof.
  intros Hne. unfold planFor. destruct plans as [|p0 pr]; [congruence|].
  set (L := p0 :: pr). assert (HL : (0 < length L)%nat) by (unfold L; simpl; lia).
  apply nth_In. destruct (Z.geb_spec idx (Z.of_nat (length L))); lia.
Qed.

(** nil / empty QUICFrames: the k-th datagram of every flight is at most the maximum packet
    size, and exactly PacketSize where InitialPackets[k] pins one (no CryptoLength needed) *)
Lemma flight_pass_sizes c helloLen plens k pn pnLen h fs lf pk dl ix rp :
  c_bk c = BPass -> 0 <= c_maxSize c <= 16383 -> 0 <= h ->
  nth_error (flight c helloLen plens) k = Some (DG pn pnLen h fs lf pk dl ix rp) ->
  let ps := snd (planFor (c_plans c) (Z.of_nat k)) in
  (0 < ps <= c_maxSize c -> ps <= bufCap -> pk = ps /\ dl = ps) /\
  (ps = 0 -> (if c_udpMin c =? 0 then dfltUDPMin else c_udpMin c) <= c_maxSize c -> pk <= c_maxSize c /\ dl <= c_maxSize c).
Proof.
  intros Hbk [Hm0 Hmax] Hh Hnth ps.
  pose proof (flight_ok _ _ _ _ _ Hnth) as Hok. cbn [dg_ok] in Hok.
  destruct Hok as (_ & _ & _ & _ & _ & Hpd & _ & _ & plen & Happ & Hfit).
  specialize (Hfit Hbk Hmax Hh). unfold capAt in Hfit. fold ps in Hfit.
  destruct (planFor (c_plans c) (Z.of_nat k)) as [cl ps'] eqn:EP. cbn [snd] in ps. subst ps.
  split.
  - intros Hps Hcap. rewrite capOf_ps in Hfit by lia.
    rewrite append_exact_fits in Happ by lia. inversion Happ. split; reflexivity.
  - intros -> Hmin.
    assert (Hc : capOf (c_maxSize c) 0 = c_maxSize c) by (unfold capOf; reflexivity).
    rewrite Hc in Hfit.
    assert (dl <= c_maxSize c).
    { eapply append_le_max; [exact Happ| lia | cbn; lia | intros _; exact Hmin]. }
    lia.
Qed.

(** * a flight builder's budget is the budget of the packet it is for *)

Lemma budgetHdr_eq c i : c_lens c <> [] \/ c_single c <> 0 -> budgetHdr c i = hdrOf c i.
Proof.
  intros H. unfold budgetHdr. destruct (c_lens c) eqn:El; [|reflexivity].
  destruct H as [H|H]; [congruence|].
  unfold hdrOf, pnLenOf. rewrite El. rewrite !peekPnLen_single by assumption. reflexivity.
Qed.

Lemma budget_fits c i plen :
  budgetHdr c i = hdrOf c i -> 0 < budgetAt c i -> plen <= budgetAt c i ->
  let ps := snd (planFor (c_plans c) i) in
  hdrOf c i + plen + overhead <= (if ps >? 0 then ps else c_maxSize c).
Proof.
  intros Hh Hpos Hle ps. unfold budgetAt, frameBudget in *. fold ps in Hpos, Hle. rewrite Hh in *. lia.
Qed.

(** a planned datagram whose payload is within the budget offered for it has exactly its
    PacketSize (or stays within the maximum packet size), whatever its packet-number length *)
Lemma planned_within_budget c i plen :
  budgetHdr c i = hdrOf c i -> 0 < budgetAt c i -> plen <= budgetAt c i ->
  let ps := snd (planFor (c_plans c) i) in
  (0 < ps <= bufCap ->
   appendInitial (planFor (c_plans c) i) (hdrOf c i) (pnLenOf c i) plen (c_udpMin c)
   = AppOk (pnLenOf c i + (ps - hdrOf c i - overhead) + overhead) ps ps false) /\
  (ps = 0 -> hdrOf c i + plen + overhead <= c_maxSize c).
Proof.
  intros Hh Hpos Hle ps. pose proof (budget_fits c i plen Hh Hpos Hle) as Hf. cbv zeta in Hf. fold ps in Hf.
  split.
  - intros Hps. destruct (Z.gtb_spec ps 0); [|lia].
    destruct (planFor (c_plans c) i) as [cl ps'] eqn:EP. cbn [snd] in ps. subst ps.
    apply append_exact_fits; lia.
  - intros E. rewrite E in Hf. cbn in Hf. exact Hf.
Qed.

(** * the random builder's reserve is sufficient *)

Lemma vlen_mono a b : a <= b -> b <= maxVarInt8 -> vlen a <= vlen b.
Proof.
  unfold vlen, maxVarInt1, maxVarInt2, maxVarInt4, maxVarInt8. intros H Hb.
  destruct (Z.leb_spec a 63); destruct (Z.leb_spec b 63); try lia;
  destruct (Z.leb_spec a 16383); destruct (Z.leb_spec b 16383); try lia;
  destruct (Z.leb_spec a 1073741823); destruct (Z.leb_spec b 1073741823); try lia;
  destruct (Z.leb_spec a 4611686018427387903); destruct (Z.leb_spec b 4611686018427387903); lia.
Qed.

Definition dataLen (fs : list (Z * Z)) : Z := fold_right (fun f acc => snd f + acc) 0 fs.

(** Any way of cutting n <= maxCryptoData bytes starting at off into at most max(maxCRYPTO,1)
    CRYPTO frames (offsets inside the slice, non-negative lengths), plus at most maxPING
    PING frames, totals at most Length - MinPADDING bytes: PADDING can then bring the frames
    to exactly Length, with room for MinPADDING PADDING frames. *)
Lemma reserve_sufficient len minpad maxping maxcrypto off (fs : list (Z * Z)) pings :
  0 <= off -> 0 < len -> off + len <= maxVarInt8 ->
  0 < maxCryptoData (len, minpad, maxping, maxcrypto) off ->
  dataLen fs <= maxCryptoData (len, minpad, maxping, maxcrypto) off ->
  Z.of_nat (length fs) <= Z.max maxcrypto 1 ->
  Forall (fun f => fst f <= off + len /\ 0 <= snd f <= len) fs ->
  0 <= pings <= maxping ->
  pings + framesLen fs <= len - minpad.
Proof.
  intros Hoff Hlen Hmax Hpos Hdata Hcount Hall Hp.
  set (perFrame := 1 + vlen (off + len) + vlen len).
  assert (Hf : framesLen fs <= Z.of_nat (length fs) * perFrame + dataLen fs).
  { clear -Hall Hmax Hoff Hlen. induction Hall as [|f fs Hf _ IH].
    - cbn. lia.
    - cbn [framesLen fold_right dataLen length]. fold (framesLen fs). fold (dataLen fs).
      unfold cframeLen. destruct Hf as [Ho Hl].
      pose proof (vlen_mono (fst f) (off + len) Ho Hmax).
      pose proof (vlen_mono (snd f) len (proj2 Hl) ltac:(lia)).
      subst perFrame. rewrite Nat2Z.inj_succ. lia. }
  unfold maxCryptoData in Hpos, Hdata. fold perFrame in Hpos, Hdata.
  assert (Hpf : 0 <= perFrame) by (subst perFrame; pose proof (vlen_nonneg (off + len)); pose proof (vlen_nonneg len); lia).
  assert (Z.of_nat (length fs) * perFrame <= Z.max maxcrypto 1 * perFrame) by (apply Z.mul_le_mono_nonneg_r; lia).
  lia.
Qed.

(** * the connection a Dial re-creates after Version Negotiation *)

(** doDial seeds the re-created connection's Initial space with the previous connection's next
    packet number (c_first = InitPacketNumber + k0) while the length list keeps being indexed
    from InitPacketNumber: the k-th packet of the new connection has packet number
    InitPacketNumber + k0 + k and is encoded in entry min(k0 + k, n-1) of the list. *)
Lemma flight_pn_len_recreated c helloLen plens k k0 pn pnLen h fs lf pk dl ix rp :
  nth_error (flight c helloLen plens) k = Some (DG pn pnLen h fs lf pk dl ix rp) ->
  c_lens c <> [] -> 0 <= c_ipn c <= two62 - 1 -> c_first c = c_ipn c + Z.of_nat k0 ->
  Z.of_nat (k0 + k) < two62 ->
  pn = c_ipn c + Z.of_nat (k0 + k) /\
  pnLen = nth (Nat.min (k0 + k) (length (c_lens c) - 1)) (c_lens c) 0.
Proof.
  intros Hnth Hne Hipn Hfirst Hk.
  pose proof (flight_ok _ _ _ _ _ Hnth) as Hok. cbn [dg_ok] in Hok.
  destruct Hok as (Hpn & Hpl & _).
  assert (E : pn = initialPN (c_ipn c) + Z.of_nat (k0 + k)).
  { destruct (initialPN_spec (c_ipn c)) as [Hs _]; [unfold two62, two64 in *; lia|].
    rewrite Hs by lia. rewrite Hpn, Hfirst, Nat2Z.inj_add. lia. }
  split.
  - rewrite Hpn, Hfirst, Nat2Z.inj_add. lia.
  - rewrite Hpl, E. apply peekPnLen_list; assumption.
Qed.

(** * every datagram of a random-builder flight carries at most maxCryptoData bytes *)

(** The spec "fits": no CryptoLength, every QUICRandomFrames entry has Length > 0 and
    MinPADDING >= 1, and header + one CRYPTO frame of maxCryptoData bytes stays below the
    packet's maximum, at every datagram index and stream offset (so the packer's reserve cap
    is the binding one).  Example: [random_fits_chrome146] in ProofsDecrypt.v. *)
Definition random_fits (c : cfg) (rfs : list (Z * Z * Z * Z)) : Prop :=
  forall i off rf, 0 <= i -> 0 <= off -> rfFor rfs i = Some rf ->
    fst (planFor (c_plans c) i) = 0 /\ 0 < fst (fst (fst rf)) /\ 1 <= snd (fst (fst rf)) /\
    let n := maxCryptoData rf off in
    1 <= n <= 16383 /\ 0 < hdrOf c i + (1 + vlen off + vlen n + n) < capAt c i - overhead.

Lemma rfFor_some rfs i : rfs <> [] -> exists rf, rfFor rfs i = Some rf.
Proof. intros H. unfold rfFor. destruct rfs; [congruence|]. eexists. reflexivity. Qed.

Lemma flightLoop_crypto_bound fuel : forall c plens i off rem k rfs pn pnLen h fs lf pk dl ix rp,
  c_bk c = BRandom rfs -> rfs <> [] -> random_fits c rfs -> 0 <= i -> 0 <= off ->
  nth_error (flightLoop fuel c plens i i off rem) k = Some (DG pn pnLen h fs lf pk dl ix rp) ->
  exists rf o n, rfFor rfs (i + Z.of_nat k) = Some rf /\ fs = [(o, n)] /\ 0 <= o /\ 0 < n <= maxCryptoData rf o.
Proof.
  induction fuel as [|f IH]; intros c plens i off rem k rfs pn pnLen h fs lf pk dl ix rp Hbk Hne Hfit Hi Hoff H;
    cbn [flightLoop] in H.
  - destruct (rem <=? 0); destruct k as [|[|k]]; discriminate.
  - destruct (rfFor_some rfs i Hne) as [rf Hrf].
    destruct (Hfit i off rf Hi Hoff Hrf) as (Hcl & Hlen & Hpad & Hn & Hb). cbv zeta in Hn, Hb.
    set (n := maxCryptoData rf off) in *.
    destruct (planFor (c_plans c) i) as [cl ps] eqn:EP. cbn [fst] in Hcl. subst cl.
    unfold capAt in Hb. rewrite EP in Hb. cbn [snd] in Hb.
    rewrite Hbk in H.
    rewrite (initialBudget_random (hdrOf c i) off (c_maxSize c) ps rfs i rf Hrf Hlen Hpad) in H by (fold n; lia).
    fold n in H.
    assert (Hpop : popLoop 4 off rem (1 + vlen off + vlen n + n) =
                   if rem <=? 0 then ([], off, rem)
                   else if n <=? rem then ([(off, n)], off + n, rem - n) else ([(off, rem)], off + rem, 0)).
    { destruct (Z.leb_spec rem 0) as [Hr|Hr]; [rewrite popLoop_S; destruct (Z.leb_spec rem 0); [reflexivity|lia]|].
      destruct (Z.leb_spec n rem); [apply popLoop_split_exact; lia|apply popLoop_split_rest; lia]. }
    rewrite Hpop in H. clear Hpop.
    destruct (Z.leb_spec rem 0) as [Hr|Hr]; [destruct k; discriminate|].
    assert (Hstep : forall o' r' n', 0 < n' <= n -> o' = off + n' ->
      nth_error (let plen := nth 0 plens (-1) in
                 if plen <? 0 then [DGErr 2]
                 else match appendInitial (0, ps) (hdrOf c i) (pnLenOf c i) plen (c_udpMin c) with
                      | AppErr => [DGErr 1]
                      | AppOk lf0 pl0 dl0 rp0 =>
                        DG (pnOf c i) (pnLenOf c i) (hdrOf c i) [(off, n')] lf0 pl0 dl0 (i + 1) rp0
                        :: flightLoop f c (tl plens) (i + 1) (i + 1) o' r'
                      end) k = Some (DG pn pnLen h fs lf pk dl ix rp) ->
      exists rf0 o n0, rfFor rfs (i + Z.of_nat k) = Some rf0 /\ fs = [(o, n0)] /\ 0 <= o /\ 0 < n0 <= maxCryptoData rf0 o).
    { intros o' r' n' Hn' -> Hk. cbv zeta in Hk.
      destruct (nth 0 plens (-1) <? 0); [destruct k as [|[|k]]; cbn in Hk; discriminate|].
      destruct (appendInitial _ _ _ _ _); [destruct k as [|[|k]]; cbn in Hk; discriminate|].
      destruct k as [|k].
      - cbn in Hk. inversion Hk; subst. exists rf, off, n'. replace (i + Z.of_nat 0) with i by lia.
        repeat split; try assumption; try (fold n; lia).
      - cbn [nth_error] in Hk.
        destruct (IH c (tl plens) (i + 1) (off + n') r' k rfs pn pnLen h fs lf pk dl ix rp Hbk Hne Hfit ltac:(lia) ltac:(lia) Hk)
          as (rf0 & o & n0 & E1 & E2 & E3 & E4).
        exists rf0, o, n0. replace (i + Z.of_nat (S k)) with (i + 1 + Z.of_nat k) by lia. repeat split; assumption || lia. }
    destruct (Z.leb_spec n rem) as [Hge|Hlt].
    + eapply (Hstep (off + n) (rem - n) n); [lia|reflexivity|exact H].
    + eapply (Hstep (off + rem) 0 rem); [lia|reflexivity|exact H].
Qed.

(** stable name for other units (C11): for every datagram of a flight built with a
    QUICRandomFrames / QUICMultiDatagramFrames builder whose spec fits, the CRYPTO slice handed
    to the builder is one contiguous range (o, n) with 0 < n <= maxCryptoData of that
    datagram's builder entry at that offset *)
Lemma flight_datagram_crypto_bound c helloLen plens k rfs pn pnLen h fs lf pk dl ix rp :
  c_bk c = BRandom rfs -> rfs <> [] -> random_fits c rfs ->
  nth_error (flight c helloLen plens) k = Some (DG pn pnLen h fs lf pk dl ix rp) ->
  exists rf o n, rfFor rfs (Z.of_nat k) = Some rf /\ fs = [(o, n)] /\ 0 <= o /\ 0 < n <= maxCryptoData rf o.
Proof.
  intros Hbk Hne Hfit H. unfold flight in H. rewrite Hbk in H.
  exact (flightLoop_crypto_bound (flightFuel helloLen) c plens 0 0 helloLen k rfs pn pnLen h fs lf pk dl ix rp Hbk Hne Hfit ltac:(lia) ltac:(lia) H).
Qed.


(** * the model's fuel never runs out: the flight is as long as the code makes it *)

Lemma popLoop_rem fuel : forall off rem m fs off' rem',
  popLoop fuel off rem m = (fs, off', rem') -> rem' <= rem /\ (fs <> [] -> rem' < rem) /\ off' = off + (rem - rem').
Proof.
  induction fuel as [|f IH]; intros off rem m fs off' rem' H.
  - cbn in H. inversion H; subst. repeat split; try lia. congruence.
  - rewrite popLoop_S in H. destruct (rem <=? 0); [inversion H; subst; repeat split; try lia; congruence|].
    cbv zeta in H. destruct (Z.leb_spec (Z.min (maxDataLen off m) rem) 0) as [Hn|Hn];
      [inversion H; subst; repeat split; try lia; congruence|].
    set (n := Z.min (maxDataLen off m) rem) in *.
    destruct (popLoop f (off + n) (rem - n) (m - cframeLen off n)) as [[fs1 o1] r1] eqn:E.
    destruct (IH _ _ _ _ _ _ E) as (H1 & _ & H3). inversion H; subst. repeat split; lia.
Qed.

(** out-of-fuel (DGErr 98) never appears when the fuel exceeds the queued bytes: every
    datagram takes at least one byte off the stream *)
Lemma flightLoop_no_fuel_error fuel : forall c plens i idx off rem,
  rem < Z.of_nat fuel -> ~ In (DGErr 98) (flightLoop fuel c plens i idx off rem).
Proof.
  induction fuel as [|f IH]; intros c plens i idx off rem Hf Hin; cbn [flightLoop] in Hin.
  - destruct (Z.leb_spec rem 0); [destruct Hin|lia].
  - destruct (popLoop 4 off rem _) as [[frames off'] rem'] eqn:EP.
    destruct (popLoop_rem _ _ _ _ _ _ _ EP) as (_ & Hlt & _).
    destruct frames as [|fr frs]; [destruct Hin|].
    specialize (Hlt ltac:(discriminate)).
    match type of Hin with context [if ?b then _ else _] => destruct b end;
      [destruct Hin as [E|[]]; discriminate|].
    match type of Hin with context [appendInitial ?p ?h ?l ?pl ?u] => destruct (appendInitial p h l pl u) end;
      [destruct Hin as [E|[]]; discriminate|].
    destruct Hin as [E|Hin]; [discriminate|]. eapply IH; [|exact Hin]. lia.
Qed.

Lemma plannedLoop_no_fuel_error c : forall plens i, ~ In (DGErr 98) (plannedLoop c plens i).
Proof.
  induction plens as [|p r IH]; intros i Hin; cbn [plannedLoop] in Hin; [destruct Hin|].
  destruct (appendInitial _ _ _ _ _); [destruct Hin as [E|[]]; discriminate|].
  destruct Hin as [E|Hin]; [discriminate|]. eapply IH; exact Hin.
Qed.

Lemma flight_fuel_sufficient c helloLen plens : ~ In (DGErr 98) (flight c helloLen plens).
Proof.
  unfold flight.
  assert (Hl : forall l, ~ In (DGErr 98) (flightLoop (flightFuel helloLen) c l 0 0 0 helloLen)).
  { intros l. apply flightLoop_no_fuel_error. unfold flightFuel. lia. }
  destruct (c_bk c); try apply Hl.
  unfold flightPlanned. destruct (helloLen <=? 0); [intros []|].
  destruct plens as [|p0 r]; [intros [E|[]]; discriminate|].
  destruct (p0 <? 0); [intros [E|[]]; discriminate|].
  destruct (sizeRuleOk _ _ _ _); [apply plannedLoop_no_fuel_error|intros [E|[]]; discriminate].
Qed.
