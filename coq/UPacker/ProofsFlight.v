(** C10 proofs, part 2: the CRYPTO split, the pass-through size bound, and the header fields
    of every packet of a flight. *)
From Coq Require Import List ZArith Bool Lia.
From Coq Require Import ZifyBool.
From V Require Import Gen.Params Wire.Varint Wire.VarintProofs PktProt.PktNum PktProt.PktNumProofs UPacker.Model UPacker.ProofsSize.
Import ListNotations.
Open Scope Z_scope.
Local Ltac Zify.zify_post_hook ::= Z.div_mod_to_equations.

(** * varint widths *)
Lemma vlen_nonneg v : 0 <= vlen v.
Proof.
  unfold vlen. destruct (v <=? maxVarInt1); [lia|]. destruct (v <=? maxVarInt2); [lia|].
  destruct (v <=? maxVarInt4); [lia|]. destruct (v <=? maxVarInt8); lia.
Qed.

Lemma vlen_small n : n <= 63 -> vlen n = 1.
Proof. unfold vlen, maxVarInt1. intros H. destruct (Z.leb_spec n 63); [reflexivity|lia]. Qed.

Lemma vlen_mid n : 64 <= n <= 16383 -> vlen n = 2.
Proof.
  unfold vlen, maxVarInt1, maxVarInt2. intros H.
  destruct (Z.leb_spec n 63); [lia|]. destruct (Z.leb_spec n 16383); [reflexivity|lia].
Qed.

Lemma vlen_big n : 16384 <= n -> vlen n <> 1.
Proof.
  unfold vlen, maxVarInt1, maxVarInt2, maxVarInt4, maxVarInt8. intros H.
  destruct (Z.leb_spec n 63); [lia|]. destruct (Z.leb_spec n 16383); [lia|].
  destruct (n <=? 1073741823); [lia|]. destruct (n <=? 4611686018427387903); lia.
Qed.

Lemma vlen_1_iff d : vlen d = 1 <-> d <= 63.
Proof.
  split; intros H; [|apply vlen_small; assumption].
  destruct (Z.leb_spec d 63) as [|Hgt]; [assumption|exfalso].
  destruct (Z.leb_spec d 16383).
  - rewrite vlen_mid in H by lia. lia.
  - apply (vlen_big d); [lia|assumption].
Qed.

(** * PopCryptoFrame *)

Lemma maxDataLen_zero off m : m <= 0 -> maxDataLen off m = 0.
Proof.
  intros H. unfold maxDataLen. pose proof (vlen_nonneg off).
  destruct (Z.gtb_spec (1 + vlen off + 1) m); [reflexivity|lia].
Qed.

(** MaxDataLen for the budget of exactly c data bytes *)
Lemma maxDataLen_exact off c : 1 <= c <= 16383 ->
  maxDataLen off (1 + vlen off + vlen c + c) = c.
Proof.
  intros Hc. unfold maxDataLen. pose proof (vlen_nonneg off) as Ho. pose proof (vlen_nonneg c) as Hcn.
  destruct (Z.leb_spec c 63) as [Hs|Hb].
  - rewrite (vlen_small c) by lia.
    destruct (Z.gtb_spec (1 + vlen off + 1) (1 + vlen off + 1 + c)); [lia|].
    replace (1 + vlen off + 1 + c - (1 + vlen off + 1)) with c by lia.
    rewrite (vlen_small c) by lia. reflexivity.
  - rewrite (vlen_mid c) by lia.
    destruct (Z.gtb_spec (1 + vlen off + 1) (1 + vlen off + 2 + c)); [lia|].
    replace (1 + vlen off + 2 + c - (1 + vlen off + 1)) with (c + 1) by lia.
    destruct (Z.eqb_spec (vlen (c + 1)) 1) as [E|E]; cbn [negb]; [|lia].
    apply vlen_1_iff in E. lia.
Qed.

Lemma popLoop_S f off rem m :
  popLoop (S f) off rem m =
  if rem <=? 0 then ([], off, rem)
  else let n := Z.min (maxDataLen off m) rem in
       if n <=? 0 then ([], off, rem)
       else let '(fs, off', rem') := popLoop f (off + n) (rem - n) (m - cframeLen off n) in
            ((off, n) :: fs, off', rem').
Proof. reflexivity. Qed.

Lemma popLoop_stop fuel off rem m : m <= 0 -> popLoop fuel off rem m = ([], off, rem).
Proof.
  intros Hm. destruct fuel as [|f]; [reflexivity|]. rewrite popLoop_S.
  destruct (rem <=? 0); [reflexivity|].
  rewrite maxDataLen_zero by assumption. cbv zeta.
  destruct (Z.leb_spec (Z.min 0 rem) 0); [reflexivity|lia].
Qed.

(** C10_crypto_split_exact, on the packer's loop: with the budget the CryptoLength cap
    computes, exactly one CRYPTO frame (off, c) is popped, and the stream moves to off + c --
    whatever the varint width of the write offset *)
Lemma popLoop_split_exact fuel off rem c :
  1 <= c <= 16383 -> c <= rem ->
  popLoop (S fuel) off rem (1 + vlen off + vlen c + c) = ([(off, c)], off + c, rem - c).
Proof.
  intros Hc Hrem. rewrite popLoop_S.
  destruct (Z.leb_spec rem 0); [lia|].
  rewrite maxDataLen_exact by assumption. cbv zeta.
  rewrite Z.min_l by lia.
  destruct (Z.leb_spec c 0); [lia|].
  rewrite popLoop_stop by (unfold cframeLen; lia). reflexivity.
Qed.

Lemma initialBudget_cap hdr off maxSize c ps bk :
  0 < c -> 0 < hdr + (1 + vlen off + vlen c + c) < maxSize - overhead ->
  initialBudget hdr off maxSize (c, ps) bk - hdr = 1 + vlen off + vlen c + c.
Proof.
  intros Hc Hb. unfold initialBudget. cbn [fst].
  destruct (Z.gtb_spec c 0); [|lia].
  destruct (Z.gtb_spec (hdr + (1 + vlen off + vlen c + c)) 0); [|lia].
  destruct (Z.ltb_spec (hdr + (1 + vlen off + vlen c + c)) (maxSize - overhead)); [|lia].
  cbn [andb]. lia.
Qed.

Lemma crypto_split_exact fuel hdr off rem maxSize c ps bk :
  1 <= c <= 16383 -> c <= rem ->
  0 < hdr + (1 + vlen off + vlen c + c) < maxSize - overhead ->
  popLoop (S fuel) off rem (initialBudget hdr off maxSize (c, ps) bk - hdr)
  = ([(off, c)], off + c, rem - c).
Proof.
  intros Hc Hrem Hb. rewrite initialBudget_cap by (try assumption; lia).
  apply popLoop_split_exact; assumption.
Qed.

(** less than c bytes queued: everything is popped *)
Lemma popLoop_split_rest fuel off rem c :
  1 <= c <= 16383 -> 0 < rem < c ->
  popLoop (S fuel) off rem (1 + vlen off + vlen c + c) = ([(off, rem)], off + rem, 0).
Proof.
  intros Hc Hrem. rewrite popLoop_S.
  destruct (Z.leb_spec rem 0); [lia|].
  rewrite maxDataLen_exact by assumption. cbv zeta.
  rewrite Z.min_r by lia.
  destruct (Z.leb_spec rem 0); [lia|].
  replace (rem - rem) with 0 by lia.
  destruct fuel as [|f]; [reflexivity|]. rewrite popLoop_S. reflexivity.
Qed.

(** the popped frames never exceed the space they were given (frames of up to 16383 bytes) *)
Lemma popLoop_le fuel : forall off rem m, m <= 16383 ->
  framesLen (fst (fst (popLoop fuel off rem m))) <= Z.max m 0.
Proof.
  induction fuel as [|f IH]; intros off rem m Hm.
  - cbn. lia.
  - rewrite popLoop_S. cbv zeta. destruct (Z.leb_spec rem 0); [cbn; lia|].
    destruct (Z.leb_spec (Z.min (maxDataLen off m) rem) 0) as [Hn|Hn]; [cbn; lia|].
    set (n := Z.min (maxDataLen off m) rem) in *.
    assert (Hcf : cframeLen off n <= m /\ 0 < cframeLen off n).
    { unfold cframeLen. pose proof (vlen_nonneg off) as Ho. pose proof (vlen_nonneg n) as Hnn.
      assert (Hmd : n <= maxDataLen off m) by (unfold n; lia).
      unfold maxDataLen in Hmd.
      destruct (Z.gtb_spec (1 + vlen off + 1) m) as [Hg|Hg]; [lia|].
      destruct (Z.eqb_spec (vlen (m - (1 + vlen off + 1))) 1) as [E|E]; cbn [negb] in Hmd.
      - apply vlen_1_iff in E. rewrite (vlen_small n) by lia. lia.
      - assert (Hd : 64 <= m - (1 + vlen off + 1)).
        { destruct (Z.leb_spec (m - (1 + vlen off + 1)) 63) as [Hle|]; [|lia].
          exfalso. apply E. apply vlen_small. assumption. }
        destruct (Z.leb_spec n 63).
        + rewrite (vlen_small n) by lia. lia.
        + rewrite (vlen_mid n) by lia. lia. }
    assert (IH' := IH (off + n) (rem - n) (m - cframeLen off n) ltac:(lia)).
    destruct (popLoop f (off + n) (rem - n) (m - cframeLen off n)) as [[fs o'] r'].
    cbn [fst snd] in IH'. cbn [fst snd framesLen fold_right]. fold (framesLen fs). lia.
Qed.

Lemma initialBudget_le hdr off maxSize plan bk : initialBudget hdr off maxSize plan bk <= maxSize - overhead.
Proof.
  unfold initialBudget.
  destruct (Z.gtb_spec (fst plan) 0).
  - match goal with |- context [if ?b then _ else _] => destruct b eqn:E end; [|lia].
    apply andb_prop in E as [_ E]. lia.
  - destruct bk; try lia.
    destruct ((len >? 0) && (minpad >=? 1)); [|lia].
    match goal with |- context [if ?b then _ else _] => destruct b eqn:E end; [|lia].
    apply andb_prop in E as [_ E]. lia.
Qed.

(** * flights *)

Definition dg_ok (c : cfg) (i : Z) (d : dgres) : Prop :=
  match d with
  | DG pn pl h _ lf pk dl _ _ =>
    pn = initialPN (c_ipn c) + i /\
    pl = peekPnLen (c_lens c) (c_single c) (pnBase (c_ipn c)) pn /\
    h = hdrLen (c_dcid c) (c_scid c) (c_tokLen c) pl /\
    lf = pl + (pk - h - overhead) + overhead /\
    pk <= bufCap /\ pk <= dl
  | DGErr _ => True
  end.

Lemma appendInitial_dg_ok c i plan plen lf pk dl rp fs ix :
  appendInitial plan (hdrOf c i) (pnLenOf c i) plen (c_udpMin c) = AppOk lf pk dl rp ->
  dg_ok c i (DG (pnOf c i) (pnLenOf c i) (hdrOf c i) fs lf pk dl ix rp).
Proof.
  intros H. pose proof (append_fits_or_error plan (hdrOf c i) (pnLenOf c i) plen (c_udpMin c)) as F.
  rewrite H in F. destruct F as (F1 & F2 & F3 & F4 & _).
  unfold dg_ok. repeat split; try reflexivity; lia.
Qed.

Lemma flightLoop_ok fuel : forall c plens i idx off rem k d,
  nth_error (flightLoop fuel c plens i idx off rem) k = Some d -> dg_ok c (i + Z.of_nat k) d.
Proof.
  induction fuel as [|f IH]; intros c plens i idx off rem k d H; cbn [flightLoop] in H.
  - destruct k; discriminate.
  - destruct (popLoop 4 off rem _) as [[frames off'] rem'].
    destruct frames as [|fr frs]; [destruct k; discriminate|].
    match type of H with context [if ?b then _ else _] => destruct b end.
    { destruct k as [|[|k]]; cbn in H; try discriminate. inversion H. exact I. }
    match type of H with context [appendInitial ?p ?h ?l ?pl ?u] => destruct (appendInitial p h l pl u) eqn:EA end.
    { destruct k as [|[|k]]; cbn in H; try discriminate. inversion H. exact I. }
    destruct k as [|k].
    + cbn in H. inversion H; subst d. replace (i + Z.of_nat 0) with i by lia.
      eapply appendInitial_dg_ok. exact EA.
    + cbn [nth_error] in H. apply IH in H.
      replace (i + Z.of_nat (S k)) with (i + 1 + Z.of_nat k) by lia. exact H.
Qed.

Lemma plannedLoop_ok c : forall plens i k d,
  nth_error (plannedLoop c plens i) k = Some d -> dg_ok c (i + Z.of_nat k) d.
Proof.
  induction plens as [|p r IH]; intros i k d H; cbn [plannedLoop] in H.
  - destruct k; discriminate.
  - destruct (appendInitial _ _ _ _ _) eqn:EA.
    { destruct k as [|[|k]]; cbn in H; try discriminate. inversion H. exact I. }
    destruct k as [|k].
    + cbn in H. inversion H; subst d. replace (i + Z.of_nat 0) with i by lia.
      eapply appendInitial_dg_ok. exact EA.
    + cbn [nth_error] in H. apply IH in H.
      replace (i + Z.of_nat (S k)) with (i + 1 + Z.of_nat k) by lia. exact H.
Qed.

Lemma nth_error_firstn {A} n : forall (l : list A) k d,
  nth_error (firstn n l) k = Some d -> nth_error l k = Some d.
Proof.
  induction n as [|n IH]; intros l k d H; [destruct k; discriminate|].
  destruct l as [|x l]; [destruct k; discriminate|].
  destruct k as [|k]; [exact H|]. cbn in *. apply IH. exact H.
Qed.

Lemma flight_ok c helloLen plens k d :
  nth_error (flight c helloLen plens) k = Some d -> dg_ok c (Z.of_nat k) d.
Proof.
  unfold flight. intros H.
  assert (Hloop : forall l, nth_error (flightLoop maxDatagrams c l 0 0 0 helloLen) k = Some d -> dg_ok c (Z.of_nat k) d).
  { intros l Hl. apply flightLoop_ok in Hl. exact Hl. }
  destruct (c_bk c); try (apply (Hloop plens); exact H).
  apply nth_error_firstn in H. unfold flightPlanned in H.
  destruct (helloLen <=? 0); [destruct k; discriminate|].
  destruct plens as [|p0 r].
  { destruct k as [|[|k]]; cbn in H; try discriminate. inversion H. exact I. }
  destruct (p0 <? 0).
  { destruct k as [|[|k]]; cbn in H; try discriminate. inversion H. exact I. }
  destruct (sizeRuleOk _ _ _ _).
  - apply plannedLoop_ok in H. exact H.
  - destruct k as [|[|k]]; cbn in H; try discriminate. inversion H. exact I.
Qed.

(** * pass-through builders never exceed the maximum packet size *)

Definition dg_le (maxSize : Z) (d : dgres) : Prop :=
  match d with DG _ _ _ _ _ pk dl _ _ => pk <= maxSize /\ dl <= maxSize | DGErr _ => True end.

Lemma planFor_in plans idx : plans <> [] -> In (planFor plans idx) plans.
Proof.
  intros Hne. unfold planFor. destruct plans as [|p0 pr]; [congruence|].
  set (L := p0 :: pr). assert (HL : (0 < length L)%nat) by (unfold L; simpl; lia).
  apply nth_In. destruct (Z.geb_spec idx (Z.of_nat (length L))); lia.
Qed.

Lemma planFor_bound plans idx maxSize :
  Forall (fun p => 0 <= snd p <= maxSize) plans -> 0 <= maxSize -> 0 <= snd (planFor plans idx) <= maxSize.
Proof.
  intros HF Hm. destruct plans as [|p0 pr]; [cbn; lia|].
  rewrite Forall_forall in HF. apply HF. apply planFor_in. discriminate.
Qed.

Lemma popLoop_nil fuel off rem m : m <= 0 -> fst (fst (popLoop fuel off rem m)) = [].
Proof.
  intros Hm. rewrite popLoop_stop by assumption. reflexivity.
Qed.

Lemma flightLoop_pass_le fuel : forall c plens i idx off rem d,
  c_bk c = BPass -> c_maxSize c <= 16383 ->
  (forall j, 0 <= hdrOf c j) ->
  Forall (fun p => 0 <= snd p <= c_maxSize c) (c_plans c) -> 0 <= c_maxSize c ->
  (if c_udpMin c =? 0 then dfltUDPMin else c_udpMin c) <= c_maxSize c ->
  In d (flightLoop fuel c plens i idx off rem) -> dg_le (c_maxSize c) d.
Proof.
  induction fuel as [|f IH]; intros c plens i idx off rem d Hbk Hmax Hhdr Hplans Hm0 Hmin H; cbn [flightLoop] in H.
  - destruct H.
  - set (plan := planFor (c_plans c) idx) in *.
    set (m := initialBudget (hdrOf c i) off (c_maxSize c) plan (c_bk c) - hdrOf c i) in *.
    assert (Hm : m <= 16383 /\ hdrOf c i + m + overhead <= c_maxSize c).
    { unfold m. pose proof (initialBudget_le (hdrOf c i) off (c_maxSize c) plan (c_bk c)). specialize (Hhdr i).
      unfold overhead, upSealerOverhead in *. lia. }
    pose proof (popLoop_le 4 off rem m (proj1 Hm)) as Hle.
    pose proof (popLoop_nil 4 off rem m) as Hnil.
    destruct (popLoop 4 off rem m) as [[frames off'] rem'] eqn:EP. cbn [fst] in Hle, Hnil.
    destruct frames as [|fr frs] eqn:EF; [destruct H|]. rewrite <- EF in *.
    assert (Hmpos : 0 < m).
    { destruct (Z.leb_spec m 0) as [Hz|]; [|assumption]. rewrite Hnil in EF by assumption. discriminate. }
    rewrite Hbk in H. cbn [isEx] in H.
    destruct (framesLen frames <? 0); [destruct H as [<-|[]]; exact I|].
    destruct (appendInitial plan (hdrOf c i) (pnLenOf c i) (framesLen frames) (c_udpMin c)) eqn:EA;
      [destruct H as [<-|[]]; exact I|].
    destruct H as [<-|H].
    + pose proof (planFor_bound (c_plans c) idx (c_maxSize c) Hplans Hm0) as Hpb. fold plan in Hpb.
      pose proof (append_fits_or_error plan (hdrOf c i) (pnLenOf c i) (framesLen frames) (c_udpMin c)) as F.
      rewrite EA in F. destruct F as (_ & _ & _ & Hpd & _).
      assert (dgramLen <= c_maxSize c).
      { eapply append_le_max; [exact EA| lia | lia | intros _; exact Hmin]. }
      cbn. lia.
    + eapply IH; eassumption.
Qed.

Lemma flight_pass_le c helloLen plens d :
  c_bk c = BPass -> c_maxSize c <= 16383 ->
  (forall j, 0 <= hdrOf c j) ->
  Forall (fun p => 0 <= snd p <= c_maxSize c) (c_plans c) -> 0 <= c_maxSize c ->
  (if c_udpMin c =? 0 then dfltUDPMin else c_udpMin c) <= c_maxSize c ->
  In d (flight c helloLen plens) -> dg_le (c_maxSize c) d.
Proof.
  intros Hbk. unfold flight. rewrite Hbk. intros. eapply flightLoop_pass_le; eassumption.
Qed.
