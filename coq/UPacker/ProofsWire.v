(** C10 proofs, part 5: the serialised long header of every Initial packet of a flight, and
    what a conformant server reads back from the protected packet: C08's header codec
    (coq/Wire/Headers, tied to the code by unit headers) and C05's packet protection
    (coq/PktProt/Protect) composed with the flight model. *)
From Coq Require Import List ZArith Bool Lia.
From Coq Require Import ZifyBool.
From V Require Import Gen.Params Lib.Hex Wire.Varint Wire.VarintProofs Wire.Headers Wire.HeadersProofs
     PktProt.PktNum PktProt.PktNumProofs PktProt.Protect PktProt.ProtectProofs
     UPacker.Model UPacker.ProofsSize UPacker.ProofsFlight UPacker.ProofsDecrypt.
Import ListNotations.
Open Scope Z_scope.
Local Ltac Zify.zify_post_hook ::= Z.div_mod_to_equations.

(** everything between the first byte and the packet number *)
Definition initialMid (ver : Z) (dcid scid token : list Z) (lf : Z) : list Z :=
  be 4 ver ++ [zlen dcid] ++ dcid ++ [zlen scid] ++ scid ++ vappend (zlen token) ++ token ++ vappend_len lf 2.

Definition initialFirst (ver pnLen : Z) : Z := 192 + 16 * type_code ver H_PacketTypeInitial + (pnLen - 1).

(** appendPacketNumber of the header codec is the byte string packet protection works on *)
Lemma append_pn_pn_bytes pn l : 1 <= l <= 4 -> append_pn pn l = Some (pn_bytes (Z.to_nat l) pn).
Proof.
  intros H. assert (C : l = 1 \/ l = 2 \/ l = 3 \/ l = 4) by lia.
  destruct C as [-> | [-> | [-> | ->]]]; unfold append_pn; cbn [Z.eqb Pos.eqb Z.to_nat Pos.to_nat Pos.iter_op Nat.add pn_bytes app];
    f_equal; try reflexivity; rewrite ?be1_eq, ?be2_eq, ?be4_eq; cbn [tl app]; repeat f_equal; lia.
Qed.

Lemma zlen_pn_bytes n pn : zlen (pn_bytes n pn) = Z.of_nat n.
Proof. unfold zlen. rewrite pn_bytes_length. reflexivity. Qed.

Record wf_initial (ver : Z) (dcid scid token : list Z) (lf pnLen : Z) : Prop := {
  wi_ver : valid_version ver;
  wi_dst : zlen dcid <= 20;
  wi_src : zlen scid <= 20;
  wi_len : 0 <= lf <= 16383;
  wi_pnl : 1 <= pnLen <= 4;
  wi_tok : zlen token <= maxVarInt8 }.

(** the bytes ExtendedHeader.Append writes for an Initial packet *)
Lemma initial_header_bytes ver dcid scid token lf pn pnLen :
  wf_initial ver dcid scid token lf pnLen ->
  initialHeaderBytes ver dcid scid token lf pn pnLen
  = (0, mk_header (initialFirst ver pnLen) (initialMid ver dcid scid token lf) (Z.to_nat pnLen) pn).
Proof.
  intros [Hv Hd Hs Hl Hp Ht].
  unfold initialHeaderBytes, initialExt, append_ext, long_prefix, mk_header, initialMid, initialFirst.
  cbn [eHdr ePnLen ePn hVersion hType hDst hSrc hLength hToken].
  unfold W_MaxConnIDLen, maxVarInt2 in *.
  rewrite (gtb_false (zlen dcid) 20 Hd), (gtb_false (zlen scid) 20 Hs). cbn [orb].
  change (H_PacketTypeInitial =? H_PacketTypeRetry) with false.
  change (H_PacketTypeInitial =? H_PacketTypeInitial) with true. cbv iota.
  replace ((lf <? 0) || (lf >? 16383)) with false by lia.
  rewrite (append_pn_pn_bytes pn pnLen Hp).
  f_equal. cbn [app]. f_equal. repeat (rewrite <- !app_assoc; cbn [app]). reflexivity.
Qed.

(** its length is the header length of the flight model *)
Lemma initial_header_length ver dcid scid token lf pn pnLen :
  wf_initial ver dcid scid token lf pnLen ->
  zlen (snd (initialHeaderBytes ver dcid scid token lf pn pnLen))
  = hdrLen (zlen dcid) (zlen scid) (zlen token) pnLen.
Proof.
  intros W. pose proof W as [Hv Hd Hs Hl Hp Ht].
  destruct (longhdr_length_full (initialExt ver dcid scid token lf pn pnLen) ver eq_refl Hv (or_introl eq_refl) Hd Hs Hl Hp Ht)
    as (enc & Happ & Hlen).
  unfold initialHeaderBytes. rewrite Happ. cbn [snd]. rewrite Hlen.
  unfold get_length, hdrLen, initialExt. cbn [eHdr ePnLen hDst hSrc hType hToken].
  change (H_PacketTypeInitial =? H_PacketTypeInitial) with true. cbv iota. lia.
Qed.

(** parseHeader on ANY first byte with the Initial type bits and any low nibble (header
    protection changes the low four bits), followed by the header fields and anything else *)
Lemma parse_masked_initial ver dcid scid token lf low rest :
  valid_version ver -> zlen dcid <= 20 -> zlen scid <= 20 -> 0 <= lf <= 16383 -> zlen token <= maxVarInt8 ->
  0 <= low < 16 ->
  let fb := 192 + 16 * type_code ver H_PacketTypeInitial + low in
  parse_header (fb :: initialMid ver dcid scid token lf ++ rest)
  = Some (mkHeader fb H_PacketTypeInitial ver scid dcid lf token (1 + zlen (initialMid ver dcid scid token lf)), 0).
Proof.
  intros Hv Hd Hs Hl Ht Hlow fb.
  destruct (valid_version_supported ver Hv) as [Sv [Nv Rv]].
  pose proof (type_code_range ver H_PacketTypeInitial) as Hc.
  pose proof (zlen_nonneg token) as Ht0.
  assert (Ety : long_type ver fb = H_PacketTypeInitial).
  { subst fb. apply long_type_code; auto. left. left. reflexivity. }
  unfold initialMid. cbn [parse_header]. rewrite <- !app_assoc.
  rewrite (plh_cids fb ver dcid scid) by (auto; right; subst fb; apply quic_bit_first; lia).
  pose proof (plh_rest_pn fb (4 + 1 + zlen dcid + 1 + zlen scid + zlen (vappend (zlen token) ++ token ++ vappend_len lf 2 ++ rest))
                ver scid dcid token lf rest Sv Nv) as R.
  rewrite Ety in R.
  specialize (R ltac:(left; reflexivity) ltac:(unfold maxVarInt2; lia) (conj Ht0 Ht)). cbv zeta in R.
  change (H_PacketTypeInitial =? H_PacketTypeInitial) with true in R. cbv iota in R.
  rewrite <- !app_assoc in R. rewrite R.
  unfold set_parsed_len. cbn [hTypeByte hType hVersion hSrc hDst hLength hToken].
  do 2 f_equal. f_equal. repeat rewrite zlen_app. rewrite zlen_be4. rewrite !zlen_cons, !zlen_nil. lia.
Qed.

(** header protection keeps the high nibble of a long-header first byte *)
Lemma masked_first_nibble c low m :
  0 <= c <= 3 -> 0 <= low < 16 ->
  exists low', 0 <= low' < 16 /\ Z.lxor (192 + 16 * c + low) (Z.land m 15) = 192 + 16 * c + low'.
Proof.
  intros Hc Hl.
  assert (Hm : Z.land m 15 = m mod 16) by (change 15 with (Z.ones 4); rewrite Z.land_ones by lia; reflexivity).
  rewrite Hm. set (x := m mod 16). assert (Hx : 0 <= x < 16) by (subst x; lia). clearbody x.
  exists (Z.lxor low x).
  assert (C : c = 0 \/ c = 1 \/ c = 2 \/ c = 3) by lia.
  assert (L : low = 0 \/ low = 1 \/ low = 2 \/ low = 3 \/ low = 4 \/ low = 5 \/ low = 6 \/ low = 7 \/ low = 8 \/ low = 9 \/
              low = 10 \/ low = 11 \/ low = 12 \/ low = 13 \/ low = 14 \/ low = 15) by lia.
  assert (X : x = 0 \/ x = 1 \/ x = 2 \/ x = 3 \/ x = 4 \/ x = 5 \/ x = 6 \/ x = 7 \/ x = 8 \/ x = 9 \/
              x = 10 \/ x = 11 \/ x = 12 \/ x = 13 \/ x = 14 \/ x = 15) by lia.
  clear Hc Hl Hx Hm.
  destruct C as [-> | [-> | [-> | ->]]];
  repeat (destruct L as [-> | L]); try subst low;
  repeat (destruct X as [-> | X]); try subst x; vm_compute; (split; [split; congruence|reflexivity]).
Qed.

(** C05's protect / unprotect round trip with the packet-number hypothesis in its weakest form:
    the receiver's decoding of the truncated number gives the number (C05 states it for the
    RFC 9000 A.3 window; a FIRST packet is decoded for every number that fits its encoding,
    first_pn_decodable_iff).  The proof is C05's, with the decode fact as a hypothesis. *)
Section RoundtripDec.
  Variable aead_seal : Z -> Z -> list Z -> list Z -> list Z.
  Variable aead_open : Z -> Z -> list Z -> list Z -> option (list Z).
  Variable hp_mask : list Z -> list Z.
  Hypothesis open_seal : forall pn kp ad p, aead_open pn kp ad (aead_seal pn kp ad p) = Some p.
  Hypothesis seal_length : forall pn kp ad p, length (aead_seal pn kp ad p) = (length p + 16)%nat.

  Lemma protect_roundtrip_dec first mid pn pnLen payload largest :
    (1 <= pnLen <= 4)%nat -> wf_first true first pnLen 0 ->
    decodePN (Z.of_nat pnLen) largest (truncatePN (Z.of_nat pnLen) pn) = pn ->
    payload <> [] -> (4 <= pnLen + length payload)%nat ->
    unprotect aead_open hp_mask true (1 + length mid) largest
      (protect aead_seal hp_mask true (mk_header first mid pnLen pn) payload pn 0 pnLen)
    = UOk first pn (Z.of_nat pnLen) 0 payload.
  Proof.
    intros Hl (Hpl & Hwf) Hdec Hne Hmin.
    unfold mk_header.
    pose proof (pn_bytes_length pnLen pn) as Hpb.
    pose proof (protect_shape aead_seal aead_open hp_mask true first mid (pn_bytes pnLen pn) payload pn 0) as Hp.
    cbv zeta in Hp. rewrite Hpb in Hp. rewrite Hp. clear Hp.
    set (hdr := first :: mid ++ pn_bytes pnLen pn).
    set (ct := aead_seal pn 0 hdr payload).
    set (mask := hp_mask (firstn 16 (skipn 4 (pn_bytes pnLen pn ++ ct)))).
    set (pnb' := xor_bytes (pn_bytes pnLen pn) (skipn 1 mask)).
    assert (Hpb' : length pnb' = pnLen) by (subst pnb'; rewrite xor_bytes_length; exact Hpb).
    assert (Hct : length ct = (length payload + 16)%nat) by (subst ct; apply seal_length).
    unfold Protect.unprotect.
    assert (Hs : skipn 4 (pnb' ++ ct) = skipn 4 (pn_bytes pnLen pn ++ ct)).
    { apply sample_indep; lia. }
    assert (P1 : (1 <= length pnb' <= 4)%nat) by lia.
    assert (P2 : (20 <= length pnb' + length ct)%nat) by lia.
    pose proof (unprotect_pre_shape aead_seal aead_open hp_mask true (Z.lxor first (Z.land (nth 0 mask 0) (first_mask true))) mid pnb' ct largest P1 P2) as Hu.
    cbv zeta in Hu. rewrite Hs in Hu. fold mask in Hu. rewrite lxor_cancel in Hu. rewrite Hpb' in Hu.
    specialize (Hu Hpl). rewrite Hu. clear Hu.
    subst pnb'. rewrite xor_bytes_invol. fold hdr.
    rewrite read_pn_truncate. rewrite Hdec.
    destruct Hwf as (Hres & _). cbn [negb andb first_mask reserved_mask]. cbn [oa_pn oa_kp oa_hdr oa_ct].
    unfold ct. rewrite open_seal. unfold unprotect_post. cbn [oa_reserved_bad oa_first oa_pn oa_pnLen oa_kp].
    rewrite Hres. cbn [Z.eqb negb]. destruct payload; [congruence|]. reflexivity.
  Qed.
End RoundtripDec.

Section ServerReads.
  Variable aead_seal : Z -> Z -> list Z -> list Z -> list Z.
  Variable aead_open : Z -> Z -> list Z -> list Z -> option (list Z).
  Variable hp_mask : list Z -> list Z.
  Hypothesis open_seal : forall pn kp ad p, aead_open pn kp ad (aead_seal pn kp ad p) = Some p.
  Hypothesis seal_length : forall pn kp ad p, length (aead_seal pn kp ad p) = (length p + 16)%nat.

  (** What a server reads from the protected k-th packet of a flight: parseHeader on the bytes
      as they are on the wire yields type Initial, the version, both connection IDs, the token
      and a Length that is exactly the rest of the packet; removing header protection at the
      offset parseHeader reports, decoding the packet number and opening the AEAD yields the
      first byte, the full packet number, its length and the frame payload. *)
  Lemma flight_server_reads_back c helloLen plens k pn pnLen h fs lf pk dl ix rp
        ver (dcid scid token payload : list Z) largest :
    nth_error (flight c helloLen plens) k = Some (DG pn pnLen h fs lf pk dl ix rp) ->
    valid_version ver -> zlen dcid = c_dcid c -> zlen scid = c_scid c -> zlen token = c_tokLen c ->
    zlen dcid <= 20 -> zlen scid <= 20 ->
    1 <= pnLen <= 4 -> pn < 2 ^ 62 -> 0 <= c_first c ->
    zlen payload = pk - h - overhead -> payload <> [] -> 4 <= pnLen + zlen payload ->
    (largest = pn - 1 \/ (largest = -1 /\ pn < 2 ^ (pnLen * 8))) ->
    let hb := initialHeaderBytes ver dcid scid token lf pn pnLen in
    let pkt := protect aead_seal hp_mask true (snd hb) payload pn 0 (Z.to_nat pnLen) in
    fst hb = 0 /\ zlen (snd hb) = h /\
    exists hd, parse_header pkt = Some (hd, 0) /\
      hType hd = H_PacketTypeInitial /\ hVersion hd = ver /\ hDst hd = dcid /\ hSrc hd = scid /\
      hToken hd = token /\ hLength hd = lf /\ hParsedLen hd = h - pnLen /\
      zlen pkt = hParsedLen hd + hLength hd /\
      unprotect aead_open hp_mask true (Z.to_nat (hParsedLen hd)) largest pkt
      = UOk (initialFirst ver pnLen) pn pnLen 0 payload.
  Proof.
    intros Hnth Hv Ed Es Et Hd Hs Hp Hpn Hipn Hpl Hne Hmin Hlg hb pkt.
    pose proof (flight_ok _ _ _ _ _ Hnth) as Hok. cbn [dg_ok] in Hok.
    destruct Hok as (Hpnv & _ & Hh & Hlf & Hpk & _).
    pose proof (zlen_nonneg payload) as Hpay0. pose proof (zlen_nonneg token) as Htok0.
    pose proof (zlen_nonneg dcid) as Hd0. pose proof (zlen_nonneg scid) as Hs0.
    pose proof (vlen_nonneg (c_tokLen c)) as Hvt.
    assert (Hh0 : 9 <= h) by (rewrite Hh; unfold hdrLen; lia).
    assert (Hlf' : lf = pnLen + zlen payload + overhead) by lia.
    assert (W : wf_initial ver dcid scid token lf pnLen).
    { constructor; try assumption; try lia.
      - unfold overhead, upSealerOverhead, bufCap, upMaxPacketBufferSize in *. lia.
      - rewrite Et. clear -Hh Hpk Hd0 Hs0 Ed Es Hvt Hp Htok0 Et Hpl Hpay0. unfold hdrLen, bufCap, upMaxPacketBufferSize, maxVarInt8, overhead, upSealerOverhead in *. lia. }
    pose proof (initial_header_bytes ver dcid scid token lf pn pnLen W) as Hb.
    pose proof (initial_header_length ver dcid scid token lf pn pnLen W) as Hbl.
    subst pkt hb. rewrite Hb in *. cbn [fst snd] in *.
    split; [reflexivity|]. split; [rewrite Hbl, Hh, Ed, Es, Et; reflexivity|].
    set (first := initialFirst ver pnLen) in *. set (mid := initialMid ver dcid scid token lf) in *.
    set (n := Z.to_nat pnLen).
    assert (Hn : (1 <= n <= 4)%nat) by (subst n; lia).
    assert (Hmidlen : 1 + zlen mid + pnLen = h).
    { pose proof Hh as Hh2. rewrite <- Ed, <- Es, <- Et in Hh2. rewrite <- Hbl in Hh2. unfold mk_header in Hh2.
      rewrite zlen_cons, zlen_app, zlen_pn_bytes in Hh2. subst n. lia. }
    (* the shape of the protected packet *)
    pose proof (protect_shape aead_seal aead_open hp_mask true first mid (pn_bytes n pn) payload pn 0) as Hs'.
    cbv zeta in Hs'. rewrite pn_bytes_length in Hs'. fold (mk_header first mid n pn) in Hs'.
    rewrite Hs'.
    set (ct := aead_seal pn 0 (mk_header first mid n pn) payload) in *.
    set (mask := hp_mask (firstn 16 (skipn 4 (pn_bytes n pn ++ ct)))) in *.
    pose proof (type_code_range ver H_PacketTypeInitial) as Hc.
    destruct (masked_first_nibble (type_code ver H_PacketTypeInitial) (pnLen - 1) (nth 0 mask 0) Hc ltac:(lia))
      as (low' & Hlow' & Hfirst').
    change (first_mask true) with 15. fold (initialFirst ver pnLen) in Hfirst'. fold first in Hfirst'.
    rewrite Hfirst'.
    pose proof (parse_masked_initial ver dcid scid token lf low' (xor_bytes (pn_bytes n pn) (skipn 1 mask) ++ ct)
                  Hv Hd Hs (wi_len _ _ _ _ _ _ W) (wi_tok _ _ _ _ _ _ W) Hlow') as Hparse.
    cbv zeta in Hparse. fold mid in Hparse.
    eexists. split; [exact Hparse|].
    cbn [hType hVersion hDst hSrc hToken hLength hParsedLen].
    repeat (split; [reflexivity|]).
    split; [lia|].
    split.
    { rewrite zlen_cons, !zlen_app. unfold zlen at 2 3. rewrite xor_bytes_length, pn_bytes_length.
      subst ct. rewrite seal_length. unfold zlen, overhead, upSealerOverhead in *. subst n. lia. }
    (* remove protection: C05 *)
    rewrite <- Hfirst'. change 15 with (first_mask true).
    rewrite <- Hs'.
    replace (Z.to_nat (1 + zlen mid)) with (1 + length mid)%nat by (unfold zlen; lia).
    replace pnLen with (Z.of_nat n) by (subst n; lia).
    assert (Efirst : first = long_first (type_code ver H_PacketTypeInitial) n).
    { subst first n. unfold initialFirst, long_first. rewrite Z2Nat.id by lia. reflexivity. }
    rewrite Efirst.
    apply (protect_roundtrip_dec aead_seal aead_open hp_mask open_seal seal_length).
    - exact Hn.
    - apply long_first_wf; [exact Hn|exact Hc].
    - subst n. rewrite Z2Nat.id by lia.
      assert (Hvl : valid_len pnLen) by (unfold valid_len; lia).
      destruct Hlg as [-> | [-> Hw]].
      + destruct (Z.eq_dec pn 0) as [->|Hnz].
        * apply first_pn_decodable_iff; [exact Hvl|lia|]. destruct (pow_len pnLen Hvl) as [E | [E | [E | E]]]; rewrite E; lia.
        * apply next_pn_decodable; [exact Hvl|lia].
      + apply first_pn_decodable_iff; [exact Hvl|lia|exact Hw].
    - exact Hne.
    - subst n. unfold zlen in Hmin. lia.
  Qed.
End ServerReads.

(** the synthesised token on the wire: for every (ClientTokenLength, ClientTokenPrefix) pair
    asking for a token, the Initial header carries the varint max(ClientTokenLength, |prefix|)
    followed by the whole prefix and then bytes of the random source *)
Lemma wire_token ver dcid scid ctl prefix tail conf lf pn pnLen :
  tokenLength ctl prefix > 0 ->
  (Z.to_nat (tokenLength ctl prefix) - length prefix <= length tail)%nat ->
  valid_version ver -> zlen dcid <= 20 -> zlen scid <= 20 -> 0 <= lf <= 16383 -> 1 <= pnLen <= 4 ->
  tokenLength ctl prefix <= maxVarInt8 ->
  let k := (Z.to_nat (tokenLength ctl prefix) - length prefix)%nat in
  exists t, resolveToken None ctl prefix tail conf = Some t /\
    t = prefix ++ firstn k tail /\ zlen t = Z.max ctl (zlen prefix) /\
    initialHeaderBytes ver dcid scid t lf pn pnLen
    = (0, initialFirst ver pnLen
          :: (be 4 ver ++ [zlen dcid] ++ dcid ++ [zlen scid] ++ scid ++
              vappend (Z.max ctl (zlen prefix)) ++ (prefix ++ firstn k tail) ++ vappend_len lf 2)
          ++ pn_bytes (Z.to_nat pnLen) pn).
Proof.
  intros Hpos Htail Hv Hd Hs Hl Hp Hmax k.
  exists (prefix ++ firstn k tail).
  assert (Hlen : zlen (prefix ++ firstn k tail) = Z.max ctl (zlen prefix)).
  { unfold zlen. rewrite app_length, firstn_length. unfold tokenLength in *. subst k. lia. }
  split; [apply resolveToken_is_prefix_oracle; assumption|]. split; [reflexivity|]. split; [exact Hlen|].
  assert (W : wf_initial ver dcid scid (prefix ++ firstn k tail) lf pnLen).
  { constructor; try assumption. rewrite Hlen. unfold tokenLength in Hmax. exact Hmax. }
  rewrite (initial_header_bytes _ _ _ _ _ pn _ W). unfold mk_header, initialMid. rewrite Hlen. reflexivity.
Qed.
