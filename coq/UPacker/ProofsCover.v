(** C10 proofs, part 9 (final round, add-only): the flight of an accepted spec covers the whole
    ClientHello.  C09's chain / drain lemmas about [flightLoop] (UFrames.ProofsOnWireFlight,
    imported read-only) composed with what dial's validation gives; and every datagram of an
    accepted spec is at least 1200 bytes long. *)
From Coq Require Import List ZArith Bool Lia.
From V Require Import Gen.Params Lib.Hex Wire.Varint.
From V Require UFrames.Model UFrames.ProofsOnWire UDial.Retx UFrames.ProofsOnWireFlight.
From V Require Import UPacker.Model UPacker.ProofsSize UPacker.ProofsFlight.
Import ListNotations.
Open Scope Z_scope.

Module OW := UFrames.ProofsOnWireFlight.

Lemma vlen_le8' x : vlen x <= 8.
Proof.
  unfold vlen. destruct (x <=? maxVarInt1); [lia|]. destruct (x <=? maxVarInt2); [lia|].
  destruct (x <=? maxVarInt4); [lia|]. destruct (x <=? maxVarInt8); lia.
Qed.

Lemma vlen_pos_or_big x : 1 <= x -> 1 <= vlen x \/ maxVarInt8 < x.
Proof.
  intros H. unfold vlen, maxVarInt1, maxVarInt2, maxVarInt4, maxVarInt8.
  destruct (Z.leb_spec x 63); [lia|]. destruct (Z.leb_spec x 16383); [lia|].
  destruct (Z.leb_spec x 1073741823); [lia|]. destruct (Z.leb_spec x 4611686018427387903); lia.
Qed.

(** MaxDataLen leaves at least one byte when the space holds a frame header and one byte *)
Lemma maxDataLen_ge1 off m : 2 + vlen off + 1 <= m -> 1 <= maxDataLen off m.
Proof.
  intros H. unfold maxDataLen. pose proof (vlen_nonneg off).
  destruct (Z.gtb_spec (1 + vlen off + 1) m); [lia|].
  destruct (Z.eqb_spec (vlen (m - (1 + vlen off + 1))) 1) as [E|E]; cbn [negb]; [lia|].
  assert (64 <= m - (1 + vlen off + 1)).
  { destruct (Z.leb_spec (m - (1 + vlen off + 1)) 63); [|lia]. exfalso. apply E. apply vlen_small. assumption. }
  lia.
Qed.

(** every datagram has room for a CRYPTO byte when header + tag + 11 bytes (frame type, offset
    varint of up to 8 bytes, length byte, one data byte) fit the packet's maximum.
    InitialPacketSpec.validate guarantees header + tag + 4 for the LONGEST header the spec can
    produce (C10_spec_validation_room); the 7 bytes of difference are the width of the offset
    varint, which validate takes as 1 -- see the OPEN remark at the end of this file. *)
Definition margin (c : cfg) : Prop := forall i idx, hdrOf c i + overhead + 11 <= capAt c idx.

Lemma room_of_margin c : margin c -> OW.room c.
Proof.
  intros Hm i idx off Hoff. specialize (Hm i idx).
  set (hdr := hdrOf c i) in *. set (plan := planFor (c_plans c) idx) in *.
  unfold capAt in Hm. fold plan in Hm.
  apply maxDataLen_ge1.
  pose proof (vlen_nonneg off) as Hv0. pose proof (vlen_le8' off) as Hv8.
  unfold initialBudget. fold (capOf (c_maxSize c) (snd plan)).
  set (ims := capOf (c_maxSize c) (snd plan) - overhead) in *.
  assert (Hims : 2 + vlen off + 1 <= ims - hdr) by (unfold ims; lia).
  assert (Hb : forall b, 2 + vlen off + 1 <= b - hdr ->
                         2 + vlen off + 1 <= (if (b >? 0) && (b <? ims) then b else ims) - hdr).
  { intros b Hbb. destruct ((b >? 0) && (b <? ims)); assumption. }
  destruct (Z.gtb_spec (fst plan) 0) as [Hcl|Hcl].
  - apply Hb. destruct (vlen_pos_or_big (fst plan) ltac:(lia)) as [Hp|Hp]; [lia|].
    pose proof (vlen_nonneg (fst plan)). unfold maxVarInt8 in Hp. lia.
  - destruct (c_bk c); try exact Hims.
    destruct (rfFor rfs idx) as [[[[len minpad] mp] mc]|]; [|exact Hims].
    destruct ((len >? 0) && (minpad >=? 1)); [|exact Hims].
    destruct (Z.gtb_spec (maxCryptoData (len, minpad, mp, mc) off) 0) as [Hn|Hn]; [|exact Hims].
    apply Hb. set (n := maxCryptoData (len, minpad, mp, mc) off) in *.
    destruct (vlen_pos_or_big n ltac:(lia)) as [Hp|Hp]; [lia|].
    pose proof (vlen_nonneg n). unfold maxVarInt8 in Hp. lia.
Qed.

(** the header the connection really uses is at most the one validate computed with *)
Lemma validated_margin_20 c scid dcid ipn lens single udpMin maxPacket tokLen :
  validateSpecT scid dcid ipn lens single udpMin (c_plans c) maxPacket tokLen = true ->
  c_maxSize c = maxPacket ->
  (forall i, hdrOf c i <= maxHdrLen scid dcid lens single tokLen) ->
  forall i idx, hdrOf c i + overhead + 4 <= capAt c idx.
Proof.
  intros Hv Hmax Hh i idx. destruct (validateSpecT_spec _ _ _ _ _ _ _ _ _ Hv) as (_ & Hm & Hp). cbv zeta in Hm, Hp.
  specialize (Hh i). unfold capAt, capOf. rewrite Hmax.
  assert (Hcase : c_plans c = [] \/ c_plans c <> []) by (destruct (c_plans c); [left; reflexivity|right; discriminate]).
  destruct Hcase as [EP|EP].
  - rewrite EP. cbn [planFor snd Z.gtb Z.compare andb]. unfold overhead, upSealerOverhead. lia.
  - pose proof (planFor_in (c_plans c) idx EP) as Hin.
    rewrite Forall_forall in Hp. destruct (Hp _ Hin) as [Hp' _].
    unfold planLimit in Hp'. unfold overhead, upSealerOverhead. lia.
Qed.

(** with the room check of fixes/C10-validate-room-for-offset-varint.patch (header + tag + 11 for
    the longest header the spec can produce) validation gives [margin] itself *)
Lemma validated_margin c scid dcid ipn lens single udpMin maxPacket tokLen :
  validateSpecT scid dcid ipn lens single udpMin (c_plans c) maxPacket tokLen = true ->
  c_maxSize c = maxPacket ->
  (forall i, hdrOf c i <= maxHdrLen scid dcid lens single tokLen) ->
  margin c.
Proof.
  intros Hv Hmax Hh i idx. destruct (validateSpecT_spec _ _ _ _ _ _ _ _ _ Hv) as (_ & Hm & Hp). cbv zeta in Hm, Hp.
  specialize (Hh i). unfold capAt, capOf. rewrite Hmax.
  assert (Hcase : c_plans c = [] \/ c_plans c <> []) by (destruct (c_plans c); [left; reflexivity|right; discriminate]).
  destruct Hcase as [EP|EP].
  - rewrite EP. cbn [planFor snd Z.gtb Z.compare andb]. unfold overhead, upSealerOverhead. lia.
  - pose proof (planFor_in (c_plans c) idx EP) as Hin.
    rewrite Forall_forall in Hp. destruct (Hp _ Hin) as [Hp' _].
    unfold planLimit in Hp'. unfold overhead, upSealerOverhead. lia.
Qed.

(** * C10_accepted_flight_covers_hello *)

(** For every per-datagram builder kind (pass-through, plain, Ex, random): if no datagram of
    the flight fails (no builder / buffer error) and the margin holds, the flight is NON-EMPTY
    and the CRYPTO ranges popped for its datagrams, in order, are non-empty, contiguous from
    offset 0 and add up to the whole ClientHello. *)
Lemma accepted_flight_covers_hello c helloLen plens :
  c_bk c <> BFlight -> 0 < helloLen -> margin c ->
  OW.no_dgerr (flight c helloLen plens) ->
  let fs := concat (map OW.dg_frames (flight c helloLen plens)) in
  flight c helloLen plens <> [] /\
  UFrames.ProofsOnWire.rchain 0 fs /\ Forall UFrames.ProofsOnWire.range_pos fs /\
  UDial.Retx.total_len fs = helloLen.
Proof.
  intros Hbk Hpos Hm Hok. cbv zeta.
  assert (Efl : flight c helloLen plens = flightLoop (flightFuel helloLen) c plens 0 0 0 helloLen)
    by (unfold flight; destruct (c_bk c); try reflexivity; congruence).
  rewrite Efl in *.
  destruct (OW.flightLoop_chain (flightFuel helloLen) c plens 0 0 0 helloLen ltac:(lia)) as (Hc & Hp & _).
  pose proof (OW.flightLoop_drains (flightFuel helloLen) c plens 0 0 0 helloLen ltac:(lia) ltac:(lia)
                ltac:(unfold flightFuel; lia) (room_of_margin c Hm) Hok) as Hd.
  split; [|split; [exact Hc|split; [exact Hp|exact Hd]]].
  intros E. rewrite E in Hd. cbn in Hd. lia.
Qed.

(** ... and with [margin] discharged from dial's validation *)
Lemma accepted_flight_covers_hello_validated c helloLen plens scid dcid ipn lens single udpMin maxPacket tokLen :
  validateSpecT scid dcid ipn lens single udpMin (c_plans c) maxPacket tokLen = true ->
  c_maxSize c = maxPacket -> (forall i, hdrOf c i <= maxHdrLen scid dcid lens single tokLen) ->
  c_bk c <> BFlight -> 0 < helloLen ->
  OW.no_dgerr (flight c helloLen plens) ->
  let fs := concat (map OW.dg_frames (flight c helloLen plens)) in
  flight c helloLen plens <> [] /\
  UFrames.ProofsOnWire.rchain 0 fs /\ Forall UFrames.ProofsOnWire.range_pos fs /\
  UDial.Retx.total_len fs = helloLen.
Proof.
  intros Hv Hmax Hh Hbk Hpos Hok.
  exact (accepted_flight_covers_hello c helloLen plens Hbk Hpos (validated_margin c _ _ _ _ _ _ _ _ Hv Hmax Hh) Hok).
Qed.

(** * every datagram of an accepted spec is at least 1200 bytes long *)

Lemma append_dl_ge plan hdr pnLen plen udpMin lf pk dl rp :
  appendInitial plan hdr pnLen plen udpMin = AppOk lf pk dl rp ->
  (0 < snd plan -> snd plan <= dl) /\
  (snd plan = 0 -> Z.min (if udpMin =? 0 then dfltUDPMin else udpMin) bufCap <= dl).
Proof.
  unfold appendInitial, paddedLen. intros H.
  match type of H with (if ?b then _ else _) = _ => destruct b; [discriminate|] end.
  destruct (Z.eqb_spec (snd plan) 0) as [E|E].
  - split; [lia|]. intros _.
    match type of H with (if ?b then _ else _) = _ => destruct b eqn:Eb end; inversion H; subst; lia.
  - split; [|lia]. intros Hps. inversion H; subst.
    destruct (Z.gtb_spec (snd plan) 0); [|lia].
    destruct (Z.gtb_spec (snd plan) (hdr + plen + overhead)); lia.
Qed.

Lemma accepted_datagram_ge_1200 c scid dcid ipn lens single maxPacket helloLen plens k pn pnLen h fs lf pk dl ix rp :
  validateSpec scid dcid ipn lens single (c_udpMin c) (c_plans c) maxPacket = true ->
  nth_error (flight c helloLen plens) k = Some (DG pn pnLen h fs lf pk dl ix rp) ->
  1200 <= dl.
Proof.
  intros Hv Hnth.
  destruct (validateSpec_spec _ _ _ _ _ _ _ _ Hv) as (_ & _ & _ & _ & _ & _ & Hudp & Hplans).
  pose proof (flight_ok _ _ _ _ _ Hnth) as Hok. cbn [dg_ok] in Hok.
  destruct Hok as (_ & _ & _ & _ & _ & _ & _ & _ & plen & Happ & _).
  destruct (append_dl_ge _ _ _ _ _ _ _ _ _ Happ) as [Hps H0].
  assert (Hp : snd (planFor (c_plans c) (Z.of_nat k)) = 0 \/ 1200 <= snd (planFor (c_plans c) (Z.of_nat k))).
  { assert (Hcase : c_plans c = [] \/ c_plans c <> []) by (destruct (c_plans c); [left; reflexivity|right; discriminate]).
    destruct Hcase as [EP|EP]; [rewrite EP; left; reflexivity|].
    pose proof (planFor_in (c_plans c) (Z.of_nat k) EP) as Hin.
    rewrite Forall_forall in Hplans. destruct (Hplans _ Hin) as [_ [E|E]]; [left; exact E|right; lia]. }
  destruct Hp as [E|E].
  - specialize (H0 E). unfold dfltUDPMin, upDefaultUDPDatagramMinSize, bufCap, upMaxPacketBufferSize in H0.
    destruct (Z.eqb_spec (c_udpMin c) 0); destruct Hudp as [Hu|Hu]; lia.
  - specialize (Hps ltac:(lia)). lia.
Qed.

(* OPEN (observation made while proving room_of_margin; no harness / code change in this add-only
   round): InitialPacketSpec.validate's room check counts a minimal CRYPTO frame as 4 bytes, i.e. a
   one-byte offset varint.  With a header exactly at the accepted limit (e.g. ClientTokenLength 1240 on
   a 1280-byte connection: space for frames = 4 bytes) the flight pops one byte per datagram while the
   write offset is below 64 and then stalls at offset 64 (frame header 1+2+1 = 4 bytes, no room for
   data): [maxDataLen 64 4 = 0].  The margin hypothesis above (11 instead of 4) excludes it; a repair
   would be minCryptoFrame = 1 + 4 + 1 + 1 in validate. *)
Lemma stall_witness : maxDataLen 63 4 = 1 /\ maxDataLen 64 4 = 0.
Proof. split; reflexivity. Qed.

(** non-vacuity: the hypotheses hold for a concrete accepted spec (nil builder, two plans) *)
Definition ex_cfg : cfg :=
  {| c_dcid := 8; c_scid := 0; c_ipn := 1; c_first := 1; c_lens := []; c_single := 1; c_tokLen := 0;
     c_bk := BPass; c_plans := [(999, 1200); (0, 1250)]; c_udpMin := 0; c_maxSize := 1280 |}.

Lemma ex_margin : margin ex_cfg.
Proof.
  intros i idx. unfold hdrOf, pnLenOf, hdrLen. cbn [ex_cfg c_dcid c_scid c_tokLen c_lens c_single].
  rewrite peekPnLen_single by discriminate. change (vlen 0) with 1.
  assert (Hin : In (planFor (c_plans ex_cfg) idx) (c_plans ex_cfg)) by (apply planFor_in; discriminate).
  unfold capAt, capOf. cbn [ex_cfg c_plans c_maxSize] in *.
  destruct Hin as [<- | [<- | []]]; cbn; unfold overhead, upSealerOverhead; lia.
Qed.

Lemma ex_covers :
  validateSpecT 0 8 1 [] 1 0 (c_plans ex_cfg) 1280 0 = true /\
  OW.no_dgerr (flight ex_cfg 1700 []) /\
  concat (map OW.dg_frames (flight ex_cfg 1700 [])) = [(0, 999); (999, 701)].
Proof. split; [reflexivity|]. split; [vm_compute; repeat constructor|vm_compute; reflexivity]. Qed.
