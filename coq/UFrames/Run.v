(** Correspondence glue for unit `uframes`: QUICFrames.build, QUICRandomFrames.buildInternal,
    QUICMultiDatagramFrames.BuildForDatagram replayed bit-exactly under the logged oracles. *)
From Coq Require Import List ZArith Bool String.
From V Require Import Lib.Hex.
From V Require Export UFrames.Model.
Import ListNotations.
Open Scope Z_scope.

Inductive obsres := ROk (payload : string) | RErr (c : Z) | RPanic.

Inductive case :=
| QFCase (layout : list frame) (data : string) (base : Z) (r : obsres)
| RFCase (p : list Z) (data : string) (base : Z) (rnd : string) (us : list Z) (r : obsres)
| MDCase (specs : list (list Z)) (idx : Z) (data : string) (base : Z) (rnd : string) (us : list Z) (r : obsres).

Definition rf_of (l : list Z) : rf :=
  match l with
  | [a; b; c; d; e; f; g] => mkRF a b c d e f g
  | _ => mkRF 0 0 0 0 0 0 0
  end.

(* model observable: payload bytes and the number of oracle bytes lft over *)
Inductive obs := OOk (payload : list Z) (lft : Z) | OErr (c : Z) | OPanic.

Definition obs_of (r : res (list wframe * list Z * list Z)) : obs :=
  match r with
  | Ok (ws, bs, _) => OOk (encode ws) (zlen bs)
  | Err c => OErr c
  | Panic => OPanic
  end.

Definition model_obs (c : case) : obs :=
  match c with
  | QFCase l d b _ => match build (hx d) b l with Ok ws => OOk (encode ws) 0 | Err c => OErr c | Panic => OPanic end
  | RFCase p d b rnd us _ => obs_of (build_internal (rf_of p) (hx d) b (hx rnd) us)
  | MDCase ss i d b rnd us _ => obs_of (md_build (map rf_of ss) i (hx d) b (hx rnd) us)
  end.

Definition agree (o : obs) (r : obsres) : bool :=
  match o, r with
  | OOk p l, ROk s => zeqb_list p (hx s) && (l =? 0)
  | OErr c, RErr c' => c =? c'
  | OPanic, RPanic => true
  | _, _ => false
  end.

Definition check_case (c : case) : bool :=
  match c with
  | QFCase _ _ _ r | RFCase _ _ _ _ _ r | MDCase _ _ _ _ _ _ r => agree (model_obs c) r
  end.
