(** findSNIAndECH (sni.go) is total on every byte string and the positions it reports lie
    inside its input. *)
From Coq Require Import List ZArith Bool Lia ZifyBool.
From V Require Import Gen.Params Lib.Hex Wire.Varint UFrames.Model UFrames.ProofsBase UFrames.ScramModel.
Import ListNotations.
Open Scope Z_scope.

Definition bytes_ok (d : list Z) : Prop := Forall (fun b => 0 <= b < 256) d.

Lemma byte_at_range d i : bytes_ok d -> 0 <= byte_at d i < 256.
Proof.
  intros H. unfold byte_at. destruct (nth_in_or_default (Z.to_nat i) d 0) as [Hin| ->]; [|lia].
  unfold bytes_ok in H. rewrite Forall_forall in H. apply H. assumption.
Qed.

Lemma u16_at_range d i : bytes_ok d -> 0 <= u16_at d i < 65536.
Proof.
  intros H. unfold u16_at. pose proof (byte_at_range d i H). pose proof (byte_at_range d (i + 1) H). lia.
Qed.

(* what the scrambler relies on: lengths and positions inside an n-byte input *)
Definition sni_ok (n sp sl ep : Z) : Prop :=
  0 <= sl <= n /\ (sp = -1 \/ (0 <= sp /\ sp + sl <= n)) /\ (ep = -1 \/ (0 < ep /\ ep + 4 <= n)).

Lemma names_loop_spec n d fuel : forall sd el nll listPos sl0,
  bytes_ok d -> 0 <= sd -> sd + el <= n -> 0 <= listPos -> 0 <= sl0 <= n ->
  match names_loop fuel d sd el nll listPos sl0 with
  | (true, _, _) => True
  | (false, sp, sl) => 0 <= sl <= n /\ (sp = -1 \/ (0 <= sp /\ sp + sl <= n))
  end.
Proof.
  induction fuel as [|f IH]; intros sd el nll listPos sl0 Hd Hsd Hel Hlp Hsl; simpl.
  - split; [assumption|left; reflexivity].
  - destruct (Z.leb_spec (listPos + 3) (nll + 2)); [|split; [assumption|left; reflexivity]].
    pose proof (u16_at_range d (sd + listPos + 1) Hd) as Hu.
    destruct (Z.ltb_spec el (listPos + 3 + u16_at d (sd + listPos + 1))); [exact I|].
    destruct (byte_at d (sd + listPos) =? 0).
    + split; [lia|right; lia].
    + apply IH; try assumption; lia.
Qed.

Ltac kill_eof :=
  match goal with
  | |- context [if ?c then sni_eof else _] => destruct c eqn:?; [simpl; intros Hc; discriminate Hc|]
  | |- context [if ?c then sni_err else _] => destruct c eqn:?; [simpl; intros Hc; discriminate Hc|]
  end.

Lemma ext_loop_spec n d extStart el fuel : forall extPos sp sl ep,
  bytes_ok d -> 0 < extStart -> extStart + el <= n -> 0 <= extPos -> sni_ok n sp sl ep ->
  sCls (ext_loop fuel d extStart el extPos sp sl ep) = 0 ->
  sni_ok n (sPos (ext_loop fuel d extStart el extPos sp sl ep))
           (sLen (ext_loop fuel d extStart el extPos sp sl ep))
           (ePos (ext_loop fuel d extStart el extPos sp sl ep)).
Proof.
  induction fuel as [|f IH]; intros extPos sp sl ep Hd Hes Hel Hep Hok; [intros _; exact Hok|].
  cbn [ext_loop].
  destruct (extPos + 4 <=? el) eqn:E1; [|intros _; exact Hok].
  pose proof (u16_at_range d (extStart + extPos + 2) Hd) as Hu.
  set (extLen := u16_at d (extStart + extPos + 2)) in *.
  kill_eof.
  destruct (u16_at d (extStart + extPos) =? uframes_extTypeSNI).
  - kill_eof. kill_eof. kill_eof.
    destruct Hok as (Hsl & Hsp & Hepo).
    pose proof (names_loop_spec n d (S (Z.to_nat extLen)) (extStart + extPos + 4) extLen
                  (u16_at d (extStart + extPos + 4)) 2 sl Hd ltac:(lia) ltac:(lia) ltac:(lia) Hsl) as Hn.
    destruct (names_loop (S (Z.to_nat extLen)) d (extStart + extPos + 4) extLen (u16_at d (extStart + extPos + 4)) 2 sl)
      as [[eof sp'] sl'].
    destruct eof; [simpl; intros Hc; discriminate Hc|]. destruct Hn as (Hsl' & Hsp').
    destruct (negb (sp' =? -1) && negb (ep =? -1)).
    + simpl. intros _. repeat split; try lia; assumption.
    + apply IH; try assumption; try lia. repeat split; try lia; assumption.
  - destruct (u16_at d (extStart + extPos) =? uframes_extTypeECH).
    + kill_eof.
      destruct Hok as (Hsl & Hsp & Hepo).
      destruct (negb (sp =? -1)).
      * simpl. intros _. repeat split; try lia; try assumption.
      * apply IH; try assumption; try lia. repeat split; try lia; try assumption.
    + apply IH; try assumption; lia.
Qed.

Definition hl3 (d : list Z) : Z := byte_at d 1 * 65536 + byte_at d 2 * 256 + byte_at d 3.

Lemma ext_loop_cls d extStart el fuel : forall extPos sp sl ep,
  let r := ext_loop fuel d extStart el extPos sp sl ep in sCls r = 0 \/ sCls r = 1 \/ sCls r = 2.
Proof.
  induction fuel as [|f IH]; intros extPos sp sl ep; [left; reflexivity|].
  cbn [ext_loop].
  destruct (extPos + 4 <=? el); [|left; reflexivity].
  destruct (el <? _); [right; left; reflexivity|].
  destruct (_ =? uframes_extTypeSNI).
  - destruct (negb (sp =? -1)); [right; right; reflexivity|].
    destruct (_ <? 2); [right; left; reflexivity|].
    destruct (negb _); [right; left; reflexivity|].
    destruct (names_loop _ _ _ _ _ _ _) as [[[] sp'] sl']; [right; left; reflexivity|].
    destruct (_ && _); [left; reflexivity|apply IH].
  - destruct (_ =? uframes_extTypeECH); [|apply IH].
    destruct (negb (ep =? -1)); [right; right; reflexivity|].
    destruct (negb (sp =? -1)); [left; reflexivity|apply IH].
Qed.

(** findSNIAndECH: on every byte string the result is one of the three classes (total by
    construction); when it reports success, the input is exactly one handshake message and the
    SNI host name / ECH extension it points to lie inside the input. *)
Lemma find_sni_ech_cls d :
  sCls (find_sni_ech d) = 0 \/ sCls (find_sni_ech d) = 1 \/ sCls (find_sni_ech d) = 2.
Proof.
  unfold find_sni_ech.
  repeat match goal with
         | |- context [if ?c then sni_eof else _] => destruct c; [right; left; reflexivity|]
         | |- context [if ?c then sni_err else _] => destruct c; [right; right; reflexivity|]
         end.
  apply ext_loop_cls.
Qed.

Lemma find_sni_ech_spec d :
  bytes_ok d ->
  sCls (find_sni_ech d) = 0 ->
  4 <= zlen d /\ zlen d = 4 + hl3 d /\ byte_at d 0 = 1
  /\ sni_ok (zlen d) (sPos (find_sni_ech d)) (sLen (find_sni_ech d)) (ePos (find_sni_ech d)).
Proof.
  intros Hd. unfold find_sni_ech. fold (hl3 d).
  pose proof (byte_at_range d (4 + 2 + 32) Hd) as Hsid.
  set (sid := byte_at d (4 + 2 + 32)) in *.
  pose proof (u16_at_range d (4 + 2 + 32 + 1 + sid) Hd) as Hcs.
  set (cs := u16_at d (4 + 2 + 32 + 1 + sid)) in *.
  pose proof (byte_at_range d (4 + 2 + 32 + 1 + sid + 2 + cs) Hd) as Hcm.
  set (cm := byte_at d (4 + 2 + 32 + 1 + sid + 2 + cs)) in *.
  pose proof (u16_at_range d (4 + 2 + 32 + 1 + sid + 2 + cs + 1 + cm) Hd) as Hel.
  set (el := u16_at d (4 + 2 + 32 + 1 + sid + 2 + cs + 1 + cm)) in *.
  set (fuel := S (Z.to_nat el)).
  do 13 kill_eof.
  intros Hc.
  apply (ext_loop_spec (zlen d)) in Hc; try assumption; try lia.
  - destruct Hc as (Ha & Hb & Hcc). unfold sni_ok. repeat split; try lia; try assumption.
  - repeat split; try lia; left; reflexivity.
Qed.
