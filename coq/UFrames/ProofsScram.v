(** The client's Initial crypto stream: default splitter and ClientHello scrambler.
    For every sequence of (non-empty) writes and every sequence of PopCryptoFrame budgets,
    each popped frame carries the written stream's own bytes at its offset, nothing panics,
    and once HasData reports false everything written has been sent — unless the stream is
    still waiting for cuts[0] (see the refuted statements at the end). *)
From Coq Require Import List ZArith Bool Lia ZifyBool.
From V Require Import Gen.Params Lib.Hex Wire.Varint UFrames.Model UFrames.ProofsBase UFrames.Proofs
  UFrames.ProofsFlight UFrames.ScramModel UFrames.ProofsSni.
Import ListNotations.
Open Scope Z_scope.

Inductive sop := SWrite (p : list Z) | SPop (maxLen : Z).

(* run ops from state s; W = everything written so far, fs = frames popped so far *)
Fixpoint run (s : sst) (W : list Z) (fs : list (Z * list Z)) (ops : list sop) : res (sst * list Z * list (Z * list Z)) :=
  match ops with
  | [] => Ok (s, W, fs)
  | SWrite p :: r => run (fst (write s p)) (W ++ p) fs r
  | SPop m :: r =>
    '(s', fo) <- pop s m ;;
    run s' W (match fo with Some f => fs ++ [f] | None => fs end) r
  end.

Definition covers (fs : list (Z * list Z)) (i : Z) : Prop :=
  exists f, In f fs /\ fst f <= i < fst f + zlen (snd f).

Definition cut_ok (E cs ce : Z) : Prop := cs = Inv \/ (0 <= cs <= ce /\ ce <= E).

Definition pending (s : sst) (i : Z) : Prop :=
  (c0s s <> Inv /\ c0s s <= i < c0e s) \/ (c1s s <> Inv /\ c1s s <= i < c1e s).

Definition sinv (W : list Z) (fs : list (Z * list Z)) (s : sst) : Prop :=
  Forall (true_frame W) fs /\ 0 <= wo s <= zlen W /\
  if scr s then
    buf s = W /\
    ((c0s s = Inv /\ c1s s = Inv /\ wo s = 0 /\ send s = 0)
     \/ (4 <= send s /\ send s = 4 + hl3 W /\ wo s <= send s /\ send s <= zlen W
         /\ cut_ok (send s) (c0s s) (c0e s) /\ cut_ok (send s) (c1s s) (c1e s)
         /\ forall i, 0 <= i < wo s -> covers fs i \/ pending s i))
  else buf s = drop (wo s) W /\ forall i, 0 <= i < wo s -> covers fs i.

(* ---------- list facts ---------- *)
Lemma drop_app_le {A} n (a b : list A) : 0 <= n <= zlen a -> drop n (a ++ b) = drop n a ++ b.
Proof.
  intros H. unfold drop, zlen in *. rewrite skipn_app.
  replace (Z.to_nat n - length a)%nat with 0%nat by lia. reflexivity.
Qed.

Lemma take_app_le {A} n (a b : list A) : 0 <= n <= zlen a -> take n (a ++ b) = take n a.
Proof.
  intros H. unfold take, zlen in *. rewrite firstn_app.
  replace (Z.to_nat n - length a)%nat with 0%nat by lia. simpl. apply app_nil_r.
Qed.

Lemma true_frame_app W p f : true_frame W f -> true_frame (W ++ p) f.
Proof.
  intros (H0 & H1 & H2). pose proof (zlen_nonneg (snd f)). unfold true_frame. rewrite zlen_app.
  pose proof (zlen_nonneg p). repeat split; try lia.
  rewrite drop_app_le by lia. rewrite take_app_le by (rewrite zlen_drop by lia; lia). assumption.
Qed.

Lemma zlen_slice W o n : 0 <= o -> 0 <= n -> o + n <= zlen W -> zlen (slice W o n) = n.
Proof. intros. unfold slice. apply zlen_take. rewrite zlen_drop by lia. lia. Qed.

Lemma slice_true W o n : 0 <= o -> 0 <= n -> o + n <= zlen W -> true_frame W (o, slice W o n).
Proof.
  intros Ho Hn Hle. unfold true_frame. cbn [fst snd]. rewrite zlen_slice by assumption.
  repeat split; try lia.
Qed.

Lemma covers_app fs f i : covers fs i -> covers (fs ++ [f]) i.
Proof. intros (g & Hin & Hr). exists g. split; [apply in_or_app; left; assumption|assumption]. Qed.

Lemma covers_new fs o d i : o <= i < o + zlen d -> covers (fs ++ [(o, d)]) i.
Proof. intros H. exists (o, d). split; [apply in_or_app; right; left; reflexivity|assumption]. Qed.

Lemma byte_at_app W p i : 0 <= i < zlen W -> byte_at (W ++ p) i = byte_at W i.
Proof. intros H. unfold byte_at, zlen in *. apply app_nth1. lia. Qed.

Lemma hl3_app W p : 4 <= zlen W -> hl3 (W ++ p) = hl3 W.
Proof. intros H. unfold hl3. rewrite !byte_at_app by lia. reflexivity. Qed.

Lemma zlen_zero_nil {A} (l : list A) : zlen l = 0 -> l = [].
Proof. destruct l; [reflexivity|unfold zlen; simpl; lia]. Qed.

(* ---------- Write preserves the invariant ---------- *)
Lemma write_inv W fs s p :
  sinv W fs s -> p <> [] -> bytes_ok (W ++ p) -> sinv (W ++ p) fs (fst (write s p)).
Proof.
  intros (Htrue & Hwo & Hmode) Hp Hbytes.
  assert (Hplen : 0 < zlen p) by (destruct p; [congruence|unfold zlen; simpl; lia]).
  assert (Htrue' : Forall (true_frame (W ++ p)) fs).
  { eapply Forall_impl; [|exact Htrue]. intros f. apply true_frame_app. }
  pose proof (zlen_nonneg W) as HW0. pose proof (zlen_nonneg (W ++ p)) as HWp0.
  assert (HWp : zlen (W ++ p) = zlen W + zlen p) by apply zlen_app.
  destruct s as [b w sc e a0 a1 b0 b1]. unfold write. cbn [buf wo scr send c0s c0e c1s c1e] in *.
  destruct sc; cbn [negb].
  - (* scrambling *)
    destruct Hmode as (-> & Hm).
    destruct (Z.eqb_spec a0 Inv) as [Ha0|Ha0]; cbn [negb].
    + (* cuts[0] invalid: findSNIAndECH runs *)
      pose proof (find_sni_ech_spec (W ++ p) Hbytes) as Hspec.
      destruct (Z.eqb_spec (sCls (find_sni_ech (W ++ p))) 1) as [_|Hn1].
      { (* not parsable *)
        destruct ((e =? 0) && message_complete (W ++ p)) eqn:Ecomp.
        { (* a whole message that will never parse: scrambling off, nothing was sent yet *)
          apply andb_prop in Ecomp as [Ee _]. apply Z.eqb_eq in Ee. subst e.
          destruct Hm as [(_ & _ & Hw0 & _)|Hm]; [|lia].
          unfold sinv; cbn [fst buf wo scr send c0s c0e c1s c1e]. split; [assumption|]. split; [lia|].
          split; [subst w; reflexivity|]. intros i Hi. lia. }
        unfold sinv; cbn [fst buf wo scr send c0s c0e c1s c1e]. split; [assumption|]. split; [lia|].
        split; [reflexivity|]. destruct Hm as [Hm|Hm]; [left; assumption|right].
        destruct Hm as (H4 & Hs & Hw & Hle & Hc0 & Hc1 & Hcov).
        rewrite hl3_app by lia. repeat split; try lia; assumption. }
      destruct (Z.eqb_spec (sCls (find_sni_ech (W ++ p))) 0) as [H0|Hn0]; cbn [negb].
      2: { (* error *) unfold sinv; cbn [fst buf wo scr send c0s c0e c1s c1e]. split; [assumption|]. split; [lia|].
        split; [reflexivity|]. destruct Hm as [Hm|Hm]; [left; assumption|right].
        destruct Hm as (H4 & Hs & Hw & Hle & Hc0 & Hc1 & Hcov).
        rewrite hl3_app by lia. repeat split; try lia; assumption. }
      destruct (Hspec H0) as (Hlen4 & Hlen & _ & Hsl & Hsp & Hep).
      destruct Hm as [(_ & -> & -> & ->)|Hm].
      2: { (* cuts were already computed once: a complete ClientHello cannot grow *)
        exfalso. destruct Hm as (H4 & Hs & _ & Hle & _). rewrite hl3_app in Hlen by lia.
        rewrite zlen_app in Hlen. lia. }
      destruct ((sPos (find_sni_ech (W ++ p)) =? -1) && (ePos (find_sni_ech (W ++ p)) =? -1)) eqn:Eboth.
      { (* nothing to scramble *) unfold sinv; cbn [fst buf wo scr send c0s c0e c1s c1e]. split; [assumption|]. split; [lia|]. split; [reflexivity|]. intros i Hi. lia. }
      set (r := find_sni_ech (W ++ p)) in *.
      set (E := zlen (W ++ p)) in *.
      assert (Hca : sPos r <> -1 -> cut_ok E (sPos r + sLen r / 2) (sPos r + sLen r)).
      { intros Hn. unfold cut_ok. right. destruct Hsp as [Hsp|Hsp]; [congruence|].
        assert (0 <= sLen r / 2 <= sLen r) by (split; [apply Z.div_pos; lia|apply Z.div_le_upper_bound; lia]). lia. }
      assert (Hcb : cut_ok E (if 0 <? ePos r then ePos r + 1 else Inv) (if 0 <? ePos r then Z.min (ePos r + 1 + 16) E else Inv)).
      { unfold cut_ok. destruct (Z.ltb_spec 0 (ePos r)); [right|left; reflexivity].
        destruct Hep as [Hep|Hep]; lia. }
      assert (Hfin : forall x0 x1 y0 y1, cut_ok E x0 x1 -> cut_ok E y0 y1 ->
                 sinv (W ++ p) fs (mkS (W ++ p) 0 true E x0 x1 y0 y1)).
      { intros x0 x1 y0 y1 Hx Hy. unfold sinv; cbn [buf wo scr send c0s c0e c1s c1e].
        split; [assumption|]. split; [lia|]. split; [reflexivity|]. right.
        repeat split; try lia; try assumption. }
      destruct (Z.eqb_spec (sPos r) (-1)) as [Hs1|Hs1]; destruct (0 <? ePos r) eqn:Eep; rewrite ?Eep in Hcb; cbv beta iota;
        destruct (negb (_ =? Inv) && ((_ =? Inv) || negb (_ <? _))); cbn [fst]; apply Hfin;
        first [assumption | apply Hca; assumption | left; assumption | left; reflexivity].
    + (* cuts already computed, cuts[0] still valid: only the buffer grows *)
      unfold sinv; cbn [fst buf wo scr send c0s c0e c1s c1e]. split; [assumption|]. split; [lia|]. split; [reflexivity|].
      destruct Hm as [(Hc & _)|Hm]; [congruence|right].
      destruct Hm as (H4 & Hs & Hw & Hle & Hc0 & Hc1 & Hcov).
      rewrite hl3_app by lia. repeat split; try lia; assumption.
  - (* default splitter *)
    destruct Hmode as (-> & Hcov). unfold sinv; cbn [fst buf wo scr send c0s c0e c1s c1e]. split; [assumption|]. split; [lia|].
    split; [|assumption]. rewrite drop_app_le by lia. reflexivity.
Qed.

(* ---------- PopCryptoFrame preserves the invariant ---------- *)
Definition push (fs : list (Z * list Z)) (fo : option (Z * list Z)) : list (Z * list Z) :=
  match fo with Some f => fs ++ [f] | None => fs end.

Lemma Inv_val : Inv = -1.
Proof. reflexivity. Qed.

Lemma emit_ok W fs o n :
  Forall (true_frame W) fs -> 0 <= o -> 0 < n -> o + n <= zlen W ->
  Forall (true_frame W) (fs ++ [(o, slice W o n)])
  /\ (forall i, o <= i < o + n -> covers (fs ++ [(o, slice W o n)]) i)
  /\ (forall i, covers fs i -> covers (fs ++ [(o, slice W o n)]) i).
Proof.
  intros Ht Ho Hn Hle. split; [|split].
  - apply Forall_app. split; [assumption|]. constructor; [|constructor]. apply slice_true; lia.
  - intros i Hi. apply covers_new. rewrite zlen_slice by lia. assumption.
  - intros i. apply covers_app.
Qed.

Lemma base_pop_inv W fs s m :
  sinv W fs s -> scr s = false ->
  match base_pop s m with
  | Ok (s', fo) => sinv W (push fs fo) s'
  | _ => False
  end.
Proof.
  intros (Htrue & Hwo & Hmode) Hsc. destruct s as [b w sc e a0 a1 b0 b1]. cbn [scr] in Hsc. subst sc.
  cbn [buf wo scr send c0s c0e c1s c1e] in *. destruct Hmode as (-> & Hcov).
  unfold base_pop. cbn [buf wo scr send c0s c0e c1s c1e].
  set (mdl := max_data_len w m). pose proof (zlen_nonneg W) as HW0.
  rewrite zlen_drop by lia.
  set (n := Z.min mdl (zlen W - w)).
  destruct (Z.leb_spec n 0).
  - unfold sinv, push; cbn [buf wo scr send c0s c0e c1s c1e]. auto.
  - destruct (emit_ok W fs w n Htrue ltac:(lia) ltac:(lia) ltac:(lia)) as (Ht' & Hnew & Hold).
    unfold sinv, push; cbn [buf wo scr send c0s c0e c1s c1e]. fold (slice W w n).
    split; [assumption|]. split; [lia|]. split; [apply drop_drop; lia|].
    intros i Hi. destruct (Z.lt_ge_cases i w); [apply Hold, Hcov; lia|apply Hnew; lia].
Qed.

Lemma m1_intro W fs w e a0 a1 b0 b1 :
  Forall (true_frame W) fs -> 0 <= w <= zlen W -> 4 <= e -> e = 4 + hl3 W -> w <= e -> e <= zlen W ->
  (a0 = -1 \/ (0 <= a0 <= a1 /\ a1 <= e)) -> (b0 = -1 \/ (0 <= b0 <= b1 /\ b1 <= e)) ->
  (forall i, 0 <= i < w -> covers fs i \/ (a0 <> -1 /\ a0 <= i < a1) \/ (b0 <> -1 /\ b0 <= i < b1)) ->
  sinv W fs (mkS W w true e a0 a1 b0 b1).
Proof.
  intros. unfold sinv, cut_ok, pending; cbn [buf wo scr send c0s c0e c1s c1e]. rewrite Inv_val.
  split; [assumption|]. split; [assumption|]. split; [reflexivity|]. right. repeat split; try lia; auto.
Qed.

Lemma fin_intro W fs e a0 a1 b0 b1 :
  Forall (true_frame W) fs -> 0 <= e <= zlen W -> (forall i, 0 <= i < e -> covers fs i) ->
  sinv W fs (finish (mkS W e true e a0 a1 b0 b1)).
Proof.
  intros. unfold sinv, finish; cbn [buf wo scr send c0s c0e c1s c1e].
  split; [assumption|]. split; [assumption|]. split; [reflexivity|assumption].
Qed.

(* phase 2 (writeOffset = end): the skipped parts, empty cuts dropped *)
Lemma pop_phase2_inv W fs e a0 a1 b0 b1 m :
  Forall (true_frame W) fs -> 4 <= e -> e = 4 + hl3 W -> e <= zlen W ->
  (a0 = -1 \/ (0 <= a0 <= a1 /\ a1 <= e)) -> (b0 = -1 \/ (0 <= b0 <= b1 /\ b1 <= e)) ->
  (forall i, 0 <= i < e -> covers fs i \/ (a0 <> -1 /\ a0 <= i < a1) \/ (b0 <> -1 /\ b0 <= i < b1)) ->
  match pop (mkS W e true e a0 a1 b0 b1) m with
  | Ok (s', fo) => sinv W (push fs fo) s'
  | _ => False
  end.
Proof.
  intros Htrue H4 Hs Hle Hc0 Hc1 Hcov. pose proof (zlen_nonneg W) as HW0.
  unfold pop. cbn [buf wo scr send c0s c0e c1s c1e negb]. rewrite Z.eqb_refl.
  (* the three shapes of a cut: invalid, valid and empty, valid and non-empty *)
  assert (Ca : a0 = -1 \/ (a0 <> -1 /\ a1 <= a0) \/ (a0 <> -1 /\ a0 < a1)) by lia.
  assert (Cb : b0 = -1 \/ (b0 <> -1 /\ b1 <= b0) \/ (b0 <> -1 /\ b0 < b1)) by lia.
  destruct Ca as [Ca|[Ca|Ca]].
  3: { (* cuts[0] has bytes to send *)
    unfold drop_empty0. cbn [buf wo scr send c0s c0e c1s c1e]. rewrite ?Inv_val.
    replace (negb (a0 =? -1) && (a1 <=? a0)) with false by lia.
    cbn [c0s]. replace (negb (a0 =? -1)) with true by lia.
    unfold pop_cut. cbn [buf wo scr send c0s c0e c1s c1e].
    set (n := Z.min (max_data_len a0 m) (a1 - a0)).
    destruct (Z.leb_spec n 0); [unfold push; apply m1_intro; auto; lia|].
    destruct Hc0 as [?|Hc0]; [lia|].
    destruct (emit_ok W fs a0 n Htrue ltac:(lia) ltac:(lia) ltac:(lia)) as (Ht' & Hnew & Hold).
    unfold in_buf. replace ((0 <=? a0) && (a0 + n <=? zlen W)) with true by lia. cbn [negb].
    unfold drop_empty1. cbn [buf wo scr send c0s c0e c1s c1e]. rewrite ?Inv_val.
    destruct (Z.eqb_spec (a0 + n) a1) as [Hd|Hd]; cbn [negb orb andb].
    - (* cuts[0] finished *)
      destruct Cb as [Cb|[Cb|Cb]].
      + replace (negb (b0 =? -1) && (b1 <=? b0)) with false by lia. cbn [c1s].
        replace (negb (b0 =? -1)) with false by lia. unfold push. apply fin_intro; [assumption|lia|].
        intros i Hi. destruct (Hcov i Hi) as [?|[?|?]]; [auto|apply Hnew; lia|lia].
      + replace (negb (b0 =? -1) && (b1 <=? b0)) with true by lia. cbn [c1s]. rewrite ?Inv_val.
        replace (negb (-1 =? -1)) with false by reflexivity. unfold push. apply fin_intro; [assumption|lia|].
        intros i Hi. destruct (Hcov i Hi) as [?|[?|?]]; [auto|apply Hnew; lia|lia].
      + replace (negb (b0 =? -1) && (b1 <=? b0)) with false by lia. cbn [c1s].
        replace (negb (b0 =? -1)) with true by lia. unfold push. apply m1_intro; auto; try lia.
        intros i Hi. destruct (Hcov i Hi) as [?|[?|?]]; [auto|left; apply Hnew; lia|right; right; lia].
    - (* cuts[0] continues *)
      assert (Hcov' : forall i, 0 <= i < e -> covers (fs ++ [(a0, slice W a0 n)]) i \/
                 (a0 + n <> -1 /\ a0 + n <= i < a1) \/ (b0 <> -1 /\ b0 <= i < b1)).
      { intros i Hi. destruct (Hcov i Hi) as [?|[?|?]]; [auto| |right; right; assumption].
        destruct (Z.lt_ge_cases i (a0 + n)); [left; apply Hnew; lia|right; left; lia]. }
      destruct (negb (b0 =? -1) && (b1 <=? b0)) eqn:Eb; unfold push; apply m1_intro; auto; try lia.
      intros i Hi. destruct (Hcov' i Hi) as [?|[?|?]]; [auto|auto|lia]. }
  (* cuts[0] invalid or empty: after the first iteration it is invalid *)
  all: assert (E0 : exists a1', drop_empty0 (mkS W e true e a0 a1 b0 b1) = mkS W e true e (-1) a1' b0 b1)
         by (unfold drop_empty0; cbn [buf wo scr send c0s c0e c1s c1e]; rewrite Inv_val;
             first [ replace (negb (a0 =? -1) && (a1 <=? a0)) with false by lia; subst a0; eexists; reflexivity
                   | replace (negb (a0 =? -1) && (a1 <=? a0)) with true by lia; eexists; reflexivity ]).
  all: destruct E0 as (a1' & ->); cbn [c0s]; rewrite Inv_val; replace (negb (-1 =? -1)) with false by reflexivity.
  all: assert (Hcovb : forall i, 0 <= i < e -> covers fs i \/ (b0 <> -1 /\ b0 <= i < b1))
         by (intros i Hi; destruct (Hcov i Hi) as [?|[?|?]]; [auto|lia|auto]).
  all: destruct Cb as [Cb|[Cb|Cb]].
  all: unfold drop_empty1; cbn [buf wo scr send c0s c0e c1s c1e]; rewrite ?Inv_val.
  (* cuts[1] invalid, empty: nothing left, continue with the default splitter *)
  1,2,4,5: first [ replace (negb (b0 =? -1) && (b1 <=? b0)) with false by lia
                 | replace (negb (b0 =? -1) && (b1 <=? b0)) with true by lia ];
    cbn [c1s]; rewrite ?Inv_val;
    first [ replace (negb (b0 =? -1)) with false by lia | replace (negb (-1 =? -1)) with false by reflexivity ];
    (apply base_pop_inv; [|reflexivity]); apply fin_intro; [assumption|lia|];
    intros i Hi; destruct (Hcovb i Hi) as [?|?]; [assumption|lia].
  (* cuts[1] has bytes to send *)
  all: replace (negb (b0 =? -1) && (b1 <=? b0)) with false by lia; cbn [c1s];
    replace (negb (b0 =? -1)) with true by lia;
    unfold pop_cut; cbn [buf wo scr send c0s c0e c1s c1e];
    set (n := Z.min (max_data_len b0 m) (b1 - b0));
    (destruct (Z.leb_spec n 0); [unfold push; apply m1_intro; auto; try lia; intros i Hi; destruct (Hcovb i Hi); auto|]);
    (destruct Hc1 as [?|Hc1]; [lia|]);
    destruct (emit_ok W fs b0 n Htrue ltac:(lia) ltac:(lia) ltac:(lia)) as (Ht' & Hnew & Hold);
    unfold in_buf; replace ((0 <=? b0) && (b0 + n <=? zlen W)) with true by lia; cbn [negb];
    (destruct (Z.eqb_spec (b0 + n) b1) as [Hd|Hd]; cbn [negb orb andb]; unfold push;
     [ apply fin_intro; [assumption|lia|]; intros i Hi; destruct (Hcovb i Hi) as [?|?]; [auto|apply Hnew; lia]
     | apply m1_intro; auto; try lia; intros i Hi; destruct (Hcovb i Hi) as [?|?]; [auto|];
       destruct (Z.lt_ge_cases i (b0 + n)); [left; apply Hnew; lia|right; right; lia] ]).
Qed.

Lemma pop_inv W fs s m :
  sinv W fs s ->
  match pop s m with
  | Ok (s', fo) => sinv W (push fs fo) s'
  | _ => False
  end.
Proof.
  intros Hinv. destruct (scr s) eqn:Hsc; [|unfold pop; rewrite Hsc; cbn [negb]; apply base_pop_inv; assumption].
  destruct Hinv as (Htrue & Hwo & Hmode). rewrite Hsc in Hmode.
  destruct s as [b w sc e a0 a1 b0 b1]. cbn [buf wo scr send c0s c0e c1s c1e] in *. subst sc.
  destruct Hmode as (-> & Hm). pose proof (zlen_nonneg W) as HW0.
  destruct Hm as [(-> & -> & -> & ->)|Hm].
  { (* cuts not computed yet: scrambling is switched off, the default splitter takes over *)
    unfold pop, drop_empty0, drop_empty1. cbn [buf wo scr send c0s c0e c1s c1e negb]. rewrite ?Inv_val.
    change (0 =? 0) with true. change (-1 =? -1) with true. cbn [negb andb c0s c1s buf wo scr send c0e c1e].
    rewrite ?Inv_val. change (-1 =? -1) with true. cbn [negb andb c0s c1s buf wo scr send c0e c1e].
    rewrite ?Inv_val. change (-1 =? -1) with true. cbn [negb andb c0s c1s buf wo scr send c0e c1e].
    apply base_pop_inv; [|reflexivity].
    unfold sinv, finish; cbn [buf wo scr send c0s c0e c1s c1e].
    split; [assumption|]. split; [lia|]. split; [reflexivity|]. intros i Hi; lia. }
  destruct Hm as (H4 & Hs & Hw & Hle & Hc0 & Hc1 & Hcov).
  unfold cut_ok in Hc0, Hc1. unfold pending in Hcov. cbn [c0s c0e c1s c1e] in Hcov. rewrite Inv_val in *.
  destruct (Z.eq_dec w e) as [Hwe|Hwe]; [subst w; apply pop_phase2_inv; assumption|].
  unfold pop, in_buf. cbn [buf wo scr send c0s c0e c1s c1e negb]. rewrite ?Inv_val.
  destruct (Z.eqb_spec w e) as [?|_]; [contradiction|].
  idtac.
  (* phase 1: up to the next cut *)
    set (sel := if negb (a0 =? -1) && (w <? a0) then (a0, a1)
                else if negb (b0 =? -1) && (w <? b0) then (b0, b1) else (-1, -1)).
    assert (Hsel : fst sel = -1 \/ (w < fst sel /\ 0 <= fst sel <= snd sel /\ snd sel <= e
                   /\ forall i, fst sel <= i < snd sel -> (a0 <> -1 /\ a0 <= i < a1) \/ (b0 <> -1 /\ b0 <= i < b1))).
    { unfold sel. destruct (negb (a0 =? -1) && (w <? a0)) eqn:E1; cbn [fst snd]; [right; repeat split; try lia; intros; left; lia|].
      destruct (negb (b0 =? -1) && (w <? b0)) eqn:E2; cbn [fst snd]; [right; repeat split; try lia; intros; right; lia|left; reflexivity]. }
    destruct sel as [ns ne]. cbn [fst snd] in Hsel.
    set (maxOffset := if ns =? -1 then e else ns).
    set (n := Z.min (max_data_len w m) (maxOffset - w)).
    assert (Hmo : w < maxOffset <= e) by (unfold maxOffset; destruct (Z.eqb_spec ns (-1)); lia).
    destruct (Z.leb_spec n 0).
    { unfold sinv, push; cbn [buf wo scr send c0s c0e c1s c1e]. split; [assumption|]. split; [lia|].
      split; [reflexivity|]. right. unfold cut_ok, pending; cbn [c0s c0e c1s c1e]. rewrite Inv_val.
      repeat split; try lia; auto. }
    destruct (emit_ok W fs w n Htrue ltac:(lia) ltac:(lia) ltac:(lia)) as (Ht' & Hnew & Hold).
    replace ((0 <=? w) && (w + n <=? zlen W)) with true by lia. cbn [negb].
    set (w'' := if w + n =? ns then ne else w + n).
    assert (Hw'' : 0 <= w'' <= e) by (unfold w''; destruct (Z.eqb_spec (w + n) ns); lia).
    unfold sinv, push; cbn [buf wo scr send c0s c0e c1s c1e].
    split; [assumption|]. split; [lia|]. split; [reflexivity|]. right.
    unfold cut_ok, pending; cbn [c0s c0e c1s c1e]. rewrite Inv_val.
    repeat split; try lia; auto.
    intros i Hi. destruct (Z.lt_ge_cases i w) as [Hlt|Hge].
    + destruct (Hcov i ltac:(lia)) as [?|?]; [left; auto|right; assumption].
    + destruct (Z.lt_ge_cases i (w + n)); [left; apply Hnew; lia|].
      right. unfold w'' in Hi. destruct (Z.eqb_spec (w + n) ns); [|lia].
      destruct Hsel as [?|(_ & _ & _ & Hp)]; [lia|]. apply Hp. lia.
Qed.

(* ---------- every op sequence ---------- *)
Definition op_ok (o : sop) : Prop :=
  match o with SWrite p => p <> [] /\ bytes_ok p | SPop _ => True end.

Lemma init_inv sc : sinv [] [] (init sc).
Proof.
  unfold sinv, init; cbn [buf wo scr send c0s c0e c1s c1e]. split; [constructor|]. split; [unfold zlen; simpl; lia|].
  destruct sc; [split; [reflexivity|left; auto]|split; [reflexivity|intros; lia]].
Qed.

Lemma run_inv ops : forall s W fs,
  sinv W fs s -> bytes_ok W -> Forall op_ok ops ->
  match run s W fs ops with
  | Ok (s', W', fs') => sinv W' fs' s'
  | _ => False
  end.
Proof.
  induction ops as [|o ops IH]; intros s W fs Hinv Hb Hops; [exact Hinv|].
  inversion Hops as [|? ? Ho Hops']; subst. destruct o as [p|m]; cbn [run].
  - destruct Ho as (Hp & Hbp).
    assert (Hb' : bytes_ok (W ++ p)) by (apply Forall_app; split; assumption).
    apply IH; [apply write_inv; assumption|assumption|assumption].
  - pose proof (pop_inv W fs s m Hinv) as Hp.
    destruct (pop s m) as [[s' fo]|c|]; cbn [bind]; [|contradiction|contradiction].
    apply IH; assumption.
Qed.

Lemma sinv_drained W fs s :
  sinv W fs s -> has_data s = false ->
  (scr s = true /\ wo s = 0 /\ c0s s = Inv) \/ (forall i, 0 <= i < zlen W -> covers fs i).
Proof.
  intros (Htrue & Hwo & Hmode) Hh. unfold has_data in Hh. destruct (scr s) eqn:Hsc.
  - destruct Hmode as (Hbuf & _). destruct ((wo s =? 0) && (c0s s =? Inv)) eqn:E.
    + left. rewrite Inv_val in *. repeat split; lia.
    + right. cbn [andb] in Hh. rewrite E in Hh. rewrite Hbuf in Hh. intros i Hi. lia.
  - right. cbn [andb] in Hh. destruct Hmode as (Hbuf & Hcov). rewrite Hbuf in Hh.
    pose proof (zlen_nonneg W). rewrite zlen_drop in Hh by lia. intros i Hi. apply Hcov. lia.
Qed.

(** The Initial crypto stream with the scrambler on or off, for every sequence of non-empty
    writes and PopCryptoFrame budgets (any interleaving): no panic; every popped frame lies
    inside the written stream and carries its bytes at its offset; and when HasData reports
    false, either the stream is still waiting for its cuts (scramble on, nothing popped,
    cuts[0] invalid) or every byte written so far has been sent. *)
Lemma stream_exact sc ops :
  Forall op_ok ops ->
  match run (init sc) [] [] ops with
  | Ok (s, W, fs) =>
    Forall (true_frame W) fs /\
    (has_data s = false ->
     (scr s = true /\ wo s = 0 /\ c0s s = Inv) \/ (forall i, 0 <= i < zlen W -> covers fs i))
  | _ => False
  end.
Proof.
  intros Hops. pose proof (run_inv ops (init sc) [] [] (init_inv sc) ltac:(constructor) Hops) as H.
  destruct (run (init sc) [] [] ops) as [[[s W] fs]|c|]; [|contradiction|contradiction].
  split; [apply H|apply sinv_drained; assumption].
Qed.

Lemma run_scr_false ops : forall s W fs s' W' fs',
  scr s = false -> run s W fs ops = Ok (s', W', fs') -> scr s' = false.
Proof.
  induction ops as [|o ops IH]; intros s W fs s' W' fs' Hsc H; cbn [run] in H.
  - inversion H; subst. assumption.
  - destruct o as [p|m].
    + eapply IH; [|exact H]. unfold write. rewrite Hsc. reflexivity.
    + apply bind_ok in H as ([s1 fo] & Hp & H). eapply IH; [|exact H].
      unfold pop in Hp. rewrite Hsc in Hp. cbn [negb] in Hp. unfold base_pop in Hp.
      destruct (_ <=? 0) in Hp; inversion Hp; subst; assumption.
Qed.

(** The default splitter (scrambling off, as under a QUICSpec): additionally, HasData false
    always means that everything written has been sent. *)
Lemma default_splitter_exact ops :
  Forall op_ok ops ->
  match run (init false) [] [] ops with
  | Ok (s, W, fs) =>
    Forall (true_frame W) fs /\ (has_data s = false -> forall i, 0 <= i < zlen W -> covers fs i)
  | _ => False
  end.
Proof.
  intros Hops. pose proof (stream_exact false ops Hops) as H.
  destruct (run (init false) [] [] ops) as [[[s W] fs]|c|] eqn:E; [|contradiction|contradiction].
  destruct H as (Ht & Hd). split; [assumption|]. intros Hh. destruct (Hd Hh) as [(Hsc & _)|Hc]; [|assumption].
  apply run_scr_false in E; [congruence|reflexivity].
Qed.

(* ---------- what the two repairs establish ---------- *)
(* a 55-byte ClientHello whose only extension is ECH (0xfe0d), no SNI *)
Definition ch_ech_no_sni : list Z :=
  [1; 0; 0; 51; 3; 3] ++ repeat 7 32 ++ [0; 0; 2; 19; 1; 1; 0; 0; 8; 254; 13; 0; 4; 170; 187; 204; 221].

Lemma repeat_bytes_ok b n : 0 <= b < 256 -> bytes_ok (repeat b n).
Proof. intros H. apply Forall_forall. intros x Hx. apply repeat_spec in Hx. subst. assumption. Qed.

Lemma ch_ech_no_sni_bytes : bytes_ok ch_ech_no_sni.
Proof.
  unfold ch_ech_no_sni. apply Forall_app. split; [repeat constructor; lia|].
  apply Forall_app. split; [apply repeat_bytes_ok; lia|repeat constructor; lia].
Qed.

(* a 56-byte ClientHello whose SNI extension holds a host_name of length 0 (not valid TLS,
   but accepted by findSNIAndECH) *)
Definition ch_empty_host : list Z :=
  [1; 0; 0; 52; 3; 3] ++ repeat 7 32 ++ [0; 0; 2; 19; 1; 1; 0; 0; 9; 0; 0; 0; 5; 0; 3; 0; 0; 0].

(** Once the write that completes a ClientHello (findSNIAndECH succeeds on everything queued)
    has happened on a stream that was still waiting for it, HasData is true: the ClientHello
    is offered for sending, whatever extensions it has. (Before the repair
    C09-scrambler-ech-without-sni this failed for ECH without SNI.) *)
Lemma complete_hello_offered W e a1 b1 p :
  bytes_ok (W ++ p) -> sCls (find_sni_ech (W ++ p)) = 0 ->
  snd (write (mkS W 0 true e Inv a1 Inv b1) p) = 0 /\
  has_data (fst (write (mkS W 0 true e Inv a1 Inv b1) p)) = true.
Proof.
  intros Hb H0. destruct (find_sni_ech_spec (W ++ p) Hb H0) as (H4 & _ & _ & Hsl & Hsp & Hep).
  unfold write. cbn [buf wo scr send c0s c0e c1s c1e negb]. rewrite Z.eqb_refl. cbn [negb].
  rewrite H0. cbn [Z.eqb negb].
  set (r := find_sni_ech (W ++ p)) in *.
  assert (Hd : forall a b c d x, a <> Inv -> snd (mkS (W ++ p) 0 true x a b c d, 0) = 0 /\
              has_data (fst (mkS (W ++ p) 0 true x a b c d, 0)) = true).
  { intros a b c d x Ha. split; [reflexivity|]. unfold has_data. cbn [fst buf wo scr send c0s c0e c1s c1e].
    rewrite ?Inv_val in *. replace (a =? -1) with false by lia. rewrite andb_false_r. lia. }
  destruct ((sPos r =? -1) && (ePos r =? -1)) eqn:Eb.
  { split; [reflexivity|]. unfold has_data. cbn [fst buf wo scr send c0s c0e c1s c1e andb]. lia. }
  rewrite ?Inv_val in *.
  assert (Hdiv : 0 <= sLen r / 2) by (apply Z.div_pos; lia).
  destruct (Z.eqb_spec (sPos r) (-1)) as [Hs1|Hs1]; destruct (Z.ltb_spec 0 (ePos r)) as [He1|He1]; cbv beta iota;
    match goal with |- context [if ?c then _ else _] => destruct c eqn:Ec end; apply Hd; rewrite ?Inv_val; lia.
Qed.

(** A stream still waiting for its ClientHello (scramble on, nothing popped, no cut computed)
    that receives the write completing a WHOLE handshake message — parsable by findSNIAndECH or
    not — either reports an error from Write or has HasData true: no complete message is silently
    kept back. (Before the repair C09-scrambler-unparsable-complete-hello a complete message that
    findSNIAndECH answers with io.ErrUnexpectedEOF — an SNI extension with an empty body, a byte
    behind the message — was never sent and nothing said why.) *)
Lemma complete_message_offered W a1 b1 p :
  bytes_ok (W ++ p) -> message_complete (W ++ p) = true ->
  snd (write (mkS W 0 true 0 Inv a1 Inv b1) p) = 2 \/
  has_data (fst (write (mkS W 0 true 0 Inv a1 Inv b1) p)) = true.
Proof.
  intros Hb Hc.
  destruct (find_sni_ech_cls (W ++ p)) as [H0|[H1|H2]].
  - right. apply (complete_hello_offered W 0 a1 b1 p Hb H0).
  - right. unfold write. cbn [buf wo scr send c0s c0e c1s c1e negb]. rewrite Z.eqb_refl. cbn [negb].
    rewrite H1. cbn [Z.eqb Pos.eqb andb]. rewrite Hc. cbn [fst].
    unfold has_data. cbn [buf wo scr send c0s c0e c1s c1e andb].
    unfold message_complete in Hc. apply andb_prop in Hc as [Hc _]. apply Z.leb_le in Hc. apply Z.ltb_lt. lia.
  - left. unfold write. cbn [buf wo scr send c0s c0e c1s c1e negb]. rewrite Z.eqb_refl. cbn [negb].
    rewrite H2. reflexivity.
Qed.

(* the two witnesses of the audit: an SNI extension with an empty body; one byte behind a ClientHello *)
Definition ch_sni_empty_ext : list Z :=
  [1; 0; 0; 47; 3; 3] ++ repeat 7 32 ++ [0; 0; 2; 19; 1; 1; 0; 0; 4; 0; 0; 0; 0].

Lemma unparsable_complete_now_sent :
  sCls (find_sni_ech ch_sni_empty_ext) = 1 /\ sCls (find_sni_ech (ch_ech_no_sni ++ [22])) = 1 /\
  (exists s W fs, run (init true) [] [] [SWrite ch_sni_empty_ext; SPop 1200] = Ok (s, W, fs)
     /\ has_data s = false /\ fs = [(0, ch_sni_empty_ext)]) /\
  (exists s W fs, run (init true) [] [] [SWrite (ch_ech_no_sni ++ [22]); SPop 1200] = Ok (s, W, fs)
     /\ has_data s = false /\ fs = [(0, ch_ech_no_sni ++ [22])]).
Proof.
  split; [vm_compute; reflexivity|]. split; [vm_compute; reflexivity|].
  split; do 3 eexists; (split; [vm_compute; reflexivity|split; vm_compute; reflexivity]).
Qed.

(** No wedge: in every reachable state, a pop with a budget of at least 11 bytes either yields a
    frame or leaves a stream that reports HasData = false. (Before the repair
    C09-scrambler-empty-cut an empty cut made PopCryptoFrame return nil forever.) *)
Lemma mdl_pos off m : 11 <= m -> 1 <= max_data_len off m.
Proof.
  intros Hm. unfold max_data_len.
  assert (Hv : 0 <= vlen off <= 8).
  { unfold vlen. destruct (off <=? maxVarInt1); [lia|]. destruct (off <=? maxVarInt2); [lia|].
    destruct (off <=? maxVarInt4); [lia|]. destruct (off <=? maxVarInt8); lia. }
  destruct (Z.ltb_spec m (1 + vlen off + 1)); [lia|].
  set (x := m - (1 + vlen off + 1)) in *. assert (1 <= x) by lia.
  destruct (Z.eqb_spec (vlen x) 1) as [_|Hn]; [lia|].
  assert (63 < x); [|lia].
  destruct (Z.leb_spec x 63) as [Hle|Hgt]; [|assumption]. exfalso. apply Hn.
  unfold vlen, maxVarInt1. destruct (Z.leb_spec x 63); [reflexivity|lia].
Qed.

Lemma base_pop_progress s m :
  11 <= m ->
  match base_pop s m with
  | Ok (s', Some _) => True
  | Ok (s', None) => s' = s /\ zlen (buf s) <= 0
  | _ => False
  end.
Proof.
  intros Hm. unfold base_pop. pose proof (mdl_pos (wo s) m Hm).
  destruct (Z.leb_spec (Z.min (max_data_len (wo s) m) (zlen (buf s))) 0); [split; [reflexivity|lia]|exact I].
Qed.

Lemma no_wedge W fs s m :
  sinv W fs s -> has_data s = true -> 11 <= m ->
  match pop s m with
  | Ok (s', Some _) => True
  | Ok (s', None) => has_data s' = false
  | _ => False
  end.
Proof.
  intros Hinv Hh Hm. pose proof (pop_inv W fs s m Hinv) as Hpi.
  destruct Hinv as (Htrue & Hwo & Hmode). unfold has_data in Hh.
  destruct s as [b w sc e a0 a1 b0 b1]. cbn [buf wo scr send c0s c0e c1s c1e] in *.
  destruct sc.
  - destruct Hmode as (-> & Hmd). rewrite ?Inv_val in *.
    destruct Hmd as [(-> & -> & -> & ->)|Hmd]; [rewrite ?Inv_val in Hh; cbn in Hh; discriminate|].
    destruct Hmd as (H4 & Hs & Hw & Hle & Hc0 & Hc1 & Hcov). unfold cut_ok in Hc0, Hc1. rewrite ?Inv_val in *.
    unfold pop in *. cbn [buf wo scr send c0s c0e c1s c1e negb] in *.
    destruct (Z.eqb_spec w e) as [Hwe|Hwe].
    + (* phase 2 *)
      subst w. unfold drop_empty0, drop_empty1 in *. cbn [buf wo scr send c0s c0e c1s c1e] in *. rewrite ?Inv_val in *.
      destruct (negb (a0 =? -1) && (a1 <=? a0)) eqn:Ea; cbn [buf wo scr send c0s c0e c1s c1e] in *; rewrite ?Inv_val in *.
      * change (negb (-1 =? -1)) with false in *. cbv iota in *.
        destruct (negb (b0 =? -1) && (b1 <=? b0)) eqn:Eb; cbn [buf wo scr send c0s c0e c1s c1e] in *; rewrite ?Inv_val in *.
        -- change (negb (-1 =? -1)) with false in *. cbv iota in *.
           pose proof (base_pop_progress (finish (mkS W e true e (-1) (-1) (-1) (-1))) m Hm) as Hp.
           destruct (base_pop _ m) as [[s' [f|]]|c|]; try assumption.
           destruct Hp as (-> & Hz). unfold has_data, finish in *. cbn [buf wo scr send c0s c0e c1s c1e andb] in *. lia.
        -- destruct (negb (b0 =? -1)) eqn:Eb2.
           ++ unfold pop_cut in *. cbn [buf wo scr send c0s c0e c1s c1e] in *.
              pose proof (mdl_pos b0 m Hm).
              destruct (Z.leb_spec (Z.min (max_data_len b0 m) (b1 - b0)) 0); [lia|].
              destruct (negb (in_buf W b0 _)); [contradiction|exact I].
           ++ pose proof (base_pop_progress (finish (mkS W e true e (-1) (-1) b0 b1)) m Hm) as Hp.
              destruct (base_pop _ m) as [[s' [f|]]|c|]; try assumption.
              destruct Hp as (-> & Hz). unfold has_data, finish in *. cbn [buf wo scr send c0s c0e c1s c1e andb] in *. lia.
      * destruct (negb (a0 =? -1)) eqn:Ea2.
        -- unfold pop_cut in *. cbn [buf wo scr send c0s c0e c1s c1e] in *.
           pose proof (mdl_pos a0 m Hm).
           destruct (Z.leb_spec (Z.min (max_data_len a0 m) (a1 - a0)) 0); [lia|].
           destruct (negb (in_buf W a0 _)); [contradiction|exact I].
        -- destruct (negb (b0 =? -1) && (b1 <=? b0)) eqn:Eb; cbn [buf wo scr send c0s c0e c1s c1e] in *; rewrite ?Inv_val in *.
           ++ change (negb (-1 =? -1)) with false in *. cbv iota in *.
              pose proof (base_pop_progress (finish (mkS W e true e a0 a1 (-1) (-1))) m Hm) as Hp.
              destruct (base_pop _ m) as [[s' [f|]]|c|]; try assumption.
              destruct Hp as (-> & Hz). unfold has_data, finish in *. cbn [buf wo scr send c0s c0e c1s c1e andb] in *. lia.
           ++ destruct (negb (b0 =? -1)) eqn:Eb2.
              ** unfold pop_cut in *. cbn [buf wo scr send c0s c0e c1s c1e] in *.
                 pose proof (mdl_pos b0 m Hm).
                 destruct (Z.leb_spec (Z.min (max_data_len b0 m) (b1 - b0)) 0); [lia|].
                 destruct (negb (in_buf W b0 _)); [contradiction|exact I].
              ** pose proof (base_pop_progress (finish (mkS W e true e a0 a1 b0 b1)) m Hm) as Hp.
                 destruct (base_pop _ m) as [[s' [f|]]|c|]; try assumption.
                 destruct Hp as (-> & Hz). unfold has_data, finish in *. cbn [buf wo scr send c0s c0e c1s c1e andb] in *. lia.
    + (* phase 1 *)
      rewrite ?Inv_val in *.
      set (sel := if negb (a0 =? -1) && (w <? a0) then (a0, a1)
                  else if negb (b0 =? -1) && (w <? b0) then (b0, b1) else (-1, -1)) in *.
      assert (Hsel : fst sel = -1 \/ w < fst sel).
      { unfold sel. destruct (negb (a0 =? -1) && (w <? a0)) eqn:E1; cbn [fst]; [right; lia|].
        destruct (negb (b0 =? -1) && (w <? b0)) eqn:E2; cbn [fst]; [right; lia|left; reflexivity]. }
      destruct sel as [ns ne]. cbn [fst] in Hsel.
      pose proof (mdl_pos w m Hm).
      destruct (Z.leb_spec (Z.min (max_data_len w m) ((if ns =? -1 then e else ns) - w)) 0) as [Hn|Hn].
      * exfalso. destruct (Z.eqb_spec ns (-1)); lia.
      * destruct (negb (in_buf W w _)); [contradiction|exact I].
  - unfold pop in *. cbn [scr negb] in *.
    pose proof (base_pop_progress (mkS b w false e a0 a1 b0 b1) m Hm) as Hp.
    destruct (base_pop _ m) as [[s' [f|]]|c|]; try assumption.
    destruct Hp as (-> & Hz). cbn [buf andb] in *. lia.
Qed.

(* regression: the two former counterexamples are now handled *)
Lemma ech_without_sni_now_sent :
  exists s W fs, run (init true) [] [] [SWrite ch_ech_no_sni; SPop 1200; SPop 1200] = Ok (s, W, fs)
    /\ has_data (fst (write (init true) ch_ech_no_sni)) = true
    /\ has_data s = false /\ fs = [(0, firstn 48 ch_ech_no_sni); (48, skipn 48 ch_ech_no_sni)].
Proof. do 3 eexists. split; [vm_compute; reflexivity|]. split; [vm_compute; reflexivity|]. split; vm_compute; reflexivity. Qed.

Lemma empty_host_name_now_drains :
  exists s W fs, run (init true) [] [] [SWrite ch_empty_host; SPop 1200; SPop 1200; SWrite [9; 9]; SPop 1200] = Ok (s, W, fs)
    /\ has_data s = false /\ fs = [(0, ch_empty_host); (56, [9; 9])].
Proof. do 3 eexists. split; [vm_compute; reflexivity|]. split; vm_compute; reflexivity. Qed.

Lemma ops_example : Forall op_ok [SWrite ch_ech_no_sni; SPop 1200; SWrite [1; 2]; SPop 3].
Proof.
  repeat constructor; try discriminate; try lia.
Qed.
