(** Round 3: the top-level C09 statement, composed from C09's builder theorems, C02's model of
    the Initial retransmission bookkeeping (UDial.Retx) and C10's model of the first flight
    (UPacker.Model).  Part 1: one packet (UFrames.OnWire.marshal). *)
From Coq Require Import List ZArith Bool Lia Permutation.
From V Require Import Gen.Params Lib.Hex Wire.Varint UFrames.Model UFrames.ProofsBase UFrames.Proofs
  UFrames.ProofsFlight UFrames.ScramModel UFrames.ProofsScram UDial.Retx UDial.ProofsRetx UFrames.OnWire.
Import ListNotations.
Open Scope Z_scope.

(* ---------- ranges ---------- *)
Definition range_in (hello : list Z) (r : range) : Prop := 0 <= fst r /\ 0 <= snd r /\ fst r + snd r <= zlen hello.
Definition range_pos (r : range) : Prop := 0 < snd r.

(* byte b of the stream is in a CRYPTO frame of the packet *)
Definition wcov (ws : list wframe) (b : Z) : Prop :=
  exists o d, In (o, d) (wcryptos ws) /\ o <= b < o + zlen d.

Fixpoint rchain (o : Z) (l : list range) : Prop :=
  match l with [] => True | r :: t => fst r = o /\ rchain (o + snd r) t end.

Lemma contig_from_rchain pos l : contig_from pos l = true <-> rchain pos l.
Proof.
  revert pos; induction l as [|r t IH]; intros pos; simpl; [split; auto|].
  rewrite andb_true_iff, Z.eqb_eq, IH. unfold r_end. split; intros [H1 H2]; subst pos; auto.
Qed.

Lemma insert_r_perm x l : Permutation (insert_r x l) (x :: l).
Proof.
  induction l as [|y r IH]; simpl; [reflexivity|].
  destruct (fst x <=? fst y); [reflexivity|]. etransitivity; [apply perm_skip, IH|apply perm_swap].
Qed.

Lemma sort_r_perm l : Permutation (sort_r l) l.
Proof.
  induction l as [|x r IH]; simpl; [reflexivity|].
  etransitivity; [apply insert_r_perm|apply perm_skip, IH].
Qed.

Lemma total_len_perm a b : Permutation a b -> total_len a = total_len b.
Proof. induction 1; simpl; lia. Qed.

Lemma total_len_app a b : total_len (a ++ b) = total_len a + total_len b.
Proof. induction a as [|x r IH]; simpl; lia. Qed.

Lemma fold_min_perm M a b : Permutation a b ->
  fold_right (fun (r : range) acc => Z.min (fst r) acc) M a = fold_right (fun (r : range) acc => Z.min (fst r) acc) M b.
Proof. induction 1; simpl; lia. Qed.

Lemma covers_perm b a c : Permutation a c -> (covers b a <-> covers b c).
Proof.
  intros P. unfold covers. split; intros (r & Hin & Hr); exists r; split; try assumption;
    [eapply Permutation_in; eassumption|eapply Permutation_in; [apply Permutation_sym; eassumption|assumption]].
Qed.

Lemma rchain_covers l : forall o, rchain o l -> Forall range_pos l ->
  forall b, covers b l <-> o <= b < o + total_len l.
Proof.
  induction l as [|r t IH]; intros o Hc Hp b.
  - unfold covers. simpl. split; [intros (r & [] & _)|lia].
  - destruct Hc as (Ho & Hc). inversion Hp as [|? ? Hr Ht]; subst. unfold range_pos in Hr.
    specialize (IH (fst r + snd r) Hc Ht b). cbn [total_len fold_right]. fold (total_len t).
    assert (Ht0 : 0 <= total_len t).
    { clear -Ht. induction Ht as [|x l Hx _ IHl]; simpl; [lia|]. unfold range_pos in Hx. lia. }
    unfold covers in *. split.
    + intros (x & [<-|Hin] & Hx); [unfold r_end in Hx; lia|].
      assert (fst r + snd r <= b < fst r + snd r + total_len t) by (apply IH; exists x; auto). lia.
    + intros Hb. destruct (Z.lt_ge_cases b (fst r + snd r)).
      * exists r. split; [left; reflexivity|unfold r_end; lia].
      * destruct (proj2 IH ltac:(lia)) as (x & Hin & Hx). exists x. split; [right; assumption|assumption].
Qed.

Lemma rchain_min l : forall o M, rchain o l -> Forall range_pos l -> l <> [] ->
  fold_right (fun (r : range) acc => Z.min (fst r) acc) M l = Z.min o M.
Proof.
  induction l as [|r t IH]; intros o M Hc Hp Hne; [congruence|].
  destruct Hc as (Ho & Hc). inversion Hp as [|? ? Hr Ht]; subst. unfold range_pos in Hr.
  cbn [fold_right]. destruct t as [|r' t']; [simpl; lia|].
  rewrite (IH (fst r + snd r) M Hc Ht ltac:(discriminate)). lia.
Qed.

(* ---------- slices ---------- *)
Lemma take_add {A} a b (l : list A) : 0 <= a -> 0 <= b -> take (a + b) l = take a l ++ take b (drop a l).
Proof.
  intros Ha Hb. unfold take, drop. rewrite Z2Nat.inj_add by lia.
  generalize (Z.to_nat a) as n. generalize (Z.to_nat b) as m. clear.
  intros m n. revert l; induction n as [|n IH]; intros l; [reflexivity|].
  destruct l as [|x l]; simpl; [destruct m; reflexivity|]. f_equal. apply IH.
Qed.

Lemma slice_add hello o a b : 0 <= o -> 0 <= a -> 0 <= b ->
  slice hello o (a + b) = slice hello o a ++ slice hello (o + a) b.
Proof.
  intros Ho Ha Hb. unfold slice. rewrite take_add by assumption. rewrite drop_drop by assumption. reflexivity.
Qed.

Lemma slice_zero hello o : slice hello o 0 = [].
Proof. reflexivity. Qed.

Lemma total_len_nonneg_in hello l : Forall (range_in hello) l -> 0 <= total_len l.
Proof. induction 1 as [|x l (H0 & H1 & H2) _ IH]; simpl; lia. Qed.

Lemma rchain_concat hello l : forall o, rchain o l -> Forall (range_in hello) l -> 0 <= o ->
  concat (map (fun r => slice hello (fst r) (snd r)) l) = slice hello o (total_len l).
Proof.
  induction l as [|r t IH]; intros o Hc Hin Ho; [reflexivity|].
  destruct Hc as (Hr & Hc). inversion Hin as [|? ? (H0 & H1 & H2) Ht]; subst.
  cbn [map concat total_len fold_right]. fold (total_len t).
  rewrite (IH (fst r + snd r) Hc Ht ltac:(lia)).
  rewrite slice_add by (try lia; eapply total_len_nonneg_in; eassumption). reflexivity.
Qed.

Lemma rchain_end_in hello l : forall o, rchain o l -> Forall (range_in hello) l -> l <> [] -> 0 <= o ->
  o + total_len l <= zlen hello.
Proof.
  induction l as [|r t IH]; intros o Hc Hin Hne Ho; [congruence|].
  destruct Hc as (Hr & Hc). inversion Hin as [|? ? (H0 & H1 & H2) Ht]; subst.
  cbn [total_len fold_right]. fold (total_len t).
  destruct t as [|r' t']; [simpl; lia|].
  specialize (IH (fst r + snd r) Hc Ht ltac:(discriminate) ltac:(lia)). lia.
Qed.

(* what "the frames form one range" gives: a chain in stream order *)
Lemma one_range_chain hello frames :
  zlen hello <= maxVarInt8 ->
  one_range frames = true -> Forall (range_in hello) frames -> Forall range_pos frames ->
  let base := min_off frames in let n := total_len frames in
  0 <= base /\ 0 < n /\ base + n <= zlen hello /\
  reassemble hello frames = slice hello base n /\
  (forall b, covers b frames <-> base <= b < base + n) /\
  Forall (fun r => base <= fst r /\ fst r + snd r <= base + n) frames /\
  fold_right (fun (r : range) acc => Z.min (fst r) acc) (2 ^ 64 - 1) frames = base.
Proof.
  intros Hsz H1 Hin Hpos. cbv zeta. unfold one_range in H1. apply andb_prop in H1 as [Htot Hcont].
  apply Z.ltb_lt in Htot. unfold contiguous in Hcont.
  pose proof (sort_r_perm frames) as HP.
  assert (Hin' : Forall (range_in hello) (sort_r frames)) by (eapply Permutation_Forall; [apply Permutation_sym; exact HP|assumption]).
  assert (Hpos' : Forall range_pos (sort_r frames)) by (eapply Permutation_Forall; [apply Permutation_sym; exact HP|assumption]).
  destruct (sort_r frames) as [|r0 t] eqn:ES.
  { apply Permutation_nil in HP. subst. simpl in Htot. lia. }
  assert (Hch : rchain (fst r0) (r0 :: t)) by (split; [reflexivity|apply contig_from_rchain; exact Hcont]).
  assert (Hr0 : range_in hello r0) by (inversion Hin'; assumption).
  assert (Hbase : min_off frames = fst r0).
  { unfold min_off. rewrite <- (fold_min_perm _ _ _ HP).
    rewrite (rchain_min (r0 :: t) (fst r0) _ Hch Hpos' ltac:(discriminate)).
    destruct Hr0 as (H0 & H1' & H2). pose proof (zlen_nonneg hello).
    unfold maxVarInt8 in Hsz.
    destruct (Z.eqb_spec (Z.min (fst r0) (2 ^ 64 - 1)) (2 ^ 64 - 1)); lia. }
  assert (Hn : total_len frames = total_len (r0 :: t)) by (symmetry; apply total_len_perm; exact HP).
  rewrite Hbase, Hn. destruct Hr0 as (H0 & H1' & H2).
  pose proof (rchain_end_in hello (r0 :: t) (fst r0) Hch Hin' ltac:(discriminate) H0) as Hend.
  assert (Hfold : fold_right (fun (r : range) acc => Z.min (fst r) acc) (2 ^ 64 - 1) frames = fst r0).
  { rewrite <- (fold_min_perm _ _ _ HP). rewrite (rchain_min (r0 :: t) (fst r0) _ Hch Hpos' ltac:(discriminate)).
    pose proof (zlen_nonneg hello). unfold maxVarInt8 in Hsz. lia. }
  split; [assumption|]. split; [lia|]. split; [assumption|]. split; [|split; [|split; [|exact Hfold]]].
  - unfold reassemble. rewrite ES. apply rchain_concat; assumption.
  - intros b. rewrite <- (covers_perm b _ _ HP). apply rchain_covers; assumption.
  - rewrite Forall_forall. intros r Hr.
    assert (Hr' : In r (r0 :: t)) by (eapply Permutation_in; [apply Permutation_sym; exact HP|assumption]).
    assert (Hrp : range_pos r) by (rewrite Forall_forall in Hpos'; apply Hpos'; assumption).
    unfold range_pos in Hrp.
    pose proof (proj1 (rchain_covers (r0 :: t) (fst r0) Hch Hpos' (fst r)) ltac:(exists r; split; [assumption|unfold r_end; lia])).
    pose proof (proj1 (rchain_covers (r0 :: t) (fst r0) Hch Hpos' (fst r + snd r - 1)) ltac:(exists r; split; [assumption|unfold r_end; lia])).
    lia.
Qed.

(* ---------- an exact cover of a slice of the hello, read against the hello ---------- *)
Lemma app_inv_len {A} (a b c d : list A) : a ++ b = c ++ d -> length a = length c -> a = c /\ b = d.
Proof.
  revert c; induction a as [|x a IH]; intros [|y c] H Hl; simpl in *; try discriminate; [auto|].
  inversion H; subst. destruct (IH c H2 ltac:(lia)) as [-> ->]. auto.
Qed.

Lemma chained_true hello ps : forall o D,
  chained o ps -> concat (map snd ps) = D -> D = slice hello o (zlen D) -> 0 <= o -> o + zlen D <= zlen hello ->
  Forall (true_frame hello) ps /\
  forall b, (exists p, In p ps /\ fst p <= b < fst p + zlen (snd p)) <-> o <= b < o + zlen D.
Proof.
  induction ps as [|[o' d] r IH]; intros o D Hc Hcat HD Ho Hend.
  - simpl in Hcat. subst D. split; [constructor|]. intros b. unfold zlen. simpl. split; [intros (p & [] & _)|lia].
  - destruct Hc as (-> & Hc). cbn [map concat snd] in Hcat.
    set (D' := concat (map snd r)) in *.
    pose proof (zlen_nonneg d) as Hd0. pose proof (zlen_nonneg D') as HD0.
    assert (HzD : zlen D = zlen d + zlen D') by (rewrite <- Hcat; apply zlen_app).
    rewrite HzD in HD. rewrite slice_add in HD by lia. rewrite <- Hcat in HD.
    apply app_inv_len in HD as [Hd HD'].
    2: { pose proof (zlen_slice hello o (zlen d) Ho Hd0 ltac:(lia)) as E. unfold zlen in E |- *. lia. }
    destruct (IH (o + zlen d) D' Hc eq_refl HD' ltac:(lia) ltac:(lia)) as [IHt IHc].
    split.
    + constructor; [|assumption]. unfold true_frame. cbn [fst snd]. repeat split; try lia. exact Hd.
    + intros b. split.
      * intros (p & [<-|Hin] & Hp); [cbn [fst snd] in Hp; lia|].
        assert (o + zlen d <= b < o + zlen d + zlen D') by (apply IHc; exists p; auto). lia.
      * intros Hb. destruct (Z.lt_ge_cases b (o + zlen d)).
        -- exists (o, d). split; [left; reflexivity|cbn [fst snd]; lia].
        -- destruct (proj2 (IHc b) ltac:(lia)) as (p & Hin & Hp). exists p. split; [right; assumption|assumption].
Qed.

Lemma exact_cover_slice hello base n ws :
  0 <= base -> 0 <= n -> base + n <= zlen hello ->
  exact_cover (slice hello base n) base ws ->
  Forall (true_frame hello) (wcryptos ws) /\ forall b, wcov ws b <-> base <= b < base + n.
Proof.
  intros Hb Hn Hend (ps & HP & Hch & Hcat).
  pose proof (zlen_slice hello base n Hb Hn Hend) as Hz.
  destruct (chained_true hello ps base (slice hello base n) Hch Hcat ltac:(rewrite Hz; reflexivity) Hb ltac:(lia)) as [Ht Hc].
  split.
  - eapply Permutation_Forall; [apply Permutation_sym; exact HP|exact Ht].
  - intros b. rewrite <- Hz. rewrite <- (Hc b). unfold wcov. split.
    + intros (o & d & Hin & Hr). exists (o, d). split; [eapply Permutation_in; eassumption|exact Hr].
    + intros ([o d] & Hin & Hr). exists o, d. split; [eapply Permutation_in; [apply Permutation_sym; exact HP|assumption]|exact Hr].
Qed.

(* ---------- the packets sent as the packer selected them ---------- *)
Lemma wcryptos_as_packed hello frames ping :
  wcryptos (as_packed hello frames ping) = map (fun r => (fst r, slice hello (fst r) (snd r))) frames.
Proof.
  unfold as_packed. destruct ping; simpl; induction frames as [|r t IH]; simpl; try reflexivity; f_equal; assumption.
Qed.

Lemma as_packed_exact hello frames ping :
  Forall (range_in hello) frames ->
  Forall (true_frame hello) (wcryptos (as_packed hello frames ping)) /\
  wpads_ok (as_packed hello frames ping) /\
  forall b, wcov (as_packed hello frames ping) b <-> covers b frames.
Proof.
  intros Hin. split; [|split].
  - rewrite wcryptos_as_packed. rewrite Forall_map. eapply Forall_impl; [|exact Hin].
    intros r (H0 & H1 & H2). apply slice_true; assumption.
  - unfold wpads_ok, as_packed. apply Forall_app. split; [destruct ping; repeat constructor|].
    rewrite Forall_map. apply Forall_forall. intros r _. exact I.
  - intros b. unfold wcov, covers. rewrite wcryptos_as_packed. split.
    + intros (o & d & Hi & Hr). apply in_map_iff in Hi as (r & Heq & Hi). inversion Heq; subst.
      rewrite Forall_forall in Hin. destruct (Hin r Hi) as (H0 & H1 & H2).
      rewrite zlen_slice in Hr by assumption. exists r. split; [assumption|unfold r_end; lia].
    + intros (r & Hi & Hr). rewrite Forall_forall in Hin. destruct (Hin r Hi) as (H0 & H1 & H2).
      exists (fst r), (slice hello (fst r) (snd r)). split.
      * apply in_map_iff. exists r. auto.
      * rewrite zlen_slice by assumption. unfold r_end in Hr. lia.
Qed.

(* ---------- pass-through (nil FrameBuilder / empty QUICFrames) ---------- *)
Lemma lowest_fold_right qfs : forall m,
  fold_left (fun m f => if frame_off f <? m then frame_off f else m) qfs m
  = fold_right (fun f a => Z.min (frame_off f) a) m qfs.
Proof.
  induction qfs as [|f r IH]; intros m; [reflexivity|]. cbn [fold_left fold_right]. rewrite IH.
  assert (E : (if frame_off f <? m then frame_off f else m) = Z.min (frame_off f) m) by (destruct (Z.ltb_spec (frame_off f) m); lia).
  rewrite E. clear. revert m. induction r as [|g r IH]; intros m; simpl; [reflexivity|]. rewrite IH. lia.
Qed.

Lemma fold_min_acc (l : list range) : forall M M',
  fold_right (fun r a => Z.min (fst r) a) (Z.min M M') l = Z.min (fold_right (fun r a => Z.min (fst r) a) M l) M'.
Proof. induction l as [|r t IH]; intros M M'; simpl; [reflexivity|]. rewrite IH. lia. Qed.

Lemma fold_min_map_crypto (l : list range) M :
  fold_right (fun f a => Z.min (frame_off f) a) M (map (fun r => FCrypto (fst r) (snd r)) l)
  = fold_right (fun r a => Z.min (fst r) a) M l.
Proof. induction l as [|r t IH]; simpl; [reflexivity|]. rewrite IH. reflexivity. Qed.

Lemma drop_take_slice hello base n o l :
  0 <= base -> base <= o -> 0 <= l -> o + l <= base + n ->
  take l (drop (o - base) (slice hello base n)) = slice hello o l.
Proof.
  intros Hb Ho Hl Hle. unfold slice, take, drop.
  rewrite skipn_firstn_comm, firstn_firstn, skipn_skipn'.
  replace (Nat.min (Z.to_nat l) (Z.to_nat n - Z.to_nat (o - base))) with (Z.to_nat l) by lia.
  replace (Z.to_nat base + Z.to_nat (o - base))%nat with (Z.to_nat o) by lia. reflexivity.
Qed.

Lemma build_pass hello frames base n :
  frames <> [] -> 0 <= base -> base + n <= zlen hello -> zlen hello <= 65535 ->
  fold_right (fun (r : Z * Z) acc => Z.min (fst r) acc) (2 ^ 64 - 1) frames = base ->
  Forall (fun r => base <= fst r /\ fst r + snd r <= base + n) frames -> Forall range_pos frames ->
  build (slice hello base n) 0 (map (fun r => FCrypto (fst r) (snd r)) frames) = Ok (map (crypto_of hello) frames).
Proof.
  intros Hne Hb Hend Hsz Hfold Hall Hpos. pose proof (zlen_nonneg hello) as Hh0.
  assert (Hn : 0 <= n).
  { destruct frames as [|r t]; [congruence|]. inversion Hall as [|? ? (H1 & H2) _]; subst. inversion Hpos as [|? ? H3 _]; subst.
    unfold range_pos in H3. lia. }
  unfold build.
  destruct (map (fun r => FCrypto (fst r) (snd r)) frames) as [|f0 q0] eqn:Em; [destruct frames; [congruence|discriminate]|].
  rewrite <- Em.
  assert (Hlow : lowest (map (fun r => FCrypto (fst r) (snd r)) frames) = base).
  { unfold lowest. rewrite lowest_fold_right. rewrite fold_min_map_crypto.
    replace 65535 with (Z.min (2 ^ 64 - 1) 65535) by reflexivity. rewrite fold_min_acc, Hfold. lia. }
  rewrite Hlow.
  set (g := fun f => match f with FCrypto o l => WCrypto o (slice hello o l) | _ => WPing end).
  replace (map (crypto_of hello) frames) with (map g (map (fun r => FCrypto (fst r) (snd r)) frames))
    by (rewrite map_map; reflexivity).
  apply map_res_ok. intros a Ha. apply in_map_iff in Ha as (r & <- & Hr).
  rewrite Forall_forall in Hall, Hpos. destruct (Hall r Hr) as (H1 & H2). specialize (Hpos r Hr). unfold range_pos in Hpos.
  cbn [build_one g].
  pose proof (zlen_slice hello base n Hb Hn Hend) as Hz. rewrite Hz.
  destruct (Z.eqb_spec (snd r) 0); [lia|].
  assert (Hw : u64 (u64 (fst r) + 0) = fst r).
  { unfold u64. rewrite Z.add_0_r. rewrite Z.mod_mod by lia. apply Z.mod_small. lia. }
  rewrite Hw. unfold maxVarInt8.
  destruct (Z.ltb_spec 4611686018427387903 (fst r)); [lia|].
  destruct (Z.ltb_spec (snd r) 0); [lia|].
  destruct (Z.ltb_spec 4611686018427387903 (snd r)); [lia|].
  destruct (Z.ltb_spec (fst r - base) 0); [lia|].
  destruct (Z.ltb_spec n (fst r - base)); [lia|]. cbn [orb].
  rewrite zeros_nonpos by (rewrite zlen_drop by (rewrite Hz; lia); rewrite Hz; lia). rewrite app_nil_r.
  rewrite drop_take_slice by lia. reflexivity.
Qed.

(* ---------- one packet ---------- *)
(* what remains assumed of the spec's builder *)
Definition sb_ok (hello : list Z) (sb : sbuilder) : Prop :=
  match sb with
  | SBPass => zlen hello <= 65535   (* QUICFrames.build searches the lowest offset from math.MaxUint16 *)
  | SBFrames qfs => qfs <> [] /\ forall n, 0 < n -> layout_fits (map to_lframe qfs) n = true -> tiles n qfs
  | SBRandom specs => Forall rf_wf specs
  | SBFlight => True
  end.

Definition packet_exact (hello : list Z) (frames : list range) (ws : list wframe) : Prop :=
  Forall (true_frame hello) (wcryptos ws) /\ wpads_ok ws /\ forall b, wcov ws b <-> covers b frames.

Lemma marshal_exact sb hello planned idx frames ping bs us :
  zlen hello <= maxVarInt8 -> sb_ok hello sb -> 0 <= idx ->
  Forall (range_in hello) frames -> (planned || is_flight sb = false -> Forall range_pos frames) ->
  match marshal sb hello planned idx frames ping bs us with
  | Ok (ws, _, _) => packet_exact hello frames ws
  | Err c => exists specs, sb = SBRandom specs
  | Panic => False
  end.
Proof.
  intros Hsz Hsb Hidx Hin Hpos. unfold marshal.
  destruct (marshal_path (planned || is_flight sb) (layout_of sb) frames) eqn:Emp.
  { apply as_packed_exact. assumption. }
  destruct (reframed_only_one_range _ _ _ Emp) as (Hpl & Htot & Hcont & Hfit).
  assert (H1 : one_range frames = true) by (unfold one_range; rewrite Hcont; apply andb_true_intro; split; [apply Z.ltb_lt; assumption|reflexivity]).
  specialize (Hpos Hpl).
  destruct (one_range_chain hello frames Hsz H1 Hin Hpos) as (Hb0 & Hn & Hend & Hre & Hcov & Hall & Hfold).
  rewrite Hre. set (base := min_off frames) in *. set (n := total_len frames) in *.
  pose proof (zlen_slice hello base n Hb0 ltac:(lia) Hend) as Hz.
  assert (Hne : frames <> []) by (intros ->; unfold n in Hn; simpl in Hn; lia).
  destruct sb as [|qfs|specs|]; cbn [is_flight layout_of sb_ok] in *.
  - (* pass-through: the same frames *)
    rewrite (build_pass hello frames base n Hne Hb0 Hend Hsb Hfold Hall Hpos). cbn [bind].
    apply (as_packed_exact hello frames false). assumption.
  - destruct Hsb as (Hq & Htiles).
    assert (Ht : tiles (zlen (slice hello base n)) qfs) by (rewrite Hz; apply Htiles; [lia|apply Hfit; reflexivity]).
    destruct (build_tiling (slice hello base n) base qfs Hb0 ltac:(rewrite Hz; lia) Ht) as (Hbuild & Hcover & Hwp).
    rewrite Hbuild. cbn [bind].
    destruct (exact_cover_slice hello base n _ Hb0 ltac:(lia) Hend Hcover) as (Htrue & Hc).
    split; [assumption|]. split; [assumption|]. intros b. rewrite Hc, Hcov. tauto.
  - pose proof (md_build_exact specs idx (slice hello base n) base bs us Hsb Hidx Hb0 ltac:(rewrite Hz; lia)) as Hmd.
    destruct (md_build specs idx (slice hello base n) base bs us) as [[[ws bs'] us']|c|]; [|exists specs; reflexivity|assumption].
    destruct Hmd as (Hcover & Hwp).
    destruct (exact_cover_slice hello base n _ Hb0 ltac:(lia) Hend Hcover) as (Htrue & Hc).
    split; [assumption|]. split; [assumption|]. intros b. rewrite Hc, Hcov. tauto.
  - rewrite orb_true_r in Hpl. discriminate.
Qed.
