(** Correspondence glue for unit `uflight`: resolve, splitRange, QUICFlightFrames,
    QUICRandomFlightFrames and validateInitialFlight replayed under the logged oracles. *)
From Coq Require Import List ZArith Bool String.
From V Require Import Lib.Hex.
From V Require Export UFrames.Model.
Import ListNotations.
Open Scope Z_scope.

Inductive splitres := SOk (ps : list (Z * Z)) | SErr (c : Z) | SPanic.
Inductive flightres := FOk (payloads : list string) (budgets : list Z) (vcls : Z) | FErr (c : Z) | FPanic.

Inductive case :=
| ResolveCase (off len n : Z) (r : option (Z * Z))
| SplitCase (s e minN maxN : Z) (rnd : string) (r : splitres)
| FFCase (dgs : list (list frame)) (first : bool) (data : string) (r : flightres)
| RFFCase (dgs : list (list (Z * Z) * list Z)) (first : bool) (data : string) (rnd : string) (us : list Z) (r : flightres)
| ValCase (payloads : list string) (budgets : list Z) (n : Z) (cls : Z).

Definition rf_of (l : list Z) : rf :=
  match l with
  | [a; b; c; d; e; f; g] => mkRF a b c d e f g
  | _ => mkRF 0 0 0 0 0 0 0
  end.

Inductive obs :=
| OResolve (r : option (Z * Z))
| OSplit (r : res (list (Z * Z))) (lft : Z)
| OFlight (r : res (list (list Z))) (lft : Z)
| OVal (c : Z).

Definition crypto_pairs (fs : list frame) : list (Z * Z) :=
  flat_map (fun f => match f with FCrypto o l => [(o, l)] | _ => [] end) fs.

Definition model_obs (c : case) : obs :=
  match c with
  | ResolveCase off len n _ => OResolve (match resolve off len n with Ok p => Some p | _ => None end)
  | SplitCase s e mn mx rnd _ =>
    match split_range s e mn mx (hx rnd) with
    | Ok (fs, bs) => OSplit (Ok (crypto_pairs fs)) (zlen bs)
    | Err c => OSplit (Err c) 0
    | Panic => OSplit Panic 0
    end
  | FFCase dgs first d _ =>
    match flight_frames dgs first (hx d) with
    | Ok ws => OFlight (Ok (map encode ws)) 0
    | Err c => OFlight (Err c) 0
    | Panic => OFlight Panic 0
    end
  | RFFCase dgs first d rnd us _ =>
    match rff_build (map (fun '(rs, p) => (rs, rf_of p)) dgs) first (hx d) (hx rnd) us with
    | Ok (ws, bs, _) => OFlight (Ok (map encode ws)) (zlen bs)
    | Err c => OFlight (Err c) 0
    | Panic => OFlight Panic 0
    end
  | ValCase ps bud n _ => OVal (validate (map hx ps) bud n)
  end.

Definition pair_eqb (a b : Z * Z) : bool := (fst a =? fst b) && (snd a =? snd b).
Fixpoint list_eqb {A} (eqb : A -> A -> bool) (a b : list A) : bool :=
  match a, b with
  | [], [] => true
  | x :: a', y :: b' => eqb x y && list_eqb eqb a' b'
  | _, _ => false
  end.

Definition flight_agree (m : res (list (list Z))) (lft : Z) (dlen : Z) (r : flightres) : bool :=
  match m, r with
  | Ok ps, FOk ss bud v => list_eqb zeqb_list ps (map hx ss) && (lft =? 0) && (validate ps bud dlen =? v)
  | Err c, FErr c' => c =? c'
  | Panic, FPanic => true
  | _, _ => false
  end.

Definition check_case (c : case) : bool :=
  match c, model_obs c with
  | ResolveCase _ _ _ r, OResolve m =>
    match r, m with
    | Some a, Some b => pair_eqb a b
    | None, None => true
    | _, _ => false
    end
  | SplitCase _ _ _ _ _ r, OSplit m lft =>
    match m, r with
    | Ok ps, SOk ps' => list_eqb pair_eqb ps ps' && (lft =? 0)
    | Err c, SErr c' => c =? c'
    | Panic, SPanic => true
    | _, _ => false
    end
  | FFCase _ _ d r, OFlight m lft => flight_agree m lft (zlen (hx d)) r
  | RFFCase _ _ d _ _ r, OFlight m lft => flight_agree m lft (zlen (hx d)) r
  | ValCase _ _ _ cls, OVal c' => cls =? c'
  | _, _ => false
  end.
