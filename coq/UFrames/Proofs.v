(** Proofs about the frame builders of u_quic_frames.go: a layout that tiles its slice is
    serialised into CRYPTO frames that partition [base, base+|data|) with the true bytes
    (QUICFrames.build), and QUICRandomFrames.buildInternal always produces such a layout. *)
From Coq Require Import List ZArith Bool Lia Permutation.
From V Require Import Gen.Params Lib.Hex Wire.Varint UFrames.Model UFrames.ProofsBase.
Import ListNotations.
Open Scope Z_scope.

(* ---------- the property, on wire frames ---------- *)
Definition wcryptos (ws : list wframe) : list (Z * list Z) :=
  flat_map (fun w => match w with WCrypto o d => [(o, d)] | _ => [] end) ws.

(* consecutive ranges starting at o *)
Fixpoint chained (o : Z) (ps : list (Z * list Z)) : Prop :=
  match ps with
  | [] => True
  | (o', d) :: r => o' = o /\ chained (o + zlen d) r
  end.

(* the CRYPTO frames of ws, in some order, are consecutive ranges from base whose bytes
   concatenate to data: they partition [base, base+|data|) and carry the true bytes *)
Definition exact_cover (data : list Z) (base : Z) (ws : list wframe) : Prop :=
  exists ps, Permutation (wcryptos ws) ps /\ chained base ps /\ concat (map snd ps) = data.

Definition wpads_ok (ws : list wframe) : Prop :=
  Forall (fun w => match w with WPad k => 0 <= k | _ => True end) ws.

(* ---------- layouts that tile their slice ---------- *)
Definition cpairs (fs : list frame) : list (Z * Z) :=
  flat_map (fun f => match f with FCrypto o l => [(o, l)] | _ => [] end) fs.

Definition eff_len (n o l : Z) : Z := if l =? 0 then n - o else l. (* Length = 0 => the rest *)

Fixpoint tchain (s n : Z) (ps : list (Z * Z)) : Prop :=
  match ps with
  | [] => s = n
  | (o, l) :: r => o = s /\ 0 <= l /\ s + eff_len n o l <= n /\ tchain (s + eff_len n o l) n r
  end.

Definition pads_ok (fs : list frame) : Prop :=
  Forall (fun f => match f with FPad k => 0 <= k | _ => True end) fs.

Definition tiles (n : Z) (fs : list frame) : Prop :=
  fs <> [] /\ pads_ok fs /\ exists order, Permutation (cpairs fs) order /\ tchain 0 n order.

Definition good (n : Z) (p : Z * Z) : Prop :=
  let '(o, l) := p in 0 <= o /\ 0 <= l /\ 0 <= eff_len n o l /\ o + eff_len n o l <= n.

Lemma tchain_good s n ps : 0 <= s <= n -> tchain s n ps -> Forall (good n) ps.
Proof.
  revert s; induction ps as [|[o l] r IH]; intros s Hs H; [constructor|].
  destruct H as (-> & Hl & Hle & Hr). constructor.
  - unfold good, eff_len in *. destruct (l =? 0) eqn:E; lia.
  - apply (IH (s + eff_len n s l)); [|assumption]. unfold eff_len in *. destruct (l =? 0); lia.
Qed.

(* what build emits for a frame of a tiling layout *)
Definition wire (data : list Z) (base : Z) (f : frame) : wframe :=
  match f with
  | FPing => WPing
  | FPad k => WPad k
  | FCrypto o l => WCrypto (o + base) (take (eff_len (zlen data) o l) (drop o data))
  end.

Lemma build_one_wire data base f :
  0 <= base -> base + zlen data <= maxVarInt8 ->
  match f with FPad k => 0 <= k | FCrypto o l => good (zlen data) (o, l) | _ => True end ->
  build_one data base 0 f = Ok (wire data base f).
Proof.
  intros Hb Hmax Hf. destruct f as [|k|o l]; simpl; [reflexivity| |].
  - destruct (Z.ltb_spec k 0); [lia|reflexivity].
  - destruct Hf as (Ho & Hl & He & Hle). unfold eff_len in *. rewrite Z.sub_0_r.
    set (len := if l =? 0 then zlen data - o else l) in *.
    assert (Hm : maxVarInt8 < 2 ^ 64) by (unfold maxVarInt8; lia).
    assert (Hw : u64 (u64 o + base) = o + base).
    { unfold u64. rewrite (Z.mod_small o) by lia. apply Z.mod_small. lia. }
    rewrite Hw.
    destruct (Z.ltb_spec maxVarInt8 (o + base)); [lia|].
    destruct (Z.ltb_spec len 0); [lia|].
    destruct (Z.ltb_spec maxVarInt8 len); [lia|].
    destruct (Z.ltb_spec o 0); [lia|].
    destruct (Z.ltb_spec (zlen data) o); [lia|]. simpl.
    rewrite zeros_nonpos by (rewrite zlen_drop by lia; lia). rewrite app_nil_r. reflexivity.
Qed.

Lemma lowest_fold_zero fs m :
  0 <= m -> Forall (fun f => 0 <= frame_off f) fs -> (m = 0 \/ Exists (fun f => frame_off f = 0) fs) ->
  fold_left (fun m f => if frame_off f <? m then frame_off f else m) fs m = 0.
Proof.
  revert m; induction fs as [|f fs IH]; intros m Hm Hall Hex; simpl.
  - destruct Hex as [->|Hex]; [reflexivity|inversion Hex].
  - inversion Hall; subst. apply IH; [destruct (Z.ltb_spec (frame_off f) m); lia|assumption|].
    destruct Hex as [->|Hex].
    + left. destruct (Z.ltb_spec (frame_off f) 0); lia.
    + inversion Hex; subst.
      * left. destruct (Z.ltb_spec (frame_off f) m); lia.
      * right. assumption.
Qed.

Lemma in_cpairs fs o l : In (FCrypto o l) fs <-> In (o, l) (cpairs fs).
Proof.
  unfold cpairs. rewrite in_flat_map. split.
  - intros H. exists (FCrypto o l). split; [assumption|left; reflexivity].
  - intros (f & Hin & Hf). destruct f; simpl in Hf; try contradiction.
    destruct Hf as [Hf|[]]. inversion Hf; subst. assumption.
Qed.

Definition wpair (data : list Z) (base : Z) (p : Z * Z) : Z * list Z :=
  (fst p + base, take (eff_len (zlen data) (fst p) (snd p)) (drop (fst p) data)).

Lemma wcryptos_wire data base fs :
  wcryptos (map (wire data base) fs) = map (wpair data base) (cpairs fs).
Proof.
  induction fs as [|f fs IH]; [reflexivity|]. destruct f; simpl; try assumption. f_equal. assumption.
Qed.

Lemma tchain_cover data base s ps :
  0 <= s <= zlen data -> tchain s (zlen data) ps ->
  chained (s + base) (map (wpair data base) ps) /\ concat (map snd (map (wpair data base) ps)) = drop s data.
Proof.
  revert s; induction ps as [|[o l] r IH]; intros s Hs H.
  - simpl in H. subst s. split; [exact I|]. symmetry. apply drop_all.
  - destruct H as (-> & Hl & Hle & Hr).
    set (e := eff_len (zlen data) s l) in *.
    assert (He : 0 <= e) by (unfold e, eff_len; destruct (l =? 0); lia).
    destruct (IH (s + e)) as [Hc Hcat]; [lia|assumption|].
    cbn [map wpair fst snd chained concat]. fold e. split.
    + split; [reflexivity|]. rewrite zlen_take by (rewrite zlen_drop by lia; lia).
      replace (s + base + e) with (s + e + base) by lia. exact Hc.
    + rewrite Hcat. rewrite <- (drop_drop s e) by lia. apply take_drop_split.
Qed.

Lemma wpads_wire data base fs : pads_ok fs -> wpads_ok (map (wire data base) fs).
Proof.
  unfold pads_ok, wpads_ok. intros H. rewrite Forall_map. eapply Forall_impl; [|exact H].
  intros [| |]; simpl; auto.
Qed.

(** QUICFrames.build on a layout that tiles its slice *)
Lemma build_tiling data base qfs :
  0 <= base -> base + zlen data <= maxVarInt8 -> tiles (zlen data) qfs ->
  build data base qfs = Ok (map (wire data base) qfs)
  /\ exact_cover data base (map (wire data base) qfs)
  /\ wpads_ok (map (wire data base) qfs).
Proof.
  intros Hb Hmax (Hne & Hpads & order & Hperm & Hchain).
  pose proof (zlen_nonneg data) as Hn.
  assert (Hgood : Forall (good (zlen data)) order) by (eapply tchain_good; [|eassumption]; lia).
  assert (Hgoodf : forall o l, In (FCrypto o l) qfs -> good (zlen data) (o, l)).
  { intros o l Hin. rewrite Forall_forall in Hgood. apply Hgood.
    eapply Permutation_in; [exact Hperm|]. apply in_cpairs. assumption. }
  assert (Hlow : lowest qfs = 0).
  { unfold lowest. apply lowest_fold_zero; [lia| |right].
    - rewrite Forall_forall. intros [|k|o l] Hin; simpl; try lia. apply Hgoodf in Hin. unfold good in Hin. lia.
    - destruct order as [|[o l] r].
      + apply Permutation_sym, Permutation_nil in Hperm.
        destruct qfs as [|f fs]; [congruence|]. constructor.
        destruct f; simpl; try reflexivity. simpl in Hperm. discriminate.
      + destruct Hchain as (-> & _). rewrite Exists_exists. exists (FCrypto 0 l). split; [|reflexivity].
        apply in_cpairs. eapply Permutation_in; [apply Permutation_sym; exact Hperm|]. left. reflexivity. }
  split; [|split].
  - unfold build. destruct qfs as [|f fs]; [congruence|]. rewrite Hlow. apply map_res_ok.
    intros a Hin. apply build_one_wire; try assumption.
    destruct a as [|k|o l]; [exact I| |].
    + unfold pads_ok in Hpads. rewrite Forall_forall in Hpads. apply (Hpads _ Hin).
    + apply Hgoodf. assumption.
  - exists (map (wpair data base) order). rewrite wcryptos_wire. split; [apply Permutation_map; assumption|].
    destruct (tchain_cover data base 0 order) as [Hc Hcat]; [lia|assumption|].
    simpl in Hc. split; [exact Hc|]. rewrite Hcat. apply drop_0.
  - apply wpads_wire. assumption.
Qed.

(* ---------- QUICRandomFrames.buildInternal ---------- *)
Fixpoint pchain (s : Z) (fs : list frame) (e : Z) : Prop :=
  match fs with
  | [] => s = e
  | FCrypto o l :: r => o = s /\ 1 <= l /\ pchain (s + l) r e
  | _ => False
  end.

Lemma pchain_le s fs e : pchain s fs e -> s <= e.
Proof.
  revert s; induction fs as [|f r IH]; intros s H; simpl in H; [lia|].
  destruct f; try contradiction. destruct H as (_ & Hl & H). apply IH in H. lia.
Qed.

Lemma pchain_snoc s fs m l : pchain s fs m -> 1 <= l -> pchain s (fs ++ [FCrypto m l]) (m + l).
Proof.
  revert s; induction fs as [|f r IH]; intros s H Hl; simpl in *.
  - subst. auto.
  - destruct f; try contradiction. destruct H as (-> & Hl' & H). auto.
Qed.

Lemma pchain_pads_ok s fs e : pchain s fs e -> pads_ok fs.
Proof.
  revert s; induction fs as [|f r IH]; intros s H; [constructor|].
  destruct f as [| |o l]; simpl in H; try contradiction.
  destruct H as (_ & _ & H). constructor; [exact I|]. eapply IH. exact H.
Qed.

Lemma cpairs_app a b : cpairs (a ++ b) = cpairs a ++ cpairs b.
Proof. unfold cpairs. apply flat_map_app. Qed.

Lemma cpairs_pings k : cpairs (repeat FPing k) = [].
Proof. induction k; simpl; auto. Qed.

Lemma pchain_tchain s fs e n :
  pchain s fs e -> 0 <= s -> e <= n -> tchain s n (cpairs fs ++ [(e, 0)]).
Proof.
  revert s; induction fs as [|f r IH]; intros s H Hs He; simpl in H.
  - subst. simpl. unfold eff_len. simpl. lia.
  - destruct f as [| |o l]; try contradiction. destruct H as (-> & Hl & H).
    pose proof (pchain_le _ _ _ H). simpl. unfold eff_len. destruct (Z.eqb_spec l 0); [lia|].
    repeat split; try lia. apply IH; [assumption|lia|assumption].
Qed.

Definition rf_wf (p : rf) : Prop :=
  0 <= minPing p /\ maxPing p < 2 ^ 32 /\ 0 <= minCrypto p /\ maxCrypto p < 2 ^ 32 /\
  0 <= minPad p /\ maxPad p < 2 ^ 32 /\ rfLen p < 2 ^ 32.

Lemma u64_small x : 0 <= x < 2 ^ 64 -> u64 x = x.
Proof. intros H. unfold u64. apply Z.mod_small. assumption. Qed.

Lemma crypto_loop_spec k : forall i num lenC off bs acc,
  (Z.of_nat k = num - i - 1 \/ k = 0%nat) ->
  (Z.of_nat k + 1 <= lenC \/ (k = 0%nat /\ 0 <= lenC)) -> 0 <= off -> off + lenC < 2 ^ 62 ->
  match crypto_loop k i num lenC off bs acc with
  | Ok (fs, off', _) => exists cfs, fs = acc ++ cfs /\ pchain off cfs off' /\ off' <= off + lenC /\ length cfs = k
  | Err c => c = 6
  | Panic => False
  end.
Proof.
  induction k as [|k IH]; intros i num lenC off bs acc Hk Hlen Hoff Hsum.
  - simpl. exists []. rewrite app_nil_r. simpl. repeat split; lia.
  - destruct Hk as [Hk|Hk]; [|discriminate]. destruct Hlen as [Hlen|[Hlen _]]; [|discriminate].
    cbn [crypto_loop].
    assert (E1 : u64 (num - i - 2) = Z.of_nat k) by (rewrite u64_small; lia).
    rewrite E1. rewrite (u64_small (lenC - Z.of_nat k)) by lia.
    pose proof (safe_rand_spec 1 (lenC - Z.of_nat k) bs ltac:(lia) ltac:(lia)) as Hr.
    destruct (safe_rand 1 (lenC - Z.of_nat k) bs) as [[l bs']|c|]; cbn [bind]; [|assumption|assumption].
    destruct Hr as [[Hr _]|[_ Hr]]; [lia|].
    rewrite (u64_small (lenC - l)) by lia. rewrite (u64_small (off + l)) by lia.
    specialize (IH (i + 1) num (lenC - l) (off + l) bs' (acc ++ [FCrypto off l])
                   ltac:(left; lia) ltac:(left; lia) ltac:(lia) ltac:(lia)).
    destruct (crypto_loop k (i + 1) num (lenC - l) (off + l) bs' (acc ++ [FCrypto off l])) as [[[fs off'] bs'']|c|];
      [|assumption|assumption].
    destruct IH as (cfs & -> & Hc & Hle & Hlen'). exists (FCrypto off l :: cfs).
    rewrite <- app_assoc. simpl. repeat split; try lia; try assumption.
Qed.

Definition only_pads (fs : list frame) : Prop :=
  Forall (fun f => match f with FPad k => 0 <= k | _ => False end) fs.

Lemma pad_loop_spec k : forall i num lenP bs acc,
  Z.of_nat k = num - i - 1 -> Z.of_nat k + 1 <= lenP -> lenP < 2 ^ 62 ->
  match pad_loop k i num lenP bs acc with
  | Ok (fs, _) => exists pads, fs = acc ++ pads /\ only_pads pads
  | Err c => c = 6
  | Panic => False
  end.
Proof.
  induction k as [|k IH]; intros i num lenP bs acc Hk Hlen Hsum.
  - simpl. exists [FPad lenP]. split; [reflexivity|]. repeat constructor. lia.
  - cbn [pad_loop].
    assert (E1 : u64 (num - i - 2) = Z.of_nat k) by (rewrite u64_small; lia).
    rewrite E1. rewrite (u64_small (lenP - Z.of_nat k)) by lia.
    pose proof (safe_rand_spec 1 (lenP - Z.of_nat k) bs ltac:(lia) ltac:(lia)) as Hr.
    destruct (safe_rand 1 (lenP - Z.of_nat k) bs) as [[l bs']|c|]; cbn [bind]; [|assumption|assumption].
    destruct Hr as [[Hr _]|[_ Hr]]; [lia|].
    rewrite (u64_small (lenP - l)) by lia.
    specialize (IH (i + 1) num (lenP - l) bs' (acc ++ [FPad l]) ltac:(lia) ltac:(lia) ltac:(lia)).
    destruct (pad_loop k (i + 1) num (lenP - l) bs' (acc ++ [FPad l])) as [[fs bs'']|c|]; [|assumption|assumption].
    destruct IH as (pads & -> & Hp). exists (FPad l :: pads). rewrite <- app_assoc. split; [reflexivity|].
    constructor; [lia|assumption].
Qed.

Lemma padding_spec p lenPad bs fl :
  0 <= minPad p -> maxPad p < 2 ^ 32 -> lenPad < 2 ^ 62 ->
  match padding p lenPad bs fl with
  | Ok (fs, _) => exists pads, fs = fl ++ pads /\ only_pads pads
  | Err c => c = 6
  | Panic => False
  end.
Proof.
  intros Hmin Hmax Hlen. unfold padding. destruct (Z.ltb_spec 0 lenPad) as [Hpos|Hneg].
  - pose proof (safe_rand_spec (minPad p) (maxPad p) bs Hmin ltac:(lia)) as Hr.
    destruct (safe_rand (minPad p) (maxPad p) bs) as [[np0 bs1]|c|]; cbn [bind]; [|assumption|assumption].
    apply pad_loop_spec; lia.
  - exists []. rewrite app_nil_r. split; [reflexivity|constructor].
Qed.

Lemma tiles_app_pads n fl pads : tiles n fl -> only_pads pads -> tiles n (fl ++ pads).
Proof.
  intros (Hne & Hp & order & Hperm & Hc) Hpads. split; [|split].
  - destruct fl; [congruence|discriminate].
  - unfold pads_ok in *. apply Forall_app. split; [assumption|].
    eapply Forall_impl; [|exact Hpads]. intros [| |]; simpl; tauto.
  - exists order. split; [|assumption]. rewrite cpairs_app.
    assert (E : cpairs pads = []).
    { clear -Hpads. induction pads as [|f r IH]; [reflexivity|]. inversion Hpads; subst.
      destruct f; try contradiction. simpl. apply IH. assumption. }
    rewrite E, app_nil_r. assumption.
Qed.

Lemma tiles_perm n a b : Permutation a b -> tiles n b -> tiles n a.
Proof.
  intros Hab (Hne & Hp & order & Hperm & Hc). split; [|split].
  - intros ->. apply Permutation_nil in Hab. congruence.
  - unfold pads_ok in *. eapply Permutation_Forall; [apply Permutation_sym; exact Hab|assumption].
  - exists order. split; [|assumption]. etransitivity; [|exact Hperm].
    unfold cpairs. apply Permutation_flat_map. assumption.
Qed.

Lemma rf_frames_spec p data bs :
  rf_wf p -> zlen data < 2 ^ 62 ->
  match rf_frames p data bs with
  | Ok (fl, _) => tiles (zlen data) fl
  | Err c => c = 6
  | Panic => False
  end.
Proof.
  intros (H1 & H2 & H3 & H4 & H5 & H6 & H7) Hn. unfold rf_frames.
  pose proof (zlen_nonneg data) as Hn0.
  pose proof (safe_rand_spec (minPing p) (maxPing p) bs H1 ltac:(lia)) as Hr1.
  destruct (safe_rand (minPing p) (maxPing p) bs) as [[np bs1]|c|]; cbn [bind]; [|assumption|assumption].
  pose proof (safe_rand_spec (minCrypto p) (maxCrypto p) bs1 H3 ltac:(lia)) as Hr2.
  destruct (safe_rand (minCrypto p) (maxCrypto p) bs1) as [[nc0 bs2]|c|]; cbn [bind]; [|assumption|assumption].
  set (nc := Z.min (Z.max nc0 1) (zlen data)).
  pose proof (crypto_loop_spec (Z.to_nat (nc - 1)) 0 nc (zlen data) 0 bs2 []) as Hl.
  assert (Hnc : nc <= zlen data) by (unfold nc; lia).
  destruct (Z.eq_dec (zlen data) 0) as [Hz|Hz].
  - assert (Z.to_nat (nc - 1) = 0%nat) by lia.
    specialize (Hl ltac:(right; assumption) ltac:(right; lia) ltac:(lia) ltac:(lia)).
    destruct (crypto_loop _ 0 nc (zlen data) 0 bs2 []) as [[[cfs off] bs3]|c|]; cbn [bind]; [|assumption|assumption].
    destruct Hl as (cfs' & -> & Hc & Hle & _). simpl. split; [|split].
    + destruct (repeat FPing (Z.to_nat np)); [destruct cfs'|]; discriminate.
    + unfold pads_ok. apply Forall_app. split; [apply Forall_forall; intros x Hx; apply repeat_spec in Hx; subst; exact I|].
      apply Forall_app. split; [|repeat constructor].
      eapply pchain_pads_ok; eassumption.
    + exists (cpairs cfs' ++ [(off, 0)]). split.
      * rewrite !cpairs_app, cpairs_pings. reflexivity.
      * apply pchain_tchain; [assumption|lia|lia].
  - assert (1 <= nc) by (unfold nc; lia).
    specialize (Hl ltac:(left; lia) ltac:(left; lia) ltac:(lia) ltac:(lia)).
    destruct (crypto_loop _ 0 nc (zlen data) 0 bs2 []) as [[[cfs off] bs3]|c|]; cbn [bind]; [|assumption|assumption].
    destruct Hl as (cfs' & -> & Hc & Hle & _). simpl. split; [|split].
    + destruct (repeat FPing (Z.to_nat np)); [destruct cfs'|]; discriminate.
    + unfold pads_ok. apply Forall_app. split; [apply Forall_forall; intros x Hx; apply repeat_spec in Hx; subst; exact I|].
      apply Forall_app. split; [|repeat constructor].
      eapply pchain_pads_ok; eassumption.
    + exists (cpairs cfs' ++ [(off, 0)]). split.
      * rewrite !cpairs_app, cpairs_pings. reflexivity.
      * apply pchain_tchain; [assumption|lia|lia].
Qed.

(** QUICRandomFrames.buildInternal: for every parameterisation, ClientHello slice, base offset
    and every value of both oracles, the result is an error of a known class or a payload whose
    CRYPTO frames partition [base, base+|data|) with the true bytes. It never panics. *)
Lemma build_internal_exact p data base bs us :
  rf_wf p -> 0 <= base -> base + zlen data <= maxVarInt8 ->
  match build_internal p data base bs us with
  | Ok (ws, _, _) => exact_cover data base ws /\ wpads_ok ws
  | Err c => check_bounds p = Err c \/ (check_bounds p = Ok tt /\ (c = 6 \/ c = 90))
  | Panic => False
  end.
Proof.
  intros Hwf Hb Hmax. unfold build_internal.
  pose proof (zlen_nonneg data) as Hn0.
  assert (Hm : maxVarInt8 < 2 ^ 62) by (unfold maxVarInt8; lia).
  destruct (check_bounds p) as [[]|c|] eqn:Ecb; cbn [bind].
  2: { left. reflexivity. }
  2: { unfold check_bounds in Ecb. repeat (destruct (_ : bool) in Ecb; try discriminate). }
  pose proof (rf_frames_spec p data bs Hwf ltac:(lia)) as Hf.
  destruct (rf_frames p data bs) as [[fl bs3]|c|]; cbn [bind]; [|right; split; [reflexivity|left; assumption]|assumption].
  destruct (build_tiling data base fl Hb Hmax Hf) as (Hdry & _ & _).
  rewrite Hdry. cbn [bind].
  destruct Hwf as (H1 & H2 & H3 & H4 & H5 & H6 & H7).
  pose proof (padding_spec p (rfLen p - zlen (encode (map (wire data base) fl))) bs3 fl H5 H6) as Hp.
  specialize (Hp ltac:(pose proof (zlen_nonneg (encode (map (wire data base) fl))); lia)).
  destruct (padding p _ bs3 fl) as [[fl2 bs4]|c|]; cbn [bind]; [|right; split; [reflexivity|left; assumption]|assumption].
  destruct Hp as (pads & -> & Hpads).
  pose proof (shuffle_outcome (fl ++ pads) us) as Hs.
  destruct (shuffle (fl ++ pads) us) as [[fl3 us']|c|]; cbn [bind]; [|right; split; [reflexivity|right; assumption]|assumption].
  assert (Ht : tiles (zlen data) fl3) by (eapply tiles_perm; [exact Hs|apply tiles_app_pads; assumption]).
  destruct (build_tiling data base fl3 Hb Hmax Ht) as (Hbuild & Hcover & Hwp).
  rewrite Hbuild. cbn [bind]. split; assumption.
Qed.

(** QUICMultiDatagramFrames.BuildForDatagram: the same, whichever per-datagram spec is selected *)
Lemma md_build_exact specs idx data base bs us :
  Forall rf_wf specs -> 0 <= idx -> 0 <= base -> base + zlen data <= maxVarInt8 ->
  match md_build specs idx data base bs us with
  | Ok (ws, _, _) => exact_cover data base ws /\ wpads_ok ws
  | Err c => (specs = [] /\ c = 7) \/ specs <> []
  | Panic => False
  end.
Proof.
  intros Hwf Hidx Hb Hmax. unfold md_build. destruct specs as [|s0 r]; [left; auto|].
  set (i := if zlen (s0 :: r) <=? idx then zlen (s0 :: r) - 1 else idx).
  assert (Hi : 0 <= i < zlen (s0 :: r)).
  { unfold i. pose proof (zlen_nonneg r). destruct (Z.leb_spec (zlen (s0 :: r)) idx); unfold zlen in *; simpl length in *; lia. }
  destruct (Z.ltb_spec i 0); [lia|].
  assert (Hp : rf_wf (nth (Z.to_nat i) (s0 :: r) s0)).
  { rewrite Forall_forall in Hwf. apply Hwf. apply nth_In. unfold zlen in Hi. lia. }
  pose proof (build_internal_exact _ data base bs us Hp Hb Hmax) as H'.
  destruct (build_internal _ data base bs us) as [[[ws bs'] us']|c|]; [assumption|right; discriminate|assumption].
Qed.

(* ---------- witnesses ---------- *)
(* a layout that does not tile its slice: zero-extended ClientHello, or a Go panic *)
Lemma build_nontiling_zero_extends :
  build [10; 20; 30] 0 [FCrypto 0 5] = Ok [WCrypto 0 [10; 20; 30; 0; 0]].
Proof. reflexivity. Qed.

Lemma build_nontiling_panics : build [10; 20; 30] 0 [FCrypto 0 1; FCrypto 5 0] = Panic.
Proof. reflexivity. Qed.

Lemma tiles_example : tiles 3 [FCrypto 1 0; FPing; FPad 2; FCrypto 0 1].
Proof.
  split; [discriminate|]. split; [repeat constructor; lia|].
  exists [(0, 1); (1, 0)]. split; [apply perm_swap|]. simpl. unfold eff_len. simpl. lia.
Qed.

Lemma rf_wf_example : rf_wf (mkRF 0 3 1 4 1 3 1200).
Proof. unfold rf_wf. simpl. lia. Qed.

(** QUICMultiDatagramFrames.BuildForDatagram: which error. Either the spec list is empty (class 7),
    or it is the error of the entry selected for the datagram: the class of its failed bounds
    check, or — bounds fine — the randomness source's failure. *)
Lemma md_build_error_class specs idx data base bs us c :
  Forall rf_wf specs -> 0 <= idx -> 0 <= base -> base + zlen data <= maxVarInt8 ->
  md_build specs idx data base bs us = Err c ->
  (specs = [] /\ c = 7) \/
  exists p, In p specs /\ (check_bounds p = Err c \/ (check_bounds p = Ok tt /\ (c = 6 \/ c = 90))).
Proof.
  intros Hwf Hidx Hb Hmax H. unfold md_build in H. destruct specs as [|s0 r]; [left; inversion H; auto|right].
  set (i := if zlen (s0 :: r) <=? idx then zlen (s0 :: r) - 1 else idx) in *.
  assert (Hi : 0 <= i < zlen (s0 :: r)).
  { unfold i. pose proof (zlen_nonneg r). destruct (Z.leb_spec (zlen (s0 :: r)) idx); unfold zlen in *; simpl length in *; lia. }
  destruct (Z.ltb_spec i 0); [lia|].
  assert (Hin : In (nth (Z.to_nat i) (s0 :: r) s0) (s0 :: r)) by (apply nth_In; unfold zlen in Hi; lia).
  exists (nth (Z.to_nat i) (s0 :: r) s0). split; [assumption|].
  rewrite Forall_forall in Hwf.
  pose proof (build_internal_exact _ data base bs us (Hwf _ Hin) Hb Hmax) as Hex. rewrite H in Hex. exact Hex.
Qed.
