(** Proofs about u_flight_frames.go: resolve is total and in bounds, splitRange partitions
    its range, buildAbsolute only ever emits true bytes at their absolute offsets. *)
From Coq Require Import List ZArith Bool Lia Permutation.
From V Require Import Gen.Params Lib.Hex Wire.Varint UFrames.Model UFrames.ProofsBase UFrames.Proofs.
Import ListNotations.
Open Scope Z_scope.

(** QUICCryptoRange.resolve: for all integers, an error or concrete bounds inside the stream,
    and the bounds are the documented ones (negative = from the end, Length 0 = to the end). *)
Lemma resolve_total off len n :
  0 <= n ->
  match resolve off len n with
  | Ok (s, e) => 0 <= s <= e /\ e <= n
                 /\ s = (if off <? 0 then n + off else off)
                 /\ e = (if 0 <? len then s + len else n + len)
  | Err c => (c = 9 \/ c = 10)
             /\ let s := if off <? 0 then n + off else off in
                let e := if 0 <? len then s + len else n + len in
                ~ (0 <= s <= e /\ e <= n)
  | Panic => False
  end.
Proof.
  intros Hn. unfold resolve.
  set (s := if off <? 0 then n + off else off).
  destruct (Z.ltb_spec s 0); simpl; [split; [auto|lia]|].
  destruct (Z.ltb_spec n s); simpl; [split; [auto|lia]|].
  set (e := if 0 <? len then s + len else n + len).
  destruct (Z.ltb_spec n e); simpl; [split; [auto|lia]|].
  destruct (Z.ltb_spec e s); simpl; [split; [auto|lia]|].
  repeat split; lia.
Qed.

(* ---------- splitRange ---------- *)
Lemma split_loop_spec k : forall i n off e bs acc,
  Z.of_nat k = n - i - 1 -> Z.of_nat k + 1 <= e - off -> 0 <= off -> e < 2 ^ 62 ->
  match split_loop k i n off e bs acc with
  | Ok (fs, _) => exists cfs, fs = acc ++ cfs /\ pchain off cfs e /\ length cfs = S k
  | Err c => c = 6
  | Panic => False
  end.
Proof.
  induction k as [|k IH]; intros i n off e bs acc Hk Hlen Hoff He.
  - simpl. exists [FCrypto off (e - off)]. simpl. repeat split; lia.
  - cbn [split_loop].
    replace (e - off - (n - i - 1) + 1) with (e - off - Z.of_nat k) by lia.
    rewrite (u64_small (e - off - Z.of_nat k)) by lia.
    pose proof (safe_rand_spec 1 (e - off - Z.of_nat k) bs ltac:(lia) ltac:(lia)) as Hr.
    destruct (safe_rand 1 (e - off - Z.of_nat k) bs) as [[l bs']|c|]; cbn [bind]; [|assumption|assumption].
    destruct Hr as [[Hr _]|[_ Hr]]; [lia|].
    specialize (IH (i + 1) n (off + l) e bs' (acc ++ [FCrypto off l]) ltac:(lia) ltac:(lia) ltac:(lia) He).
    destruct (split_loop k (i + 1) n (off + l) e bs' (acc ++ [FCrypto off l])) as [[fs bs'']|c|]; [|assumption|assumption].
    destruct IH as (cfs & -> & Hc & Hl). exists (FCrypto off l :: cfs). rewrite <- app_assoc. simpl.
    repeat split; try lia; try assumption.
Qed.

(** splitRange: for every non-empty range, all bounds and all draws: an error of crypto/rand or
    consecutive CRYPTO frames, each at least one byte, from start to end; their number is
    the drawn count clamped to [1, end-start]. *)
Lemma split_range_partition s e minN maxN bs :
  0 <= s < e -> e < 2 ^ 62 -> 0 <= minN -> maxN < 2 ^ 32 ->
  match split_range s e minN maxN bs with
  | Ok (fs, _) => pchain s fs e
                  /\ 1 <= zlen fs <= e - s
                  /\ Z.min (Z.max minN 1) (e - s) <= zlen fs <= Z.max (Z.max minN (maxN - 1)) 1
  | Err c => c = 6
  | Panic => False
  end.
Proof.
  intros Hs He Hmin Hmax. unfold split_range.
  pose proof (safe_rand_spec minN maxN bs Hmin ltac:(lia)) as Hr.
  destruct (safe_rand minN maxN bs) as [[n0 bs1]|c|]; cbn [bind]; [|assumption|assumption].
  rewrite (u64_small (e - s)) by lia.
  set (n := Z.min (Z.max n0 1) (e - s)).
  pose proof (split_loop_spec (Z.to_nat (n - 1)) 0 n s e bs1 [] ltac:(unfold n; lia) ltac:(unfold n; lia) ltac:(lia) He) as Hl.
  destruct (split_loop (Z.to_nat (n - 1)) 0 n s e bs1 []) as [[fs bs2]|c|]; [|assumption|assumption].
  destruct Hl as (cfs & -> & Hc & Hlen). simpl. split; [assumption|].
  unfold zlen. rewrite Hlen. unfold n. lia.
Qed.

(* ---------- buildAbsolute ---------- *)
(* a CRYPTO frame that carries the stream's own bytes at its offset *)
Definition true_frame (full : list Z) (p : Z * list Z) : Prop :=
  0 <= fst p /\ fst p + zlen (snd p) <= zlen full /\ snd p = take (zlen (snd p)) (drop (fst p) full).

Lemma take_take_len {A} n (l : list A) : 0 <= n <= zlen l -> take (zlen (take n l)) l = take n l.
Proof. intros H. rewrite zlen_take by assumption. reflexivity. Qed.

Lemma abs_one_true full f w :
  abs_one full f = Ok w -> match w with WCrypto o d => true_frame full (o, d) | WPad k => 0 <= k | WPing => True end.
Proof.
  destruct f as [|k|off len]; simpl; intros H.
  - inversion H; subst. exact I.
  - destruct (Z.ltb_spec k 0); [discriminate|]. inversion H; subst. assumption.
  - pose proof (resolve_total off len (zlen full) (zlen_nonneg full)) as Hr.
    destruct (resolve off len (zlen full)) as [[s e]|c|]; cbn [bind] in H; try discriminate.
    inversion H; subst. destruct Hr as (Hs & He & _). unfold true_frame. cbn [fst snd].
    assert (Hl : zlen (take (e - s) (drop s full)) = e - s) by (apply zlen_take; rewrite zlen_drop by lia; lia).
    rewrite Hl. repeat split; lia.
Qed.

Lemma map_res_forall {A B} (f : A -> res B) (P : B -> Prop) l bs :
  (forall a b, f a = Ok b -> P b) -> map_res f l = Ok bs -> Forall P bs.
Proof.
  intros Hf. revert bs; induction l as [|a l IH]; intros bs H; simpl in H.
  - inversion H; subst. constructor.
  - apply bind_ok in H as (b & Hb & H). apply bind_ok in H as (bs' & Hbs & H). inversion H; subst.
    constructor; [eapply Hf; eassumption|apply IH; assumption].
Qed.

(** buildAbsolute (hence QUICFlightFrames and QUICRandomFlightFrames, whatever their ranges,
    parameters and draws): every emitted CRYPTO frame lies inside the stream and carries the
    stream's bytes at its absolute offset; PADDING lengths are non-negative. *)
Lemma build_abs_true full qfs ws :
  build_abs full qfs = Ok ws -> Forall (true_frame full) (wcryptos ws) /\ wpads_ok ws.
Proof.
  intros H. unfold build_abs in H.
  apply (map_res_forall _ (fun w => match w with WCrypto o d => true_frame full (o, d) | WPad k => 0 <= k | WPing => True end)) in H;
    [|intros a b; apply abs_one_true].
  split.
  - unfold wcryptos. rewrite Forall_forall. intros p Hp. apply in_flat_map in Hp as (w & Hw & Hp).
    rewrite Forall_forall in H. specialize (H w Hw). destruct w; simpl in Hp; try contradiction.
    destruct Hp as [<-|[]]. assumption.
  - unfold wpads_ok. eapply Forall_impl; [|exact H]. intros [| |]; auto.
Qed.

Lemma flight_frames_true dgs first full wss :
  flight_frames dgs first full = Ok wss -> Forall (fun ws => Forall (true_frame full) (wcryptos ws) /\ wpads_ok ws) wss.
Proof.
  unfold flight_frames. destruct dgs as [|d0 r]; [discriminate|]. destruct first.
  - intros H. apply bind_ok in H as (w & Hw & H). inversion H; subst. constructor; [|constructor].
    eapply build_abs_true; eassumption.
  - apply map_res_forall. intros a b. apply build_abs_true.
Qed.

Lemma rfd_build_true d full bs us ws bs' us' :
  rfd_build d full bs us = Ok (ws, bs', us') -> Forall (true_frame full) (wcryptos ws) /\ wpads_ok ws.
Proof.
  destruct d as [rs p]. unfold rfd_build. intros H.
  apply bind_ok in H as (_ & _ & H). apply bind_ok in H as ([fl0 bs1] & _ & H).
  destruct fl0 as [|f0 fl0]; [discriminate|].
  apply bind_ok in H as ([np bs2] & _ & H). apply bind_ok in H as (dry & _ & H).
  apply bind_ok in H as ([fl2 bs3] & _ & H). apply bind_ok in H as ([fl3 us1] & _ & H).
  apply bind_ok in H as (ws' & Hb & H). inversion H; subst. eapply build_abs_true; eassumption.
Qed.

Lemma rff_loop_true dgs : forall full bs us wss bs' us',
  rff_loop dgs full bs us = Ok (wss, bs', us') -> Forall (fun ws => Forall (true_frame full) (wcryptos ws) /\ wpads_ok ws) wss.
Proof.
  induction dgs as [|d r IH]; intros full bs us wss bs' us' H; simpl in H.
  - inversion H; subst. constructor.
  - apply bind_ok in H as ([[w bs1] us1] & Hd & H). apply bind_ok in H as ([[ws bs2] us2] & Hr & H).
    inversion H; subst. constructor; [eapply rfd_build_true; eassumption|eapply IH; eassumption].
Qed.

Lemma rff_build_true dgs first full bs us wss bs' us' :
  rff_build dgs first full bs us = Ok (wss, bs', us') -> Forall (fun ws => Forall (true_frame full) (wcryptos ws) /\ wpads_ok ws) wss.
Proof.
  unfold rff_build. destruct dgs as [|d0 r]; [discriminate|]. destruct first.
  - intros H. apply bind_ok in H as ([[w bs1] us1] & Hd & H). inversion H; subst.
    constructor; [eapply rfd_build_true; eassumption|constructor].
  - apply rff_loop_true.
Qed.
