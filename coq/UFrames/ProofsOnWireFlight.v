(** Round 3, part 2: the whole first flight (UPacker.Model.flight, C10) and every history of
    losses, acknowledgements and retransmissions (UDial.Retx, C02), packet by packet through
    UFrames.OnWire.marshal.  Lemmas about the other units' definitions that were missing there
    (the popped frames of a flight form a chain; the retransmission bookkeeping only ever holds
    sub-ranges of the ClientHello) are proved here. *)
From Coq Require Import List ZArith Bool Lia Permutation.
From V Require Import Gen.Params Lib.Hex Wire.Varint UFrames.Model UFrames.ProofsBase UFrames.Proofs
  UFrames.ProofsFlight UFrames.ProofsValidate UFrames.ScramModel UFrames.ProofsScram UDial.Retx UDial.ProofsRetx UFrames.OnWire UFrames.ProofsOnWire
  UPacker.Model UPacker.ProofsFlight.
Import ListNotations.
Open Scope Z_scope.

(* ---------- the first flight of a per-datagram builder (UPacker.Model.flightLoop) ---------- *)
Definition dg_frames (d : dgres) : list range :=
  match d with DG _ _ _ fs _ _ _ _ _ => fs | DGErr _ => [] end.

Lemma rchain_app a : forall o b, rchain o a -> rchain (o + total_len a) b -> rchain o (a ++ b).
Proof.
  induction a as [|r t IH]; intros o b Ha Hb; simpl in *; [rewrite Z.add_0_r in Hb; exact Hb|].
  destruct Ha as (Hr & Ha). split; [assumption|]. apply IH; [assumption|].
  replace (o + snd r + total_len t) with (o + (snd r + total_len t)) by lia. exact Hb.
Qed.

Lemma popLoop_chain fuel : forall off rem m fs off' rem',
  popLoop fuel off rem m = (fs, off', rem') -> 0 <= rem ->
  rchain off fs /\ Forall range_pos fs /\ off' = off + total_len fs /\ rem' = rem - total_len fs /\ 0 <= rem'.
Proof.
  induction fuel as [|f IH]; intros off rem m fs off' rem' H Hrem; cbn [popLoop] in H.
  - inversion H; subst. simpl. repeat split; try lia; constructor.
  - destruct (rem <=? 0); [inversion H; subst; simpl; repeat split; try lia; constructor|].
    set (n := Z.min (maxDataLen off m) rem) in *.
    destruct (Z.leb_spec n 0); [inversion H; subst; simpl; repeat split; try lia; constructor|].
    destruct (popLoop f (off + n) (rem - n) (m - cframeLen off n)) as [[fs1 o1] r1] eqn:E.
    inversion H; subst. destruct (IH _ _ _ _ _ _ E ltac:(unfold n in *; lia)) as (Hc & Hp & Ho & Hr & Hr0).
    cbn [rchain total_len fold_right fst snd]. fold (total_len fs1).
    repeat split; try lia; try assumption. constructor; [unfold range_pos; simpl; lia|assumption].
Qed.

Lemma flightLoop_chain fuel : forall c plens i idx off rem,
  0 <= rem ->
  let fs := concat (map dg_frames (flightLoop fuel c plens i idx off rem)) in
  rchain off fs /\ Forall range_pos fs /\ total_len fs <= rem.
Proof.
  induction fuel as [|f IH]; intros c plens i idx off rem Hrem; cbn [flightLoop].
  - destruct (rem <=? 0); simpl; repeat split; try lia; constructor.
  - destruct (popLoop 4 off rem _) as [[frames off'] rem'] eqn:EP.
    destruct (popLoop_chain _ _ _ _ _ _ _ EP Hrem) as (Hc & Hp & Ho & Hr & Hr0).
    destruct frames as [|fr frs] eqn:EF; [simpl; repeat split; try lia; constructor|]. rewrite <- EF in *.
    match goal with |- context [if ?b then _ else _] => destruct b end.
    { simpl. repeat split; try lia; constructor. }
    match goal with |- context [appendInitial ?p ?h ?l ?pl ?u] => destruct (appendInitial p h l pl u) end.
    { simpl. repeat split; try lia; constructor. }
    cbn [map concat dg_frames].
    specialize (IH c (tl plens) (i + 1) (idx + 1) off' rem' Hr0). cbv zeta in IH. destruct IH as (Hc2 & Hp2 & Ht2).
    subst off'. split; [apply rchain_app; assumption|]. split; [apply Forall_app; split; assumption|].
    rewrite total_len_app. lia.
Qed.

(* every datagram of the flight has room for at least one CRYPTO byte (what C10's validated
   budgets provide: the header plus a minimal CRYPTO frame fits the packet's maximum) *)
Definition room (c : cfg) : Prop :=
  forall i idx off, 0 <= off ->
    1 <= maxDataLen off (initialBudget (hdrOf c i) off (c_maxSize c) (planFor (c_plans c) idx) (c_bk c) idx - hdrOf c i).

Definition no_dgerr (dgs : list dgres) : Prop := Forall (fun d => match d with DGErr _ => False | _ => True end) dgs.

(** The flight drains the stream: when no datagram fails and every datagram has room for one
    CRYPTO byte, the frames popped over the whole flight add up to everything queued — however
    many datagrams that takes (the fuel of C10's loop, helloLen + 1, never runs out). *)
Lemma flightLoop_drains fuel : forall c plens i idx off rem,
  0 <= off -> 0 <= rem -> rem < Z.of_nat fuel -> room c ->
  no_dgerr (flightLoop fuel c plens i idx off rem) ->
  total_len (concat (map dg_frames (flightLoop fuel c plens i idx off rem))) = rem.
Proof.
  induction fuel as [|f IH]; intros c plens i idx off rem Hoff Hrem Hfuel Hroom Hok; [simpl in Hfuel; lia|].
  cbn [flightLoop] in *.
  set (m := initialBudget (hdrOf c i) off (c_maxSize c) (planFor (c_plans c) idx) (c_bk c) idx - hdrOf c i) in *.
  destruct (popLoop 4 off rem m) as [[frames off'] rem'] eqn:EP.
  destruct (popLoop_chain _ _ _ _ _ _ _ EP Hrem) as (Hc & Hp & Ho & Hr & Hr0).
  destruct frames as [|fr frs].
  - (* nothing popped: the stream is empty, since there was room *)
    simpl. change 4%nat with (S 3) in EP. rewrite UPacker.ProofsFlight.popLoop_S in EP.
    destruct (Z.leb_spec rem 0); [lia|].
    pose proof (Hroom i idx off Hoff) as Hm. fold m in Hm. cbv zeta in EP.
    destruct (Z.leb_spec (Z.min (maxDataLen off m) rem) 0); [lia|].
    destruct (popLoop 3 _ _ _) as [[? ?] ?]. discriminate.
  - assert (Hpos : 0 < total_len (fr :: frs)).
    { inversion Hp as [|? ? Hfr Hfrs]; subst. unfold range_pos in Hfr. cbn [total_len fold_right]. fold (total_len frs).
      assert (0 <= total_len frs) by (clear -Hfrs; induction Hfrs as [|x l Hx _ IHl]; simpl; [lia|unfold range_pos in Hx; lia]). lia. }
    match type of Hok with context [if ?b then _ else _] => destruct b end.
    { inversion Hok as [|? ? Hd _]; contradiction. }
    match type of Hok with context [appendInitial ?p ?h ?l ?pl ?u] => destruct (appendInitial p h l pl u) end.
    { inversion Hok as [|? ? Hd _]; contradiction. }
    inversion Hok as [|? ? _ Hok']; subst.
    cbn [map concat dg_frames]. rewrite total_len_app.
    rewrite (IH c (tl plens) (i + 1) (idx + 1) (off + total_len (fr :: frs)) (rem - total_len (fr :: frs))); try assumption; lia.
Qed.

Lemma rchain_in N l : forall o, rchain o l -> Forall range_pos l -> 0 <= o -> o + total_len l <= N ->
  Forall (fun r => 0 <= fst r /\ 0 <= snd r /\ fst r + snd r <= N) l.
Proof.
  induction l as [|r t IH]; intros o Hc Hp Ho Hend; [constructor|].
  destruct Hc as (Hr & Hc). inversion Hp as [|? ? Hpr Hpt]; subst. unfold range_pos in Hpr.
  cbn [total_len fold_right] in Hend. fold (total_len t) in Hend.
  assert (0 <= total_len t) by (clear -Hpt; induction Hpt as [|x l Hx _ IHl]; simpl; [lia|unfold range_pos in Hx; lia]).
  constructor; [lia|]. apply (IH (fst r + snd r)); try assumption; lia.
Qed.

(** The first flight of every per-datagram builder kind: the frames the packer pops for the
    datagrams form, in order, a chain of non-empty ranges from offset 0 inside the ClientHello;
    every datagram's payload — whatever the datagram index and both oracles — carries true
    bytes at absolute offsets and covers exactly what was popped for it, or the random builder
    fails (bounds / oracle); nothing panics.  Hence the CRYPTO frames of the flight partition
    [0, E) with E = the bytes popped, and E = |hello| exactly when the flight drained the stream. *)
Lemma first_flight_on_wire sb hello c plens :
  zlen hello <= maxVarInt8 -> sb_ok hello sb -> c_bk c <> BFlight ->
  let fss := map dg_frames (flight c (zlen hello) plens) in
  let E := total_len (concat fss) in
  rchain 0 (concat fss) /\ Forall range_pos (concat fss) /\ Forall (range_in hello) (concat fss) /\ E <= zlen hello /\
  (no_dgerr (flight c (zlen hello) plens) -> room c -> E = zlen hello) /\
  (forall b, covers b (concat fss) <-> 0 <= b < E) /\
  (forall fs idx bs us, In fs fss -> 0 <= idx ->
     match marshal sb hello false idx fs false bs us with
     | Ok (ws, _, _) => packet_exact hello fs ws
     | Err _ => exists specs, sb = SBRandom specs
     | Panic => False
     end).
Proof.
  intros Hsz Hsb Hbk. cbv zeta. pose proof (zlen_nonneg hello) as Hh0.
  assert (Efl : flight c (zlen hello) plens = flightLoop (flightFuel (zlen hello)) c plens 0 0 0 (zlen hello))
    by (unfold flight; destruct (c_bk c); try reflexivity; congruence).
  rewrite Efl.
  destruct (flightLoop_chain (flightFuel (zlen hello)) c plens 0 0 0 (zlen hello) Hh0) as (Hc & Hp & Ht).
  set (fss := map dg_frames (flightLoop (flightFuel (zlen hello)) c plens 0 0 0 (zlen hello))) in *.
  assert (Hin : Forall (range_in hello) (concat fss)) by (apply (rchain_in (zlen hello) _ 0); try assumption; lia).
  split; [assumption|]. split; [assumption|]. split; [assumption|]. split; [assumption|].
  split.
  { intros Hok Hroom. unfold fss.
    apply flightLoop_drains; try assumption; try lia. unfold flightFuel. lia. }
  split; [intros b; rewrite (rchain_covers _ 0 Hc Hp b); lia|].
  intros fs idx bs us Hfs Hidx.
  assert (Hsub : forall r, In r fs -> In r (concat fss)) by (intros r Hr; apply in_concat; exists fs; auto).
  apply marshal_exact; try assumption.
  - rewrite Forall_forall in *. intros r Hr. apply Hin, Hsub, Hr.
  - intros _. rewrite Forall_forall in *. intros r Hr. apply Hp, Hsub, Hr.
Qed.

(* ---------- retransmissions: the bookkeeping only ever holds sub-ranges of the hello ---------- *)
Definition rok (hello : list Z) (pos : bool) (r : range) : Prop := range_in hello r /\ (pos = true -> range_pos r).

Lemma pop_check_rok hello pos popped : forall q q',
  pop_check q popped = Some q' -> Forall (rok hello pos) q ->
  Forall (rok hello pos) popped /\ Forall (rok hello pos) q'.
Proof.
  induction popped as [|p ps IH]; intros q q' H Hq; cbn [pop_check] in H.
  - inversion H; subst. split; [constructor|assumption].
  - destruct q as [|h t]; [discriminate|]. inversion Hq as [|? ? Hh Ht]; subst.
    destruct ((fst p =? fst h) && (snd p =? snd h)) eqn:E1.
    + apply andb_prop in E1 as [Ea Eb]. apply Z.eqb_eq in Ea, Eb.
      destruct (IH _ _ H Ht) as [Hps Hq']. split; [|assumption]. constructor; [|assumption].
      destruct p as [po pl], h as [ho hl]. cbn [fst snd] in *. subst. exact Hh.
    + destruct ((fst p =? fst h) && (0 <? snd p) && (snd p <? snd h)) eqn:E2; [|discriminate].
      destruct ps; [|discriminate]. inversion H; subst.
      apply andb_prop in E2 as [E2 Ec]. apply andb_prop in E2 as [Ea Eb].
      apply Z.eqb_eq in Ea. apply Z.ltb_lt in Eb, Ec.
      destruct Hh as ((H0 & H1 & H2) & Hpos). split.
      * constructor; [|constructor]. split; [unfold range_in; lia|intros _; unfold range_pos; lia].
      * constructor; [|assumption]. split; [unfold range_in; cbn [fst snd]; lia|intros _; unfold range_pos; cbn [fst snd]; lia].
Qed.

Definition st_rok (hello : list Z) (pos : bool) (st : rstate) : Prop := Forall (rok hello pos) (all_ranges st).

Lemma take_pkt_rok hello pos pn out fs out' :
  take_pkt pn out = Some (fs, out') -> Forall (rok hello pos) (flat_map snd out) ->
  Forall (rok hello pos) fs /\ Forall (rok hello pos) (flat_map snd out').
Proof.
  intros H Ho. pose proof (take_pkt_ranges _ _ _ _ H) as Hr. rewrite Forall_forall in Ho.
  split; apply Forall_forall; intros r Hi; apply Ho, Hr; auto.
Qed.

Lemma rstep_rok hello pos planned layout st o st' res :
  rstep planned layout st o = Some (st', res) -> st_rok hello pos st ->
  st_rok hello pos st' /\ match res with RPkt _ popped => Forall (rok hello pos) popped | _ => True end.
Proof.
  unfold st_rok, all_ranges. intros H Hst.
  apply Forall_app in Hst as [Ho Hst]. apply Forall_app in Hst as [Hq Ha].
  (* robust against new kinds of ops in UDial.Retx: every op either takes a packet out of the
     outstanding set (loss, acknowledgement) or pops ranges off the queue (packing calls) *)
  assert (Hfin : forall out q a r,
            Forall (rok hello pos) (flat_map snd out) -> Forall (rok hello pos) q -> Forall (rok hello pos) a ->
            match r with RPkt _ popped => Forall (rok hello pos) popped | _ => True end ->
            Forall (rok hello pos) (flat_map snd (rOut (RS out q a)) ++ rQueue (RS out q a) ++ rAcked (RS out q a)) /\
            match r with RPkt _ popped => Forall (rok hello pos) popped | _ => True end).
  { intros out q a r H1 H2 H3 H4. cbn [rOut rQueue rAcked]. split; [|exact H4].
    repeat (apply Forall_app; split); assumption. }
  assert (Hsnoc : forall pn fs, Forall (rok hello pos) fs -> Forall (rok hello pos) (flat_map snd (rOut st ++ [(pn, fs)]))).
  { intros pn fs Hfs. rewrite flat_map_app. cbn [flat_map snd]. rewrite app_nil_r. apply Forall_app. split; assumption. }
  destruct o; cbn [rstep] in H.
  all: try (match type of H with
            | context [take_pkt ?pn ?out] =>
              destruct (take_pkt pn out) as [[fs out']|] eqn:E; inversion H; subst;
              [destruct (take_pkt_rok _ _ _ _ _ _ E Ho) as [Hf Ho']|];
              apply (Hfin _ _ _ RNone); try assumption; try exact I; try (apply Forall_app; split; assumption)
            end).
  all: match type of H with
       | context [pop_check ?q ?popped] =>
         destruct (pop_check q popped) as [q'|] eqn:E; [|discriminate];
         destruct (pop_check_rok hello pos _ _ _ E Hq) as [Hp Hq'];
         destruct popped;
         repeat match type of H with context [if ?b then _ else _] => destruct b end;
         inversion H; subst; first [apply (Hfin _ _ _ RNone) | eapply (Hfin _ _ _ (RPkt 0 _))];
         try assumption; try exact I; try (apply Hsnoc); try assumption; try constructor
       end.
Qed.

Lemma rrun_rok hello pos planned layout ops : forall st st' rs,
  rrun planned layout st ops = Some (st', rs) -> st_rok hello pos st ->
  st_rok hello pos st' /\ forall pn popped, In (RPkt pn popped) rs -> Forall (rok hello pos) popped.
Proof.
  unfold rrun. induction ops as [|o r IH]; intros st st' rs H Hst; cbn in H.
  - inversion H; subst. split; [assumption|intros ? ? []].
  - destruct (rstep planned layout st o) as [[st1 res]|] eqn:E; [|discriminate].
    destruct (rstep_rok hello pos _ _ _ _ _ _ E Hst) as [Hst1 Hres].
    rewrite (rstep_never_errors _ _ _ _ _ _ E) in H.
    destruct (rrun_with (rstep planned layout) st1 r) as [[st2 rs2]|] eqn:E2; [|discriminate].
    inversion H; subst. destruct (IH _ _ _ E2 Hst1) as [Hst2 Hrs]. split; [assumption|].
    intros pn popped [Heq|Hin]; [subst res; exact Hres|eapply Hrs; eassumption].
Qed.

(** Every history of losses, acknowledgements and packing calls after the first flight: every
    packet the history produces carries — whatever the datagram index and both oracles — true
    bytes at absolute offsets covering exactly the ranges it took from the retransmission queue
    (re-framed by the spec's builder when they form one range its layout fits, else as packed),
    or the random builder fails; nothing panics.  [pos]: the flight's registered ranges are all
    non-empty (always so unless a flight builder planned empty CRYPTO frames, and then
    [planned] holds and every packet is sent as packed). *)
Lemma retx_on_wire sb hello planned flight0 ops st' rs :
  zlen hello <= maxVarInt8 -> sb_ok hello sb ->
  Forall (rok hello (negb (planned || is_flight sb))) (flat_map snd flight0) ->
  rrun planned (layout_of sb) (RS flight0 [] []) ops = Some (st', rs) ->
  forall pn popped, In (RPkt pn popped) rs ->
  forall idx ping bs us, 0 <= idx ->
    match marshal sb hello planned idx popped ping bs us with
    | Ok (ws, _, _) => packet_exact hello popped ws
    | Err _ => exists specs, sb = SBRandom specs
    | Panic => False
    end.
Proof.
  intros Hsz Hsb Hfl Hrun pn popped Hin idx ping bs us Hidx.
  assert (Hst : st_rok hello (negb (planned || is_flight sb)) (RS flight0 [] [])).
  { unfold st_rok, all_ranges. cbn [rOut rQueue rAcked]. rewrite !app_nil_r. exact Hfl. }
  destruct (rrun_rok _ _ _ _ _ _ _ _ Hrun Hst) as [_ Hrs]. specialize (Hrs pn popped Hin).
  apply marshal_exact; try assumption.
  - eapply Forall_impl; [|exact Hrs]. intros r [Hr _]. exact Hr.
  - intros Hpl. eapply Forall_impl; [|exact Hrs]. intros r [_ Hr]. apply Hr. rewrite Hpl. reflexivity.
Qed.

(* ---------- configuration errors are dial-time errors ---------- *)
Lemma check_all_forall specs : check_all specs = Ok tt -> Forall (fun p => check_bounds p = Ok tt) specs.
Proof.
  induction specs as [|p r IH]; intros H; [constructor|]. cbn [check_all] in H.
  destruct (check_bounds p) as [[]|c|] eqn:E; cbn [bind] in H; try discriminate. constructor; auto.
Qed.

(** After UTransport.dial accepted a randomizing builder ([dial_check], the repair
    fixes/C09-validate-random-frames-at-dial.patch), no datagram of the flight can fail with a
    configuration error any more: the only error left is the randomness source's own failure. *)
Lemma accepted_builder_only_oracle_errors specs idx data base bs us c :
  dial_check (SBRandom specs) = Ok tt -> Forall rf_wf specs -> 0 <= idx -> 0 <= base -> base + zlen data <= maxVarInt8 ->
  md_build specs idx data base bs us = Err c -> c = 6 \/ c = 90.
Proof.
  intros Hd Hwf Hidx Hb Hmax H. unfold dial_check in Hd. destruct specs as [|s0 r]; [discriminate|].
  apply check_all_forall in Hd. unfold md_build in H.
  set (i := if zlen (s0 :: r) <=? idx then zlen (s0 :: r) - 1 else idx) in *.
  assert (Hi : 0 <= i < zlen (s0 :: r)).
  { unfold i. pose proof (zlen_nonneg r). destruct (Z.leb_spec (zlen (s0 :: r)) idx); unfold zlen in *; simpl length in *; lia. }
  destruct (Z.ltb_spec i 0); [lia|].
  assert (Hin : In (nth (Z.to_nat i) (s0 :: r) s0) (s0 :: r)) by (apply nth_In; unfold zlen in Hi; lia).
  rewrite Forall_forall in Hwf, Hd.
  pose proof (build_internal_exact _ data base bs us (Hwf _ Hin) Hb Hmax) as Hex.
  rewrite H in Hex. rewrite (Hd _ Hin) in Hex. destruct Hex as [Hex|[_ Hex]]; [discriminate|assumption].
Qed.

(** C09_flight_on_wire_complete: see coq/Props/C09.v for the reading guide. *)
Lemma flight_on_wire_complete sb hello :
  zlen hello <= maxVarInt8 -> sb_ok hello sb ->
  (* I. first flight of a per-datagram builder *)
  (forall c plens, c_bk c <> BFlight ->
     let fss := map dg_frames (flight c (zlen hello) plens) in
     let E := total_len (concat fss) in
     rchain 0 (concat fss) /\ Forall range_pos (concat fss) /\ Forall (range_in hello) (concat fss) /\ E <= zlen hello /\
     (no_dgerr (flight c (zlen hello) plens) -> room c -> E = zlen hello) /\
     (forall b, covers b (concat fss) <-> 0 <= b < E) /\
     (forall fs idx bs us, In fs fss -> 0 <= idx ->
        match marshal sb hello false idx fs false bs us with
        | Ok (ws, _, _) => packet_exact hello fs ws
        | Err c => exists specs, sb = SBRandom specs /\ (dial_check sb = Ok tt -> c = 6 \/ c = 90)
        | Panic => False
        end)) /\
  (* II. first flight planned by a flight builder and accepted by validateInitialFlight *)
  (zlen hello <= 2 ^ 48 -> forall budgets wss,
     ((exists dgs first, flight_frames dgs first hello = Ok wss) \/
      (exists dgs first bs us bs' us', rff_build dgs first hello bs us = Ok (wss, bs', us'))) ->
     validate (map encode wss) budgets (zlen hello) = 0 ->
     (forall j, 0 <= j < zlen hello ->
        exists ws o d, In ws wss /\ In (o, d) (wcryptos ws) /\ o <= j < o + zlen d /\ true_frame hello (o, d)) /\
     Forall (fun ws => Forall (true_frame hello) (wcryptos ws) /\ wpads_ok ws) wss /\
     Forall (rok hello false) (flat_map wpairs wss)) /\
  (* III. every history of losses, acknowledgements and packing calls afterwards *)
  (forall planned flight0 n ops st' rs,
     Forall (rok hello (negb (planned || is_flight sb))) (flat_map snd flight0) ->
     (forall b, 0 <= b < n -> covers b (flat_map snd flight0)) ->
     rrun planned (layout_of sb) (RS flight0 [] []) ops = Some (st', rs) ->
     (forall b, 0 <= b < n -> covers b (all_ranges st')) /\
     (forall pn popped, In (RPkt pn popped) rs -> forall idx ping bs us, 0 <= idx ->
        match marshal sb hello planned idx popped ping bs us with
        | Ok (ws, _, _) => packet_exact hello popped ws
        | Err c => exists specs, sb = SBRandom specs /\ (dial_check sb = Ok tt -> c = 6 \/ c = 90)
        | Panic => False
        end)).
Proof.
  intros Hsz Hsb.
  (* the error refinement shared by I and III *)
  assert (Herr : forall planned idx frames ping bs us,
            0 <= idx -> Forall (range_in hello) frames -> (planned || is_flight sb = false -> Forall range_pos frames) ->
            match marshal sb hello planned idx frames ping bs us with
            | Ok (ws, _, _) => packet_exact hello frames ws
            | Err c => exists specs, sb = SBRandom specs /\ (dial_check sb = Ok tt -> c = 6 \/ c = 90)
            | Panic => False
            end).
  { intros planned idx frames ping bs us Hidx Hin Hpos.
    pose proof (marshal_exact sb hello planned idx frames ping bs us Hsz Hsb Hidx Hin Hpos) as Hm.
    destruct (marshal sb hello planned idx frames ping bs us) as [[[ws b1] u1]|c|] eqn:Em; try assumption.
    destruct Hm as (specs & ->). exists specs. split; [reflexivity|]. intros Hd.
    unfold marshal in Em. cbn [is_flight layout_of] in Em. rewrite orb_false_r in Em.
    destruct (marshal_path planned None frames) eqn:Emp; [discriminate|].
    destruct (reframed_only_one_range _ _ _ Emp) as (Hpl & Htot & Hcont & _).
    assert (H1 : one_range frames = true) by (unfold one_range; rewrite Hcont; apply andb_true_intro; split; [apply Z.ltb_lt; assumption|reflexivity]).
    cbn [is_flight] in Hpos. rewrite orb_false_r in Hpos.
    destruct (one_range_chain hello frames Hsz H1 Hin (Hpos Hpl)) as (Hb0 & Hn & Hend & Hre & _).
    rewrite Hre in Em.
    assert (Hz : zlen (slice hello (min_off frames) (total_len frames)) = total_len frames)
      by (apply ProofsScram.zlen_slice; lia).
    apply (accepted_builder_only_oracle_errors specs idx (slice hello (min_off frames) (total_len frames)) (min_off frames) bs us c Hd Hsb Hidx Hb0);
      [rewrite Hz; lia|exact Em]. }
  split; [|split].
  - intros c plens Hbk.
    destruct (first_flight_on_wire sb hello c plens Hsz Hsb Hbk) as (H1 & H2 & H3 & H4 & Hdr & H5 & _).
    cbv zeta. split; [assumption|]. split; [assumption|]. split; [assumption|]. split; [assumption|]. split; [assumption|]. split; [assumption|].
    intros fs idx bs us Hfs Hidx.
    assert (Hsub : forall r, In r fs -> In r (concat (map dg_frames (flight c (zlen hello) plens)))) by (intros r Hr; apply in_concat; exists fs; auto).
    apply Herr; [assumption| |intros _]; rewrite Forall_forall in *; intros r Hr; [apply H3|apply H2]; apply Hsub, Hr.
  - intros H48 budgets wss Hbuilt Hval.
    assert (Htrue : Forall (fun ws => Forall (true_frame hello) (wcryptos ws) /\ wpads_ok ws) wss).
    { destruct Hbuilt as [(dgs & first & Hb)|(dgs & first & bs & us & bs' & us' & Hb)];
        [eapply flight_frames_true; eassumption|eapply rff_build_true; eassumption]. }
    split; [eapply validated_complete; eassumption|]. split; [assumption|].
    rewrite Forall_forall. intros r Hr. apply in_flat_map in Hr as (ws & Hws & Hr).
    unfold wpairs in Hr. apply in_map_iff in Hr as ([o d] & <- & Hod). cbn [fst snd].
    rewrite Forall_forall in Htrue. destruct (Htrue ws Hws) as (Ht & _). rewrite Forall_forall in Ht.
    destruct (Ht _ Hod) as (H0 & H1 & _). cbn [fst snd] in *. pose proof (zlen_nonneg d).
    split; [unfold range_in; cbn [fst snd]; lia|discriminate].
  - intros planned flight0 n ops st' rs Hfl Hcov Hrun.
    destruct (flight_stays_covered _ _ _ _ _ _ _ Hcov Hrun) as (_ & Hc).
    split; [assumption|].
    intros pn popped Hin idx ping bs us Hidx.
    assert (Hst : st_rok hello (negb (planned || is_flight sb)) (RS flight0 [] [])).
    { unfold st_rok, all_ranges. cbn [rOut rQueue rAcked]. rewrite !app_nil_r. exact Hfl. }
    destruct (rrun_rok _ _ _ _ _ _ _ _ Hrun Hst) as [_ Hrs]. specialize (Hrs pn popped Hin).
    apply Herr; [assumption| |].
    + eapply Forall_impl; [|exact Hrs]. intros r [Hr _]. exact Hr.
    + intros Hpl. eapply Forall_impl; [|exact Hrs]. intros r [_ Hr]. apply Hr. rewrite Hpl. reflexivity.
Qed.

(* non-vacuity: a two-datagram flight of a multi-datagram random builder, concrete oracles *)
Definition ow_hello : list Z := map (fun i => (Z.of_nat i * 7 + 3) mod 251 + 1) (seq 0 60).
Definition ow_specs : list rf := [mkRF 0 2 1 3 0 0 0; mkRF 1 2 2 3 1 2 80].
Definition ow_bs : list Z := map (fun i => (Z.of_nat i * 37 + 11) mod 256) (seq 0 64).
Definition ow_us : list Z := map (fun i => (Z.of_nat i * 7919 + 13) mod 2147483648) (seq 0 32).

Lemma ow_sb_ok : sb_ok ow_hello (SBRandom ow_specs).
Proof. unfold sb_ok, ow_specs, rf_wf. repeat constructor; cbn; lia. Qed.

Lemma ow_marshal :
  match marshal (SBRandom ow_specs) ow_hello false 0 [(0, 40)] false ow_bs ow_us with
  | Ok (ws1, b1, u1) =>
    match marshal (SBRandom ow_specs) ow_hello false 1 [(40, 20)] false b1 u1 with
    | Ok (ws2, _, _) => zlen (encode ws2) = 80
    | _ => False
    end
  | _ => False
  end.
Proof. vm_compute. reflexivity. Qed.

Lemma flight_on_wire_example :
  sb_ok ow_hello (SBRandom ow_specs) /\ dial_check (SBRandom ow_specs) = Ok tt /\
  match marshal (SBRandom ow_specs) ow_hello false 0 [(0, 40)] false ow_bs ow_us with
  | Ok (ws1, b1, u1) =>
    match marshal (SBRandom ow_specs) ow_hello false 1 [(40, 20)] false b1 u1 with
    | Ok (ws2, _, _) => zlen (encode ws2) = 80
    | _ => False
    end
  | _ => False
  end.
Proof. exact (conj ow_sb_ok (conj eq_refl ow_marshal)). Qed.

(* ---------- planInitialFlight: accepted => complete, rejected => nothing sent ---------- *)
Definition frame_in (hello : list Z) (ws : list wframe) : Prop := Forall (true_frame hello) (wcryptos ws) /\ wpads_ok ws.

(** For EVERY plan of either in-tree flight builder — overlapping ranges, ranges addressed from the
    end, randomised cuts —, every ClientHello, all budgets and both oracles:
    if planInitialFlight accepts, the datagrams it will send ([flight_sent]) consist of frames that
    lie inside the ClientHello and carry its bytes at absolute offsets, and the union of their
    CRYPTO ranges is exactly [0, |hello|);  if it rejects (or the builder fails), nothing is sent. *)
Lemma plan_flight_complete fb hello budgets bs us :
  zlen hello <= 2 ^ 48 ->
  match plan_flight fb hello budgets bs us with
  | Ok (wss, _, _) =>
    flight_sent fb hello budgets bs us = wss /\
    Forall (frame_in hello) wss /\
    (forall j, (exists ws o d, In ws wss /\ In (o, d) (wcryptos ws) /\ o <= j < o + zlen d) <-> 0 <= j < zlen hello)
  | _ => flight_sent fb hello budgets bs us = []
  end.
Proof.
  intros H48. unfold flight_sent. destruct (plan_flight fb hello budgets bs us) as [[[wss b1] u1]|c|] eqn:Ep; try reflexivity.
  split; [reflexivity|]. unfold plan_flight in Ep. pose proof (zlen_nonneg hello) as Hh0.
  destruct (Z.eqb_spec (zlen hello) 0) as [Hz|Hz].
  { inversion Ep; subst. split; [constructor|]. intros j. split; [intros (ws & _ & _ & [] & _)|lia]. }
  destruct (build_flight fb hello bs us) as [[[wss0 b0] u0]|c|] eqn:Eb; cbn [bind] in Ep; try discriminate.
  destruct (Z.eqb_spec (validate (map encode wss0) budgets (zlen hello)) 0) as [Hv|Hv].
  2: { destruct (_ =? -1); discriminate. }
  inversion Ep; subst wss0 b0 u0.
  assert (Htrue : Forall (frame_in hello) wss).
  { unfold build_flight in Eb. destruct fb as [dgs|dgs].
    - apply bind_ok in Eb as (w0 & Hf & Hr). inversion Hr; subst. eapply flight_frames_true; eassumption.
    - eapply rff_build_true; eassumption. }
  split; [assumption|]. intros j. split.
  - intros (ws & o & d & Hws & Hod & Hr). rewrite Forall_forall in Htrue. destruct (Htrue ws Hws) as (Ht & _).
    rewrite Forall_forall in Ht. destruct (Ht _ Hod) as (H0 & H1 & _). cbn [fst snd] in *. lia.
  - intros Hj. destruct (validated_complete wss hello budgets H48 Htrue Hv j Hj) as (ws & o & d & H1 & H2 & H3 & _).
    exists ws, o, d. auto.
Qed.

(* QUICFlightFrames never panics when its PADDING lengths are non-negative *)
Lemma build_abs_nopanic full qfs : pads_ok qfs -> build_abs full qfs <> Panic.
Proof.
  unfold build_abs. induction qfs as [|f r IH]; intros Hp; [discriminate|].
  inversion Hp as [|? ? Hf Hr]; subst. cbn [map_res].
  assert (Hone : abs_one full f <> Panic).
  { destruct f as [|k|o l]; cbn [abs_one]; [discriminate| |].
    - destruct (Z.ltb_spec k 0); [lia|discriminate].
    - pose proof (resolve_total o l (zlen full) (zlen_nonneg full)) as Hres.
      destruct (resolve o l (zlen full)) as [[s e]|c|]; cbn [bind]; [discriminate|discriminate|contradiction]. }
  destruct (abs_one full f) as [w|c|]; cbn [bind]; [|discriminate|congruence].
  specialize (IH Hr). destruct (map_res (abs_one full) r) as [ws|c|]; cbn [bind]; [discriminate|discriminate|congruence].
Qed.

Lemma flight_frames_nopanic dgs first full : Forall pads_ok dgs -> flight_frames dgs first full <> Panic.
Proof.
  intros Hp. unfold flight_frames. destruct dgs as [|d0 r]; [discriminate|]. destruct first.
  - inversion Hp; subst. pose proof (build_abs_nopanic full d0 ltac:(assumption)) as Hn.
    destruct (build_abs full d0) as [w|c|]; cbn [bind]; [discriminate|discriminate|congruence].
  - induction Hp as [|d l Hd _ IH]; cbn [map_res]; [discriminate|].
    pose proof (build_abs_nopanic full d Hd) as Hn.
    destruct (build_abs full d) as [w|c|]; cbn [bind]; [|discriminate|congruence].
    destruct (map_res (build_abs full) l) as [ws|c|]; cbn [bind]; [discriminate|discriminate|congruence].
Qed.

(* ---------- retransmission until the queue is empty ---------- *)
(** After ANY history, once the retransmission queue is empty, every byte of the ClientHello the
    first flight carried is acknowledged or in an outstanding packet — and every outstanding
    packet the history produced is on the wire exactly (C09_flight_on_wire_complete, part III):
    retransmission after loss, e.g. on PTO, preserves completeness. *)
Lemma retx_drained_complete planned layout flight0 n ops st' rs :
  (forall b, 0 <= b < n -> covers b (flat_map snd flight0)) ->
  rrun planned layout (RS flight0 [] []) ops = Some (st', rs) ->
  rQueue st' = [] ->
  forall b, 0 <= b < n -> covers b (rAcked st') \/ exists pn fs, In (pn, fs) (rOut st') /\ covers b fs.
Proof.
  intros Hcov Hrun Hq b Hb. destruct (flight_stays_covered _ _ _ _ _ _ _ Hcov Hrun) as (_ & Hc).
  specialize (Hc b Hb). unfold all_ranges in Hc. rewrite Hq in Hc. cbn [app] in Hc.
  apply covers_app in Hc as [Hc|Hc]; [right|left; assumption].
  destruct Hc as (r & Hin & Hr). apply in_flat_map in Hin as ([pn fs] & Hp & Hin).
  exists pn, fs. split; [assumption|]. exists r. split; assumption.
Qed.

(* the plan shape of seeded change C09-e, scaled down: bytes [0,2) sent twice, byte 5 never *)
Definition pl_hello : list Z := [11; 12; 13; 14; 15; 16; 17; 18; 19; 20].
Lemma plan_flight_examples :
  plan_flight (FBFrames [[FCrypto (-3) 0; FCrypto 0 2]; [FCrypto 0 5]; [FCrypto 6 (-3)]]) pl_hello [0] [] [] = Err 105 /\
  flight_sent (FBFrames [[FCrypto (-3) 0; FCrypto 0 2]; [FCrypto 0 5]; [FCrypto 6 (-3)]]) pl_hello [0] [] [] = [] /\
  (exists wss, plan_flight (FBFrames [[FCrypto (-3) 0; FCrypto 0 2]; [FCrypto 0 5]; [FCrypto 5 (-3)]]) pl_hello [0] [] [] = Ok (wss, [], [])
               /\ length wss = 3%nat).
Proof. split; [vm_compute; reflexivity|]. split; [vm_compute; reflexivity|]. eexists. split; [vm_compute; reflexivity|reflexivity]. Qed.

(* non-vacuity of the drain clause: a nil-builder configuration with room, and a 5000-byte
   ClientHello it sends in five datagrams without error *)
Definition dr_cfg : cfg :=
  {| c_dcid := 8; c_scid := 0; c_ipn := 1; c_first := 1; c_lens := []; c_single := 1; c_tokLen := 0;
     c_bk := BPass; c_plans := []; c_udpMin := 0; c_maxSize := 1280 |}.

Lemma dr_room : room dr_cfg.
Proof.
  intros i idx off Hoff.
  assert (Hh : hdrOf dr_cfg i = 19) by reflexivity. rewrite Hh.
  assert (Hb : initialBudget 19 off (c_maxSize dr_cfg) (planFor (c_plans dr_cfg) idx) (c_bk dr_cfg) idx = 1264) by reflexivity.
  rewrite Hb. unfold maxDataLen.
  assert (Hv : 0 <= vlen off <= 8).
  { unfold vlen. destruct (off <=? maxVarInt1); [lia|]. destruct (off <=? maxVarInt2); [lia|].
    destruct (off <=? maxVarInt4); [lia|]. destruct (off <=? maxVarInt8); lia. }
  destruct (Z.gtb_spec (1 + vlen off + 1) (1264 - 19)); [lia|].
  destruct (negb (vlen (1264 - 19 - (1 + vlen off + 1)) =? 1)); lia.
Qed.

Lemma dr_example :
  room dr_cfg /\ no_dgerr (flight dr_cfg 5000 []) /\
  length (flight dr_cfg 5000 []) = 5%nat /\
  total_len (concat (map dg_frames (flight dr_cfg 5000 []))) = 5000.
Proof.
  split; [exact dr_room|]. split; [vm_compute; repeat constructor|]. split; vm_compute; reflexivity.
Qed.

(* ---------- no panic: QUICRandomFlightFrames and planInitialFlight ---------- *)
Lemma ranges_loop_spec rs : forall p n bs acc,
  rf_wf p -> 0 <= n < 2 ^ 62 -> pads_ok acc ->
  match ranges_loop rs p n bs acc with
  | Ok (fl, _) => pads_ok fl
  | Err _ => True
  | Panic => False
  end.
Proof.
  induction rs as [|[off len] rs IH]; intros p n bs acc Hwf Hn Hacc; cbn [ranges_loop]; [assumption|].
  pose proof (resolve_total off len n ltac:(lia)) as Hres.
  destruct (resolve off len n) as [[s e]|c|]; cbn [bind]; [|exact I|contradiction].
  destruct Hres as (Hs & He & _).
  destruct (Z.leb_spec e s); [apply IH; assumption|].
  destruct Hwf as (H1 & H2 & H3 & H4 & H5 & H6 & H7).
  pose proof (split_range_partition s e (Z.max (minCrypto p) 1) (Z.max (maxCrypto p) 1) bs ltac:(lia) ltac:(lia) ltac:(lia) ltac:(lia)) as Hsp.
  destruct (split_range s e (Z.max (minCrypto p) 1) (Z.max (maxCrypto p) 1) bs) as [[pieces bs']|c|]; cbn [bind]; [|exact I|contradiction].
  destruct Hsp as (Hch & _). apply IH; [repeat split; assumption|assumption|].
  unfold pads_ok in *. apply Forall_app. split; [assumption|]. eapply pchain_pads_ok; eassumption.
Qed.

Lemma pads_ok_pings k : pads_ok (repeat FPing k).
Proof. unfold pads_ok. apply Forall_forall. intros x Hx. apply repeat_spec in Hx. subst. exact I. Qed.

Lemma only_pads_pads_ok pads : only_pads pads -> pads_ok pads.
Proof. unfold only_pads, pads_ok. intros H. eapply Forall_impl; [|exact H]. intros [| |]; simpl; tauto. Qed.

Lemma rfd_build_nopanic d full bs us :
  rf_wf (snd d) -> zlen full < 2 ^ 62 -> rfd_build d full bs us <> Panic.
Proof.
  destruct d as [rs p]. cbn [snd]. intros Hwf Hn. unfold rfd_build.
  destruct (rfd_check rs p) as [[]|c|] eqn:Ec; cbn [bind]; [|discriminate|].
  2: { unfold rfd_check in Ec. destruct rs; [discriminate|]. repeat (destruct (_ : bool) in Ec; try discriminate). }
  pose proof (ranges_loop_spec rs p (zlen full) bs [] Hwf ltac:(pose proof (zlen_nonneg full); lia) ltac:(constructor)) as Hrl.
  destruct (ranges_loop rs p (zlen full) bs []) as [[fl0 bs1]|c|]; cbn [bind]; [|discriminate|contradiction].
  destruct fl0 as [|f0 fl0]; [discriminate|].
  destruct Hwf as (H1 & H2 & H3 & H4 & H5 & H6 & H7).
  pose proof (safe_rand_spec (minPing p) (maxPing p) bs1 H1 ltac:(lia)) as Hr.
  destruct (safe_rand (minPing p) (maxPing p) bs1) as [[np bs2]|c|]; cbn [bind]; [|discriminate|contradiction].
  set (fl := (f0 :: fl0) ++ repeat FPing (Z.to_nat np)).
  assert (Hfl : pads_ok fl) by (unfold fl, pads_ok; apply Forall_app; split; [exact Hrl|apply pads_ok_pings]).
  pose proof (build_abs_nopanic full fl Hfl) as Hdry.
  destruct (build_abs full fl) as [dry|c|]; cbn [bind]; [|discriminate|congruence].
  pose proof (padding_spec p (rfLen p - zlen (encode dry)) bs2 fl H5 H6 ltac:(pose proof (zlen_nonneg (encode dry)); lia)) as Hp.
  destruct (padding p (rfLen p - zlen (encode dry)) bs2 fl) as [[fl2 bs3]|c|]; cbn [bind]; [|discriminate|contradiction].
  destruct Hp as (pads & -> & Hpads).
  pose proof (shuffle_outcome (fl ++ pads) us) as Hs.
  destruct (shuffle (fl ++ pads) us) as [[fl3 us']|c|]; cbn [bind]; [|discriminate|contradiction].
  assert (Hfl3 : pads_ok fl3).
  { unfold pads_ok. eapply Permutation_Forall; [apply Permutation_sym; exact Hs|].
    apply Forall_app. split; [exact Hfl|apply only_pads_pads_ok; assumption]. }
  pose proof (build_abs_nopanic full fl3 Hfl3) as Hb.
  destruct (build_abs full fl3) as [ws|c|]; cbn [bind]; [discriminate|discriminate|congruence].
Qed.

Lemma rff_loop_nopanic dgs : forall full bs us,
  Forall (fun d => rf_wf (snd d)) dgs -> zlen full < 2 ^ 62 -> rff_loop dgs full bs us <> Panic.
Proof.
  induction dgs as [|d r IH]; intros full bs us Hwf Hn; cbn [rff_loop]; [discriminate|].
  inversion Hwf as [|? ? Hd Hr]; subst.
  pose proof (rfd_build_nopanic d full bs us Hd Hn) as H1.
  destruct (rfd_build d full bs us) as [[[w bs1] us1]|c|]; cbn [bind]; [|discriminate|congruence].
  pose proof (IH full bs1 us1 Hr Hn) as H2.
  destruct (rff_loop r full bs1 us1) as [[[ws bs2] us2]|c|]; cbn [bind]; [discriminate|discriminate|congruence].
Qed.

(* the plan's parameters are in range *)
Definition fb_ok (fb : fbuilder) : Prop :=
  match fb with
  | FBFrames dgs => Forall pads_ok dgs
  | FBRandom dgs => Forall (fun d => rf_wf (snd d)) dgs
  end.

Lemma build_flight_nopanic fb hello bs us : fb_ok fb -> zlen hello < 2 ^ 62 -> build_flight fb hello bs us <> Panic.
Proof.
  intros Hok Hn. destruct fb as [dgs|dgs]; cbn [build_flight fb_ok] in *.
  - pose proof (flight_frames_nopanic dgs false hello Hok) as H.
    destruct (flight_frames dgs false hello); cbn [bind]; [discriminate|discriminate|congruence].
  - unfold rff_build. destruct dgs as [|d0 r]; [discriminate|]. apply rff_loop_nopanic; assumption.
Qed.

(** planInitialFlight, for every in-range plan of either flight builder, every ClientHello, every
    non-empty budget list and both oracles: it never panics; if it accepts, the planned datagrams
    consist of frames inside the ClientHello with its bytes at absolute offsets and the union of
    their CRYPTO ranges is exactly [0, |hello|). *)
Lemma plan_flight_sound fb hello budgets bs us :
  fb_ok fb -> zlen hello <= 2 ^ 48 -> budgets <> [] ->
  match plan_flight fb hello budgets bs us with
  | Ok (wss, _, _) =>
    Forall (frame_in hello) wss /\
    (forall j, (exists ws o d, In ws wss /\ In (o, d) (wcryptos ws) /\ o <= j < o + zlen d) <-> 0 <= j < zlen hello)
  | Err _ => True
  | Panic => False
  end.
Proof.
  intros Hok H48 Hbud.
  pose proof (plan_flight_complete fb hello budgets bs us H48) as Hc.
  destruct (plan_flight fb hello budgets bs us) as [[[wss b1] u1]|c|] eqn:Ep; [destruct Hc as (_ & H1 & H2); auto|exact I|].
  unfold plan_flight in Ep. destruct (zlen hello =? 0); [discriminate|].
  pose proof (build_flight_nopanic fb hello bs us Hok ltac:(lia)) as Hnp.
  destruct (build_flight fb hello bs us) as [[[wss0 b0] u0]|c|] eqn:Eb; cbn [bind] in Ep; [|discriminate|congruence].
  assert (Htrue : Forall (frame_in hello) wss0).
  { unfold build_flight in Eb. destruct fb as [dgs|dgs].
    - apply bind_ok in Eb as (w0 & Hf & Hr). inversion Hr; subst. eapply flight_frames_true; eassumption.
    - eapply rff_build_true; eassumption. }
  pose proof (validate_builder_nopanic wss0 hello budgets Hbud H48 Htrue) as Hv.
  destruct (validate (map encode wss0) budgets (zlen hello) =? 0); [discriminate|].
  destruct (Z.eqb_spec (validate (map encode wss0) budgets (zlen hello)) (-1)); [congruence|discriminate].
Qed.

Lemma fb_ok_example :
  fb_ok (FBRandom [([(-3, 0); (0, 2)], mkRF 0 2 1 3 0 0 0); ([(2, -3)], mkRF 0 0 0 0 0 0 0)]) /\
  fb_ok (FBFrames [[FCrypto (-3) 0; FPad 2]; [FCrypto 0 (-3); FPing]]).
Proof. split; repeat constructor; cbn; lia. Qed.
