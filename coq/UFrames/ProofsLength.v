(** Total length of a QUICRandomFrames payload: since the dry run measures with the real base
    offset, PADDING brings the frames to exactly Length whenever any PADDING is added, and the
    payload is never shorter than Length. *)
From Coq Require Import List ZArith Bool Lia Permutation.
From V Require Import Gen.Params Lib.Hex Wire.Varint UFrames.Model UFrames.ProofsBase UFrames.Proofs.
Import ListNotations.
Open Scope Z_scope.

Fixpoint total (ws : list wframe) : Z :=
  match ws with [] => 0 | w :: r => zlen (enc_w w) + total r end.

Fixpoint wpadbytes (ws : list wframe) : Z :=
  match ws with [] => 0 | WPad k :: r => k + wpadbytes r | _ :: r => wpadbytes r end.

Fixpoint padsum (fs : list frame) : Z :=
  match fs with [] => 0 | FPad k :: r => k + padsum r | _ :: r => padsum r end.

Lemma zlen_encode ws : zlen (encode ws) = total ws.
Proof.
  induction ws as [|w r IH]; [reflexivity|]. unfold encode in *. cbn [map concat total].
  rewrite zlen_app, IH. reflexivity.
Qed.

Lemma total_app a b : total (a ++ b) = total a + total b.
Proof. induction a as [|w r IH]; simpl; [reflexivity|]. rewrite IH. lia. Qed.

Lemma total_perm a b : Permutation a b -> total a = total b.
Proof. induction 1; simpl; lia. Qed.

Lemma wpadbytes_app a b : wpadbytes (a ++ b) = wpadbytes a + wpadbytes b.
Proof. induction a as [|w r IH]; simpl; [reflexivity|]. destruct w; rewrite IH; lia. Qed.

Lemma wpadbytes_perm a b : Permutation a b -> wpadbytes a = wpadbytes b.
Proof.
  induction 1 as [|x l l' _ IH|x y l|l l' l'' _ IH1 _ IH2]; simpl; try lia.
  - destruct x; lia.
  - destruct x, y; lia.
Qed.

Lemma padsum_app a b : padsum (a ++ b) = padsum a + padsum b.
Proof. induction a as [|f r IH]; simpl; [reflexivity|]. destruct f; rewrite IH; lia. Qed.

Lemma wpadbytes_wire data base fs : wpadbytes (map (wire data base) fs) = padsum fs.
Proof. induction fs as [|f r IH]; [reflexivity|]. destruct f; simpl; rewrite IH; reflexivity. Qed.

Lemma total_wire_pads data base pads : only_pads pads -> total (map (wire data base) pads) = padsum pads.
Proof.
  induction pads as [|f r IH]; intros H; [reflexivity|]. inversion H; subst.
  destruct f as [|k|]; try contradiction. cbn [map wire total padsum enc_w]. rewrite IH by assumption.
  unfold zeros, zlen. rewrite repeat_length. lia.
Qed.

Lemma padsum_pchain s fs e : pchain s fs e -> padsum fs = 0.
Proof.
  revert s; induction fs as [|f r IH]; intros s H; [reflexivity|].
  destruct f; simpl in H; try contradiction. destruct H as (_ & _ & H). simpl. eapply IH; eassumption.
Qed.

Lemma padsum_pings k : padsum (repeat FPing k) = 0.
Proof. induction k; simpl; auto. Qed.

(* the PADDING split adds up to exactly what was asked for *)
Lemma pad_loop_sum k : forall i num lenP bs acc,
  Z.of_nat k = num - i - 1 -> Z.of_nat k + 1 <= lenP -> lenP < 2 ^ 62 ->
  match pad_loop k i num lenP bs acc with
  | Ok (fs, _) => padsum fs = padsum acc + lenP
  | _ => True
  end.
Proof.
  induction k as [|k IH]; intros i num lenP bs acc Hk Hlen Hsum.
  - simpl. rewrite padsum_app. simpl. lia.
  - cbn [pad_loop].
    assert (E1 : u64 (num - i - 2) = Z.of_nat k) by (rewrite u64_small; lia).
    rewrite E1. rewrite (u64_small (lenP - Z.of_nat k)) by lia.
    pose proof (safe_rand_spec 1 (lenP - Z.of_nat k) bs ltac:(lia) ltac:(lia)) as Hr.
    destruct (safe_rand 1 (lenP - Z.of_nat k) bs) as [[l bs']|c|]; cbn [bind]; [|exact I|exact I].
    destruct Hr as [[Hr _]|[_ Hr]]; [lia|].
    rewrite (u64_small (lenP - l)) by lia.
    specialize (IH (i + 1) num (lenP - l) bs' (acc ++ [FPad l]) ltac:(lia) ltac:(lia) ltac:(lia)).
    destruct (pad_loop k (i + 1) num (lenP - l) bs' (acc ++ [FPad l])) as [[fs bs'']|c|]; [|exact I|exact I].
    rewrite IH, padsum_app. simpl. lia.
Qed.

Lemma padding_sum p lenPad bs fl :
  0 <= minPad p -> maxPad p < 2 ^ 32 -> lenPad < 2 ^ 62 ->
  match padding p lenPad bs fl with
  | Ok (fs, _) => padsum fs = padsum fl + Z.max lenPad 0
  | _ => True
  end.
Proof.
  intros Hmin Hmax Hlen. unfold padding. destruct (Z.ltb_spec 0 lenPad) as [Hpos|Hneg]; [|lia].
  pose proof (safe_rand_spec (minPad p) (maxPad p) bs Hmin ltac:(lia)) as Hr.
  destruct (safe_rand (minPad p) (maxPad p) bs) as [[np0 bs1]|c|]; cbn [bind]; [|exact I|exact I].
  pose proof (pad_loop_sum (Z.to_nat (Z.min (Z.max np0 1) lenPad - 1)) 0 (Z.min (Z.max np0 1) lenPad) lenPad bs1 fl
                ltac:(lia) ltac:(lia) ltac:(lia)) as Hs.
  destruct (pad_loop _ 0 _ lenPad bs1 fl) as [[fs bs2]|c|]; [|exact I|exact I]. lia.
Qed.

Lemma rf_frames_nopads p data bs :
  rf_wf p -> zlen data < 2 ^ 62 ->
  match rf_frames p data bs with
  | Ok (fl, _) => padsum fl = 0
  | _ => True
  end.
Proof.
  intros (H1 & H2 & H3 & H4 & H5 & H6 & H7) Hn. unfold rf_frames.
  pose proof (zlen_nonneg data) as Hn0.
  destruct (safe_rand (minPing p) (maxPing p) bs) as [[np bs1]|c|]; cbn [bind]; [|exact I|exact I].
  destruct (safe_rand (minCrypto p) (maxCrypto p) bs1) as [[nc0 bs2]|c|]; cbn [bind]; [|exact I|exact I].
  set (nc := Z.min (Z.max nc0 1) (zlen data)).
  pose proof (crypto_loop_spec (Z.to_nat (nc - 1)) 0 nc (zlen data) 0 bs2 []) as Hl.
  assert (Hk : (Z.of_nat (Z.to_nat (nc - 1)) = nc - 0 - 1 \/ Z.to_nat (nc - 1) = 0%nat)) by lia.
  assert (Hlen : Z.of_nat (Z.to_nat (nc - 1)) + 1 <= zlen data \/ (Z.to_nat (nc - 1) = 0%nat /\ 0 <= zlen data)) by (unfold nc; lia).
  specialize (Hl Hk Hlen ltac:(lia) ltac:(lia)).
  destruct (crypto_loop _ 0 nc (zlen data) 0 bs2 []) as [[[cfs off] bs3]|c|]; cbn [bind]; [|exact I|exact I].
  destruct Hl as (cfs' & -> & Hc & _). simpl app.
  rewrite !padsum_app, padsum_pings, (padsum_pchain _ _ _ Hc). reflexivity.
Qed.

(** QUICRandomFrames.buildInternal: the payload is never shorter than Length, and whenever it
    contains PADDING it is exactly Length bytes long — for every base offset and all oracle values. *)
Lemma build_internal_length p data base bs us :
  rf_wf p -> 0 <= base -> base + zlen data <= maxVarInt8 ->
  match build_internal p data base bs us with
  | Ok (ws, _, _) => rfLen p <= zlen (encode ws) /\ (0 < wpadbytes ws -> zlen (encode ws) = rfLen p)
  | _ => True
  end.
Proof.
  intros Hwf Hb Hmax. unfold build_internal.
  pose proof (zlen_nonneg data) as Hn0.
  assert (Hm : maxVarInt8 < 2 ^ 62) by (unfold maxVarInt8; lia).
  destruct (check_bounds p) as [[]|c|]; cbn [bind]; [|exact I|exact I].
  pose proof (rf_frames_spec p data bs Hwf ltac:(lia)) as Hf.
  pose proof (rf_frames_nopads p data bs Hwf ltac:(lia)) as Hnp.
  destruct (rf_frames p data bs) as [[fl bs3]|c|]; cbn [bind]; [|exact I|exact I].
  destruct (build_tiling data base fl Hb Hmax Hf) as (Hdry & _ & _).
  rewrite Hdry. cbn [bind].
  destruct Hwf as (H1 & H2 & H3 & H4 & H5 & H6 & H7).
  set (dry := zlen (encode (map (wire data base) fl))) in *.
  assert (Hd0 : 0 <= dry) by apply zlen_nonneg.
  pose proof (padding_spec p (rfLen p - dry) bs3 fl H5 H6 ltac:(lia)) as Hp.
  pose proof (padding_sum p (rfLen p - dry) bs3 fl H5 H6 ltac:(lia)) as Hps.
  destruct (padding p (rfLen p - dry) bs3 fl) as [[fl2 bs4]|c|]; cbn [bind]; [|exact I|exact I].
  destruct Hp as (pads & -> & Hpads). rewrite padsum_app, Hnp in Hps.
  pose proof (shuffle_outcome (fl ++ pads) us) as Hs.
  destruct (shuffle (fl ++ pads) us) as [[fl3 us']|c|]; cbn [bind]; [|exact I|exact I].
  assert (Ht : tiles (zlen data) fl3) by (eapply tiles_perm; [exact Hs|apply tiles_app_pads; assumption]).
  destruct (build_tiling data base fl3 Hb Hmax Ht) as (Hbuild & _ & _).
  rewrite Hbuild. cbn [bind].
  assert (Etot : zlen (encode (map (wire data base) fl3)) = dry + padsum pads).
  { rewrite zlen_encode. rewrite (total_perm _ _ (Permutation_map (wire data base) Hs)).
    rewrite map_app, total_app, (total_wire_pads data base pads Hpads). unfold dry. rewrite zlen_encode. reflexivity. }
  assert (Epad : wpadbytes (map (wire data base) fl3) = padsum pads).
  { rewrite (wpadbytes_perm _ _ (Permutation_map (wire data base) Hs)).
    rewrite wpadbytes_wire, padsum_app, Hnp. lia. }
  rewrite Etot, Epad. lia.
Qed.
