(** Model of the uQUIC Initial frame builders (u_quic_frames.go, u_flight_frames.go) and of
    validateInitialFlight (u_packet_packer.go).  Executable definitions only.

    Conventions: bytes are [Z] in [0,256); Go [int]/[uint64] values are [Z], with the
    unsigned wrap-around written out ([u64]) wherever the code computes in uint64;
    crypto/rand is a byte-stream oracle [bs] consumed exactly like crypto/rand.Int does
    (mask + rejection loop), math/rand's global source is an oracle [us] of uint32 values
    consumed exactly like rand.Shuffle / int31n do.  A Go panic is the result [Panic]. *)
From Coq Require Import List ZArith Bool Lia.
From V Require Import Gen.Params Lib.Hex Wire.Varint.
Import ListNotations.
Open Scope Z_scope.

(* ---------- results ---------- *)
Inductive res (A : Type) : Type :=
| Ok (a : A)
| Err (c : Z)      (* error class, numbered as in the harness; 6 = crypto/rand failed, 90 = shuffle oracle exhausted *)
| Panic.
Arguments Ok {A} a.
Arguments Err {A} c.
Arguments Panic {A}.

Definition bind {A B} (r : res A) (f : A -> res B) : res B :=
  match r with Ok a => f a | Err c => Err c | Panic => Panic end.
Notation "x <- e1 ;; e2" := (bind e1 (fun x => e2)) (at level 61, e1 at next level, right associativity).
Notation "' p <- e1 ;; e2" := (bind e1 (fun p => e2)) (at level 61, p pattern, e1 at next level, right associativity).

Fixpoint map_res {A B} (f : A -> res B) (l : list A) : res (list B) :=
  match l with
  | [] => Ok []
  | a :: r => b <- f a ;; bs <- map_res f r ;; Ok (b :: bs)
  end.

(* ---------- small helpers ---------- *)
Definition u64 (x : Z) : Z := x mod 2 ^ 64.
Definition take {A} (n : Z) (l : list A) : list A := firstn (Z.to_nat n) l.
Definition drop {A} (n : Z) (l : list A) : list A := skipn (Z.to_nat n) l.
Definition zeros (n : Z) : list Z := repeat 0 (Z.to_nat n).

(* ---------- crypto/rand.Int on a byte stream ---------- *)
Definition unbe256 (l : list Z) : Z := fold_left (fun acc x => acc * 256 + x mod 256) l 0.
Definition mask_first (b : Z) (l : list Z) : list Z :=
  match l with [] => [] | x :: r => ((x mod 256) mod 2 ^ b) :: r end.

Fixpoint rand_loop (fuel : nat) (mx : Z) (k : nat) (b : Z) (bs : list Z) : res (Z * list Z) :=
  match fuel with
  | O => Err 6
  | S f =>
    if (length bs <? k)%nat then Err 6 (* io.ReadFull fails: the scripted reader is exhausted *)
    else
      let v := unbe256 (mask_first b (firstn k bs)) in
      if v <? mx then Ok (v, skipn k bs) else rand_loop f mx k b (skipn k bs)
  end.

(* rand.Int(rand.Reader, mx) for mx >= 1 *)
Definition rand_int (mx : Z) (bs : list Z) : res (Z * list Z) :=
  let n1 := mx - 1 in
  if n1 <=? 0 then Ok (0, bs)
  else
    let bitLen := Z.log2 n1 + 1 in
    let k := Z.to_nat ((bitLen + 7) / 8) in
    let b := if bitLen mod 8 =? 0 then 8 else bitLen mod 8 in
    rand_loop (S (length bs)) mx k b bs.

(* cryptoSafeRandUint64(min, max); both arguments are uint64 values *)
Definition safe_rand (mn mx : Z) (bs : list Z) : res (Z * list Z) :=
  if mx <=? mn then Ok (mn, bs)
  else
    let d := mx - mn in
    if 2 ^ 63 <=? d then Panic (* int64(max-min) < 0: crypto/rand.Int panics *)
    else '(v, bs') <- rand_int d bs ;; Ok (u64 (mn + v), bs').

(* ---------- math/rand: int31n and Shuffle on a uint32 stream ---------- *)
Fixpoint int31n_loop (fuel : nat) (n thresh prod : Z) (us : list Z) : res (Z * list Z) :=
  if prod mod 2 ^ 32 <? thresh then
    match fuel, us with
    | S f, v :: us' => int31n_loop f n thresh ((v mod 2 ^ 32) * n) us'
    | _, _ => Err 90
    end
  else Ok (prod / 2 ^ 32, us).

Definition int31n (n : Z) (us : list Z) : res (Z * list Z) :=
  match us with
  | [] => Err 90
  | v :: us' =>
    let prod := (v mod 2 ^ 32) * n in
    if prod mod 2 ^ 32 <? n then int31n_loop (length us') n ((2 ^ 32 - n) mod n) prod us'
    else Ok (prod / 2 ^ 32, us')
  end.

Fixpoint set_nth {A} (i : nat) (x : A) (l : list A) : list A :=
  match l, i with
  | [], _ => []
  | _ :: r, O => x :: r
  | a :: r, S i' => a :: set_nth i' x r
  end.

Definition swap {A} (i j : nat) (l : list A) : list A :=
  match nth_error l i, nth_error l j with
  | Some a, Some b => set_nth i b (set_nth j a l)
  | _, _ => l
  end.

(* for i := n-1; i > 0; i-- { j := int31n(i+1); swap(i, j) } *)
Fixpoint shuffle_loop {A} (i : nat) (l : list A) (us : list Z) : res (list A * list Z) :=
  match i with
  | O => Ok (l, us)
  | S i' => '(j, us') <- int31n (Z.of_nat i + 1) us ;; shuffle_loop i' (swap i (Z.to_nat j) l) us'
  end.
Definition shuffle {A} (l : list A) (us : list Z) : res (list A * list Z) :=
  shuffle_loop (length l - 1) l us.

(* ---------- frames ---------- *)
(* what a spec lists: QUICFramePing / QUICFramePadding{Length} / QUICFrameCrypto{Offset, Length} *)
Inductive frame := FPing | FPad (n : Z) | FCrypto (off len : Z).
(* what goes on the wire *)
Inductive wframe := WPing | WPad (n : Z) | WCrypto (off : Z) (data : list Z).

Definition enc_w (w : wframe) : list Z :=
  match w with
  | WPing => [1]
  | WPad n => zeros n
  | WCrypto o d => 6 :: vappend o ++ vappend (zlen d) ++ d
  end.
Definition encode (ws : list wframe) : list Z := concat (map enc_w ws).

(* ---------- QUICFrames.build ---------- *)
Definition frame_off (f : frame) : Z := match f with FCrypto o _ => o | _ => 0 end.
Definition lowest (qfs : list frame) : Z :=
  fold_left (fun m f => if frame_off f <? m then frame_off f else m) qfs 65535. (* math.MaxUint16 *)

Definition build_one (data : list Z) (base low : Z) (f : frame) : res wframe :=
  match f with
  | FPing => Ok WPing
  | FPad n => if n <? 0 then Panic else Ok (WPad n) (* make([]byte, n) *)
  | FCrypto off len =>
    let lo := off - low in
    let length := if len =? 0 then zlen data - lo else len in
    let woff := u64 (u64 off + base) in
    if (maxVarInt8 <? woff)            (* quicvarint.Append panics *)
       || (length <? 0) || (maxVarInt8 <? length) (* quicvarint.Append(uint64(length)) / make *)
       || (lo <? 0) || (zlen data <? lo) (* cryptoData[lengthOffset:] *)
    then Panic
    else
      let avail := drop lo data in
      (* make(length) then copy: at most length bytes, the rest stays zero *)
      Ok (WCrypto woff (take length avail ++ zeros (length - zlen avail)))
  end.

Definition build (data : list Z) (base : Z) (qfs : list frame) : res (list wframe) :=
  let qfs' := match qfs with [] => [FCrypto 0 0] | _ => qfs end in
  map_res (build_one data base (lowest qfs')) qfs'.

(* ---------- QUICRandomFrames.buildInternal ---------- *)
Record rf := mkRF { minPing : Z; maxPing : Z; minCrypto : Z; maxCrypto : Z; minPad : Z; maxPad : Z; rfLen : Z }.

(* for i := 0; i+1 < num; i++ { l := rand[1, lenC-(num-i-2)); append Crypto{off,l}; off += l; lenC -= l } *)
Fixpoint crypto_loop (k : nat) (i num lenC off : Z) (bs : list Z) (acc : list frame) : res (list frame * Z * list Z) :=
  match k with
  | O => Ok (acc, off, bs)
  | S k' =>
    '(l, bs') <- safe_rand 1 (u64 (lenC - u64 (num - i - 2))) bs ;;
    crypto_loop k' (i + 1) num (u64 (lenC - l)) (u64 (off + l)) bs' (acc ++ [FCrypto off l])
  end.

(* for i := 0; i+1 < num; i++ { l := rand[1, lenP-(num-i-2)); append Padding{l}; lenP -= l }; append Padding{lenP} *)
Fixpoint pad_loop (k : nat) (i num lenP : Z) (bs : list Z) (acc : list frame) : res (list frame * list Z) :=
  match k with
  | O => Ok (acc ++ [FPad lenP], bs)
  | S k' =>
    '(l, bs') <- safe_rand 1 (u64 (lenP - u64 (num - i - 2))) bs ;;
    pad_loop k' (i + 1) num (u64 (lenP - l)) bs' (acc ++ [FPad l])
  end.

Definition padding (p : rf) (lenPad : Z) (bs : list Z) (fl : list frame) : res (list frame * list Z) :=
  if 0 <? lenPad then
    '(np0, bs1) <- safe_rand (minPad p) (maxPad p) bs ;;
    let np := Z.min (Z.max np0 1) lenPad in
    pad_loop (Z.to_nat (np - 1)) 0 np lenPad bs1 fl
  else Ok (fl, bs).

Definition check_bounds (p : rf) : res unit :=
  if maxPing p <? minPing p then Err 1
  else if minCrypto p <? 1 then Err 2
  else if maxCrypto p <? minCrypto p then Err 3
  else if (minPad p <? 1) && negb (rfLen p =? 0) then Err 4
  else if (maxPad p <? minPad p) && negb (rfLen p =? 0) then Err 5
  else Ok tt.

(* the frame list before PADDING: PINGs, then the CRYPTO cuts *)
Definition rf_frames (p : rf) (data : list Z) (bs : list Z) : res (list frame * list Z) :=
  '(numPing, bs1) <- safe_rand (minPing p) (maxPing p) bs ;;
  '(nc0, bs2) <- safe_rand (minCrypto p) (maxCrypto p) bs1 ;;
  let n := zlen data in
  let nc := Z.min (Z.max nc0 1) n in
  '(cfs, off, bs3) <- crypto_loop (Z.to_nat (nc - 1)) 0 nc n 0 bs2 [] ;;
  Ok (repeat FPing (Z.to_nat numPing) ++ cfs ++ [FCrypto off 0], bs3).

Definition build_internal (p : rf) (data : list Z) (base : Z) (bs us : list Z) : res (list wframe * list Z * list Z) :=
  _ <- check_bounds p ;;
  '(fl, bs3) <- rf_frames p data bs ;;
  dry <- build data base fl ;; (* the dry run measures with the real base offset *)
  '(fl2, bs4) <- padding p (rfLen p - zlen (encode dry)) bs3 fl ;;
  '(fl3, us') <- shuffle fl2 us ;;
  ws <- build data base fl3 ;;
  Ok (ws, bs4, us').

(* QUICMultiDatagramFrames.BuildForDatagram *)
Definition md_build (specs : list rf) (idx : Z) (data : list Z) (base : Z) (bs us : list Z) : res (list wframe * list Z * list Z) :=
  match specs with
  | [] => Err 7
  | s0 :: _ =>
    let i := if zlen specs <=? idx then zlen specs - 1 else idx in
    if i <? 0 then Panic (* index out of range *)
    else build_internal (nth (Z.to_nat i) specs s0) data base bs us
  end.

(* ---------- QUICCryptoRange.resolve ---------- *)
Definition resolve (off len n : Z) : res (Z * Z) :=
  let start := if off <? 0 then n + off else off in
  if (start <? 0) || (n <? start) then Err 9
  else
    let e := if 0 <? len then start + len else n + len in
    if (n <? e) || (e <? start) then Err 10 else Ok (start, e).

(* ---------- QUICFrames.buildAbsolute ---------- *)
Definition abs_one (full : list Z) (f : frame) : res wframe :=
  match f with
  | FPing => Ok WPing
  | FPad n => if n <? 0 then Panic else Ok (WPad n)
  | FCrypto off len =>
    '(s, e) <- resolve off len (zlen full) ;;
    Ok (WCrypto s (take (e - s) (drop s full)))
  end.
Definition build_abs (full : list Z) (qfs : list frame) : res (list wframe) := map_res (abs_one full) qfs.

(* QUICFlightFrames.BuildFlight / Build *)
Definition flight_frames (dgs : list (list frame)) (first : bool) (full : list Z) : res (list (list wframe)) :=
  match dgs with
  | [] => Err 12
  | d0 :: _ => if first then (w <- build_abs full d0 ;; Ok [w]) else map_res (build_abs full) dgs
  end.

(* ---------- splitRange ---------- *)
Fixpoint split_loop (k : nat) (i n off e : Z) (bs : list Z) (acc : list frame) : res (list frame * list Z) :=
  match k with
  | O => Ok (acc ++ [FCrypto off (e - off)], bs)
  | S k' =>
    let remaining := n - i - 1 in
    '(l, bs') <- safe_rand 1 (u64 (e - off - remaining + 1)) bs ;;
    split_loop k' (i + 1) n (off + l) e bs' (acc ++ [FCrypto off l])
  end.

Definition split_range (s e minN maxN : Z) (bs : list Z) : res (list frame * list Z) :=
  '(n0, bs1) <- safe_rand minN maxN bs ;;
  let n := Z.min (Z.max n0 1) (u64 (e - s)) in
  split_loop (Z.to_nat (n - 1)) 0 n s e bs1 [].

(* ---------- QUICRandomFlightDatagram.build ---------- *)
Fixpoint ranges_loop (rs : list (Z * Z)) (p : rf) (n : Z) (bs : list Z) (acc : list frame) : res (list frame * list Z) :=
  match rs with
  | [] => Ok (acc, bs)
  | (off, len) :: rs' =>
    '(s, e) <- resolve off len n ;;
    if e <=? s then ranges_loop rs' p n bs acc
    else
      '(pieces, bs') <- split_range s e (Z.max (minCrypto p) 1) (Z.max (maxCrypto p) 1) bs ;;
      ranges_loop rs' p n bs' (acc ++ pieces)
  end.

Definition rfd_check (rs : list (Z * Z)) (p : rf) : res unit :=
  match rs with
  | [] => Err 8
  | _ =>
    if maxCrypto p <? minCrypto p then Err 3
    else if maxPing p <? minPing p then Err 1
    else if negb (rfLen p =? 0) && (minPad p <? 1) then Err 4
    else if negb (rfLen p =? 0) && (maxPad p <? minPad p) then Err 5
    else Ok tt
  end.

Definition rfd_build (d : list (Z * Z) * rf) (full : list Z) (bs us : list Z) : res (list wframe * list Z * list Z) :=
  let '(rs, p) := d in
  _ <- rfd_check rs p ;;
  '(fl0, bs1) <- ranges_loop rs p (zlen full) bs [] ;;
  match fl0 with
  | [] => Err 11
  | _ =>
    '(numPing, bs2) <- safe_rand (minPing p) (maxPing p) bs1 ;;
    let fl := fl0 ++ repeat FPing (Z.to_nat numPing) in
    dry <- build_abs full fl ;;
    '(fl2, bs3) <- padding p (rfLen p - zlen (encode dry)) bs2 fl ;;
    '(fl3, us') <- shuffle fl2 us ;;
    ws <- build_abs full fl3 ;;
    Ok (ws, bs3, us')
  end.

(* QUICRandomFlightFrames.BuildFlight: datagrams in order, one oracle threaded through *)
Fixpoint rff_loop (dgs : list (list (Z * Z) * rf)) (full : list Z) (bs us : list Z) : res (list (list wframe) * list Z * list Z) :=
  match dgs with
  | [] => Ok ([], bs, us)
  | d :: r =>
    '(w, bs1, us1) <- rfd_build d full bs us ;;
    '(ws, bs2, us2) <- rff_loop r full bs1 us1 ;;
    Ok (w :: ws, bs2, us2)
  end.

Definition rff_build (dgs : list (list (Z * Z) * rf)) (first : bool) (full : list Z) (bs us : list Z) : res (list (list wframe) * list Z * list Z) :=
  match dgs with
  | [] => Err 7
  | d0 :: _ => if first then ('(w, bs1, us1) <- rfd_build d0 full bs us ;; Ok ([w], bs1, us1)) else rff_loop dgs full bs us
  end.

(* ---------- validateInitialFlight (with clienthellod.ReadAllFrames over a bytes.Reader) ---------- *)
(* ReadNextVLI: a short read of the continuation bytes is not an error (missing bytes stay 0),
   no byte at all is io.EOF *)
Definition chd_vli (r : list Z) : option (Z * list Z) :=
  match r with
  | [] => None
  | b0 :: r1 =>
    let k := 2 ^ (b0 / 64) - 1 in
    if k =? 0 then Some (b0 mod 64, r1)
    else match r1 with
         | [] => None
         | _ => let got := take k r1 in Some (unbe (got ++ zeros (k - zlen got)) (b0 mod 64), drop k r1)
         end
  end.

Fixpoint skip_zeros (r : list Z) : list Z :=
  match r with 0 :: r' => skip_zeros r' | _ => r end.

(* parsed CRYPTO frames as (offset, announced length); None = ReadAllFrames error *)
Inductive chd_res := ChdOk (cs : list (Z * Z)) | ChdErr | ChdPanic.

Fixpoint chd_frames (fuel : nat) (r : list Z) : chd_res :=
  match fuel with
  | O => ChdErr
  | S f =>
    match chd_vli r with
    | None => ChdOk [] (* io.EOF while reading a frame type ends the list *)
    | Some (t, r1) =>
      if t =? 0 then chd_frames f (skip_zeros r1)
      else if t =? 1 then chd_frames f r1
      else if t =? 6 then
        match chd_vli r1 with
        | None => ChdErr
        | Some (off, r2) =>
          match chd_vli r2 with
          | None => ChdErr
          | Some (len, r3) =>
            if 2 ^ 48 <? len then ChdPanic (* make([]byte, Length): len out of range *)
            else match r3 with
                 | [] => ChdErr (* bytes.Reader.Read at the end is io.EOF, even for an empty slice *)
                 | _ => match chd_frames f (drop len r3) with
                        | ChdOk cs => ChdOk ((off, len) :: cs)
                        | e => e
                        end
                 end
          end
        end
      else ChdErr
    end
  end.

(* checkInitialFlightFrames: the strict reader that runs first. PADDING, PING, CRYPTO with the
   type in its one-byte encoding, offset and length read by quicvarint.Parse, the announced
   data present. Yields the frames (one WPad 1 per PADDING byte); None = rejected *)
Fixpoint strict_frames (fuel : nat) (b : list Z) : option (list wframe) :=
  match fuel with
  | O => None
  | S f =>
    match b with
    | [] => Some []
    | t :: r =>
      if t =? 0 then option_map (cons (WPad 1)) (strict_frames f r)
      else if t =? 1 then option_map (cons WPing) (strict_frames f r)
      else if t =? 6 then
        match vparse r with
        | inr (off, _, r1) =>
          match vparse r1 with
          | inr (len, _, r2) =>
            if zlen r2 <? len then None
            else option_map (cons (WCrypto off (take len r2))) (strict_frames f (drop len r2))
          | inl _ => None
          end
        | inl _ => None
        end
      else None
    end
  end.

Definition strict_ok (p : list Z) : bool :=
  match strict_frames (S (length p)) p with Some _ => true | None => false end.

Definition covered_by (cs : list (Z * Z)) (j : Z) : bool :=
  existsb (fun '(o, l) => (o <=? j) && (j <? o + l)) cs.

(* result: 0 accepted, 1..5 the error classes in the order of the code, -1 panic *)
Fixpoint validate_loop (i : nat) (ps : list (list Z)) (budgets : list Z) (n : Z) (acc : list (Z * Z)) : Z + list (Z * Z) :=
  match ps with
  | [] => inr acc
  | p :: ps' =>
    let b := nth (Nat.min i (length budgets - 1)) budgets 0 in
    if (0 <? b) && (b <? zlen p) then inl 2
    else if negb (strict_ok p) then inl 3
    else match chd_frames (S (length p)) p with
         | ChdErr => inl 3
         | ChdPanic => inl (-1)
         | ChdOk cs =>
           if existsb (fun '(o, l) => n <? o + l) cs then inl 4
           else validate_loop (S i) ps' budgets n (acc ++ cs)
         end
  end.

Definition validate (ps : list (list Z)) (budgets : list Z) (n : Z) : Z :=
  match ps, budgets with
  | [], _ => 1
  | _, [] => -1 (* budgets[min(i, len(budgets)-1)] with no budgets: index out of range (flightBudgets never returns none) *)
  | _, _ =>
    match validate_loop 0 ps budgets n [] with
    | inl c => c
    | inr cs => if forallb (covered_by cs) (map Z.of_nat (seq 0 (Z.to_nat n))) then 0 else 5
    end
  end.
