(** Frame counts of QUICRandomFrames.buildInternal: the numbers of PING and CRYPTO frames in the
    emitted payload lie in the configured bounds (CRYPTO clamped to the number of bytes). *)
From Coq Require Import List ZArith Bool Lia Permutation.
From V Require Import Gen.Params Lib.Hex Wire.Varint UFrames.Model UFrames.ProofsBase UFrames.Proofs.
Import ListNotations.
Open Scope Z_scope.

Definition fpings (fs : list frame) : list unit := flat_map (fun f => match f with FPing => [tt] | _ => [] end) fs.
Definition wpings (ws : list wframe) : list unit := flat_map (fun w => match w with WPing => [tt] | _ => [] end) ws.

Definition ping_bounds (p : rf) (x : Z) : Prop := minPing p <= x <= Z.max (minPing p) (maxPing p - 1).
Definition crypto_bounds (p : rf) (n x : Z) : Prop :=
  if n =? 0 then x = 1
  else Z.min (Z.max (minCrypto p) 1) n <= x <= Z.min (Z.max (Z.max (minCrypto p) (maxCrypto p - 1)) 1) n.

Lemma fpings_app a b : fpings (a ++ b) = fpings a ++ fpings b.
Proof. apply flat_map_app. Qed.

Lemma fpings_repeat k : length (fpings (repeat FPing k)) = k.
Proof. induction k; simpl; auto. Qed.

Lemma fpings_pchain s fs e : pchain s fs e -> fpings fs = [].
Proof.
  revert s; induction fs as [|f r IH]; intros s H; [reflexivity|].
  destruct f; simpl in H; try contradiction. destruct H as (_ & _ & H). simpl. eapply IH; eassumption.
Qed.

Lemma fpings_only_pads pads : only_pads pads -> fpings pads = [] /\ cpairs pads = [].
Proof.
  induction pads as [|f r IH]; intros H; [split; reflexivity|]. inversion H; subst.
  destruct f; try contradiction. simpl. apply IH. assumption.
Qed.

Lemma cpairs_pchain_len s fs e : pchain s fs e -> length (cpairs fs) = length fs.
Proof.
  revert s; induction fs as [|f r IH]; intros s H; [reflexivity|].
  destruct f; simpl in H; try contradiction. destruct H as (_ & _ & H). simpl. f_equal. eapply IH; eassumption.
Qed.

Lemma wpings_wire data base fs : wpings (map (wire data base) fs) = fpings fs.
Proof. induction fs as [|f r IH]; [reflexivity|]. destruct f; simpl; try assumption. f_equal. assumption. Qed.

Lemma rf_frames_counts p data bs :
  rf_wf p -> zlen data < 2 ^ 62 ->
  match rf_frames p data bs with
  | Ok (fl, _) => ping_bounds p (zlen (fpings fl)) /\ crypto_bounds p (zlen data) (zlen (cpairs fl))
  | _ => True
  end.
Proof.
  intros (H1 & H2 & H3 & H4 & H5 & H6 & H7) Hn. unfold rf_frames.
  pose proof (zlen_nonneg data) as Hn0.
  pose proof (safe_rand_spec (minPing p) (maxPing p) bs H1 ltac:(lia)) as Hr1.
  destruct (safe_rand (minPing p) (maxPing p) bs) as [[np bs1]|c|]; cbn [bind]; [|exact I|exact I].
  pose proof (safe_rand_spec (minCrypto p) (maxCrypto p) bs1 H3 ltac:(lia)) as Hr2.
  destruct (safe_rand (minCrypto p) (maxCrypto p) bs1) as [[nc0 bs2]|c|]; cbn [bind]; [|exact I|exact I].
  set (nc := Z.min (Z.max nc0 1) (zlen data)).
  pose proof (crypto_loop_spec (Z.to_nat (nc - 1)) 0 nc (zlen data) 0 bs2 []) as Hl.
  assert (Hk : (Z.of_nat (Z.to_nat (nc - 1)) = nc - 0 - 1 \/ Z.to_nat (nc - 1) = 0%nat)) by lia.
  assert (Hlen : Z.of_nat (Z.to_nat (nc - 1)) + 1 <= zlen data \/ (Z.to_nat (nc - 1) = 0%nat /\ 0 <= zlen data)) by (unfold nc; lia).
  specialize (Hl Hk Hlen ltac:(lia) ltac:(lia)).
  destruct (crypto_loop _ 0 nc (zlen data) 0 bs2 []) as [[[cfs off] bs3]|c|]; cbn [bind]; [|exact I|exact I].
  destruct Hl as (cfs' & -> & Hc & Hle & Hcl). simpl app.
  split.
  - unfold ping_bounds, zlen. rewrite !fpings_app, !app_length, fpings_repeat.
    rewrite (fpings_pchain _ _ _ Hc). simpl. lia.
  - unfold crypto_bounds, zlen. rewrite !cpairs_app, cpairs_pings, !app_length.
    rewrite (cpairs_pchain_len _ _ _ Hc), Hcl. simpl.
    destruct (Z.eqb_spec (Z.of_nat (length data)) 0) as [Hz|Hz]; unfold nc, zlen in *; lia.
Qed.

(** Counts in the emitted payload. *)
Lemma build_internal_counts p data base bs us :
  rf_wf p -> 0 <= base -> base + zlen data <= maxVarInt8 ->
  match build_internal p data base bs us with
  | Ok (ws, _, _) => ping_bounds p (zlen (wpings ws)) /\ crypto_bounds p (zlen data) (zlen (wcryptos ws))
  | _ => True
  end.
Proof.
  intros Hwf Hb Hmax. unfold build_internal.
  pose proof (zlen_nonneg data) as Hn0.
  assert (Hm : maxVarInt8 < 2 ^ 62) by (unfold maxVarInt8; lia).
  destruct (check_bounds p) as [[]|c|]; cbn [bind]; [|exact I|exact I].
  pose proof (rf_frames_spec p data bs Hwf ltac:(lia)) as Hf.
  pose proof (rf_frames_counts p data bs Hwf ltac:(lia)) as Hcnt.
  destruct (rf_frames p data bs) as [[fl bs3]|c|]; cbn [bind]; [|exact I|exact I].
  destruct (build_tiling data base fl Hb Hmax Hf) as (Hdry & _ & _).
  rewrite Hdry. cbn [bind].
  destruct Hwf as (H1 & H2 & H3 & H4 & H5 & H6 & H7).
  pose proof (padding_spec p (rfLen p - zlen (encode (map (wire data base) fl))) bs3 fl H5 H6) as Hp.
  specialize (Hp ltac:(pose proof (zlen_nonneg (encode (map (wire data base) fl))); lia)).
  destruct (padding p _ bs3 fl) as [[fl2 bs4]|c|]; cbn [bind]; [|exact I|exact I].
  destruct Hp as (pads & -> & Hpads).
  pose proof (shuffle_outcome (fl ++ pads) us) as Hs.
  destruct (shuffle (fl ++ pads) us) as [[fl3 us']|c|]; cbn [bind]; [|exact I|exact I].
  assert (Ht : tiles (zlen data) fl3) by (eapply tiles_perm; [exact Hs|apply tiles_app_pads; assumption]).
  destruct (build_tiling data base fl3 Hb Hmax Ht) as (Hbuild & _ & _).
  rewrite Hbuild. cbn [bind].
  destruct (fpings_only_pads pads Hpads) as (Epp & Epc). destruct Hcnt as (Hcp & Hcc).
  assert (E1 : zlen (wpings (map (wire data base) fl3)) = zlen (fpings fl)).
  { rewrite wpings_wire. unfold zlen. f_equal.
    transitivity (length (fpings (fl ++ pads))); [apply Permutation_length, Permutation_flat_map, Hs|].
    rewrite fpings_app, Epp, app_nil_r. reflexivity. }
  assert (E2 : zlen (wcryptos (map (wire data base) fl3)) = zlen (cpairs fl)).
  { rewrite wcryptos_wire. unfold zlen. f_equal. rewrite map_length.
    transitivity (length (cpairs (fl ++ pads))); [apply Permutation_length, Permutation_flat_map, Hs|].
    rewrite cpairs_app, Epc, app_nil_r. reflexivity. }
  rewrite E1, E2. split; assumption.
Qed.
