(** Basic lemmas for the C09 models: oracles (crypto/rand.Int range, Shuffle is a
    permutation), list slicing, the result monad. *)
From Coq Require Import List ZArith Bool Lia Permutation.
From V Require Import Gen.Params Lib.Hex Wire.Varint UFrames.Model.
Import ListNotations.
Open Scope Z_scope.

(* ---------- monad ---------- *)
Lemma bind_ok {A B} (r : res A) (f : A -> res B) b :
  bind r f = Ok b -> exists a, r = Ok a /\ f a = Ok b.
Proof. destruct r; simpl; intros H; try discriminate. eauto. Qed.

Lemma map_res_ok {A B} (f : A -> res B) (g : A -> B) l :
  (forall a, In a l -> f a = Ok (g a)) -> map_res f l = Ok (map g l).
Proof.
  induction l as [|a l IH]; intros H; simpl; [reflexivity|].
  rewrite (H a (or_introl eq_refl)). simpl. rewrite IH by (intros; apply H; right; assumption).
  reflexivity.
Qed.

(* ---------- slicing ---------- *)
Lemma zlen_nonneg {A} (l : list A) : 0 <= zlen l.
Proof. unfold zlen. lia. Qed.

Lemma zlen_app {A} (a b : list A) : zlen (a ++ b) = zlen a + zlen b.
Proof. unfold zlen. rewrite app_length. lia. Qed.

Lemma zlen_take {A} n (l : list A) : 0 <= n <= zlen l -> zlen (take n l) = n.
Proof. unfold zlen, take. intros H. rewrite firstn_length. lia. Qed.

Lemma zlen_drop {A} n (l : list A) : 0 <= n <= zlen l -> zlen (drop n l) = zlen l - n.
Proof. unfold zlen, drop. intros H. rewrite skipn_length. lia. Qed.

Lemma drop_0 {A} (l : list A) : drop 0 l = l.
Proof. reflexivity. Qed.

Lemma drop_all {A} (l : list A) : drop (zlen l) l = [].
Proof. unfold drop, zlen. rewrite Nat2Z.id. apply skipn_all. Qed.

Lemma skipn_skipn' {A} a b (l : list A) : skipn b (skipn a l) = skipn (a + b) l.
Proof.
  revert l; induction a as [|a IH]; intros l; [reflexivity|].
  destruct l as [|x l]; simpl; [destruct b; reflexivity|apply IH].
Qed.

Lemma drop_drop {A} a b (l : list A) : 0 <= a -> 0 <= b -> drop b (drop a l) = drop (a + b) l.
Proof.
  intros Ha Hb. unfold drop. rewrite skipn_skipn'. f_equal. lia.
Qed.

Lemma take_drop_split {A} n (l : list A) : take n l ++ drop n l = l.
Proof. unfold take, drop. apply firstn_skipn. Qed.

Lemma zeros_nonpos n : n <= 0 -> zeros n = [].
Proof. intros H. unfold zeros. replace (Z.to_nat n) with 0%nat by lia. reflexivity. Qed.

(* ---------- crypto/rand.Int ---------- *)
Lemma unbe256_acc_nonneg l acc : 0 <= acc -> 0 <= fold_left (fun a x => a * 256 + x mod 256) l acc.
Proof.
  revert acc; induction l as [|x l IH]; intros acc H; simpl; [assumption|].
  apply IH. pose proof (Z.mod_pos_bound x 256). lia.
Qed.

Lemma rand_loop_range fuel mx k b bs v bs' :
  rand_loop fuel mx k b bs = Ok (v, bs') -> 0 <= v < mx.
Proof.
  revert bs; induction fuel as [|f IH]; intros bs H; simpl in H; [discriminate|].
  destruct (length bs <? k)%nat; [discriminate|].
  destruct (Z.ltb_spec (unbe256 (mask_first b (firstn k bs))) mx) as [Hlt|Hge].
  - inversion H; subst. split; [|assumption]. unfold unbe256. apply unbe256_acc_nonneg. lia.
  - eapply IH; eassumption.
Qed.

Lemma rand_loop_nopanic fuel mx k b bs : rand_loop fuel mx k b bs <> Panic.
Proof.
  revert bs; induction fuel as [|f IH]; intros bs; simpl; [discriminate|].
  destruct (length bs <? k)%nat; [discriminate|].
  destruct (_ <? mx); [discriminate|apply IH].
Qed.

Lemma rand_loop_err fuel mx k b bs c : rand_loop fuel mx k b bs = Err c -> c = 6.
Proof.
  revert bs; induction fuel as [|f IH]; intros bs; simpl; [congruence|].
  destruct (length bs <? k)%nat; [congruence|].
  destruct (_ <? mx); [discriminate|apply IH].
Qed.

Lemma rand_int_range mx bs v bs' : 1 <= mx -> rand_int mx bs = Ok (v, bs') -> 0 <= v < mx.
Proof.
  unfold rand_int. intros Hmx H. destruct (Z.leb_spec (mx - 1) 0).
  - inversion H; subst. lia.
  - eapply rand_loop_range; eassumption.
Qed.

(* the three possible outcomes of cryptoSafeRandUint64 on in-range arguments *)
Lemma safe_rand_spec mn mx bs :
  0 <= mn -> mx < 2 ^ 63 ->
  match safe_rand mn mx bs with
  | Ok (v, _) => (mx <= mn /\ v = mn) \/ (mn < mx /\ mn <= v < mx)
  | Err c => c = 6
  | Panic => False
  end.
Proof.
  intros Hmn Hmx. unfold safe_rand. destruct (Z.leb_spec mx mn); [left; lia|].
  destruct (Z.leb_spec (2 ^ 63) (mx - mn)); [lia|].
  destruct (rand_int (mx - mn) bs) as [[v bs']|c|] eqn:E; simpl.
  - right. apply rand_int_range in E; [|lia]. unfold u64. rewrite Z.mod_small by lia. lia.
  - unfold rand_int in E. destruct (mx - mn - 1 <=? 0); [discriminate|]. eapply rand_loop_err; eassumption.
  - unfold rand_int in E. destruct (mx - mn - 1 <=? 0); [discriminate|]. eapply rand_loop_nopanic; eassumption.
Qed.

(* ---------- Shuffle ---------- *)
Lemma set_nth_perm {A} (l : list A) i a b :
  nth_error l i = Some a -> Permutation (a :: set_nth i b l) (b :: l).
Proof.
  revert i; induction l as [|c l IH]; intros [|i] H; simpl in *; try discriminate.
  - inversion H; subst. apply perm_swap.
  - etransitivity; [apply perm_swap|]. etransitivity; [apply perm_skip, IH, H|]. apply perm_swap.
Qed.

Lemma nth_error_set_nth_same {A} (l : list A) i x a : nth_error l i = Some a -> nth_error (set_nth i x l) i = Some x.
Proof. revert i; induction l as [|c l IH]; intros [|i] H; simpl in *; try discriminate; auto. Qed.

Lemma nth_error_set_nth_other {A} (l : list A) i j x : i <> j -> nth_error (set_nth j x l) i = nth_error l i.
Proof.
  revert i j; induction l as [|c l IH]; intros [|i] [|j] H; simpl; auto; try congruence.
Qed.

Lemma swap_perm {A} i j (l : list A) : Permutation (swap i j l) l.
Proof.
  unfold swap. destruct (nth_error l i) as [a|] eqn:Ei; [|reflexivity].
  destruct (nth_error l j) as [b|] eqn:Ej; [|reflexivity].
  assert (H1 : Permutation (b :: set_nth j a l) (a :: l)) by (apply set_nth_perm; assumption).
  assert (Ei' : nth_error (set_nth j a l) i = Some a).
  { destruct (Nat.eq_dec i j) as [->|Hn].
    - eapply nth_error_set_nth_same; eassumption.
    - rewrite nth_error_set_nth_other by assumption. assumption. }
  assert (H2 : Permutation (a :: set_nth i b (set_nth j a l)) (b :: set_nth j a l)) by (apply set_nth_perm; assumption).
  apply Permutation_cons_inv with (a := a). etransitivity; [exact H2|exact H1].
Qed.

Lemma shuffle_loop_perm {A} i (l : list A) us l' us' :
  shuffle_loop i l us = Ok (l', us') -> Permutation l' l.
Proof.
  revert l us; induction i as [|i IH]; intros l us H; simpl in H.
  - inversion H; subst. reflexivity.
  - apply bind_ok in H as [[j us1] [_ H]]. apply IH in H. etransitivity; [exact H|apply swap_perm].
Qed.

Lemma shuffle_perm {A} (l : list A) us l' us' : shuffle l us = Ok (l', us') -> Permutation l' l.
Proof. apply shuffle_loop_perm. Qed.

Lemma int31n_loop_nopanic fuel n t p us : int31n_loop fuel n t p us <> Panic.
Proof.
  revert p us; induction fuel as [|f IH]; intros p us; simpl.
  - destruct (_ <? t); discriminate.
  - destruct (_ <? t); [|discriminate]. destruct us; [discriminate|apply IH].
Qed.

Lemma int31n_loop_err fuel n t p us c : int31n_loop fuel n t p us = Err c -> c = 90.
Proof.
  revert p us; induction fuel as [|f IH]; intros p us; simpl.
  - destruct (_ <? t); congruence.
  - destruct (_ <? t); [|discriminate]. destruct us; [congruence|apply IH].
Qed.

Lemma int31n_outcome n us :
  match int31n n us with Panic => False | Err c => c = 90 | Ok _ => True end.
Proof.
  unfold int31n. destruct us as [|v us]; [reflexivity|].
  destruct (_ <? n); [|exact I].
  destruct (int31n_loop _ _ _ _ us) as [[j us']|c|] eqn:E; [exact I| |].
  - eapply int31n_loop_err; eassumption.
  - eapply int31n_loop_nopanic; eassumption.
Qed.

Lemma shuffle_loop_outcome {A} i (l : list A) us :
  match shuffle_loop i l us with Panic => False | Err c => c = 90 | Ok _ => True end.
Proof.
  revert l us; induction i as [|i IH]; intros l us; [exact I|].
  cbn [shuffle_loop]. pose proof (int31n_outcome (Z.of_nat (S i) + 1) us) as H.
  destruct (int31n (Z.of_nat (S i) + 1) us) as [[j us']|c|]; cbn [bind]; [apply IH|assumption|assumption].
Qed.

Lemma shuffle_outcome {A} (l : list A) us :
  match shuffle l us with Panic => False | Err c => c = 90 | Ok (l', _) => Permutation l' l end.
Proof.
  pose proof (shuffle_loop_outcome (length l - 1) l us) as H. unfold shuffle.
  destruct (shuffle_loop (length l - 1) l us) as [[l' us']|c|] eqn:E; try assumption.
  eapply shuffle_loop_perm; eassumption.
Qed.
