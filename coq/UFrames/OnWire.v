(** What uPacketPacker.MarshalInitialPacketPayload puts into ONE Initial packet, for every kind
    of in-tree frame builder, composed from pieces that are each tied to the code:
      - which frames the packer selected for the packet (first flight: UPacker.Model.flightLoop,
        C10; retransmissions: UDial.Retx.rstep, C02) enters as [frames];
      - UDial.Retx.marshal_path (C02) decides "as packed" or "re-framed by the builder";
      - the builders are UFrames.Model.build / md_build (C09).
    New here: [marshal] itself (reassembly of the slice, base offset, pass-through layout),
    replayed against the real packer by unit `uwire`.  Executable definitions only. *)
From Coq Require Import List ZArith Bool.
From V Require Import Gen.Params Lib.Hex Wire.Varint UFrames.Model UFrames.ScramModel UDial.Retx.
Import ListNotations.
Open Scope Z_scope.

(* InitialPacketSpec.FrameBuilder, by what MarshalInitialPacketPayload's type switches see *)
Inductive sbuilder :=
| SBPass                          (* nil, or an empty QUICFrames: pass-through *)
| SBFrames (qfs : list frame)     (* a non-empty QUICFrames (QUICFrameBuilderEx) *)
| SBRandom (specs : list rf)      (* *QUICRandomFrames (one entry) or *QUICMultiDatagramFrames *)
| SBFlight.                       (* a QUICFlightFrameBuilder: the flight was planned up front *)

Definition to_lframe (f : frame) : lframe := match f with FCrypto o l => LCrypto o l | _ => LOther end.
Definition layout_of (sb : sbuilder) : option (list lframe) :=
  match sb with SBFrames qfs => Some (map to_lframe qfs) | _ => None end.
Definition is_flight (sb : sbuilder) : bool := match sb with SBFlight => true | _ => false end.

(* a CRYPTO frame of the packer carries the stream's bytes (C09_default_splitter; the
   retransmission queue keeps the frames it was given) *)
Definition crypto_of (hello : list Z) (r : range) : wframe := WCrypto (fst r) (slice hello (fst r) (snd r)).

(* marshalFramesAsPacked: a PTO probe with nothing to retransmit is a lone PING *)
Definition as_packed (hello : list Z) (frames : list range) (ping : bool) : list wframe :=
  (if ping then [WPing] else []) ++ map (crypto_of hello) frames.

(* clienthellod.ReassembleCRYPTOFrames on frames that form one range: data in offset order *)
Definition reassemble (hello : list Z) (frames : list range) : list Z :=
  concat (map (fun r => slice hello (fst r) (snd r)) (sort_r frames)).

(* baseOffset: the lowest CRYPTO offset (math.MaxUint64 = none = 0) *)
Definition min_off (frames : list range) : Z :=
  let m := fold_right (fun r a => Z.min (fst r) a) (2 ^ 64 - 1) frames in
  if m =? 2 ^ 64 - 1 then 0 else m.

Definition marshal (sb : sbuilder) (hello : list Z) (planned : bool) (idx : Z) (frames : list range) (ping : bool)
           (bs us : list Z) : res (list wframe * list Z * list Z) :=
  match marshal_path (planned || is_flight sb) (layout_of sb) frames with
  | AsPacked => Ok (as_packed hello frames ping, bs, us)
  | Reframed =>
    let data := reassemble hello frames in
    let base := min_off frames in
    match sb with
    | SBPass =>
      (* qfs.Build(cryptoData): the popped frames as a layout with absolute offsets, base 0 *)
      ws <- build data 0 (map (fun r => FCrypto (fst r) (snd r)) frames) ;; Ok (ws, bs, us)
    | SBFrames qfs => ws <- build data base qfs ;; Ok (ws, bs, us)
    | SBRandom specs => md_build specs idx data base bs us
    | SBFlight => Ok (as_packed hello frames ping, bs, us)
    end
  end.

(* validateFrameBuilder, called by UTransport.dial (fixes/C09-validate-random-frames-at-dial.patch):
   every entry of a randomizing builder is checked before a connection exists *)
Fixpoint check_all (specs : list rf) : res unit :=
  match specs with
  | [] => Ok tt
  | p :: r => _ <- check_bounds p ;; check_all r
  end.

Definition dial_check (sb : sbuilder) : res unit :=
  match sb with
  | SBRandom [] => Err 7
  | SBRandom specs => check_all specs
  | _ => Ok tt
  end.

(* ---------- uPacketPacker.planInitialFlight + packPlannedInitial (flight builders) ---------- *)
Inductive fbuilder :=
| FBFrames (dgs : list (list frame))                 (* QUICFlightFrames *)
| FBRandom (dgs : list (list (Z * Z) * rf)).         (* QUICRandomFlightFrames *)

Definition build_flight (fb : fbuilder) (hello : list Z) (bs us : list Z) : res (list (list wframe) * list Z * list Z) :=
  match fb with
  | FBFrames dgs => wss <- flight_frames dgs false hello ;; Ok (wss, bs, us)
  | FBRandom dgs => rff_build dgs false hello bs us
  end.

(* planInitialFlight on a fully queued ClientHello: BuildFlight with the budgets of flightBudgets
   (C10; logged input here), then validateInitialFlight.  Ok = p.flightPayloads;
   Err c: a BuildFlight error class, or 100 + the class of validateInitialFlight.
   An empty stream plans nothing. *)
Definition plan_flight (fb : fbuilder) (hello : list Z) (budgets : list Z) (bs us : list Z)
  : res (list (list wframe) * list Z * list Z) :=
  if zlen hello =? 0 then Ok ([], bs, us)
  else
    '(wss, bs', us') <- build_flight fb hello bs us ;;
    let v := validate (map encode wss) budgets (zlen hello) in
    if v =? 0 then Ok (wss, bs', us')
    else if v =? -1 then Panic
    else Err (100 + v).

(* what goes on the wire for the planned flight: packPlannedInitial sends the payloads in order;
   a rejected plan (PackCoalescedPacket returns the error) sends nothing, and nothing is left
   queued to be sent later (PopAllCryptoData emptied the stream) *)
Definition flight_sent (fb : fbuilder) (hello : list Z) (budgets : list Z) (bs us : list Z) : list (list wframe) :=
  match plan_flight fb hello budgets bs us with
  | Ok (wss, _, _) => wss
  | _ => []
  end.
