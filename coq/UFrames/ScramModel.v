(** Model of the client's Initial crypto stream (crypto_stream.go): the default splitter
    (baseCryptoStream.PopCryptoFrame), the anti-DPI ClientHello scrambler
    (initialCryptoStream.Write / HasData / PopCryptoFrame) and findSNIAndECH (sni.go).
    Executable definitions only. *)
From Coq Require Import List ZArith Bool Lia.
From V Require Import Gen.Params Lib.Hex Wire.Varint UFrames.Model.
Import ListNotations.
Open Scope Z_scope.

Definition Inv : Z := uframes_InvalidByteCount.

(* ---------- findSNIAndECH ---------- *)
Definition byte_at (d : list Z) (i : Z) : Z := nth (Z.to_nat i) d 0.
Definition u16_at (d : list Z) (i : Z) : Z := byte_at d i * 256 + byte_at d (i + 1).

(* result class: 0 ok, 1 io.ErrUnexpectedEOF, 2 other error *)
Record sni_res := mkSni { sCls : Z; sPos : Z; sLen : Z; ePos : Z }.
Definition sni_eof := mkSni 1 0 0 0.
Definition sni_err := mkSni 2 0 0 0.

(* the server-name list loop; sd = absolute position of sniData, el = len(sniData).
   Returns (eof?, found position or -1, last sniLen read) *)
Fixpoint names_loop (fuel : nat) (d : list Z) (sd el nll listPos sniLen : Z) : bool * Z * Z :=
  match fuel with
  | O => (false, -1, sniLen)
  | S f =>
    if listPos + 3 <=? nll + 2 then
      let nameType := byte_at d (sd + listPos) in
      let sl := u16_at d (sd + listPos + 1) in
      if el <? listPos + 3 + sl then (true, -1, sl)
      else if nameType =? 0 then (false, sd + listPos + 3, sl)
      else names_loop f d sd el nll (listPos + 3 + sl) sl
    else (false, -1, sniLen)
  end.

Fixpoint ext_loop (fuel : nat) (d : list Z) (extStart el extPos sniPos sniLen echPos : Z) : sni_res :=
  match fuel with
  | O => mkSni 0 sniPos sniLen echPos
  | S f =>
    if extPos + 4 <=? el then
      let typ := u16_at d (extStart + extPos) in
      let extLen := u16_at d (extStart + extPos + 2) in
      if el <? extPos + 4 + extLen then sni_eof
      else
        let next := extPos + 4 + extLen in
        if typ =? uframes_extTypeSNI then
          if negb (sniPos =? -1) then sni_err
          else if extLen <? 2 then sni_eof
          else
            let sd := extStart + extPos + 4 in
            let nll := u16_at d sd in
            if negb (extLen =? 2 + nll) then sni_eof
            else
              match names_loop (S (Z.to_nat extLen)) d sd extLen nll 2 sniLen with
              | (true, _, _) => sni_eof
              | (false, sp, sl) =>
                (* `if sniPos == 0` in the code can never hold: sniPos starts at -1 *)
                if negb (sp =? -1) && negb (echPos =? -1) then mkSni 0 sp sl echPos
                else ext_loop f d extStart el next sp sl echPos
              end
        else if typ =? uframes_extTypeECH then
          if negb (echPos =? -1) then sni_err
          else
            let ep := extStart + extPos in
            if negb (sniPos =? -1) then mkSni 0 sniPos sniLen ep
            else ext_loop f d extStart el next sniPos sniLen ep
        else ext_loop f d extStart el next sniPos sniLen echPos
    else mkSni 0 sniPos sniLen echPos
  end.

Definition find_sni_ech (d : list Z) : sni_res :=
  let n := zlen d in
  if n <? 4 then sni_eof
  else if negb (byte_at d 0 =? 1) then sni_err
  else
    let hl := byte_at d 1 * 65536 + byte_at d 2 * 256 + byte_at d 3 in
    if negb (n =? 4 + hl) then sni_eof
    else
      let p := 4 in
      if n <? p + 2 then sni_eof else let p := p + 2 in
      if n <? p + 32 then sni_eof else let p := p + 32 in
      if n <? p + 1 then sni_eof else
      let sid := byte_at d p in let p := p + 1 in
      if n <? p + sid then sni_eof else let p := p + sid in
      if n <? p + 2 then sni_eof else
      let cs := u16_at d p in let p := p + 2 in
      if n <? p + cs then sni_eof else let p := p + cs in
      if n <? p + 1 then sni_eof else
      let cm := byte_at d p in let p := p + 1 in
      if n <? p + cm then sni_eof else let p := p + cm in
      if n <? p + 2 then sni_eof else
      let el := u16_at d p in let p := p + 2 in
      if n <? p + el then sni_eof
      else ext_loop (S (Z.to_nat el)) d p el 0 (-1) 0 (-1).

(* ---------- the stream ---------- *)
Record sst := mkS {
  buf : list Z;        (* writeBuf *)
  wo : Z;              (* writeOffset *)
  scr : bool;          (* scramble *)
  send : Z;            (* end *)
  c0s : Z; c0e : Z; c1s : Z; c1e : Z (* cuts[0], cuts[1] *)
}.

Definition init (scramble : bool) : sst := mkS [] 0 scramble 0 Inv Inv Inv Inv.

Definition has_data (s : sst) : bool :=
  if scr s && (wo s =? 0) && (c0s s =? Inv) then false else 0 <? zlen (buf s).

(* handshakeMessageComplete: at least one whole handshake message (type, 24-bit length, body) *)
Definition message_complete (d : list Z) : bool :=
  (4 <=? zlen d) && (4 + (byte_at d 1 * 65536 + byte_at d 2 * 256 + byte_at d 3) <=? zlen d).

(* initialCryptoStream.Write; returns the state and the error class (0 nil, 2 error) *)
Definition write (s : sst) (p : list Z) : sst * Z :=
  let b := buf s ++ p in
  let s1 := mkS b (wo s) (scr s) (send s) (c0s s) (c0e s) (c1s s) (c1e s) in
  if negb (scr s) then (s1, 0)
  else if negb (c0s s =? Inv) then (s1, 0)
  else
    let r := find_sni_ech b in
    if sCls r =? 1 then
      (* not parsable (yet); but a whole handshake message that does not parse never will:
         scrambling is switched off and the message is sent as it is
         (fixes/C09-scrambler-unparsable-complete-hello.patch) *)
      if (send s =? 0) && message_complete b
      then (mkS b (wo s) false (send s) (c0s s) (c0e s) (c1s s) (c1e s), 0)
      else (s1, 0)
    else if negb (sCls r =? 0) then (s1, 2)
    else if (sPos r =? -1) && (ePos r =? -1) then (mkS b (wo s) false (send s) (c0s s) (c0e s) (c1s s) (c1e s), 0)
    else
      let e := zlen b in
      (* cuts[0] is only set when a host name was found *)
      let '(a0, a1) := if sPos r =? -1 then (c0s s, c0e s) else (sPos r + sLen r / 2, sPos r + sLen r) in
      let '(b0, b1) := if 0 <? ePos r then (ePos r + 1, Z.min (ePos r + 1 + 16) e) else (c1s s, c1e s) in
      (* slices.SortFunc on two elements: one comparison cmp(cuts[1], cuts[0]) < 0, with the
         comparator that puts invalid cuts last *)
      if negb (b0 =? Inv) && ((a0 =? Inv) || negb (a0 <? b0)) then (mkS b (wo s) true e b0 b1 a0 a1, 0)
      else (mkS b (wo s) true e a0 a1 b0 b1, 0).

(* wire.CryptoFrame.MaxDataLen *)
Definition max_data_len (off maxLen : Z) : Z :=
  let headerLen := 1 + vlen off + 1 in
  if maxLen <? headerLen then 0
  else
    let m := maxLen - headerLen in
    if vlen m =? 1 then m else m - 1.

Definition slice (b : list Z) (from n : Z) : list Z := take n (drop from b).
Definition in_buf (b : list Z) (from n : Z) : bool := (0 <=? from) && (from + n <=? zlen b).

(* baseCryptoStream.PopCryptoFrame *)
Definition base_pop (s : sst) (maxLen : Z) : res (sst * option (Z * list Z)) :=
  let n := Z.min (max_data_len (wo s) maxLen) (zlen (buf s)) in
  if n <=? 0 then Ok (s, None)
  else Ok (mkS (drop n (buf s)) (wo s + n) (scr s) (send s) (c0s s) (c0e s) (c1s s) (c1e s),
           Some (wo s, take n (buf s))).

Definition finish (s : sst) : sst :=
  mkS (drop (send s) (buf s)) (wo s) false Inv (c0s s) (c0e s) (c1s s) (c1e s).

(* phase 2 drops a cut that is valid but empty (start >= end) when it meets it *)
Definition drop_empty0 (s : sst) : sst :=
  if negb (c0s s =? Inv) && (c0e s <=? c0s s) then mkS (buf s) (wo s) (scr s) (send s) Inv Inv (c1s s) (c1e s) else s.
Definition drop_empty1 (s : sst) : sst :=
  if negb (c1s s =? Inv) && (c1e s <=? c1s s) then mkS (buf s) (wo s) (scr s) (send s) (c0s s) (c0e s) Inv Inv else s.

(* the part of phase 2 that sends from one (valid, non-empty) cut; which = false: cuts[0],
   true: cuts[1] (then cuts[0] is invalid) *)
Definition pop_cut (s : sst) (maxLen : Z) (which : bool) : res (sst * option (Z * list Z)) :=
  let cs := if which then c1s s else c0s s in
  let ce := if which then c1e s else c0e s in
  let n := Z.min (max_data_len cs maxLen) (ce - cs) in
  if n <=? 0 then Ok (s, None)
  else if negb (in_buf (buf s) cs n) then Panic
  else
    let data := slice (buf s) cs n in
    let done := (cs + n =? ce) in
    let ns := if done then Inv else cs + n in
    let ne := if done then Inv else ce in
    (* after cuts[0] the loop still looks at cuts[1]: an empty one is dropped, a non-empty one
       keeps foundCuts true *)
    let s' := if which then mkS (buf s) (wo s) (scr s) (send s) (c0s s) (c0e s) ns ne
              else drop_empty1 (mkS (buf s) (wo s) (scr s) (send s) ns ne (c1s s) (c1e s)) in
    let more := negb done || (negb which && negb (c1s s' =? Inv)) in
    Ok (if more then s' else finish s', Some (cs, data)).

(* initialCryptoStream.PopCryptoFrame *)
Definition pop (s : sst) (maxLen : Z) : res (sst * option (Z * list Z)) :=
  if negb (scr s) then base_pop s maxLen
  else if wo s =? send s then
    let s0 := drop_empty0 s in
    if negb (c0s s0 =? Inv) then pop_cut s0 maxLen false
    else
      let s1 := drop_empty1 s0 in
      if negb (c1s s1 =? Inv) then pop_cut s1 maxLen true
      else base_pop (finish s1) maxLen (* only empty cuts were left: f == nil *)
  else
    let '(ns, ne) :=
      if negb (c0s s =? Inv) && (wo s <? c0s s) then (c0s s, c0e s)
      else if negb (c1s s =? Inv) && (wo s <? c1s s) then (c1s s, c1e s)
      else (Inv, Inv) in
    let maxOffset := if ns =? Inv then send s else ns in
    let n := Z.min (max_data_len (wo s) maxLen) (maxOffset - wo s) in
    if n <=? 0 then Ok (s, None)
    else if negb (in_buf (buf s) (wo s) n) then Panic
    else
      let w' := wo s + n in
      let w'' := if w' =? ns then ne else w' in
      Ok (mkS (buf s) w'' (scr s) (send s) (c0s s) (c0e s) (c1s s) (c1e s), Some (wo s, slice (buf s) (wo s) n)).
