(** Correspondence glue for unit `uwire`: every Initial packet that went through
    uPacketPacker.MarshalInitialPacketPayload (first flight and retransmissions), replayed by
    UFrames.OnWire.marshal under the logged oracles. *)
From Coq Require Import List ZArith Bool String.
From V Require Import Lib.Hex.
From V Require Export UFrames.Model UDial.Retx UFrames.OnWire.
Import ListNotations.
Open Scope Z_scope.

Inductive wpkt := WPkt (planned : bool) (idx : Z) (frames : list (Z * Z)) (ping : bool) (rnd : string) (us : list Z) (wire : string).

(* builder terms as the harness prints them: SBRandom carries parameter lists *)
Inductive sbterm := SBPass | SBFrames (qfs : list frame) | SBRandom (specs : list (list Z)) | SBFlight.

(* flight builder terms as the harness prints them *)
Inductive fbterm := FBFrames (dgs : list (list frame)) | FBRandom (dgs : list (list (Z * Z) * list Z)).
Inductive planres := POk (wires : list string) | PErr (cls : Z) | PPanic.

Inductive case :=
| WireCase (sb : sbterm) (hello : string) (pkts : list wpkt)
| DialCase (specs : list (list Z)) (cls : Z)
| PlanCase (fb : fbterm) (hello : string) (budgets : list Z) (rnd : string) (us : list Z) (r : planres).   (* what UTransport.Dial said about a randomizing builder: 0 = not refused *)

Definition rf_of (l : list Z) : rf :=
  match l with
  | [a; b; c; d; e; f; g] => mkRF a b c d e f g
  | _ => mkRF 0 0 0 0 0 0 0
  end.

Definition sb_of (t : sbterm) : sbuilder :=
  match t with
  | SBPass => OnWire.SBPass
  | SBFrames q => OnWire.SBFrames q
  | SBRandom ss => OnWire.SBRandom (map rf_of ss)
  | SBFlight => OnWire.SBFlight
  end.

Fixpoint all_zero (l : list Z) : bool := match l with [] => true | x :: r => (x =? 0) && all_zero r end.

(* the wire payload is what marshal returned, followed by the exact-size PADDING of
   appendInitialPacketPayload (C10) *)
Fixpoint prefix_then_zeros (p w : list Z) : bool :=
  match p, w with
  | [], _ => all_zero w
  | x :: p', y :: w' => (x =? y) && prefix_then_zeros p' w'
  | _, [] => false
  end.

Definition pkt_ok (sb : sbuilder) (hello : list Z) (p : wpkt) : bool :=
  let '(WPkt planned idx frames ping rnd us wire) := p in
  match marshal sb hello planned idx frames ping (hx rnd) us with
  | Ok (ws, bs, _) => prefix_then_zeros (encode ws) (hx wire) && (zlen bs =? 0)
  | _ => false
  end.

(* index of the first packet on which model and implementation differ *)
Fixpoint first_bad (i : nat) (sb : sbuilder) (hello : list Z) (ps : list wpkt) : option nat :=
  match ps with
  | [] => None
  | p :: r => if pkt_ok sb hello p then first_bad (S i) sb hello r else Some i
  end.

Definition fb_of (t : fbterm) : fbuilder :=
  match t with
  | FBFrames d => OnWire.FBFrames d
  | FBRandom d => OnWire.FBRandom (map (fun '(rs, p) => (rs, rf_of p)) d)
  end.

Fixpoint wires_ok (ws : list (list wframe)) (wires : list (list Z)) : bool :=
  match ws, wires with
  | [], [] => true
  | w :: ws', x :: wires' => prefix_then_zeros (encode w) x && wires_ok ws' wires'
  | _, _ => false
  end.

Definition plan_ok (fb : fbuilder) (hello : list Z) (budgets : list Z) (bs us : list Z) (r : planres) : bool :=
  match plan_flight fb hello budgets bs us, r with
  | Ok (wss, bs', _), POk wires =>
    wires_ok wss (map hx wires) && (zlen bs' =? 0)
    (* the datagrams sent are exactly flight_sent *)
    && wires_ok (flight_sent fb hello budgets bs us) (map hx wires)
  | Err c, PErr c' => (c =? c') && match flight_sent fb hello budgets bs us with [] => true | _ => false end
  | Panic, PPanic => true
  | _, _ => false
  end.

Definition model_obs (c : case) : option nat :=
  match c with
  | WireCase sb h ps => first_bad 0 (sb_of sb) (hx h) ps
  | DialCase ss cls =>
    match dial_check (OnWire.SBRandom (map rf_of ss)) with
    | Ok _ => if cls =? 0 then None else Some 0%nat
    | Err c => if cls =? c then None else Some 0%nat
    | Panic => Some 0%nat
    end
  | PlanCase fb h budgets rnd us r => if plan_ok (fb_of fb) (hx h) budgets (hx rnd) us r then None else Some 0%nat
  end.

Definition check_case (c : case) : bool := match model_obs c with None => true | Some _ => false end.
