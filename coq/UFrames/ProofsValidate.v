(** validateInitialFlight accepts a flight produced by the in-tree flight builders only when the
    CRYPTO frames of its datagrams cover the whole stream. Rests on a parse round trip for the
    model of clienthellod.ReadAllFrames: when it succeeds on [encode ws] it returns exactly
    the (offset, length) pairs of the CRYPTO frames of [ws]. *)
From Coq Require Import List ZArith Bool Lia.
From V Require Import Gen.Params Lib.Hex Wire.Varint Wire.VarintProofs UFrames.Model UFrames.ProofsBase
  UFrames.Proofs UFrames.ProofsFlight UFrames.ScramModel UFrames.ProofsSni.
Import ListNotations.
Open Scope Z_scope.

Lemma chd_full_read (n : nat) (r : list Z) (acc : Z) :
  (0 < n)%nat -> (n <= length r)%nat ->
  match r with
  | [] => None
  | _ => let got := take (Z.of_nat n) r in
         Some (unbe (got ++ zeros (Z.of_nat n - zlen got)) acc, drop (Z.of_nat n) r)
  end = Some (unbe (firstn n r) acc, skipn n r).
Proof.
  intros Hn Hle. destruct r as [|x r']; [simpl in Hle; lia|]. cbv zeta.
  unfold take, drop. rewrite Nat2Z.id.
  rewrite zeros_nonpos by (unfold zlen; rewrite firstn_length; lia). rewrite app_nil_r. reflexivity.
Qed.

Lemma chd_vli_of_vparse b0 r v n rest :
  0 <= b0 < 256 -> vparse (b0 :: r) = inr (v, n, rest) -> chd_vli (b0 :: r) = Some (v, rest).
Proof.
  intros Hb. unfold vparse, chd_vli.
  assert (Hk : b0 / 64 = 0 \/ b0 / 64 = 1 \/ b0 / 64 = 2 \/ b0 / 64 = 3).
  { assert (0 <= b0 / 64 < 4) by (split; [apply Z.div_pos; lia|apply Z.div_lt_upper_bound; lia]). lia. }
  destruct Hk as [Hk|[Hk|[Hk|Hk]]]; rewrite Hk;
    repeat match goal with
           | |- context [Z.eqb ?a ?b] => let x := eval compute in (Z.eqb a b) in change (Z.eqb a b) with x
           end; cbv iota.
  - change (2 ^ 0 - 1) with 0. simpl. intros H. inversion H; subst. reflexivity.
  - destruct (length r <? 1)%nat eqn:E; [discriminate|]. apply Nat.ltb_ge in E. intros H. inversion H; subst.
    change (2 ^ 1 - 1) with (Z.of_nat 1). apply (chd_full_read 1 r (b0 mod 64)); lia.
  - destruct (length r <? 3)%nat eqn:E; [discriminate|]. apply Nat.ltb_ge in E. intros H. inversion H; subst.
    change (2 ^ 2 - 1) with (Z.of_nat 3). apply (chd_full_read 3 r (b0 mod 64)); lia.
  - destruct (length r <? 7)%nat eqn:E; [discriminate|]. apply Nat.ltb_ge in E. intros H. inversion H; subst.
    change (2 ^ 3 - 1) with (Z.of_nat 7). apply (chd_full_read 7 r (b0 mod 64)); lia.
Qed.

Lemma chd_vli_vappend v rest : vwf v -> chd_vli (vappend v ++ rest) = Some (v, rest).
Proof.
  intros Hv. pose proof (vparse_vappend v rest Hv) as Hp. pose proof (vappend_bytes v Hv) as Hb.
  pose proof (vappend_length v Hv) as Hl. pose proof (vlen_cases v Hv) as Hc.
  destruct (vappend v) as [|b0 t]; [simpl in Hl; lia|]. inversion Hb; subst.
  simpl app in *. eapply chd_vli_of_vparse; [assumption|exact Hp].
Qed.

(* ---------- ReadAllFrames on a serialised frame list ---------- *)
Definition wf_w (w : wframe) : Prop :=
  match w with
  | WPing => True
  | WPad k => 0 <= k
  | WCrypto o d => 0 <= o <= maxVarInt8 /\ zlen d <= 2 ^ 48
  end.

Definition wpairs (ws : list wframe) : list (Z * Z) := map (fun p => (fst p, zlen (snd p))) (wcryptos ws).

Lemma skip_zeros_repeat k x : skip_zeros (repeat 0 k ++ x) = skip_zeros x.
Proof. induction k as [|k IH]; [reflexivity|]. simpl. exact IH. Qed.

Lemma chd_strip f k x : chd_frames (S f) (repeat 0 (S k) ++ x) = chd_frames f (skip_zeros x).
Proof.
  cbn [repeat app chd_frames chd_vli]. change (0 / 64) with 0. change (2 ^ 0 - 1 =? 0) with true. cbv iota.
  change (0 mod 64 =? 0) with true. cbv iota. rewrite skip_zeros_repeat. reflexivity.
Qed.

(* leading PADDING does not change what is parsed from a non-zero byte on *)
Lemma chd_strip_all fuel k b y cs :
  b <> 0 -> chd_frames fuel (repeat 0 k ++ b :: y) = ChdOk cs -> exists fuel', chd_frames fuel' (b :: y) = ChdOk cs.
Proof.
  intros Hb H. destruct k as [|k]; [exists fuel; exact H|].
  destruct fuel as [|f]; [discriminate|]. rewrite chd_strip in H. exists f.
  destruct b; [congruence| |]; exact H.
Qed.

Lemma drop_app_exact {A} (a b : list A) : drop (zlen a) (a ++ b) = b.
Proof. unfold drop, zlen. rewrite Nat2Z.id. rewrite skipn_app, skipn_all, Nat.sub_diag. reflexivity. Qed.

Lemma zeros_repeat k : 0 <= k -> zeros k = repeat 0 (Z.to_nat k).
Proof. reflexivity. Qed.

Lemma chd_pairs ws : Forall wf_w ws ->
  forall fuel k cs, chd_frames fuel (repeat 0 k ++ encode ws) = ChdOk cs -> cs = wpairs ws.
Proof.
  induction ws as [|w r IH]; intros Hwf fuel k cs H.
  - (* only PADDING left *)
    unfold encode in H. simpl in H. rewrite app_nil_r in H.
    destruct k as [|k].
    + destruct fuel; [discriminate|]. simpl in H. inversion H. reflexivity.
    + destruct fuel as [|f]; [discriminate|].
      replace (repeat 0 (S k)) with (repeat 0 (S k) ++ []) in H by apply app_nil_r.
      rewrite chd_strip in H. simpl in H. destruct f; [discriminate|]. simpl in H. inversion H. reflexivity.
  - inversion Hwf as [|? ? Hw Hr]; subst. unfold encode in *. cbn [map concat] in H.
    destruct w as [|n|o d].
    + (* PING *)
      cbn [enc_w app] in H. apply chd_strip_all in H as (f' & H); [|discriminate].
      destruct f' as [|f]; [discriminate|]. cbn [chd_frames chd_vli] in H.
      change (1 / 64) with 0 in H. change (2 ^ 0 - 1 =? 0) with true in H. cbv iota in H.
      change (1 mod 64 =? 0) with false in H. change (1 mod 64 =? 1) with true in H. cbv iota in H.
      apply (IH Hr f 0%nat) in H. exact H.
    + (* PADDING: more leading zeros *)
      cbn [enc_w] in H. unfold zeros in H. rewrite app_assoc in H. rewrite <- repeat_app in H.
      apply (IH Hr fuel (k + Z.to_nat n)%nat) in H. exact H.
    + (* CRYPTO *)
      destruct Hw as (Ho & Hd). cbn [enc_w app] in H. apply chd_strip_all in H as (f' & H); [|discriminate].
      destruct f' as [|f]; [discriminate|]. cbn [chd_frames] in H.
      change (chd_vli (6 :: ?x)) with (chd_vli (6 :: x)) in H.
      assert (E6 : forall x, chd_vli (6 :: x) = Some (6, x)) by (intros x; reflexivity).
      rewrite <- !app_assoc in H. rewrite E6 in H.
      change (6 =? 0) with false in H. change (6 =? 1) with false in H. change (6 =? 6) with true in H. cbv iota in H.
      rewrite chd_vli_vappend in H by (unfold vwf; lia).
      pose proof (zlen_nonneg d) as Hd0.
      rewrite chd_vli_vappend in H by (unfold vwf, maxVarInt8; lia).
      destruct (Z.ltb_spec (2 ^ 48) (zlen d)); [lia|].
      destruct (d ++ concat (map enc_w r)) as [|z zs] eqn:E; [discriminate|]. rewrite <- E in H.
      rewrite drop_app_exact in H.
      destruct (chd_frames f (concat (map enc_w r))) as [cs'| |] eqn:E2; try discriminate.
      inversion H; subst. apply (IH Hr f 0%nat) in E2. subst cs'. reflexivity.
Qed.

(* ---------- validateInitialFlight ---------- *)
Lemma validate_loop_pairs wss : forall i budgets n acc cs,
  Forall (Forall wf_w) wss ->
  validate_loop i (map encode wss) budgets n acc = inr cs -> cs = acc ++ concat (map wpairs wss).
Proof.
  induction wss as [|ws r IH]; intros i budgets n acc cs Hwf H; cbn [validate_loop map] in H.
  - inversion H. simpl. rewrite app_nil_r. reflexivity.
  - inversion Hwf as [|? ? Hw Hr]; subst.
    destruct ((0 <? _) && (_ <? zlen (encode ws))); [discriminate|].
    destruct (negb (strict_ok (encode ws))); [discriminate|].
    destruct (chd_frames (S (length (encode ws))) (encode ws)) as [cs0| |] eqn:E; try discriminate.
    apply (chd_pairs ws Hw _ 0%nat) in E. subst cs0.
    destruct (existsb _ (wpairs ws)); [discriminate|].
    apply IH in H; [|assumption]. subst cs. cbn [map concat]. rewrite app_assoc. reflexivity.
Qed.

Lemma validate_loop_inl ps : forall i budgets n acc c,
  validate_loop i ps budgets n acc = inl c -> c <> 0.
Proof.
  induction ps as [|p r IH]; intros i budgets n acc c H; cbn [validate_loop] in H; [discriminate|].
  destruct ((0 <? _) && (_ <? zlen p)); [inversion H; lia|].
  destruct (negb (strict_ok p)); [inversion H; lia|].
  destruct (chd_frames (S (length p)) p) as [cs0| |]; [|inversion H; lia|inversion H; lia].
  destruct (existsb _ cs0); [inversion H; lia|]. eapply IH; eassumption.
Qed.

Lemma true_frame_wf full ws :
  zlen full <= 2 ^ 48 -> Forall (true_frame full) (wcryptos ws) -> wpads_ok ws -> Forall wf_w ws.
Proof.
  intros Hn Ht Hp. rewrite Forall_forall. intros w Hin. destruct w as [|k|o d]; simpl; [exact I| |].
  - unfold wpads_ok in Hp. rewrite Forall_forall in Hp. apply (Hp _ Hin).
  - rewrite Forall_forall in Ht. assert (Hc : In (o, d) (wcryptos ws)).
    { unfold wcryptos. apply in_flat_map. exists (WCrypto o d). split; [assumption|left; reflexivity]. }
    destruct (Ht _ Hc) as (H0 & H1 & _). cbn [fst snd] in *. pose proof (zlen_nonneg d).
    unfold maxVarInt8. lia.
Qed.

(** BuildFlight output that validateInitialFlight accepts: every byte of the stream is carried
    by a CRYPTO frame of some datagram, and (by the builders' guarantee) that frame holds the
    stream's own bytes at its absolute offset. *)
Lemma validated_complete wss full budgets :
  zlen full <= 2 ^ 48 ->
  Forall (fun ws => Forall (true_frame full) (wcryptos ws) /\ wpads_ok ws) wss ->
  validate (map encode wss) budgets (zlen full) = 0 ->
  forall j, 0 <= j < zlen full ->
    exists ws o d, In ws wss /\ In (o, d) (wcryptos ws) /\ o <= j < o + zlen d /\ true_frame full (o, d).
Proof.
  intros Hn Hall Hv j Hj. unfold validate in Hv.
  destruct wss as [|ws0 r]; [discriminate|]. remember (ws0 :: r) as wss.
  assert (Hne : map encode wss <> []) by (subst; discriminate).
  destruct (map encode wss) as [|p ps] eqn:Em; [congruence|]. rewrite <- Em in Hv.
  destruct budgets as [|b0 br]; [discriminate|]. remember (b0 :: br) as budgets.
  assert (Hwf : Forall (Forall wf_w) wss).
  { eapply Forall_impl; [|exact Hall]. intros ws (Ht & Hp). eapply true_frame_wf; eassumption. }
  destruct (validate_loop 0 (map encode wss) budgets (zlen full) []) as [c|cs] eqn:E;
    [apply validate_loop_inl in E; congruence|].
  apply validate_loop_pairs in E; [|assumption]. simpl in E. subst cs.
  destruct (forallb _ _) eqn:Ef in Hv; [|discriminate].
  rewrite forallb_forall in Ef. specialize (Ef j).
  assert (Hin : In j (map Z.of_nat (seq 0 (Z.to_nat (zlen full))))).
  { apply in_map_iff. exists (Z.to_nat j). split; [lia|]. apply in_seq. lia. }
  apply Ef in Hin. unfold covered_by in Hin. apply existsb_exists in Hin as ([o l] & Hin & Hr).
  apply in_concat in Hin as (prs & Hprs & Hin). apply in_map_iff in Hprs as (ws & <- & Hws).
  unfold wpairs in Hin. apply in_map_iff in Hin as ([o' d] & Heq & Hin). inversion Heq; subst.
  cbn [fst snd] in *. apply andb_prop in Hr as [Hr1 Hr2]. apply Z.leb_le in Hr1. apply Z.ltb_lt in Hr2.
  exists ws, o, d. split; [assumption|]. split; [assumption|]. split; [lia|].
  rewrite Forall_forall in Hall. destruct (Hall _ Hws) as (Ht & _). rewrite Forall_forall in Ht. apply (Ht _ Hin).
Qed.

(** C09_flight_validated_complete for both in-tree flight builders *)
Lemma flight_validated_complete full budgets :
  zlen full <= 2 ^ 48 ->
  (forall dgs first wss, flight_frames dgs first full = Ok wss ->
     validate (map encode wss) budgets (zlen full) = 0 ->
     forall j, 0 <= j < zlen full ->
       exists ws o d, In ws wss /\ In (o, d) (wcryptos ws) /\ o <= j < o + zlen d /\ true_frame full (o, d))
  /\ (forall dgs first bs us wss bs' us', rff_build dgs first full bs us = Ok (wss, bs', us') ->
     validate (map encode wss) budgets (zlen full) = 0 ->
     forall j, 0 <= j < zlen full ->
       exists ws o d, In ws wss /\ In (o, d) (wcryptos ws) /\ o <= j < o + zlen d /\ true_frame full (o, d)).
Proof.
  intros Hn. split.
  - intros dgs first wss Hb Hv. eapply validated_complete; [assumption| |exact Hv].
    eapply flight_frames_true; eassumption.
  - intros dgs first bs us wss bs' us' Hb Hv. eapply validated_complete; [assumption| |exact Hv].
    eapply rff_build_true; eassumption.
Qed.

(* the hypothesis is satisfiable: a two-datagram Chrome-like plan (tail first) that validates *)
Lemma flight_validated_example :
  exists wss, flight_frames [[FCrypto (-2) 0; FPing]; [FPad 3; FCrypto 0 (-2)]] false [11; 12; 13; 14; 15] = Ok wss
              /\ validate (map encode wss) [0] 5 = 0.
Proof. eexists. split; [vm_compute; reflexivity|vm_compute; reflexivity]. Qed.

(* ---------- arbitrary payloads (what a custom QUICFlightFrameBuilder may return) ---------- *)
(* After the repair C09-validate-initial-flight-strict-frames the strict reader runs first; on a
   payload it accepts, the lenient clienthellod reader can neither panic nor see other frames. *)
Lemma unbe_nonneg l : forall acc, Forall (fun b => 0 <= b < 256) l -> 0 <= acc -> 0 <= unbe l acc.
Proof.
  induction l as [|x l IH]; intros acc Hl Ha; simpl; [assumption|].
  inversion Hl; subst. apply IH; [assumption|lia].
Qed.

Lemma bytes_ok_skipn n d : bytes_ok d -> bytes_ok (skipn n d).
Proof.
  intros H. unfold bytes_ok in *. rewrite <- (firstn_skipn n d) in H. apply Forall_app in H. apply H.
Qed.

Lemma bytes_ok_firstn n d : bytes_ok d -> bytes_ok (firstn n d).
Proof.
  intros H. unfold bytes_ok in *. rewrite <- (firstn_skipn n d) in H. apply Forall_app in H. apply H.
Qed.

Lemma vparse_props b v n rest :
  bytes_ok b -> vparse b = inr (v, n, rest) ->
  0 <= v /\ bytes_ok rest /\ zlen rest < zlen b /\ exists b0 r, b = b0 :: r /\ 0 <= b0 < 256.
Proof.
  intros Hb H. destruct b as [|b0 r]; [discriminate|]. inversion Hb as [|? ? Hb0 Hr]; subst.
  unfold vparse in H.
  set (k := if b0 / 64 =? 0 then 0%nat else if b0 / 64 =? 1 then 1%nat else if b0 / 64 =? 2 then 3%nat else 7%nat) in *.
  destruct (length r <? k)%nat; [discriminate|]. inversion H; subst.
  split; [apply unbe_nonneg; [apply bytes_ok_firstn; assumption|apply Z.mod_pos_bound; lia]|].
  split; [apply bytes_ok_skipn; assumption|].
  split; [unfold zlen; rewrite skipn_length; simpl length; lia|].
  exists b0, r. split; [reflexivity|assumption].
Qed.

Lemma chd_vli_of_vparse' b v n rest :
  bytes_ok b -> vparse b = inr (v, n, rest) -> chd_vli b = Some (v, rest).
Proof.
  intros Hb H. destruct (vparse_props b v n rest Hb H) as (_ & _ & _ & b0 & r & -> & Hb0).
  eapply chd_vli_of_vparse; eassumption.
Qed.

Lemma chd_strip_eq fuel k b y :
  b <> 0 -> exists f, chd_frames fuel (repeat 0 k ++ b :: y) = chd_frames f (b :: y).
Proof.
  intros Hb. destruct k as [|k]; [exists fuel; reflexivity|].
  destruct fuel as [|f]; [exists 0%nat; reflexivity|]. rewrite chd_strip. exists f.
  destruct b; [congruence| |]; reflexivity.
Qed.

Lemma repeat_snoc_app k (x : list Z) : repeat 0 k ++ 0 :: x = repeat 0 (S k) ++ x.
Proof. induction k as [|k IH]; [reflexivity|]. simpl. f_equal. exact IH. Qed.

Lemma chd_of_strict : forall fuel p ws,
  strict_frames fuel p = Some ws -> bytes_ok p -> zlen p <= 2 ^ 48 ->
  forall fuel' k,
    match chd_frames fuel' (repeat 0 k ++ p) with
    | ChdOk cs => cs = wpairs ws
    | ChdErr => True
    | ChdPanic => False
    end.
Proof.
  induction fuel as [|f IH]; intros p ws H Hb Hlen fuel' k; [discriminate|].
  cbn [strict_frames] in H. destruct p as [|t r].
  - (* end of payload *)
    inversion H; subst. rewrite app_nil_r. destruct k as [|k].
    + destruct fuel'; simpl; [exact I|reflexivity].
    + destruct fuel' as [|f']; [exact I|].
      replace (repeat 0 (S k)) with (repeat 0 (S k) ++ []) by apply app_nil_r. rewrite chd_strip.
      destruct f'; simpl; [exact I|reflexivity].
  - inversion Hb as [|? ? Ht Hr]; subst.
    assert (Hlr : zlen r <= 2 ^ 48) by (unfold zlen in *; simpl length in Hlen; lia).
    destruct (Z.eqb_spec t 0) as [->|Ht0].
    { (* PADDING byte *)
      destruct (strict_frames f r) as [ws'|] eqn:E; [|discriminate]. inversion H; subst.
      rewrite repeat_snoc_app. apply (IH r ws' E Hr Hlr fuel' (S k)). }
    destruct (chd_strip_eq fuel' k t r Ht0) as (f'' & ->).
    destruct (Z.eqb_spec t 1) as [->|Ht1].
    { (* PING *)
      destruct (strict_frames f r) as [ws'|] eqn:E; [|discriminate]. inversion H; subst.
      destruct f'' as [|f2]; [exact I|]. cbn [chd_frames chd_vli].
      change (1 / 64) with 0. change (2 ^ 0 - 1 =? 0) with true. cbv iota.
      change (1 mod 64 =? 0) with false. change (1 mod 64 =? 1) with true. cbv iota.
      apply (IH r ws' E Hr Hlr f2 0%nat). }
    destruct (Z.eqb_spec t 6) as [->|Ht6]; [|discriminate].
    (* CRYPTO *)
    destruct (vparse r) as [?|[[off n1] r1]] eqn:E1; [discriminate|].
    destruct (vparse_props r off n1 r1 Hr E1) as (Hoff & Hr1 & Hl1 & _).
    destruct (vparse r1) as [?|[[len n2] r2]] eqn:E2; [discriminate|].
    destruct (vparse_props r1 len n2 r2 Hr1 E2) as (Hlen0 & Hr2 & Hl2 & _).
    destruct (Z.ltb_spec (zlen r2) len) as [?|Hfit]; [discriminate|].
    destruct (strict_frames f (drop len r2)) as [ws'|] eqn:E; [|discriminate]. inversion H; subst.
    destruct f'' as [|f2]; [exact I|]. cbn [chd_frames].
    assert (E6 : chd_vli (6 :: r) = Some (6, r)) by reflexivity. rewrite E6.
    change (6 =? 0) with false. change (6 =? 1) with false. change (6 =? 6) with true. cbv iota.
    rewrite (chd_vli_of_vparse' r off n1 r1 Hr E1). rewrite (chd_vli_of_vparse' r1 len n2 r2 Hr1 E2).
    destruct (Z.ltb_spec (2 ^ 48) len); [lia|].
    destruct r2 as [|z zs] eqn:Er2; [exact I|]. rewrite <- Er2 in *.
    assert (Hd : bytes_ok (drop len r2)) by (apply bytes_ok_skipn; assumption).
    assert (Hdl : zlen (drop len r2) <= 2 ^ 48) by (rewrite zlen_drop by lia; lia).
    pose proof (IH (drop len r2) ws' E Hd Hdl f2 0%nat) as Hrec. simpl app in Hrec.
    destruct (chd_frames f2 (drop len r2)) as [cs'| |]; [|exact I|contradiction].
    subst cs'. unfold wpairs. cbn [wcryptos flat_map app map fst snd]. rewrite zlen_take by lia. reflexivity.
Qed.

Lemma validate_loop_strict ps : forall i budgets n acc,
  Forall (fun p => bytes_ok p /\ zlen p <= 2 ^ 48) ps ->
  match validate_loop i ps budgets n acc with
  | inl c => c <> 0 /\ c <> -1
  | inr cs => exists wss, Forall2 (fun p ws => strict_frames (S (length p)) p = Some ws) ps wss
                          /\ cs = acc ++ concat (map wpairs wss)
  end.
Proof.
  induction ps as [|p r IH]; intros i budgets n acc Hall; cbn [validate_loop].
  - exists []. split; [constructor|]. simpl. rewrite app_nil_r. reflexivity.
  - inversion Hall as [|? ? (Hb & Hl) Hr]; subst.
    destruct ((0 <? _) && (_ <? zlen p)); [lia|].
    unfold strict_ok. destruct (strict_frames (S (length p)) p) as [ws|] eqn:Es; cbn [negb]; [|lia].
    pose proof (chd_of_strict _ p ws Es Hb Hl (S (length p)) 0%nat) as Hc. simpl app in Hc.
    destruct (chd_frames (S (length p)) p) as [cs0| |]; [|lia|contradiction]. subst cs0.
    destruct (existsb _ (wpairs ws)); [lia|].
    specialize (IH (S i) budgets n (acc ++ wpairs ws) Hr).
    destruct (validate_loop (S i) r budgets n (acc ++ wpairs ws)) as [c|cs]; [assumption|].
    destruct IH as (wss & HF & ->). exists (ws :: wss). split; [constructor; assumption|].
    cbn [map concat]. rewrite app_assoc. reflexivity.
Qed.

(** validateInitialFlight on ARBITRARY payloads (bytes, each shorter than 2^48): it never panics,
    and when it accepts, every payload is a well-formed sequence of PADDING, PING and complete
    CRYPTO frames (the strict reader parses it) whose CRYPTO frames cover every byte of the
    stream with data that is really present in the payload. *)
Lemma validate_sound ps budgets n :
  budgets <> [] ->
  Forall (fun p => bytes_ok p /\ zlen p <= 2 ^ 48) ps ->
  validate ps budgets n <> -1 /\
  (validate ps budgets n = 0 ->
   exists wss, Forall2 (fun p ws => strict_frames (S (length p)) p = Some ws) ps wss /\
     forall j, 0 <= j < n -> exists ws o d, In ws wss /\ In (o, d) (wcryptos ws) /\ o <= j < o + zlen d).
Proof.
  intros Hbud Hall. unfold validate. destruct ps as [|p0 r]; [split; [lia|discriminate]|].
  destruct budgets as [|b0 br]; [congruence|]. remember (b0 :: br) as budgets.
  pose proof (validate_loop_strict (p0 :: r) 0 budgets n [] Hall) as Hl.
  destruct (validate_loop 0 (p0 :: r) budgets n []) as [c|cs].
  - split; [lia|]. intros ->. lia.
  - destruct Hl as (wss & HF & ->). simpl app.
    destruct (forallb _ _) eqn:Ef; [|split; [lia|discriminate]].
    split; [lia|]. intros _. exists wss. split; [assumption|]. intros j Hj.
    rewrite forallb_forall in Ef. specialize (Ef j).
    assert (Hin : In j (map Z.of_nat (seq 0 (Z.to_nat n)))).
    { apply in_map_iff. exists (Z.to_nat j). split; [lia|]. apply in_seq. lia. }
    apply Ef in Hin. unfold covered_by in Hin. apply existsb_exists in Hin as ([o l] & Hin & Hr).
    apply in_concat in Hin as (prs & Hprs & Hin). apply in_map_iff in Hprs as (ws & <- & Hws).
    unfold wpairs in Hin. apply in_map_iff in Hin as ([o' d] & Heq & Hin). inversion Heq; subst.
    cbn [fst snd] in *. apply andb_prop in Hr as [Hr1 Hr2]. apply Z.leb_le in Hr1. apply Z.ltb_lt in Hr2.
    exists ws, o, d. repeat split; try assumption; lia.
Qed.

(* regression: the former counterexamples (known findings uflight/validate/accepts-malformed and
   uflight/validate/panic) are now rejected as "does not parse" (class 3) *)
Lemma validate_rejects_former_witnesses :
  validate [[6; 0; 20; 65; 66; 67; 68; 69; 70; 71; 72]] [0] 20 = 3 /\
  validate [[64; 6; 0; 20] ++ repeat 65 20] [0] 20 = 3 /\
  validate [[6; 0; 224; 0; 0; 0; 0; 0; 0; 0]] [0] 20 = 3.
Proof. repeat split; vm_compute; reflexivity. Qed.

(* ---------- the in-tree flight builders cannot make validateInitialFlight panic ---------- *)
Lemma chd_encode_nopanic ws : Forall wf_w ws ->
  forall fuel k, chd_frames fuel (repeat 0 k ++ encode ws) <> ChdPanic.
Proof.
  induction ws as [|w r IH]; intros Hwf fuel k.
  - unfold encode. simpl. rewrite app_nil_r. destruct k as [|k].
    + destruct fuel; simpl; discriminate.
    + destruct fuel as [|f]; [discriminate|].
      replace (repeat 0 (S k)) with (repeat 0 (S k) ++ []) by apply app_nil_r. rewrite chd_strip.
      destruct f; simpl; discriminate.
  - inversion Hwf as [|? ? Hw Hr]; subst. unfold encode in *. cbn [map concat].
    destruct w as [|n|o d].
    + cbn [enc_w app]. destruct (chd_strip_eq fuel k 1 (concat (map enc_w r)) ltac:(discriminate)) as (f' & ->).
      destruct f' as [|f]; [discriminate|]. cbn [chd_frames chd_vli].
      change (1 / 64) with 0. change (2 ^ 0 - 1 =? 0) with true. cbv iota.
      change (1 mod 64 =? 0) with false. change (1 mod 64 =? 1) with true. cbv iota.
      apply (IH Hr f 0%nat).
    + cbn [enc_w]. unfold zeros. rewrite app_assoc. rewrite <- repeat_app. apply (IH Hr).
    + destruct Hw as (Ho & Hd). cbn [enc_w app]. rewrite <- !app_assoc.
      destruct (chd_strip_eq fuel k 6 (vappend o ++ vappend (zlen d) ++ d ++ concat (map enc_w r)) ltac:(discriminate)) as (f' & ->).
      destruct f' as [|f]; [discriminate|]. cbn [chd_frames].
      assert (E6 : forall x, chd_vli (6 :: x) = Some (6, x)) by (intros x; reflexivity). rewrite E6.
      change (6 =? 0) with false. change (6 =? 1) with false. change (6 =? 6) with true. cbv iota.
      rewrite chd_vli_vappend by (unfold vwf; lia).
      pose proof (zlen_nonneg d) as Hd0.
      rewrite chd_vli_vappend by (unfold vwf, maxVarInt8; lia).
      destruct (Z.ltb_spec (2 ^ 48) (zlen d)); [lia|].
      destruct (d ++ concat (map enc_w r)) as [|z zs] eqn:Ed; [discriminate|]. rewrite <- Ed.
      rewrite drop_app_exact. pose proof (IH Hr f 0%nat) as Hrec. simpl app in Hrec.
      destruct (chd_frames f (concat (map enc_w r))); [discriminate|discriminate|congruence].
Qed.

Lemma validate_loop_nopanic wss : forall i budgets n acc,
  Forall (Forall wf_w) wss -> validate_loop i (map encode wss) budgets n acc <> inl (-1).
Proof.
  induction wss as [|ws r IH]; intros i budgets n acc Hwf; cbn [validate_loop map]; [discriminate|].
  inversion Hwf as [|? ? Hw Hr]; subst.
  destruct ((0 <? _) && (_ <? zlen (encode ws))); [discriminate|].
  destruct (negb (strict_ok (encode ws))); [discriminate|].
  pose proof (chd_encode_nopanic ws Hw (S (length (encode ws))) 0%nat) as Hc. simpl app in Hc.
  destruct (chd_frames (S (length (encode ws))) (encode ws)) as [cs0| |]; [|discriminate|congruence].
  destruct (existsb _ cs0); [discriminate|]. apply IH. assumption.
Qed.

Lemma validate_builder_nopanic wss full budgets :
  budgets <> [] -> zlen full <= 2 ^ 48 ->
  Forall (fun ws => Forall (true_frame full) (wcryptos ws) /\ wpads_ok ws) wss ->
  validate (map encode wss) budgets (zlen full) <> -1.
Proof.
  intros Hb Hn Hall. unfold validate. destruct (map encode wss) as [|p ps] eqn:Em; [lia|].
  destruct budgets as [|b0 br]; [congruence|]. rewrite <- Em.
  assert (Hwf : Forall (Forall wf_w) wss).
  { eapply Forall_impl; [|exact Hall]. intros ws (Ht & Hp). eapply true_frame_wf; eassumption. }
  pose proof (validate_loop_nopanic wss 0 (b0 :: br) (zlen full) [] Hwf) as Hl.
  destruct (validate_loop 0 (map encode wss) (b0 :: br) (zlen full) []) as [c|cs]; [congruence|].
  destruct (forallb _ _); lia.
Qed.
