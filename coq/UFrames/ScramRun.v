(** Correspondence glue for unit `scrambler`: findSNIAndECH and op sequences on the
    Initial crypto stream (Write / HasData / PopCryptoFrame / state fields). *)
From Coq Require Import List ZArith Bool String.
From V Require Import Lib.Hex UFrames.Model UFrames.ScramModel.
Import ListNotations.
Open Scope Z_scope.

Inductive op :=
| OWrite (p : string) (cls : Z)
| OHas (b : bool)
| OPop (maxLen : Z) (r : option (Z * string))
| OState (scramble : bool) (writeOffset e c0s c0e c1s c1e buflen : Z).

Inductive case :=
| SniCase (data : string) (cls sniPos sniLen echPos : Z)
| StreamCase (scramble : bool) (ops : list op).

(* first op index at which model and implementation differ (None = all agree) *)
Fixpoint run_ops (i : nat) (s : sst) (ops : list op) : option nat :=
  match ops with
  | [] => None
  | o :: r =>
    match o with
    | OWrite p cls =>
      let '(s', c) := write s (hx p) in
      if c =? cls then run_ops (S i) s' r else Some i
    | OHas b => if Bool.eqb (has_data s) b then run_ops (S i) s r else Some i
    | OPop ml res =>
      match pop s ml, res with
      | Ok (s', None), None => run_ops (S i) s' r
      | Ok (s', Some (off, d)), Some (off', d') =>
        if (off =? off') && zeqb_list d (hx d') then run_ops (S i) s' r else Some i
      | _, _ => Some i
      end
    | OState sc w e a b c d bl =>
      if Bool.eqb (scr s) sc && (wo s =? w) && (send s =? e) && (c0s s =? a) && (c0e s =? b)
         && (c1s s =? c) && (c1e s =? d) && (zlen (buf s) =? bl)
      then run_ops (S i) s r else Some i
    end
  end.

Inductive obs := OSni (r : sni_res) | OStream (firstDiff : option nat).

Definition model_obs (c : case) : obs :=
  match c with
  | SniCase d _ _ _ _ => OSni (find_sni_ech (hx d))
  | StreamCase sc ops => OStream (run_ops 0 (init sc) ops)
  end.

Definition check_case (c : case) : bool :=
  match c, model_obs c with
  | SniCase _ cls sp sl ep, OSni r => (sCls r =? cls) && (sPos r =? sp) && (sLen r =? sl) && (ePos r =? ep)
  | StreamCase _ _, OStream None => true
  | _, _ => false
  end.
