(** Correspondence glue for unit `dgqueue` (harness/drv/dgqueue.go): every harness op is the model
    op followed by [DResume] (a parked Add gets to run: synctest.Wait). *)
From Coq Require Import List ZArith Bool String.
From V Require Import Gen.Params Lib.Hex StreamE2E.DgModel.
Import ListNotations.
Open Scope Z_scope.

Inductive dcop := CAdd (len seed : Z) | CPeek | CPop | CHandle (len seed : Z) | CReceive | CCloseQ.
(* res: 0 nothing, 3 payload (len, checksum), 4 empty/would block; addres: 0 none, 1 Add returned nil, 2 Add returned the close error *)
Record dcout := mkDO { do_res : Z; do_len : Z; do_sum : Z; do_add : Z }.
Inductive case := DGCase (ops : list (dcop * dcout)) (sendLen rcvLen : Z) (parkedAdd : bool).

Fixpoint gen_data (n : nat) (x : Z) : list Z :=
  match n with
  | O => []
  | S n' => let x' := Z.land (x * 8121 + 28411) 16777215 in Z.land (Z.shiftr x' 8) 255 :: gen_data n' x'
  end.
Definition cksum (d : list Z) : Z := fold_left (fun h b => Z.land (h * 31 + b) 1073741823) d 7.

Definition to_dop (c : dcop) : dop :=
  match c with
  | CAdd n s => DAdd (gen_data (Z.to_nat n) s)
  | CPeek => DPeek | CPop => DPop
  | CHandle n s => DHandle (gen_data (Z.to_nat n) s)
  | CReceive => DReceive | CCloseQ => DClose
  end.

Definition addcode (x : dout) : Z := match x with DAddOk => 1 | DAddErr => 2 | _ => 0 end.

Definition hstep (q : dq) (c : dcop) : dq * dcout :=
  let (q1, x1) := dstep q (to_dop c) in
  let (q2, x2) := dstep q1 DResume in
  let a := if addcode x1 =? 0 then addcode x2 else addcode x1 in
  (q2, match x1 with
       | DData p => mkDO 3 (zlen p) (cksum p) a
       | DEmpty => mkDO 4 0 0 a
       | _ => mkDO 0 0 0 a
       end).

Fixpoint hrun (q : dq) (l : list dcop) : dq * list dcout :=
  match l with
  | [] => (q, [])
  | c :: r => let (q1, o) := hstep q c in let (q2, os) := hrun q1 r in (q2, o :: os)
  end.

Definition obs := (list dcout * Z * Z * bool)%type.
Definition model_obs (c : case) : obs :=
  match c with
  | DGCase ops _ _ _ =>
    let (q, os) := hrun dq0 (map fst ops) in
    (os, zlen (sendQ q), zlen (rcvQ q), match parked q with Some _ => true | None => false end)
  end.

Definition douteqb (a b : dcout) : bool :=
  (do_res a =? do_res b) && (do_len a =? do_len b) && (do_sum a =? do_sum b) && (do_add a =? do_add b).
Fixpoint leqb {A} (e : A -> A -> bool) (a b : list A) : bool :=
  match a, b with
  | [], [] => true
  | x :: a', y :: b' => e x y && leqb e a' b'
  | _, _ => false
  end.

Definition check_case (c : case) : bool :=
  match c with
  | DGCase ops sl rl pk =>
    let '(os, sl', rl', pk') := model_obs c in
    leqb douteqb (map snd ops) os && (sl =? sl') && (rl =? rl') && Bool.eqb pk pk'
  end.
