(** A DATAGRAM frame never carries a handler, never enters the retransmission queue, and every
    datagram taken from the queue is put into at most one packet (model PackModel). *)
From Coq Require Import List ZArith Bool Lia.
From V Require Import Gen.Params Lib.Hex Wire.Varint StreamE2E.DgModel StreamE2E.DgProofs StreamE2E.PackModel.
Import ListNotations.
Open Scope Z_scope.

Definition dg_nohandler (f : pframe) : Prop := is_dg (pf_kind f) = true -> pf_h f = 0.
Definition no_dg (pkt : list pframe) : Prop := Forall (fun f => is_dg (pf_kind f) = false) pkt.

Record PInv (s : pk) : Prop := {
  q_nh : Forall (Forall dg_nohandler) (p_sent s);
  q_retx : Forall (fun kl => is_dg (fst kl) = false) (p_retx s);
  q_once : subseq (dgs_of (p_sent s)) (gPopped (p_dq s));
  q_flight : incl (p_flight s) (p_sent s);
  q_dq : DInv (p_dq s)
}.

Lemma pk0_PInv : PInv pk0.
Proof.
  constructor; cbn.
  - constructor.
  - constructor.
  - constructor.
  - intros x [].
  - apply dq0_DInv.
Qed.

Lemma dstep_popped q o : o <> DPop -> gPopped (fst (dstep q o)) = gPopped q.
Proof.
  intros H. unfold dstep. destruct (dpanic q); [reflexivity|].
  destruct o; try congruence; cbn [fst].
  - destruct (parked q); [reflexivity|]. unfold add_loop. destruct (closedQ q); [reflexivity|]. destruct (_ <? _); reflexivity.
  - destruct (parked q); [|reflexivity]. destruct (closedQ q); [reflexivity|]. destruct (sentTok q); [|reflexivity].
    unfold add_loop. cbn. destruct (_ <? _); reflexivity.
  - reflexivity.
  - destruct (_ <? _); reflexivity.
  - destruct (rcvQ q); reflexivity.
  - reflexivity.
Qed.

Lemma dstep_pop_head q p r :
  dpanic q = false -> sendQ q = p :: r -> gPopped (fst (dstep q DPop)) = gPopped q ++ [p].
Proof. intros H E. unfold dstep. rewrite H, E. reflexivity. Qed.

Lemma dgs_of_app a b : dgs_of (a ++ b) = dgs_of a ++ dgs_of b.
Proof. unfold dgs_of. apply flat_map_app. Qed.

Lemma no_dg_dgs pkt : no_dg pkt -> flat_map (fun f => match pf_kind f with KDg p => [p] | _ => [] end) pkt = [].
Proof.
  induction 1 as [|f l Hf _ IH]; [reflexivity|]. cbn [flat_map]. rewrite IH.
  destruct (pf_kind f); try reflexivity. discriminate.
Qed.

Lemma retx_loop_spec fuel : forall maxPayload len q acc,
  Forall (fun kl => is_dg (fst kl) = false) q ->
  let '(frames, len', q') := retx_loop fuel maxPayload len q acc in
  exists extra, frames = acc ++ extra /\ no_dg extra /\ Forall dg_nohandler extra /\
                Forall (fun kl => is_dg (fst kl) = false) q'.
Proof.
  induction fuel as [|n IH]; intros maxPayload len q acc Hq; cbn [retx_loop].
  - exists []. rewrite app_nil_r. repeat split; auto; constructor.
  - destruct (_ <? _). { exists []. rewrite app_nil_r. repeat split; auto; constructor. }
    destruct q as [|[k l] r]. { exists []. rewrite app_nil_r. repeat split; auto; constructor. }
    destruct (_ >? _). { exists []. rewrite app_nil_r. repeat split; auto; constructor. }
    inversion Hq as [|? ? Hk Hr]; subst. cbn [fst] in Hk.
    specialize (IH maxPayload (len + l) r (acc ++ [mkPF k l 1]) Hr).
    destruct (retx_loop n maxPayload (len + l) r (acc ++ [mkPF k l 1])) as [[frames len'] q'].
    destruct IH as (extra & E & N & D & Q). exists (mkPF k l 1 :: extra). rewrite E, <- app_assoc.
    repeat split; auto.
    + constructor; auto.
    + constructor; auto. intros X. cbn in X. congruence.
Qed.

Lemma assign_ok f : is_dg (pf_kind f) = false -> is_dg (pf_kind (assign f)) = false /\ dg_nohandler (assign f).
Proof.
  intros H. unfold assign, dg_nohandler. destruct (negb _).
  - split; auto. intros X. congruence.
  - destruct (pf_kind f) eqn:E; cbn; rewrite ?E; split; auto; intros X; try discriminate; cbn in *; congruence.
Qed.

Lemma map_assign_ok fr : no_dg fr -> no_dg (map assign fr) /\ Forall dg_nohandler (map assign fr).
Proof.
  induction 1 as [|f l Hf _ IH]; cbn; [split; constructor|].
  destruct IH as [A B]. destruct (assign_ok f Hf). split; constructor; auto.
Qed.

Lemma incl_app_r {A} (l s : list A) x : incl l s -> incl (l ++ [x]) (s ++ [x]).
Proof. intros H y Hy. apply in_app_or in Hy. apply in_or_app. destruct Hy; auto. Qed.

(* shape of one composed packet: at most one DATAGRAM frame in front (just popped, without handler),
   everything else is not a DATAGRAM *)
Lemma compose_PInv m a ack hd fr s :
  no_dg fr -> PInv s -> dpanic (p_dq s) = false -> PInv (fst (compose m a ack hd fr s)).
Proof.
  intros Hfr [I1 I2 I3 I4 I5] Hp. unfold compose.
  set (ackl := if a then ack else None).
  set (len0 := match ackl with Some l => l | None => 0 end).
  (* the datagram decision *)
  assert (Hd : exists dq1 frames1 len1,
      (match sendQ (p_dq s) with
       | [] => (p_dq s, [], len0)
       | p :: _ =>
         if dglen p <=? m - len0 then (fst (dstep (p_dq s) DPop), [mkPF (KDg p) (dglen p) 0], len0 + dglen p)
         else match ackl with
              | None => (fst (dstep (p_dq s) DPop), [], len0)
              | Some _ => (p_dq s, [], len0)
              end
       end) = (dq1, frames1, len1) /\
      DInv dq1 /\ Forall dg_nohandler frames1 /\
      subseq (dgs_of (p_sent s) ++ dgs_of [frames1]) (gPopped dq1) /\
      (forall rest, no_dg rest -> dgs_of [frames1 ++ rest] = dgs_of [frames1])).
  { assert (Hnil : forall rest, no_dg rest -> dgs_of [[] ++ rest] = dgs_of [@nil pframe]).
    { intros rest Hr. unfold dgs_of. cbn [flat_map app]. rewrite no_dg_dgs; auto. }
    assert (Hkeep : subseq (dgs_of (p_sent s) ++ dgs_of [@nil pframe]) (gPopped (p_dq s))).
    { cbn. rewrite app_nil_r. exact I3. }
    destruct (sendQ (p_dq s)) as [|p r] eqn:EQ.
    - exists (p_dq s), [], len0. split; [reflexivity|]. split; [exact I5|]. split; [constructor|]. split; [exact Hkeep|exact Hnil].
    - destruct (_ <=? _).
      + exists (fst (dstep (p_dq s) DPop)), [mkPF (KDg p) (dglen p) 0], (len0 + dglen p).
        split; [reflexivity|]. split; [apply dstep_DInv; exact I5|]. split; [constructor; [intros _; reflexivity|constructor]|]. split.
        * rewrite (dstep_pop_head _ _ _ Hp EQ). cbn. now apply subseq_app_both.
        * intros rest Hr. unfold dgs_of. cbn [flat_map app pf_kind]. rewrite no_dg_dgs; auto.
      + destruct ackl.
        * exists (p_dq s), [], len0. split; [reflexivity|]. split; [exact I5|]. split; [constructor|]. split; [exact Hkeep|exact Hnil].
        * exists (fst (dstep (p_dq s) DPop)), [], len0.
          split; [reflexivity|]. split; [apply dstep_DInv; exact I5|]. split; [constructor|]. split; [|exact Hnil].
          cbn. rewrite app_nil_r. rewrite (dstep_pop_head _ _ _ Hp EQ). now apply subseq_app_r. }
  destruct Hd as (dq1 & frames1 & len1 & -> & D1 & N1 & S1 & R1).
  assert (Hfin : forall rest q2, no_dg rest -> Forall dg_nohandler rest -> Forall (fun kl => is_dg (fst kl) = false) q2 ->
            PInv (mkPk dq1 q2 (p_flight s ++ [frames1 ++ rest]) (p_sent s ++ [frames1 ++ rest]))).
  { intros rest q2 Hn Hh Hq. constructor; cbn; auto.
    - apply Forall_app. split; auto. constructor; [|constructor]. apply Forall_app. split; auto.
    - rewrite dgs_of_app, (R1 rest Hn). exact S1.
    - now apply incl_app_r. }
  assert (Hfin0 : PInv (mkPk dq1 (p_retx s) (p_flight s ++ [frames1]) (p_sent s ++ [frames1]))).
  { specialize (Hfin [] (p_retx s) ltac:(constructor) ltac:(constructor) I2). rewrite app_nil_r in Hfin. exact Hfin. }
  destruct (map_assign_ok fr Hfr) as [MA MB].
  assert (Hrest : PInv (fst (let '(frames2, len2, q2) :=
                               if match p_retx s with [] => false | _ => true end
                               then retx_loop (S (length (p_retx s))) m len1 (p_retx s) frames1
                               else (frames1, len1, p_retx s) in
                             (mkPk dq1 q2 (p_flight s ++ [if hd then frames2 ++ map assign fr else frames2])
                                   (p_sent s ++ [if hd then frames2 ++ map assign fr else frames2]),
                              if hd then frames2 ++ map assign fr else frames2)))).
  { destruct (match p_retx s with [] => false | _ => true end).
    - pose proof (retx_loop_spec (S (length (p_retx s))) m len1 (p_retx s) frames1 I2) as L.
      destruct (retx_loop _ _ _ _ _) as [[frames2 len2] q2]. destruct L as (extra & -> & N & D & Q). cbn [fst].
      destruct hd.
      + rewrite <- app_assoc. apply Hfin; auto.
        * apply Forall_app. split; auto.
        * apply Forall_app. split; auto.
      + apply Hfin; auto.
    - cbn [fst]. destruct hd; [apply Hfin; auto|exact Hfin0]. }
  destruct ackl; [destruct hd; [exact Hrest|]|exact Hrest].
  destruct (p_retx s) eqn:ER; [cbn [fst]; exact Hfin0|]. rewrite <- ER in *. exact Hrest.
Qed.

Lemma In_remove_nth_p {A} (x : A) i l : In x (remove_nth i l) -> In x l.
Proof.
  revert i. induction l as [|y l IH]; intros i H.
  - destruct i; simpl in H; contradiction.
  - destruct i; simpl in *; [auto|]. destruct H; [auto|right; eauto].
Qed.

Lemma pstep_PInv s o : wf_op o -> PInv s -> dpanic (p_dq s) = false -> PInv (fst (pstep s o)).
Proof.
  intros Hw HI Hp. destruct o as [d|m a ack hd fr|i|i]; cbn [pstep].
  - assert (Hgen : d <> DPop -> PInv (mkPk (fst (dstep (p_dq s) d)) (p_retx s) (p_flight s) (p_sent s))).
    { intros Hd. destruct HI as [I1 I2 I3 I4 I5]. constructor; cbn; auto.
      - rewrite dstep_popped; auto.
      - now apply dstep_DInv. }
    destruct d; try exact HI; apply Hgen; discriminate.
  - apply compose_PInv; auto.
  - destruct (nth_error (p_flight s) i) as [pkt|] eqn:En; [|exact HI].
    destruct HI as [I1 I2 I3 I4 I5]. cbn [fst]. constructor; cbn; auto.
    + apply Forall_app. split; auto.
      assert (Hpkt : Forall dg_nohandler pkt).
      { rewrite Forall_forall in I1. apply I1. apply I4. eapply nth_error_In; eauto. }
      clear - Hpkt. induction Hpkt as [|f l Hf _ IH]; cbn; [constructor|].
      destruct (Z.eqb_spec (pf_h f) 1); cbn; auto. constructor; auto. cbn.
      destruct (is_dg (pf_kind f)) eqn:E; auto. unfold dg_nohandler in Hf. rewrite E in Hf. specialize (Hf eq_refl). lia.
    + intros x Hx. apply I4. eapply In_remove_nth_p; eauto.
  - destruct HI as [I1 I2 I3 I4 I5]. cbn [fst]. constructor; cbn; auto.
    intros x Hx. apply I4. eapply In_remove_nth_p; eauto.
Qed.

(* Pop is only executed on a non-empty ring (after a successful Peek), so the queue never panics *)
Lemma compose_dq m a ack hd fr s :
  p_dq (fst (compose m a ack hd fr s)) = p_dq s \/
  (sendQ (p_dq s) <> [] /\ p_dq (fst (compose m a ack hd fr s)) = fst (dstep (p_dq s) DPop)).
Proof.
  unfold compose.
  destruct (sendQ (p_dq s)) as [|p r] eqn:EQ; [|destruct (dglen p <=? _)];
    destruct (if a then ack else None); destruct hd; destruct (p_retx s) as [|x q];
    cbn -[retx_loop dstep];
    repeat match goal with |- context [retx_loop ?f ?m ?l ?q ?acc] => destruct (retx_loop f m l q acc) as [[? ?] ?] end;
    cbn -[dstep]; auto; right; (split; [discriminate|reflexivity]).
Qed.

Lemma pstep_nopanic s o : dpanic (p_dq s) = false -> dpanic (p_dq (fst (pstep s o))) = false.
Proof.
  intros Hp. destruct o as [d|m a ack hd fr|i|i]; cbn [pstep].
  - destruct d; cbn [fst p_dq]; auto; unfold dstep; rewrite Hp; cbn [fst].
    + destruct (parked _); auto. unfold add_loop. destruct (closedQ _); auto. destruct (_ <? _); auto.
    + destruct (parked _); auto. destruct (closedQ _); auto. destruct (sentTok _); auto.
      unfold add_loop. cbn. destruct (_ <? _); auto.
    + destruct (_ <? _); auto.
    + destruct (rcvQ _); auto.
    + auto.
  - destruct (compose_dq m a ack hd fr s) as [E|[N E]]; rewrite E; auto.
    unfold dstep. rewrite Hp. destruct (sendQ (p_dq s)); [congruence|]. cbn. reflexivity.
  - destruct (nth_error _ _); auto.
  - auto.
Qed.

Theorem prun_PInv ops : forall s,
  Forall wf_op ops -> PInv s -> dpanic (p_dq s) = false ->
  PInv (fst (prun s ops)) /\ dpanic (p_dq (fst (prun s ops))) = false.
Proof.
  induction ops as [|o ops IH]; intros s Hw HI Hp; [split; assumption|].
  inversion Hw; subst. cbn [prun].
  pose proof (pstep_PInv s o H1 HI Hp) as H. pose proof (pstep_nopanic s o Hp) as P.
  destruct (pstep s o) as [s1 x]. cbn [fst] in *. specialize (IH s1 H2 H P).
  destruct (prun s1 ops) as [s2 xs]. exact IH.
Qed.

(* the ghost list of sent packets is what the compose ops returned *)
Definition sent_of (l : list (pop_ * list pframe)) : list (list pframe) :=
  flat_map (fun ox => match fst ox with KCompose _ _ _ _ _ => [snd ox] | _ => [] end) l.

Lemma compose_sent m a ack hd fr s :
  p_sent (fst (compose m a ack hd fr s)) = p_sent s ++ [snd (compose m a ack hd fr s)].
Proof.
  unfold compose.
  destruct (sendQ (p_dq s)) as [|p r] eqn:EQ; [|destruct (dglen p <=? _)];
    destruct (if a then ack else None); destruct hd; destruct (p_retx s) as [|x q];
    cbn -[retx_loop dstep];
    repeat match goal with |- context [retx_loop ?f ?m ?l ?q ?acc] => destruct (retx_loop f m l q acc) as [[? ?] ?] end;
    cbn -[dstep]; reflexivity.
Qed.

Lemma prun_sent ops : forall s,
  p_sent (fst (prun s ops)) = p_sent s ++ sent_of (combine ops (snd (prun s ops))).
Proof.
  induction ops as [|o ops IH]; intros s; cbn [prun].
  - cbn. now rewrite app_nil_r.
  - assert (E : p_sent (fst (pstep s o)) = p_sent s ++ match o with KCompose _ _ _ _ _ => [snd (pstep s o)] | _ => [] end).
    { destruct o as [d|m a ack hd fr|i|i]; cbn [pstep].
      - destruct d; cbn; now rewrite app_nil_r.
      - apply compose_sent.
      - destruct (nth_error _ _); cbn; now rewrite app_nil_r.
      - cbn. now rewrite app_nil_r. }
    destruct (pstep s o) as [s1 x]. cbn [fst snd] in *. specialize (IH s1).
    destruct (prun s1 ops) as [s2 xs]. cbn [fst snd] in *. rewrite IH, E, <- app_assoc. f_equal;
    cbn [combine sent_of flat_map fst snd]; destruct o; reflexivity.
Qed.

(** For every history of the packer/datagram-queue/retransmission-queue model: a DATAGRAM frame in a
    packet never carries a handler; the retransmission queue never holds a DATAGRAM frame; the
    DATAGRAM payloads on the wire (packet after packet) embed into the sequence popped from the
    queue — so every datagram accepted by Add is put into at most one packet, in order. *)
Theorem datagram_never_retransmitted ops :
  Forall wf_op ops ->
  let s := fst (prun pk0 ops) in
  let pkts := sent_of (combine ops (snd (prun pk0 ops))) in
  (forall pkt f, In pkt pkts -> In f pkt -> is_dg (pf_kind f) = true -> pf_h f = 0) /\
  (forall kl, In kl (p_retx s) -> is_dg (fst kl) = false) /\
  subseq (dgs_of pkts) (gPopped (p_dq s)) /\
  gAdded (p_dq s) = gPopped (p_dq s) ++ sendQ (p_dq s).
Proof.
  intros Hw. cbn zeta. destruct (prun_PInv ops pk0 Hw pk0_PInv eq_refl) as [[I1 I2 I3 I4 I5] _].
  pose proof (prun_sent ops pk0) as E. cbn [p_sent pk0 app] in E. rewrite E in *.
  repeat split.
  - intros pkt f Hp Hf. rewrite Forall_forall in I1. specialize (I1 pkt Hp). rewrite Forall_forall in I1. apply I1. exact Hf.
  - rewrite Forall_forall in I2. exact I2.
  - exact I3.
  - apply (d_send _ I5).
Qed.
