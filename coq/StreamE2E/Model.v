(** End-to-end composition for C01: the SendStream model, an abstract network and an
    ABSTRACT reassembly spec.

    [Net]: every STREAM frame the sender ever emitted may be delivered any number of times
    (0 = lost for good, >1 = duplicated by the network or re-sent), in any order; frames that
    were not emitted are never delivered (corrupted/truncated packets fail AEAD — hypothesis
    proved for the ideal AEAD in C05 — and duplicates of packets are dropped or harmless).

    Receiver spec: bytes are stored by offset (first write wins, as in the frame sorter);
    Read returns the longest contiguous run that starts at the read position (at most [n]
    bytes) and reports EOF when the final size is known and the read position reached it.
    /repo/frame_sorter.go + receive_stream.go are proved to refine such a spec elsewhere
    (coq/FrameSorter, C03); this file does not look at them. *)
From Coq Require Import List ZArith Bool Lia.
From V Require Import Lib.Hex SendStream.Model.
Import ListNotations.
Open Scope Z_scope.

Record rcv := mkRcv {
  store : Z -> option Z;      (* byte at each stream offset, if received *)
  readPos : Z;
  finalSize : option Z;       (* offset + length of the first FIN frame seen *)
  hi : Z                      (* highest end offset seen (bounds the read loop) *)
}.
Definition rcv0 : rcv := mkRcv (fun _ => None) 0 None 0.

Definition put (st : Z -> option Z) (off : Z) (d : list Z) : Z -> option Z :=
  fun i => match st i with
           | Some b => Some b
           | None => if (off <=? i) && (i <? off + zlen d) then nth_error d (Z.to_nat (i - off)) else None
           end.

Definition deliver (f : frame) (r : rcv) : rcv :=
  mkRcv (put (store r) (f_off f) (f_data f)) (readPos r)
        (match finalSize r with
         | Some x => Some x
         | None => if f_fin f then Some (f_end f) else None
         end)
        (Z.max (hi r) (f_end f)).

Fixpoint run_from (st : Z -> option Z) (fuel : nat) (pos : Z) : list Z :=
  match fuel with
  | O => []
  | S k => match st pos with Some b => b :: run_from st k (pos + 1) | None => [] end
  end.

(* Read(p) with len(p) = n: data, EOF flag *)
Definition read (n : Z) (r : rcv) : rcv * (list Z * bool) :=
  let d := run_from (store r) (Z.to_nat (Z.min n (hi r - readPos r))) (readPos r) in
  let pos' := readPos r + zlen d in
  (mkRcv (store r) pos' (finalSize r) (hi r),
   (d, match finalSize r with Some fs => pos' =? fs | None => false end)).

Inductive event := EDeliver (f : frame) | ERead (n : Z).

Fixpoint rrun (r : rcv) (evs : list event) : rcv * list (list Z * bool) :=
  match evs with
  | [] => (r, [])
  | EDeliver f :: rest => rrun (deliver f r) rest
  | ERead n :: rest => let (r1, x) := read n r in let (r2, xs) := rrun r1 rest in (r2, x :: xs)
  end.

Definition delivered (evs : list event) : list frame :=
  flat_map (fun e => match e with EDeliver f => [f] | ERead _ => [] end) evs.
Definition all_read (rs : list (list Z * bool)) : list Z := flat_map fst rs.
Definition saw_eof (rs : list (list Z * bool)) : bool := existsb snd rs.
