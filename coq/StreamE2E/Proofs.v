(** Proofs about the abstract receiver fed with frames that carry bytes of [Wd]. *)
From Coq Require Import List ZArith Bool Lia.
From V Require Import Lib.Hex SendStream.Model SendStream.ProofsBase StreamE2E.Model.
Import ListNotations.
Open Scope Z_scope.

Definition store_ok (Wd : list Z) (st : Z -> option Z) : Prop :=
  forall i b, st i = Some b -> 0 <= i /\ nth_error Wd (Z.to_nat i) = Some b.

Record RInv (Wd : list Z) (r : rcv) (acc : list Z) : Prop := {
  r_store : store_ok Wd (store r);
  r_pos : 0 <= readPos r <= zlen Wd;
  r_acc : acc = zfirstn (readPos r) Wd
}.

Lemma rcv0_RInv Wd : RInv Wd rcv0 [].
Proof.
  constructor; cbn.
  - intros i b H. discriminate.
  - pose proof (zlen_nonneg Wd). lia.
  - reflexivity.
Qed.

Lemma good_nth Wd f i :
  good Wd f -> f_off f <= i < f_end f -> nth_error Wd (Z.to_nat i) = nth_error (f_data f) (Z.to_nat (i - f_off f)).
Proof.
  intros (pre & post & E & L) H. unfold f_end, zlen in *. rewrite E.
  rewrite nth_error_app2 by lia. rewrite nth_error_app1 by lia. f_equal. lia.
Qed.

Lemma put_ok Wd st f : store_ok Wd st -> good Wd f -> store_ok Wd (put st (f_off f) (f_data f)).
Proof.
  intros H G i b. unfold put. destruct (st i) eqn:E.
  - intros A. replace b with z by congruence. apply H. exact E.
  - destruct (Z.leb_spec (f_off f) i); cbn [andb]; [|discriminate].
    destruct (Z.ltb_spec i (f_off f + zlen (f_data f))); [|discriminate].
    intros A. pose proof (good_range _ _ G) as [R1 R2]. split; [lia|].
    rewrite (good_nth Wd f i G); auto; unfold f_end; lia.
Qed.

Lemma deliver_RInv Wd r acc f : RInv Wd r acc -> good Wd f -> RInv Wd (deliver f r) acc.
Proof.
  intros [H1 H2 H3] G. constructor; cbn; auto using put_ok.
Qed.

Lemma run_from_prefix Wd st fuel pos :
  store_ok Wd st -> 0 <= pos ->
  exists rest, zskipn pos Wd = run_from st fuel pos ++ rest.
Proof.
  intros Hs. revert pos. induction fuel as [|k IH]; intros pos Hp; cbn [run_from].
  - eexists. reflexivity.
  - destruct (st pos) as [b|] eqn:E; [|eexists; reflexivity].
    destruct (Hs _ _ E) as [_ Hn]. destruct (IH (pos + 1) ltac:(lia)) as (rest & Hr).
    exists rest. cbn [app]. rewrite <- Hr. unfold zskipn.
    replace (Z.to_nat (pos + 1)) with (S (Z.to_nat pos)) by lia.
    clear - Hn. revert Hn. generalize (Z.to_nat pos) as n. intros n. revert Wd.
    induction n as [|n IHn]; intros [|x l] H; cbn in *; try discriminate.
    + inversion H. reflexivity.
    + apply IHn. exact H.
Qed.

Lemma read_RInv Wd r acc n :
  RInv Wd r acc -> RInv Wd (fst (read n r)) (acc ++ fst (snd (read n r))).
Proof.
  intros [H1 H2 H3]. unfold read. cbn [fst snd].
  set (d := run_from _ _ _).
  destruct (run_from_prefix Wd (store r) (Z.to_nat (Z.min n (hi r - readPos r))) (readPos r) H1 ltac:(lia)) as (rest & Hr).
  fold d in Hr.
  assert (HW : Wd = acc ++ d ++ rest).
  { rewrite H3. rewrite <- Hr. symmetry. apply zfirstn_skipn. }
  assert (Hl : zlen acc = readPos r) by (rewrite H3; apply zlen_zfirstn; lia).
  pose proof (zlen_nonneg d). pose proof (zlen_nonneg rest).
  constructor; cbn; auto.
  - rewrite HW, !zlen_app. lia.
  - rewrite HW. rewrite app_assoc. rewrite zfirstn_app_l by (rewrite zlen_app; lia).
    symmetry. apply zfirstn_all. rewrite zlen_app. lia.
Qed.

(** final size: every FIN frame that can arrive ends at |W| *)
Definition fin_ok (Wd : list Z) (r : rcv) : Prop := forall fs, finalSize r = Some fs -> fs = zlen Wd.

Lemma deliver_fin_ok Wd r f : fin_ok Wd r -> (f_fin f = true -> f_end f = zlen Wd) -> fin_ok Wd (deliver f r).
Proof.
  intros H Hf fs. cbn. destruct (finalSize r) eqn:E; [intros A; inversion A; subst; auto|].
  destruct (f_fin f); [|discriminate]. intros A. inversion A. auto.
Qed.

Theorem rrun_inv Wd evs : forall r acc e0,
  RInv Wd r acc -> fin_ok Wd r -> (e0 = true -> readPos r = zlen Wd) ->
  Forall (good Wd) (delivered evs) ->
  (forall f, In f (delivered evs) -> f_fin f = true -> f_end f = zlen Wd) ->
  let (r', rs) := rrun r evs in
  RInv Wd r' (acc ++ all_read rs) /\ fin_ok Wd r' /\ (e0 || saw_eof rs = true -> readPos r' = zlen Wd).
Proof.
  induction evs as [|e evs IH]; intros r acc e0 HR HF HE HG HFin; cbn [rrun].
  - cbn. rewrite app_nil_r, orb_false_r. auto.
  - destruct e as [f|n]; cbn [delivered flat_map app] in *.
    + inversion HG; subst. apply IH; auto.
      * now apply deliver_RInv.
      * apply deliver_fin_ok; auto. apply HFin. left. reflexivity.
      * intros f' Hin. apply HFin. right. exact Hin.
    + pose proof (read_RInv Wd r acc n HR) as HR1.
      assert (HF1 : fin_ok Wd (fst (read n r))) by (unfold read; cbn; exact HF).
      assert (Hmono : readPos r <= readPos (fst (read n r))).
      { unfold read. cbn. match goal with |- _ <= _ + zlen ?d => pose proof (zlen_nonneg d) end. lia. }
      assert (Heof : snd (snd (read n r)) = true -> readPos (fst (read n r)) = zlen Wd).
      { unfold read. cbn. destruct (finalSize r) as [fs|] eqn:E; [|discriminate].
        intros A. apply Z.eqb_eq in A. rewrite A. apply HF. exact E. }
      destruct (read n r) as [r1 [d eof]]. cbn [fst snd] in *.
      specialize (IH r1 (acc ++ d) (e0 || eof) HR1 HF1).
      destruct (rrun r1 evs) as [r2 xs].
      destruct IH as (A & B & C); auto.
      * intros E. apply orb_prop in E. destruct E as [E|E]; [|auto].
        specialize (HE E). pose proof (r_pos _ _ _ HR1). lia.
      * cbn [all_read saw_eof flat_map existsb fst snd]. rewrite app_assoc. split; [exact A|split; [exact B|]].
        intros E. apply C. rewrite <- orb_assoc. exact E.
Qed.

(** the reads are a prefix of the written bytes; EOF only at the very end *)
Corollary reads_prefix Wd evs :
  Forall (good Wd) (delivered evs) ->
  (forall f, In f (delivered evs) -> f_fin f = true -> f_end f = zlen Wd) ->
  let rs := snd (rrun rcv0 evs) in
  (exists rest, Wd = all_read rs ++ rest) /\ (saw_eof rs = true -> all_read rs = Wd).
Proof.
  intros HG HF.
  pose proof (rrun_inv Wd evs rcv0 [] false (rcv0_RInv Wd)) as H.
  assert (F0 : fin_ok Wd rcv0) by (intros fs A; discriminate).
  specialize (H F0 ltac:(discriminate) HG HF).
  destruct (rrun rcv0 evs) as [r' rs]. cbn [snd]. destruct H as ([H1 H2 H3] & H4 & H5). cbn [app] in *.
  split.
  - exists (zskipn (readPos r') Wd). rewrite H3. symmetry. apply zfirstn_skipn.
  - intros E. rewrite H3, (H5 E). apply zfirstn_all. lia.
Qed.

(** prefix alone needs no assumption on FIN frames *)
Lemma rrun_RInv Wd evs : forall r acc,
  RInv Wd r acc -> Forall (good Wd) (delivered evs) ->
  RInv Wd (fst (rrun r evs)) (acc ++ all_read (snd (rrun r evs))).
Proof.
  induction evs as [|e evs IH]; intros r acc HR HG; cbn [rrun].
  - cbn. now rewrite app_nil_r.
  - destruct e as [f|n]; cbn [delivered flat_map app] in *.
    + inversion HG; subst. apply IH; auto. now apply deliver_RInv.
    + pose proof (read_RInv Wd r acc n HR) as HR1. destruct (read n r) as [r1 [d eof]]. cbn [fst snd] in *.
      specialize (IH r1 (acc ++ d) HR1 HG). destruct (rrun r1 evs) as [r2 xs]. cbn [fst snd] in *.
      cbn [all_read flat_map fst]. rewrite app_assoc. exact IH.
Qed.

Corollary reads_prefix_only Wd evs :
  Forall (good Wd) (delivered evs) ->
  exists rest, Wd = all_read (snd (rrun rcv0 evs)) ++ rest.
Proof.
  intros HG. pose proof (rrun_RInv Wd evs rcv0 [] (rcv0_RInv Wd) HG) as [H1 H2 H3]. cbn [app] in H3.
  exists (zskipn (readPos (fst (rrun rcv0 evs))) Wd). rewrite H3. symmetry. apply zfirstn_skipn.
Qed.

(** ** completeness: if what arrived covers [0,|W|) and includes the FIN, draining reads W then EOF *)
Lemma put_mono st off d i : st i <> None -> put st off d i <> None.
Proof. unfold put. destruct (st i); congruence. Qed.
Lemma put_covers st off d i : off <= i < off + zlen d -> put st off d i <> None.
Proof.
  intros H. unfold put. destruct (st i); [discriminate|].
  destruct (Z.leb_spec off i); [|lia]. destruct (Z.ltb_spec i (off + zlen d)); [|lia]. cbn [andb].
  apply nth_error_Some. unfold zlen in *. lia.
Qed.

Lemma rrun_store evs : forall r,
  let r' := fst (rrun r evs) in
  (forall i, store r i <> None -> store r' i <> None) /\
  (forall f, In f (delivered evs) -> forall i, f_off f <= i < f_end f -> store r' i <> None) /\
  hi r <= hi r' /\ (forall f, In f (delivered evs) -> f_end f <= hi r') /\
  ((finalSize r <> None \/ exists f, In f (delivered evs) /\ f_fin f = true) -> finalSize r' <> None).
Proof.
  induction evs as [|e evs IH]; intros r; cbn [rrun].
  - cbn. repeat split; auto; try lia; try contradiction. intros [A|(f & [] & _)]. exact A.
  - destruct e as [f|n].
    + specialize (IH (deliver f r)). cbn zeta in *. destruct IH as (I1 & I2 & I3 & I4 & I5).
      cbn [delivered flat_map app In] in *. repeat split.
      * intros i H. apply I1. cbn. now apply put_mono.
      * intros g [Hg|Hg] i Hi; [subst g|eauto]. apply I1. cbn. now apply put_covers.
      * cbn in I3. lia.
      * intros g [Hg|Hg]; [subst g|eauto]. cbn in I3. lia.
      * intros H. apply I5. cbn. destruct (finalSize r) eqn:E; [left; discriminate|].
        destruct H as [H|(g & [Hg|Hg] & Hfin)]; [congruence| |right; eauto].
        subst g. rewrite Hfin. left. discriminate.
    + specialize (IH (fst (read n r))). cbn zeta in *.
      destruct (read n r) as [r1 x] eqn:ER. cbn [fst] in IH.
      assert (E1 : store r1 = store r /\ hi r1 = hi r /\ finalSize r1 = finalSize r).
      { unfold read in ER. inversion ER; subst. cbn. auto. }
      destruct E1 as (E1 & E2 & E3). rewrite E1, E2, E3 in IH.
      destruct (rrun r1 evs) as [r2 xs]. cbn [fst delivered flat_map app] in *. exact IH.
Qed.

Lemma run_from_full Wd st fuel pos L :
  store_ok Wd st -> L = zlen Wd -> 0 <= pos <= L -> (forall i, pos <= i < L -> st i <> None) ->
  L - pos <= Z.of_nat fuel -> zlen (run_from st fuel pos) = L - pos.
Proof.
  intros Hs HL. revert pos. induction fuel as [|k IH]; intros pos Hp Hall Hf; cbn [run_from].
  - change (zlen (@nil Z)) with 0. lia.
  - destruct (st pos) as [b|] eqn:E.
    + destruct (Hs _ _ E) as [_ Hn]. assert (pos < L).
      { subst L. unfold zlen. assert (Z.to_nat pos < length Wd)%nat by (apply nth_error_Some; congruence). lia. }
      rewrite zlen_cons, IH; try lia. intros i Hi. apply Hall. lia.
    + change (zlen (@nil Z)) with 0. destruct (Z.eq_dec pos L); [lia|].
      exfalso. apply (Hall pos); [lia|exact E].
Qed.

Theorem complete_if_covered Wd evs n :
  Forall (good Wd) (delivered evs) ->
  (forall f, In f (delivered evs) -> f_fin f = true -> f_end f = zlen Wd) ->
  (forall i, 0 <= i < zlen Wd -> exists f, In f (delivered evs) /\ f_off f <= i < f_end f) ->
  (exists f, In f (delivered evs) /\ f_fin f = true) ->
  zlen Wd <= n ->
  let rs := snd (rrun rcv0 (evs ++ [ERead n])) in
  all_read rs = Wd /\ saw_eof rs = true.
Proof.
  intros HG HF Hcov Hfin Hn.
  assert (Hsplit : forall r, rrun r (evs ++ [ERead n]) =
            let (r1, xs) := rrun r evs in let (r2, x) := read n r1 in (r2, xs ++ [x])).
  { clear. induction evs as [|e evs IH]; intros r; cbn [app rrun].
    - destruct (read n r). reflexivity.
    - destruct e as [f|m]; [apply IH|]. destruct (read m r) as [r1 x]. rewrite IH.
      destruct (rrun r1 evs) as [r2 xs]. destruct (read n r2). reflexivity. }
  rewrite Hsplit.
  pose proof (rrun_inv Wd evs rcv0 [] false (rcv0_RInv Wd)) as H.
  assert (F0 : fin_ok Wd rcv0) by (intros fs A; discriminate).
  specialize (H F0 ltac:(discriminate) HG HF).
  pose proof (rrun_store evs rcv0) as S. cbn zeta in S.
  destruct (rrun rcv0 evs) as [r1 xs]. cbn [fst] in S.
  destruct H as ([H1 H2 H3] & H4 & H5). destruct S as (S1 & S2 & S3 & S4 & S5). cbn [app] in H3.
  assert (Hfs : finalSize r1 = Some (zlen Wd)).
  { destruct (finalSize r1) as [fs|] eqn:E; [f_equal; now apply H4|]. exfalso. apply S5; auto. }
  assert (Hhi : zlen Wd <= hi r1).
  { destruct (Z.eq_dec (zlen Wd) 0) as [E0|E0]; [cbn in S3; lia|].
    pose proof (zlen_nonneg Wd). destruct (Hcov (zlen Wd - 1) ltac:(lia)) as (f & Hin & Hr).
    specialize (S4 f Hin). lia. }
  assert (Hlen : zlen (run_from (store r1) (Z.to_nat (Z.min n (hi r1 - readPos r1))) (readPos r1)) = zlen Wd - readPos r1).
  { apply run_from_full with (Wd := Wd); auto; try lia.
    intros i Hi. destruct (Hcov i ltac:(lia)) as (f & Hin & Hr). eapply S2; eauto. }
  pose proof (read_RInv Wd r1 (all_read xs) n ltac:(constructor; auto)) as [R1 R2 R3].
  unfold read in *. cbn [fst snd] in *. rewrite Hfs.
  split.
  - unfold all_read in *. rewrite flat_map_app. cbn [flat_map fst]. rewrite app_nil_r.
    rewrite R3, Hlen. cbn [readPos]. apply zfirstn_all. lia.
  - unfold saw_eof. rewrite existsb_app. cbn [existsb snd]. rewrite Hlen.
    replace (readPos r1 + (zlen Wd - readPos r1)) with (zlen Wd) by lia. rewrite Z.eqb_refl.
    rewrite orb_true_r. reflexivity.
Qed.
