(** The network at packet level: what reaches the stream / datagram layer of the receiver.

    Arriving UDP payloads are ARBITRARY byte strings (the network may drop, duplicate, reorder,
    corrupt, truncate or invent them).  The receiving connection (1-RTT packets; connection.go
    handleShortHeaderPacket / handleUnpackedShortHeaderPacket) does, per arrival:
      1. unpack (model PktProt.Protect.unprotect, C05); failure => the packet is dropped;
      2. receivedPacketHandler.IsPotentiallyDuplicate(pn) (model RecvPH, C07); true => dropped;
      3. handleFrames(payload);  4. receivedPacketHandler.ReceivedPacket(pn, ...); an error closes
         the connection.
    This file states that discipline as the function [nstep] (a transcription of those four
    lines, NOT tied by a harness of its own: the pieces it calls are the tied models of C05 and
    C07; the order of the calls is read off connection.go and explored by the simstream units with
    duplicated / corrupted / truncated datagrams) and DERIVES, instead of assuming:
      - from C05's ideal-integrity theorem: every processed packet was sealed by the sender;
      - from C07's invariant [dup_inv] (RecvPH.DupAlways, model of the history repaired by
        fixes/C07-trimmed-history-counts-as-received.patch, /repo 4675722): no packet number is processed
        twice, in every history - also behind more than MaxNumAckRanges gaps. *)
From Coq Require Import List ZArith Bool Lia Arith.
From V Require Import Gen.Params RecvPH.Model RecvPH.ProofsHist RecvPH.ProofsAck RecvPH.ProofsDupTrace RecvPH.DupAlways
  PktProt.Protect PktProt.ProtectProofs.
Import ListNotations.
Open Scope Z_scope.

Definition L1 : Z := rph_Enc1RTT.

Section Net.
Variable aead_open : Z -> Z -> list Z -> list Z -> option (list Z).
Variable hp_mask : list Z -> list Z.

(* one arriving UDP payload with the per-packet context of the receiver: length of the connection ID
   (the packet number starts at offset 1 + cidLen),
   highest packet number received so far (for decoding), ECN bits, receive time, ack-eliciting flag of
   the content (oracles of this layer) *)
Inductive nev :=
| NOther (o : op)                                  (* any other call on the received-packet handler *)
| NArrive (data : list Z) (cidLen : nat) (largest ecn t : Z) (ae : bool).

Definition is_app_recv (o : op) : bool :=
  match o with
  | Recv _ _ lvl _ _ => match sp_of lvl with Some 2%nat => true | _ => false end
  | _ => false
  end.

Record nst := mkN {
  n_h : handler; n_tr : list (op * res);
  n_procs : list (Z * Z * list Z);     (* packet number, key phase, plaintext of the packets whose frames were handled *)
  n_closed : bool
}.
Definition nst0 : nst := mkN newHandler [] [] false.

Definition nstep (s : nst) (e : nev) : nst :=
  if n_closed s then s else
  match e with
  | NOther o =>
    if is_app_recv o then s      (* 1-RTT receptions only happen through NArrive *)
    else mkN (fst (step (n_h s) o)) (n_tr s ++ [(o, snd (step (n_h s) o))]) (n_procs s) false
  | NArrive data cidLen largest ecn t ae =>
    match unprotect aead_open hp_mask false (S cidLen) largest data with
    | UOk first pn pnLen kp p =>
      let r1 := snd (step (n_h s) (IsDup pn L1)) in
      let tr1 := n_tr s ++ [(IsDup pn L1, r1)] in
      match r1 with
      | RB false =>
        let o := Recv pn ecn L1 t ae in
        let r2 := snd (step (n_h s) o) in
        mkN (fst (step (n_h s) o)) (tr1 ++ [(o, r2)])
            (n_procs s ++ [(pn, kp, p)])                      (* handleFrames ran *)
            (match r2 with ROk => false | _ => true end)      (* ReceivedPacket failed: connection closed *)
      | _ => mkN (n_h s) tr1 (n_procs s) false         (* duplicate (or dropped space): not handled *)
      end
    | _ => s                                                   (* does not open: dropped *)
    end
  end.

Definition nrun (s : nst) (evs : list nev) : nst := fold_left nstep evs s.

(** ** invariant: C07's [dup_inv], and every processed number was accepted by ReceivedPacket —
    except possibly the very last one when that call failed and closed the connection *)
Definition pns (s : nst) : list Z := map (fun x => fst (fst x)) (n_procs s).

Record NInv (s : nst) : Prop := {
  ni_d : dup_inv (n_tr s) (n_h s);
  ni_acc : n_closed s = false -> forall q, In q (pns s) -> accepted (n_tr s) 2%nat q;
  ni_nodup : NoDup (pns s)
}.

Lemma L1_sp : sp_of L1 = Some 2%nat.
Proof. reflexivity. Qed.

Lemma accepted_app_l tr tr' sp q : accepted tr sp q -> accepted (tr ++ tr') sp q.
Proof. intros (ecn & lvl & t & ae & Hin & Hsp). exists ecn, lvl, t, ae. split; [apply in_or_app; now left|assumption]. Qed.

Lemma isdup_app h pn : snd (step h (IsDup pn L1)) = RB (is_dup (tHist (aTr (hApp h))) pn).
Proof. reflexivity. Qed.

Lemma pns_app s x : map (fun y : Z * Z * list Z => fst (fst y)) (n_procs s ++ [x]) = pns s ++ [fst (fst x)].
Proof. unfold pns. rewrite map_app. reflexivity. Qed.

Lemma nstep_NInv s e : NInv s -> NInv (nstep s e).
Proof.
  intros HI. pose proof HI as [Id Ia Hnd]. unfold nstep. destruct (n_closed s) eqn:Ec; [exact HI|].
  destruct e as [o|data cidLen largest ecn t ae].
  - destruct (is_app_recv o) eqn:Eo; [exact HI|].
    pose proof (dup_inv_step _ _ o Id) as Id'.
    constructor; cbn [n_h n_tr n_procs n_closed pns]; auto.
    intros _ q Hq. apply accepted_app_l. apply (Ia eq_refl); exact Hq.
  - destruct (unprotect aead_open hp_mask false (S cidLen) largest data) as [first pn pnLen kp p| | | | | | ] eqn:Eu;
      try exact HI.
    rewrite isdup_app.
    pose proof (dup_inv_step _ _ (IsDup pn L1) Id) as Id1. rewrite isdup_app in Id1.
    cbn [step fst] in Id1.
    destruct (is_dup (tHist (aTr (hApp (n_h s)))) pn) eqn:Ed.
    + (* flagged as duplicate: dropped *)
      constructor; cbn [n_h n_tr n_procs n_closed pns]; auto.
      intros _ q Hq. apply accepted_app_l. apply (Ia eq_refl); exact Hq.
    + set (o := Recv pn ecn L1 t ae).
      pose proof (dup_inv_step _ _ o Id1) as Id2.
      constructor; cbn [n_h n_tr n_procs n_closed].
      * exact Id2.
      * intros Hc q Hq. unfold pns in Hq. cbn [n_procs] in Hq. rewrite pns_app in Hq. cbn [fst] in Hq.
        apply in_app_or in Hq. destruct Hq as [Hq|[Hq|[]]].
        -- apply accepted_app_l. apply accepted_app_l. apply (Ia eq_refl); exact Hq.
        -- subst q. exists ecn, L1, t, ae. split; [|exact L1_sp]. apply in_or_app. right.
           destruct (snd (step (n_h s) o)) eqn:Er; try discriminate. left. reflexivity.
      * unfold pns. cbn [n_procs]. rewrite pns_app. cbn [fst].
        assert (Hnew : ~ In pn (pns s)).
        { intros Hin. specialize (Ia eq_refl pn Hin).
          destruct (dup_always_step (n_tr s) (n_h s) 2%nat (tHist (aTr (hApp (n_h s)))) pn L1 Id eq_refl Ia L1_sp)
            as (_ & Hd & _). congruence. }
        clear - Hnd Hnew. induction (pns s) as [|a l IH]; cbn.
        -- constructor; [intros []|constructor].
        -- inversion Hnd; subst. constructor.
           ++ rewrite in_app_iff. intros [H|[H|[]]]; [contradiction|]. apply Hnew. left. auto.
           ++ apply IH; auto. intros H. apply Hnew. right. exact H.
Qed.

Lemma nst0_NInv : NInv nst0.
Proof. constructor; cbn; [apply dup_inv_init|intros _ q []|constructor]. Qed.

Lemma nrun_NInv evs : forall s, NInv s -> NInv (nrun s evs).
Proof. induction evs as [|e evs IH]; intros s H; [exact H|]. cbn [nrun fold_left]. apply IH. now apply nstep_NInv. Qed.

(** ** sealed content (C05) *)
Variable aead_seal : Z -> Z -> list Z -> list Z -> list Z.
Variable sealed : Z -> Z -> list Z -> list Z -> Prop.
(* ideal integrity: whatever opens was sealed by the honest sender and is exactly that ciphertext *)
Hypothesis ideal : forall pn kp ad c p, aead_open pn kp ad c = Some p -> sealed pn kp ad p /\ c = aead_seal pn kp ad p.

Definition was_sealed (x : Z * Z * list Z) : Prop := let '(pn, kp, p) := x in exists hdr, sealed pn kp hdr p.

Lemma nstep_sealed s e : Forall was_sealed (n_procs s) -> Forall was_sealed (n_procs (nstep s e)).
Proof.
  intros H. unfold nstep. destruct (n_closed s); [exact H|].
  destruct e as [o|data cidLen largest ecn t ae].
  - destruct (is_app_recv o); exact H.
  - destruct (unprotect aead_open hp_mask false (S cidLen) largest data) as [first pn pnLen kp p| | | | | | ] eqn:Eu; try exact H.
    destruct (snd (step (n_h s) (IsDup pn L1))) as [| | | |b| | |]; try exact H. destruct b; [exact H|].
    cbn [n_procs]. apply Forall_app. split; [exact H|]. constructor; [|constructor].
    destruct (tamper_rejected aead_seal aead_open hp_mask sealed ideal false (S cidLen) largest data first pn pnLen kp p ltac:(lia) Eu)
      as (hdr & Hs & _). exists hdr. exact Hs.
Qed.

Lemma nrun_sealed evs : forall s, Forall was_sealed (n_procs s) -> Forall was_sealed (n_procs (nrun s evs)).
Proof. induction evs as [|e evs IH]; intros s H; [exact H|]. cbn [nrun fold_left]. apply IH. now apply nstep_sealed. Qed.

(** ** the packets whose frames are handled are packets of the sender, each at most once *)
Variable sent : list (Z * Z * list Z).      (* packet number, key phase, plaintext of every packet the sender sealed *)
Hypothesis honest : forall pn kp hdr p, sealed pn kp hdr p -> In (pn, kp, p) sent.

(** Every processed packet is one the sender sealed, and no packet (number) is processed twice — for every
    sequence of arrivals and handler calls; no hypothesis on the received-packet history. *)
Theorem processed_from_sent evs :
  let s := nrun nst0 evs in
  incl (n_procs s) sent /\ NoDup (pns s) /\ NoDup (n_procs s).
Proof.
  cbn zeta. pose proof (nrun_NInv evs nst0 nst0_NInv) as [_ _ Hn].
  pose proof (nrun_sealed evs nst0 ltac:(constructor)) as Hs.
  split.
  - intros [[pn kp] p] Hin. rewrite Forall_forall in Hs. destruct (Hs _ Hin) as (hdr & H). eapply honest; eauto.
  - split; [exact Hn|]. unfold pns in Hn. eapply NoDup_map_inv; eauto.
Qed.
End Net.
