(** Model of /repo/datagram_queue.go: send ring (at most dgMaxSendQueueLen entries, Add blocks when
    full), receive queue (at most dgMaxRcvQueueLen entries, excess dropped), the two 1-buffered
    signalling channels are irrelevant for the contents and only decide WHEN a parked Add runs
    ([DResume] at arbitrary points).  A datagram is its payload (list of bytes). *)
From Coq Require Import List ZArith Bool.
From V Require Import Gen.Params Lib.Hex.
Import ListNotations.
Open Scope Z_scope.

Record dq := mkDq {
  sendQ : list (list Z);
  parked : option (list Z);   (* an Add call waiting for room *)
  sentTok : bool;             (* the [sent] channel holds a token *)
  rcvQ : list (list Z);
  closedQ : bool;
  dpanic : bool;              (* Pop on an empty ring panics in Go *)
  (* ghost logs *)
  gAdded : list (list Z);     (* payloads of the Add calls that returned nil, in the order they entered the ring *)
  gPopped : list (list Z);    (* what Pop removed (= what the packer put into packets or discarded) *)
  gHandled : list (list Z);   (* payloads of all HandleDatagramFrame calls *)
  gAccepted : list (list Z);  (* those that were queued *)
  gReceived : list (list Z)   (* what Receive returned *)
}.
Definition dq0 : dq := mkDq [] None false [] false false [] [] [] [] [].

Inductive dop :=
| DAdd (p : list Z) | DResume | DPeek | DPop | DHandle (p : list Z) | DReceive | DClose.

(* observable result: 0 nothing / 1 Add returned nil / 2 Add returned the close error / 3 payload / 4 would block *)
Inductive dout := DNone | DAddOk | DAddErr | DData (p : list Z) | DEmpty.

(* one iteration of the loop in Add: fails once the queue is closed (repo commit 324cbb2), else
   pushes if there is room, else parks *)
Definition add_loop (p : list Z) (q : dq) : dq * dout :=
  if closedQ q then
    (mkDq (sendQ q) None (sentTok q) (rcvQ q) (closedQ q) (dpanic q)
          (gAdded q) (gPopped q) (gHandled q) (gAccepted q) (gReceived q), DAddErr)
  else if zlen (sendQ q) <? dgMaxSendQueueLen then
    (mkDq (sendQ q ++ [p]) None (sentTok q) (rcvQ q) (closedQ q) (dpanic q)
          (gAdded q ++ [p]) (gPopped q) (gHandled q) (gAccepted q) (gReceived q), DAddOk)
  else (* drain the token, park *)
    (mkDq (sendQ q) (Some p) false (rcvQ q) (closedQ q) (dpanic q)
          (gAdded q) (gPopped q) (gHandled q) (gAccepted q) (gReceived q), DNone).

Definition dstep (q : dq) (o : dop) : dq * dout :=
  if dpanic q then (q, DNone) else
  match o with
  | DAdd p => match parked q with Some _ => (q, DNone) | None => add_loop p q end
  | DResume =>
    match parked q with
    | None => (q, DNone)
    | Some p =>
      if closedQ q then
        (mkDq (sendQ q) None (sentTok q) (rcvQ q) (closedQ q) (dpanic q)
              (gAdded q) (gPopped q) (gHandled q) (gAccepted q) (gReceived q), DAddErr)
      else if sentTok q then
        add_loop p (mkDq (sendQ q) None false (rcvQ q) (closedQ q) (dpanic q)
                         (gAdded q) (gPopped q) (gHandled q) (gAccepted q) (gReceived q))
      else (q, DNone)
    end
  | DPeek => (q, match sendQ q with [] => DEmpty | p :: _ => DData p end)
  | DPop =>
    match sendQ q with
    | [] => (mkDq [] (parked q) (sentTok q) (rcvQ q) (closedQ q) true
                  (gAdded q) (gPopped q) (gHandled q) (gAccepted q) (gReceived q), DNone)
    | p :: r => (mkDq r (parked q) true (rcvQ q) (closedQ q) (dpanic q)
                      (gAdded q) (gPopped q ++ [p]) (gHandled q) (gAccepted q) (gReceived q), DNone)
    end
  | DHandle p =>
    if zlen (rcvQ q) <? dgMaxRcvQueueLen then
      (mkDq (sendQ q) (parked q) (sentTok q) (rcvQ q ++ [p]) (closedQ q) (dpanic q)
            (gAdded q) (gPopped q) (gHandled q ++ [p]) (gAccepted q ++ [p]) (gReceived q), DNone)
    else
      (mkDq (sendQ q) (parked q) (sentTok q) (rcvQ q) (closedQ q) (dpanic q)
            (gAdded q) (gPopped q) (gHandled q ++ [p]) (gAccepted q) (gReceived q), DNone)
  | DReceive =>
    match rcvQ q with
    | [] => (q, DEmpty)
    | p :: r => (mkDq (sendQ q) (parked q) (sentTok q) r (closedQ q) (dpanic q)
                      (gAdded q) (gPopped q) (gHandled q) (gAccepted q) (gReceived q ++ [p]), DData p)
    end
  | DClose =>
    (mkDq (sendQ q) (parked q) (sentTok q) (rcvQ q) true (dpanic q)
          (gAdded q) (gPopped q) (gHandled q) (gAccepted q) (gReceived q), DNone)
  end.

Fixpoint drun (q : dq) (ops : list dop) : dq * list dout :=
  match ops with
  | [] => (q, [])
  | o :: r => let (q1, x) := dstep q o in let (q2, xs) := drun q1 r in (q2, x :: xs)
  end.

(* l1 is l2 with some elements removed (order kept, nothing duplicated) *)
Fixpoint sublist {A} (eqb : A -> A -> bool) (l1 l2 : list A) : bool :=
  match l1, l2 with
  | [], _ => true
  | _ :: _, [] => false
  | x :: r1, y :: r2 => if eqb x y then sublist eqb r1 r2 else sublist eqb l1 r2
  end.
