(** C01's end-to-end theorems with the receiver's frame parser INTERPRETED as C08's payload codec
    (StreamE2E.PayloadCompose): [packed] and [wire_dgs] are no longer hypotheses about an uninterpreted parser.
    Remaining hypotheses, exactly:
      ideal        integrity of the AEAD (C05's)
      honest       only the sender seals, and only its packets
      packer_frames / packer_dgs   about the packer, on FRAME LISTS: every sealed plaintext is C08's serialisation
                   ([encode_payload]; PADDING anywhere, all frames self-delimiting except possibly the last) of a
                   well-formed frame list whose STREAM frames of this stream are frames popStreamFrame returned /
                   whose DATAGRAM payloads are those of the corresponding packet of the packer model
      delivered_is_handled / handled_is_processed   the stream / datagram layer is fed exactly the frames
                   [parse_payload] finds in the processed packets, in processing order
      window, reads_nonneg, crun = Some r           receiver side conditions as before. *)
From Coq Require Import List ZArith Bool Lia.
From V Require Import Gen.Params Lib.Hex SendStream.Model SendStream.ProofsOut
  RecvStream.Spec StreamE2E.Concrete StreamE2E.NetPkt
  StreamE2E.DgModel StreamE2E.DgProofs StreamE2E.PackModel StreamE2E.PackProofs StreamE2E.EndToEnd StreamE2E.PayloadCompose.
Import ListNotations.
Open Scope Z_scope.

Section Codec.
Variable aead_seal : Z -> Z -> list Z -> list Z -> list Z.
Variable aead_open : Z -> Z -> list Z -> list Z -> option (list Z).
Variable hp_mask : list Z -> list Z.
Variable sealed : Z -> Z -> list Z -> list Z -> Prop.
Hypothesis ideal : forall pn kp ad c p, aead_open pn kp ad c = Some p -> sealed pn kp ad p /\ c = aead_seal pn kp ad p.
Variable sent : list (Z * Z * list Z).
Hypothesis honest : forall pn kp hdr p, sealed pn kp hdr p -> In (pn, kp, p) sent.
Variable cfg0 : WF.cfg.                     (* the receiver's frame-parser configuration *)
Variable nevs : list nev.

Section Streams.
Variables (sid0 : Z) (rsa : bool) (swin cwin : Z) (ops : list V.SendStream.Model.op) (w : Z) (evs : list cev).
Let s := fst (V.SendStream.Model.run (V.SendStream.Model.init sid0 rsa swin cwin) ops).
Let E := frames_of (snd (V.SendStream.Model.run (V.SendStream.Model.init sid0 rsa swin cwin) ops)).
Hypothesis packer_frames : forall x, In x sent ->
  exists d, pk_ok cfg0 d /\ snd x = payload_of d /\
            forall f, In f (omap (stream_of sid0) (frames_of_desc d)) -> In f E.
Hypothesis delivered_is_handled :
  cdelivered evs = stream_frames_handled aead_open hp_mask (frames_in_codec cfg0 sid0) nevs.
Hypothesis window : 0 <= w < V.FrameSorter.Model.MaxBC.
Hypothesis reads_nonneg : forall n, In (CRead n) evs -> 0 <= n.

Theorem e2e_prefix_codec r :
  crun (rrun_init w) evs = Some r ->
  (exists rest, W s = rr_out r ++ rest) /\ (rr_eof r = true -> rr_out r = W s /\ finishedWriting s = true).
Proof.
  apply (e2e_prefix aead_seal aead_open hp_mask sealed ideal sent honest (frames_in_codec cfg0 sid0) nevs
           sid0 rsa swin cwin ops w evs (packed_codec cfg0 sid0 E sent packer_frames)
           delivered_is_handled window reads_nonneg).
Qed.

Theorem e2e_complete_codec n r0 :
  0 < n -> crun (rrun_init w) evs = Some r0 ->
  (forall i, 0 <= i < zlen (W s) -> in_range (cdelivered evs) i) ->
  existsb f_fin (cdelivered evs) = true ->
  exists r, crun r0 (repeat (CRead n) (Datatypes.S (Z.to_nat (zlen (W s))))) = Some r /\
            rr_out r = W s /\ rr_eof r = true /\ finishedWriting s = true.
Proof.
  apply (e2e_complete aead_seal aead_open hp_mask sealed ideal sent honest (frames_in_codec cfg0 sid0) nevs
           sid0 rsa swin cwin ops w evs (packed_codec cfg0 sid0 E sent packer_frames)
           delivered_is_handled window reads_nonneg).
Qed.
End Streams.

Section Datagrams.
Variable pops : list pop_.
Hypothesis pops_wf : Forall wf_op pops.
Let pkts := sent_of (combine pops (snd (prun pk0 pops))).
Definition pkt_dgs (pkt : list pframe) : list (list Z) :=
  flat_map (fun f => match pf_kind f with KDg p => [p] | _ => [] end) pkt.
(* packet by packet, the sealed plaintext is the serialisation of a frame list with the DATAGRAM payloads the
   packer model put into that packet *)
Hypothesis packer_dgs :
  Forall2 (fun b pkt => exists d, pk_ok cfg0 d /\ b = payload_of d /\ omap dg_of (frames_of_desc d) = pkt_dgs pkt)
          (map snd sent) pkts.
Variable rops : list dop.
Hypothesis rops_nopop : ~ In DPop rops.
Hypothesis handled_is_processed : handled_of rops = datagrams_handled aead_open hp_mask (dgs_in_codec cfg0) nevs.

Lemma wire_dgs_from_codec : flat_map (dgs_in_codec cfg0) (map snd sent) = dgs_of pkts.
Proof.
  unfold dgs_of. fold pkt_dgs. rewrite (flat_map_concat_map pkt_dgs pkts).
  apply wire_dgs_codec. clear - packer_dgs. induction packer_dgs; cbn [map]; constructor; auto.
Qed.

Theorem e2e_datagram_at_most_once_codec : forall d,
  (cnt d (received rops) <= cnt d (gAdded (p_dq (fst (prun pk0 pops)))))%nat.
Proof.
  apply (e2e_datagram_at_most_once' aead_seal aead_open hp_mask sealed ideal sent honest (dgs_in_codec cfg0) nevs
           pops pops_wf wire_dgs_from_codec rops rops_nopop handled_is_processed).
Qed.
End Datagrams.
End Codec.
