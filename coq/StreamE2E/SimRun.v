(** Correspondence glue for unit `simtrace` (harness/drv/simtrace.go): a whole simulated connection
    (real client, real server, real TLS, fault-injecting network) is observed at the layers the
    end-to-end theorems of C01 talk about, and the observation is replayed through the models:

      sender    1-RTT packets the client's packer produced (packet number, STREAM frames of the stream
                (offset, length, FIN), number of DATAGRAM frames) as reported by its qlog tracer;
      network   the fault schedule is NOT part of the case: whatever it did shows in
      receiver  the 1-RTT packets the server processed, in order, with their frames (its tracer);
      reader    total bytes the application read from the stream (length, checksum), whether it saw EOF;
      datagrams ids accepted by SendDatagram (and the size rule), ids handed out by ReceiveDatagram.

    [check_case] evaluates, on that observation, the CONCLUSIONS of C01_sender_frames_consistent
    (ranges inside W, first transmissions contiguous, FIN at |W| only), C01_net_processed_once (processed
    packets are sent packets, no packet number twice), C01_concrete_prefix / C01_concrete_complete (the
    RecvStream model fed with the processed frames in processing order, then drained, yields exactly what
    the application read; EOF iff the model says so) and C01_datagram_end_to_end (received ids: no
    duplicates, all sent), and the SendDatagram size rule of connection.go. *)
From Coq Require Import List ZArith Bool String.
From V Require Import Gen.Params Lib.Hex Wire.Varint SendStream.Model StreamE2E.DgRun
  FrameSorter.Model RecvStream.Model RecvStream.Spec StreamE2E.Concrete.
Import ListNotations.
Open Scope Z_scope.

Definition lfr := (Z * Z * bool)%type.                    (* offset, length, FIN *)
Record spkt := mkSP { sp_pn : Z; sp_frames : list lfr; sp_ndg : Z }.

Inductive case :=
  SimCase (wlen wseed : Z)                                 (* the bytes written: gen_data wlen wseed *)
          (closed : bool)                                  (* the writer called Close *)
          (sent rcvd : list spkt)
          (readLen readSum : Z) (eof : bool)
          (dgs : list (Z * Z * bool * Z * Z))              (* SendDatagram: id, payload length, accepted (false = DatagramTooLargeError),
                                                              peer's max_datagram_frame_size, MTU estimate at the call *)
          (dgrecv : list Z).                               (* ids returned by ReceiveDatagram *)

Definition lfr_eqb (a b : lfr) : bool :=
  let '(a1, a2, a3) := a in let '(b1, b2, b3) := b in (a1 =? b1) && (a2 =? b2) && Bool.eqb a3 b3.
Definition spkt_eqb (a b : spkt) : bool :=
  (sp_pn a =? sp_pn b) && leqb lfr_eqb (sp_frames a) (sp_frames b) && (sp_ndg a =? sp_ndg b).

Fixpoint nodupb (l : list Z) : bool :=
  match l with [] => true | x :: r => negb (existsb (Z.eqb x) r) && nodupb r end.

(* sender: every frame inside W, FIN only at |W| and only after Close; new data (offset >= highest so far)
   starts exactly at the highest offset so far *)
Fixpoint sender_ok (L : Z) (closed : bool) (hi : Z) (fs : list lfr) : bool :=
  match fs with
  | [] => true
  | (off, len, fin) :: r =>
    (0 <=? off) && (0 <=? len) && (off + len <=? L) &&
    (if fin then closed && (off + len =? L) else true) &&
    (if hi <=? off then off =? hi else off + len <=? hi) &&
    sender_ok L closed (Z.max hi (off + len)) r
  end.

Definition zslice (Wd : list Z) (off len : Z) : list Z := firstn (Z.to_nat len) (skipn (Z.to_nat off) Wd).

(* wire.DatagramFrame.MaxDataLen(maxSize) with DataLenPresent, and the rule of Conn.SendDatagram *)
Definition dg_max_data_len (maxSize : Z) : Z :=
  let h := 2 in
  if h >? maxSize then 0 else let m := maxSize - h in if vlen m =? 1 then m else m - 1.
Definition send_dg_accepts (maxFrame mtu len : Z) : bool := len <=? Z.min (dg_max_data_len maxFrame) mtu.

Definition model_read (Wd : list Z) (rcvd : list spkt) : option (list Z * bool) :=
  let evs := flat_map (fun p => map (fun f : lfr => let '(off, len, fin) := f in
                                     CDeliver (mkF off (zslice Wd off len) fin) None) (sp_frames p)) rcvd in
  match crun (rrun_init (MaxBC - 1)) (evs ++ [CRead (zlen Wd + 1); CRead 1; CRead 1]) with
  | Some r => Some (rr_out r, rr_eof r)
  | None => None
  end.

Definition check_case (c : case) : bool :=
  match c with
  | SimCase wlen wseed closed sent rcvd readLen readSum eof dgs dgrecv =>
    let Wd := gen_data (Z.to_nat wlen) wseed in
    (* sender *)
    sender_ok (zlen Wd) closed 0 (flat_map sp_frames sent) &&
    (* network: processed packets are sent packets, each at most once *)
    nodupb (map sp_pn rcvd) && forallb (fun p => existsb (spkt_eqb p) sent) rcvd &&
    (* receiver *)
    match model_read Wd rcvd with
    | None => false
    | Some (out, meof) =>
      (readLen <=? zlen out) && (cksum (firstn (Z.to_nat readLen) out) =? readSum) &&
      (if eof then meof && (readLen =? zlen out) && (readLen =? zlen Wd) else true)
    end &&
    (* datagrams *)
    forallb (fun d => let '(id, len, acc, maxFrame, mtu) := d in Bool.eqb acc (send_dg_accepts maxFrame mtu len)) dgs &&
    nodupb dgrecv &&
    forallb (fun id => existsb (fun d => let '(i, _, acc, _, _) := d in (i =? id) && acc) dgs) dgrecv
  end.

Definition model_obs (c : case) : option (Z * Z * bool) :=
  match c with
  | SimCase wlen wseed _ _ rcvd _ _ _ _ _ =>
    match model_read (gen_data (Z.to_nat wlen) wseed) rcvd with
    | Some (out, e) => Some (zlen out, cksum out, e)
    | None => None
    end
  end.
