(** The link "plaintext of a sealed packet <-> frames", composed with C08's payload codec
    (Wire.Payload.parse_payload = the frame loop of connection.handleFrames over the frame parser, tied to Go by
    C08's units).  The receiver's parser on a plaintext is no longer uninterpreted: it is [parse_payload] followed
    by the projection to the STREAM frames of the stream under consideration / to the DATAGRAM payloads.
    The sender's plaintext is C08's serialisation [encode_payload] of a frame list (PADDING anywhere; every frame
    self-delimiting, except possibly the last one, which may be a STREAM / DATAGRAM frame without length field).
    From C08's round-trip theorems the hypotheses [packed] and [wire_dgs] of StreamE2E.EndToEnd become LEMMAS;
    what remains about the packer is stated on frame lists, not on bytes. *)
From Coq Require Import List ZArith Bool Lia.
From V Require Import Gen.Params Lib.Hex.
From V Require Wire.FramesBase Wire.Frames Wire.FramesProofs Wire.Payload Wire.PayloadProofs.
From V Require Import SendStream.Model.
Import ListNotations.
Open Scope Z_scope.

Module WB := V.Wire.FramesBase.
Module WF := V.Wire.Frames.
Module WFP := V.Wire.FramesProofs.
Module WP := V.Wire.Payload.
Module WPP := V.Wire.PayloadProofs.

Notation wframe := WB.frame.
Definition lvl1 : Z := W_Encryption1RTT.

Fixpoint omap {A B} (g : A -> option B) (l : list A) : list B :=
  match l with
  | [] => []
  | a :: r => match g a with Some b => b :: omap g r | None => omap g r end
  end.
Lemma omap_app {A B} (g : A -> option B) l1 l2 : omap g (l1 ++ l2) = omap g l1 ++ omap g l2.
Proof. induction l1 as [|a l1 IH]; cbn; [reflexivity|]. destruct (g a); cbn; now rewrite IH. Qed.
Lemma in_omap {A B} (g : A -> option B) l b : In b (omap g l) -> exists a, In a l /\ g a = Some b.
Proof.
  induction l as [|a l IH]; cbn; [intros []|]. destruct (g a) eqn:E.
  - intros [->|H]; [exists a; auto|]. destruct (IH H) as (a' & ? & ?). exists a'. auto.
  - intros H. destruct (IH H) as (a' & ? & ?). exists a'. auto.
Qed.

(** the STREAM frames of stream [sid0] / the DATAGRAM payloads among parsed frames *)
Definition stream_of (sid0 : Z) (f : wframe) : option frame :=
  match f with
  | WB.FStream sid off data fin _ => if sid =? sid0 then Some (mkF off data fin) else None
  | _ => None
  end.
Definition dg_of (f : wframe) : option (list Z) :=
  match f with WB.FDatagram _ data => Some data | _ => None end.

(** the receiver: handleFrames' parse of the whole plaintext (a parse error closes the connection: no frames) *)
Definition parse_ok (c : WF.cfg) (b : list Z) : list wframe :=
  match WP.parse_payload (length b) c lvl1 b with WB.Ok l => l | WB.Err _ _ => [] end.
Definition frames_in_codec (c : WF.cfg) (sid0 : Z) (b : list Z) : list frame := omap (stream_of sid0) (parse_ok c b).
Definition dgs_in_codec (c : WF.cfg) (b : list Z) : list (list Z) := omap dg_of (parse_ok c b).

(** the sender: a packet payload described as a frame list *)
Record pk_desc := mkPD {
  pd_items : list (nat * wframe);          (* PADDING count in front, frame (self-delimiting) *)
  pd_last : option (nat * wframe)          (* optionally a last frame, which may lack its length field *)
}.
Definition payload_of (d : pk_desc) : list Z :=
  WP.encode_payload (pd_items d) ++
  match pd_last d with Some (k, f) => repeat 0 k ++ WP.enc_frame f | None => [] end.
Definition frames_of_desc (d : pk_desc) : list wframe :=
  map snd (pd_items d) ++ match pd_last d with Some (_, f) => [f] | None => [] end.
Definition pk_ok (c : WF.cfg) (d : pk_desc) : Prop :=
  Forall (WPP.item_ok c lvl1) (pd_items d) /\
  match pd_last d with
  | Some (_, f) => WFP.wf_frame f /\ (exists enc, WF.append_frame f = Some enc) /\
                   WF.type_valid c (WF.frame_type f) = true /\ WF.type_allowed lvl1 (WF.frame_type f) = true
  | None => True
  end.

Lemma norm_stream_of c sid0 l : omap (stream_of sid0) (map (WFP.norm c lvl1) l) = omap (stream_of sid0) l.
Proof. induction l as [|f l IH]; cbn [map omap]; [reflexivity|]. rewrite IH. destruct f; reflexivity. Qed.
Lemma norm_dg_of c l : omap dg_of (map (WFP.norm c lvl1) l) = omap dg_of l.
Proof. induction l as [|f l IH]; cbn [map omap]; [reflexivity|]. rewrite IH. destruct f; reflexivity. Qed.

(** C08's round trip on a described payload *)
Lemma parse_desc c d : pk_ok c d -> parse_ok c (payload_of d) = map (WFP.norm c lvl1) (frames_of_desc d).
Proof.
  intros [Hi Hl]. unfold parse_ok, payload_of, frames_of_desc. destruct (pd_last d) as [[k f]|].
  - destruct Hl as (W & (enc & E) & Tv & Ta). unfold WP.enc_frame. rewrite E.
    rewrite (WPP.payload_roundtrip_last c lvl1 (pd_items d) k f enc _ Hi W E Tv Ta (le_n _)).
    rewrite map_app, map_map. reflexivity.
  - pose proof (WPP.payload_roundtrip c lvl1 (pd_items d) 0 (length (WP.encode_payload (pd_items d) ++ [])) Hi) as R.
    cbn [repeat] in R. rewrite (R (le_n _)). rewrite app_nil_r, map_map. reflexivity.
Qed.

Lemma frames_in_codec_desc c sid0 d : pk_ok c d ->
  frames_in_codec c sid0 (payload_of d) = omap (stream_of sid0) (frames_of_desc d).
Proof. intros H. unfold frames_in_codec. rewrite (parse_desc c d H). apply norm_stream_of. Qed.
Lemma dgs_in_codec_desc c d : pk_ok c d -> dgs_in_codec c (payload_of d) = omap dg_of (frames_of_desc d).
Proof. intros H. unfold dgs_in_codec. rewrite (parse_desc c d H). apply norm_dg_of. Qed.

(** ** [packed] as a lemma.  What is assumed about the packer, on frame lists: every sealed plaintext is the C08
    serialisation of a well-formed frame list whose STREAM frames of this stream are frames popStreamFrame
    returned (the packer takes them from the framer, which takes them from popStreamFrame). *)
Section Packed.
Variables (c : WF.cfg) (sid0 : Z) (E : list frame) (sent : list (Z * Z * list Z)).
Hypothesis packer_frames : forall x, In x sent ->
  exists d, pk_ok c d /\ snd x = payload_of d /\
            forall f, In f (omap (stream_of sid0) (frames_of_desc d)) -> In f E.

Lemma packed_codec : forall x f, In x sent -> In f (frames_in_codec c sid0 (snd x)) -> In f E.
Proof.
  intros x f Hx Hf. destruct (packer_frames x Hx) as (d & Hok & Ep & HE).
  rewrite Ep, (frames_in_codec_desc c sid0 d Hok) in Hf. auto.
Qed.
End Packed.

(** ** [wire_dgs] as a lemma: the sealed plaintexts are, packet by packet, serialisations of frame lists whose
    DATAGRAM payloads are those of the packer model's packets. *)
Section WireDgs.
Variables (c : WF.cfg).
Lemma wire_dgs_codec (plain : list (list Z)) (pkt_dgs : list (list (list Z))) :
  Forall2 (fun b dg => exists d, pk_ok c d /\ b = payload_of d /\ omap dg_of (frames_of_desc d) = dg) plain pkt_dgs ->
  flat_map (dgs_in_codec c) plain = concat pkt_dgs.
Proof.
  induction 1 as [|b dg plain pkt_dgs (d & Hok & -> & <-) _ IH]; cbn [flat_map concat]; [reflexivity|].
  rewrite IH, (dgs_in_codec_desc c d Hok). reflexivity.
Qed.
End WireDgs.
