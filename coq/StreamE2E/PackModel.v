(** Model of packetPacker.composeNextPacket (/repo/packet_packer.go) as far as the fate of
    DATAGRAM frames is concerned, together with the 1-RTT part of /repo/retransmission_queue.go
    (appData.other, GetFrame, the AckHandler's OnLost) and the datagram queue (DgModel).

    A payload frame carries a handler class: 0 = no handler (never retransmitted), 1 = the
    retransmission queue's AckHandler(1-RTT) (OnLost puts the frame into the queue), 2 = a handler
    of its own (stream-related control frames; STREAM frames travel in a separate list and are not
    modelled here).  What acks.GetAckFrame and framer.Append return are per-call oracles logged from
    the implementation (the framer and the ack manager belong to other units). *)
From Coq Require Import List ZArith Bool.
From V Require Import Gen.Params Lib.Hex Wire.Varint StreamE2E.DgModel.
Import ListNotations.
Open Scope Z_scope.

Inductive pkind :=
| KDg (p : list Z)       (* DATAGRAM with payload p *)
| KCtrl (id : Z)         (* connection-level control frame (MAX_DATA, ...), identified by its value *)
| KPath (id : Z)         (* PATH_CHALLENGE / PATH_RESPONSE *)
| KOwn (id : Z).         (* control frame that comes with its own handler (RESET_STREAM, ...) *)

Record pframe := mkPF { pf_kind : pkind; pf_len : Z; pf_h : Z }.

Definition is_dg (k : pkind) : bool := match k with KDg _ => true | _ => false end.

Record pk := mkPk {
  p_dq : dq;
  p_retx : list (pkind * Z);       (* retransmissionQueue.appData.other: frame, Length *)
  p_flight : list (list pframe);   (* packets neither acked nor lost *)
  p_sent : list (list pframe)      (* ghost: every packet ever composed *)
}.
Definition pk0 : pk := mkPk dq0 [] [] [].

(* wire.DatagramFrame.Length with DataLenPresent (connection.SendDatagram sets it) *)
Definition dglen (p : list Z) : Z := 1 + zlen p + vlen (zlen p).

(* the loop over retransmissionQueue.GetFrame *)
Fixpoint retx_loop (fuel : nat) (maxPayload len : Z) (q : list (pkind * Z)) (acc : list pframe)
  : list pframe * Z * list (pkind * Z) :=
  match fuel with
  | O => (acc, len, q)
  | S n =>
    let remaining := maxPayload - len in
    if remaining <? ssMinStreamFrameSize then (acc, len, q)
    else match q with
         | [] => (acc, len, q)
         | (k, l) :: r => if l >? remaining then (acc, len, q)
                          else retx_loop n maxPayload (len + l) r (acc ++ [mkPF k l 1])
         end
  end.

(* the handler assignment after framer.Append *)
Definition assign (f : pframe) : pframe :=
  if negb (pf_h f =? 0) then f
  else match pf_kind f with
       | KPath _ => f
       | _ => mkPF (pf_kind f) (pf_len f) 1
       end.

(* composeNextPacket (onlyAck = false): returns the new state and the frames of the payload *)
Definition compose (maxPayload : Z) (ackAllowed : bool) (ack : option Z) (hasData : bool) (fr : list pframe)
                   (s : pk) : pk * list pframe :=
  let hasRetx := match p_retx s with [] => false | _ => true end in
  let ackl := if ackAllowed then ack else None in
  let len0 := match ackl with Some l => l | None => 0 end in
  (* DATAGRAM: at most one, taken from the head of the queue *)
  let '(dq1, frames1, len1) :=
    match sendQ (p_dq s) with
    | [] => (p_dq s, [], len0)
    | p :: _ =>
      let size := dglen p in
      if size <=? maxPayload - len0 then (fst (dstep (p_dq s) DPop), [mkPF (KDg p) size 0], len0 + size)
      else match ackl with
           | None => (fst (dstep (p_dq s) DPop), [], len0)      (* does not fit into an otherwise empty packet: discarded *)
           | Some _ => (p_dq s, [], len0)                        (* try again in the next packet *)
           end
    end in
  match ackl, hasData, hasRetx with
  | Some _, false, false =>
    (mkPk dq1 (p_retx s) (p_flight s ++ [frames1]) (p_sent s ++ [frames1]), frames1)
  | _, _, _ =>
    let '(frames2, len2, q2) :=
      if hasRetx then retx_loop (S (length (p_retx s))) maxPayload len1 (p_retx s) frames1
      else (frames1, len1, p_retx s) in
    let frames3 := if hasData then frames2 ++ map assign fr else frames2 in
    (mkPk dq1 q2 (p_flight s ++ [frames3]) (p_sent s ++ [frames3]), frames3)
  end.

Fixpoint remove_nth {A} (n : nat) (l : list A) : list A :=
  match l, n with
  | [], _ => []
  | _ :: r, O => r
  | x :: r, S n' => x :: remove_nth n' r
  end.

Inductive pop_ :=
| KDq (o : dop)                   (* application side of the datagram queue: Add / wake-up / Handle / Receive / Close *)
| KCompose (maxPayload : Z) (ackAllowed : bool) (ack : option Z) (hasData : bool) (fr : list pframe)
| KLost (i : nat) | KAcked (i : nat).

Definition pstep (s : pk) (o : pop_) : pk * list pframe :=
  match o with
  | KDq DPop | KDq DPeek => (s, [])        (* only the packer peeks and pops *)
  | KDq d => (mkPk (fst (dstep (p_dq s) d)) (p_retx s) (p_flight s) (p_sent s), [])
  | KCompose m a ack hd fr => compose m a ack hd fr s
  | KLost i =>
    match nth_error (p_flight s) i with
    | None => (s, [])
    | Some pkt =>
      (* OnLost of every frame that carries the retransmission queue's handler: addAppData *)
      let requeue := flat_map (fun f => if pf_h f =? 1 then [(pf_kind f, pf_len f)] else []) pkt in
      (mkPk (p_dq s) (p_retx s ++ requeue) (remove_nth i (p_flight s)) (p_sent s), [])
    end
  | KAcked i => (mkPk (p_dq s) (p_retx s) (remove_nth i (p_flight s)) (p_sent s), [])
  end.

Fixpoint prun (s : pk) (ops : list pop_) : pk * list (list pframe) :=
  match ops with
  | [] => (s, [])
  | o :: r => let (s1, x) := pstep s o in let (s2, xs) := prun s1 r in (s2, x :: xs)
  end.

(* the DATAGRAM payloads put on the wire, packet after packet *)
Definition dgs_of (pkts : list (list pframe)) : list (list Z) :=
  flat_map (fun pkt => flat_map (fun f => match pf_kind f with KDg p => [p] | _ => [] end) pkt) pkts.

(* the oracle frames come from the framer, which never returns DATAGRAM frames *)
Definition wf_op (o : pop_) : Prop :=
  match o with
  | KCompose _ _ _ _ fr => Forall (fun f => is_dg (pf_kind f) = false) fr
  | _ => True
  end.
