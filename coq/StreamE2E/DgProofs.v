(** At-most-once / in-order / unmodified for datagram_queue.go (model DgModel). *)
From Coq Require Import List ZArith Bool Lia.
From V Require Import Gen.Params Lib.Hex StreamE2E.DgModel.
Import ListNotations.
Open Scope Z_scope.

Inductive subseq {A} : list A -> list A -> Prop :=
| ss_nil : forall l, subseq [] l
| ss_keep : forall x l1 l2, subseq l1 l2 -> subseq (x :: l1) (x :: l2)
| ss_drop : forall x l1 l2, subseq l1 l2 -> subseq l1 (x :: l2).

Lemma subseq_refl {A} (l : list A) : subseq l l.
Proof. induction l; constructor; auto. Qed.
Lemma subseq_app_both {A} (a b : list A) x : subseq a b -> subseq (a ++ [x]) (b ++ [x]).
Proof. induction 1; simpl; try constructor; auto. induction l; simpl; constructor; auto. constructor. Qed.
Lemma subseq_app_r {A} (a b : list A) x : subseq a b -> subseq a (b ++ [x]).
Proof. induction 1; simpl; constructor; auto. Qed.

Record DInv (q : dq) : Prop := {
  d_send : gAdded q = gPopped q ++ sendQ q;
  d_rcv : gAccepted q = gReceived q ++ rcvQ q;
  d_acc : subseq (gAccepted q) (gHandled q);
  d_slen : zlen (sendQ q) <= dgMaxSendQueueLen;
  d_rlen : zlen (rcvQ q) <= dgMaxRcvQueueLen
}.

Lemma zlen_app1 {A} (l : list A) x : zlen (l ++ [x]) = zlen l + 1.
Proof. unfold zlen. rewrite app_length. simpl. lia. Qed.

Lemma dq0_DInv : DInv dq0.
Proof. constructor; cbn; try constructor; unfold dgMaxSendQueueLen, dgMaxRcvQueueLen; lia. Qed.

Lemma add_loop_DInv p q : DInv q -> DInv (fst (add_loop p q)).
Proof.
  intros [H1 H2 H3 H4 H5]. unfold add_loop. destruct (closedQ q); [constructor; cbn; auto|].
  destruct (Z.ltb_spec (zlen (sendQ q)) dgMaxSendQueueLen); cbn [fst].
  - constructor; cbn; auto.
    + rewrite H1, app_assoc. reflexivity.
    + rewrite zlen_app1. lia.
  - constructor; cbn; auto.
Qed.

Lemma dstep_DInv q o : DInv q -> DInv (fst (dstep q o)).
Proof.
  intros HI. unfold dstep. destruct (dpanic q); [exact HI|].
  destruct o.
  - destruct (parked q); [exact HI|]. now apply add_loop_DInv.
  - destruct (parked q) as [p|]; [|exact HI]. destruct (closedQ q).
    + destruct HI as [H1 H2 H3 H4 H5]. constructor; cbn; auto.
    + destruct (sentTok q); [|exact HI]. apply add_loop_DInv.
      destruct HI as [H1 H2 H3 H4 H5]. constructor; cbn; auto.
  - exact HI.
  - destruct HI as [H1 H2 H3 H4 H5]. destruct (sendQ q) as [|p r] eqn:E; cbn [fst].
    + constructor; cbn; auto; unfold dgMaxSendQueueLen; cbn; lia.
    + constructor; cbn; auto.
      * rewrite H1, <- app_assoc. reflexivity.
      * unfold zlen in *. cbn [length] in H4. lia.
  - destruct HI as [H1 H2 H3 H4 H5].
    destruct (Z.ltb_spec (zlen (rcvQ q)) dgMaxRcvQueueLen); cbn [fst]; constructor; cbn; auto.
    + rewrite H2, app_assoc. reflexivity.
    + now apply subseq_app_both.
    + rewrite zlen_app1. lia.
    + now apply subseq_app_r.
  - destruct HI as [H1 H2 H3 H4 H5]. destruct (rcvQ q) as [|p r] eqn:E; cbn [fst].
    + constructor; cbn; auto. now rewrite E. now rewrite E.
    + constructor; cbn; auto.
      * rewrite H2, <- app_assoc. reflexivity.
      * unfold zlen in *. cbn [length] in H5. lia.
  - destruct HI as [H1 H2 H3 H4 H5]. constructor; cbn; auto.
Qed.

Lemma drun_DInv ops : forall q, DInv q -> DInv (fst (drun q ops)).
Proof.
  induction ops as [|o ops IH]; intros q HI; [exact HI|].
  cbn [drun]. pose proof (dstep_DInv q o HI) as H1. destruct (dstep q o) as [q1 x]. cbn [fst] in H1.
  specialize (IH q1 H1). destruct (drun q1 ops) as [q2 xs]. exact IH.
Qed.

(* the ghost log of received datagrams is what the Receive calls returned *)
Definition recv1 (o : dop) (x : dout) : list (list Z) :=
  match o, x with DReceive, DData p => [p] | _, _ => [] end.
Definition recv_of (outs : list (dop * dout)) : list (list Z) :=
  flat_map (fun ox => recv1 (fst ox) (snd ox)) outs.

Lemma dstep_recv q o :
  gReceived (fst (dstep q o)) = gReceived q ++ recv1 o (snd (dstep q o)).
Proof.
  unfold dstep, recv1. destruct (dpanic q); [destruct o; cbn; now rewrite app_nil_r|].
  destruct o; cbn [fst snd]; try (cbn; now rewrite ?app_nil_r).
  - destruct (parked q); [cbn; now rewrite app_nil_r|].
    unfold add_loop. destruct (closedQ q); [cbn; now rewrite app_nil_r|]. destruct (_ <? _); cbn; now rewrite app_nil_r.
  - destruct (parked q); [|cbn; now rewrite app_nil_r].
    destruct (closedQ q); [cbn; now rewrite app_nil_r|].
    destruct (sentTok q); [|cbn; now rewrite app_nil_r].
    unfold add_loop. cbn. destruct (_ <? _); cbn; now rewrite app_nil_r.
  - destruct (sendQ q); cbn; now rewrite app_nil_r.
  - destruct (_ <? _); cbn; now rewrite app_nil_r.
  - destruct (rcvQ q); cbn; now rewrite ?app_nil_r.
Qed.

Lemma drun_recv ops : forall q,
  gReceived (fst (drun q ops)) = gReceived q ++ recv_of (combine ops (snd (drun q ops))).
Proof.
  induction ops as [|o ops IH]; intros q; cbn [drun].
  - cbn. now rewrite app_nil_r.
  - pose proof (dstep_recv q o) as R. destruct (dstep q o) as [q1 x]. cbn [fst snd] in R.
    specialize (IH q1). destruct (drun q1 ops) as [q2 xs]. cbn [fst snd] in *.
    rewrite IH, R, <- app_assoc. reflexivity.
Qed.

Lemma subseq_prefix {A} (a b c : list A) : subseq (a ++ b) c -> subseq a c.
Proof.
  revert c. induction a as [|x a IH]; intros c H; [constructor|].
  cbn [app] in H. induction c as [|y c IHc]; [inversion H|].
  inversion H; subst.
  - constructor. apply IH. assumption.
  - apply ss_drop. apply IHc. assumption.
Qed.

(** Every datagram returned by Receive is one of the datagrams handed to HandleDatagramFrame,
    unmodified, in arrival order, and none is returned twice (the returned sequence embeds into
    the handled sequence); every datagram accepted by Add is handed to the packer at most once,
    in order (what was popped followed by what is still queued is exactly what was added). *)
Theorem datagram_at_most_once ops :
  let q := fst (drun dq0 ops) in
  let outs := snd (drun dq0 ops) in
  subseq (recv_of (combine ops outs)) (gHandled q) /\
  gAdded q = gPopped q ++ sendQ q /\
  zlen (sendQ q) <= dgMaxSendQueueLen /\ zlen (rcvQ q) <= dgMaxRcvQueueLen.
Proof.
  cbn zeta. pose proof (drun_DInv ops dq0 dq0_DInv) as [H1 H2 H3 H4 H5].
  pose proof (drun_recv ops dq0) as R. cbn [gReceived dq0 app] in R.
  repeat split; auto. rewrite <- R. apply subseq_prefix with (b := rcvQ (fst (drun dq0 ops))).
  rewrite <- H2. exact H3.
Qed.
