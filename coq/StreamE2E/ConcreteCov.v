(** What the concrete receiver has buffered stays buffered until it is read: for every offset x at
    or beyond the read position (incl. the unread rest of the current frame), "x is in the sorter's
    queue" survives handleStreamFrame and Read.  This is the run-level fact that turns C03's
    per-step theorems (recv_frame_buffers, Read_progress, Read_spec) into the completeness half of
    C01 on the concrete models. *)
From Coq Require Import List ZArith Bool Lia.
From V Require Import Gen.Params
  FrameSorter.Model FrameSorter.InvCheck FrameSorter.Spec FrameSorter.ProofsBase FrameSorter.ProofsRun
  RecvStream.Model RecvStream.Spec RecvStream.ProofsRecv RecvStream.ProofsRecv2.
Import ListNotations.
Open Scope Z_scope.

Section Cov.
Variable S : Z -> Z.

Definition covkeep (s s' : rstream) : Prop :=
  rpos s + crest s <= rpos s' + crest s' /\
  forall x, cov (queue (sorter s)) x -> rpos s' + crest s' <= x -> cov (queue (sorter s')) x.

Lemma covkeep_refl s : covkeep s s.
Proof. split; [lia|auto]. Qed.
Lemma covkeep_trans a b c : covkeep a b -> covkeep b c -> covkeep a c.
Proof. intros [A1 A2] [B1 B2]. split; [lia|]. intros x Hx Hc. apply B2; auto. apply A2; auto. lia. Qed.

(* states that differ in fields the buffer does not depend on *)
Lemma covkeep_same s s' :
  queue (sorter s') = queue (sorter s) -> rpos s' = rpos s -> cur s' = cur s -> rpif s' = rpif s -> covkeep s s'.
Proof. intros A B C D. unfold covkeep, crest. rewrite A, B, C, D. split; [lia|auto]. Qed.

Lemma len_dtake_le k (d : list Z) : len (dtake k d) <= len d.
Proof. unfold len, dtake. rewrite firstn_length. lia. Qed.
Lemma len_dskip p (d : list Z) : 0 <= p <= len d -> len (dskip p d) = len d - p.
Proof. unfold len, dskip. intros H. rewrite skipn_length. lia. Qed.

Lemma readLoop_cov : forall fuel s n acc s' d e bug,
  RSInv S s -> readLoop fuel s n acc = (s', d, e, bug) -> covkeep s s'.
Proof.
  induction fuel as [|fuel IH]; intros s n acc s' d e bug R H.
  { simpl in H. inversion H; subst. apply covkeep_refl. }
  rewrite readLoop_unfold in H.
  destruct (n <=? len acc).
  { destruct (remoteEffective s); inversion H; subst; [apply covkeep_same; reflexivity|apply covkeep_refl]. }
  (* the (possible) dequeue *)
  assert (Hdq : exists s1 b1,
     (if (match cur s with [] => true | _ => false end) || (len (cur s) <=? rpif s) then dequeue s else (s, false)) = (s1, b1) /\
     b1 = false /\ RSInv S s1 /\ covkeep s s1 /\ (cur s1 = [] -> rpif s1 = 0)).
  { destruct ((match cur s with [] => true | _ => false end) || (len (cur s) <=? rpif s)) eqn:Edq.
    - assert (Hc0 : crest s = 0).
      { apply crest_zero with (S := S); auto. apply orb_prop in Edq. destruct Edq as [E|E]; [left; apply isnil_true; auto|right; apply Z.leb_le; auto]. }
      destruct (dequeue s) as [s1 b1] eqn:Ed. exists s1, b1. split; auto.
      destruct (dequeue_spec S _ _ _ R Hc0 Ed) as (->&R1&D1&D2&D3&_).
      split; auto. split; auto. split; auto.
      split.
      + rewrite D1, D3, Hc0. unfold len. lia.
      + intros x Hx Hge. apply (dequeue_cov S s s1 false R Hc0 Ed x Hx). rewrite D1, D3 in Hge. exact Hge.
    - exists s, false. split; auto. split; auto. split; auto. split; [apply covkeep_refl|].
      apply orb_false_elim in Edq. destruct Edq as [E1 _]. apply isnil_false in E1. congruence. }
  destruct Hdq as (s1 & b1 & Eq & -> & R1 & K1 & Hrp0). rewrite Eq in H.
  unfold readBody in H.
  destruct ((match cur s1 with [] => true | _ => false end) && (0 <? len acc)); [inversion H; subst; exact K1|].
  destruct (shutdown s1); [inversion H; subst; exact K1|].
  destruct (cancelledLocally s1 || remoteEffective s1).
  { inversion H; subst. eapply covkeep_trans; [exact K1|]. apply covkeep_same; reflexivity. }
  destruct (negb (match cur s1 with [] => false | _ => true end || curIsLast s1)) eqn:Ewb; [inversion H; subst; exact K1|].
  set (chunk := dtake (n - len acc) (dskip (rpif s1) (cur s1))) in *.
  set (m := len chunk) in *.
  set (s2 := set_read s1 (rpif s1 + m) (rpos s1 + m)) in *.
  assert (Hm0 : 0 <= m) by (unfold m, len; lia).
  assert (H2 : covkeep s1 s2 /\ (cur s1 <> [] -> RSInv S s2) /\ crest s2 <= Z.max 0 (len (cur s2) - rpif s2) /\
               (cur s1 = [] -> len (cur s2) <= rpif s2)).
  { destruct (nonnil_dec (cur s1)) as [E|E].
    - assert (Em : m = 0).
      { unfold m, chunk. rewrite E. unfold dskip, dtake. rewrite skipn_nil, firstn_nil. reflexivity. }
      split; [|split; [congruence|split]].
      + unfold covkeep, crest, s2. cbn [set_read sorter rpos cur rpif]. rewrite E, Em. split; [lia|].
        intros x Hx Hc. exact Hx.
      + unfold crest, s2. cbn. rewrite E. cbn. lia.
      + intros _. unfold s2. cbn [set_read cur rpif]. rewrite E, (Hrp0 E), Em. cbn. lia.
    - destruct (v_cur _ _ R1 E) as ((A&B)&_).
      assert (Hmc : m <= crest s1).
      { rewrite (crest_nonnil _ E). unfold m, chunk.
        pose proof (len_dtake_le (n - len acc) (dskip (rpif s1) (cur s1))). rewrite len_dskip in H0 by lia. lia. }
      destruct (RSInv_set_read S s1 m R1 E ltac:(lia)) as [R2 C2]. fold s2 in R2, C2.
      split; [|split; [auto|split; [|congruence]]].
      + unfold covkeep. rewrite C2. unfold s2 at 1 3. cbn [set_read rpos sorter]. split; [lia|].
        intros x Hx Hc. exact Hx.
      + rewrite C2, (crest_nonnil _ E). unfold s2. cbn [set_read cur rpif]. lia. }
  destruct H2 as (K2 & R2 & Hcr & Hnil).
  destruct ((len (cur s2) <=? rpif s2) && curIsLast s2) eqn:Eeof.
  - set (sf := set_errorRead (set_frame s2 (fire_done (sorter s2) (curDone s2)) [] (curDone s2) (rpif s2) (curIsLast s2))) in *.
    assert (Es : s' = sf) by (inversion H; reflexivity). rewrite Es.
    eapply covkeep_trans; [exact K1|]. eapply covkeep_trans; [exact K2|].
    apply andb_prop in Eeof. destruct Eeof as [E1 _]. apply Z.leb_le in E1.
    assert (Ef : rpos sf = rpos s2 /\ crest sf = 0 /\ queue (sorter sf) = queue (sorter s2)) by (repeat split; reflexivity).
    destruct Ef as (F1 & F2 & F3). unfold covkeep. rewrite F1, F2, F3. split; [lia|]. intros x Hx _. exact Hx.
  - destruct (nonnil_dec (cur s1)) as [E|E].
    + (* cur s1 = [] with curIsLast: the EOF branch is always taken *)
      exfalso. specialize (Hnil E). apply Z.leb_le in Hnil.
      assert (Hl : curIsLast s2 = true).
      { unfold s2. cbn [set_read curIsLast]. rewrite E in Ewb. cbn in Ewb.
        destruct (curIsLast s1); [reflexivity|discriminate]. }
      rewrite Hnil, Hl in Eeof. discriminate.
    + eapply covkeep_trans; [exact K1|]. eapply covkeep_trans; [exact K2|]. eapply IH; [exact (R2 E)|exact H].
Qed.

Lemma Read_cov s n s' d e bug : RSInv S s -> Read s n = (s', d, e, bug) -> covkeep s s'.
Proof.
  intros R H. unfold Read in H. destruct (readImpl s n) as [[[s1 d1] e1] b1] eqn:ER. inversion H; subst; clear H.
  destruct (isNewlyCompleted_fields s1) as (A&B&C&D&_).
  eapply covkeep_trans; [|apply covkeep_same; [now rewrite A|exact B|exact C|exact D]].
  unfold readImpl in ER.
  destruct (curIsLast s && _); [inversion ER; subst; apply covkeep_same; reflexivity|].
  destruct (cancelledLocally s || remoteEffective s); [inversion ER; subst; apply covkeep_same; reflexivity|].
  destruct (shutdown s); [inversion ER; subst; apply covkeep_refl|].
  eapply readLoop_cov; eauto.
Qed.

(* an accepted frame keeps what was buffered and buffers its own bytes beyond the read position *)
Lemma frame_cov s off n fin cb s' : RSInv S s -> 0 <= off -> 0 <= n ->
  handleStreamFrame s (slice S off n) off fin cb = (s', FNil) -> cancelledLocally s = false ->
  covkeep s s' /\ rpos s' + crest s' = rpos s + crest s /\ cancelledLocally s' = false /\
  shutdown s' = shutdown s /\ cancelledRemotely s' = cancelledRemotely s /\
  forall x, off <= x < off + n -> rpos s + crest s <= x -> cov (queue (sorter s')) x.
Proof.
  intros R H0 Hn H Hcl.
  destruct (recv_frame_buffers S s off n fin cb s' R H0 Hn H Hcl) as (P1 & P2 & P3).
  pose proof H as H'. unfold handleStreamFrame in H. rewrite len_slice in H by lia.
  destruct (fcUpdate s (off + n) fin) as [s1 e1] eqn:Ef.
  destruct e1; try (inversion H; discriminate).
  destruct (fcUpdate_ok _ _ _ _ Ef) as (A1&A2&A3&A4&A5&A6&A7&A8&A9&A10&A11&A12&A13&A14&A15&A16).
  set (s2 := if fin then set_final s1 (off + n) else s1) in *.
  assert (B : sorter s2 = sorter s /\ cancelledLocally s2 = false /\ shutdown s2 = shutdown s /\ cancelledRemotely s2 = cancelledRemotely s).
  { unfold s2. destruct fin; simpl; rewrite ?A1, ?A8, ?A9, ?A11; auto. }
  destruct B as (B1&B2&B3&B4). rewrite B2 in H.
  destruct (Push (sorter s2) (slice S off n) off cb) as [q rr] eqn:EP. rewrite B1 in EP.
  pose proof (v_win _ _ R) as VW.
  assert (Hmax : off + n < MaxBC).
  { destruct (Z.le_gt_cases (off + n) (fc_highest s)); [lia|]. specialize (A14 ltac:(lia)). lia. }
  destruct (Push_post S _ _ _ _ _ _ (v_inv _ _ R) H0 Hn Hmax EP) as (_&Hok).
  destruct rr; simpl in H; try (inversion H; discriminate).
  destruct (Hok eq_refl) as (_&Hrp&Hcov&_).
  assert (E' : s' = isNewlyCompleted (set_sorter s2 q)) by (inversion H; reflexivity).
  assert (Hf : sorter s' = q /\ cancelledLocally s' = false /\ shutdown s' = shutdown s /\ cancelledRemotely s' = cancelledRemotely s).
  { subst s'. destruct (isNewlyCompleted_fields (set_sorter s2 q)) as (F1&_&_&_&_&_&_&_&_&_&F11&F12&_&F14). rewrite F1, F11, F12, F14. auto. }
  destruct Hf as (F1&F2&F3&F4).
  split; [|split; [lia|split; [exact F2|split; [exact F3|split; [exact F4|exact P3]]]]].
  split; [lia|]. intros x Hx _. rewrite F1. apply Hcov. left. exact Hx.
Qed.

(* Read does not touch the latches *)
Lemma readLoop_flags : forall fuel s n acc s' d e bug, readLoop fuel s n acc = (s', d, e, bug) ->
  shutdown s' = shutdown s /\ cancelledLocally s' = cancelledLocally s /\ cancelledRemotely s' = cancelledRemotely s.
Proof.
  induction fuel as [|fuel IH]; intros s n acc s' d e bug H; simpl in H; [inversion H; auto|].
  destruct (n <=? len acc).
  { destruct (remoteEffective s); inversion H; subst; auto. }
  destruct (if (match cur s with [] => true | _ => false end) || (len (cur s) <=? rpif s) then dequeue s else (s, false)) as [s1 b1] eqn:Ed.
  assert (D1 : shutdown s1 = shutdown s /\ cancelledLocally s1 = cancelledLocally s /\ cancelledRemotely s1 = cancelledRemotely s).
  { destruct (_ || _); [|inversion Ed; auto].
    unfold dequeue in Ed. destruct (Pop _) as [[q1 [[off dd] cb]] bb]. inversion Ed; subst. auto. }
  destruct D1 as (X1&X2&X3).
  revert H. repeat match goal with
  | |- context [if ?c then _ else _] => destruct c eqn:?
  end; intros H; try (inversion H; subst; simpl; repeat split; congruence).
  apply IH in H. simpl in H. destruct H as (Y1&Y2&Y3). repeat split; congruence.
Qed.

Lemma Read_flags s n s' d e bug : Read s n = (s', d, e, bug) ->
  shutdown s' = shutdown s /\ cancelledLocally s' = cancelledLocally s /\ cancelledRemotely s' = cancelledRemotely s.
Proof.
  unfold Read. destruct (readImpl s n) as [[[s1 d1] e1] b1] eqn:ER. intros H. inversion H; subst.
  destruct (isNewlyCompleted_fields s1) as (_&_&_&_&_&_&_&_&_&_&F11&F12&_&F14). rewrite F11, F12, F14.
  unfold readImpl in ER.
  destruct (curIsLast s && _); [inversion ER; subst; auto|].
  destruct (cancelledLocally s || remoteEffective s); [inversion ER; subst; auto|].
  destruct (shutdown s) eqn:Es; [inversion ER; subst; auto|].
  destruct (readLoop_flags _ _ _ _ _ _ _ _ ER) as (A&B&C). rewrite A, B, C. auto.
Qed.

(* at the final size, with no error latched, Read reports io.EOF *)
Lemma Read_at_final s n s' d e bug :
  RSInv S s -> fc_final s = true -> rpos s = finalOffset s ->
  shutdown s = false -> cancelledLocally s = false -> cancelledRemotely s = false -> 0 < n ->
  Read s n = (s', d, e, bug) -> e = EEOF.
Proof.
  intros R Hf Hp Hsh Hcl Hcr Hn H. unfold Read in H. destruct (readImpl s n) as [[[s1 d1] e1] b1] eqn:ER. inversion H; subst; clear H.
  assert (Hre : remoteEffective s = false) by (unfold remoteEffective; rewrite Hcr; reflexivity).
  unfold readImpl in ER.
  destruct (curIsLast s && _); [inversion ER; reflexivity|].
  rewrite Hcl, Hre, Hsh in ER. cbn [orb] in ER.
  pose proof (v_final _ _ R) as VF. rewrite Hf in VF.
  pose proof (v_pos _ _ R) as VP. pose proof (v_rp_high _ _ R) as VH. pose proof (crest_nonneg S s R) as Hc.
  assert (Hc0 : crest s = 0) by lia.
  rewrite readLoop_unfold in ER. rewrite len_nil in ER. destruct (Z.leb_spec n 0); [lia|].
  assert (Edq : (match cur s with [] => true | _ => false end) || (len (cur s) <=? rpif s) = true).
  { unfold crest in Hc0. destruct (cur s) eqn:Ec; [reflexivity|]. cbn [orb]. apply Z.leb_le. lia. }
  rewrite Edq in ER. destruct (dequeue s) as [s2 b2] eqn:Ed.
  destruct (dequeue_spec S _ _ _ R Hc0 Ed) as (->&R1&D1&D2&D3&D4&D5&D6&D7&D8&_).
  destruct (dequeue_more S _ _ _ R Hc0 Ed) as (M1&M2&_).
  assert (Hnc : cur s2 = []).
  { destruct (nonnil_dec (cur s2)) as [E|E]; auto. exfalso. apply M1 in E. apply (v_below _ _ R) in E. lia. }
  assert (Hlast : curIsLast s2 = true).
  { rewrite M2, Hnc, Hcr. change (len (@nil Z)) with 0. cbn [negb]. rewrite andb_true_r. apply Z.leb_le. lia. }
  assert (Hre2 : remoteEffective s2 = false) by (unfold remoteEffective; rewrite D5, Hcr; reflexivity).
  unfold readBody in ER. rewrite Hnc in ER. cbn [andb] in ER.
  rewrite D7, Hsh, D4, Hcl, Hre2, Hlast in ER. cbn [orb negb] in ER.
  rewrite D2 in ER. unfold dskip, dtake in ER. rewrite skipn_nil, firstn_nil in ER.
  change (len (@nil Z)) with 0 in ER. cbn [set_read cur rpif curIsLast] in ER. rewrite Hnc, Hlast in ER.
  change (len (@nil Z)) with 0 in ER. cbn in ER. inversion ER. reflexivity.
Qed.
End Cov.
