(** Correspondence glue for unit `packdg` (harness/drv/packdg.go): real packetPacker.composeNextPacket
    with a real framer (behind a recording proxy), real datagramQueue and retransmissionQueue. *)
From Coq Require Import List ZArith Bool String.
From V Require Import Gen.Params Lib.Hex StreamE2E.DgModel StreamE2E.DgRun StreamE2E.PackModel.
Import ListNotations.
Open Scope Z_scope.

(* frames as logged: (kind code, key, length, handler class); kind 0 = DATAGRAM (key = checksum of the
   payload), 1 = control (key = value), 2 = PATH_*, 3 = frame with its own handler *)
Definition lframe := (Z * Z * Z * Z)%type.

Inductive pcop :=
| PAdd (len seed : Z)
| PCompose (m : Z) (a : bool) (ack : option Z) (hd : bool) (fr : list lframe)
| PLost (i : Z) | PAcked (i : Z).

Inductive case := PKCase (ops : list (pcop * list lframe)) (retx : list (Z * Z * Z)) (sendLen : Z).

Definition kcode (k : pkind) : Z * Z :=
  match k with KDg p => (0, cksum p) | KCtrl i => (1, i) | KPath i => (2, i) | KOwn i => (3, i) end.
Definition log_frame (f : pframe) : lframe := let (c, k) := kcode (pf_kind f) in (c, k, pf_len f, pf_h f).
Definition unlog (l : lframe) : pframe :=
  let '(c, k, len, h) := l in
  mkPF (if c =? 1 then KCtrl k else if c =? 2 then KPath k else KOwn k) len h.

Definition to_pop (c : pcop) : pop_ :=
  match c with
  | PAdd n s => KDq (DAdd (gen_data (Z.to_nat n) s))
  | PCompose m a ack hd fr => KCompose m a ack hd (map unlog fr)
  | PLost i => KLost (Z.to_nat i) | PAcked i => KAcked (Z.to_nat i)
  end.

Fixpoint hrun (s : pk) (l : list pcop) : pk * list (list lframe) :=
  match l with
  | [] => (s, [])
  | c :: r => let (s1, x) := pstep s (to_pop c) in let (s2, xs) := hrun s1 r in (s2, map log_frame x :: xs)
  end.

Definition obs := (list (list lframe) * list (Z * Z * Z) * Z)%type.
Definition model_obs (c : case) : obs :=
  match c with
  | PKCase ops _ _ =>
    let (s, os) := hrun pk0 (map fst ops) in
    (os, map (fun kl => let (c, k) := kcode (fst kl) in (c, k, snd kl)) (p_retx s), zlen (sendQ (p_dq s)))
  end.

Definition lfeqb (a b : lframe) : bool :=
  let '(a1, a2, a3, a4) := a in let '(b1, b2, b3, b4) := b in (a1 =? b1) && (a2 =? b2) && (a3 =? b3) && (a4 =? b4).
Definition t3eqb (a b : Z * Z * Z) : bool :=
  let '(a1, a2, a3) := a in let '(b1, b2, b3) := b in (a1 =? b1) && (a2 =? b2) && (a3 =? b3).

Definition check_case (c : case) : bool :=
  match c with
  | PKCase ops retx sl =>
    let '(os, rq, sl') := model_obs c in
    leqb (leqb lfeqb) (map snd ops) os && leqb t3eqb retx rq && (sl =? sl')
  end.
