(** A concrete instance of the world hypotheses of StreamE2E/EndToEnd.v (non-vacuity): an
    "authenticated by lookup" AEAD whose open accepts exactly the plaintexts the sender sealed. *)
From Coq Require Import List ZArith Bool Lia.
From V Require Import Gen.Params Lib.Hex RecvPH.Model RecvPH.ProofsDupTrace PktProt.Protect StreamE2E.NetPkt.
Import ListNotations.
Open Scope Z_scope.

Definition ex_payload : list Z := [8; 4; 1; 2; 3; 4; 0; 0; 0; 0; 0; 0; 0; 0; 0; 0; 0; 0; 0; 0].
Definition ex_sent : list (Z * Z * list Z) := [(5, 0, ex_payload)].

Definition ex_seal (pn kp : Z) (ad p : list Z) : list Z := p.
Definition ex_open (pn kp : Z) (ad c : list Z) : option (list Z) :=
  if existsb (fun x => (fst (fst x) =? pn) && (snd (fst x) =? kp) && zeqb_list (snd x) c) ex_sent then Some c else None.
Definition ex_sealed (pn kp : Z) (ad p : list Z) : Prop := In (pn, kp, p) ex_sent.
Definition ex_mask (sample : list Z) : list Z := [0; 0; 0; 0; 0].

Lemma ex_ideal : forall pn kp ad c p, ex_open pn kp ad c = Some p -> ex_sealed pn kp ad p /\ c = ex_seal pn kp ad p.
Proof.
  intros pn kp ad c p H. unfold ex_open in H. destruct (existsb _ ex_sent) eqn:E; [|discriminate].
  inversion H; subst. split; [|reflexivity].
  apply existsb_exists in E. destruct E as ([[a b] q] & Hin & Hx). cbn [fst snd] in Hx.
  apply andb_prop in Hx. destruct Hx as [Hx H3]. apply andb_prop in Hx. destruct Hx as [H1 H2].
  apply Z.eqb_eq in H1. apply Z.eqb_eq in H2. apply zeqb_list_eq in H3. subst. exact Hin.
Qed.

Lemma ex_honest : forall pn kp hdr p, ex_sealed pn kp hdr p -> In (pn, kp, p) ex_sent.
Proof. auto. Qed.

(* the protected packet on the wire: short header 0x40 (1-byte packet number), packet number 5, payload *)
Definition ex_wire : list Z := 64 :: 5 :: ex_payload.
(* the same datagram arrives twice, then a corrupted copy and a truncated one *)
Definition ex_arrivals : list nev :=
  [NArrive ex_wire 0 4 0 10 true; NArrive ex_wire 0 5 0 11 true;
   NArrive (64 :: 5 :: 9 :: tl ex_payload) 0 5 0 12 true; NArrive (firstn 10 ex_wire) 0 5 0 13 true].

(** Replay behind more than MaxNumAckRanges gaps (the schedule of finding simdgram/dup-replay-beyond-ack-ranges):
    packets 0, 2, 4, ..., 2*(n-1) arrive (2-byte packet numbers, an AEAD that opens exactly [ex_payload] under
    any number), then packet 0 is replayed. *)
Definition ex2_open (pn kp : Z) (ad c : list Z) : option (list Z) := if zeqb_list c ex_payload then Some c else None.
Definition ex2_wire (pn : Z) : list Z := 65 :: (pn / 256) :: (pn mod 256) :: ex_payload.
Definition ex2_arrivals (n : nat) : list nev :=
  map (fun k => let pn := 2 * Z.of_nat k in NArrive (ex2_wire pn) 0 (Z.max 0 (pn - 2)) 0 (Z.of_nat k) true) (seq 0 n)
  ++ [NArrive (ex2_wire 0) 0 (2 * Z.of_nat n - 2) 0 1000 true].
