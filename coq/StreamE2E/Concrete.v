(** C01 end to end on the CONCRETE receiver: SendStream.Model o Net o RecvStream.Model
    (coq/RecvStream + coq/FrameSorter, the models of receive_stream.go / frame_sorter.go that C03
    ties to the code).  The abstract reassembly spec of StreamE2E/Model.v is no longer needed for
    the top theorems: the consistency premise of C03's theorems ("every frame carries
    S[off, off+n)") is discharged by C01_sender_frames_consistent. *)
From Coq Require Import List ZArith Bool Lia.
From V Require Import Gen.Params Lib.Hex SendStream.Model SendStream.ProofsBase SendStream.ProofsInv
  SendStream.ProofsOut SendStream.Theorems
  FrameSorter.Model FrameSorter.InvCheck FrameSorter.Spec FrameSorter.ProofsRun
  RecvStream.Model RecvStream.Spec RecvStream.ProofsRecv RecvStream.ProofsRecv2.
Import ListNotations.
Open Scope Z_scope.

(* the sender's [init] / [run] / [shutdown]... are shadowed by the receiver's: name the ones used here *)
Notation snd_init := V.SendStream.Model.init.
Notation snd_run := V.SendStream.Model.run.

(** ** the written bytes as the byte function C03 works with *)
Definition S_of (Wd : list Z) : Z -> Z := fun i => nth (Z.to_nat i) Wd 0.

Lemma slice_from_app pre : forall d post,
  slice_from (S_of (pre ++ d ++ post)) (zlen pre) (length d) = d.
Proof.
  intros d. revert pre. induction d as [|x d IH]; intros pre post; [reflexivity|].
  cbn [length slice_from]. f_equal.
  - unfold S_of, zlen. rewrite Nat2Z.id. rewrite app_nth2 by lia. rewrite Nat.sub_diag. reflexivity.
  - specialize (IH (pre ++ [x]) post). rewrite <- app_assoc in IH. cbn [app] in IH.
    replace (zlen pre + 1) with (zlen (pre ++ [x])); [exact IH|].
    unfold zlen. rewrite app_length. cbn [length]. lia.
Qed.

(* a frame that carries bytes of W is exactly what C03's consistent push feeds *)
Lemma good_is_slice Wd f : good Wd f -> f_data f = slice (S_of Wd) (f_off f) (len (f_data f)).
Proof.
  intros (pre & post & E & L). unfold slice, len. rewrite Nat2Z.id. rewrite E, <- L. symmetry. apply slice_from_app.
Qed.

Lemma slice_is_prefix Wd n : 0 <= n <= zlen Wd -> slice (S_of Wd) 0 n = zfirstn n Wd.
Proof.
  intros H. unfold slice.
  pose proof (slice_from_app [] (zfirstn n Wd) (zskipn n Wd)) as E. cbn [app] in E.
  rewrite zfirstn_skipn in E. change (zlen (@nil Z)) with 0 in E.
  replace (length (zfirstn n Wd)) with (Z.to_nat n) in E; [exact E|].
  unfold zfirstn, zlen in *. rewrite firstn_length. lia.
Qed.

(** ** the concrete receiver driven by real frames *)
Inductive cev := CDeliver (f : frame) (cb : option Z) | CRead (n : Z).

(* the ROFrame branch of RecvStream.Spec.rstep, fed with the frame's own bytes *)
Definition frame_step (r : rrun) (f : frame) (cb : option Z) : option rrun :=
  let '(s', e) := handleStreamFrame (rr_st r) (f_data f) (f_off f) (f_fin f) cb in
  match e with
  | FNil => Some {| rr_st := s'; rr_out := rr_out r; rr_eof := rr_eof r;
                    rr_acc := if cancelledLocally (rr_st r) then rr_acc r
                              else rr_acc r ++ match cb with Some c => [c] | None => [] end |}
  | _ => None
  end.

Definition cstep (r : rrun) (e : cev) : option rrun :=
  match e with
  | CDeliver f cb => frame_step r f cb
  | CRead n => rstep (fun _ => 0) r (RORead n)      (* Read does not look at the byte function *)
  end.
(* None: the receiver answered with a transport error (FLOW_CONTROL_ERROR beyond the advertised
   window [w], gap limit of the sorter) and the connection is closed *)
Fixpoint crun (r : rrun) (evs : list cev) : option rrun :=
  match evs with
  | [] => Some r
  | e :: t => match cstep r e with Some r' => crun r' t | None => None end
  end.

Definition cdelivered (evs : list cev) : list frame :=
  flat_map (fun e => match e with CDeliver f _ => [f] | CRead _ => [] end) evs.

Definition to_rop (e : cev) : rop :=
  match e with
  | CDeliver f cb => ROFrame (f_off f) (len (f_data f)) (f_fin f) cb
  | CRead n => RORead n
  end.

Lemma cstep_rstep Wd r e :
  (forall f cb, e = CDeliver f cb -> good Wd f) -> cstep r e = rstep (S_of Wd) r (to_rop e).
Proof.
  intros H. destruct e as [f cb|n]; cbn [cstep to_rop rstep]; [|reflexivity].
  unfold frame_step. rewrite <- (good_is_slice Wd f (H f cb eq_refl)). reflexivity.
Qed.

Lemma crun_rsrun Wd evs : forall r,
  Forall (good Wd) (cdelivered evs) -> crun r evs = rsrun (S_of Wd) r (map to_rop evs).
Proof.
  induction evs as [|e evs IH]; intros r H; [reflexivity|]. cbn [crun map rsrun].
  assert (He : forall f cb, e = CDeliver f cb -> good Wd f).
  { intros f cb ->. cbn in H. inversion H; auto. }
  assert (Ht : Forall (good Wd) (cdelivered evs)).
  { destruct e; cbn in H; [inversion H; auto|auto]. }
  rewrite (cstep_rstep Wd r e He). destruct (rstep _ _ _); [apply IH; auto|reflexivity].
Qed.

Lemma to_rop_valid Wd evs :
  Forall (good Wd) (cdelivered evs) -> (forall n, In (CRead n) evs -> 0 <= n) -> Forall rvalid (map to_rop evs).
Proof.
  induction evs as [|e evs IH]; intros H Hn; cbn; constructor.
  - destruct e as [f cb|n]; cbn.
    + cbn in H. inversion H; subst. split; [apply (good_range _ _ H2)|]. unfold len. lia.
    + apply Hn. left. reflexivity.
  - apply IH.
    + destruct e; cbn in H; [inversion H; auto|auto].
    + intros n Hi. apply Hn. right. exact Hi.
Qed.

(** ** the flow controller's highest offset stays within what was written; a known final size is |W| *)
Lemma hsf_fc s data off fin cb s' :
  handleStreamFrame s data off fin cb = (s', FNil) ->
  fc_highest s' = Z.max (fc_highest s) (off + len data) /\ fc_final s' = (fc_final s || fin) /\
  (fin = true -> fc_highest s' = off + len data) /\ (fc_final s = true -> fc_highest s' = fc_highest s).
Proof.
  unfold handleStreamFrame. destruct (fcUpdate s (off + len data) fin) as [s1 e] eqn:Ef.
  destruct e; try (intros H; destruct (cancelledLocally _); inversion H; discriminate);
    try (intros H; inversion H; discriminate).
  destruct (fcUpdate_ok _ _ _ _ Ef) as (_&_&_&_&_&_&_&_&_&_&_&A12&A13&_&A15&A16).
  set (s2 := if fin then set_final s1 (off + len data) else s1).
  assert (E2 : fc_highest s2 = fc_highest s1 /\ fc_final s2 = fc_final s1) by (subst s2; destruct fin; split; reflexivity).
  destruct E2 as [E2 E3].
  destruct (cancelledLocally s2).
  - intros H. inversion H; subst.
    destruct (isNewlyCompleted_fields s2) as (_&_&_&_&_&F&G&_). rewrite F, G, E2, E3. auto.
  - destruct (Push (sorter s2) data off cb) as [q r0]. intros H. inversion H; subst.
    destruct (isNewlyCompleted_fields (set_sorter s2 q)) as (_&_&_&_&_&F&G&_). rewrite F, G. cbn [fc_highest fc_final set_sorter].
    rewrite E2, E3. auto.
Qed.

Record HB (L : Z) (fins : bool) (r : rrun) : Prop := {
  hb_le : fc_highest (rr_st r) <= L;
  hb_fin : fc_final (rr_st r) = true -> fc_highest (rr_st r) = L /\ fins = true
}.

Lemma crun_HB L evs : forall r fins,
  HB L fins r ->
  (forall f, In f (cdelivered evs) -> f_end f <= L /\ (f_fin f = true -> f_end f = L)) ->
  forall r', crun r evs = Some r' ->
  HB L (fins || existsb f_fin (cdelivered evs)) r'.
Proof.
  induction evs as [|e evs IH]; intros r fins H Hf r' Hr; cbn [crun] in Hr.
  - inversion Hr; subst. cbn. rewrite orb_false_r. exact H.
  - destruct (cstep r e) as [r1|] eqn:Es; [|discriminate].
    destruct e as [f cb|n]; cbn [cdelivered flat_map app existsb] in *.
    + cbn [cstep] in Es. unfold frame_step in Es.
      destruct (handleStreamFrame (rr_st r) (f_data f) (f_off f) (f_fin f) cb) as [s' e0] eqn:EH.
      destruct e0; try discriminate. inversion Es; subst; clear Es.
      destruct (hsf_fc _ _ _ _ _ _ EH) as (A & B & C & D).
      destruct (Hf f (or_introl eq_refl)) as [Fe Ff]. unfold f_end, zlen in *. unfold len in *.
      destruct H as [H1 H2].
      assert (H1' : HB L (fins || f_fin f) {| rr_st := s'; rr_out := rr_out r; rr_eof := rr_eof r;
                      rr_acc := if cancelledLocally (rr_st r) then rr_acc r else rr_acc r ++ match cb with Some c => [c] | None => [] end |}).
      { constructor; cbn [rr_st].
        - rewrite A. lia.
        - rewrite B. intros X. apply orb_prop in X. destruct X as [X|X].
          + destruct (H2 X) as [X1 X2]. rewrite (D X), X2. auto.
          + rewrite (C X), X, orb_true_r. split; auto. }
      rewrite orb_assoc. eapply IH; eauto. intros f0 Hf0. apply Hf. right. exact Hf0.
    + cbn [cstep rstep] in Es. destruct (Read (rr_st r) n) as [[[s' d] e0] bug] eqn:ER.
      destruct bug; [discriminate|]. inversion Es; subst; clear Es.
      destruct (Read_keeps_fc _ _ _ _ _ _ ER) as (K1 & K2 & _).
      eapply IH; [|exact Hf|exact Hr]. destruct H as [H1 H2]. constructor; cbn [rr_st]; rewrite ?K1, ?K2; auto.
Qed.

Section ConcreteE2E.
Variables (sid0 : Z) (rsa : bool) (swin cwin : Z) (ops : list op) (w : Z) (evs : list cev).
Let s := fst (snd_run (snd_init sid0 rsa swin cwin) ops).
Let E := frames_of (snd (snd_run (snd_init sid0 rsa swin cwin) ops)).

(* Net: only frames the sender emitted reach the stream layer (any number of times, any order) *)
Hypothesis net : forall f, In f (cdelivered evs) -> In f E.
Hypothesis window : 0 <= w < MaxBC.
Hypothesis reads_nonneg : forall n, In (CRead n) evs -> 0 <= n.

Lemma cdelivered_good : Forall (good (W s)) (cdelivered evs).
Proof.
  pose proof (emitted_good' sid0 rsa swin cwin ops) as HG. rewrite Forall_forall in *.
  intros f Hf. apply HG. apply net. exact Hf.
Qed.

Lemma cdelivered_bounds :
  forall f, In f (cdelivered evs) -> f_end f <= zlen (W s) /\ (f_fin f = true -> f_end f = zlen (W s)).
Proof.
  intros f Hf. destruct (sender_frames_consistent' sid0 rsa swin cwin ops) as (A & _ & C).
  split; [apply (A f (net f Hf))|]. intros Hfin. apply (C f (net f Hf) Hfin).
Qed.

Lemma crun_is_rsrun : crun (rrun_init w) evs = rsrun (S_of (W s)) (rrun_init w) (map to_rop evs).
Proof. apply crun_rsrun. apply cdelivered_good. Qed.

Theorem concrete_prefix r :
  crun (rrun_init w) evs = Some r ->
  (exists rest, W s = rr_out r ++ rest) /\
  (rr_eof r = true -> rr_out r = W s /\ finishedWriting s = true).
Proof.
  intros Hr. pose proof Hr as Hr2. rewrite crun_is_rsrun in Hr2.
  pose proof (to_rop_valid (W s) evs cdelivered_good reads_nonneg) as Hv.
  destruct (recv_read_exact (S_of (W s)) w _ r window Hv Hr2) as (R1 & R2 & R3 & R4).
  assert (H0 : HB (zlen (W s)) false (rrun_init w)).
  { constructor; cbn; [apply zlen_nonneg|discriminate]. }
  pose proof (crun_HB (zlen (W s)) evs (rrun_init w) false H0 cdelivered_bounds r Hr) as [B1 B2].
  pose proof (RRInv_init (S_of (W s)) w window) as I0.
  pose proof (rsrun_RRInv (S_of (W s)) _ _ _ I0 Hv Hr2) as [RS _ _].
  pose proof (v_rpos _ _ RS) as Hp.
  split.
  - exists (zskipn (rpos (rr_st r)) (W s)). rewrite R1, slice_is_prefix by lia. symmetry. apply zfirstn_skipn.
  - intros He. destruct (R4 He) as [F1 F2]. destruct (B2 F1) as [B3 B4].
    rewrite (R3 F1) in F2. split.
    + rewrite R1, slice_is_prefix by lia. apply zfirstn_all. lia.
    + cbn [orb] in B4. apply existsb_exists in B4. destruct B4 as (f & Hf & Hfin).
      destruct (sender_frames_consistent' sid0 rsa swin cwin ops) as (_ & _ & C).
      apply (C f (net f Hf) Hfin).
Qed.
End ConcreteE2E.
