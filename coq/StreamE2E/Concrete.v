(** C01 end to end on the CONCRETE receiver: SendStream.Model o Net o RecvStream.Model
    (coq/RecvStream + coq/FrameSorter, the models of receive_stream.go / frame_sorter.go that C03
    ties to the code).  The abstract reassembly spec of StreamE2E/Model.v is no longer needed for
    the top theorems: the consistency premise of C03's theorems ("every frame carries
    S[off, off+n)") is discharged by C01_sender_frames_consistent. *)
From Coq Require Import List ZArith Bool Lia.
From V Require Import Gen.Params Lib.Hex SendStream.Model SendStream.ProofsBase SendStream.ProofsInv
  SendStream.ProofsOut SendStream.Theorems
  FrameSorter.Model FrameSorter.InvCheck FrameSorter.Spec FrameSorter.ProofsBase FrameSorter.ProofsRun
  RecvStream.Model RecvStream.Spec RecvStream.ProofsRecv RecvStream.ProofsRecv2 StreamE2E.ConcreteCov.
Import ListNotations.
Open Scope Z_scope.

(* the sender's [init] / [run] / [shutdown]... are shadowed by the receiver's: name the ones used here *)
Notation snd_init := V.SendStream.Model.init.
Notation snd_run := V.SendStream.Model.run.

(** ** the written bytes as the byte function C03 works with *)
Definition S_of (Wd : list Z) : Z -> Z := fun i => nth (Z.to_nat i) Wd 0.

Lemma slice_from_app pre : forall d post,
  slice_from (S_of (pre ++ d ++ post)) (zlen pre) (length d) = d.
Proof.
  intros d. revert pre. induction d as [|x d IH]; intros pre post; [reflexivity|].
  cbn [length slice_from]. f_equal.
  - unfold S_of, zlen. rewrite Nat2Z.id. rewrite app_nth2 by lia. rewrite Nat.sub_diag. reflexivity.
  - specialize (IH (pre ++ [x]) post). rewrite <- app_assoc in IH. cbn [app] in IH.
    replace (zlen pre + 1) with (zlen (pre ++ [x])); [exact IH|].
    unfold zlen. rewrite app_length. cbn [length]. lia.
Qed.

(* a frame that carries bytes of W is exactly what C03's consistent push feeds *)
Lemma good_is_slice Wd f : good Wd f -> f_data f = slice (S_of Wd) (f_off f) (len (f_data f)).
Proof.
  intros (pre & post & E & L). unfold slice, len. rewrite Nat2Z.id. rewrite E, <- L. symmetry. apply slice_from_app.
Qed.

Lemma slice_is_prefix Wd n : 0 <= n <= zlen Wd -> slice (S_of Wd) 0 n = zfirstn n Wd.
Proof.
  intros H. unfold slice.
  pose proof (slice_from_app [] (zfirstn n Wd) (zskipn n Wd)) as E. cbn [app] in E.
  rewrite zfirstn_skipn in E. change (zlen (@nil Z)) with 0 in E.
  replace (length (zfirstn n Wd)) with (Z.to_nat n) in E; [exact E|].
  unfold zfirstn, zlen in *. rewrite firstn_length. lia.
Qed.

(** ** the concrete receiver driven by real frames *)
Inductive cev := CDeliver (f : frame) (cb : option Z) | CRead (n : Z).

(* the ROFrame branch of RecvStream.Spec.rstep, fed with the frame's own bytes *)
Definition frame_step (r : rrun) (f : frame) (cb : option Z) : option rrun :=
  let '(s', e) := handleStreamFrame (rr_st r) (f_data f) (f_off f) (f_fin f) cb in
  match e with
  | FNil => Some {| rr_st := s'; rr_out := rr_out r; rr_eof := rr_eof r;
                    rr_acc := if cancelledLocally (rr_st r) then rr_acc r
                              else rr_acc r ++ match cb with Some c => [c] | None => [] end |}
  | _ => None
  end.

Definition cstep (r : rrun) (e : cev) : option rrun :=
  match e with
  | CDeliver f cb => frame_step r f cb
  | CRead n => rstep (fun _ => 0) r (RORead n)      (* Read does not look at the byte function *)
  end.
(* None: the receiver answered with a transport error (FLOW_CONTROL_ERROR beyond the advertised
   window [w], gap limit of the sorter) and the connection is closed *)
Fixpoint crun (r : rrun) (evs : list cev) : option rrun :=
  match evs with
  | [] => Some r
  | e :: t => match cstep r e with Some r' => crun r' t | None => None end
  end.

Definition cdelivered (evs : list cev) : list frame :=
  flat_map (fun e => match e with CDeliver f _ => [f] | CRead _ => [] end) evs.

Definition to_rop (e : cev) : rop :=
  match e with
  | CDeliver f cb => ROFrame (f_off f) (len (f_data f)) (f_fin f) cb
  | CRead n => RORead n
  end.

Lemma cstep_rstep Wd r e :
  (forall f cb, e = CDeliver f cb -> good Wd f) -> cstep r e = rstep (S_of Wd) r (to_rop e).
Proof.
  intros H. destruct e as [f cb|n]; cbn [cstep to_rop rstep]; [|reflexivity].
  unfold frame_step. rewrite <- (good_is_slice Wd f (H f cb eq_refl)). reflexivity.
Qed.

Lemma crun_rsrun Wd evs : forall r,
  Forall (good Wd) (cdelivered evs) -> crun r evs = rsrun (S_of Wd) r (map to_rop evs).
Proof.
  induction evs as [|e evs IH]; intros r H; [reflexivity|]. cbn [crun map rsrun].
  assert (He : forall f cb, e = CDeliver f cb -> good Wd f).
  { intros f cb ->. cbn in H. inversion H; auto. }
  assert (Ht : Forall (good Wd) (cdelivered evs)).
  { destruct e; cbn in H; [inversion H; auto|auto]. }
  rewrite (cstep_rstep Wd r e He). destruct (rstep _ _ _); [apply IH; auto|reflexivity].
Qed.

Lemma to_rop_valid Wd evs :
  Forall (good Wd) (cdelivered evs) -> (forall n, In (CRead n) evs -> 0 <= n) -> Forall rvalid (map to_rop evs).
Proof.
  induction evs as [|e evs IH]; intros H Hn; cbn; constructor.
  - destruct e as [f cb|n]; cbn.
    + cbn in H. inversion H; subst. split; [apply (good_range _ _ H2)|]. unfold len. lia.
    + apply Hn. left. reflexivity.
  - apply IH.
    + destruct e; cbn in H; [inversion H; auto|auto].
    + intros n Hi. apply Hn. right. exact Hi.
Qed.

(** ** the flow controller's highest offset stays within what was written; a known final size is |W| *)
Lemma hsf_fc s data off fin cb s' :
  handleStreamFrame s data off fin cb = (s', FNil) ->
  fc_highest s' = Z.max (fc_highest s) (off + len data) /\ fc_final s' = (fc_final s || fin) /\
  (fin = true -> fc_highest s' = off + len data) /\ (fc_final s = true -> fc_highest s' = fc_highest s).
Proof.
  unfold handleStreamFrame. destruct (fcUpdate s (off + len data) fin) as [s1 e] eqn:Ef.
  destruct e; try (intros H; destruct (cancelledLocally _); inversion H; discriminate);
    try (intros H; inversion H; discriminate).
  destruct (fcUpdate_ok _ _ _ _ Ef) as (_&_&_&_&_&_&_&_&_&_&_&A12&A13&_&A15&A16).
  set (s2 := if fin then set_final s1 (off + len data) else s1).
  assert (E2 : fc_highest s2 = fc_highest s1 /\ fc_final s2 = fc_final s1) by (subst s2; destruct fin; split; reflexivity).
  destruct E2 as [E2 E3].
  destruct (cancelledLocally s2).
  - intros H. inversion H; subst.
    destruct (isNewlyCompleted_fields s2) as (_&_&_&_&_&F&G&_). rewrite F, G, E2, E3. auto.
  - destruct (Push (sorter s2) data off cb) as [q r0]. intros H. inversion H; subst.
    destruct (isNewlyCompleted_fields (set_sorter s2 q)) as (_&_&_&_&_&F&G&_). rewrite F, G. cbn [fc_highest fc_final set_sorter].
    rewrite E2, E3. auto.
Qed.

Record HB (L : Z) (fins : bool) (r : rrun) : Prop := {
  hb_le : fc_highest (rr_st r) <= L;
  hb_fin : fc_final (rr_st r) = true -> fc_highest (rr_st r) = L /\ fins = true
}.

Lemma crun_HB L evs : forall r fins,
  HB L fins r ->
  (forall f, In f (cdelivered evs) -> f_end f <= L /\ (f_fin f = true -> f_end f = L)) ->
  forall r', crun r evs = Some r' ->
  HB L (fins || existsb f_fin (cdelivered evs)) r'.
Proof.
  induction evs as [|e evs IH]; intros r fins H Hf r' Hr; cbn [crun] in Hr.
  - inversion Hr; subst. cbn. rewrite orb_false_r. exact H.
  - destruct (cstep r e) as [r1|] eqn:Es; [|discriminate].
    destruct e as [f cb|n]; cbn [cdelivered flat_map app existsb] in *.
    + cbn [cstep] in Es. unfold frame_step in Es.
      destruct (handleStreamFrame (rr_st r) (f_data f) (f_off f) (f_fin f) cb) as [s' e0] eqn:EH.
      destruct e0; try discriminate. inversion Es; subst; clear Es.
      destruct (hsf_fc _ _ _ _ _ _ EH) as (A & B & C & D).
      destruct (Hf f (or_introl eq_refl)) as [Fe Ff]. unfold f_end, zlen in *. unfold len in *.
      destruct H as [H1 H2].
      assert (H1' : HB L (fins || f_fin f) {| rr_st := s'; rr_out := rr_out r; rr_eof := rr_eof r;
                      rr_acc := if cancelledLocally (rr_st r) then rr_acc r else rr_acc r ++ match cb with Some c => [c] | None => [] end |}).
      { constructor; cbn [rr_st].
        - rewrite A. lia.
        - rewrite B. intros X. apply orb_prop in X. destruct X as [X|X].
          + destruct (H2 X) as [X1 X2]. rewrite (D X), X2. auto.
          + rewrite (C X), X, orb_true_r. split; auto. }
      rewrite orb_assoc. eapply IH; eauto. intros f0 Hf0. apply Hf. right. exact Hf0.
    + cbn [cstep rstep] in Es. destruct (Read (rr_st r) n) as [[[s' d] e0] bug] eqn:ER.
      destruct bug; [discriminate|]. inversion Es; subst; clear Es.
      destruct (Read_keeps_fc _ _ _ _ _ _ ER) as (K1 & K2 & _).
      eapply IH; [|exact Hf|exact Hr]. destruct H as [H1 H2]. constructor; cbn [rr_st]; rewrite ?K1, ?K2; auto.
Qed.

(** ** completeness: what was delivered stays readable *)
Definition in_range (l : list frame) (x : Z) : Prop := exists f, In f l /\ f_off f <= x < f_end f.

Record CI (S : Z -> Z) (r : rrun) (l : list frame) : Prop := {
  ci_inv : RRInv S r;
  ci_sh : shutdown (rr_st r) = false;
  ci_cl : cancelledLocally (rr_st r) = false;
  ci_cr : cancelledRemotely (rr_st r) = false;
  ci_cov : forall x, in_range l x -> rpos (rr_st r) + crest (rr_st r) <= x -> cov (queue (sorter (rr_st r))) x;
  ci_fin : existsb f_fin l = true -> fc_final (rr_st r) = true
}.

Lemma CI_init S w : 0 <= w < MaxBC -> CI S (rrun_init w) [].
Proof.
  intros Hw. constructor; cbn; auto; try discriminate.
  - now apply RRInv_init.
  - intros x (f & [] & _).
Qed.

Lemma cstep_CI Wd r e r' l :
  CI (S_of Wd) r l -> (forall f cb, e = CDeliver f cb -> good Wd f) -> (forall n, e = CRead n -> 0 <= n) ->
  cstep r e = Some r' ->
  CI (S_of Wd) r' (l ++ match e with CDeliver f _ => [f] | CRead _ => [] end) /\
  rpos (rr_st r) <= rpos (rr_st r') /\ (rr_eof r = true -> rr_eof r' = true).
Proof.
  intros [I1 I2 I3 I4 I5 I6] Hg Hn Hs. pose proof Hs as Hs0.
  rewrite (cstep_rstep Wd r e Hg) in Hs.
  assert (Hv : rvalid (to_rop e)).
  { destruct e as [f cb|n]; cbn; [|eauto]. specialize (Hg f cb eq_refl). split; [apply (good_range _ _ Hg)|unfold len; lia]. }
  pose proof (rstep_RRInv (S_of Wd) r (to_rop e) r' I1 Hv Hs) as I1'.
  pose proof (rr_inv _ _ I1) as R.
  destruct e as [f cb|n]; cbn [to_rop rstep] in Hs.
  - destruct (handleStreamFrame (rr_st r) (slice (S_of Wd) (f_off f) (len (f_data f))) (f_off f) (f_fin f) cb) as [s' e0] eqn:EH.
    destruct e0; try discriminate. inversion Hs; subst; clear Hs. cbn [rr_st rr_eof] in *.
    pose proof (good_range _ _ (Hg f cb eq_refl)) as [G1 G2].
    destruct (frame_cov (S_of Wd) (rr_st r) (f_off f) (len (f_data f)) (f_fin f) cb s' R G1 (len_nonneg _) EH I3) as (K & Ksum & Kcl & Ksh & Kcr & Knew).
    pose proof (hsf_fc _ _ _ _ _ _ EH) as (_ & Hfin & _).
    destruct (recv_frame_buffers (S_of Wd) (rr_st r) (f_off f) (len (f_data f)) (f_fin f) cb s' R G1 (len_nonneg _) EH I3) as (P1 & _).
    split; [|split; [lia|auto]].
    constructor; cbn [rr_st]; auto; try congruence.
    + intros x (g & Hg' & Hr) Hx. apply in_app_or in Hg'. destruct Hg' as [Hg'|[Hg'|[]]].
      * destruct K as [_ K2]. apply K2; auto. apply I5; [exists g; auto|lia].
      * subst g. apply Knew; [unfold f_end, zlen, len in *; lia|lia].
    + rewrite existsb_app. cbn [existsb]. rewrite orb_false_r. rewrite Hfin. intros X.
      apply orb_prop in X. destruct X as [X|X]; [rewrite (I6 X); reflexivity|rewrite X; apply orb_true_r].
  - destruct (Read (rr_st r) n) as [[[s' d] e0] bug] eqn:ER. destruct bug; [discriminate|]. inversion Hs; subst; clear Hs.
    cbn [rr_st rr_eof] in *. rewrite app_nil_r.
    destruct (Read_cov (S_of Wd) _ _ _ _ _ _ R ER) as [K1 K2].
    destruct (Read_flags _ _ _ _ _ _ ER) as (F1 & F2 & F3).
    destruct (Read_keeps_fc _ _ _ _ _ _ ER) as (F4 & _).
    destruct (Read_spec (S_of Wd) _ _ _ _ _ _ R (Hn n eq_refl) ER) as (_ & _ & _ & Hp & _).
    pose proof (len_nonneg d) as Hd.
    split; [|split; [lia|intros X; rewrite X; reflexivity]].
    constructor; cbn [rr_st]; auto; try congruence.
    + intros x Hx Hge. apply K2; auto. apply I5; auto. lia.
    + intros X. rewrite F4. auto.
Qed.

Lemma crun_CI Wd evs : forall r l r',
  CI (S_of Wd) r l -> Forall (good Wd) (cdelivered evs) -> (forall n, In (CRead n) evs -> 0 <= n) ->
  crun r evs = Some r' ->
  CI (S_of Wd) r' (l ++ cdelivered evs) /\ rpos (rr_st r) <= rpos (rr_st r') /\ (rr_eof r = true -> rr_eof r' = true).
Proof.
  induction evs as [|e evs IH]; intros r l r' HC HG Hn Hr; cbn [crun] in Hr.
  - inversion Hr; subst. cbn. rewrite app_nil_r. split; [exact HC|split; [lia|auto]].
  - destruct (cstep r e) as [r1|] eqn:Es; [|discriminate].
    assert (He : forall f cb, e = CDeliver f cb -> good Wd f).
    { intros f cb ->. cbn in HG. inversion HG; auto. }
    assert (Ht : Forall (good Wd) (cdelivered evs)).
    { destruct e; cbn in HG; [inversion HG; auto|auto]. }
    destruct (cstep_CI Wd r e r1 l HC He ltac:(intros n ->; apply Hn; left; reflexivity) Es) as (C1 & P1 & E1).
    destruct (IH r1 _ r' C1 Ht ltac:(intros n Hi; apply Hn; right; exact Hi) Hr) as (C2 & P2 & E2).
    split; [|split; [lia|auto]].
    replace (l ++ cdelivered (e :: evs)) with ((l ++ match e with CDeliver f _ => [f] | CRead _ => [] end) ++ cdelivered evs); [exact C2|].
    rewrite <- app_assoc. destruct e; reflexivity.
Qed.

Section ConcreteE2E.
Variables (sid0 : Z) (rsa : bool) (swin cwin : Z) (ops : list op) (w : Z) (evs : list cev).
Let s := fst (snd_run (snd_init sid0 rsa swin cwin) ops).
Let E := frames_of (snd (snd_run (snd_init sid0 rsa swin cwin) ops)).

(* Net: only frames the sender emitted reach the stream layer (any number of times, any order) *)
Hypothesis net : forall f, In f (cdelivered evs) -> In f E.
Hypothesis window : 0 <= w < MaxBC.
Hypothesis reads_nonneg : forall n, In (CRead n) evs -> 0 <= n.

Lemma cdelivered_good : Forall (good (W s)) (cdelivered evs).
Proof.
  pose proof (emitted_good' sid0 rsa swin cwin ops) as HG. rewrite Forall_forall in *.
  intros f Hf. apply HG. apply net. exact Hf.
Qed.

Lemma cdelivered_bounds :
  forall f, In f (cdelivered evs) -> f_end f <= zlen (W s) /\ (f_fin f = true -> f_end f = zlen (W s)).
Proof.
  intros f Hf. destruct (sender_frames_consistent' sid0 rsa swin cwin ops) as (A & _ & C).
  split; [apply (A f (net f Hf))|]. intros Hfin. apply (C f (net f Hf) Hfin).
Qed.

Lemma crun_is_rsrun : crun (rrun_init w) evs = rsrun (S_of (W s)) (rrun_init w) (map to_rop evs).
Proof. apply crun_rsrun. apply cdelivered_good. Qed.

Theorem concrete_prefix r :
  crun (rrun_init w) evs = Some r ->
  (exists rest, W s = rr_out r ++ rest) /\
  (rr_eof r = true -> rr_out r = W s /\ finishedWriting s = true).
Proof.
  intros Hr. pose proof Hr as Hr2. rewrite crun_is_rsrun in Hr2.
  pose proof (to_rop_valid (W s) evs cdelivered_good reads_nonneg) as Hv.
  destruct (recv_read_exact (S_of (W s)) w _ r window Hv Hr2) as (R1 & R2 & R3 & R4).
  assert (H0 : HB (zlen (W s)) false (rrun_init w)).
  { constructor; cbn; [apply zlen_nonneg|discriminate]. }
  pose proof (crun_HB (zlen (W s)) evs (rrun_init w) false H0 cdelivered_bounds r Hr) as [B1 B2].
  pose proof (RRInv_init (S_of (W s)) w window) as I0.
  pose proof (rsrun_RRInv (S_of (W s)) _ _ _ I0 Hv Hr2) as [RS _ _].
  pose proof (v_rpos _ _ RS) as Hp.
  split.
  - exists (zskipn (rpos (rr_st r)) (W s)). rewrite R1, slice_is_prefix by lia. symmetry. apply zfirstn_skipn.
  - intros He. destruct (R4 He) as [F1 F2]. destruct (B2 F1) as [B3 B4].
    rewrite (R3 F1) in F2. split.
    + rewrite R1, slice_is_prefix by lia. apply zfirstn_all. lia.
    + cbn [orb] in B4. apply existsb_exists in B4. destruct B4 as (f & Hf & Hfin).
      destruct (sender_frames_consistent' sid0 rsa swin cwin ops) as (_ & _ & C).
      apply (C f (net f Hf) Hfin).
Qed.
End ConcreteE2E.

(** ** completeness on the concrete models *)
Lemma crun_app evs1 : forall evs2 r, crun r (evs1 ++ evs2) = match crun r evs1 with Some r1 => crun r1 evs2 | None => None end.
Proof. induction evs1 as [|e t IH]; intros evs2 r; cbn [app crun]; [reflexivity|]. destruct (cstep r e); [apply IH|reflexivity]. Qed.

Lemma cdelivered_app a b : cdelivered (a ++ b) = cdelivered a ++ cdelivered b.
Proof. unfold cdelivered. apply flat_map_app. Qed.
Lemma cdelivered_reads n k : cdelivered (repeat (CRead n) k) = [].
Proof. induction k; cbn; auto. Qed.

Section Drain.
Variables (Wd : list Z) (D : list frame) (n : Z).
Hypothesis npos : 0 < n.
Hypothesis covers : forall i, 0 <= i < zlen Wd -> in_range D i.
Hypothesis hasfin : existsb f_fin D = true.
Let L := zlen Wd.

(* one more Read: it does not fail, and either io.EOF has been seen or the read position moved on *)
Lemma drain_step r fins :
  CI (S_of Wd) r D -> HB L fins r ->
  exists r1, cstep r (CRead n) = Some r1 /\ CI (S_of Wd) r1 D /\ HB L fins r1 /\
             (rr_eof r1 = true \/ rpos (rr_st r) + 1 <= rpos (rr_st r1)) /\ (rr_eof r = true -> rr_eof r1 = true).
Proof.
  intros HC HBr. pose proof HC as [I1 I2 I3 I4 I5 I6]. pose proof (rr_inv _ _ I1) as R.
  cbn [cstep rstep]. destruct (Read (rr_st r) n) as [[[s' d] e] bug] eqn:ER.
  destruct (Read_spec (S_of Wd) (rr_st r) n s' d e bug R (Z.lt_le_incl 0 n npos) ER) as (-> & R' & Hd & Hp & Hle & _).
  eexists. split; [reflexivity|].
  assert (Hs : cstep r (CRead n) = Some {| rr_st := s'; rr_out := rr_out r ++ d;
                 rr_eof := rr_eof r || match e with EEOF => true | _ => false end; rr_acc := rr_acc r |}).
  { cbn [cstep rstep]. rewrite ER. reflexivity. }
  destruct (cstep_CI Wd r (CRead n) _ D HC ltac:(intros; discriminate) ltac:(intros m Hm; inversion Hm; lia) Hs) as (C1 & _ & E1).
  rewrite app_nil_r in C1.
  assert (HB1 : HB L fins {| rr_st := s'; rr_out := rr_out r ++ d;
                 rr_eof := rr_eof r || match e with EEOF => true | _ => false end; rr_acc := rr_acc r |}).
  { destruct (Read_keeps_fc _ _ _ _ _ _ ER) as (K1 & K2 & _). destruct HBr as [H1 H2].
    constructor; cbn [rr_st]; rewrite ?K1, ?K2; auto. }
  split; [exact C1|]. split; [exact HB1|]. split; [|exact E1]. cbn [rr_eof rr_st].
  pose proof (v_pos _ _ R) as VP. pose proof (v_rp_high _ _ R) as VH. pose proof (crest_nonneg _ _ R) as Hc.
  pose proof (v_rpos _ _ R) as V0. destruct HBr as [H1 H2]. specialize (I6 hasfin). destruct (H2 I6) as [H3 _].
  destruct (Z.lt_ge_cases (rpos (rr_st r)) L) as [Hlt|Hge].
  - right. assert (Ha : available (rr_st r)).
    { unfold available. destruct (Z.eq_dec (crest (rr_st r)) 0) as [E0|E0]; [right|left; lia].
      apply I5; [apply covers; lia|lia]. }
    assert (Hl : latched (rr_st r) = false).
    { unfold latched, remoteEffective. rewrite I2, I3, I4. reflexivity. }
    pose proof (Read_progress (S_of Wd) _ _ _ _ _ _ R npos Hl Ha ER). lia.
  - left. assert (Hfo : finalOffset (rr_st r) = fc_highest (rr_st r)).
    { pose proof (v_final _ _ R) as VF. rewrite I6 in VF. exact VF. }
    rewrite (Read_at_final (S_of Wd) _ _ _ _ _ _ R I6 ltac:(lia) I2 I3 I4 npos ER). apply orb_true_r.
Qed.

Lemma drain_k k : forall r fins,
  CI (S_of Wd) r D -> HB L fins r ->
  exists r', crun r (repeat (CRead n) k) = Some r' /\ CI (S_of Wd) r' D /\ HB L fins r' /\
             (rr_eof r' = true \/ rpos (rr_st r) + Z.of_nat k <= rpos (rr_st r')).
Proof.
  induction k as [|k IH]; intros r fins HC HBr.
  - exists r. cbn [repeat crun]. split; [reflexivity|]. split; [exact HC|]. split; [exact HBr|]. right. cbn. lia.
  - destruct (drain_step r fins HC HBr) as (r1 & S1 & C1 & B1 & P1 & E1).
    destruct (IH r1 fins C1 B1) as (r' & S2 & C2 & B2 & P2).
    exists r'. cbn [repeat crun]. rewrite S1. split; [exact S2|]. split; [exact C2|]. split; [exact B2|].
    destruct P2 as [P2|P2]; [left; exact P2|].
    destruct P1 as [P1|P1]; [|right; lia].
    left. (* EOF seen at the first read stays seen *)
    clear - S2 P1. revert r1 r' S2 P1. induction k as [|k IHk]; intros r1 r' S2 P1; cbn [repeat crun] in S2.
    + inversion S2; subst. exact P1.
    + destruct (cstep r1 (CRead n)) as [r2|] eqn:E; [|discriminate].
      apply (IHk r2 r' S2). cbn [cstep rstep] in E. destruct (Read _ _) as [[[? ?] ?] b]. destruct b; [discriminate|].
      inversion E; subst. cbn. rewrite P1. reflexivity.
Qed.
End Drain.

Section ConcreteComplete.
Variables (sid0 : Z) (rsa : bool) (swin cwin : Z) (ops : list op) (w : Z) (evs : list cev) (n : Z).
Let s := fst (snd_run (snd_init sid0 rsa swin cwin) ops).
Let E := frames_of (snd (snd_run (snd_init sid0 rsa swin cwin) ops)).
Hypothesis net : forall f, In f (cdelivered evs) -> In f E.
Hypothesis window : 0 <= w < MaxBC.
Hypothesis reads_nonneg : forall m, In (CRead m) evs -> 0 <= m.
Hypothesis npos : 0 < n.

(** If the frames that reached the receiver cover [0,|W|) and include the FIN, and the receiver did
    not answer with a transport error, then |W|+1 further Read calls (each may return as little as one
    byte) do not fail, and afterwards the reader holds exactly W and has seen io.EOF. *)
Theorem concrete_complete r0 :
  crun (rrun_init w) evs = Some r0 ->
  (forall i, 0 <= i < zlen (W s) -> in_range (cdelivered evs) i) ->
  existsb f_fin (cdelivered evs) = true ->
  exists r, crun r0 (repeat (CRead n) (Datatypes.S (Z.to_nat (zlen (W s))))) = Some r /\
            rr_out r = W s /\ rr_eof r = true /\ finishedWriting s = true.
Proof.
  intros Hr Hcov Hfin.
  pose proof (cdelivered_good sid0 rsa swin cwin ops evs net) as HG. fold s in HG.
  destruct (crun_CI (W s) evs (rrun_init w) [] r0 (CI_init _ w window) HG reads_nonneg Hr) as (C0 & _ & _).
  cbn [app] in C0.
  assert (H0 : HB (zlen (W s)) false (rrun_init w)).
  { constructor; cbn; [apply zlen_nonneg|discriminate]. }
  pose proof (crun_HB (zlen (W s)) evs (rrun_init w) false H0 (cdelivered_bounds sid0 rsa swin cwin ops evs net) r0 Hr) as B0.
  fold s in B0.
  destruct (drain_k (W s) (cdelivered evs) n npos Hcov Hfin (Datatypes.S (Z.to_nat (zlen (W s)))) r0 _ C0 B0) as (r & S1 & C1 & B1 & P1).
  exists r. split; [exact S1|].
  assert (Hall : crun (rrun_init w) (evs ++ repeat (CRead n) (Datatypes.S (Z.to_nat (zlen (W s))))) = Some r).
  { rewrite crun_app, Hr. exact S1. }
  assert (Heof : rr_eof r = true).
  { destruct P1 as [P1|P1]; [exact P1|]. exfalso.
    pose proof (rr_inv _ _ (ci_inv _ _ _ C1)) as R. pose proof (v_pos _ _ R). pose proof (v_rp_high _ _ R).
    pose proof (crest_nonneg _ _ R). pose proof (hb_le _ _ _ B1).
    pose proof (v_rpos _ _ (rr_inv _ _ (ci_inv _ _ _ C0))). pose proof (zlen_nonneg (W s)). lia. }
  assert (net' : forall f, In f (cdelivered (evs ++ repeat (CRead n) (Datatypes.S (Z.to_nat (zlen (W s)))))) -> In f E).
  { intros f Hf. rewrite cdelivered_app, cdelivered_reads, app_nil_r in Hf. auto. }
  assert (rn' : forall m, In (CRead m) (evs ++ repeat (CRead n) (Datatypes.S (Z.to_nat (zlen (W s))))) -> 0 <= m).
  { intros m Hm. apply in_app_or in Hm. destruct Hm as [Hm|Hm]; [auto|]. apply repeat_spec in Hm. inversion Hm. lia. }
  destruct (concrete_prefix sid0 rsa swin cwin ops w _ net' window rn' r Hall) as (_ & Hx).
  destruct (Hx Heof) as [A B]. auto.
Qed.
End ConcreteComplete.
