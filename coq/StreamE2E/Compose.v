(** C01 end to end: SendStream model o Net o abstract reassembly spec. *)
From Coq Require Import List ZArith Bool Lia.
From V Require Import Gen.Params Lib.Hex SendStream.Model SendStream.ProofsBase SendStream.ProofsInv
  SendStream.ProofsCov SendStream.ProofsOut SendStream.Theorems StreamE2E.Model StreamE2E.Proofs.
Import ListNotations.
Open Scope Z_scope.

Lemma rrun_eof_fin evs : forall r,
  saw_eof (snd (rrun r evs)) = true ->
  finalSize r <> None \/ exists f, In f (delivered evs) /\ f_fin f = true.
Proof.
  induction evs as [|e evs IH]; intros r H; cbn [rrun] in H.
  - discriminate.
  - destruct e as [f|n]; cbn [delivered flat_map app].
    + destruct (IH _ H) as [A|(g & Hg & Hf)].
      * cbn in A. destruct (finalSize r); [left; discriminate|].
        destruct (f_fin f) eqn:Ef; [|congruence]. right. exists f. split; [left; reflexivity|exact Ef].
      * right. exists g. split; [right; exact Hg|exact Hf].
    + destruct (read n r) as [r1 [d eof]] eqn:ER.
      assert (E1 : finalSize r1 = finalSize r) by (unfold read in ER; inversion ER; reflexivity).
      assert (E2 : eof = true -> finalSize r <> None).
      { unfold read in ER. inversion ER. destruct (finalSize r); [discriminate|]. intros; discriminate. }
      specialize (IH r1). destruct (rrun r1 evs) as [r2 xs]. cbn [snd saw_eof existsb] in *.
      apply orb_prop in H. destruct H as [H|H]; [left; auto|].
      rewrite E1 in IH. apply IH. exact H.
Qed.

Section E2E.
Variables (sid0 : Z) (rsa : bool) (swin cwin : Z) (ops : list op) (evs : list event).
Let s := fst (run (init sid0 rsa swin cwin) ops).
Let E := frames_of (snd (run (init sid0 rsa swin cwin) ops)).
Let rs := snd (rrun rcv0 evs).

(* the network delivers only frames the sender emitted (any number of times, any order) *)
Hypothesis net : forall f, In f (delivered evs) -> In f E.

Lemma delivered_good : late s = false -> Forall (good (W s)) (delivered evs).
Proof.
  intros HL. pose proof (emitted_good sid0 rsa swin cwin ops HL) as HG.
  rewrite Forall_forall in *. intros f Hf. apply HG. apply net. exact Hf.
Qed.

Theorem end_to_end_prefix :
  late s = false ->
  (exists rest, W s = all_read rs ++ rest) /\
  (saw_eof rs = true -> all_read rs = W s /\ finishedWriting s = true).
Proof.
  intros HL. pose proof (delivered_good HL) as HG. split.
  - apply reads_prefix_only. exact HG.
  - intros He.
    destruct (sender_frames_consistent sid0 rsa swin cwin ops HL) as (_ & _ & HF).
    assert (HF' : forall f, In f (delivered evs) -> f_fin f = true -> f_end f = zlen (W s)).
    { intros f Hf Hfin. apply (HF f (net f Hf) Hfin). }
    split.
    + apply (reads_prefix (W s) evs HG HF'). exact He.
    + destruct (rrun_eof_fin evs rcv0 He) as [A|(f & Hf & Hfin)]; [cbn in A; congruence|].
      apply (HF f (net f Hf) Hfin).
Qed.

Theorem complete_if_covered_e2e n :
  late s = false ->
  (forall i, 0 <= i < zlen (W s) -> exists f, In f (delivered evs) /\ f_off f <= i < f_end f) ->
  (exists f, In f (delivered evs) /\ f_fin f = true) ->
  zlen (W s) <= n ->
  let rs' := snd (rrun rcv0 (evs ++ [ERead n])) in
  all_read rs' = W s /\ saw_eof rs' = true /\ finishedWriting s = true.
Proof.
  intros HL Hcov Hfin Hn.
  pose proof (delivered_good HL) as HG.
  destruct (sender_frames_consistent sid0 rsa swin cwin ops HL) as (_ & _ & HF).
  assert (HF' : forall f, In f (delivered evs) -> f_fin f = true -> f_end f = zlen (W s)).
  { intros f Hf Hfin'. apply (HF f (net f Hf) Hfin'). }
  destruct (complete_if_covered (W s) evs n HG HF' Hcov Hfin Hn) as [A B].
  repeat split; auto. destruct Hfin as (f & Hf & Hff). apply (HF f (net f Hf) Hff).
Qed.
End E2E.
