(** C01 end to end, every layer concrete:
      SendStream.Model (send_stream.go)  --packets-->  arbitrary network  --arrivals-->
      PktProt.unprotect (C05) . RecvPH duplicate filter (C07)  --frames-->  RecvStream.Model (C03)
    and, for datagrams,
      DgModel (Add) . PackModel (composeNextPacket)  --packets--> ... --> DgModel (HandleDatagramFrame, Receive).
    Proof-level composition of tied pieces; the hypotheses that remain are about the world or about
    layers modelled by other units, and are spelled out in the Section below. *)
From Coq Require Import List ZArith Bool Lia Arith Permutation.
From V Require Import Gen.Params Lib.Hex SendStream.Model SendStream.ProofsBase SendStream.ProofsOut SendStream.Theorems
  RecvPH.Model RecvPH.ProofsHist RecvPH.ProofsDupTrace
  RecvStream.Spec StreamE2E.Concrete StreamE2E.NetPkt
  StreamE2E.DgModel StreamE2E.DgProofs StreamE2E.PackModel StreamE2E.PackProofs.
Import ListNotations.
Open Scope Z_scope.

(** ** counting lemmas *)
Definition pl_dec : forall a b : list Z, {a = b} + {a <> b} := list_eq_dec Z.eq_dec.
Definition cnt (d : list Z) (l : list (list Z)) : nat := count_occ pl_dec l d.

Lemma cnt_app d a b : cnt d (a ++ b) = (cnt d a + cnt d b)%nat.
Proof. unfold cnt. apply count_occ_app. Qed.

Lemma subseq_cnt d (a b : list (list Z)) : subseq a b -> (cnt d a <= cnt d b)%nat.
Proof.
  induction 1 as [l|x l1 l2 H IH|x l1 l2 H IH]; unfold cnt in *; cbn [count_occ].
  - lia.
  - destruct (pl_dec x d); lia.
  - destruct (pl_dec x d); lia.
Qed.

(* a duplicate-free selection of packets carries, per payload, at most the occurrences of the whole list *)
Lemma sub_multiset_cnt {A} (g : A -> list (list Z)) d : forall l1 l2,
  NoDup l1 -> incl l1 l2 -> (cnt d (flat_map g l1) <= cnt d (flat_map g l2))%nat.
Proof.
  induction l1 as [|x l1 IH]; intros l2 Hn Hi; cbn [flat_map]; [unfold cnt; cbn; lia|].
  inversion Hn; subst.
  destruct (in_split x l2 (Hi x (or_introl eq_refl))) as (a & b & ->).
  assert (Hi' : incl l1 (a ++ b)).
  { intros y Hy. specialize (Hi y (or_intror Hy)). apply in_app_or in Hi. apply in_or_app.
    destruct Hi as [Hi|[Hi|Hi]]; auto. subst y. contradiction. }
  specialize (IH (a ++ b) H2 Hi'). rewrite !flat_map_app in *. cbn [flat_map]. rewrite !cnt_app in *. lia.
Qed.

(** the receiver's datagram queue never pops, so it never panics and [gHandled] is the list of the
    HandleDatagramFrame arguments *)
Definition handled_of (ops : list dop) : list (list Z) := flat_map (fun o => match o with DHandle p => [p] | _ => [] end) ops.

Lemma drun_handled ops : forall q,
  dpanic q = false -> ~ In DPop ops ->
  dpanic (fst (drun q ops)) = false /\ gHandled (fst (drun q ops)) = gHandled q ++ handled_of ops.
Proof.
  induction ops as [|o ops IH]; intros q Hp Hn; cbn [drun].
  - cbn. rewrite app_nil_r. auto.
  - assert (H1 : dpanic (fst (dstep q o)) = false /\ gHandled (fst (dstep q o)) = gHandled q ++ match o with DHandle p => [p] | _ => [] end).
    { unfold dstep. rewrite Hp.
      assert (Hfin : forall q', dpanic q' = false -> gHandled q' = gHandled q ->
                dpanic q' = false /\ gHandled q' = gHandled q ++ []).
      { intros q' A B. rewrite B, app_nil_r. auto. }
      destruct o; cbn [fst].
      - destruct (parked q); [(apply Hfin; cbn; auto)|].
        unfold add_loop. destruct (closedQ q); [(apply Hfin; cbn; auto)|].
        destruct (_ <? _); (apply Hfin; cbn; auto).
      - destruct (parked q); [|(apply Hfin; cbn; auto)].
        destruct (closedQ q); [(apply Hfin; cbn; auto)|].
        destruct (sentTok q); [|(apply Hfin; cbn; auto)].
        unfold add_loop; cbn; repeat match goal with |- context [if ?c then _ else _] => destruct c end; (apply Hfin; cbn; auto).
      - (apply Hfin; cbn; auto).
      - exfalso. apply Hn. left. reflexivity.
      - destruct (_ <? _); cbn; split; auto.
      - destruct (rcvQ q); (apply Hfin; cbn; auto).
      - (apply Hfin; cbn; auto). }
    destruct (dstep q o) as [q1 x]. cbn [fst] in *. destruct H1 as [P1 G1].
    specialize (IH q1 P1 ltac:(intros H; apply Hn; right; exact H)).
    destruct (drun q1 ops) as [q2 xs]. cbn [fst] in *. destruct IH as [P2 G2].
    split; [exact P2|]. rewrite G2, G1, <- app_assoc. reflexivity.
Qed.

Section EndToEnd.
(** *** the world *)
Variable aead_seal : Z -> Z -> list Z -> list Z -> list Z.
Variable aead_open : Z -> Z -> list Z -> list Z -> option (list Z).
Variable hp_mask : list Z -> list Z.
Variable sealed : Z -> Z -> list Z -> list Z -> Prop.
(* ideal integrity of the AEAD (hypothesis of C05_tamper_rejected) *)
Hypothesis ideal : forall pn kp ad c p, aead_open pn kp ad c = Some p -> sealed pn kp ad p /\ c = aead_seal pn kp ad p.

(** *** the sender's packets *)
Variable sent : list (Z * Z * list Z).          (* packet number, key phase, plaintext *)
(* only the sender seals, and only its packets *)
Hypothesis honest : forall pn kp hdr p, sealed pn kp hdr p -> In (pn, kp, p) sent.

(* the receiver's frame parser on a plaintext: the STREAM frames of the stream under consideration and the
   DATAGRAM payloads it yields (wire codecs: C08) *)
Variable frames_in : list Z -> list frame.
Variable dgs_in : list Z -> list (list Z).

(** *** the receiving connection *)
Variable nevs : list (nev).
Let ns := nrun aead_open hp_mask nst0 nevs.
Definition procs_payloads := map snd (n_procs ns).

(** frames reaching the stream layer / datagrams reaching HandleDatagramFrame, in processing order *)
Definition stream_frames_handled : list frame := flat_map frames_in procs_payloads.
Definition datagrams_handled : list (list Z) := flat_map dgs_in procs_payloads.

Lemma procs_sub : NoDup (n_procs ns) /\ incl (n_procs ns) sent.
Proof.
  destruct (processed_from_sent aead_open hp_mask aead_seal sealed ideal sent honest nevs) as [A B].
  fold ns in A, B. split; [apply B|exact A].
Qed.

(* the inclusion half needs no hypothesis on the packet-number history *)
Lemma procs_incl : incl (n_procs ns) sent.
Proof.
  destruct (processed_from_sent aead_open hp_mask aead_seal sealed ideal sent honest nevs) as [A _]. exact A.
Qed.

(** ** streams (no hypothesis on the received-packet history: a packet processed twice only delivers its
    frames twice, which the stream layer absorbs) *)
Section Streams.
Variables (sid0 : Z) (rsa : bool) (swin cwin : Z) (ops : list V.SendStream.Model.op) (w : Z) (evs : list cev).
Let s := fst (V.SendStream.Model.run (V.SendStream.Model.init sid0 rsa swin cwin) ops).
Let E := frames_of (snd (V.SendStream.Model.run (V.SendStream.Model.init sid0 rsa swin cwin) ops)).
(* the packer only packs frames popStreamFrame returned, and the codec round-trips (C08) *)
Hypothesis packed : forall x f, In x sent -> In f (frames_in (snd x)) -> In f E.
(* the receiver's stream sees exactly the frames of the processed packets (reads interleaved at will) *)
Hypothesis delivered_is_handled : cdelivered evs = stream_frames_handled.
Hypothesis window : 0 <= w < V.FrameSorter.Model.MaxBC.
Hypothesis reads_nonneg : forall n, In (CRead n) evs -> 0 <= n.

Lemma net_derived : forall f, In f (cdelivered evs) -> In f E.
Proof.
  intros f Hf. rewrite delivered_is_handled in Hf. unfold stream_frames_handled, procs_payloads in Hf.
  apply in_flat_map in Hf. destruct Hf as (p & Hp & Hfp). apply in_map_iff in Hp. destruct Hp as (x & <- & Hx).
  eapply packed; [apply procs_incl; exact Hx|exact Hfp].
Qed.

Theorem e2e_prefix r :
  crun (rrun_init w) evs = Some r ->
  (exists rest, W s = rr_out r ++ rest) /\ (rr_eof r = true -> rr_out r = W s /\ finishedWriting s = true).
Proof. apply (concrete_prefix sid0 rsa swin cwin ops w evs net_derived window reads_nonneg). Qed.

Theorem e2e_complete n r0 :
  0 < n -> crun (rrun_init w) evs = Some r0 ->
  (forall i, 0 <= i < zlen (W s) -> in_range (cdelivered evs) i) ->
  existsb f_fin (cdelivered evs) = true ->
  exists r, crun r0 (repeat (CRead n) (Datatypes.S (Z.to_nat (zlen (W s))))) = Some r /\
            rr_out r = W s /\ rr_eof r = true /\ finishedWriting s = true.
Proof. intros Hn. apply (concrete_complete sid0 rsa swin cwin ops w evs n net_derived window reads_nonneg Hn). Qed.
End Streams.

(** ** datagrams *)
Section Datagrams.
Variable pops : list pop_.                       (* sender: SendDatagram / composeNextPacket / lost / acked *)
Hypothesis pops_wf : Forall wf_op pops.
Let ps := fst (prun pk0 pops).
Let pkts := sent_of (combine pops (snd (prun pk0 pops))).
(* the DATAGRAM frames the packer put into its packets are what the receiver's parser finds in the sealed
   plaintexts (sealing + codec round trip, C08), packet by packet *)
Hypothesis wire_dgs : flat_map dgs_in (map snd sent) = dgs_of pkts.

Variable rops : list dop.                        (* receiver: HandleDatagramFrame / Receive / Close *)
Hypothesis rops_nopop : ~ In DPop rops.
(* HandleDatagramFrame is called for the DATAGRAM frames of the processed packets, in order *)
Hypothesis handled_is_processed : handled_of rops = datagrams_handled.

Definition received : list (list Z) := recv_of (combine rops (snd (drun dq0 rops))).

(** Every payload is returned by ReceiveDatagram at most as often as SendDatagram accepted it: delivered
    application datagrams are unmodified (they ARE sent payloads) and delivered at most once. *)
Theorem e2e_datagram_at_most_once : forall d,
  (cnt d received <= cnt d (gAdded (p_dq ps)))%nat.
Proof.
  intros d.
  destruct (datagram_at_most_once rops) as (R1 & _). cbn zeta in R1. fold received in R1.
  destruct (drun_handled rops dq0 eq_refl rops_nopop) as (_ & G). cbn [gHandled dq0 List.app] in G.
  rewrite G, handled_is_processed in R1.
  destruct (datagram_never_retransmitted pops pops_wf) as (_ & _ & S1 & S2). cbn zeta in S1, S2. fold ps in S1, S2. fold pkts in S1.
  destruct procs_sub as [Hn Hi].
  assert (H2 : (cnt d datagrams_handled <= cnt d (flat_map dgs_in (map snd sent)))%nat).
  { unfold datagrams_handled, procs_payloads. rewrite !flat_map_concat_map, !map_map, <- !flat_map_concat_map.
    apply sub_multiset_cnt; auto. }
  pose proof (subseq_cnt d _ _ R1). pose proof (subseq_cnt d _ _ S1).
  rewrite wire_dgs in H2. rewrite S2, cnt_app. lia.
Qed.
End Datagrams.
End EndToEnd.

(* the datagram theorem does not depend on the stream-frame parser *)
Definition e2e_datagram_at_most_once' aead_seal aead_open hp_mask sealed ideal sent honest :=
  e2e_datagram_at_most_once aead_seal aead_open hp_mask sealed ideal sent honest (fun _ => []).
