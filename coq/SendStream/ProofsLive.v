(** Liveness of the sender model (claim (e), as far as a model carries it): from every reachable state
    of a closed, not reset stream, once the peer grants enough credit, a bounded number of
    popStreamFrame calls with a full-size budget hands out everything that is still owed — the
    retransmission queue empties, nothing stays buffered, the FIN is sent.  Together with coverage
    (every byte below writeOffset is acked, in flight or queued) and exactly-once completion this is
    "after finitely many losses every byte is (re)sent; when the frames then in flight are
    acknowledged the stream completes". What drives the pops and the loss declarations in the code
    (run loop, PTO timers, congestion window) is outside this model: partial for claim (e). *)
From Coq Require Import List ZArith Bool Lia.
From V Require Import Gen.Params Lib.Hex Wire.Varint SendStream.Model SendStream.ProofsBase SendStream.ProofsInv
  SendStream.ProofsCov SendStream.ProofsCnt.
Import ListNotations.
Open Scope Z_scope.

Fixpoint qbytes (q : list frame) : Z := match q with [] => 0 | f :: r => zlen (f_data f) + qbytes r end.
Definition pend (s : state) : Z := nfLen s + zlen (dataForWriting s).
Definition mu (s : state) : Z :=
  qbytes (retransQ s) + zlen (retransQ s) + pend s + (if isSome (nextFrame s) then 1 else 0) +
  (if finSent s then 0 else 1).

Lemma qbytes_nonneg q : 0 <= qbytes q.
Proof. induction q as [|f q IH]; cbn [qbytes]; [lia|]. pose proof (zlen_nonneg (f_data f)). lia. Qed.
Lemma mu_nonneg s : 0 <= mu s.
Proof.
  unfold mu, pend. pose proof (qbytes_nonneg (retransQ s)). pose proof (zlen_nonneg (retransQ s)).
  pose proof (nfLen_nonneg s). pose proof (zlen_nonneg (dataForWriting s)).
  destruct (isSome _); destruct (finSent s); lia.
Qed.

Record DrainInv (s : state) : Prop := {
  d_inv : Inv s;
  d_reset : resetErr s = None;
  d_sh : shutdown s = false;
  d_pan : panicked s = false;
  d_closed : finishedWriting s = true;
  d_fw : fcSent s + pend s < fcWindow s;
  d_cw : ccSent s + pend s < ccWindow s
}.

(* a full-size budget always leaves room for data *)
Lemma vlen_le8 v : 0 <= vlen v <= 8.
Proof. unfold vlen. repeat match goal with |- context [if ?c then _ else _] => destruct c end; lia. Qed.

Lemma full_budget_fits sid0 off : 0 < max_data_len sid0 off ssMaxPacketBufferSize.
Proof.
  pose proof (vlen_le8 sid0). pose proof (vlen_le8 off).
  pose proof (max_data_len_spec sid0 off ssMaxPacketBufferSize) as [_ B]. cbn zeta in B.
  assert (Hh : 2 <= 1 + vlen sid0 + offLen off + 1 <= 18) by (unfold offLen; destruct (off =? 0); lia).
  set (h := 1 + vlen sid0 + offLen off + 1) in *. clearbody h. unfold ssMaxPacketBufferSize in *.
  destruct (B ltac:(lia)) as [R1 R2]. destruct (R2 ltac:(unfold maxVarInt8; lia)) as [_ R3].
  set (r := max_data_len sid0 off 1452) in *. clearbody r.
  destruct (Z.lt_ge_cases 0 r) as [|Le]; [assumption|exfalso].
  specialize (R3 (1452 - h - 1) ltac:(lia)).
  assert (vlen (1452 - h - 1) = 2).
  { unfold vlen, maxVarInt1, maxVarInt2. destruct (Z.leb_spec (1452 - h - 1) 63); [lia|].
    destruct (Z.leb_spec (1452 - h - 1) 16383); lia. }
  lia.
Qed.

Lemma mdl_le_budget sid0 off mb : max_data_len sid0 off mb <= Z.max 0 mb.
Proof. apply max_data_len_le. Qed.

(* the flow-control counters through popNewStreamFrame and the tail of popStreamFrame *)
Lemma popNew_fc mb mdl s : let s1 := fst (fst (popNewStreamFrame mb mdl s)) in
  fcSent s1 = fcSent s /\ fcWindow s1 = fcWindow s /\ ccSent s1 = ccSent s /\ ccWindow s1 = ccWindow s.
Proof.
  unfold popNewStreamFrame. destruct (nextFrame s) as [[o d]|].
  - destruct (Z.min mdl (max_data_len (sid s) o mb) =? 0); [repeat split|].
    destruct (zlen d >? Z.min mdl (max_data_len (sid s) o mb)); repeat split.
  - destruct (max_data_len (sid s) (writeOffset s) mb =? 0); [repeat split|].
    destruct (_ >? ssMaxPacketBufferSize); [repeat split|].
    unfold getDataForWriting. destruct (_ <=? _).
    + cbn -[isNil]. destruct (isNil _); repeat split.
    + destruct (canBuffer _); cbn -[isNil]; destruct (isNil _); repeat split.
Qed.

Lemma finish_new_fc a b c s1 f0 : let s' := fst (finish_new a b c s1 f0) in
  fcSent s' = fcSent s1 + zlen (f_data f0) /\ fcWindow s' = fcWindow s1 /\
  ccSent s' = ccSent s1 + zlen (f_data f0) /\ ccWindow s' = ccWindow s1.
Proof.
  cbn zeta. unfold finish_new. pose proof (zlen_nonneg (f_data f0)) as Hn.
  set (s2 := if 0 <? zlen (f_data f0) then _ else s1).
  assert (E2 : fcSent s2 = fcSent s1 + zlen (f_data f0) /\ fcWindow s2 = fcWindow s1 /\
               ccSent s2 = ccSent s1 + zlen (f_data f0) /\ ccWindow s2 = ccWindow s1).
  { subst s2. destruct (Z.ltb_spec 0 (zlen (f_data f0))); unfold addBytesSent; ssimp; repeat split; lia. }
  clearbody s2. destruct E2 as (A & B & C & D).
  destruct (_ =? a).
  - unfold isNewlyBlocked. destruct (_ || _); cbn [fst snd].
    + destruct (_ && _); unfold emit; cbn [fst]; ssimp; auto.
    + ssimp. destruct (_ && _); unfold emit; cbn [fst]; ssimp; auto.
  - destruct (_ && _); unfold emit; cbn [fst]; ssimp; auto.
Qed.

Definition nfbit (s : state) : Z := if isSome (nextFrame s) then 1 else 0.

(* with credit and a full-size budget popNewStreamFrame hands out bytes whenever some are pending *)
Lemma popNew_progress mdl s :
  0 < mdl -> nfLen s <= ssMaxPacketBufferSize ->
  (isNil (dataForWriting s) && negb (isSome (nextFrame s))) = false ->
  exists s1 f0 more, popNewStreamFrame ssMaxPacketBufferSize mdl s = (s1, Some f0, more) /\
    panicked s1 = panicked s /\ zlen (f_data f0) <= mdl /\
    pend s1 + zlen (f_data f0) = pend s /\ pend s1 + nfbit s1 < pend s + nfbit s.
Proof.
  intros Hm Hl Hg. unfold popNewStreamFrame, pend, nfbit, nfLen in *.
  destruct (nextFrame s) as [[o d]|] eqn:Enf.
  - pose proof (full_budget_fits (sid s) o) as Hb.
    set (m := Z.min mdl (max_data_len (sid s) o ssMaxPacketBufferSize)) in *.
    assert (Hmm : 0 < m <= mdl) by (subst m; lia).
    destruct (Z.eqb_spec m 0); [lia|].
    pose proof (zlen_nonneg d).
    destruct (Z.gtb_spec (zlen d) m).
    + do 3 eexists. split; [reflexivity|]. ssimp. rewrite zlen_zfirstn, zlen_zskipn by lia. cbn [isSome]. repeat split; lia.
    + do 3 eexists. split; [reflexivity|]. ssimp. cbn [isSome]. repeat split; lia.
  - pose proof (full_budget_fits (sid s) (writeOffset s)) as Hb.
    pose proof (mdl_le_budget (sid s) (writeOffset s) ssMaxPacketBufferSize) as Hb2.
    destruct (Z.eqb_spec (max_data_len (sid s) (writeOffset s) ssMaxPacketBufferSize) 0); [lia|].
    set (nn := Z.min (max_data_len (sid s) (writeOffset s) ssMaxPacketBufferSize) mdl) in *.
    assert (Hn : 0 < nn <= mdl /\ nn <= ssMaxPacketBufferSize) by (subst nn; unfold ssMaxPacketBufferSize in *; lia).
    destruct (Z.gtb_spec (Z.min (zlen (dataForWriting s)) nn) ssMaxPacketBufferSize);
      [unfold ssMaxPacketBufferSize in *; lia|].
    destruct (dataForWriting s) as [|b r] eqn:Ed; [discriminate|].
    assert (Hz : 0 < zlen (b :: r)) by (unfold zlen; cbn [length]; lia).
    unfold getDataForWriting. rewrite Ed.
    destruct (Z.leb_spec (zlen (b :: r)) nn).
    + do 3 eexists. split; [reflexivity|]. ssimp. rewrite Enf. cbn [isSome]. unfold zlen in *. cbn [length] in *. repeat split; lia.
    + assert (Hf : zlen (zfirstn nn (b :: r)) = nn) by (apply zlen_zfirstn; lia).
      destruct (zfirstn nn (b :: r)) as [|b' r'] eqn:Ef; [unfold zlen in Hf; cbn in Hf; lia|].
      cbn [isNil].
      assert (Hs : zlen (zskipn nn (b :: r)) = zlen (b :: r) - nn) by (apply zlen_zskipn; lia).
      destruct (canBuffer _); do 3 eexists; (split; [reflexivity|]); ssimp; rewrite Enf; cbn [isSome]; repeat split; lia.
Qed.

Lemma finish_new_frame a b c s1 f0 : o_frame (snd (finish_new a b c s1 f0)) <> None.
Proof.
  unfold finish_new. destruct (_ =? a); [destruct (isNewlyBlocked _)|]; cbn; discriminate.
Qed.

Lemma pend_emit b f s : pend (emit b f s) = pend s.
Proof. unfold pend, nfLen, emit. destruct b; ssimp; reflexivity. Qed.

(** one popStreamFrame with a full-size budget makes progress while anything is owed *)
Lemma pop_progress s : DrainInv s -> 0 < mu s ->
  let r := do_pop ssMaxPacketBufferSize s in
  DrainInv (fst r) /\ mu (fst r) < mu s /\ o_frame (snd r) <> None /\ W (fst r) = W s.
Proof.
  intros HD Hmu r. assert (HI' : Inv (fst r)) by (apply do_pop_Inv, HD).
  revert HI'. subst r. destruct HD as [HI Hr Hs Hp Hc Hf Hw].
  unfold do_pop. rewrite Hs, Hr. cbn [isSome andb].
  destruct (retransQ s) as [|f q] eqn:EQ.
  - destruct (isNil (dataForWriting s) && negb (isSome (nextFrame s))) eqn:EG.
    + apply andb_true_iff in EG. destruct EG as [E1 E2].
      destruct (dataForWriting s) eqn:Ed; [|discriminate]. destruct (nextFrame s) eqn:En; [discriminate|].
      rewrite Hc. destruct (finSent s) eqn:EF.
      * exfalso. unfold mu, pend, nfLen in Hmu. rewrite EQ, Ed, En, EF in Hmu. cbn in Hmu. lia.
      * cbn [andb negb fst snd o_frame]. intros HI'. split; [|split; [|split; [discriminate|unfold emit; ssimp; reflexivity]]].
        -- constructor; auto; rewrite ?pend_emit; unfold emit, pend, nfLen; ssimp; auto.
        -- unfold mu. rewrite pend_emit. unfold emit, pend, nfLen. ssimp. rewrite EQ, EF. lia.
    + set (win := sendWindowSize s).
      assert (Hwin : pend s < win).
      { subst win. unfold sendWindowSize, fcSendWindow, ccSendWindow.
        pose proof (nfLen_nonneg s). pose proof (zlen_nonneg (dataForWriting s)). unfold pend in *.
        destruct (Z.gtb_spec (fcSent s) (fcWindow s)); destruct (Z.gtb_spec (ccSent s) (ccWindow s)); lia. }
      assert (Hpp : 0 <= pend s) by (unfold pend; pose proof (nfLen_nonneg s); pose proof (zlen_nonneg (dataForWriting s)); lia).
      destruct (Z.eqb_spec win 0); [lia|].
      destruct (popNew_progress win s ltac:(lia) (i_nflen _ HI) EG) as (s1 & f0 & more & EP & P1 & P2 & P3 & P4).
      pose proof (popNew_same_rest ssMaxPacketBufferSize win s) as SR.
      pose proof (popNew_fc ssMaxPacketBufferSize win s) as FC. rewrite EP in SR, FC |- *. cbn [fst] in SR, FC.
      destruct SR as (A1 & A2 & A3 & A4 & A5 & A6 & A7 & A8 & A9 & A10 & A11 & A12 & A13 & A14 & _).
      destruct FC as (C1 & C2 & C3 & C4).
      pose proof (finish_new_fc win (ro s) more s1 f0) as FF. cbn zeta in FF. destruct FF as (F1 & F2 & F3 & F4).
      pose proof (finish_new_fields win (ro s) more s1 f0) as FN. cbn zeta in FN.
      destruct FN as (fin & _ & G2 & G3 & G4 & G5 & _ & _ & _ & G9 & G10 & _ & _ & _ & _ & _ & G16 & G17 & _ & _ & _ & _ & G22).
      set (s' := fst (finish_new win (ro s) more s1 f0)) in *.
      assert (Ep : pend s' = pend s1) by (unfold pend, nfLen; rewrite G2, G3; reflexivity).
      assert (Eb : nfbit s' = nfbit s1) by (unfold nfbit; rewrite G2; reflexivity).
      intros HI'. split; [|split; [|split; [apply finish_new_frame|congruence]]].
      * constructor; auto; try congruence; lia.
      * unfold mu. fold (nfbit s') (nfbit s). rewrite G5, A3, Ep, Eb, G17, A14.
        destruct (finSent s); destruct fin; cbn [orb]; lia.
  - pose proof (i_q _ HI) as HQ. rewrite EQ in HQ. inversion HQ as [|? ? [Hg Hl] Hq']; subst.
    pose proof (zlen_nonneg (f_data f)) as Hn.
    destruct (maybe_split (sid s) f ssMaxPacketBufferSize) as [[[new rest]|]|] eqn:EM.
    + assert (Hl2 : zlen (f_data f) <= 16383) by (unfold ssMaxPacketBufferSize in *; lia).
      destruct (maybe_split_spec _ _ _ _ _ Hl2 EM) as (n & Hn' & -> & ->).
      cbn [fst snd o_frame]. intros HI'. split; [|split; [|split; [discriminate|unfold emit; ssimp; reflexivity]]].
      * constructor; auto; rewrite ?pend_emit; unfold emit, pend, nfLen; ssimp; auto.
      * unfold mu. rewrite pend_emit. unfold emit, pend, nfLen, zlen. ssimp. rewrite EQ. cbn [qbytes length f_data].
        pose proof (zlen_zskipn n (f_data f) ltac:(lia)) as Z1. unfold zlen in *. lia.
    + exfalso. unfold maybe_split in EM. destruct (_ >=? _); [discriminate|].
      pose proof (full_budget_fits (sid s) (f_off f)).
      destruct (Z.eqb_spec (max_data_len (sid s) (f_off f) ssMaxPacketBufferSize) 0); [lia|discriminate].
    + cbn [fst snd o_frame]. intros HI'. split; [|split; [|split; [discriminate|unfold emit; ssimp; reflexivity]]].
      * constructor; auto; rewrite ?pend_emit; unfold emit, pend, nfLen; ssimp; auto.
      * unfold mu. rewrite pend_emit. unfold emit, pend, nfLen, zlen. ssimp. rewrite EQ. cbn [qbytes length].
        unfold zlen in *. lia.
Qed.

Lemma mu0_fields s : mu s = 0 ->
  retransQ s = [] /\ nextFrame s = None /\ dataForWriting s = [] /\ finSent s = true.
Proof.
  unfold mu, pend. pose proof (qbytes_nonneg (retransQ s)). pose proof (zlen_nonneg (retransQ s)).
  pose proof (nfLen_nonneg s). pose proof (zlen_nonneg (dataForWriting s)).
  destruct (nextFrame s) eqn:En; cbn [isSome]; destruct (finSent s); try lia. intros E.
  repeat split.
  - destruct (retransQ s); auto. unfold zlen in *. cbn [length] in *. lia.
  - destruct (dataForWriting s); auto. unfold zlen in *. cbn [length] in *. lia.
Qed.

Lemma mu0_stable s : DrainInv s -> mu s = 0 -> fst (do_pop ssMaxPacketBufferSize s) = s.
Proof.
  intros HD E. destruct (mu0_fields _ E) as (A & B & C & D).
  unfold do_pop. rewrite (d_sh _ HD), (d_reset _ HD), A, B, C, D. cbn. rewrite andb_false_r. reflexivity.
Qed.

(** the pending work [mu] bounds the number of full-size pops that drain the stream *)
Theorem drain k : forall s, DrainInv s -> mu s <= Z.of_nat k ->
  let s' := run_state s (repeat (OPop ssMaxPacketBufferSize) k) in
  DrainInv s' /\ mu s' = 0 /\ W s' = W s.
Proof.
  induction k as [|k IH]; intros s HD Hk.
  - cbn [repeat run_state fold_left Z.of_nat] in *. pose proof (mu_nonneg s). split; [auto|split; [lia|reflexivity]].
  - rewrite Nat2Z.inj_succ in Hk. cbn [repeat]. unfold run_state. cbn [fold_left]. fold (run_state (fst (step s (OPop ssMaxPacketBufferSize))) (repeat (OPop ssMaxPacketBufferSize) k)).
    unfold step. rewrite (d_pan _ HD).
    pose proof (mu_nonneg s).
    destruct (Z.eq_dec (mu s) 0) as [E|E].
    + rewrite (mu0_stable _ HD E). apply IH; auto. lia.
    + destruct (pop_progress s HD ltac:(lia)) as (A & B & _ & D).
      destruct (IH _ A ltac:(lia)) as (A' & B' & D'). split; [auto|split; [auto|congruence]].
Qed.

(** ** once everything was handed out: acknowledging what is in flight *)
Record Settled (s : state) : Prop := {
  t_reset : resetErr s = None; t_sh : shutdown s = false; t_pan : panicked s = false;
  t_q : retransQ s = []; t_nf : nextFrame s = None; t_dfw : dataForWriting s = []; t_fin : finSent s = true;
  t_cnt : numOut s = zlen (outstanding s)
}.

Lemma ack_step s f l : Settled s -> outstanding s = f :: l ->
  let s' := fst (step s (OAcked 0)) in Settled s' /\ outstanding s' = l /\ W s' = W s.
Proof.
  intros [A1 A2 A3 A4 A5 A6 A7 A8] E. unfold step. rewrite A3. unfold do_acked. rewrite E. cbn [nth_error remove_nth].
  ssimp. rewrite A1. cbn [isSome andb]. unfold dec_outstanding_then_complete. ssimp.
  rewrite A8, E. pose proof (zlen_nonneg l) as Hl.
  replace (zlen (f :: l) - 1) with (zlen l) by (unfold zlen; cbn [length]; lia).
  destruct (Z.ltb_spec (zlen l) 0); [lia|].
  match goal with |- context [newly_completed ?x] => set (X := x) end.
  assert (HX : let y := fst (newly_completed X) in
     resetErr y = resetErr X /\ shutdown y = shutdown X /\ panicked y = panicked X /\ retransQ y = retransQ X /\
     nextFrame y = nextFrame X /\ dataForWriting y = dataForWriting X /\ finSent y = finSent X /\
     numOut y = numOut X /\ outstanding y = outstanding X /\ W y = W X).
  { cbn zeta. unfold newly_completed.
    repeat match goal with |- context [if ?c then _ else _] => destruct c eqn:? end; ssimp; repeat split; auto. }
  cbn zeta in HX. destruct (newly_completed X) as [y c]. cbn [fst] in *.
  destruct HX as (B1 & B2 & B3 & B4 & B5 & B6 & B7 & B8 & B9 & B10). subst X. ssimp.
  split; [constructor|split]; congruence.
Qed.

Theorem ack_all l : forall s, Settled s -> outstanding s = l ->
  let s' := run_state s (repeat (OAcked 0) (length l)) in
  Settled s' /\ outstanding s' = [] /\ W s' = W s.
Proof.
  induction l as [|f l IH]; intros s HS E; [cbn; auto|].
  cbn [length repeat]. unfold run_state. cbn [fold_left].
  fold (run_state (fst (step s (OAcked 0))) (repeat (OAcked 0) (length l))).
  destruct (ack_step s f l HS E) as (A & B & C). destruct (IH _ A B) as (A' & B' & C').
  split; [auto|split; [auto|congruence]].
Qed.
