(** Invariants that hold on the REPAIRED code (fixes/C01-fin-on-truncated-frame.patch,
    fixes/C01-write-buffered-after-reset.patch), for every history, reset or not:
      - a frame with FIN (queued, in flight or ever emitted) ends exactly at the final size;
      - a stream that was reset without a reliable size holds no buffered frame
        (so nothing but outstanding control/STREAM frames can delay its completion). *)
From Coq Require Import List ZArith Bool Lia.
From V Require Import Gen.Params Lib.Hex Wire.Varint SendStream.Model SendStream.ProofsBase SendStream.ProofsInv
  SendStream.ProofsCov.
Import ListNotations.
Open Scope Z_scope.

Definition ffin (s : state) (f : frame) : Prop :=
  f_fin f = true -> finishedWriting s = true /\ f_end f = zlen (W s).

Record InvF (s : state) : Prop := {
  k_fin : forall f, In f (retransQ s ++ outstanding s ++ emitted s) -> ffin s f;
  k_nf : resetErr s <> None -> ro s = 0 -> nextFrame s = None
}.

Lemma init_InvF sid0 rsa swin cwin : InvF (init sid0 rsa swin cwin).
Proof. constructor; unfold init; ssimp; cbn [app]. - intros f []. - congruence. Qed.

Definition core3 (s : state) :=
  (retransQ s, outstanding s, emitted s, finishedWriting s, W s, resetErr s, supportsRSA s, reliableSize s, nextFrame s).
Lemma InvF_core s s' : core3 s = core3 s' -> InvF s -> InvF s'.
Proof.
  unfold core3. intros E [H1 H2]. inversion E as [[E1 E2 E3 E4 E5 E6 E7 E8 E9]].
  constructor; unfold ffin, ro in *; rewrite <- ?E1, <- ?E2, <- ?E3, <- ?E4, <- ?E5, <- ?E6, <- ?E7, <- ?E8, <- ?E9; assumption.
Qed.
Lemma nc_core3 s : core3 (fst (newly_completed s)) = core3 s.
Proof.
  unfold newly_completed.
  repeat match goal with |- context [if ?c then _ else _] => destruct c end; reflexivity.
Qed.
Lemma dec_core3 s : core3 (fst (dec_outstanding_then_complete s)) = core3 s.
Proof.
  unfold dec_outstanding_then_complete. destruct (_ <? 0); [reflexivity|].
  pose proof (nc_core3 (set_numOut (numOut s - 1) s)) as E. destruct (newly_completed _). cbn [fst] in *. rewrite E. reflexivity.
Qed.
Ltac nc3 :=
  match goal with
  | |- context [newly_completed ?x] =>
    let s1 := fresh "s" in let c := fresh "c" in let E := fresh "Enc3" in
    pose proof (nc_core3 x) as E; destruct (newly_completed x) as [s1 c]; cbn [fst] in E
  end.

Lemma write_iter_InvF b s : InvF s -> InvF (fst (write_iter b s)).
Proof.
  intros HF. unfold write_iter.
  destruct (negb (isSome (resetErr s)) && negb (shutdown s) && canBuffer s && (0 <? zlen (dataForWriting s))) eqn:EC.
  - apply andb_prop in EC. destruct EC as [EC _]. apply andb_prop in EC. destruct EC as [EC _].
    apply andb_prop in EC. destruct EC as [ER _].
    assert (ER' : resetErr s = None) by (destruct (resetErr s); [discriminate|reflexivity]).
    destruct HF as [H1 H2]. cbn [fst]. constructor; unfold ffin, ro in *; ssimp; auto. congruence.
  - destruct (_ || _); [|exact HF].
    destruct (_ =? _); [eapply InvF_core; [|exact HF]; reflexivity|].
    destruct (shutdown s); [eapply InvF_core; [|exact HF]; reflexivity|].
    destruct (resetErr s) as [[c r]|] eqn:E; [|eapply InvF_core; [|exact HF]; unfold core3; ssimp; reflexivity].
    nc3. cbn [fst]. eapply InvF_core; [|exact HF]. rewrite Enc3. reflexivity.
Qed.

Lemma do_write_InvF p s : InvF s -> InvF (fst (do_write p s)).
Proof.
  intros HF. unfold do_write. destruct (writing s); [exact HF|].
  destruct (resetErr s) as [[c r]|] eqn:ER.
  { nc3. cbn [fst]. eapply InvF_core; [|exact HF]. rewrite Enc3. unfold core3. ssimp. rewrite ER. reflexivity. }
  destruct (shutdown s); [exact HF|]. destruct (finishedWriting s) eqn:EF; [exact HF|]. destruct (isNil p); [exact HF|].
  apply write_iter_InvF. destruct HF as [H1 H2]. constructor; unfold ffin, ro in *; ssimp; auto.
  intros f Hin Hf. destruct (H1 f Hin Hf) as [A _]. congruence.
Qed.

Lemma do_resume_InvF s : InvF s -> InvF (fst (do_resume s)).
Proof.
  intros HF. unfold do_resume. destruct (_ && _); [|exact HF]. apply write_iter_InvF.
  eapply InvF_core; [|exact HF]. reflexivity.
Qed.

Lemma do_close_InvF s : InvF s -> InvF (fst (do_close s)).
Proof.
  intros HF. unfold do_close. destruct (_ || _); [exact HF|]. nc3.
  assert (H1 : InvF s0).
  { destruct HF as [J1 J2]. unfold core3 in Enc3. inversion Enc3 as [[E1 E2 E3 E4 E5 E6 E7 E8 E9]]. clear Enc3.
    constructor; unfold ffin, ro in *; rewrite ?E1, ?E2, ?E3, ?E4, ?E5, ?E6, ?E7, ?E8, ?E9;
      destruct (isSome (resetErr s)); ssimp; auto; intros f Hin Hf; (split; [reflexivity|]); eapply J1; eauto. }
  destruct (isSome (resetErr s)); exact H1.
Qed.

Lemma do_acked_InvF i s : InvF s -> InvF (fst (do_acked i s)).
Proof.
  intros HF. unfold do_acked. destruct (nth_error (outstanding s) i) as [f|] eqn:En; [|exact HF].
  set (s0 := set_acked _ _).
  assert (H0 : InvF s0).
  { destruct HF as [J1 J2]. constructor; unfold ffin, ro in *; subst s0; ssimp; auto.
    intros g Hin. apply J1. rewrite !in_app_iff in *. destruct Hin as [A|[A|A]]; auto.
    apply In_remove_nth in A. auto. }
  destruct (_ && _); [exact H0|]. eapply InvF_core; [|exact H0]. symmetry. apply dec_core3.
Qed.

Lemma do_lost_InvF i s : InvF s -> InvF (fst (do_lost i s)).
Proof.
  intros HF. unfold do_lost. destruct (nth_error (outstanding s) i) as [f|] eqn:En; [|exact HF].
  set (s0 := set_outstanding _ _).
  pose proof (nth_error_In _ _ En) as Hfin.
  assert (H0 : InvF s0).
  { destruct HF as [J1 J2]. constructor; unfold ffin, ro in *; subst s0; ssimp; auto.
    intros g Hin. apply J1. rewrite !in_app_iff in *. destruct Hin as [A|[A|A]]; auto.
    apply In_remove_nth in A. auto. }
  assert (Hf : ffin s f) by (apply (k_fin _ HF); rewrite !in_app_iff; auto).
  destruct (_ && _); [exact H0|]. destruct (_ <? 0); [eapply InvF_core; [|exact H0]; reflexivity|].
  destruct (isSome _ && (0 <? _) && (f_off f >=? _)).
  - nc3. cbn [fst]. eapply InvF_core; [|exact H0]. rewrite Enc3. reflexivity.
  - cbn [fst]. destruct H0 as [J1 J2]. constructor; unfold ffin, ro in *; subst s0; ssimp; auto.
    intros g Hin. rewrite !in_app_iff in Hin. cbn [In] in Hin.
    destruct Hin as [[A|[A|[]]]|[A|A]].
    + apply J1. ssimp. rewrite !in_app_iff. auto.
    + subst g. destruct (_ && _ && _); [cbn; discriminate|exact Hf].
    + apply J1. ssimp. rewrite !in_app_iff. auto.
    + apply J1. ssimp. rewrite !in_app_iff. auto.
Qed.

Lemma trunc_queue_ffin s r q g :
  (forall f, In f q -> ffin s f) -> In g (trunc_queue r q) -> ffin s g.
Proof.
  induction q as [|f q IH]; intros H Hin; cbn [trunc_queue flat_map] in Hin; [contradiction|].
  apply in_app_or in Hin. destruct Hin as [A|A].
  - destruct (f_off f >=? r); [contradiction|]. destruct (f_end f <=? r).
    + destruct A as [A|[]]. subst g. apply H. left. reflexivity.
    + destruct A as [A|[]]. subst g. intros X. discriminate X.
  - apply IH; auto. intros f' Hf'. apply H. right. exact Hf'.
Qed.

Lemma do_cancel_InvF c s : InvF s -> InvF (fst (do_cancel c s)).
Proof.
  intros HF. unfold do_cancel. destruct (shutdown s); [exact HF|]. ssimp.
  destruct (isSome (resetErr s)) eqn:ER.
  { nc3. cbn [fst]. eapply InvF_core; [|exact HF]. rewrite Enc3. reflexivity. }
  destruct HF as [J1 J2].
  set (r := ro (set_resetErr (Some (c, false)) (set_cancellationFlagged true s))).
  assert (Er : r = ro s) by reflexivity.
  destruct (Z.eqb_spec r 0) as [E0|E0].
  - assert (E1 : (0 <? r) = false) by (apply Z.ltb_ge; lia). rewrite E1. cbn [fst].
    constructor; unfold ffin, ro in *; ssimp; auto.
    intros f Hin. apply J1. rewrite in_app_iff. right. exact Hin.
  - destruct (0 <? r) eqn:E1; cbn [fst].
    + constructor; unfold ffin in *; ssimp.
      * intros g Hin. rewrite !in_app_iff in Hin. destruct Hin as [A|A].
        -- eapply (trunc_queue_ffin s); [|exact A]. intros f Hf. unfold ffin. apply J1. rewrite in_app_iff. auto.
        -- apply J1. rewrite !in_app_iff. auto.
      * intros _ X. exfalso. apply E0. exact X.
    + constructor; unfold ffin in *; ssimp; auto; try (intros _ X; exfalso; apply E0; exact X).
Qed.

Lemma do_stop_InvF c s : InvF s -> InvF (fst (do_stop c s)).
Proof.
  intros HF. unfold do_stop. destruct (shutdown s); [exact HF|]. destruct (_ && _); [exact HF|].
  destruct HF as [J1 J2]. cbn [fst]. ssimp.
  destruct (resetErr s) eqn:ER; constructor; unfold ffin, ro in *; ssimp; auto;
    intros f Hin; apply J1; rewrite in_app_iff; right; exact Hin.
Qed.

Lemma do_shutdown_InvF s : InvF s -> InvF (fst (do_shutdown s)).
Proof.
  intros HF. unfold do_shutdown. destruct (_ && _); [|eapply InvF_core; [|exact HF]; reflexivity].
  destruct HF as [J1 J2]. cbn [fst]. constructor; unfold ffin, ro in *; ssimp; auto.
  intros f Hin. apply J1. rewrite in_app_iff. right. exact Hin.
Qed.

Lemma do_rel_InvF s : InvF s -> InvF (fst (do_rel s)).
Proof.
  intros HF. unfold do_rel. destruct (isSome (resetErr s)) eqn:ER; [exact HF|].
  destruct HF as [J1 J2]. cbn [fst]. constructor; unfold ffin, ro in *; ssimp; auto.
  intros A. destruct (resetErr s); [discriminate|congruence].
Qed.

Lemma do_enable_InvF s : InvF s -> InvF (fst (do_enable s)).
Proof.
  intros HF. unfold do_enable. destruct HF as [J1 J2]. cbn [fst].
  constructor; unfold ffin, ro in *; ssimp; auto.
  intros A B. destruct (supportsRSA s); auto.
Qed.

Lemma simple_InvF s s' : core3 s = core3 s' -> InvF s -> InvF s'.
Proof. apply InvF_core. Qed.

(* the pure-FIN branch of popStreamFrame is only reached on a stream that was not reset *)
Lemma pure_fin_unreset s :
  Inv s -> shutdown s = false -> retransQ s = [] -> nextFrame s = None ->
  isSome (resetErr s) && ((ro s =? 0) || ((writeOffset s >=? ro s) && isNil (retransQ s))) = false ->
  resetErr s = None.
Proof.
  intros HI Hsh EQ Enf EG.
  destruct (pop_guard s HI EQ EG) as [A|(A & B & C)]; [exact A|]. exfalso.
  destruct (i_pend _ HI) as [P|[P|[P|P]]].
  - congruence.
  - destruct P as [P _]. congruence.
  - destruct P as [_ [P|P]]; lia.
  - destruct P as (_ & _ & _ & sent & rest & _ & _ & Hn). unfold nfData in Hn. rewrite Enf in Hn.
    change (zlen (@nil Z)) with 0 in Hn. lia.
Qed.

Ltac indis H := repeat match type of H with _ \/ _ => destruct H as [H|H] | False => destruct H end.

Lemma do_pop_InvF mb s : Inv s -> Inv (fst (do_pop mb s)) -> InvF s -> InvF (fst (do_pop mb s)).
Proof.
  intros HI HI' HF. pose proof (pure_fin_unreset s HI) as Hpf. pose proof (pop_guard s HI) as Hpg.
  unfold do_pop in *.
  destruct (shutdown s) eqn:Esh; [exact HF|].
  destruct (isSome (resetErr s) && ((ro s =? 0) || ((writeOffset s >=? ro s) && isNil (retransQ s)))) eqn:EG; [exact HF|].
  assert (Hnf0 : ~ (resetErr s <> None /\ ro s = 0)).
  { intros [A B]. destruct (resetErr s); [|congruence]. cbn [isSome andb] in EG. rewrite B in EG. cbn in EG. discriminate. }
  pose proof HF as HF0. destruct HF as [J1 J2].
  destruct (retransQ s) as [|f q] eqn:EQ.
  2:{ pose proof (i_q _ HI) as Hq. rewrite EQ in Hq. inversion Hq as [|? ? Hf Hq']; subst.
      assert (Hff : ffin s f) by (apply J1; left; reflexivity).
      destruct (maybe_split (sid s) f mb) as [[[new rest]|]|] eqn:ES; cbn [fst] in *.
      - assert (Hd : zlen (f_data f) <= 16383) by (destruct Hf; pose proof ss_bufsize_small; lia).
        destruct (split_preserves_range _ _ _ _ _ Hd ES) as (A1 & A2 & A3 & A4 & A5 & A6 & A7 & A8).
        constructor; unfold emit, ffin, ro in *; ssimp.
        + intros g Hin. rewrite !in_app_iff in Hin. cbn [In] in Hin.
          destruct Hin as [[A|A]|[[A|[A|[]]]|[A|[A|[]]]]]; try (subst g; congruence).
          * rewrite <- A. intros X. rewrite A6 in X. rewrite A3. auto.
          * apply J1. right. rewrite !in_app_iff. auto.
          * apply J1. right. rewrite !in_app_iff. auto.
          * apply J1. right. rewrite !in_app_iff. auto.
        + intros A B. exfalso. apply Hnf0. auto.
      - exact HF0.
      - constructor; unfold emit, ffin, ro in *; ssimp.
        + intros g Hin. rewrite !in_app_iff in Hin. cbn [In] in Hin.
          destruct Hin as [A|[[A|[A|[]]]|[A|[A|[]]]]]; try (subst g; exact Hff).
          * apply J1. right. rewrite !in_app_iff. auto.
          * apply J1. right. rewrite !in_app_iff. auto.
          * apply J1. right. rewrite !in_app_iff. auto.
        + intros A B. exfalso. apply Hnf0. auto. }
  destruct (isNil (dataForWriting s) && negb (isSome (nextFrame s))) eqn:EE.
  - destruct (finishedWriting s && negb (finSent s)) eqn:EF; [|exact HF0]. cbn [fst] in *.
    apply andb_prop in EE. destruct EE as [E1 E2]. apply isNil_true in E1.
    assert (Enf : nextFrame s = None) by (destruct (nextFrame s); [discriminate|reflexivity]).
    apply andb_prop in EF. destruct EF as [F1 F2].
    specialize (Hpf eq_refl eq_refl Enf eq_refl).
    constructor; unfold emit, ffin, ro in *; ssimp.
    + intros g Hin. rewrite !in_app_iff in Hin. cbn [In] in Hin.
      assert (Hnew : finishedWriting s = true /\ f_end (mkF (writeOffset s) [] true) = zlen (W s)).
      { split; auto. unfold f_end. cbn [f_off f_data]. change (zlen (@nil Z)) with 0.
        destruct (i_pend _ HI) as [P|[P|[P|P]]]; try congruence; try (destruct P as [P _]; congruence).
        destruct P as [_ (sent & EW & Ls)]. unfold nfData in EW. rewrite Enf, E1 in EW. rewrite EW, !zlen_app.
        change (zlen (@nil Z)) with 0. lia. }
      indis Hin; try (rewrite EQ in Hin; contradiction); try (subst g; intros _; exact Hnew); apply J1; rewrite !in_app_iff; auto.
    + intros A B. exfalso. apply Hnf0. auto.
  - destruct (Z.eqb_spec (sendWindowSize s) 0) as [Ew|Ew]; [exact HF0|].
    pose proof (sendWindowSize_nonneg s) as Hw.
    set (mdl := if isSome (resetErr s) && (0 <? ro s) then _ else sendWindowSize s) in *.
    assert (Hm1 : 0 < mdl).
    { subst mdl. destruct (Hpg eq_refl eq_refl) as [Hg|(A & B & C)].
      - rewrite Hg. cbn. lia.
      - destruct (resetErr s); [|congruence]. cbn [isSome andb].
        assert (E : (0 <? ro s) = true) by (apply Z.ltb_lt; lia). rewrite E. lia. }
    pose proof (popNew_spec mb mdl s (i_nfoff _ HI) (i_nflen _ HI) Hm1) as P.
    destruct (popNewStreamFrame mb mdl s) as [[s1 fo] more]. destruct P as [SR P].
    destruct SR as (A1 & A2 & A3 & A4 & A5 & A6 & A7 & A8 & A9 & A10 & A11 & A12 & A13 & A14 & A15 & A16 & A17 & A18 & A19).
    destruct fo as [f0|]; cbn [fst] in *.
    2:{ destruct P as [P1 P2]. constructor; unfold ffin, ro in *; rewrite ?A2, ?A3, ?A4, ?A5, ?A7, ?A9, ?A10, ?A13, ?P1; auto.
        rewrite EQ. exact J1. }
    destruct P as (Pp & Po & Pf & Pl & Pm & Pshape).
    pose proof (finish_new_fields mdl (ro s) more s1 f0) as F. cbn zeta in F.
    destruct F as (fin & F1 & F2 & F3 & F4 & F5 & F6 & F7 & F8 & F9 & F10 & F11 & F12 & F13 & F14 & F15 & F16 & F17 & F18 & F19 & F20 & F21 & F22).
    set (s' := fst (finish_new mdl (ro s) more s1 f0)) in *.
    constructor; unfold ffin, ro in *.
    + rewrite F5, F6, F7, F16, F4, A3, A4, A5, A13, A2. intros g Hin.
      rewrite !in_app_iff in Hin. cbn [In] in Hin.
      assert (Hnew : fin = true -> finishedWriting s = true /\ f_end (mkF (f_off f0) (f_data f0) fin) = zlen (W s)).
      { intros Hfin. destruct (F15 Hfin) as (B1 & B2 & B3 & B4 & B5). split; [congruence|].
        unfold f_end. cbn [f_off f_data]. rewrite Po.
        destruct (i_pend _ HI') as [P|[(P & sent & EW & Ls)|[(P & _)|(P & _)]]]; try (fold s' in P; congruence).
        unfold nfData in EW. fold s' in EW. rewrite F2, F3, B2, B3 in EW.
        rewrite F4, A2 in EW. rewrite F1, A1 in Ls. rewrite EW, !zlen_app. change (zlen (@nil Z)) with 0. lia. }
      indis Hin; try (rewrite EQ in Hin; contradiction); try (subst g; cbn [f_fin]; exact Hnew); apply J1; rewrite !in_app_iff; auto.
    + rewrite F9, F12, F11, A7, A10, A9. intros A B. exfalso. apply Hnf0. auto.
Qed.

Lemma step_InvF s o : Inv s -> Inv (fst (step s o)) -> InvF s -> InvF (fst (step s o)).
Proof.
  intros HI HI' HF. unfold step in *. destruct (panicked s); [exact HF|].
  destruct o; auto using do_write_InvF, do_resume_InvF, do_close_InvF, do_pop_InvF, do_acked_InvF, do_lost_InvF,
    do_cancel_InvF, do_stop_InvF, do_rel_InvF, do_enable_InvF, do_shutdown_InvF.
  - unfold do_ctrl. destruct (queuedReset s); [|exact HF]. eapply InvF_core; [|exact HF]. reflexivity.
  - unfold do_racked. destruct (nth_error _ _); [|exact HF]. destruct (negb _); [eapply InvF_core; [|exact HF]; reflexivity|].
    eapply InvF_core; [|exact HF]. rewrite dec_core3. reflexivity.
  - unfold do_rlost. destruct (nth_error _ _); [|exact HF]. destruct (negb _); eapply InvF_core; try exact HF; reflexivity.
  - unfold do_win. destruct (_ >? _); [|exact HF]. eapply InvF_core; [|exact HF]. reflexivity.
  - unfold do_cwin. destruct (_ >? _); [|exact HF]. eapply InvF_core; [|exact HF]. reflexivity.
Qed.

Theorem run_InvF s ops : Inv s -> InvF s -> late (run_state s ops) = false -> Inv (run_state s ops) /\ InvF (run_state s ops).
Proof.
  revert s. induction ops as [|o ops IH]; intros s HI HF HL; [split; assumption|].
  unfold run_state in *. cbn [fold_left] in *.
  assert (HL1 : late (fst (step s o)) = false) by (eapply run_late_false; exact HL).
  assert (HI1 : Inv (fst (step s o))) by (apply step_Inv; auto).
  apply IH; auto. apply step_InvF; auto.
Qed.

(* isNewlyCompleted fires as soon as nothing is left in flight, queued or buffered *)
Lemma newly_completed_fires s :
  completed s = false -> nfLen s = 0 -> numOut s <= 0 -> retransQ s = [] -> queuedReset s = None ->
  (finSent s = true \/ (resetErr s <> None /\ (cancellationFlagged s = true \/ finishedWriting s = true))) ->
  snd (newly_completed s) = true /\ completed (fst (newly_completed s)) = true.
Proof.
  intros H1 H2 H3 H4 H5 H6. unfold newly_completed. rewrite H1, H2, H4, H5. cbn [isNil isSome negb orb].
  destruct (Z.ltb_spec 0 0); [lia|]. destruct (Z.ltb_spec 0 (numOut s)); [lia|]. cbn [orb].
  destruct (finSent s) eqn:EF; [split; reflexivity|].
  destruct H6 as [H6|(A & B)]; [discriminate|].
  destruct (resetErr s); [|congruence]. cbn [isSome andb].
  destruct B as [B|B]; rewrite B; cbn; rewrite ?orb_true_r; split; reflexivity.
Qed.
