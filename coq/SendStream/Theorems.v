(** The sender-side theorems of C01 in their final form, over the observable frame log. *)
From Coq Require Import List ZArith Bool Lia.
From V Require Import Gen.Params Lib.Hex Wire.Varint SendStream.Model SendStream.ProofsBase SendStream.ProofsInv
  SendStream.ProofsCov SendStream.ProofsOut SendStream.ProofsFin SendStream.ProofsCnt SendStream.ProofsDone.
Import ListNotations.
Open Scope Z_scope.

Section Sender.
Variables (sid0 : Z) (rsa : bool) (swin cwin : Z) (ops : list op).
Let s0 := init sid0 rsa swin cwin.
Let s := fst (run s0 ops).
Let E := frames_of (snd (run s0 ops)).

(* no op sets the ghost flag [late] any more (SetReliableBoundary and enableResetStreamAt are no-ops on a
   reset stream): the hypothesis of round 2 is discharged *)
Lemma run_late_const ops0 : forall st0, late (run_state st0 ops0) = late st0.
Proof.
  induction ops0 as [|o r IH]; intros st0; [reflexivity|].
  unfold run_state in *. cbn [fold_left]. rewrite IH, step_late_eq. unfold sets_late. apply orb_false_r.
Qed.

Lemma late_never : late s = false.
Proof. unfold s. rewrite run_fst, run_late_const. reflexivity. Qed.

Lemma final_Inv : late s = false -> Inv s.
Proof. intros H. unfold s in *. rewrite run_fst in *. apply run_Inv; auto. apply init_Inv. Qed.

Lemma final_emitted : emitted s = E.
Proof. unfold s, E. rewrite run_fst, run_emitted. reflexivity. Qed.

Lemma final_Inv2 : resetErr s = None -> Inv s /\ Inv2 s.
Proof.
  intros H. unfold s in *. rewrite run_fst in *. apply run_Inv2; auto.
  - apply init_Inv.
  - apply init_Inv2.
  - discriminate.
Qed.

Lemma final_InvF : late s = false -> Inv s /\ InvF s.
Proof.
  intros H. unfold s in *. rewrite run_fst in *. apply run_InvF; auto.
  - apply init_Inv.
  - apply init_InvF.
Qed.

(* every frame popStreamFrame ever returned carries the written bytes of its range *)
Lemma emitted_good : late s = false -> Forall (good (W s)) E.
Proof. intros H. rewrite <- final_emitted. apply (i_em _ (final_Inv H)). Qed.

Theorem sender_frames_consistent :
  late s = false ->
  (forall f, In f E ->
     0 <= f_off f /\ f_end f <= zlen (W s) /\
     f_data f = zfirstn (zlen (f_data f)) (zskipn (f_off f) (W s))) /\
  contiguous 0 (emittedNew s) (writeOffset s) /\
  (forall f, In f E -> f_fin f = true -> finishedWriting s = true /\ f_end f = zlen (W s)).
Proof.
  intros HL. pose proof (emitted_good HL) as HG. rewrite Forall_forall in HG.
  destruct (final_InvF HL) as [HI HF]. repeat split.
  - apply (good_range _ _ (HG f H)).
  - apply (good_range _ _ (HG f H)).
  - apply good_slice. auto.
  - apply (i_contig _ HI).
  - apply (k_fin _ HF f); auto. rewrite !in_app_iff. right. right. rewrite final_emitted. exact H.
  - apply (k_fin _ HF f); auto. rewrite !in_app_iff. right. right. rewrite final_emitted. exact H.
Qed.

(* a stream that was reset without a reliable size never holds a buffered frame, and
   isNewlyCompleted fires as soon as nothing is in flight or queued *)
Theorem reset_stream_holds_no_buffer :
  late s = false -> resetErr s <> None -> ro s = 0 -> nextFrame s = None.
Proof. intros HL. destruct (final_InvF HL) as [_ HF]. apply (k_nf _ HF). Qed.

(* unless the stream was reset (or torn down with the connection): every byte handed out so far
   is acked, in flight, or waiting in the retransmission queue; so is the FIN once sent;
   and the outstanding-frame counter equals the number of frames in flight *)
Theorem sender_coverage :
  resetErr s = None -> shutdown s = false ->
  (forall i, 0 <= i < writeOffset s -> covered i (acked s ++ outstanding s ++ retransQ s)) /\
  (finSent s = true -> exists f, In f (acked s ++ outstanding s ++ retransQ s) /\ f_fin f = true) /\
  numOut s = zlen (outstanding s).
Proof.
  intros HR HS. destruct (final_Inv2 HR) as [_ H2]. repeat split.
  - apply (j_cov _ H2 HS).
  - apply (j_fincov _ H2 HS).
  - apply (j_cnt _ H2).
Qed.

(* the outstanding-frame counter is exact in every history, so the code never panics
   (given pop budgets of at most one packet, which is all the framer ever offers) *)
Theorem sender_no_panic :
  late s = false -> budgets_ok ops ->
  panicked s = false /\ numOut s = cnt_stream s + cnt_reset s /\ 0 <= numOut s.
Proof.
  intros HL HB. unfold s in *. rewrite run_fst in *.
  destruct (run_C s0 ops (init_Inv _ _ _ _) (init_InvC _ _ _ _) eq_refl HL HB) as [HC HP].
  split; [exact HP|]. split; [apply (c_cnt _ HC)|]. rewrite (c_cnt _ HC).
  unfold cnt_stream, cnt_reset. pose proof (zlen_nonneg (outstanding (run_state s0 ops))).
  pose proof (zlen_nonneg (filter (fun r => r_rel r =? ro (run_state s0 ops)) (outReset (run_state s0 ops)))).
  destruct (_ && _); lia.
Qed.

(* onStreamCompleted is called exactly once per stream, and it HAS been called whenever nothing is in
   flight, queued or buffered and the FIN was sent (or the reset is known to the application) *)
Theorem sender_completion_exactly_once :
  late s = false -> budgets_ok ops ->
  done_calls (snd (run s0 ops)) = b2z (completed s) /\
  (shutdown s = false -> all_done s -> completed s = true).
Proof.
  intros HL HB. split.
  - rewrite run_count. unfold cz. fold s. unfold s0, init. ssimp. cbn. lia.
  - intros HS. unfold s in *. rewrite run_fst in *.
    apply (run_InvD ops s0 (init_Inv _ _ _ _) (init_InvC _ _ _ _) eq_refl); auto.
    intros (_ & _ & _ & _ & [X|[X _]]); unfold s0, init in X; ssimp; congruence.
Qed.

Lemma reset_none_late : resetErr s = None -> late s = false.
Proof.
  intros H. destruct (late s) eqn:EL; auto. exfalso.
  unfold s in *. rewrite run_fst in *. revert H. apply run_late_reset; auto. discriminate.
Qed.

(** the same theorems without the (now vacuous) hypothesis *)
Definition sender_frames_consistent' := sender_frames_consistent late_never.
Definition reset_stream_holds_no_buffer' := reset_stream_holds_no_buffer late_never.
Definition sender_no_panic' := sender_no_panic late_never.
Definition sender_completion_exactly_once' := sender_completion_exactly_once late_never.
Definition emitted_good' := emitted_good late_never.
End Sender.

(** ** liveness, as far as the model carries it (claim (e), partial: what makes the connection call
    popStreamFrame and declare losses — run loop, PTO timers, congestion window — is not modelled) *)
From V Require Import SendStream.ProofsLive.

Lemma run_state_app s0 a b : run_state s0 (a ++ b) = run_state (run_state s0 a) b.
Proof. unfold run_state. apply fold_left_app. Qed.

Definition same_but_windows (s1 s : state) : Prop :=
  resetErr s1 = resetErr s /\ shutdown s1 = shutdown s /\ panicked s1 = panicked s /\ finishedWriting s1 = finishedWriting s /\
  mu s1 = mu s /\ pend s1 = pend s /\ fcSent s1 = fcSent s /\ ccSent s1 = ccSent s /\ W s1 = W s /\
  fcWindow s <= fcWindow s1 /\ ccWindow s <= ccWindow s1.

Lemma win_fields s L : panicked s = false ->
  same_but_windows (fst (step s (OWin L))) s /\ L <= fcWindow (fst (step s (OWin L))).
Proof.
  intros HP. unfold step. rewrite HP. unfold do_win, same_but_windows.
  destruct (Z.gtb_spec L (fcWindow s)); cbn [fst]; unfold mu, pend, nfLen; ssimp; repeat split; auto; lia.
Qed.
Lemma cwin_fields s L : panicked s = false ->
  same_but_windows (fst (step s (OConnWin L))) s /\ L <= ccWindow (fst (step s (OConnWin L))).
Proof.
  intros HP. unfold step. rewrite HP. unfold do_cwin, same_but_windows.
  destruct (Z.gtb_spec L (ccWindow s)); cbn [fst]; unfold mu, pend, nfLen; ssimp; repeat split; auto; lia.
Qed.

Lemma grant_fields s L1 L2 : panicked s = false ->
  let s1 := run_state s [OWin L1; OConnWin L2] in
  resetErr s1 = resetErr s /\ shutdown s1 = shutdown s /\ panicked s1 = false /\ finishedWriting s1 = finishedWriting s /\
  mu s1 = mu s /\ pend s1 = pend s /\ fcSent s1 = fcSent s /\ ccSent s1 = ccSent s /\ L1 <= fcWindow s1 /\ L2 <= ccWindow s1 /\
  W s1 = W s.
Proof.
  intros HP. unfold run_state. cbn [fold_left].
  destruct (win_fields s L1 HP) as [(A1 & A2 & A3 & A4 & A5 & A6 & A7 & A8 & A9 & A10 & A11) A12].
  set (sa := fst (step s (OWin L1))) in *.
  assert (HPa : panicked sa = false) by congruence.
  destruct (cwin_fields sa L2 HPa) as [(B1 & B2 & B3 & B4 & B5 & B6 & B7 & B8 & B9 & B10 & B11) B12].
  repeat split; try congruence; lia.
Qed.

Section Live.
Variables (sid0 : Z) (rsa : bool) (swin cwin : Z) (ops : list op) (L1 L2 : Z).
Let s0 := init sid0 rsa swin cwin.
Let s := run_state s0 ops.
Definition settle_ops (k a : nat) : list op :=
  [OWin L1; OConnWin L2] ++ repeat (OPop ssMaxPacketBufferSize) k ++ repeat (OAcked 0) a.

Theorem sender_drains :
  budgets_ok ops -> resetErr s = None -> shutdown s = false -> finishedWriting s = true ->
  fcSent s + pend s < L1 -> ccSent s + pend s < L2 ->
  exists k a, Z.of_nat k = mu s /\
    let ops' := ops ++ settle_ops k a in
    let s' := run_state s0 ops' in
    retransQ s' = [] /\ outstanding s' = [] /\ nextFrame s' = None /\ dataForWriting s' = [] /\ finSent s' = true /\
    W s' = W s /\ writeOffset s' = zlen (W s) /\
    (forall i, 0 <= i < zlen (W s) -> covered i (acked s')) /\
    completed s' = true /\ done_calls (snd (run s0 ops')) = 1.
Proof.
  intros HB HR HS HF H1 H2.
  assert (HP : panicked s = false).
  { pose proof (sender_no_panic' sid0 rsa swin cwin ops HB) as [X _]. rewrite run_fst in X. exact X. }
  destruct (grant_fields s L1 L2 HP) as (G1 & G2 & G3 & G4 & G5 & G6 & G7 & G8 & G9 & G10 & G11).
  set (g := [OWin L1; OConnWin L2]) in *.
  set (s1 := run_state s g) in *.
  assert (E1 : s1 = run_state s0 (ops ++ g)) by (subst s1 s; now rewrite run_state_app).
  assert (D1 : DrainInv s1).
  { constructor; try congruence; try lia.
    rewrite E1. apply run_Inv; [apply init_Inv|]. apply run_late_const. }
  set (k := Z.to_nat (mu s)).
  pose proof (mu_nonneg s) as Hmu.
  destruct (drain k s1 D1 ltac:(lia)) as (D2 & M2 & W2).
  set (pp := repeat (OPop ssMaxPacketBufferSize) k) in *.
  set (s2 := run_state s1 pp) in *.
  assert (E2 : s2 = run_state s0 (ops ++ g ++ pp)) by (subst s2; rewrite E1, <- run_state_app, <- app_assoc; reflexivity).
  destruct (mu0_fields _ M2) as (Q2 & N2 & F2 & S2).
  assert (I2 : Inv s2 /\ Inv2 s2).
  { rewrite E2. apply run_Inv2; [apply init_Inv|apply init_Inv2|discriminate|]. rewrite <- E2. apply D2. }
  assert (T2 : Settled s2).
  { constructor; auto; try apply D2. apply (j_cnt _ (proj2 I2)). }
  set (a := length (outstanding s2)).
  destruct (ack_all (outstanding s2) s2 T2 eq_refl) as (T3 & O3 & W3).
  fold a in T3, O3, W3.
  set (aa := repeat (OAcked 0) a) in *.
  set (s3 := run_state s2 aa) in *.
  assert (E3 : s3 = run_state s0 (ops ++ settle_ops k a)).
  { subst s3. rewrite E2, <- run_state_app. unfold settle_ops. fold g pp aa. now rewrite <- !app_assoc. }
  exists k, a. split; [subst k; lia|]. cbn zeta. rewrite <- E3.
  assert (BO : budgets_ok (ops ++ settle_ops k a)).
  { intros mb HIn. apply in_app_or in HIn. destruct HIn as [X|X]; [auto|].
    unfold settle_ops in X. cbn [app] in X. destruct X as [X|[X|X]]; try discriminate.
    apply in_app_or in X. destruct X as [X|X]; apply repeat_spec in X; inversion X. lia. }
  assert (I3 : Inv s3 /\ Inv2 s3).
  { rewrite E3. apply run_Inv2; [apply init_Inv|apply init_Inv2|discriminate|]. rewrite <- E3. apply T3. }
  assert (WO : writeOffset s3 = zlen (W s3)).
  { destruct (i_pend _ (proj1 I3)) as [X|[(_ & sent & X & Y)|[(X & _)|(X & _)]]].
    - rewrite (t_sh _ T3) in X. discriminate.
    - unfold nfData in X. rewrite (t_nf _ T3), (t_dfw _ T3), !app_nil_r in X. congruence.
    - destruct (X (t_reset _ T3)).
    - destruct (X (t_reset _ T3)). }
  assert (WW : W s3 = W s) by congruence.
  repeat split; try apply T3; auto.
  - congruence.
  - intros i Hi. pose proof (j_cov _ (proj2 I3) (t_sh _ T3) i) as C. unfold live in C.
    rewrite O3, (t_q _ T3), !app_nil_r in C. apply C. rewrite WO, WW. exact Hi.
  - pose proof (sender_completion_exactly_once' sid0 rsa swin cwin _ BO) as [_ X].
    rewrite run_fst in X. fold s0 in X. rewrite <- E3 in X. apply X; [apply T3|].
    unfold all_done, nfLen. rewrite (t_nf _ T3), (t_cnt _ T3), O3, (t_q _ T3).
    repeat split; auto; [apply (j_cnt _ (proj2 I3))|left; apply T3].
  - pose proof (sender_completion_exactly_once' sid0 rsa swin cwin _ BO) as [Y X].
    rewrite run_fst in X, Y. fold s0 in X, Y. rewrite <- E3 in X, Y. rewrite Y.
    rewrite X; [reflexivity|apply T3|].
    unfold all_done, nfLen. rewrite (t_nf _ T3), (t_cnt _ T3), O3, (t_q _ T3).
    repeat split; auto; [apply (j_cnt _ (proj2 I3))|left; apply T3].
Qed.
End Live.
