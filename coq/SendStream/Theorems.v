(** The sender-side theorems of C01 in their final form, over the observable frame log. *)
From Coq Require Import List ZArith Bool Lia.
From V Require Import Gen.Params Lib.Hex Wire.Varint SendStream.Model SendStream.ProofsBase SendStream.ProofsInv
  SendStream.ProofsCov SendStream.ProofsOut SendStream.ProofsFin SendStream.ProofsCnt.
Import ListNotations.
Open Scope Z_scope.

Section Sender.
Variables (sid0 : Z) (rsa : bool) (swin cwin : Z) (ops : list op).
Let s0 := init sid0 rsa swin cwin.
Let s := fst (run s0 ops).
Let E := frames_of (snd (run s0 ops)).

Lemma final_Inv : late s = false -> Inv s.
Proof. intros H. unfold s in *. rewrite run_fst in *. apply run_Inv; auto. apply init_Inv. Qed.

Lemma final_emitted : emitted s = E.
Proof. unfold s, E. rewrite run_fst, run_emitted. reflexivity. Qed.

Lemma final_Inv2 : resetErr s = None -> Inv s /\ Inv2 s.
Proof.
  intros H. unfold s in *. rewrite run_fst in *. apply run_Inv2; auto.
  - apply init_Inv.
  - apply init_Inv2.
  - discriminate.
Qed.

Lemma final_InvF : late s = false -> Inv s /\ InvF s.
Proof.
  intros H. unfold s in *. rewrite run_fst in *. apply run_InvF; auto.
  - apply init_Inv.
  - apply init_InvF.
Qed.

(* every frame popStreamFrame ever returned carries the written bytes of its range *)
Lemma emitted_good : late s = false -> Forall (good (W s)) E.
Proof. intros H. rewrite <- final_emitted. apply (i_em _ (final_Inv H)). Qed.

Theorem sender_frames_consistent :
  late s = false ->
  (forall f, In f E ->
     0 <= f_off f /\ f_end f <= zlen (W s) /\
     f_data f = zfirstn (zlen (f_data f)) (zskipn (f_off f) (W s))) /\
  contiguous 0 (emittedNew s) (writeOffset s) /\
  (forall f, In f E -> f_fin f = true -> finishedWriting s = true /\ f_end f = zlen (W s)).
Proof.
  intros HL. pose proof (emitted_good HL) as HG. rewrite Forall_forall in HG.
  destruct (final_InvF HL) as [HI HF]. repeat split.
  - apply (good_range _ _ (HG f H)).
  - apply (good_range _ _ (HG f H)).
  - apply good_slice. auto.
  - apply (i_contig _ HI).
  - apply (k_fin _ HF f); auto. rewrite !in_app_iff. right. right. rewrite final_emitted. exact H.
  - apply (k_fin _ HF f); auto. rewrite !in_app_iff. right. right. rewrite final_emitted. exact H.
Qed.

(* a stream that was reset without a reliable size never holds a buffered frame, and
   isNewlyCompleted fires as soon as nothing is in flight or queued *)
Theorem reset_stream_holds_no_buffer :
  late s = false -> resetErr s <> None -> ro s = 0 -> nextFrame s = None.
Proof. intros HL. destruct (final_InvF HL) as [_ HF]. apply (k_nf _ HF). Qed.

(* unless the stream was reset (or torn down with the connection): every byte handed out so far
   is acked, in flight, or waiting in the retransmission queue; so is the FIN once sent;
   and the outstanding-frame counter equals the number of frames in flight *)
Theorem sender_coverage :
  resetErr s = None -> shutdown s = false ->
  (forall i, 0 <= i < writeOffset s -> covered i (acked s ++ outstanding s ++ retransQ s)) /\
  (finSent s = true -> exists f, In f (acked s ++ outstanding s ++ retransQ s) /\ f_fin f = true) /\
  numOut s = zlen (outstanding s).
Proof.
  intros HR HS. destruct (final_Inv2 HR) as [_ H2]. repeat split.
  - apply (j_cov _ H2 HS).
  - apply (j_fincov _ H2 HS).
  - apply (j_cnt _ H2).
Qed.

(* the outstanding-frame counter is exact in every history, so the code never panics
   (given pop budgets of at most one packet, which is all the framer ever offers) *)
Theorem sender_no_panic :
  late s = false -> budgets_ok ops ->
  panicked s = false /\ numOut s = cnt_stream s + cnt_reset s /\ 0 <= numOut s.
Proof.
  intros HL HB. unfold s in *. rewrite run_fst in *.
  destruct (run_C s0 ops (init_Inv _ _ _ _) (init_InvC _ _ _ _) eq_refl HL HB) as [HC HP].
  split; [exact HP|]. split; [apply (c_cnt _ HC)|]. rewrite (c_cnt _ HC).
  unfold cnt_stream, cnt_reset. pose proof (zlen_nonneg (outstanding (run_state s0 ops))).
  pose proof (zlen_nonneg (filter (fun r => r_rel r =? ro (run_state s0 ops)) (outReset (run_state s0 ops)))).
  destruct (_ && _); lia.
Qed.

Lemma reset_none_late : resetErr s = None -> late s = false.
Proof.
  intros H. destruct (late s) eqn:EL; auto. exfalso.
  unfold s in *. rewrite run_fst in *. revert H. apply run_late_reset; auto. discriminate.
Qed.
End Sender.
