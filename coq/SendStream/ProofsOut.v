(** The ghost log [emitted] is exactly the sequence of frames returned by popStreamFrame
    (the [o_frame] observables that the correspondence check compares with the code). *)
From Coq Require Import List ZArith Bool Lia.
From V Require Import Gen.Params Lib.Hex Wire.Varint SendStream.Model SendStream.ProofsBase SendStream.ProofsInv.
Import ListNotations.
Open Scope Z_scope.

Definition olist {A} (o : option A) : list A := match o with Some x => [x] | None => [] end.
Definition frames_of (outs : list out) : list frame := flat_map (fun x => olist (o_frame x)) outs.

Lemma nc_emitted s : emitted (fst (newly_completed s)) = emitted s.
Proof. pose proof (newly_completed_core s) as E. unfold core in E. inversion E. reflexivity. Qed.
Lemma dec_emitted s : emitted (fst (dec_outstanding_then_complete s)) = emitted s.
Proof. pose proof (dec_core s) as E. unfold core in E. inversion E. reflexivity. Qed.
Lemma dec_frame s : o_frame (snd (dec_outstanding_then_complete s)) = None.
Proof.
  unfold dec_outstanding_then_complete. destruct (_ <? 0); [reflexivity|].
  destruct (newly_completed _). reflexivity.
Qed.

Lemma write_iter_em b s : emitted (fst (write_iter b s)) = emitted s /\ o_frame (snd (write_iter b s)) = None.
Proof.
  unfold write_iter.
  destruct (_ && _); [split; reflexivity|]. destruct (_ || _); [|split; reflexivity].
  destruct (_ =? _); [split; reflexivity|]. destruct (shutdown s); [split; reflexivity|].
  destruct (resetErr s) as [[c r]|]; [|split; reflexivity].
  match goal with |- context [newly_completed ?x] => pose proof (nc_emitted x) as N; destruct (newly_completed x) end.
  cbn [fst snd] in *. split; [rewrite N|]; reflexivity.
Qed.

Lemma finish_new_em a b c s1 f0 :
  emitted (fst (finish_new a b c s1 f0)) = emitted s1 ++ olist (o_frame (snd (finish_new a b c s1 f0))).
Proof.
  unfold finish_new.
  set (s2 := if 0 <? zlen (f_data f0) then _ else s1).
  assert (E2 : emitted s2 = emitted s1) by (subst s2; destruct (0 <? _); reflexivity).
  clearbody s2.
  destruct (_ =? a).
  - unfold isNewlyBlocked. destruct (_ || _); cbn [fst snd].
    + destruct (_ && _); unfold emit; cbn [fst snd o_frame olist]; ssimp; rewrite E2; reflexivity.
    + ssimp. destruct (_ && _); unfold emit; cbn [fst snd o_frame olist]; ssimp; rewrite E2; reflexivity.
  - destruct (_ && _); unfold emit; cbn [fst snd o_frame olist]; ssimp; rewrite E2; reflexivity.
Qed.

Ltac ncem :=
  match goal with |- context [newly_completed ?x] =>
    let N := fresh "N" in pose proof (nc_emitted x) as N; destruct (newly_completed x); cbn [fst snd] in * end.

Lemma step_emitted s o :
  emitted (fst (step s o)) = emitted s ++ olist (o_frame (snd (step s o))).
Proof.
  unfold step. destruct (panicked s); [cbn; now rewrite app_nil_r|].
  destruct o.
  - unfold do_write. destruct (writing s); [cbn; now rewrite app_nil_r|]. destruct (resetErr s) as [[c r]|].
    + ncem. rewrite N. cbn. now rewrite app_nil_r.
    + destruct (shutdown s); [cbn; now rewrite app_nil_r|]. destruct (finishedWriting s); [cbn; now rewrite app_nil_r|].
      destruct (isNil p); [cbn; now rewrite app_nil_r|].
      match goal with |- context [write_iter ?b ?x] => destruct (write_iter_em b x) as [A B] end.
      rewrite A, B. cbn. now rewrite app_nil_r.
  - unfold do_resume. destruct (_ && _); [|cbn; now rewrite app_nil_r].
    match goal with |- context [write_iter ?b ?x] => destruct (write_iter_em b x) as [A B] end.
    rewrite A, B. cbn. now rewrite app_nil_r.
  - unfold do_close. destruct (_ || _); [cbn; now rewrite app_nil_r|]. ncem.
    destruct (isSome (resetErr s)); cbn [fst snd]; rewrite N; ssimp; cbn; now rewrite app_nil_r.
  - unfold do_pop. destruct (shutdown s); [cbn; now rewrite app_nil_r|]. destruct (_ && _); [cbn; now rewrite app_nil_r|].
    destruct (retransQ s) as [|f q].
    + destruct (_ && _). { destruct (_ && _); [|cbn; now rewrite app_nil_r]. unfold emit. cbn [fst snd]. ssimp. reflexivity. }
      destruct (_ =? 0); [cbn; now rewrite app_nil_r|].
      match goal with |- context [popNewStreamFrame ?a ?b ?c] => remember (popNewStreamFrame a b c) as p eqn:Ep; destruct p as [[s1 fo] more] end.
      assert (R1 : emitted s1 = emitted s).
      { change s1 with (fst (fst (s1, fo, more))). rewrite Ep. clear Ep.
        unfold popNewStreamFrame. destruct (nextFrame s) as [[o d]|].
        - destruct (_ =? 0); [reflexivity|]. destruct (_ >? _); reflexivity.
        - destruct (_ =? 0); [reflexivity|]. destruct (_ >? _); [reflexivity|].
          match goal with |- context [getDataForWriting ?n s] => pose proof (getData_spec n s) as G; destruct (getDataForWriting n s) as [s2 data] end.
          destruct G as (G & _). unfold same_rest in G. destruct (isNil data); cbn [fst]; tauto. }
      destruct fo; cbn [fst snd]; [|cbn; rewrite app_nil_r; congruence].
      rewrite finish_new_em, R1. reflexivity.
    + destruct (maybe_split _ _ _) as [[[new rest]|]|]; unfold emit; cbn [fst snd]; ssimp; cbn; rewrite ?app_nil_r; reflexivity.
  - unfold do_acked. destruct (nth_error _ _); [|cbn; now rewrite app_nil_r]. destruct (_ && _); [cbn; now rewrite app_nil_r|].
    rewrite dec_emitted, dec_frame. cbn. now rewrite app_nil_r.
  - unfold do_lost. destruct (nth_error _ _); [|cbn; now rewrite app_nil_r]. destruct (_ && _); [cbn; now rewrite app_nil_r|].
    destruct (_ <? 0); [cbn; now rewrite app_nil_r|]. destruct (_ && _).
    + ncem. rewrite N. cbn. now rewrite app_nil_r.
    + cbn. now rewrite app_nil_r.
  - unfold do_cancel. destruct (shutdown s); [cbn; now rewrite app_nil_r|]. destruct (isSome _).
    + ncem. rewrite N. cbn. now rewrite app_nil_r.
    + cbn [fst snd]. destruct (_ =? 0); destruct (0 <? _); ssimp; cbn; now rewrite app_nil_r.
  - unfold do_stop. destruct (shutdown s); [cbn; now rewrite app_nil_r|]. destruct (_ && _); [cbn; now rewrite app_nil_r|].
    cbn [fst snd]. ssimp. destruct (resetErr s); ssimp; cbn; now rewrite app_nil_r.
  - unfold do_ctrl. destruct (queuedReset s); cbn; now rewrite app_nil_r.
  - unfold do_racked. destruct (nth_error _ _); [|cbn; now rewrite app_nil_r]. destruct (negb _); [cbn; now rewrite app_nil_r|].
    rewrite dec_emitted, dec_frame. cbn. now rewrite app_nil_r.
  - unfold do_rlost. destruct (nth_error _ _); [|cbn; now rewrite app_nil_r]. destruct (negb _); cbn; now rewrite app_nil_r.
  - unfold do_win. destruct (_ >? _); cbn; now rewrite app_nil_r.
  - unfold do_cwin. destruct (_ >? _); cbn; now rewrite app_nil_r.
  - unfold do_rel. destruct (isSome _); cbn; now rewrite app_nil_r.
  - cbn. now rewrite app_nil_r.
  - unfold do_shutdown. destruct (_ && _); cbn; now rewrite app_nil_r.
Qed.

Lemma run_fst s ops : fst (run s ops) = run_state s ops.
Proof.
  revert s. induction ops as [|o ops IH]; intros s; [reflexivity|].
  cbn [run]. unfold run_state. cbn [fold_left]. destruct (step s o) as [s1 x] eqn:E.
  specialize (IH s1). destruct (run s1 ops) as [s2 xs]. cbn [fst] in *. rewrite IH. reflexivity.
Qed.

Theorem run_emitted s ops : emitted (run_state s ops) = emitted s ++ frames_of (snd (run s ops)).
Proof.
  revert s. induction ops as [|o ops IH]; intros s.
  - cbn. now rewrite app_nil_r.
  - cbn [run]. unfold run_state. cbn [fold_left]. pose proof (step_emitted s o) as E.
    destruct (step s o) as [s1 x]. cbn [fst snd] in *. specialize (IH s1). unfold run_state in IH.
    destruct (run s1 ops) as [s2 xs]. cbn [snd] in *. rewrite IH, E.
    unfold frames_of. cbn [flat_map]. now rewrite <- app_assoc.
Qed.
