(** Completion: in every reachable state that is not shut down, a stream with nothing in flight,
    queued or buffered whose FIN was sent — or that was reset and whose application knows about
    it — HAS been reported completed; and onStreamCompleted is called exactly once per stream
    (the calls counted over the whole history = 1 if completed, 0 otherwise). *)
From Coq Require Import List ZArith Bool Lia.
From V Require Import Gen.Params Lib.Hex Wire.Varint SendStream.Model SendStream.ProofsBase SendStream.ProofsInv
  SendStream.ProofsCov SendStream.ProofsCnt.
Import ListNotations.
Open Scope Z_scope.

Definition all_done (s : state) : Prop :=
  nfLen s = 0 /\ numOut s = 0 /\ retransQ s = [] /\ queuedReset s = None /\
  (finSent s = true \/ (resetErr s <> None /\ (cancellationFlagged s = true \/ finishedWriting s = true))).

Definition InvD (s : state) : Prop := all_done s -> completed s = true.

Definition core5 (s : state) :=
  (nextFrame s, numOut s, retransQ s, queuedReset s, finSent s, resetErr s, cancellationFlagged s, finishedWriting s, completed s).
Lemma InvD_core s s' : core5 s = core5 s' -> InvD s -> InvD s'.
Proof.
  unfold core5, InvD, all_done, nfLen. intros E H. inversion E as [[E1 E2 E3 E4 E5 E6 E7 E8 E9]].
  rewrite <- ?E1, <- ?E2, <- ?E3, <- ?E4, <- ?E5, <- ?E6, <- ?E7, <- ?E8, <- ?E9. exact H.
Qed.

(* isNewlyCompleted establishes the invariant whatever the state was *)
Lemma nc_InvD s : InvD (fst (newly_completed s)).
Proof.
  unfold InvD, all_done, newly_completed.
  destruct (completed s) eqn:EC; cbn [fst]; [intros; exact EC|].
  destruct (Z.ltb_spec 0 (nfLen s)); cbn [fst]; [intros (X & _); lia|].
  destruct (Z.ltb_spec 0 (numOut s)); cbn [orb fst]; [intros (_ & X & _); lia|].
  destruct (retransQ s) eqn:EQ; cbn [isNil negb orb fst]; [|intros (_ & _ & X & _); congruence].
  destruct (queuedReset s) eqn:ER; cbn [isSome orb fst]; [intros (_ & _ & _ & X & _); congruence|].
  destruct (finSent s) eqn:EF; cbn [fst]; [intros; reflexivity|].
  destruct (resetErr s) eqn:EE; cbn [isSome andb]; [|cbn [fst]; intros (_ & _ & _ & _ & [X|[X _]]); congruence].
  destruct (cancellationFlagged s) eqn:EA; cbn [orb fst]; [intros; reflexivity|].
  destruct (finishedWriting s) eqn:EB; cbn [fst]; [intros; reflexivity|].
  intros (_ & _ & _ & _ & [X|(_ & [X|X])]); congruence.
Qed.

Lemma not_done_numOut s : numOut s <> 0 -> InvD s.
Proof. intros H (_ & X & _). congruence. Qed.
Lemma not_done_q s : retransQ s <> [] -> InvD s.
Proof. intros H (_ & _ & X & _). congruence. Qed.
Lemma not_done_reset s : queuedReset s <> None -> InvD s.
Proof. intros H (_ & _ & _ & X & _). congruence. Qed.
Lemma not_done_nf s : 0 < nfLen s -> InvD s.
Proof. intros H (X & _). lia. Qed.

Lemma dec_InvD s : InvD (fst (dec_outstanding_then_complete s)).
Proof.
  unfold dec_outstanding_then_complete. destruct (Z.ltb_spec (numOut s - 1) 0).
  - cbn [fst]. apply not_done_numOut. ssimp. lia.
  - pose proof (nc_InvD (set_numOut (numOut s - 1) s)) as N. destruct (newly_completed _). exact N.
Qed.

Ltac ncD :=
  match goal with |- context [newly_completed ?x] =>
    let N := fresh "N" in pose proof (nc_InvD x) as N; destruct (newly_completed x); cbn [fst] in N |- * end.

Lemma write_iter_InvD b s : InvD s -> InvD (fst (write_iter b s)).
Proof.
  intros H. unfold write_iter.
  destruct (negb (isSome (resetErr s)) && negb (shutdown s) && canBuffer s && (0 <? zlen (dataForWriting s))) eqn:EC.
  - apply andb_prop in EC. destruct EC as [_ EC]. apply Z.ltb_lt in EC. cbn [fst]. apply not_done_nf.
    unfold nfLen. ssimp. destruct (nextFrame s) as [[o d]|]; rewrite ?zlen_app; try lia.
    pose proof (zlen_nonneg d). lia.
  - destruct (_ || _); [|exact H].
    destruct (_ =? _); [eapply InvD_core; [|exact H]; reflexivity|].
    destruct (shutdown s); [eapply InvD_core; [|exact H]; reflexivity|].
    destruct (resetErr s) as [[c r]|]; [|eapply InvD_core; [|exact H]; reflexivity].
    ncD. exact N.
Qed.

Lemma popNew_flags mb mdl s :
  let s1 := fst (fst (popNewStreamFrame mb mdl s)) in
  cancellationFlagged s1 = cancellationFlagged s /\ completed s1 = completed s.
Proof.
  unfold popNewStreamFrame. destruct (nextFrame s) as [[o d]|].
  - destruct (Z.min mdl (max_data_len (sid s) o mb) =? 0); [split; reflexivity|].
    destruct (zlen d >? Z.min mdl (max_data_len (sid s) o mb)); split; reflexivity.
  - destruct (max_data_len (sid s) (writeOffset s) mb =? 0); [split; reflexivity|].
    destruct (_ >? ssMaxPacketBufferSize); [split; reflexivity|].
    unfold getDataForWriting. destruct (_ <=? _).
    + cbn -[isNil]. destruct (isNil _); split; reflexivity.
    + destruct (canBuffer _); cbn -[isNil]; destruct (isNil _); split; reflexivity.
Qed.

Lemma step_InvD s o :
  Inv s -> 0 <= numOut s -> InvD s -> shutdown (fst (step s o)) = false -> InvD (fst (step s o)).
Proof.
  intros HI Hn H Hsh. unfold step in *. destruct (panicked s); [exact H|].
  destruct o.
  - unfold do_write. destruct (writing s); [exact H|]. destruct (resetErr s) as [[c r]|].
    + ncD. exact N.
    + destruct (shutdown s); [exact H|]. destruct (finishedWriting s); [exact H|]. destruct (isNil p); [exact H|].
      apply write_iter_InvD. eapply InvD_core; [|exact H]. reflexivity.
  - unfold do_resume. destruct (_ && _); [|exact H]. apply write_iter_InvD. eapply InvD_core; [|exact H]. reflexivity.
  - unfold do_close. destruct (_ || _); [exact H|]. ncD. destruct (isSome (resetErr s)); exact N.
  - (* pop: every emitted frame is in flight afterwards *)
    unfold do_pop in *. destruct (shutdown s) eqn:Esh; [exact H|].
    destruct (isSome (resetErr s) && ((ro s =? 0) || ((writeOffset s >=? ro s) && isNil (retransQ s)))) eqn:EG; [exact H|].
    pose proof (pop_guard s HI) as Hpg. pose proof H as H0.
    destruct (retransQ s) as [|f q] eqn:EQ.
    2:{ destruct (maybe_split (sid s) f maxBytes) as [[[new rest]|]|]; cbn [fst].
        - apply not_done_numOut. unfold emit. ssimp. lia.
        - exact H0.
        - apply not_done_numOut. unfold emit. ssimp. lia. }
    destruct (isNil (dataForWriting s) && negb (isSome (nextFrame s))).
    + destruct (finishedWriting s && negb (finSent s)); [|exact H0].
      cbn [fst]. apply not_done_numOut. unfold emit. ssimp. lia.
    + destruct (Z.eqb_spec (sendWindowSize s) 0) as [Ew|Ew]; [exact H0|].
      pose proof (sendWindowSize_nonneg s) as Hw.
      set (mdl := if isSome (resetErr s) && (0 <? ro s) then _ else sendWindowSize s) in *.
      assert (Hm1 : 0 < mdl).
      { subst mdl. destruct (Hpg eq_refl EG) as [Hg|(A & B & C)].
        - rewrite Hg. cbn. lia.
        - destruct (resetErr s); [|congruence]. cbn [isSome andb].
          assert (E : (0 <? ro s) = true) by (apply Z.ltb_lt; lia). rewrite E. lia. }
      pose proof (popNew_spec maxBytes mdl s (i_nfoff _ HI) (i_nflen _ HI) Hm1) as P.
      pose proof (popNew_flags maxBytes mdl s) as PF. cbn zeta in PF.
      destruct (popNewStreamFrame maxBytes mdl s) as [[s1 fo] more]. cbn [fst] in PF. destruct P as [SR P].
      destruct SR as (A1 & A2 & A3 & A4 & A5 & A6 & A7 & A8 & A9 & A10 & A11 & A12 & A13 & A14 & A15 & A16 & A17 & A18 & A19).
      destruct PF as [PF1 PF2].
      destruct fo as [f0|]; cbn [fst] in *.
      * match goal with |- context [finish_new ?a ?b ?c ?d ?e] => pose proof (finish_new_fields a b c d e) as F end.
        cbn zeta in F. destruct F as (fin & F). destruct F as (_ & _ & _ & _ & _ & _ & _ & _ & _ & _ & _ & _ & _ & _ & _ & _ & _ & _ & _ & _ & F21 & _).
        apply not_done_numOut. rewrite F21, A18. lia.
      * destruct P as [P1 P2]. eapply InvD_core; [|exact H0]. unfold core5. rewrite EQ. congruence.
  - unfold do_acked. destruct (nth_error _ _); [|exact H]. destruct (_ && _); [eapply InvD_core; [|exact H]; reflexivity|].
    apply dec_InvD.
  - unfold do_lost. destruct (nth_error _ _); [|exact H]. destruct (_ && _); [eapply InvD_core; [|exact H]; reflexivity|].
    destruct (Z.ltb_spec (numOut (set_outstanding (remove_nth i (outstanding s)) s) - 1) 0).
    + cbn [fst]. apply not_done_numOut. ssimp. lia.
    + destruct (_ && _ && _).
      * ncD. exact N.
      * cbn [fst]. apply not_done_q. ssimp. destruct (retransQ s); discriminate.
  - unfold do_cancel. destruct (shutdown s); [exact H|]. destruct (isSome _).
    + ncD. exact N.
    + cbn [fst]. apply not_done_reset. destruct (_ =? 0); destruct (0 <? _); ssimp; discriminate.
  - unfold do_stop. destruct (shutdown s); [exact H|]. destruct (_ && _); [exact H|].
    cbn [fst]. apply not_done_reset. ssimp. discriminate.
  - unfold do_ctrl. destruct (queuedReset s); [|exact H]. cbn [fst]. apply not_done_numOut. ssimp. lia.
  - unfold do_racked. destruct (nth_error _ _); [|exact H]. destruct (negb _); [eapply InvD_core; [|exact H]; reflexivity|].
    apply dec_InvD.
  - unfold do_rlost. destruct (nth_error _ _); [|exact H]. destruct (negb _); [eapply InvD_core; [|exact H]; reflexivity|].
    cbn [fst]. apply not_done_reset. ssimp. discriminate.
  - unfold do_win. destruct (_ >? _); [|exact H]. eapply InvD_core; [|exact H]. reflexivity.
  - unfold do_cwin. destruct (_ >? _); [|exact H]. eapply InvD_core; [|exact H]. reflexivity.
  - unfold do_rel. destruct (isSome _); [exact H|]. eapply InvD_core; [|exact H]. reflexivity.
  - unfold do_enable. destruct (isSome _); [exact H|]. eapply InvD_core; [|exact H]. reflexivity.
  - unfold do_shutdown in *. destruct (_ && _); cbn [fst] in *; ssimp; [discriminate|].
    eapply InvD_core; [|exact H]. reflexivity.
Qed.

(** ** the callback count *)
Definition cz (s : state) : Z := b2z (completed s).

Lemma nc_count s :
  let (s1, c) := newly_completed s in b2z c = cz s1 - cz s.
Proof.
  unfold newly_completed, cz.
  destruct (completed s) eqn:EC; [cbn; rewrite EC; reflexivity|].
  repeat match goal with |- context [if ?c then _ else _] => destruct c end; cbn; rewrite ?EC; reflexivity.
Qed.

Lemma nc_count_set s (f : state -> state) :
  completed (f s) = completed s ->
  let (s1, c) := newly_completed (f s) in b2z c = cz s1 - cz s.
Proof. intros E. pose proof (nc_count (f s)) as N. destruct (newly_completed (f s)). unfold cz in *. rewrite E in N. exact N. Qed.

Ltac ncC :=
  match goal with |- context [newly_completed ?x] =>
    let N := fresh "N" in pose proof (nc_count x) as N; destruct (newly_completed x); cbn [fst snd o_done out_done] in N |- * end.

Lemma dec_count s :
  o_done (snd (dec_outstanding_then_complete s)) = cz (fst (dec_outstanding_then_complete s)) - cz s.
Proof.
  unfold dec_outstanding_then_complete. destruct (_ <? 0); [cbn; unfold cz; ssimp; lia|].
  pose proof (nc_count (set_numOut (numOut s - 1) s)) as N. destruct (newly_completed _). cbn [fst snd out_done o_done].
  unfold cz in *. ssimp. exact N.
Qed.

Lemma write_iter_count b s :
  o_done (snd (write_iter b s)) = cz (fst (write_iter b s)) - cz s.
Proof.
  unfold write_iter. destruct (_ && _); [cbn; unfold cz; ssimp; lia|].
  destruct (_ || _); [|cbn; lia]. destruct (_ =? _); [cbn; unfold cz; ssimp; lia|].
  destruct (shutdown s); [cbn; unfold cz; ssimp; lia|].
  destruct (resetErr s) as [[c r]|]; [|cbn; unfold cz; ssimp; lia].
  ncC. unfold cz in *. ssimp. exact N.
Qed.

Lemma finish_new_completed a b c s1 f0 :
  completed (fst (finish_new a b c s1 f0)) = completed s1 /\ o_done (snd (finish_new a b c s1 f0)) = 0.
Proof.
  unfold finish_new.
  set (s2 := if 0 <? zlen (f_data f0) then _ else s1).
  assert (E2 : completed s2 = completed s1) by (subst s2; destruct (0 <? _); reflexivity).
  clearbody s2.
  destruct (_ =? a).
  - unfold isNewlyBlocked. destruct (_ || _); cbn [fst snd].
    + destruct (_ && _); unfold emit; cbn [fst snd o_done]; ssimp; rewrite E2; split; reflexivity.
    + ssimp. destruct (_ && _); unfold emit; cbn [fst snd o_done]; ssimp; rewrite E2; split; reflexivity.
  - destruct (_ && _); unfold emit; cbn [fst snd o_done]; ssimp; rewrite E2; split; reflexivity.
Qed.

Lemma step_count s o : o_done (snd (step s o)) = cz (fst (step s o)) - cz s.
Proof.
  unfold step. destruct (panicked s); [cbn; lia|].
  destruct o.
  - unfold do_write. destruct (writing s); [cbn; lia|]. destruct (resetErr s) as [[c r]|].
    + ncC. unfold cz in *. ssimp. exact N.
    + destruct (shutdown s); [cbn; lia|]. destruct (finishedWriting s); [cbn; lia|]. destruct (isNil p); [cbn; lia|].
      rewrite write_iter_count. unfold cz. ssimp. reflexivity.
  - unfold do_resume. destruct (_ && _); [|cbn; lia]. rewrite write_iter_count. unfold cz. ssimp. reflexivity.
  - unfold do_close. destruct (_ || _); [cbn; lia|]. ncC.
    destruct (isSome (resetErr s)); cbn [fst snd o_done]; unfold cz in *; ssimp; exact N.
  - unfold do_pop. destruct (shutdown s); [cbn; lia|]. destruct (_ && _); [cbn; lia|].
    destruct (retransQ s) as [|f q].
    + destruct (_ && negb _). { destruct (_ && negb _); [|cbn; lia]. unfold emit, cz. cbn [fst snd o_done]. ssimp. lia. }
      destruct (_ =? 0); [cbn; lia|].
      match goal with |- context [popNewStreamFrame ?a ?b ?c] =>
        pose proof (popNew_flags a b c) as PF; cbn zeta in PF; destruct (popNewStreamFrame a b c) as [[s1 fo] more] end.
      cbn [fst] in PF. destruct PF as [_ PF]. destruct fo; cbn [fst snd o_done]; [|unfold cz; rewrite PF; lia].
      match goal with |- context [finish_new ?a ?b ?c ?d ?e] => destruct (finish_new_completed a b c d e) as [F1 F2] end.
      rewrite F2. unfold cz. rewrite F1, PF. lia.
    + destruct (maybe_split _ _ _) as [[[new rest]|]|]; unfold emit, cz; cbn [fst snd o_done]; ssimp; lia.
  - unfold do_acked. destruct (nth_error _ _); [|cbn; lia]. destruct (_ && _); [cbn; unfold cz; ssimp; lia|].
    rewrite dec_count. unfold cz. ssimp. reflexivity.
  - unfold do_lost. destruct (nth_error _ _); [|cbn; lia]. destruct (_ && _); [cbn; unfold cz; ssimp; lia|].
    destruct (_ <? 0); [cbn; unfold cz; ssimp; lia|]. destruct (_ && _ && _).
    + ncC. unfold cz in *. ssimp. exact N.
    + cbn. unfold cz. ssimp. lia.
  - unfold do_cancel. destruct (shutdown s); [cbn; lia|]. destruct (isSome _).
    + ncC. unfold cz in *. ssimp. exact N.
    + cbn [fst snd o_done]. unfold cz. destruct (_ =? 0); destruct (0 <? _); ssimp; lia.
  - unfold do_stop. destruct (shutdown s); [cbn; lia|]. destruct (_ && _); [cbn; lia|].
    cbn [fst snd o_done]. unfold cz. ssimp. destruct (resetErr s); ssimp; lia.
  - unfold do_ctrl. destruct (queuedReset s); cbn; unfold cz; ssimp; lia.
  - unfold do_racked. destruct (nth_error _ _); [|cbn; lia]. destruct (negb _); [cbn; unfold cz; ssimp; lia|].
    rewrite dec_count. unfold cz. ssimp. reflexivity.
  - unfold do_rlost. destruct (nth_error _ _); [|cbn; lia]. destruct (negb _); cbn; unfold cz; ssimp; lia.
  - unfold do_win. destruct (_ >? _); cbn; unfold cz; ssimp; lia.
  - unfold do_cwin. destruct (_ >? _); cbn; unfold cz; ssimp; lia.
  - unfold do_rel. destruct (isSome _); cbn; unfold cz; ssimp; lia.
  - unfold do_enable. destruct (isSome _); cbn; unfold cz; ssimp; lia.
  - unfold do_shutdown. destruct (_ && _); cbn; unfold cz; ssimp; lia.
Qed.

Definition done_calls (outs : list out) : Z := fold_right (fun x acc => o_done x + acc) 0 outs.

Lemma run_count ops : forall s, done_calls (snd (run s ops)) = cz (fst (run s ops)) - cz s.
Proof.
  induction ops as [|o ops IH]; intros s; cbn [run].
  - cbn. lia.
  - pose proof (step_count s o) as C. destruct (step s o) as [s1 x]. cbn [fst snd] in C.
    specialize (IH s1). destruct (run s1 ops) as [s2 xs]. cbn [fst snd] in *. unfold done_calls in *. cbn [fold_right]. lia.
Qed.

Lemma nc_shutdown s : shutdown (fst (newly_completed s)) = shutdown s.
Proof. pose proof (newly_completed_core s) as E. unfold core in E. inversion E. reflexivity. Qed.
Lemma dec_shutdown s : shutdown (fst (dec_outstanding_then_complete s)) = shutdown s.
Proof. pose proof (dec_core s) as E. unfold core in E. inversion E. reflexivity. Qed.
Lemma write_iter_shutdown b s : shutdown (fst (write_iter b s)) = shutdown s.
Proof.
  unfold write_iter.
  destruct (_ && _); [reflexivity|]. destruct (_ || _); [|reflexivity].
  destruct (_ =? _); [reflexivity|]. destruct (shutdown s) eqn:E; [cbn; ssimp; exact E|].
  destruct (resetErr s) as [[c r]|]; [|cbn; ssimp; exact E].
  match goal with |- context [newly_completed ?x] => pose proof (nc_shutdown x) as N; destruct (newly_completed x) end.
  cbn [fst] in *. rewrite N. ssimp. exact E.
Qed.

Ltac ncS :=
  match goal with |- context [newly_completed ?x] =>
    let N := fresh "N" in pose proof (nc_shutdown x) as N; destruct (newly_completed x); cbn [fst] in N |- * end.

Lemma shutdown_sticky s o : shutdown s = true -> shutdown (fst (step s o)) = true.
Proof.
  intros H. unfold step. destruct (panicked s); [exact H|].
  destruct o; cbn [fst].
  - unfold do_write. destruct (writing s); [exact H|]. destruct (resetErr s) as [[c r]|].
    + ncS. rewrite N. ssimp. exact H.
    + rewrite H. exact H.
  - unfold do_resume. destruct (_ && _); [|exact H]. rewrite write_iter_shutdown. ssimp. exact H.
  - unfold do_close. rewrite H. exact H.
  - unfold do_pop. rewrite H. exact H.
  - unfold do_acked. destruct (nth_error _ _); [|exact H]. destruct (_ && _); [exact H|]. rewrite dec_shutdown. exact H.
  - unfold do_lost. destruct (nth_error _ _); [|exact H]. destruct (_ && _); [exact H|].
    destruct (_ <? 0); [exact H|]. destruct (_ && _ && _).
    + ncS. rewrite N. exact H.
    + exact H.
  - unfold do_cancel. rewrite H. exact H.
  - unfold do_stop. rewrite H. exact H.
  - unfold do_ctrl. destruct (queuedReset s); exact H.
  - unfold do_racked. destruct (nth_error _ _); [|exact H]. destruct (negb _); [exact H|]. rewrite dec_shutdown. exact H.
  - unfold do_rlost. destruct (nth_error _ _); [|exact H]. destruct (negb _); exact H.
  - unfold do_win. destruct (_ >? _); exact H.
  - unfold do_cwin. destruct (_ >? _); exact H.
  - unfold do_rel. destruct (isSome _); exact H.
  - unfold do_enable. destruct (isSome _); exact H.
  - unfold do_shutdown. destruct (_ && _); cbn [fst]; ssimp; [reflexivity|exact H].
Qed.

Lemma run_shutdown_false s ops : shutdown (run_state s ops) = false -> shutdown s = false.
Proof.
  revert s. induction ops as [|o ops IH]; intros s H; [exact H|].
  unfold run_state in *. cbn [fold_left] in H. apply IH in H.
  destruct (shutdown s) eqn:E; auto. rewrite (shutdown_sticky s o E) in H. discriminate.
Qed.

(* the invariant along a run: needs the data invariant (for popStreamFrame) and the counter invariant (numOut >= 0) *)
Theorem run_InvD ops : forall s,
  Inv s -> InvC s -> panicked s = false -> InvD s ->
  late (run_state s ops) = false -> budgets_ok ops -> shutdown (run_state s ops) = false ->
  InvD (run_state s ops).
Proof.
  induction ops as [|o ops IH]; intros s HI HC HP HD HL HB HS; [exact HD|].
  unfold run_state in *. cbn [fold_left] in *.
  assert (HL1 : late (fst (step s o)) = false) by (eapply run_late_false; exact HL).
  assert (HS1 : shutdown (fst (step s o)) = false) by (eapply run_shutdown_false; exact HS).
  assert (HI1 : Inv (fst (step s o))) by (apply step_Inv; auto).
  destruct (step_C s o HI HC HP HL1) as [C1 P1].
  { intros mb E. apply HB. left. exact E. }
  assert (Hn : 0 <= numOut s).
  { rewrite (c_cnt _ HC). unfold cnt_stream, cnt_reset.
    pose proof (zlen_nonneg (outstanding s)). pose proof (zlen_nonneg (filter (fun r => r_rel r =? ro s) (outReset s))).
    destruct (_ && _); lia. }
  apply IH; auto.
  - apply step_InvD; auto.
  - intros mb Hin. apply HB. right. exact Hin.
Qed.
