(** Basic facts for the SendStream proofs: byte ranges of the written stream, frame
    arithmetic of wire.StreamFrame (MaxDataLen / Length / MaybeSplitOffFrame). *)
From Coq Require Import List ZArith Bool Lia.
From V Require Import Gen.Params Lib.Hex Wire.Varint SendStream.Model.
From V Require Wire.FramesStream Wire.FramesStreamProofs.
Import ListNotations.
Open Scope Z_scope.

Lemma zlen_app {A} (a b : list A) : zlen (a ++ b) = zlen a + zlen b.
Proof. unfold zlen. rewrite app_length. lia. Qed.
Lemma zlen_nonneg {A} (a : list A) : 0 <= zlen a.
Proof. unfold zlen. lia. Qed.
Lemma zlen_nil {A} : zlen (@nil A) = 0.
Proof. reflexivity. Qed.
Lemma zlen_cons {A} (x : A) l : zlen (x :: l) = 1 + zlen l.
Proof. unfold zlen. cbn [length]. lia. Qed.
Lemma zlen_zero_nil {A} (l : list A) : zlen l = 0 -> l = [].
Proof. destruct l; auto. rewrite zlen_cons. pose proof (zlen_nonneg l). lia. Qed.
Lemma isNil_true {A} (l : list A) : isNil l = true <-> l = [].
Proof. destruct l; simpl; split; congruence. Qed.
Lemma isNil_false {A} (l : list A) : isNil l = false <-> l <> [].
Proof. destruct l; simpl; split; congruence. Qed.
Lemma isNil_zlen {A} (l : list A) : isNil l = false -> 0 < zlen l.
Proof. destruct l; simpl; try congruence. intros _. rewrite zlen_cons. pose proof (zlen_nonneg l). lia. Qed.

Lemma zfirstn_skipn {A} n (l : list A) : zfirstn n l ++ zskipn n l = l.
Proof. apply firstn_skipn. Qed.
Lemma zlen_zfirstn {A} n (l : list A) : 0 <= n <= zlen l -> zlen (zfirstn n l) = n.
Proof. unfold zlen, zfirstn. intros H. rewrite firstn_length. lia. Qed.
Lemma zlen_zfirstn_le {A} n (l : list A) : zlen (zfirstn n l) <= zlen l.
Proof. unfold zlen, zfirstn. rewrite firstn_length. lia. Qed.
Lemma zlen_zfirstn_le' {A} n (l : list A) : 0 <= n -> zlen (zfirstn n l) <= n.
Proof. unfold zlen, zfirstn. rewrite firstn_length. lia. Qed.
Lemma zlen_zskipn {A} n (l : list A) : 0 <= n <= zlen l -> zlen (zskipn n l) = zlen l - n.
Proof. unfold zlen, zskipn. intros H. rewrite skipn_length. lia. Qed.
Lemma zfirstn_all {A} n (l : list A) : zlen l <= n -> zfirstn n l = l.
Proof. unfold zlen, zfirstn. intros H. apply firstn_all2. lia. Qed.
Lemma zfirstn_app_l {A} n (a b : list A) : n <= zlen a -> zfirstn n (a ++ b) = zfirstn n a.
Proof.
  unfold zlen, zfirstn. intros H. rewrite firstn_app.
  replace (Z.to_nat n - length a)%nat with 0%nat by lia. simpl. apply app_nil_r.
Qed.
Lemma zfirstn_zfirstn {A} n m (l : list A) : 0 <= n <= m -> zfirstn n (zfirstn m l) = zfirstn n l.
Proof. unfold zfirstn. intros H. rewrite firstn_firstn. f_equal. lia. Qed.
Lemma zfirstn_zskipn_comm {A} n m (l : list A) : 0 <= m <= n ->
  zfirstn (n - m) (zskipn m l) = zskipn m (zfirstn n l).
Proof.
  unfold zfirstn, zskipn. intros H. rewrite skipn_firstn_comm. f_equal. lia.
Qed.
Lemma zfirstn_nil {A} n : zfirstn n (@nil A) = [].
Proof. unfold zfirstn. apply firstn_nil. Qed.

(** a frame carries the bytes of [Wd] at its offset *)
Definition good (Wd : list Z) (f : frame) : Prop :=
  exists pre post, Wd = pre ++ f_data f ++ post /\ zlen pre = f_off f.

Lemma good_app Wd x f : good Wd f -> good (Wd ++ x) f.
Proof.
  intros (pre & post & E & L). exists pre, (post ++ x). split; auto.
  rewrite E. now rewrite <- !app_assoc.
Qed.
Lemma good_range Wd f : good Wd f -> 0 <= f_off f /\ f_end f <= zlen Wd.
Proof.
  intros (pre & post & E & L). unfold f_end. rewrite E, !zlen_app.
  pose proof (zlen_nonneg pre). pose proof (zlen_nonneg post). lia.
Qed.
Lemma good_slice Wd f : good Wd f -> f_data f = zfirstn (zlen (f_data f)) (zskipn (f_off f) Wd).
Proof.
  intros (pre & post & E & L). unfold zfirstn, zskipn, zlen in *. rewrite E.
  replace (Z.to_nat (f_off f)) with (length pre) by lia.
  rewrite skipn_app, skipn_all, Nat.sub_diag. simpl.
  rewrite Nat2Z.id, firstn_app, firstn_all, Nat.sub_diag. simpl. now rewrite app_nil_r.
Qed.
Lemma good_fin Wd o d b b' : good Wd (mkF o d b) -> good Wd (mkF o d b').
Proof. intros (pre & post & E & L). exists pre, post. auto. Qed.
Lemma good_firstn Wd o d b b' n : good Wd (mkF o d b) -> good Wd (mkF o (zfirstn n d) b').
Proof.
  intros (pre & post & E & L). cbn in *. exists pre, (zskipn n d ++ post). cbn. split; auto.
  rewrite E. rewrite app_assoc, (app_assoc (zfirstn n d)), zfirstn_skipn. now rewrite <- app_assoc.
Qed.
Lemma good_skipn Wd o d b b' n : good Wd (mkF o d b) -> 0 <= n <= zlen d -> good Wd (mkF (o + n) (zskipn n d) b').
Proof.
  intros (pre & post & E & L) Hn. cbn in *. exists (pre ++ zfirstn n d), post. cbn. split.
  - rewrite E. rewrite <- app_assoc. f_equal. rewrite app_assoc, zfirstn_skipn. reflexivity.
  - rewrite zlen_app, zlen_zfirstn; lia.
Qed.

(** ** frame size arithmetic *)
Lemma vlen_cases v : 0 <= v ->
  (v <= 63 /\ vlen v = 1) \/ (63 < v <= 16383 /\ vlen v = 2) \/ (16383 < v /\ (vlen v = 4 \/ vlen v = 8 \/ vlen v = 0)).
Proof.
  intros H. unfold vlen, maxVarInt1, maxVarInt2, maxVarInt4, maxVarInt8.
  repeat match goal with |- context [?a <=? ?b] => destruct (Z.leb_spec a b) end; lia.
Qed.

Lemma ss_bufsize_small : ssMaxPacketBufferSize <= 16383.
Proof. unfold ssMaxPacketBufferSize. lia. Qed.

(** shrinkForLengthField (C08's model): what is known about it for every space *)
Notation shrink := V.Wire.FramesStream.shrink_for_length_field.
Lemma shrink_range space : 0 <= space -> 0 <= shrink space <= space.
Proof.
  intros H. destruct (Z.le_gt_cases space maxVarInt8) as [L|G].
  - apply V.Wire.FramesStreamProofs.shrink_spec. lia.
  - unfold V.Wire.FramesStream.shrink_for_length_field. cbn [V.Wire.FramesStream.shrink_loop].
    replace (vlen space) with 0.
    + destruct (0 <? space); cbn [andb]; [destruct (Z.ltb_spec space (0 - 1 + space)); lia|lia].
    + unfold vlen, maxVarInt1, maxVarInt2, maxVarInt4 in *. unfold maxVarInt8 in G |- *.
      repeat match goal with |- context [?a <=? ?b] => destruct (Z.leb_spec a b) end; lia.
Qed.

Lemma max_data_len_spec sid0 off maxSize :
  let h := 1 + vlen sid0 + offLen off + 1 in
  let r := max_data_len sid0 off maxSize in
  (maxSize < h -> r = 0) /\
  (h <= maxSize -> 0 <= r <= maxSize - h /\
     (maxSize - h <= maxVarInt8 ->
      vlen r - 1 + r <= maxSize - h /\ forall d, r < d <= maxSize - h -> maxSize - h < vlen d - 1 + d)).
Proof.
  cbn zeta. unfold max_data_len. destruct (Z.gtb_spec (1 + vlen sid0 + offLen off + 1) maxSize); split; try lia.
  intros _. split; [apply shrink_range; lia|]. intros Hb.
  apply V.Wire.FramesStreamProofs.shrink_spec. lia.
Qed.

(* when MaybeSplitOffFrame has to split, what fits is strictly shorter than the payload *)
Lemma split_fits sid0 f maxSize :
  zlen (f_data f) <= 16383 ->
  (maxSize >=? frame_len sid0 f) = false ->
  max_data_len sid0 (f_off f) maxSize = 0 \/
  0 < max_data_len sid0 (f_off f) maxSize < zlen (f_data f).
Proof.
  intros Hd Hs. rewrite Z.geb_leb in Hs. apply Z.leb_gt in Hs.
  unfold frame_len in Hs.
  pose proof (max_data_len_spec sid0 (f_off f) maxSize) as [A B]. cbn zeta in A, B.
  set (h := 1 + vlen sid0 + offLen (f_off f)) in *.
  set (r := max_data_len sid0 (f_off f) maxSize) in *.
  pose proof (zlen_nonneg (f_data f)) as Hn.
  destruct (Z.lt_ge_cases maxSize (h + 1)) as [L|G]; [left; apply A; lia|].
  destruct (B ltac:(lia)) as [R1 R2].
  assert (Hv : vlen (zlen (f_data f)) <= 2).
  { destruct (vlen_cases _ Hn) as [[? E]|[[? E]|[? _]]]; lia. }
  destruct (R2 ltac:(unfold maxVarInt8; lia)) as [R3 _].
  destruct (Z.eq_dec r 0) as [E|E]; [now left|right]. split; [lia|].
  destruct (Z.lt_ge_cases r (zlen (f_data f))) as [|Ge]; [assumption|exfalso].
  assert (vlen (zlen (f_data f)) <= vlen r).
  { destruct (vlen_cases _ Hn) as [[? E1]|[[? E1]|[? _]]]; try lia;
    destruct (vlen_cases r ltac:(lia)) as [[? E2]|[[? E2]|[? [E2|[E2|E2]]]]]; try lia.
    all: exfalso; unfold vlen, maxVarInt1, maxVarInt2, maxVarInt4, maxVarInt8 in E2;
      repeat match type of E2 with context [?a <=? ?b] => destruct (Z.leb_spec a b) end; lia. }
  lia.
Qed.

Lemma maybe_split_spec sid0 f maxSize new rest :
  zlen (f_data f) <= 16383 ->
  maybe_split sid0 f maxSize = Some (Some (new, rest)) ->
  exists n, 0 < n < zlen (f_data f) /\
    new = mkF (f_off f) (zfirstn n (f_data f)) false /\
    rest = mkF (f_off f + n) (zskipn n (f_data f)) (f_fin f).
Proof.
  intros Hd. unfold maybe_split. destruct (maxSize >=? frame_len sid0 f) eqn:E; try discriminate.
  destruct (Z.eqb_spec (max_data_len sid0 (f_off f) maxSize) 0); try discriminate.
  destruct (split_fits _ _ _ Hd E) as [H1|H1]; [lia|].
  intros H. inversion H; subst. eexists; split; [|split; reflexivity]. lia.
Qed.

(* the union of the byte ranges is preserved by a split, the FIN stays on the remainder *)
Lemma split_preserves_range sid0 f maxSize new rest :
  zlen (f_data f) <= 16383 ->
  maybe_split sid0 f maxSize = Some (Some (new, rest)) ->
  f_off new = f_off f /\ f_off rest = f_end new /\ f_end rest = f_end f /\
  f_data new ++ f_data rest = f_data f /\ f_fin new = false /\ f_fin rest = f_fin f /\
  0 < zlen (f_data new) /\ 0 < zlen (f_data rest).
Proof.
  intros Hd H. destruct (maybe_split_spec _ _ _ _ _ Hd H) as (n & Hn & -> & ->).
  unfold f_end. cbn. rewrite zlen_zfirstn, zlen_zskipn by lia. rewrite zfirstn_skipn.
  repeat split; lia.
Qed.

(* a frame returned by MaybeSplitOffFrame / built with MaxDataLen fits the budget *)
Lemma max_data_len_nonneg sid0 off maxSize : 0 <= vlen sid0 -> 0 <= offLen off -> 0 <= max_data_len sid0 off maxSize.
Proof.
  intros. pose proof (max_data_len_spec sid0 off maxSize) as [A B]. cbn zeta in A, B.
  destruct (Z.lt_ge_cases maxSize (1 + vlen sid0 + offLen off + 1)) as [L|G]; [rewrite (A L); lia|].
  apply (B G).
Qed.
