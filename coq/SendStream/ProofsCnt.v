(** numOutstandingFrames is exactly the number of frames whose acknowledgement or loss the stream
    still waits for, in every history (reset or not, [late] = false) — hence the panics
    "numOutStandingFrames negative" are unreachable, and with pop budgets of at most one packet
    the model never panics at all. *)
From Coq Require Import List ZArith Bool Lia.
From V Require Import Gen.Params Lib.Hex Wire.Varint SendStream.Model SendStream.ProofsBase SendStream.ProofsInv
  SendStream.ProofsCov.
Import ListNotations.
Open Scope Z_scope.

(* STREAM frames in flight that still count: none once the stream was reset without reliable size *)
Definition cnt_stream (s : state) : Z :=
  if isSome (resetErr s) && (ro s =? 0) then 0 else zlen (outstanding s).
(* RESET_STREAM(_AT) frames in flight that still count: those that carry the current reliable size *)
Definition cnt_reset (s : state) : Z := zlen (filter (fun r => r_rel r =? ro s) (outReset s)).

Record InvC (s : state) : Prop := {
  c_cnt : numOut s = cnt_stream s + cnt_reset s;
  c_none : resetErr s = None -> outReset s = [] /\ queuedReset s = None;
  c_rrel : resetErr s <> None -> 0 < ro s -> forall r, In r (outReset s) -> r_rel r = ro s;
  c_qrel : forall r, queuedReset s = Some r -> r_rel r = ro s
}.

Lemma init_InvC sid0 rsa swin cwin : InvC (init sid0 rsa swin cwin).
Proof. constructor; unfold cnt_stream, cnt_reset, init; ssimp; cbn; auto; try discriminate. intros _ _ r []. Qed.

Definition core4 (s : state) :=
  (numOut s, outstanding s, outReset s, queuedReset s, resetErr s, supportsRSA s, reliableSize s).
Lemma InvC_core s s' : core4 s = core4 s' -> InvC s -> InvC s'.
Proof.
  unfold core4. intros E [H1 H2 H3 H4]. inversion E as [[E1 E2 E3 E4 E5 E6 E7]].
  constructor; unfold cnt_stream, cnt_reset, ro in *; rewrite <- ?E1, <- ?E2, <- ?E3, <- ?E4, <- ?E5, <- ?E6, <- ?E7; assumption.
Qed.
Lemma nc_core4 s : core4 (fst (newly_completed s)) = core4 s.
Proof.
  unfold newly_completed.
  repeat match goal with |- context [if ?c then _ else _] => destruct c end; reflexivity.
Qed.
Lemma nc_panicked s : panicked (fst (newly_completed s)) = panicked s.
Proof.
  unfold newly_completed.
  repeat match goal with |- context [if ?c then _ else _] => destruct c end; reflexivity.
Qed.
Ltac nc4 :=
  match goal with
  | |- context [newly_completed ?x] =>
    let s1 := fresh "s" in let c := fresh "c" in let E := fresh "Enc4" in let P := fresh "Pnc" in
    pose proof (nc_core4 x) as E; pose proof (nc_panicked x) as P; destruct (newly_completed x) as [s1 c]; cbn [fst] in E, P
  end.

Lemma filter_remove_nth {A} (f : A -> bool) i l x :
  nth_error l i = Some x ->
  zlen (filter f (remove_nth i l)) = zlen (filter f l) - (if f x then 1 else 0).
Proof.
  revert i. induction l as [|y l IH]; intros i E; [destruct i; discriminate|].
  destruct i; cbn [nth_error remove_nth filter] in *.
  - inversion E; subst. destruct (f x); [rewrite zlen_cons|]; lia.
  - specialize (IH _ E). destruct (f y); rewrite ?zlen_cons, IH; lia.
Qed.
Lemma filter_nonneg {A} (f : A -> bool) l : 0 <= zlen (filter f l).
Proof. apply zlen_nonneg. Qed.
Lemma filter_pos {A} (f : A -> bool) i l x : nth_error l i = Some x -> f x = true -> 1 <= zlen (filter f l).
Proof.
  revert i. induction l as [|y l IH]; intros i E F; [destruct i; discriminate|].
  destruct i; cbn [nth_error filter] in *.
  - inversion E; subst. rewrite F, zlen_cons. pose proof (zlen_nonneg (filter f l)). lia.
  - specialize (IH _ E F). destruct (f y); rewrite ?zlen_cons; lia.
Qed.

(* the decrement in OnAcked / OnLost / RESET acked never goes below zero when something counted is in flight *)
Lemma dec_ok s :
  1 <= numOut s ->
  let s1 := fst (dec_outstanding_then_complete s) in
  panicked s1 = panicked s /\
  core4 s1 = (numOut s - 1, outstanding s, outReset s, queuedReset s, resetErr s, supportsRSA s, reliableSize s).
Proof.
  intros H. unfold dec_outstanding_then_complete. destruct (Z.ltb_spec (numOut s - 1) 0); [lia|].
  nc4. cbn [fst]. split; [rewrite Pnc; reflexivity|]. rewrite Enc4. reflexivity.
Qed.

Lemma write_iter_core4 b s : core4 (fst (write_iter b s)) = core4 s /\ panicked (fst (write_iter b s)) = panicked s.
Proof.
  unfold write_iter. destruct (_ && _); [split; reflexivity|]. destruct (_ || _); [|split; reflexivity].
  destruct (_ =? _); [split; reflexivity|]. destruct (shutdown s); [split; reflexivity|].
  destruct (resetErr s) as [[c r]|] eqn:E; [|split; unfold core4; ssimp; rewrite ?E; reflexivity].
  nc4. cbn [fst]. rewrite Enc4, Pnc. unfold core4. ssimp. rewrite E. split; reflexivity.
Qed.

Definition stepC (s s' : state) : Prop := InvC s' /\ panicked s' = false.

Lemma same4 s s' : InvC s -> panicked s = false -> core4 s' = core4 s -> panicked s' = panicked s -> stepC s s'.
Proof. intros H P E1 E2. split; [eapply InvC_core; [symmetry; exact E1|exact H]|congruence]. Qed.

Lemma do_write_C p s : InvC s -> panicked s = false -> stepC s (fst (do_write p s)).
Proof.
  intros H P. unfold do_write. destruct (writing s); [split; auto|].
  destruct (resetErr s) as [[c r]|] eqn:E.
  { nc4. cbn [fst]. apply same4; auto; rewrite ?Enc4; unfold core4; ssimp; rewrite ?E; reflexivity. }
  destruct (shutdown s); [split; auto|]. destruct (finishedWriting s); [split; auto|]. destruct (isNil p); [split; auto|].
  match goal with |- context [write_iter ?b ?x] => destruct (write_iter_core4 b x) as [A B] end.
  apply same4; auto; rewrite ?A; reflexivity.
Qed.
Lemma do_resume_C s : InvC s -> panicked s = false -> stepC s (fst (do_resume s)).
Proof.
  intros H P. unfold do_resume. destruct (_ && _); [|split; auto].
  match goal with |- context [write_iter ?b ?x] => destruct (write_iter_core4 b x) as [A B] end.
  apply same4; auto; rewrite ?A; reflexivity.
Qed.
Lemma do_close_C s : InvC s -> panicked s = false -> stepC s (fst (do_close s)).
Proof.
  intros H P. unfold do_close. destruct (_ || _); [split; auto|]. nc4.
  destruct (isSome (resetErr s)); cbn [fst]; apply same4; auto; rewrite ?Enc4, ?Pnc; reflexivity.
Qed.

Lemma cnt_stream_eq s : ~ (resetErr s <> None /\ ro s = 0) -> cnt_stream s = zlen (outstanding s).
Proof.
  intros H. unfold cnt_stream. destruct (resetErr s) eqn:E; cbn [isSome andb]; [|reflexivity].
  destruct (Z.eqb_spec (ro s) 0); [|reflexivity]. exfalso. apply H. split; [discriminate|assumption].
Qed.

Lemma do_acked_C i s : InvC s -> panicked s = false -> stepC s (fst (do_acked i s)).
Proof.
  intros H P. unfold do_acked. destruct (nth_error (outstanding s) i) as [f|] eqn:En; [|split; auto].
  set (s0 := set_acked _ _).
  pose proof (zlen_remove_nth _ _ _ En) as Hz. pose proof (zlen_nonneg (remove_nth i (outstanding s))) as Hz'.
  destruct H as [H1 H2 H3 H4].
  destruct (isSome (resetErr s0) && (ro s0 =? 0)) eqn:EG.
  - split; [|exact P]. constructor; unfold cnt_stream, cnt_reset, ro in *; subst s0; ssimp; auto.
    unfold ro in EG. ssimp. rewrite EG in *. exact H1.
  - assert (Hc : cnt_stream s = zlen (outstanding s)) by (unfold cnt_stream; subst s0; unfold ro in *; ssimp; rewrite EG; reflexivity).
    pose proof (filter_nonneg (fun r => r_rel r =? ro s) (outReset s)) as Hf. unfold cnt_reset in H1.
    assert (Hn : 1 <= numOut s0) by (subst s0; ssimp; lia).
    destruct (dec_ok s0 Hn) as [D1 D2]. unfold core4 in D2. inversion D2 as [[E1 E2 E3 E4 E5 E6 E7]].
    split; [|rewrite D1; exact P].
    constructor; unfold cnt_stream, cnt_reset, ro in *; rewrite ?E1, ?E2, ?E3, ?E4, ?E5, ?E6, ?E7; subst s0; ssimp; auto.
    ssimp. rewrite EG. lia.
Qed.

Lemma do_lost_C i s : InvC s -> panicked s = false -> stepC s (fst (do_lost i s)).
Proof.
  intros H P. unfold do_lost. destruct (nth_error (outstanding s) i) as [f|] eqn:En; [|split; auto].
  set (s0 := set_outstanding _ _).
  pose proof (zlen_remove_nth _ _ _ En) as Hz. pose proof (zlen_nonneg (remove_nth i (outstanding s))) as Hz'.
  destruct H as [H1 H2 H3 H4].
  destruct (isSome (resetErr s0) && (ro s0 =? 0)) eqn:EG.
  - split; [|exact P]. constructor; unfold cnt_stream, cnt_reset, ro in *; subst s0; ssimp; auto.
    unfold ro in EG. ssimp. rewrite EG in *. exact H1.
  - assert (Hc : cnt_stream s = zlen (outstanding s)) by (unfold cnt_stream; subst s0; unfold ro in *; ssimp; rewrite EG; reflexivity).
    pose proof (filter_nonneg (fun r => r_rel r =? ro s) (outReset s)) as Hf. unfold cnt_reset in H1.
    destruct (Z.ltb_spec (numOut s0 - 1) 0) as [Hl|Hl]; [subst s0; ssimp; lia|].
    assert (HC1 : InvC (set_numOut (numOut s0 - 1) s0)).
    { constructor; unfold cnt_stream, cnt_reset, ro in *; subst s0; ssimp; auto. ssimp. rewrite EG. lia. }
    destruct (_ && _ && _).
    + nc4. cbn [fst]. apply same4 with (s := set_numOut (numOut s0 - 1) s0); auto.
    + cbn [fst]. apply same4 with (s := set_numOut (numOut s0 - 1) s0); auto.
Qed.

Lemma filter_all_false {A} (f : A -> bool) l : (forall x, In x l -> f x = false) -> filter f l = [].
Proof.
  induction l as [|x l IH]; intros H; [reflexivity|]. cbn [filter]. rewrite (H x (or_introl eq_refl)).
  apply IH. intros y Hy. apply H. right. exact Hy.
Qed.

Lemma do_cancel_C c s : Inv s -> InvC s -> panicked s = false -> stepC s (fst (do_cancel c s)).
Proof.
  intros HI H P. unfold do_cancel. destruct (shutdown s); [split; auto|]. ssimp.
  destruct (isSome (resetErr s)) eqn:ER.
  { nc4. cbn [fst]. apply same4; auto; rewrite ?Enc4; reflexivity. }
  apply isSome_false in ER. pose proof (ro_nonneg s HI) as Hro.
  destruct H as [H1 H2 H3 H4]. destruct (H2 ER) as [Ho Hq].
  set (r := ro (set_resetErr (Some (c, false)) (set_cancellationFlagged true s))).
  assert (Er : r = ro s) by reflexivity.
  assert (Hcs : cnt_stream s = zlen (outstanding s)) by (unfold cnt_stream; rewrite ER; reflexivity).
  unfold cnt_reset in H1. rewrite Ho in H1. cbn [filter] in H1. change (zlen (@nil rst)) with 0 in H1.
  destruct (Z.eqb_spec r 0) as [E0|E0].
  - assert (E1 : (0 <? r) = false) by (apply Z.ltb_ge; lia). rewrite E1. cbn [fst]. split; [|exact P].
    constructor; unfold cnt_stream, cnt_reset; ssimp; try discriminate.
    + change (ro _) with r. rewrite Ho. cbn [isSome andb filter]. rewrite E0. cbn. reflexivity.
    + rewrite Ho. intros _ _ x [].
    + intros x E. inversion E. cbn. reflexivity.
  - assert (E1 : (0 <? r) = true) by (apply Z.ltb_lt; lia). rewrite E1. cbn [fst]. split; [|exact P].
    constructor; unfold cnt_stream, cnt_reset; ssimp; try discriminate.
    + change (ro _) with r. rewrite Ho. cbn [isSome andb filter].
      destruct (Z.eqb_spec r 0); [lia|]. change (zlen (@nil rst)) with 0. lia.
    + rewrite Ho. intros _ _ x [].
    + intros x E. inversion E. cbn. reflexivity.
Qed.

Lemma do_stop_C c s : Inv s -> InvC s -> panicked s = false -> stepC s (fst (do_stop c s)).
Proof.
  intros HI H P. unfold do_stop. destruct (shutdown s); [split; auto|].
  destruct (isSome (resetErr s) && (ro s =? 0)) eqn:EG; [split; auto|].
  pose proof (ro_nonneg s HI) as Hro. destruct H as [H1 H2 H3 H4].
  assert (Hf : filter (fun r => r_rel r =? 0) (outReset s) = []).
  { destruct (resetErr s) eqn:ER.
    - cbn [isSome andb] in EG. apply Z.eqb_neq in EG.
      apply filter_all_false. intros x Hx. apply Z.eqb_neq. rewrite (H3 ltac:(discriminate) ltac:(lia) x Hx). exact EG.
    - destruct (H2 eq_refl) as [Ho _]. rewrite Ho. reflexivity. }
  cbn [fst]. ssimp. split; [|destruct (resetErr s); ssimp; exact P].
  destruct (resetErr s) as [[c0 r0]|] eqn:ER; constructor; unfold cnt_stream, cnt_reset, ro; ssimp; rewrite ?ER;
    try discriminate; cbn [isSome andb];
    try (destruct (supportsRSA s); cbn; rewrite Hf; reflexivity);
    try (intros _ X; exfalso; destruct (supportsRSA s); lia);
    try (intros x E; inversion E; cbn; destruct (supportsRSA s); reflexivity).
Qed.

Lemma filter_app1 {A} (f : A -> bool) l x : zlen (filter f (l ++ [x])) = zlen (filter f l) + (if f x then 1 else 0).
Proof. rewrite filter_app, zlen_app. cbn [filter]. destruct (f x); [change (zlen [x]) with 1|change (zlen (@nil A)) with 0]; lia. Qed.

Lemma do_ctrl_C s : InvC s -> panicked s = false -> stepC s (fst (do_ctrl s)).
Proof.
  intros H P. unfold do_ctrl. destruct (queuedReset s) as [r|] eqn:EQ; [|split; auto].
  destruct H as [H1 H2 H3 H4]. pose proof (H4 r EQ) as Hr.
  assert (ER : resetErr s <> None) by (intros X; destruct (H2 X) as [_ Y]; congruence).
  cbn [fst]. split; [|exact P]. constructor; unfold cnt_stream, cnt_reset, ro in *; ssimp.
  - rewrite filter_app1. rewrite Hr, Z.eqb_refl. lia.
  - intros X. congruence.
  - intros A B x Hx. apply in_app_or in Hx. destruct Hx as [Hx|[Hx|[]]]; [auto|subst x; exact Hr].
  - discriminate.
Qed.

Lemma do_racked_C i s : InvC s -> panicked s = false -> stepC s (fst (do_racked i s)).
Proof.
  intros H P. unfold do_racked. destruct (nth_error (outReset s) i) as [r|] eqn:En; [|split; auto].
  set (s0 := set_outReset _ _). destruct H as [H1 H2 H3 H4].
  assert (ER : resetErr s <> None).
  { intros X. destruct (H2 X) as [Y _]. rewrite Y in En. destruct i; discriminate. }
  pose proof (filter_remove_nth (fun x => r_rel x =? ro s) i _ _ En) as Hf. cbn beta in Hf.
  assert (H0 : r_rel r <> ro s -> InvC s0).
  { intros Hne. apply Z.eqb_neq in Hne. rewrite Hne in Hf.
    constructor; unfold cnt_stream, cnt_reset, ro in *; subst s0; ssimp; auto.
    - rewrite Hf. lia.
    - intros X. congruence.
    - intros A B x Hx. apply In_remove_nth in Hx. auto. }
  destruct (Z.eqb_spec (r_rel r) (ro s0)) as [Ee|Ee]; cbn [negb].
  2:{ split; [apply H0; exact Ee|exact P]. }
  change (ro s0) with (ro s) in Ee.
  assert (Ht : (r_rel r =? ro s) = true) by (apply Z.eqb_eq; exact Ee). rewrite Ht in Hf.
  pose proof (filter_pos (fun x => r_rel x =? ro s) i _ _ En Ht) as Hp.
  assert (Hcs : 0 <= cnt_stream s) by (unfold cnt_stream; destruct (_ && _); [lia|apply zlen_nonneg]).
  unfold cnt_reset in H1.
  assert (Hn : 1 <= numOut s0) by (subst s0; ssimp; lia).
  destruct (dec_ok s0 Hn) as [D1 D2]. unfold core4 in D2. inversion D2 as [[E1 E2 E3 E4 E5 E6 E7]].
  split; [|rewrite D1; exact P].
  constructor; unfold cnt_stream, cnt_reset, ro in *; rewrite ?E1, ?E2, ?E3, ?E4, ?E5, ?E6, ?E7; subst s0; ssimp; auto.
  - rewrite Hf. lia.
  - intros X. congruence.
  - intros A B x Hx. apply In_remove_nth in Hx. auto.
Qed.

Lemma do_rlost_C i s : InvC s -> panicked s = false -> stepC s (fst (do_rlost i s)).
Proof.
  intros H P. unfold do_rlost. destruct (nth_error (outReset s) i) as [r|] eqn:En; [|split; auto].
  destruct H as [H1 H2 H3 H4].
  assert (ER : resetErr s <> None).
  { intros X. destruct (H2 X) as [Y _]. rewrite Y in En. destruct i; discriminate. }
  pose proof (filter_remove_nth (fun x => r_rel x =? ro s) i _ _ En) as Hf. cbn beta in Hf.
  ssimp. change (ro (set_outReset (remove_nth i (outReset s)) s)) with (ro s).
  destruct (Z.eqb_spec (r_rel r) (ro s)) as [Ee|Ee]; cbn [negb fst]; (split; [|exact P]);
    constructor; unfold cnt_stream, cnt_reset, ro in *; ssimp; auto; try (intros X; congruence);
    try (intros A B x Hx; apply In_remove_nth in Hx; auto).
  all: rewrite Hf; destruct (Z.eqb_spec (r_rel r) (if supportsRSA s then reliableSize s else 0)); lia.
Qed.

Lemma do_rel_C s : InvC s -> panicked s = false -> stepC s (fst (do_rel s)).
Proof.
  intros H P. unfold do_rel. destruct (isSome (resetErr s)) eqn:E; [split; auto|].
  apply isSome_false in E. destruct H as [H1 H2 H3 H4]. destruct (H2 E) as [Ho Hq].
  cbn [fst]. split; [|exact P]. unfold cnt_stream, cnt_reset in H1. rewrite E, Ho in H1. cbn in H1.
  constructor; unfold cnt_stream, cnt_reset, ro; ssimp; rewrite ?E, ?Ho, ?Hq; cbn; auto; try congruence; try discriminate; try (intros _ _ x []).
Qed.

Lemma do_enable_C s : InvC s -> panicked s = false -> stepC s (fst (do_enable s)).
Proof.
  intros H P. unfold do_enable. destruct (isSome (resetErr s)) eqn:E; [split; auto|].
  apply isSome_false in E. destruct H as [H1 H2 H3 H4]. destruct (H2 E) as [Ho Hq].
  cbn [fst]. split; [|exact P]. unfold cnt_stream, cnt_reset in H1. rewrite E, Ho in H1. cbn in H1.
  constructor; unfold cnt_stream, cnt_reset, ro; ssimp; rewrite ?E, ?Ho, ?Hq; cbn; auto; try congruence; try discriminate; try (intros _ _ x []).
Qed.

Lemma max_data_len_le sid0 off mb : max_data_len sid0 off mb <= Z.max 0 mb.
Proof.
  pose proof (vlen_nonneg sid0). pose proof (offLen_nonneg off).
  pose proof (max_data_len_spec sid0 off mb) as [A B]. cbn zeta in A, B.
  destruct (Z.lt_ge_cases mb (1 + vlen sid0 + offLen off + 1)) as [L|G]; [rewrite (A L); lia|].
  destruct (B G) as [R _]. lia.
Qed.

(* with a budget of at most one packet the pooled-frame slice never overflows *)
Lemma popNew_no_panic mb mdl s :
  mb <= ssMaxPacketBufferSize -> panicked (fst (fst (popNewStreamFrame mb mdl s))) = panicked s.
Proof.
  intros Hb. unfold popNewStreamFrame. destruct (nextFrame s) as [[o d]|].
  - destruct (_ =? 0); [reflexivity|]. destruct (_ >? _); reflexivity.
  - destruct (_ =? 0); [reflexivity|].
    pose proof (max_data_len_le (sid s) (writeOffset s) mb) as Hm. pose proof ssmax_pos.
    destruct (Z.gtb_spec (Z.min (zlen (dataForWriting s)) (Z.min (max_data_len (sid s) (writeOffset s) mb) mdl)) ssMaxPacketBufferSize); [lia|].
    pose proof (getData_spec (Z.min (max_data_len (sid s) (writeOffset s) mb) mdl) s) as G.
    destruct (getDataForWriting _ s) as [s1 data]. destruct G as (_ & _ & _ & _ & _ & G).
    destruct (isNil data); cbn [fst]; exact G.
Qed.

Lemma popNew_same_rest mb mdl s : same_rest (fst (fst (popNewStreamFrame mb mdl s))) s.
Proof.
  unfold popNewStreamFrame. destruct (nextFrame s) as [[o d]|].
  - destruct (Z.min mdl (max_data_len (sid s) o mb) =? 0); [apply same_rest_refl|].
    destruct (zlen d >? Z.min mdl (max_data_len (sid s) o mb)); unfold same_rest; ssimp; repeat split.
  - destruct (max_data_len (sid s) (writeOffset s) mb =? 0); [apply same_rest_refl|].
    destruct (_ >? ssMaxPacketBufferSize); [unfold same_rest; ssimp; repeat split|].
    match goal with |- context [getDataForWriting ?n s] => pose proof (getData_spec n s) as G; destruct (getDataForWriting n s) as [s2 data] end.
    destruct G as (G & _). destruct (isNil data); cbn [fst]; exact G.
Qed.

Lemma do_pop_C mb s :
  Inv s -> InvC s -> panicked s = false -> mb <= ssMaxPacketBufferSize -> stepC s (fst (do_pop mb s)).
Proof.
  intros HI H P Hb. unfold do_pop. destruct (shutdown s) eqn:Esh; [split; auto|].
  destruct (isSome (resetErr s) && ((ro s =? 0) || ((writeOffset s >=? ro s) && isNil (retransQ s)))) eqn:EG; [split; auto|].
  assert (Hnf0 : ~ (resetErr s <> None /\ ro s = 0)).
  { intros [A B]. destruct (resetErr s); [|congruence]. cbn [isSome andb] in EG. rewrite B in EG. cbn in EG. discriminate. }
  pose proof (cnt_stream_eq s Hnf0) as Hcs.
  destruct H as [H1 H2 H3 H4].
  (* what every branch that emits a frame does to the counters *)
  assert (Hemit : forall s',
            numOut s' = numOut s + 1 -> (exists f, outstanding s' = outstanding s ++ [f]) ->
            outReset s' = outReset s -> queuedReset s' = queuedReset s -> resetErr s' = resetErr s ->
            supportsRSA s' = supportsRSA s -> reliableSize s' = reliableSize s -> panicked s' = false ->
            stepC s s').
  { intros s' E1 (f & E2) E3 E4 E5 E6 E7 E8. split; [|exact E8].
    assert (Ero : ro s' = ro s) by (unfold ro; rewrite E6, E7; reflexivity).
    constructor; unfold cnt_stream, cnt_reset in *; rewrite ?Ero, ?E3, ?E4, ?E5; auto.
    rewrite E1, E2, zlen_app. change (zlen [f]) with 1.
    unfold cnt_stream in Hcs. destruct (isSome (resetErr s) && (ro s =? 0)) eqn:EC; [|lia].
    exfalso. apply Hnf0. apply andb_prop in EC. destruct EC as [EC1 EC2]. apply Z.eqb_eq in EC2.
    split; [apply isSome_true; exact EC1|exact EC2]. }
  destruct (retransQ s) as [|f q] eqn:EQ.
  2:{ destruct (maybe_split (sid s) f mb) as [[[new rest]|]|]; cbn [fst].
      - apply Hemit; unfold emit; ssimp; eauto.
      - split; [constructor; auto|exact P].
      - apply Hemit; unfold emit; ssimp; eauto. }
  destruct (isNil (dataForWriting s) && negb (isSome (nextFrame s))).
  - destruct (finishedWriting s && negb (finSent s)); [|split; [constructor; auto|exact P]]. cbn [fst].
    apply Hemit; unfold emit; ssimp; eauto.
  - destruct (sendWindowSize s =? 0); [split; [constructor; auto|exact P]|].
    match goal with |- context [popNewStreamFrame ?a ?b ?c] =>
      pose proof (popNew_no_panic a b c Hb) as PN; pose proof (popNew_same_rest a b c) as SR;
      destruct (popNewStreamFrame a b c) as [[s1 fo] more] end.
    cbn [fst] in *.
    destruct SR as (A1 & A2 & A3 & A4 & A5 & A6 & A7 & A8 & A9 & A10 & A11 & A12 & A13 & A14 & A15 & A16 & A17 & A18 & A19).
    destruct fo as [f0|]; cbn [fst].
    + match goal with |- context [finish_new ?a ?b ?c ?d ?e] => pose proof (finish_new_fields a b c d e) as F end.
      cbn zeta in F. destruct F as (fin & F1 & F2 & F3 & F4 & F5 & F6 & F7 & F8 & F9 & F10 & F11 & F12 & F13 & F14 & F15 & F16 & F17 & F18 & F19 & F20 & F21 & F22).
      apply Hemit; try congruence.
      eexists. rewrite F6, A4. reflexivity.
    + split; [|congruence]. constructor; unfold cnt_stream, cnt_reset, ro in *; rewrite ?A18, ?A4, ?A16, ?A17, ?A7, ?A10, ?A9; auto.
Qed.

Lemma step_C s o :
  Inv s -> InvC s -> panicked s = false -> late (fst (step s o)) = false ->
  (forall mb, o = OPop mb -> mb <= ssMaxPacketBufferSize) ->
  stepC s (fst (step s o)).
Proof.
  intros HI H P HL Hb. unfold step in *. rewrite P in *.
  destruct o; auto using do_write_C, do_resume_C, do_close_C, do_acked_C, do_lost_C, do_cancel_C, do_stop_C,
    do_ctrl_C, do_racked_C, do_rlost_C, do_rel_C, do_enable_C.
  - apply do_pop_C; auto.
  - unfold do_win. destruct (_ >? _); [|split; auto]. apply same4; auto.
  - unfold do_cwin. destruct (_ >? _); [|split; auto]. apply same4; auto.
  - unfold do_shutdown. destruct (_ && _); apply same4; auto.
Qed.

Definition budgets_ok (ops : list op) : Prop :=
  forall mb, In (OPop mb) ops -> mb <= ssMaxPacketBufferSize.

Theorem run_C s ops :
  Inv s -> InvC s -> panicked s = false -> late (run_state s ops) = false -> budgets_ok ops ->
  InvC (run_state s ops) /\ panicked (run_state s ops) = false.
Proof.
  revert s. induction ops as [|o ops IH]; intros s HI HC P HL Hb; [split; assumption|].
  unfold run_state in *. cbn [fold_left] in *.
  assert (HL1 : late (fst (step s o)) = false) by (eapply run_late_false; exact HL).
  assert (HI1 : Inv (fst (step s o))) by (apply step_Inv; auto).
  destruct (step_C s o HI HC P HL1) as [C1 P1].
  { intros mb E. apply Hb. left. exact E. }
  apply IH; auto. intros mb Hin. apply Hb. right. exact Hin.
Qed.
