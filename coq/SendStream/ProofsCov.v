(** FIN placement, coverage (every byte below writeOffset is acked, in flight or queued) and
    the outstanding-frame counter, for streams that were not reset. *)
From Coq Require Import List ZArith Bool Lia.
From V Require Import Gen.Params Lib.Hex Wire.Varint SendStream.Model SendStream.ProofsBase SendStream.ProofsInv.
Import ListNotations.
Open Scope Z_scope.

Definition covered (i : Z) (l : list frame) : Prop := exists f, In f l /\ f_off f <= i < f_end f.
Definition live (s : state) : list frame := acked s ++ outstanding s ++ retransQ s.
Definition allf (s : state) : list frame := retransQ s ++ outstanding s ++ acked s ++ emitted s.

Record Inv2 (s : state) : Prop := {
  j_fin : forall f, In f (allf s) -> f_fin f = true -> finishedWriting s = true /\ f_end f = zlen (W s);
  j_cov : shutdown s = false -> forall i, 0 <= i < writeOffset s -> covered i (live s);
  j_fincov : shutdown s = false -> finSent s = true -> exists f, In f (live s) /\ f_fin f = true;
  j_cnt : numOut s = zlen (outstanding s) /\ outReset s = [] /\ queuedReset s = None
}.

Lemma init_Inv2 sid0 rsa swin cwin : Inv2 (init sid0 rsa swin cwin).
Proof.
  constructor; unfold init, allf, live, covered; ssimp; cbn [app].
  - intros f [].
  - intros _ i H. lia.
  - discriminate.
  - auto.
Qed.

Lemma In_remove_nth {A} (x : A) i l : In x (remove_nth i l) -> In x l.
Proof.
  revert i. induction l as [|y l IH]; intros i H.
  - destruct i; simpl in H; contradiction.
  - destruct i; simpl in *; [auto|]. destruct H; [auto|right; eauto].
Qed.
Lemma In_nth_split {A} (x f : A) i l : In x l -> nth_error l i = Some f -> x = f \/ In x (remove_nth i l).
Proof.
  revert i. induction l as [|y l IH]; intros i H E; [contradiction|].
  destruct i; simpl in *.
  - inversion E; subst. destruct H; auto.
  - destruct H as [H|H]; [right; left; auto|]. destruct (IH _ H E); auto.
Qed.
Lemma zlen_remove_nth {A} (f : A) i l : nth_error l i = Some f -> zlen (remove_nth i l) = zlen l - 1.
Proof.
  revert i. induction l as [|y l IH]; intros i E; [destruct i; discriminate|].
  destruct i; cbn [remove_nth nth_error] in *.
  - rewrite zlen_cons. lia.
  - rewrite !zlen_cons, (IH _ E). lia.
Qed.

(* a state that agrees with [s] on everything Inv2 looks at *)
Definition core2 (s : state) :=
  (retransQ s, outstanding s, acked s, emitted s, finishedWriting s, W s, shutdown s, writeOffset s, finSent s,
   numOut s, outReset s, queuedReset s).
Lemma Inv2_core s s' : core2 s = core2 s' -> Inv2 s -> Inv2 s'.
Proof.
  unfold core2. intros E [H1 H2 H3 H4].
  inversion E as [[E1 E2 E3 E4 E5 E6 E7 E8 E9 E10 E11 E12]].
  constructor; unfold allf, live in *;
    rewrite <- ?E1, <- ?E2, <- ?E3, <- ?E4, <- ?E5, <- ?E6, <- ?E7, <- ?E8, <- ?E9, <- ?E10, <- ?E11, <- ?E12; assumption.
Qed.
Lemma nc_core2 s : core2 (fst (newly_completed s)) = core2 s.
Proof.
  unfold newly_completed.
  repeat match goal with |- context [if ?c then _ else _] => destruct c end; reflexivity.
Qed.

Ltac nc2 :=
  match goal with
  | |- context [newly_completed ?x] =>
    let s1 := fresh "s" in let c := fresh "c" in let E := fresh "Enc" in let E2 := fresh "Enc2" in
    pose proof (newly_completed_core x) as E; pose proof (nc_core2 x) as E2;
    destruct (newly_completed x) as [s1 c]; cbn [fst] in E, E2
  end.

Lemma dec_core2 s : 0 <= numOut s - 1 ->
  let s1 := fst (dec_outstanding_then_complete s) in
  retransQ s1 = retransQ s /\ outstanding s1 = outstanding s /\ acked s1 = acked s /\ emitted s1 = emitted s /\
  finishedWriting s1 = finishedWriting s /\ W s1 = W s /\ shutdown s1 = shutdown s /\ writeOffset s1 = writeOffset s /\
  finSent s1 = finSent s /\ numOut s1 = numOut s - 1 /\ outReset s1 = outReset s /\ queuedReset s1 = queuedReset s /\
  resetErr s1 = resetErr s /\ panicked s1 = panicked s.
Proof.
  intros H. unfold dec_outstanding_then_complete.
  destruct (Z.ltb_spec (numOut s - 1) 0); [lia|].
  unfold newly_completed.
  repeat match goal with |- context [if ?c then _ else _] => destruct c end; cbn [fst]; ssimp; repeat split.
Qed.

Lemma covered_mono i l l' : (forall f, In f l -> In f l') -> covered i l -> covered i l'.
Proof. intros H (f & A & B). exists f. auto. Qed.

(** ** per-op preservation (the stream is not reset before and after the op) *)

Lemma do_write_Inv2 p s : Inv s -> Inv2 s -> resetErr s = None -> Inv2 (fst (do_write p s)).
Proof.
  intros HI H2 ER. unfold do_write. destruct (writing s) eqn:EW; [exact H2|]. rewrite ER.
  destruct (shutdown s) eqn:Esh; [exact H2|]. destruct (finishedWriting s) eqn:EF; [exact H2|].
  destruct (isNil p); [exact H2|].
  set (s1 := set_W _ _).
  assert (H1 : Inv2 s1).
  { destruct H2 as [J1 J2 J3 J4]. constructor; unfold allf, live in *; subst s1; ssimp; auto.
    intros f Hin Hf. destruct (J1 f Hin Hf) as [A _]. congruence. }
  clearbody s1. unfold write_iter.
  destruct (_ && _). { cbn [fst]. eapply Inv2_core; [|exact H1]. reflexivity. }
  destruct (_ || _); [|exact H1].
  destruct (_ =? _). { cbn [fst]. eapply Inv2_core; [|exact H1]. reflexivity. }
  destruct (shutdown s1). { cbn [fst]. eapply Inv2_core; [|exact H1]. reflexivity. }
  destruct (resetErr s1) as [[c r]|]; [|cbn [fst]; eapply Inv2_core; [|exact H1]; reflexivity].
  nc2. cbn [fst]. eapply Inv2_core; [|exact H1]. rewrite Enc2. reflexivity.
Qed.

Lemma do_resume_Inv2 s : Inv2 s -> Inv2 (fst (do_resume s)).
Proof.
  intros H2. unfold do_resume. destruct (_ && _); [|exact H2].
  set (s1 := set_token false s). assert (H1 : Inv2 s1) by (eapply Inv2_core; [|exact H2]; reflexivity).
  clearbody s1. unfold write_iter.
  destruct (_ && _). { cbn [fst]. eapply Inv2_core; [|exact H1]. reflexivity. }
  destruct (_ || _); [|exact H1].
  destruct (_ =? _). { cbn [fst]. eapply Inv2_core; [|exact H1]. reflexivity. }
  destruct (shutdown s1). { cbn [fst]. eapply Inv2_core; [|exact H1]. reflexivity. }
  destruct (resetErr s1) as [[c r]|]; [|cbn [fst]; eapply Inv2_core; [|exact H1]; reflexivity].
  nc2. cbn [fst]. eapply Inv2_core; [|exact H1]. rewrite Enc2. reflexivity.
Qed.

Lemma do_close_Inv2 s : Inv2 s -> Inv2 (fst (do_close s)).
Proof.
  intros H2. unfold do_close. destruct (_ || _); [exact H2|]. nc2.
  assert (H1 : Inv2 s0).
  { destruct H2 as [J1 J2 J3 J4]. unfold core2 in Enc2.
    inversion Enc2 as [[E1 E2 E3 E4 E5 E6 E7 E8 E9 E10 E11 E12]]. clear Enc2.
    constructor; unfold allf, live in *; rewrite ?E1, ?E2, ?E3, ?E4, ?E5, ?E6, ?E7, ?E8, ?E9, ?E10, ?E11, ?E12.
    - intros f Hin Hf. destruct (isSome (resetErr s)); ssimp; (split; [reflexivity|]); eapply J1; eauto.
    - destruct (isSome (resetErr s)); ssimp; auto.
    - destruct (isSome (resetErr s)); ssimp; auto.
    - destruct (isSome (resetErr s)); ssimp; auto. }
  destruct (isSome (resetErr s)); exact H1.
Qed.

Lemma do_acked_Inv2 i s : Inv2 s -> resetErr s = None -> Inv2 (fst (do_acked i s)).
Proof.
  intros H2 ER. unfold do_acked. destruct (nth_error (outstanding s) i) as [f|] eqn:En; [|exact H2].
  set (s0 := set_acked _ _). assert (E0 : resetErr s0 = None) by exact ER. rewrite E0. cbn [isSome andb].
  destruct H2 as [J1 J2 J3 (J4 & J5 & J6)].
  pose proof (zlen_remove_nth _ _ _ En) as Hz. pose proof (zlen_nonneg (remove_nth i (outstanding s))) as Hz'.
  assert (Hn : 0 <= numOut s0 - 1) by (subst s0; ssimp; lia).
  pose proof (dec_core2 s0 Hn) as D. cbn zeta in D.
  destruct D as (D1 & D2 & D3 & D4 & D5 & D6 & D7 & D8 & D9 & D10 & D11 & D12 & _).
  constructor; unfold allf, live in *; rewrite ?D1, ?D2, ?D3, ?D4, ?D5, ?D6, ?D7, ?D8, ?D9, ?D10, ?D11, ?D12;
    subst s0; ssimp.
  - intros g Hin Hg. apply (J1 g); auto. rewrite !in_app_iff in *.
    destruct Hin as [A|[A|[A|A]]]; auto.
    + apply In_remove_nth in A. auto.
    + destruct A as [A|[A|[]]]; auto. subst g. apply nth_error_In in En. auto.
  - intros Hs k Hk. destruct (J2 Hs k Hk) as (g & Hin & Hr). exists g. split; auto.
    rewrite !in_app_iff in *. destruct Hin as [A|[A|A]]; auto.
    destruct (In_nth_split _ _ _ _ A En) as [B|B]; [subst g|]; auto. left. right. left. reflexivity.
  - intros Hs Hf. destruct (J3 Hs Hf) as (g & Hin & Hr). exists g. split; auto.
    rewrite !in_app_iff in *. destruct Hin as [A|[A|A]]; auto.
    destruct (In_nth_split _ _ _ _ A En) as [B|B]; [subst g|]; auto. left. right. left. reflexivity.
  - repeat split; auto. lia.
Qed.

Lemma do_lost_Inv2 i s : Inv2 s -> resetErr s = None -> Inv2 (fst (do_lost i s)).
Proof.
  intros H2 ER. unfold do_lost. destruct (nth_error (outstanding s) i) as [f|] eqn:En; [|exact H2].
  ssimp. rewrite ER. cbn [isSome andb].
  destruct H2 as [J1 J2 J3 (J4 & J5 & J6)].
  pose proof (zlen_remove_nth _ _ _ En) as Hz. pose proof (zlen_nonneg (remove_nth i (outstanding s))) as Hz'.
  destruct (Z.ltb_spec (numOut s - 1) 0); [lia|]. cbn [fst].
  constructor; unfold allf, live in *; ssimp.
  - intros g Hin Hg. apply (J1 g); auto. rewrite !in_app_iff in *.
    destruct Hin as [[A|A]|[A|[A|A]]]; auto.
    + destruct A as [A|[]]. subst g. apply nth_error_In in En. auto.
    + apply In_remove_nth in A. auto.
  - intros Hs k Hk. destruct (J2 Hs k Hk) as (g & Hin & Hr). exists g. split; auto.
    rewrite !in_app_iff in *. destruct Hin as [A|[A|A]]; auto.
    destruct (In_nth_split _ _ _ _ A En) as [B|B]; [subst g|]; auto. right. right. right. left. reflexivity.
  - intros Hs Hf. destruct (J3 Hs Hf) as (g & Hin & Hr). exists g. split; auto.
    rewrite !in_app_iff in *. destruct Hin as [A|[A|A]]; auto.
    destruct (In_nth_split _ _ _ _ A En) as [B|B]; [subst g|]; auto. right. right. right. left. reflexivity.
  - repeat split; auto. lia.
Qed.

Lemma do_ctrl_Inv2 s : Inv2 s -> Inv2 (fst (do_ctrl s)).
Proof. intros H2. unfold do_ctrl. destruct H2 as [J1 J2 J3 (J4 & J5 & J6)]. rewrite J6. constructor; auto. Qed.
Lemma do_racked_Inv2 i s : Inv2 s -> Inv2 (fst (do_racked i s)).
Proof.
  intros H2. unfold do_racked. pose proof H2 as [J1 J2 J3 (J4 & J5 & J6)]. rewrite J5.
  destruct i; exact H2.
Qed.
Lemma do_rlost_Inv2 i s : Inv2 s -> Inv2 (fst (do_rlost i s)).
Proof.
  intros H2. unfold do_rlost. pose proof H2 as [J1 J2 J3 (J4 & J5 & J6)]. rewrite J5.
  destruct i; exact H2.
Qed.
Lemma do_win_Inv2 l s : Inv2 s -> Inv2 (fst (do_win l s)).
Proof. intros H2. unfold do_win. destruct (_ >? _); [|exact H2]. eapply Inv2_core; [|exact H2]. reflexivity. Qed.
Lemma do_cwin_Inv2 l s : Inv2 s -> Inv2 (fst (do_cwin l s)).
Proof. intros H2. unfold do_cwin. destruct (_ >? _); [|exact H2]. eapply Inv2_core; [|exact H2]. reflexivity. Qed.
Lemma do_rel_Inv2 s : Inv2 s -> Inv2 (fst (do_rel s)).
Proof. intros H2. unfold do_rel. destruct (isSome _); [exact H2|]. eapply Inv2_core; [|exact H2]. reflexivity. Qed.
Lemma do_enable_Inv2 s : Inv2 s -> Inv2 (fst (do_enable s)).
Proof. intros H2. eapply Inv2_core; [|exact H2]. reflexivity. Qed.
Lemma do_shutdown_Inv2 s : Inv2 s -> Inv2 (fst (do_shutdown s)).
Proof.
  intros H2. unfold do_shutdown. destruct (_ && _); [|eapply Inv2_core; [|exact H2]; reflexivity].
  destruct H2 as [J1 J2 J3 J4]. cbn [fst]. constructor; unfold allf, live in *; ssimp; auto; try discriminate.
  intros f Hin Hf. apply (J1 f); auto. rewrite in_app_iff. right. exact Hin.
Qed.
Lemma do_cancel_Inv2 c s : Inv2 s -> resetErr (fst (do_cancel c s)) = None -> Inv2 (fst (do_cancel c s)).
Proof.
  unfold do_cancel. intros H2. destruct (shutdown s); [auto|].
  destruct (isSome _) eqn:E.
  - nc2. cbn [fst]. intros _. eapply Inv2_core; [|exact H2]. rewrite Enc2. reflexivity.
  - cbn [fst]. destruct (_ =? 0); destruct (0 <? _); ssimp; intros H. all: try discriminate H.
Qed.
Lemma do_stop_Inv2 c s : Inv2 s -> resetErr (fst (do_stop c s)) = None -> Inv2 (fst (do_stop c s)).
Proof.
  unfold do_stop. intros H2. destruct (shutdown s); [auto|]. destruct (_ && _); [auto|].
  cbn [fst]. ssimp. destruct (resetErr s) eqn:ER; ssimp; intros H; congruence.
Qed.

(* a retransmission: [f] leaves the head of the queue, [new] enters flight, [rest] (possibly nothing) stays queued *)
Lemma retx_move_Inv2 s s' f q0 new restl :
  Inv2 s -> retransQ s = f :: q0 ->
  retransQ s' = restl ++ q0 -> outstanding s' = outstanding s ++ [new] -> acked s' = acked s ->
  emitted s' = emitted s ++ [new] -> finishedWriting s' = finishedWriting s -> W s' = W s ->
  shutdown s' = shutdown s -> writeOffset s' = writeOffset s -> finSent s' = finSent s ->
  numOut s' = numOut s + 1 -> outReset s' = outReset s -> queuedReset s' = queuedReset s ->
  (* the pieces carry f's FIN only with f's end, and cover f's range *)
  (forall g, In g (new :: restl) -> f_fin g = true -> f_fin f = true /\ f_end g = f_end f) ->
  (forall i, f_off f <= i < f_end f -> covered i (new :: restl)) ->
  (f_fin f = true -> exists g, In g (new :: restl) /\ f_fin g = true) ->
  Inv2 s'.
Proof.
  intros [J1 J2 J3 (J4 & J5 & J6)] EQ E1 E2 E3 E4 E5 E6 E7 E8 E9 E10 E11 E12 Hfin Hcov Hfc.
  constructor; unfold allf, live in *; rewrite ?E1, ?E2, ?E3, ?E4, ?E5, ?E6, ?E7, ?E8, ?E9, ?E10, ?E11, ?E12.
  - intros g Hin Hg. rewrite EQ in J1.
    assert (Hp : In g (new :: restl) \/ In g (q0 ++ outstanding s ++ acked s ++ emitted s)).
    { rewrite !in_app_iff in *. cbn [In] in *. intuition. }
    destruct Hp as [Hp|Hp].
    + destruct (Hfin g Hp Hg) as [A B]. rewrite B. apply J1; auto. left. reflexivity.
    + apply J1; auto. right. exact Hp.
  - intros Hs k Hk. destruct (J2 Hs k Hk) as (g & Hin & Hr). rewrite EQ in Hin.
    rewrite !in_app_iff in Hin. cbn [In] in Hin.
    assert (Hp : g = f \/ In g (acked s ++ outstanding s ++ q0)) by (rewrite !in_app_iff; intuition).
    destruct Hp as [Hp|Hp].
    + subst g. destruct (Hcov k Hr) as (h & Hh & Hr'). exists h. split; auto.
      rewrite !in_app_iff. cbn [In] in *. intuition.
    + exists g. split; auto. rewrite !in_app_iff in *. cbn [In]. intuition.
  - intros Hs Hf. destruct (J3 Hs Hf) as (g & Hin & Hr). rewrite EQ in Hin.
    rewrite !in_app_iff in Hin. cbn [In] in Hin.
    assert (Hp : g = f \/ In g (acked s ++ outstanding s ++ q0)) by (rewrite !in_app_iff; intuition).
    destruct Hp as [Hp|Hp].
    + subst g. destruct (Hfc Hr) as (h & Hh & Hr'). exists h. split; auto.
      rewrite !in_app_iff. cbn [In] in *. intuition.
    + exists g. split; auto. rewrite !in_app_iff in *. cbn [In]. intuition.
  - rewrite zlen_app. change (zlen [new]) with 1. repeat split; auto. lia.
Qed.

Lemma new_frame_Inv2 s s' f :
  Inv s' -> Inv2 s -> resetErr s' = None -> shutdown s' = false ->
  retransQ s' = retransQ s -> outstanding s' = outstanding s ++ [f] -> acked s' = acked s ->
  emitted s' = emitted s ++ [f] -> finishedWriting s' = finishedWriting s -> W s' = W s ->
  shutdown s' = shutdown s -> writeOffset s' = writeOffset s + zlen (f_data f) -> f_off f = writeOffset s ->
  finSent s' = finSent s || f_fin f ->
  numOut s' = numOut s + 1 -> outReset s' = outReset s -> queuedReset s' = queuedReset s ->
  (f_fin f = true -> finishedWriting s = true /\ dataForWriting s' = [] /\ nextFrame s' = None) ->
  Inv2 s'.
Proof.
  intros HI' [J1 J2 J3 (J4 & J5 & J6)] ER Esh E1 E2 E3 E4 E5 E6 E7 E8 Eo E9 E10 E11 E12 Hfin.
  assert (Hend : f_end f = writeOffset s') by (unfold f_end; lia).
  constructor; unfold allf, live in *; rewrite ?E1, ?E2, ?E3, ?E4, ?E5, ?E6, ?E10, ?E11, ?E12.
  - intros g Hin Hg.
    assert (Hp : g = f \/ In g (retransQ s ++ outstanding s ++ acked s ++ emitted s)).
    { rewrite !in_app_iff in *. cbn [In] in *. intuition. }
    destruct Hp as [Hp|Hp]; [subst g|apply J1; auto].
    destruct (Hfin Hg) as (A & B & C). split; auto. rewrite Hend.
    destruct (i_pend _ HI') as [P|[P|[P|P]]]; try congruence; try (destruct P as [P _]; congruence).
    destruct P as [_ (sent & EW & Ls)]. unfold nfData in EW. rewrite B, C in EW. rewrite E6 in EW.
    rewrite EW, !zlen_app. change (zlen (@nil Z)) with 0. lia.
  - intros _ k Hk. destruct (Z.lt_ge_cases k (writeOffset s)) as [Hlt|Hge].
    + rewrite E7 in Esh. destruct (J2 Esh k ltac:(lia)) as (g & Hin & Hr). exists g. split; auto.
      rewrite !in_app_iff in *. cbn [In]. intuition.
    + exists f. split; [rewrite !in_app_iff; cbn [In]; intuition|]. unfold f_end. lia.
  - intros _ Hf. rewrite E9 in Hf. rewrite E7 in Esh. apply orb_prop in Hf. destruct Hf as [Hf|Hf].
    + destruct (J3 Esh Hf) as (g & Hin & Hr). exists g. split; auto.
      rewrite !in_app_iff in *. cbn [In]. intuition.
    + exists f. split; auto. rewrite !in_app_iff; cbn [In]; intuition.
  - rewrite zlen_app. change (zlen [f]) with 1. repeat split; auto. lia.
Qed.

Lemma do_pop_Inv2 mb s :
  Inv s -> Inv (fst (do_pop mb s)) -> Inv2 s -> resetErr s = None -> Inv2 (fst (do_pop mb s)).
Proof.
  intros HI HI'. unfold do_pop in *. intros H2 ER.
  destruct (shutdown s) eqn:Esh; [exact H2|].
  rewrite ER in *. cbn [isSome andb] in *.
  destruct (retransQ s) as [|f q] eqn:EQ.
  2:{ pose proof (i_q _ HI) as Hq. rewrite EQ in Hq. inversion Hq as [|? ? Hf Hq']; subst.
      destruct (maybe_split (sid s) f mb) as [[[new rest]|]|] eqn:ES; cbn [fst] in *.
      - assert (Hd : zlen (f_data f) <= 16383) by (destruct Hf; pose proof ss_bufsize_small; lia).
        destruct (split_preserves_range _ _ _ _ _ Hd ES) as (A1 & A2 & A3 & A4 & A5 & A6 & A7 & A8).
        apply retx_move_Inv2 with (s := s) (f := f) (q0 := q) (new := new) (restl := [rest]); auto;
          unfold emit; ssimp; auto.
        + intros g [Hg|[Hg|[]]] Hfin; subst g; [congruence|]. split; congruence.
        + intros i Hi. destruct (Z.lt_ge_cases i (f_end new)).
          * exists new. split; [left; reflexivity|lia].
          * exists rest. split; [right; left; reflexivity|lia].
        + intros Hfin. exists rest. split; [right; left; reflexivity|congruence].
      - exact H2.
      - apply retx_move_Inv2 with (s := s) (f := f) (q0 := q) (new := f) (restl := []); auto;
          unfold emit; ssimp; auto.
        + intros g [Hg|[]] Hfin; subst g. auto.
        + intros i Hi. exists f. split; [left; reflexivity|lia].
        + intros Hfin. exists f. split; [left; reflexivity|auto]. }
  destruct (isNil (dataForWriting s) && negb (isSome (nextFrame s))) eqn:EE.
  - destruct (finishedWriting s && negb (finSent s)) eqn:EF; [|exact H2]. cbn [fst] in *.
    apply andb_prop in EE. destruct EE as [E1 E2]. apply isNil_true in E1.
    assert (Enf : nextFrame s = None) by (destruct (nextFrame s); [discriminate|reflexivity]).
    apply andb_prop in EF. destruct EF as [F1 F2].
    apply new_frame_Inv2 with (s := s) (f := mkF (writeOffset s) [] true); auto; unfold emit; ssimp; auto;
      change (zlen (@nil Z)) with 0; try lia; try (destruct (finSent s); reflexivity).
  - destruct (Z.eqb_spec (sendWindowSize s) 0) as [Ew|Ew]; [exact H2|].
    pose proof (sendWindowSize_nonneg s) as Hw.
    pose proof (popNew_spec mb (sendWindowSize s) s (i_nfoff _ HI) (i_nflen _ HI) ltac:(lia)) as P.
    destruct (popNewStreamFrame mb (sendWindowSize s) s) as [[s1 fo] more]. destruct P as [SR P].
    destruct SR as (A1 & A2 & A3 & A4 & A5 & A6 & A7 & A8 & A9 & A10 & A11 & A12 & A13 & A14 & A15 & A16 & A17 & A18 & A19).
    destruct fo as [f0|]; cbn [fst] in *.
    2:{ eapply Inv2_core; [|exact H2]. unfold core2. congruence. }
    destruct P as (Pp & Po & Pf & Pl & Pm & Pshape).
    pose proof (finish_new_fields (sendWindowSize s) (ro s) more s1 f0) as F. cbn zeta in F.
    destruct F as (fin & F1 & F2 & F3 & F4 & F5 & F6 & F7 & F8 & F9 & F10 & F11 & F12 & F13 & F14 & F15 & F16 & F17 & F18 & F19 & F20 & F21 & F22).
    set (s' := fst (finish_new (sendWindowSize s) (ro s) more s1 f0)) in *.
    apply new_frame_Inv2 with (s := s) (f := mkF (f_off f0) (f_data f0) fin); cbn [f_off f_data f_fin]; auto; try congruence.
    intros Hfin. destruct (F15 Hfin) as (B1 & B2 & B3 & B4 & B5). repeat split; congruence.
Qed.

(** ** reset is sticky; [late] implies reset *)
Lemma nc_reset s : resetErr (fst (newly_completed s)) = resetErr s.
Proof. pose proof (newly_completed_core s) as E. unfold core in E. inversion E. reflexivity. Qed.
Lemma write_iter_reset b s : resetErr (fst (write_iter b s)) = resetErr s.
Proof.
  unfold write_iter.
  destruct (_ && _); [reflexivity|]. destruct (_ || _); [|reflexivity].
  destruct (_ =? _); [reflexivity|]. destruct (shutdown s); [reflexivity|].
  destruct (resetErr s) as [[c r]|] eqn:E; [|cbn [fst]; ssimp; exact E].
  match goal with |- context [newly_completed ?x] => pose proof (nc_reset x) as N; destruct (newly_completed x) end.
  cbn [fst] in *. rewrite N. ssimp. exact E.
Qed.
Lemma dec_reset s : resetErr (fst (dec_outstanding_then_complete s)) = resetErr s.
Proof. pose proof (dec_core s) as E. unfold core in E. inversion E. reflexivity. Qed.

Lemma step_reset s o : resetErr s <> None -> resetErr (fst (step s o)) <> None.
Proof.
  intros H. unfold step. destruct (panicked s); [exact H|].
  destruct o; cbn [fst].
  - unfold do_write. destruct (writing s); [exact H|]. destruct (resetErr s) as [[c r]|] eqn:E; [|congruence].
    match goal with |- context [newly_completed ?x] => pose proof (nc_reset x) as N; destruct (newly_completed x) end.
    cbn [fst] in *. rewrite N. ssimp. congruence.
  - unfold do_resume. destruct (_ && _); [|exact H]. rewrite write_iter_reset. exact H.
  - unfold do_close. destruct (_ || _); [exact H|].
    match goal with |- context [newly_completed ?x] => pose proof (nc_reset x) as N; destruct (newly_completed x) end.
    cbn [fst] in N. destruct (isSome (resetErr s)); cbn [fst]; rewrite N; ssimp; exact H.
  - unfold do_pop. destruct (shutdown s); [exact H|]. destruct (_ && _); [exact H|].
    destruct (retransQ s) as [|f q].
    + destruct (_ && _). { destruct (_ && _); [|exact H]. unfold emit. ssimp. exact H. }
      destruct (_ =? 0); [exact H|].
      match goal with |- context [popNewStreamFrame ?a ?b ?c] => remember (popNewStreamFrame a b c) as p eqn:Ep; destruct p as [[s1 fo] more] end.
      assert (R1 : resetErr s1 = resetErr s).
      { change s1 with (fst (fst (s1, fo, more))). rewrite Ep. clear Ep.
        unfold popNewStreamFrame. destruct (nextFrame s) as [[o d]|].
        - destruct (_ =? 0); [reflexivity|]. destruct (_ >? _); reflexivity.
        - destruct (_ =? 0); [reflexivity|]. destruct (_ >? _); [reflexivity|].
          match goal with |- context [getDataForWriting ?n s] => pose proof (getData_spec n s) as G; destruct (getDataForWriting n s) as [s2 data] end.
          destruct G as (G & _). unfold same_rest in G. destruct (isNil data); cbn [fst]; tauto. }
      destruct fo; cbn [fst]; [|congruence].
      match goal with |- context [finish_new ?a ?b ?c ?d ?e] => pose proof (finish_new_fields a b c d e) as F end.
      cbn zeta in F. destruct F as (fin & F). destruct F as (_ & _ & _ & _ & _ & _ & _ & _ & F9 & _). congruence.
    + destruct (maybe_split _ _ _) as [[[new rest]|]|]; unfold emit; ssimp; exact H.
  - unfold do_acked. destruct (nth_error _ _); [|exact H]. destruct (_ && _); [exact H|]. rewrite dec_reset. exact H.
  - unfold do_lost. destruct (nth_error _ _); [|exact H]. destruct (_ && _); [exact H|].
    destruct (_ <? 0); [exact H|]. destruct (_ && _).
    + match goal with |- context [newly_completed ?x] => pose proof (nc_reset x) as N; destruct (newly_completed x) end.
      cbn [fst] in *. rewrite N. exact H.
    + exact H.
  - unfold do_cancel. destruct (shutdown s); [exact H|]. destruct (isSome _).
    + match goal with |- context [newly_completed ?x] => pose proof (nc_reset x) as N; destruct (newly_completed x) end.
      cbn [fst] in *. rewrite N. exact H.
    + cbn [fst]. destruct (_ =? 0); destruct (0 <? _); ssimp; discriminate.
  - unfold do_stop. destruct (shutdown s); [exact H|]. destruct (_ && _); [exact H|]. cbn [fst]. ssimp.
    destruct (resetErr s) eqn:E; ssimp; congruence.
  - unfold do_ctrl. destruct (queuedReset s); exact H.
  - unfold do_racked. destruct (nth_error _ _); [|exact H]. destruct (negb _); [exact H|]. rewrite dec_reset. exact H.
  - unfold do_rlost. destruct (nth_error _ _); [|exact H]. destruct (negb _); exact H.
  - unfold do_win. destruct (_ >? _); exact H.
  - unfold do_cwin. destruct (_ >? _); exact H.
  - unfold do_rel. destruct (isSome _); exact H.
  - exact H.
  - unfold do_shutdown. destruct (_ && _); exact H.
Qed.

Lemma step_reset_none s o : resetErr (fst (step s o)) = None -> resetErr s = None.
Proof.
  intros H. destruct (resetErr s) eqn:E; auto. exfalso. apply (step_reset s o); congruence.
Qed.


Definition sets_late (s : state) (o : op) : bool :=
  negb (panicked s) &&
  match o with
  | OEnable => isSome (resetErr s) && negb (supportsRSA s)
  | _ => false
  end.

Lemma step_late_eq s o : late (fst (step s o)) = late s || sets_late s o.
Proof.
  unfold step, sets_late. destruct (panicked s); [cbn [negb andb]; now rewrite orb_false_r|].
  cbn [negb andb].
  destruct o; cbn [fst]; rewrite ?orb_false_r.
  - unfold do_write. destruct (writing s); [reflexivity|]. destruct (resetErr s) as [[c r]|].
    + nc_core. cbn [fst]. now rewrite Lnc.
    + destruct (shutdown s); [reflexivity|]. destruct (finishedWriting s); [reflexivity|]. destruct (isNil p); [reflexivity|].
      rewrite write_iter_late. reflexivity.
  - unfold do_resume. destruct (_ && _); [|reflexivity]. rewrite write_iter_late. reflexivity.
  - unfold do_close. destruct (_ || _); [reflexivity|]. nc_core. destruct (isSome (resetErr s)); cbn [fst]; rewrite Lnc; reflexivity.
  - unfold do_pop. destruct (shutdown s); [reflexivity|]. destruct (_ && _); [reflexivity|].
    destruct (retransQ s) as [|f q].
    + destruct (_ && _). { destruct (_ && _); [|reflexivity]. unfold emit. ssimp. reflexivity. }
      destruct (_ =? 0); [reflexivity|].
      match goal with |- context [popNewStreamFrame ?a ?b ?c] => pose proof (popNew_late a b c) as P; destruct (popNewStreamFrame a b c) as [[s1 fo] more] end.
      cbn [fst] in P. destruct fo; cbn [fst]; [rewrite finish_new_late|]; congruence.
    + destruct (maybe_split _ _ _) as [[[new rest]|]|]; unfold emit; ssimp; reflexivity.
  - unfold do_acked. destruct (nth_error _ _); [|reflexivity]. destruct (_ && _); [reflexivity|]. rewrite dec_late. reflexivity.
  - unfold do_lost. destruct (nth_error _ _); [|reflexivity]. destruct (_ && _); [reflexivity|].
    destruct (_ <? 0); [reflexivity|]. destruct (_ && _).
    + nc_core. cbn [fst]. now rewrite Lnc.
    + reflexivity.
  - unfold do_cancel. destruct (shutdown s); [reflexivity|]. destruct (isSome _).
    + nc_core. cbn [fst]. now rewrite Lnc.
    + cbn [fst]. destruct (_ =? 0); destruct (0 <? _); ssimp; reflexivity.
  - unfold do_stop. destruct (shutdown s); [reflexivity|]. destruct (_ && _); [reflexivity|]. cbn [fst]. ssimp.
    destruct (resetErr s); ssimp; reflexivity.
  - unfold do_ctrl. destruct (queuedReset s); reflexivity.
  - unfold do_racked. destruct (nth_error _ _); [|reflexivity]. destruct (negb _); [reflexivity|]. rewrite dec_late. reflexivity.
  - unfold do_rlost. destruct (nth_error _ _); [|reflexivity]. destruct (negb _); reflexivity.
  - unfold do_win. destruct (_ >? _); reflexivity.
  - unfold do_cwin. destruct (_ >? _); reflexivity.
  - unfold do_rel. destruct (isSome _); reflexivity.
  - reflexivity.
  - unfold do_shutdown. destruct (_ && _); reflexivity.
Qed.

Lemma step_late_reset s o :
  (late s = true -> resetErr s <> None) -> late (fst (step s o)) = true -> resetErr (fst (step s o)) <> None.
Proof.
  intros H HL. rewrite step_late_eq in HL. apply orb_prop in HL. destruct HL as [HL|HL].
  - apply step_reset. auto.
  - apply step_reset. unfold sets_late in HL. apply andb_prop in HL. destruct HL as [_ HL].
    destruct o; try discriminate; destruct (resetErr s); try discriminate; discriminate.
Qed.

Lemma run_late_reset s ops :
  (late s = true -> resetErr s <> None) -> late (run_state s ops) = true -> resetErr (run_state s ops) <> None.
Proof.
  revert s. induction ops as [|o ops IH]; intros s H; [exact H|].
  unfold run_state in *. cbn [fold_left]. apply IH. apply step_late_reset. exact H.
Qed.

Lemma run_reset_none s ops : resetErr (run_state s ops) = None -> resetErr s = None.
Proof.
  revert s. induction ops as [|o ops IH]; intros s H; [exact H|].
  unfold run_state in *. cbn [fold_left] in H. apply IH in H. now apply step_reset_none in H.
Qed.

Lemma step_Inv2 s o :
  Inv s -> Inv (fst (step s o)) -> Inv2 s -> resetErr (fst (step s o)) = None -> Inv2 (fst (step s o)).
Proof.
  intros HI HI' H2 ER'. pose proof (step_reset_none _ _ ER') as ER.
  unfold step in *. destruct (panicked s); [exact H2|].
  destruct o; auto using do_write_Inv2, do_resume_Inv2, do_close_Inv2, do_pop_Inv2, do_acked_Inv2, do_lost_Inv2,
    do_cancel_Inv2, do_stop_Inv2, do_ctrl_Inv2, do_racked_Inv2, do_rlost_Inv2, do_win_Inv2, do_cwin_Inv2,
    do_rel_Inv2, do_enable_Inv2, do_shutdown_Inv2.
Qed.

Theorem run_Inv2 s ops :
  Inv s -> Inv2 s -> (late s = true -> resetErr s <> None) ->
  resetErr (run_state s ops) = None -> Inv (run_state s ops) /\ Inv2 (run_state s ops).
Proof.
  revert s. induction ops as [|o ops IH]; intros s HI H2 HLR ER; [split; assumption|].
  unfold run_state in *. cbn [fold_left] in *.
  pose proof (run_reset_none _ _ ER) as ER1.
  assert (HL1 : late (fst (step s o)) = false).
  { destruct (late (fst (step s o))) eqn:E; auto. exfalso. exact (step_late_reset s o HLR E ER1). }
  assert (HI1 : Inv (fst (step s o))) by (apply step_Inv; auto).
  apply IH; auto.
  - apply step_Inv2; auto.
  - intros E. congruence.
Qed.
