(** Correspondence glue for the unit `sendstream`: a case is what harness/drv/sendstream.go
    logged (op list with the observables of every op, final snapshot of the state fields
    that are C01's subject).  Every harness op is the model op followed by [OResume]
    (the harness lets the writer goroutine run until it parks again: synctest.Wait). *)
From Coq Require Import List ZArith Bool String.
From V Require Import Gen.Params Lib.Hex SendStream.Model.
Import ListNotations.
Open Scope Z_scope.

Inductive cop :=
| CWrite (len seed : Z) | CClose | CPop (mb : Z) | CAcked (i : Z) | CLost (i : Z)
| CCancel (c : Z) | CStop (c : Z) | CWin (l : Z) | CConnWin (l : Z) | CCtrl
| CRAcked (i : Z) | CRLost (i : Z) | CRel | CEnable | CShutdown.

(* frame = (offset, length, fin, checksum of the payload) *)
Record cout := mkO {
  co_frame : option (Z * Z * bool * Z); co_blocked : option Z; co_more : bool;
  co_ctrl : option (Z * Z * Z); co_ret : Z; co_wres : option (Z * Z * Z);
  co_hd : Z; co_hc : Z; co_done : Z }.

Record csnap := mkSnap {
  cs_writeOffset : Z; cs_numOut : Z; cs_reliableSize : Z; cs_retrans : list (Z * Z * bool);
  cs_finishedWriting : bool; cs_finSent : bool; cs_completed : bool; cs_reset : bool; cs_shutdown : bool;
  cs_flagged : bool; cs_nfLen : Z; cs_pendLen : Z; cs_qreset : bool }.

Inductive case := SSCase (sid : Z) (rsa : bool) (swin cwin : Z) (ops : list (cop * cout)) (final : csnap) (pan : bool).

(* payload generator and checksum shared with the harness (ssGenData / ssSum) *)
Fixpoint gen_data (n : nat) (x : Z) : list Z :=
  match n with
  | O => []
  | S n' => let x' := Z.land (x * 8121 + 28411) 16777215 in Z.land (Z.shiftr x' 8) 255 :: gen_data n' x'
  end.
Definition cksum (d : list Z) : Z := fold_left (fun h b => Z.land (h * 31 + b) 1073741823) d 7.

Definition to_op (c : cop) : op :=
  match c with
  | CWrite n seed => OWrite (gen_data (Z.to_nat n) seed)
  | CClose => OClose | CPop mb => OPop mb
  | CAcked i => OAcked (Z.to_nat i) | CLost i => OLost (Z.to_nat i)
  | CCancel c => OCancel c | CStop c => OStop c | CWin l => OWin l | CConnWin l => OConnWin l
  | CCtrl => OCtrl | CRAcked i => ORAcked (Z.to_nat i) | CRLost i => ORLost (Z.to_nat i)
  | CRel => ORel | CEnable => OEnable | CShutdown => OShutdown
  end.

Definition first_some {A} (a b : option A) : option A := match a with Some _ => a | None => b end.

(* one harness op: the op, then the writer goroutine gets to run *)
Definition hstep (s : state) (c : cop) : state * cout :=
  let (s1, o1) := step s (to_op c) in
  let (s2, o2) := step s1 OResume in
  (s2, mkO (match o_frame o1 with
            | Some f => Some (f_off f, zlen (f_data f), f_fin f, cksum (f_data f))
            | None => None end)
           (o_blocked o1) (o_more o1)
           (match o_ctrl o1 with Some r => Some (r_final r, r_code r, r_rel r) | None => None end)
           (o_ret o1) (first_some (o_wres o1) (o_wres o2))
           (o_hd o1 + o_hd o2) (o_hc o1 + o_hc o2) (o_done o1 + o_done o2)).

Fixpoint hrun (s : state) (l : list cop) : state * list cout :=
  match l with
  | [] => (s, [])
  | c :: r => let (s1, o) := hstep s c in let (s2, os) := hrun s1 r in (s2, o :: os)
  end.

Definition snap (s : state) : csnap :=
  mkSnap (writeOffset s) (numOut s) (reliableSize s)
         (map (fun f => (f_off f, zlen (f_data f), f_fin f)) (retransQ s))
         (finishedWriting s) (finSent s) (completed s) (isSome (resetErr s)) (shutdown s)
         (cancellationFlagged s) (nfLen s) (zlen (dataForWriting s)) (isSome (queuedReset s)).

Definition obs := (list cout * csnap * bool)%type.

Definition model_obs (c : case) : obs :=
  match c with
  | SSCase sid0 rsa swin cwin ops _ _ =>
    let (s, os) := hrun (init sid0 rsa swin cwin) (map fst ops) in (os, snap s, panicked s)
  end.

(* boolean equalities *)
Definition oeqb {A} (e : A -> A -> bool) (a b : option A) : bool :=
  match a, b with Some x, Some y => e x y | None, None => true | _, _ => false end.
Definition z3eqb (a b : Z * Z * Z) : bool :=
  let '(a1, a2, a3) := a in let '(b1, b2, b3) := b in (a1 =? b1) && (a2 =? b2) && (a3 =? b3).
Definition freqb (a b : Z * Z * bool * Z) : bool :=
  let '(a1, a2, a3, a4) := a in let '(b1, b2, b3, b4) := b in (a1 =? b1) && (a2 =? b2) && Bool.eqb a3 b3 && (a4 =? b4).
Definition qeqb (a b : Z * Z * bool) : bool :=
  let '(a1, a2, a3) := a in let '(b1, b2, b3) := b in (a1 =? b1) && (a2 =? b2) && Bool.eqb a3 b3.
Fixpoint leqb {A} (e : A -> A -> bool) (a b : list A) : bool :=
  match a, b with
  | [], [] => true
  | x :: a', y :: b' => e x y && leqb e a' b'
  | _, _ => false
  end.
Definition couteqb (a b : cout) : bool :=
  oeqb freqb (co_frame a) (co_frame b) && oeqb Z.eqb (co_blocked a) (co_blocked b) &&
  Bool.eqb (co_more a) (co_more b) && oeqb z3eqb (co_ctrl a) (co_ctrl b) && (co_ret a =? co_ret b) &&
  oeqb z3eqb (co_wres a) (co_wres b) && (co_hd a =? co_hd b) && (co_hc a =? co_hc b) && (co_done a =? co_done b).
Definition snapeqb (a b : csnap) : bool :=
  (cs_writeOffset a =? cs_writeOffset b) && (cs_numOut a =? cs_numOut b) && (cs_reliableSize a =? cs_reliableSize b) &&
  leqb qeqb (cs_retrans a) (cs_retrans b) && Bool.eqb (cs_finishedWriting a) (cs_finishedWriting b) &&
  Bool.eqb (cs_finSent a) (cs_finSent b) && Bool.eqb (cs_completed a) (cs_completed b) &&
  Bool.eqb (cs_reset a) (cs_reset b) && Bool.eqb (cs_shutdown a) (cs_shutdown b) &&
  Bool.eqb (cs_flagged a) (cs_flagged b) && (cs_nfLen a =? cs_nfLen b) && (cs_pendLen a =? cs_pendLen b) &&
  Bool.eqb (cs_qreset a) (cs_qreset b).

(* when the implementation panicked in the last logged op, the observables of that op are void:
   the model must have panicked too, and everything before must agree *)
Fixpoint outs_agree (pan : bool) (impl model : list cout) : bool :=
  match impl, model with
  | [], [] => true
  | [_], [_] => if pan then true else leqb couteqb impl model
  | x :: a, y :: b => couteqb x y && outs_agree pan a b
  | _, _ => false
  end.

Definition check_case (c : case) : bool :=
  match c with
  | SSCase _ _ _ _ ops final pan =>
    let '(os, sn, mp) := model_obs c in
    outs_agree pan (map snd ops) os && Bool.eqb pan mp && (pan || snapeqb final sn)
  end.
