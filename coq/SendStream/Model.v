(** Model of /repo/send_stream.go (SendStream) together with the send side of the stream
    and connection flow controllers (internal/flowcontrol/base_flow_controller.go) and the
    STREAM frame size arithmetic of internal/wire/stream_frame.go (MaxDataLen, Length,
    MaybeSplitOffFrame).  Executable definitions only.

    One model step = one critical section of the code.  A blocking [Write] is split into
    the call ([OWrite], first loop iteration) and [OResume] (the writer goroutine wakes up
    because a token is in [writeChan]); theorems quantify over all interleavings of
    [OResume] with the other ops.  Deadlines are not modelled (never set).

    Ghost fields (no counterpart in the code, never read by the code paths):
      W            all bytes the application handed to accepted Write calls
      outstanding  STREAM frames popped and neither acked nor lost yet (what the ackhandler tracks)
      outReset     RESET_STREAM(_AT) frames popped and neither acked nor lost yet
      acked        STREAM frames whose OnAcked was called
      emitted      every STREAM frame ever returned by popStreamFrame, in order
      emittedNew   those of them that carried new data (not retransmissions)
      late         (historic) the reliable size was raised on an already reset stream; since the repairs of
                   SetReliableBoundary and enableResetStreamAt no op sets it any more (lemma late_never)
      panicked     the code would have panicked ("numOutStandingFrames negative") *)
From Coq Require Import List ZArith Bool Lia.
From V Require Import Gen.Params Lib.Hex Wire.Varint.
From V Require Wire.FramesStream.
Import ListNotations.
Open Scope Z_scope.

Record frame := mkF { f_off : Z; f_data : list Z; f_fin : bool }.
Record rst := mkR { r_final : Z; r_code : Z; r_rel : Z }.

Record state := mkS {
  sid : Z;
  numOut : Z;
  retransQ : list frame;
  reliableSize : Z;
  writeOffset : Z;
  shutdown : bool;
  resetErr : option (Z * bool);
  queuedReset : option rst;
  supportsRSA : bool;
  finishedWriting : bool;
  finSent : bool;
  cancellationFlagged : bool;
  completed : bool;
  dataForWriting : list Z;
  nextFrame : option (Z * list Z);
  token : bool;
  writing : bool;
  wtotal : Z;
  fcSent : Z;
  fcWindow : Z;
  fcLastBlocked : Z;
  ccSent : Z;
  ccWindow : Z;
  W : list Z;
  outstanding : list frame;
  outReset : list rst;
  acked : list frame;
  emitted : list frame;
  emittedNew : list frame;
  late : bool;
  panicked : bool
}.

Definition set_numOut (v : Z) (s : state) : state := mkS (sid s) v (retransQ s) (reliableSize s) (writeOffset s) (shutdown s) (resetErr s) (queuedReset s) (supportsRSA s) (finishedWriting s) (finSent s) (cancellationFlagged s) (completed s) (dataForWriting s) (nextFrame s) (token s) (writing s) (wtotal s) (fcSent s) (fcWindow s) (fcLastBlocked s) (ccSent s) (ccWindow s) (W s) (outstanding s) (outReset s) (acked s) (emitted s) (emittedNew s) (late s) (panicked s).
Definition set_retransQ (v : list frame) (s : state) : state := mkS (sid s) (numOut s) v (reliableSize s) (writeOffset s) (shutdown s) (resetErr s) (queuedReset s) (supportsRSA s) (finishedWriting s) (finSent s) (cancellationFlagged s) (completed s) (dataForWriting s) (nextFrame s) (token s) (writing s) (wtotal s) (fcSent s) (fcWindow s) (fcLastBlocked s) (ccSent s) (ccWindow s) (W s) (outstanding s) (outReset s) (acked s) (emitted s) (emittedNew s) (late s) (panicked s).
Definition set_reliableSize (v : Z) (s : state) : state := mkS (sid s) (numOut s) (retransQ s) v (writeOffset s) (shutdown s) (resetErr s) (queuedReset s) (supportsRSA s) (finishedWriting s) (finSent s) (cancellationFlagged s) (completed s) (dataForWriting s) (nextFrame s) (token s) (writing s) (wtotal s) (fcSent s) (fcWindow s) (fcLastBlocked s) (ccSent s) (ccWindow s) (W s) (outstanding s) (outReset s) (acked s) (emitted s) (emittedNew s) (late s) (panicked s).
Definition set_writeOffset (v : Z) (s : state) : state := mkS (sid s) (numOut s) (retransQ s) (reliableSize s) v (shutdown s) (resetErr s) (queuedReset s) (supportsRSA s) (finishedWriting s) (finSent s) (cancellationFlagged s) (completed s) (dataForWriting s) (nextFrame s) (token s) (writing s) (wtotal s) (fcSent s) (fcWindow s) (fcLastBlocked s) (ccSent s) (ccWindow s) (W s) (outstanding s) (outReset s) (acked s) (emitted s) (emittedNew s) (late s) (panicked s).
Definition set_shutdown (v : bool) (s : state) : state := mkS (sid s) (numOut s) (retransQ s) (reliableSize s) (writeOffset s) v (resetErr s) (queuedReset s) (supportsRSA s) (finishedWriting s) (finSent s) (cancellationFlagged s) (completed s) (dataForWriting s) (nextFrame s) (token s) (writing s) (wtotal s) (fcSent s) (fcWindow s) (fcLastBlocked s) (ccSent s) (ccWindow s) (W s) (outstanding s) (outReset s) (acked s) (emitted s) (emittedNew s) (late s) (panicked s).
Definition set_resetErr (v : option (Z * bool)) (s : state) : state := mkS (sid s) (numOut s) (retransQ s) (reliableSize s) (writeOffset s) (shutdown s) v (queuedReset s) (supportsRSA s) (finishedWriting s) (finSent s) (cancellationFlagged s) (completed s) (dataForWriting s) (nextFrame s) (token s) (writing s) (wtotal s) (fcSent s) (fcWindow s) (fcLastBlocked s) (ccSent s) (ccWindow s) (W s) (outstanding s) (outReset s) (acked s) (emitted s) (emittedNew s) (late s) (panicked s).
Definition set_queuedReset (v : option rst) (s : state) : state := mkS (sid s) (numOut s) (retransQ s) (reliableSize s) (writeOffset s) (shutdown s) (resetErr s) v (supportsRSA s) (finishedWriting s) (finSent s) (cancellationFlagged s) (completed s) (dataForWriting s) (nextFrame s) (token s) (writing s) (wtotal s) (fcSent s) (fcWindow s) (fcLastBlocked s) (ccSent s) (ccWindow s) (W s) (outstanding s) (outReset s) (acked s) (emitted s) (emittedNew s) (late s) (panicked s).
Definition set_supportsRSA (v : bool) (s : state) : state := mkS (sid s) (numOut s) (retransQ s) (reliableSize s) (writeOffset s) (shutdown s) (resetErr s) (queuedReset s) v (finishedWriting s) (finSent s) (cancellationFlagged s) (completed s) (dataForWriting s) (nextFrame s) (token s) (writing s) (wtotal s) (fcSent s) (fcWindow s) (fcLastBlocked s) (ccSent s) (ccWindow s) (W s) (outstanding s) (outReset s) (acked s) (emitted s) (emittedNew s) (late s) (panicked s).
Definition set_finishedWriting (v : bool) (s : state) : state := mkS (sid s) (numOut s) (retransQ s) (reliableSize s) (writeOffset s) (shutdown s) (resetErr s) (queuedReset s) (supportsRSA s) v (finSent s) (cancellationFlagged s) (completed s) (dataForWriting s) (nextFrame s) (token s) (writing s) (wtotal s) (fcSent s) (fcWindow s) (fcLastBlocked s) (ccSent s) (ccWindow s) (W s) (outstanding s) (outReset s) (acked s) (emitted s) (emittedNew s) (late s) (panicked s).
Definition set_finSent (v : bool) (s : state) : state := mkS (sid s) (numOut s) (retransQ s) (reliableSize s) (writeOffset s) (shutdown s) (resetErr s) (queuedReset s) (supportsRSA s) (finishedWriting s) v (cancellationFlagged s) (completed s) (dataForWriting s) (nextFrame s) (token s) (writing s) (wtotal s) (fcSent s) (fcWindow s) (fcLastBlocked s) (ccSent s) (ccWindow s) (W s) (outstanding s) (outReset s) (acked s) (emitted s) (emittedNew s) (late s) (panicked s).
Definition set_cancellationFlagged (v : bool) (s : state) : state := mkS (sid s) (numOut s) (retransQ s) (reliableSize s) (writeOffset s) (shutdown s) (resetErr s) (queuedReset s) (supportsRSA s) (finishedWriting s) (finSent s) v (completed s) (dataForWriting s) (nextFrame s) (token s) (writing s) (wtotal s) (fcSent s) (fcWindow s) (fcLastBlocked s) (ccSent s) (ccWindow s) (W s) (outstanding s) (outReset s) (acked s) (emitted s) (emittedNew s) (late s) (panicked s).
Definition set_completed (v : bool) (s : state) : state := mkS (sid s) (numOut s) (retransQ s) (reliableSize s) (writeOffset s) (shutdown s) (resetErr s) (queuedReset s) (supportsRSA s) (finishedWriting s) (finSent s) (cancellationFlagged s) v (dataForWriting s) (nextFrame s) (token s) (writing s) (wtotal s) (fcSent s) (fcWindow s) (fcLastBlocked s) (ccSent s) (ccWindow s) (W s) (outstanding s) (outReset s) (acked s) (emitted s) (emittedNew s) (late s) (panicked s).
Definition set_dataForWriting (v : list Z) (s : state) : state := mkS (sid s) (numOut s) (retransQ s) (reliableSize s) (writeOffset s) (shutdown s) (resetErr s) (queuedReset s) (supportsRSA s) (finishedWriting s) (finSent s) (cancellationFlagged s) (completed s) v (nextFrame s) (token s) (writing s) (wtotal s) (fcSent s) (fcWindow s) (fcLastBlocked s) (ccSent s) (ccWindow s) (W s) (outstanding s) (outReset s) (acked s) (emitted s) (emittedNew s) (late s) (panicked s).
Definition set_nextFrame (v : option (Z * list Z)) (s : state) : state := mkS (sid s) (numOut s) (retransQ s) (reliableSize s) (writeOffset s) (shutdown s) (resetErr s) (queuedReset s) (supportsRSA s) (finishedWriting s) (finSent s) (cancellationFlagged s) (completed s) (dataForWriting s) v (token s) (writing s) (wtotal s) (fcSent s) (fcWindow s) (fcLastBlocked s) (ccSent s) (ccWindow s) (W s) (outstanding s) (outReset s) (acked s) (emitted s) (emittedNew s) (late s) (panicked s).
Definition set_token (v : bool) (s : state) : state := mkS (sid s) (numOut s) (retransQ s) (reliableSize s) (writeOffset s) (shutdown s) (resetErr s) (queuedReset s) (supportsRSA s) (finishedWriting s) (finSent s) (cancellationFlagged s) (completed s) (dataForWriting s) (nextFrame s) v (writing s) (wtotal s) (fcSent s) (fcWindow s) (fcLastBlocked s) (ccSent s) (ccWindow s) (W s) (outstanding s) (outReset s) (acked s) (emitted s) (emittedNew s) (late s) (panicked s).
Definition set_writing (v : bool) (s : state) : state := mkS (sid s) (numOut s) (retransQ s) (reliableSize s) (writeOffset s) (shutdown s) (resetErr s) (queuedReset s) (supportsRSA s) (finishedWriting s) (finSent s) (cancellationFlagged s) (completed s) (dataForWriting s) (nextFrame s) (token s) v (wtotal s) (fcSent s) (fcWindow s) (fcLastBlocked s) (ccSent s) (ccWindow s) (W s) (outstanding s) (outReset s) (acked s) (emitted s) (emittedNew s) (late s) (panicked s).
Definition set_wtotal (v : Z) (s : state) : state := mkS (sid s) (numOut s) (retransQ s) (reliableSize s) (writeOffset s) (shutdown s) (resetErr s) (queuedReset s) (supportsRSA s) (finishedWriting s) (finSent s) (cancellationFlagged s) (completed s) (dataForWriting s) (nextFrame s) (token s) (writing s) v (fcSent s) (fcWindow s) (fcLastBlocked s) (ccSent s) (ccWindow s) (W s) (outstanding s) (outReset s) (acked s) (emitted s) (emittedNew s) (late s) (panicked s).
Definition set_fcSent (v : Z) (s : state) : state := mkS (sid s) (numOut s) (retransQ s) (reliableSize s) (writeOffset s) (shutdown s) (resetErr s) (queuedReset s) (supportsRSA s) (finishedWriting s) (finSent s) (cancellationFlagged s) (completed s) (dataForWriting s) (nextFrame s) (token s) (writing s) (wtotal s) v (fcWindow s) (fcLastBlocked s) (ccSent s) (ccWindow s) (W s) (outstanding s) (outReset s) (acked s) (emitted s) (emittedNew s) (late s) (panicked s).
Definition set_fcWindow (v : Z) (s : state) : state := mkS (sid s) (numOut s) (retransQ s) (reliableSize s) (writeOffset s) (shutdown s) (resetErr s) (queuedReset s) (supportsRSA s) (finishedWriting s) (finSent s) (cancellationFlagged s) (completed s) (dataForWriting s) (nextFrame s) (token s) (writing s) (wtotal s) (fcSent s) v (fcLastBlocked s) (ccSent s) (ccWindow s) (W s) (outstanding s) (outReset s) (acked s) (emitted s) (emittedNew s) (late s) (panicked s).
Definition set_fcLastBlocked (v : Z) (s : state) : state := mkS (sid s) (numOut s) (retransQ s) (reliableSize s) (writeOffset s) (shutdown s) (resetErr s) (queuedReset s) (supportsRSA s) (finishedWriting s) (finSent s) (cancellationFlagged s) (completed s) (dataForWriting s) (nextFrame s) (token s) (writing s) (wtotal s) (fcSent s) (fcWindow s) v (ccSent s) (ccWindow s) (W s) (outstanding s) (outReset s) (acked s) (emitted s) (emittedNew s) (late s) (panicked s).
Definition set_ccSent (v : Z) (s : state) : state := mkS (sid s) (numOut s) (retransQ s) (reliableSize s) (writeOffset s) (shutdown s) (resetErr s) (queuedReset s) (supportsRSA s) (finishedWriting s) (finSent s) (cancellationFlagged s) (completed s) (dataForWriting s) (nextFrame s) (token s) (writing s) (wtotal s) (fcSent s) (fcWindow s) (fcLastBlocked s) v (ccWindow s) (W s) (outstanding s) (outReset s) (acked s) (emitted s) (emittedNew s) (late s) (panicked s).
Definition set_ccWindow (v : Z) (s : state) : state := mkS (sid s) (numOut s) (retransQ s) (reliableSize s) (writeOffset s) (shutdown s) (resetErr s) (queuedReset s) (supportsRSA s) (finishedWriting s) (finSent s) (cancellationFlagged s) (completed s) (dataForWriting s) (nextFrame s) (token s) (writing s) (wtotal s) (fcSent s) (fcWindow s) (fcLastBlocked s) (ccSent s) v (W s) (outstanding s) (outReset s) (acked s) (emitted s) (emittedNew s) (late s) (panicked s).
Definition set_W (v : list Z) (s : state) : state := mkS (sid s) (numOut s) (retransQ s) (reliableSize s) (writeOffset s) (shutdown s) (resetErr s) (queuedReset s) (supportsRSA s) (finishedWriting s) (finSent s) (cancellationFlagged s) (completed s) (dataForWriting s) (nextFrame s) (token s) (writing s) (wtotal s) (fcSent s) (fcWindow s) (fcLastBlocked s) (ccSent s) (ccWindow s) v (outstanding s) (outReset s) (acked s) (emitted s) (emittedNew s) (late s) (panicked s).
Definition set_outstanding (v : list frame) (s : state) : state := mkS (sid s) (numOut s) (retransQ s) (reliableSize s) (writeOffset s) (shutdown s) (resetErr s) (queuedReset s) (supportsRSA s) (finishedWriting s) (finSent s) (cancellationFlagged s) (completed s) (dataForWriting s) (nextFrame s) (token s) (writing s) (wtotal s) (fcSent s) (fcWindow s) (fcLastBlocked s) (ccSent s) (ccWindow s) (W s) v (outReset s) (acked s) (emitted s) (emittedNew s) (late s) (panicked s).
Definition set_outReset (v : list rst) (s : state) : state := mkS (sid s) (numOut s) (retransQ s) (reliableSize s) (writeOffset s) (shutdown s) (resetErr s) (queuedReset s) (supportsRSA s) (finishedWriting s) (finSent s) (cancellationFlagged s) (completed s) (dataForWriting s) (nextFrame s) (token s) (writing s) (wtotal s) (fcSent s) (fcWindow s) (fcLastBlocked s) (ccSent s) (ccWindow s) (W s) (outstanding s) v (acked s) (emitted s) (emittedNew s) (late s) (panicked s).
Definition set_acked (v : list frame) (s : state) : state := mkS (sid s) (numOut s) (retransQ s) (reliableSize s) (writeOffset s) (shutdown s) (resetErr s) (queuedReset s) (supportsRSA s) (finishedWriting s) (finSent s) (cancellationFlagged s) (completed s) (dataForWriting s) (nextFrame s) (token s) (writing s) (wtotal s) (fcSent s) (fcWindow s) (fcLastBlocked s) (ccSent s) (ccWindow s) (W s) (outstanding s) (outReset s) v (emitted s) (emittedNew s) (late s) (panicked s).
Definition set_emitted (v : list frame) (s : state) : state := mkS (sid s) (numOut s) (retransQ s) (reliableSize s) (writeOffset s) (shutdown s) (resetErr s) (queuedReset s) (supportsRSA s) (finishedWriting s) (finSent s) (cancellationFlagged s) (completed s) (dataForWriting s) (nextFrame s) (token s) (writing s) (wtotal s) (fcSent s) (fcWindow s) (fcLastBlocked s) (ccSent s) (ccWindow s) (W s) (outstanding s) (outReset s) (acked s) v (emittedNew s) (late s) (panicked s).
Definition set_emittedNew (v : list frame) (s : state) : state := mkS (sid s) (numOut s) (retransQ s) (reliableSize s) (writeOffset s) (shutdown s) (resetErr s) (queuedReset s) (supportsRSA s) (finishedWriting s) (finSent s) (cancellationFlagged s) (completed s) (dataForWriting s) (nextFrame s) (token s) (writing s) (wtotal s) (fcSent s) (fcWindow s) (fcLastBlocked s) (ccSent s) (ccWindow s) (W s) (outstanding s) (outReset s) (acked s) (emitted s) v (late s) (panicked s).
Definition set_late (v : bool) (s : state) : state := mkS (sid s) (numOut s) (retransQ s) (reliableSize s) (writeOffset s) (shutdown s) (resetErr s) (queuedReset s) (supportsRSA s) (finishedWriting s) (finSent s) (cancellationFlagged s) (completed s) (dataForWriting s) (nextFrame s) (token s) (writing s) (wtotal s) (fcSent s) (fcWindow s) (fcLastBlocked s) (ccSent s) (ccWindow s) (W s) (outstanding s) (outReset s) (acked s) (emitted s) (emittedNew s) v (panicked s).
Definition set_panicked (v : bool) (s : state) : state := mkS (sid s) (numOut s) (retransQ s) (reliableSize s) (writeOffset s) (shutdown s) (resetErr s) (queuedReset s) (supportsRSA s) (finishedWriting s) (finSent s) (cancellationFlagged s) (completed s) (dataForWriting s) (nextFrame s) (token s) (writing s) (wtotal s) (fcSent s) (fcWindow s) (fcLastBlocked s) (ccSent s) (ccWindow s) (W s) (outstanding s) (outReset s) (acked s) (emitted s) (emittedNew s) (late s) v.

Definition init (sid0 : Z) (rsa : bool) (swin cwin : Z) : state :=
  mkS sid0 0 [] 0 0 false None None rsa false false false false [] None false false 0
      0 swin 0 0 cwin [] [] [] [] [] [] false false.

(** ** helpers *)
Definition f_end (f : frame) : Z := f_off f + zlen (f_data f).
Definition nfLen (s : state) : Z := match nextFrame s with Some (_, d) => zlen d | None => 0 end.
Definition isNil {A} (l : list A) : bool := match l with [] => true | _ => false end.
Definition isSome {A} (o : option A) : bool := match o with Some _ => true | None => false end.
Definition zfirstn {A} (n : Z) (l : list A) : list A := firstn (Z.to_nat n) l.
Definition zskipn {A} (n : Z) (l : list A) : list A := skipn (Z.to_nat n) l.
Fixpoint remove_nth {A} (n : nat) (l : list A) : list A :=
  match l, n with
  | [], _ => []
  | _ :: r, O => r
  | x :: r, S n' => x :: remove_nth n' r
  end.

(* reliableOffset() *)
Definition ro (s : state) : Z := if supportsRSA s then reliableSize s else 0.

(** ** wire.StreamFrame arithmetic (DataLenPresent = true: every frame the stream builds or
    re-queues has the flag set; OnLost sets it again after the packer may have cleared it) *)
Definition offLen (off : Z) : Z := if off =? 0 then 0 else vlen off.
(* MaxDataLen(maxSize) with DataLenPresent: headerLen counts one byte of length field, then
   shrinkForLengthField (the same function as in C08's model Wire.FramesStream, tied to Go there) *)
Definition max_data_len (sid0 off maxSize : Z) : Z :=
  let h := 1 + vlen sid0 + offLen off + 1 in
  if h >? maxSize then 0
  else V.Wire.FramesStream.shrink_for_length_field (maxSize - h).
(* Length() *)
Definition frame_len (sid0 : Z) (f : frame) : Z :=
  1 + vlen sid0 + offLen (f_off f) + vlen (zlen (f_data f)) + zlen (f_data f).

(* MaybeSplitOffFrame: None = no split needed; Some None = split needed but nothing fits;
   Some (Some (new, rest)) = [new] is returned, [rest] stays at the head of the queue. *)
Definition maybe_split (sid0 : Z) (f : frame) (maxSize : Z) : option (option (frame * frame)) :=
  if maxSize >=? frame_len sid0 f then None
  else let n := max_data_len sid0 (f_off f) maxSize in
       if n =? 0 then Some None
       else Some (Some (mkF (f_off f) (zfirstn n (f_data f)) false,
                        mkF (f_off f + n) (zskipn n (f_data f)) (f_fin f))).

(** ** flow controllers, send side *)
Definition fcSendWindow (s : state) : Z := if fcSent s >? fcWindow s then 0 else fcWindow s - fcSent s.
Definition ccSendWindow (s : state) : Z := if ccSent s >? ccWindow s then 0 else ccWindow s - ccSent s.
Definition sendWindowSize (s : state) : Z := Z.min (fcSendWindow s) (ccSendWindow s).
(* streamFlowController.IsNewlyBlocked (baseFlowController.IsNewlyBlocked of the stream) *)
Definition isNewlyBlocked (s : state) : state * bool :=
  if negb (fcSendWindow s =? 0) || (fcWindow s =? fcLastBlocked s) then (s, false)
  else (set_fcLastBlocked (fcWindow s) s, true).
Definition addBytesSent (n : Z) (s : state) : state :=
  set_ccSent (ccSent s + n) (set_fcSent (fcSent s + n) s).

(** ** observables of one step *)
Record out := mkOut {
  o_frame : option frame;        (* popStreamFrame: the frame *)
  o_blocked : option Z;          (* STREAM_DATA_BLOCKED.MaximumStreamData *)
  o_more : bool;                 (* hasMore *)
  o_ctrl : option rst;           (* getControlFrame *)
  o_ret : Z;                     (* Close: 0 nil / 1 error *)
  o_wres : option (Z * Z * Z);   (* a Write call returned: n, error class, error code *)
  o_hd : Z; o_hc : Z; o_done : Z (* calls of onHasStreamData / onHasStreamControlFrame / onStreamCompleted *)
}.
Definition out0 : out := mkOut None None false None 0 None 0 0 0.
Definition b2z (b : bool) : Z := if b then 1 else 0.
Definition out_done (c : bool) : out := mkOut None None false None 0 None 0 0 (b2z c).

(* error classes of Write: 0 nil, 1 local StreamError, 2 remote StreamError, 3 shutdown, 4 closed stream *)
Definition errcls (remote : bool) : Z := if remote then 2 else 1.

(** ** isNewlyCompleted *)
Definition newly_completed (s : state) : state * bool :=
  if completed s then (s, false)
  else if 0 <? nfLen s then (s, false)
  else if (0 <? numOut s) || negb (isNil (retransQ s)) || isSome (queuedReset s) then (s, false)
  else if finSent s then (set_completed true s, true)
  else if isSome (resetErr s) && (cancellationFlagged s || finishedWriting s) then (set_completed true s, true)
  else (s, false).

(** ** Write *)
Definition canBuffer (s : state) : bool := nfLen s + zlen (dataForWriting s) <=? ssMaxPacketBufferSize.

(* one iteration of the loop in write(); [first] = the iteration of the call itself *)
Definition write_iter (first : bool) (s : state) : state * out :=
  (* the buffering branch is only taken while the stream is neither reset nor shut down (repair C01-write-buffered-after-reset) *)
  if negb (isSome (resetErr s)) && negb (shutdown s) && canBuffer s && (0 <? zlen (dataForWriting s)) then
    let nf := match nextFrame s with
              | None => Some (writeOffset s, dataForWriting s)
              | Some (o, d) => Some (o, d ++ dataForWriting s)
              end in
    let s1 := set_writing false (set_dataForWriting [] (set_nextFrame nf s)) in
    (s1, mkOut None None false None 0 (Some (wtotal s, 0, 0)) (b2z first) 0 0)
  else
    let bw := wtotal s - zlen (dataForWriting s) in
    if isNil (dataForWriting s) || shutdown s || isSome (resetErr s) then
      let s1 := set_writing false s in
      if bw =? wtotal s then (s1, mkOut None None false None 0 (Some (bw, 0, 0)) 0 0 0)
      else if shutdown s then (s1, mkOut None None false None 0 (Some (bw, 3, 0)) 0 0 0)
      else match resetErr s with
           | Some (code, remote) =>
             let (s2, c) := newly_completed (set_cancellationFlagged true s1) in
             (s2, mkOut None None false None 0 (Some (bw, errcls remote, code)) 0 0 (b2z c))
           | None => (s1, mkOut None None false None 0 (Some (bw, 0, 0)) 0 0 0)
           end
    else (s, mkOut None None false None 0 None (b2z first) 0 0).

Definition do_write (p : list Z) (s : state) : state * out :=
  if writing s then (s, out0) (* a second concurrent Write blocks on writeOnce; not modelled further *)
  else match resetErr s with
  | Some (code, remote) =>
    let (s1, c) := newly_completed (set_cancellationFlagged true s) in
    (s1, mkOut None None false None 0 (Some (0, errcls remote, code)) 0 0 (b2z c))
  | None =>
    if shutdown s then (s, mkOut None None false None 0 (Some (0, 3, 0)) 0 0 0)
    else if finishedWriting s then (s, mkOut None None false None 0 (Some (0, 4, 0)) 0 0 0)
    else if isNil p then (s, mkOut None None false None 0 (Some (0, 0, 0)) 0 0 0)
    else write_iter true (set_W (W s ++ p) (set_wtotal (zlen p) (set_writing true (set_dataForWriting p s))))
  end.

Definition do_resume (s : state) : state * out :=
  if writing s && token s then write_iter false (set_token false s) else (s, out0).

(** ** Close *)
Definition do_close (s : state) : state * out :=
  if shutdown s || finishedWriting s then (s, out0)
  else
    let cancelled := isSome (resetErr s) in
    let s1 := set_finishedWriting true s in
    let s2 := if cancelled then set_cancellationFlagged true s1 else s1 in
    let (s3, c) := newly_completed s2 in
    if cancelled then (s3, mkOut None None false None 1 None 0 0 (b2z c))
    else (s3, mkOut None None false None 0 None 1 0 (b2z c)).

(** ** popStreamFrame *)
(* getDataForWriting(f, maxBytes): returns the data of the new frame *)
Definition getDataForWriting (mb : Z) (s : state) : state * list Z :=
  if zlen (dataForWriting s) <=? mb then
    (set_token true (set_dataForWriting [] s), dataForWriting s)
  else
    let s1 := set_dataForWriting (zskipn mb (dataForWriting s)) s in
    (if canBuffer s1 then set_token true s1 else s1, zfirstn mb (dataForWriting s)).

(* popNewStreamFrame(maxBytes, maxDataLen): (frame, hasMoreData) *)
Definition popNewStreamFrame (maxBytes maxDataLen : Z) (s : state) : state * option frame * bool :=
  match nextFrame s with
  | Some (o, d) =>
    let m := Z.min maxDataLen (max_data_len (sid s) o maxBytes) in
    if m =? 0 then (s, None, true)
    else if zlen d >? m then
      (set_nextFrame (Some (writeOffset s + m, zskipn m d)) s, Some (mkF o (zfirstn m d) false), true)
    else
      (set_token true (set_nextFrame None s), Some (mkF o d false), negb (isNil (dataForWriting s)))
  | None =>
    let mdl := max_data_len (sid s) (writeOffset s) maxBytes in
    if mdl =? 0 then (s, None, negb (isNil (dataForWriting s)) || finishedWriting s)
    else if Z.min (zlen (dataForWriting s)) (Z.min mdl maxDataLen) >? ssMaxPacketBufferSize then
      (* f.Data[:n] beyond the capacity of a pooled frame: Go panics (slice bounds); the framer never
         offers more than a packet *)
      (set_panicked true s, None, false)
    else
      let (s1, data) := getDataForWriting (Z.min mdl maxDataLen) s in
      let more := negb (isNil (dataForWriting s1)) || finishedWriting s1 in
      if isNil data then (s1, None, more) else (s1, Some (mkF (writeOffset s) data false), more)
  end.

(* bookkeeping common to every frame that leaves the stream *)
Definition emit (isNew : bool) (f : frame) (s : state) : state :=
  let s1 := set_emitted (emitted s ++ [f]) (set_outstanding (outstanding s ++ [f]) (set_numOut (numOut s + 1) s)) in
  if isNew then set_emittedNew (emittedNew s1 ++ [f]) s1 else s1.

(* the part of popNewOrRetransmittedStreamFrame after popNewStreamFrame returned a frame *)
Definition finish_new (maxDataLen r : Z) (more : bool) (s1 : state) (f0 : frame) : state * out :=
  let dl := zlen (f_data f0) in
  let s2 := if 0 <? dl then addBytesSent dl (set_writeOffset (writeOffset s1 + dl) s1) else s1 in
  let more2 := if isSome (resetErr s2) && (writeOffset s2 >=? r) then false else more in
  let '(s3, blocked) :=
    if dl =? maxDataLen then
      let (s3, b) := isNewlyBlocked s2 in (s3, if b then Some (writeOffset s3) else None)
    else (s2, None) in
  (* no FIN on new data once the stream was reset (repair C01-fin-on-truncated-frame) *)
  let fin := finishedWriting s3 && isNil (dataForWriting s3) && negb (isSome (nextFrame s3)) && negb (finSent s3)
             && negb (isSome (resetErr s3)) in
  let s4 := if fin then set_finSent true s3 else s3 in
  let f := mkF (f_off f0) (f_data f0) fin in
  (emit true f s4, mkOut (Some f) blocked more2 None 0 None 0 0 0).

Definition do_pop (maxBytes : Z) (s : state) : state * out :=
  if shutdown s then (s, out0)
  else if isSome (resetErr s) && ((ro s =? 0) || ((writeOffset s >=? ro s) && isNil (retransQ s))) then (s, out0)
  else
  match retransQ s with
  | f :: q =>
    match maybe_split (sid s) f maxBytes with
    | None => (emit false f (set_retransQ q s), mkOut (Some f) None true None 0 None 0 0 0)
    | Some None => (s, mkOut None None true None 0 None 0 0 0)
    | Some (Some (new, rest)) =>
      (emit false new (set_retransQ (rest :: q) s), mkOut (Some new) None true None 0 None 0 0 0)
    end
  | [] =>
    if isNil (dataForWriting s) && negb (isSome (nextFrame s)) then
      if finishedWriting s && negb (finSent s) then
        let f := mkF (writeOffset s) [] true in
        (emit true f (set_finSent true s), mkOut (Some f) None false None 0 None 0 0 0)
      else (s, out0)
    else
      let win := sendWindowSize s in
      if win =? 0 then (s, mkOut None None true None 0 None 0 0 0)
      else
        let r := ro s in
        let maxDataLen := if isSome (resetErr s) && (0 <? r) then Z.min win (r - writeOffset s) else win in
        match popNewStreamFrame maxBytes maxDataLen s with
        | (s1, None, more) => (s1, mkOut None None more None 0 None 0 0 0)
        | (s1, Some f0, more) => finish_new maxDataLen r more s1 f0
        end
  end.

(** ** sendStreamAckHandler *)
Definition dec_outstanding_then_complete (s : state) : state * out :=
  let n := numOut s - 1 in
  if n <? 0 then (set_panicked true (set_numOut n s), out0)
  else let (s1, c) := newly_completed (set_numOut n s) in (s1, out_done c).

Definition do_acked (i : nat) (s : state) : state * out :=
  match nth_error (outstanding s) i with
  | None => (s, out0)
  | Some f =>
    let s0 := set_acked (acked s ++ [f]) (set_outstanding (remove_nth i (outstanding s)) s) in
    if isSome (resetErr s0) && (ro s0 =? 0) then (s0, out0)
    else dec_outstanding_then_complete s0
  end.

Definition do_lost (i : nat) (s : state) : state * out :=
  match nth_error (outstanding s) i with
  | None => (s, out0)
  | Some f =>
    let s0 := set_outstanding (remove_nth i (outstanding s)) s in
    if isSome (resetErr s0) && (ro s0 =? 0) then (s0, out0)
    else
      let n := numOut s0 - 1 in
      if n <? 0 then (set_panicked true (set_numOut n s0), out0)
      else
        let s1 := set_numOut n s0 in
        let r := ro s1 in
        if isSome (resetErr s1) && (0 <? r) && (f_off f >=? r) then
          let (s2, c) := newly_completed s1 in (s2, out_done c)
        else
          (* a truncated frame loses its FIN (repair C01-fin-on-truncated-frame) *)
          let f' := if isSome (resetErr s1) && (0 <? r) && (f_end f >? r)
                    then mkF (f_off f) (zfirstn (r - f_off f) (f_data f)) false else f in
          (set_retransQ (retransQ s1 ++ [f']) s1, mkOut None None false None 0 None 1 0 0)
  end.

(** ** CancelWrite / STOP_SENDING / RESET_STREAM handling *)
Definition trunc_queue (r : Z) (q : list frame) : list frame :=
  flat_map (fun f => if f_off f >=? r then []
                     else if f_end f <=? r then [f]
                     else [mkF (f_off f) (zfirstn (r - f_off f) (f_data f)) false]) q.

Definition do_cancel (code : Z) (s : state) : state * out :=
  if shutdown s then (s, out0)
  else
    let s1 := set_cancellationFlagged true s in
    if isSome (resetErr s1) then
      let (s2, c) := newly_completed s1 in (s2, out_done c)
    else
      let s2 := set_resetErr (Some (code, false)) s1 in
      let r := ro s2 in
      let s3 := if r =? 0 then set_nextFrame None (set_retransQ [] (set_numOut 0 s2)) else s2 in
      let s4 := set_queuedReset (Some (mkR (Z.max (writeOffset s3) r) code r)) s3 in
      let s5 :=
        if 0 <? r then
          let nf := match nextFrame s4 with
                    | Some (o, d) => if o >=? r then None
                                     else if o + zlen d >? r then Some (o, zfirstn (r - o) d) else Some (o, d)
                    | None => None
                    end in
          set_retransQ (trunc_queue r (retransQ s4)) (set_nextFrame nf s4)
        else s4 in
      (set_token true s5, mkOut None None false None 0 None 0 1 0).

Definition do_stop (code : Z) (s : state) : state * out :=
  if shutdown s then (s, out0)
  else if isSome (resetErr s) && (ro s =? 0) then (s, out0)
  else
    let s1 := set_nextFrame None (set_retransQ [] (set_numOut 0 (set_reliableSize 0 s))) in
    let s2 := match resetErr s1 with None => set_resetErr (Some (code, true)) s1 | Some _ => s1 end in
    let c := match resetErr s2 with Some (c, _) => c | None => code end in
    (set_token true (set_queuedReset (Some (mkR (writeOffset s2) c 0)) s2), mkOut None None false None 0 None 0 1 0).

Definition do_ctrl (s : state) : state * out :=
  match queuedReset s with
  | None => (s, out0)
  | Some r =>
    (set_queuedReset None (set_outReset (outReset s ++ [r]) (set_numOut (numOut s + 1) s)),
     mkOut None None false (Some r) 0 None 0 0 0)
  end.

Definition do_racked (i : nat) (s : state) : state * out :=
  match nth_error (outReset s) i with
  | None => (s, out0)
  | Some r =>
    let s0 := set_outReset (remove_nth i (outReset s)) s in
    if negb (r_rel r =? ro s0) then (s0, out0) else dec_outstanding_then_complete s0
  end.

Definition do_rlost (i : nat) (s : state) : state * out :=
  match nth_error (outReset s) i with
  | None => (s, out0)
  | Some r =>
    let s0 := set_outReset (remove_nth i (outReset s)) s in
    if negb (r_rel r =? ro s0) then (s0, out0)
    else (set_numOut (numOut s0 - 1) (set_queuedReset (Some r) s0), mkOut None None false None 0 None 0 1 0)
  end.

(** ** the rest *)
(* SetReliableBoundary is a no-op once the stream was reset (repair C04-set-reliable-boundary-after-reset-panic) *)
Definition do_rel (s : state) : state * out :=
  if isSome (resetErr s) then (s, out0)
  else (set_reliableSize (writeOffset s + nfLen s) s, out0).

(* enableResetStreamAt is a no-op once the stream was reset (repair C01-enable-reset-stream-at-after-reset):
   the ghost flag [late] can therefore never become true *)
Definition do_enable (s : state) : state * out :=
  if isSome (resetErr s) then (s, out0) else (set_supportsRSA true s, out0).

Definition do_shutdown (s : state) : state * out :=
  let s1 := if negb (shutdown s) && negb (finishedWriting s)
            then set_nextFrame None (set_retransQ [] (set_shutdown true s)) else s in
  (set_token true s1, out0).

Definition do_win (limit : Z) (s : state) : state * out :=
  if limit >? fcWindow s then
    (set_fcWindow limit s,
     mkOut None None false None 0 None (b2z (negb (isNil (dataForWriting s)) || isSome (nextFrame s))) 0 0)
  else (s, out0).

Definition do_cwin (limit : Z) (s : state) : state * out :=
  if limit >? ccWindow s then (set_ccWindow limit s, out0) else (s, out0).

Inductive op :=
| OWrite (p : list Z) | OResume | OClose | OPop (maxBytes : Z)
| OAcked (i : nat) | OLost (i : nat)
| OCancel (code : Z) | OStop (code : Z) | OCtrl | ORAcked (i : nat) | ORLost (i : nat)
| OWin (limit : Z) | OConnWin (limit : Z) | ORel | OEnable | OShutdown.

Definition step (s : state) (o : op) : state * out :=
  if panicked s then (s, out0)
  else match o with
  | OWrite p => do_write p s
  | OResume => do_resume s
  | OClose => do_close s
  | OPop mb => do_pop mb s
  | OAcked i => do_acked i s
  | OLost i => do_lost i s
  | OCancel c => do_cancel c s
  | OStop c => do_stop c s
  | OCtrl => do_ctrl s
  | ORAcked i => do_racked i s
  | ORLost i => do_rlost i s
  | OWin l => do_win l s
  | OConnWin l => do_cwin l s
  | ORel => do_rel s
  | OEnable => do_enable s
  | OShutdown => do_shutdown s
  end.

Fixpoint run (s : state) (ops : list op) : state * list out :=
  match ops with
  | [] => (s, [])
  | o :: r => let (s1, x) := step s o in let (s2, xs) := run s1 r in (s2, x :: xs)
  end.

Definition run_state (s : state) (ops : list op) : state := fold_left (fun s o => fst (step s o)) ops s.
