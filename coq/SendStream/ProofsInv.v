(** The data invariant of the SendStream model and its preservation by every op. *)
From Coq Require Import List ZArith Bool Lia.
From V Require Import Gen.Params Lib.Hex Wire.Varint SendStream.Model SendStream.ProofsBase.
Import ListNotations.
Open Scope Z_scope.

Ltac ssimp := cbn [sid numOut retransQ reliableSize writeOffset shutdown resetErr queuedReset supportsRSA finishedWriting finSent cancellationFlagged completed dataForWriting nextFrame token writing wtotal fcSent fcWindow fcLastBlocked ccSent ccWindow W outstanding outReset acked emitted emittedNew late panicked set_numOut set_retransQ set_reliableSize set_writeOffset set_shutdown set_resetErr set_queuedReset set_supportsRSA set_finishedWriting set_finSent set_cancellationFlagged set_completed set_dataForWriting set_nextFrame set_token set_writing set_wtotal set_fcSent set_fcWindow set_fcLastBlocked set_ccSent set_ccWindow set_W set_outstanding set_outReset set_acked set_emitted set_emittedNew set_late set_panicked fst snd f_off f_data f_fin] in *.

Definition nfData (s : state) : list Z := match nextFrame s with Some (_, d) => d | None => [] end.
Lemma nfLen_nfData s : nfLen s = zlen (nfData s).
Proof. unfold nfLen, nfData. destruct (nextFrame s) as [[o d]|]; reflexivity. Qed.

(** offsets of first transmissions: each starts where the previous one ended *)
Fixpoint contiguous (o : Z) (l : list frame) (e : Z) : Prop :=
  match l with
  | [] => o = e
  | f :: r => f_off f = o /\ contiguous (f_end f) r e
  end.
Lemma contiguous_snoc o l e f : contiguous o l e -> f_off f = e -> contiguous o (l ++ [f]) (f_end f).
Proof.
  revert o. induction l as [|g l IH]; intros o H E; simpl in *.
  - subst. auto.
  - destruct H as [H1 H2]. split; auto.
Qed.

Definition fgood (Wd : list Z) (f : frame) : Prop := good Wd f /\ zlen (f_data f) <= ssMaxPacketBufferSize.
Lemma fgood_app Wd x f : fgood Wd f -> fgood (Wd ++ x) f.
Proof. intros [H1 H2]. split; auto using good_app. Qed.

(** what is still to be sent for the first time is where the model thinks it is *)
Definition pending_ok (s : state) : Prop :=
  shutdown s = true \/
  (resetErr s = None /\ exists sent, W s = sent ++ nfData s ++ dataForWriting s /\ zlen sent = writeOffset s) \/
  (resetErr s <> None /\ (ro s = 0 \/ ro s <= writeOffset s)) \/
  (resetErr s <> None /\ 0 < ro s /\ writeOffset s < ro s /\
   exists sent rest, W s = sent ++ zfirstn (ro s - writeOffset s) (nfData s) ++ rest /\
                     zlen sent = writeOffset s /\ ro s - writeOffset s <= zlen (nfData s)).

Record Inv (s : state) : Prop := {
  i_wo : 0 <= writeOffset s;
  i_nfoff : forall o d, nextFrame s = Some (o, d) -> o = writeOffset s;
  i_nflen : nfLen s <= ssMaxPacketBufferSize;
  i_q : Forall (fgood (W s)) (retransQ s);
  i_out : Forall (fgood (W s)) (outstanding s);
  i_em : Forall (good (W s)) (emitted s);
  i_contig : contiguous 0 (emittedNew s) (writeOffset s);
  i_rs0 : 0 <= reliableSize s;
  i_rs : resetErr s = None -> shutdown s = false -> reliableSize s <= writeOffset s + nfLen s;
  i_idle : writing s = false -> resetErr s = None -> shutdown s = false -> dataForWriting s = [];
  i_pend : pending_ok s
}.

Definition core (s : state) :=
  (writeOffset s, nextFrame s, W s, retransQ s, outstanding s, emitted s, emittedNew s,
   resetErr s, shutdown s, reliableSize s, supportsRSA s, dataForWriting s, writing s).

Lemma Inv_core s s' : core s = core s' -> Inv s -> Inv s'.
Proof.
  unfold core. intros E [H1 H2 H3 H4 H5 H6 H7 H0 H8 H9 H10].
  inversion E as [[E1 E2 E3 E4 E5 E6 E7 E8 E9 E10 E11 E12 E13]].
  constructor; unfold pending_ok, ro, nfLen, nfData in *;
    rewrite <- ?E1, <- ?E2, <- ?E3, <- ?E4, <- ?E5, <- ?E6, <- ?E7, <- ?E8, <- ?E9, <- ?E10, <- ?E11, <- ?E12, <- ?E13;
    assumption.
Qed.

Lemma init_Inv sid0 rsa swin cwin : Inv (init sid0 rsa swin cwin).
Proof.
  constructor; unfold init, pending_ok, nfLen, nfData; ssimp; auto; try lia; try discriminate.
  all: try (unfold ssMaxPacketBufferSize; lia).
  - reflexivity.
  - right. left. split; auto. exists []. auto.
Qed.

(** ** ops that do not touch the core *)
Lemma newly_completed_core s : core (fst (newly_completed s)) = core s.
Proof.
  unfold newly_completed.
  repeat match goal with |- context [if ?c then _ else _] => destruct c end; reflexivity.
Qed.
Lemma newly_completed_late s : late (fst (newly_completed s)) = late s.
Proof.
  unfold newly_completed.
  repeat match goal with |- context [if ?c then _ else _] => destruct c end; reflexivity.
Qed.
Lemma isNewlyBlocked_core s : core (fst (isNewlyBlocked s)) = core s.
Proof. unfold isNewlyBlocked. destruct (_ || _); reflexivity. Qed.

Lemma dec_core s : core (fst (dec_outstanding_then_complete s)) = core s.
Proof.
  unfold dec_outstanding_then_complete. destruct (_ <? 0); [reflexivity|].
  destruct (newly_completed _) as [s1 c] eqn:E. ssimp.
  change s1 with (fst (s1, c)). rewrite <- E, newly_completed_core. reflexivity.
Qed.

Ltac inv_unf := unfold pending_ok, ro, nfLen, nfData in *; ssimp.
Ltac nc_core :=
  match goal with
  | |- context [newly_completed ?x] =>
    let s1 := fresh "s" in let c := fresh "c" in let E := fresh "Enc" in let L := fresh "Lnc" in
    pose proof (newly_completed_core x) as E; pose proof (newly_completed_late x) as L;
    destruct (newly_completed x) as [s1 c]; cbn [fst] in E, L
  end.
Ltac dec_core_t :=
  match goal with
  | |- context [dec_outstanding_then_complete ?x] =>
    let s1 := fresh "s" in let c := fresh "c" in let E := fresh "Edc" in
    pose proof (dec_core x) as E;
    destruct (dec_outstanding_then_complete x) as [s1 c]; cbn [fst] in E
  end.

(* a state that differs from [s] only in the two frame lists *)
Lemma Inv_upd s s' :
  Inv s ->
  writeOffset s' = writeOffset s -> nextFrame s' = nextFrame s -> W s' = W s ->
  Forall (fgood (W s)) (retransQ s') -> Forall (fgood (W s)) (outstanding s') ->
  emitted s' = emitted s -> emittedNew s' = emittedNew s -> resetErr s' = resetErr s ->
  shutdown s' = shutdown s -> reliableSize s' = reliableSize s -> supportsRSA s' = supportsRSA s ->
  dataForWriting s' = dataForWriting s -> writing s' = writing s -> Inv s'.
Proof.
  intros [H1 H2 H3 H4 H5 H6 H7 H0 H8 H9 H10] E1 E2 E3 E4 E5 E6 E7 E8 E9 E10 E11 E12 E13.
  constructor; unfold pending_ok, ro, nfLen, nfData in *;
    rewrite ?E1, ?E2, ?E3, ?E6, ?E7, ?E8, ?E9, ?E10, ?E11, ?E12, ?E13; assumption.
Qed.

Lemma Forall_remove_nth {A} (P : A -> Prop) i l : Forall P l -> Forall P (remove_nth i l).
Proof.
  revert i. induction l as [|x l IH]; intros i H.
  - destruct i; simpl; constructor.
  - inversion H; subst. destruct i; simpl; [assumption | constructor; auto].
Qed.
Lemma nth_error_Forall {A} (P : A -> Prop) i l x : Forall P l -> nth_error l i = Some x -> P x.
Proof. intros H E. apply nth_error_In in E. rewrite Forall_forall in H. auto. Qed.

Lemma do_close_Inv s : Inv s -> Inv (fst (do_close s)).
Proof.
  intros HI. unfold do_close. destruct (shutdown s || finishedWriting s); [exact HI|].
  nc_core. destruct (isSome (resetErr s)); cbn [fst]; apply Inv_core with s; auto; rewrite Enc; reflexivity.
Qed.

Lemma do_acked_Inv i s : Inv s -> Inv (fst (do_acked i s)).
Proof.
  intros HI. unfold do_acked. destruct (nth_error (outstanding s) i) as [f|] eqn:En; [|exact HI].
  set (s0 := set_acked _ _).
  assert (H0 : Inv s0).
  { apply Inv_upd with s; auto; try reflexivity; subst s0; ssimp; try apply HI.
    apply Forall_remove_nth, (i_out _ HI). }
  destruct (isSome (resetErr s0) && (ro s0 =? 0)); [exact H0|].
  dec_core_t. apply Inv_core with s0; auto.
Qed.

Lemma do_ctrl_Inv s : Inv s -> Inv (fst (do_ctrl s)).
Proof.
  intros HI. unfold do_ctrl. destruct (queuedReset s); [|exact HI].
  apply Inv_core with s; auto.
Qed.
Lemma do_racked_Inv i s : Inv s -> Inv (fst (do_racked i s)).
Proof.
  intros HI. unfold do_racked. destruct (nth_error (outReset s) i); [|exact HI].
  set (s0 := set_outReset _ _). assert (H0 : Inv s0) by (apply Inv_core with s; auto).
  destruct (negb _); [exact H0|]. dec_core_t. apply Inv_core with s0; auto.
Qed.
Lemma do_rlost_Inv i s : Inv s -> Inv (fst (do_rlost i s)).
Proof.
  intros HI. unfold do_rlost. destruct (nth_error (outReset s) i); [|exact HI].
  destruct (negb _); apply Inv_core with s; auto.
Qed.
Lemma do_win_Inv l s : Inv s -> Inv (fst (do_win l s)).
Proof. intros HI. unfold do_win. destruct (l >? fcWindow s); [apply Inv_core with s; auto|exact HI]. Qed.
Lemma do_cwin_Inv l s : Inv s -> Inv (fst (do_cwin l s)).
Proof. intros HI. unfold do_cwin. destruct (l >? ccWindow s); [apply Inv_core with s; auto|exact HI]. Qed.

Lemma nfLen_nonneg s : 0 <= nfLen s.
Proof. rewrite nfLen_nfData. apply zlen_nonneg. Qed.
Lemma ssmax_pos : 0 <= ssMaxPacketBufferSize.
Proof. unfold ssMaxPacketBufferSize. lia. Qed.

Lemma fgood_trunc Wd f n b' : fgood Wd f -> fgood Wd (mkF (f_off f) (zfirstn n (f_data f)) b').
Proof.
  destruct f as [o d b]. intros [H1 H2]. cbn in *. split.
  - eapply good_firstn; eauto.
  - cbn. pose proof (zlen_zfirstn_le n d). lia.
Qed.

Lemma trunc_queue_good Wd r q : Forall (fgood Wd) q -> Forall (fgood Wd) (trunc_queue r q).
Proof.
  induction q as [|f q IH]; intros H; simpl; auto. inversion H; subst.
  apply Forall_app. split; [|apply IH; assumption].
  destruct (f_off f >=? r); [constructor|].
  destruct (f_end f <=? r); (constructor; [|constructor]); auto using fgood_trunc.
Qed.

Lemma do_lost_Inv i s : Inv s -> Inv (fst (do_lost i s)).
Proof.
  intros HI. unfold do_lost. destruct (nth_error (outstanding s) i) as [f|] eqn:En; [|exact HI].
  set (s0 := set_outstanding _ _).
  assert (Hf : fgood (W s) f) by (eapply nth_error_Forall; [exact (i_out _ HI)|eauto]).
  assert (H0 : Inv s0).
  { apply Inv_upd with s; auto; try reflexivity; subst s0; ssimp; try apply HI.
    apply Forall_remove_nth, (i_out _ HI). }
  destruct (isSome (resetErr s0) && (ro s0 =? 0)); [exact H0|].
  destruct (numOut s0 - 1 <? 0); [apply Inv_core with s0; auto|].
  set (s1 := set_numOut _ s0). assert (H1 : Inv s1) by (apply Inv_core with s0; auto).
  destruct (isSome (resetErr s1) && (0 <? ro s1) && (f_off f >=? ro s1)).
  - nc_core. apply Inv_core with s1; auto.
  - cbn [fst]. apply Inv_upd with s1; auto; try reflexivity; ssimp; try apply H1.
    apply Forall_app. split; [exact (i_q _ H1)|]. constructor; [|constructor].
    destruct (_ && _); auto using fgood_trunc.
Qed.

Lemma do_stop_Inv c s : Inv s -> Inv (fst (do_stop c s)).
Proof.
  intros HI. unfold do_stop. destruct (shutdown s) eqn:Esh; [exact HI|].
  destruct (isSome (resetErr s) && (ro s =? 0)); [exact HI|].
  destruct HI as [H1 H2 H3 H4 H5 H6 H7 H0 H8 H9 H10].
  ssimp. destruct (resetErr s) as [[c0 r0]|] eqn:ER; cbn [fst];
  (constructor; inv_unf; rewrite ?ER; auto; try discriminate; try lia; try apply ssmax_pos;
   right; right; left; (split; [discriminate|]); left; destruct (supportsRSA s); reflexivity).
Qed.

Lemma do_shutdown_Inv s : Inv s -> Inv (fst (do_shutdown s)).
Proof.
  intros HI. unfold do_shutdown. destruct (negb (shutdown s) && negb (finishedWriting s)).
  - destruct HI as [H1 H2 H3 H4 H5 H6 H7 H0 H8 H9 H10].
    cbn [fst]. constructor; inv_unf; auto; try discriminate; try apply ssmax_pos.
  - apply Inv_core with s; auto.
Qed.

Lemma do_rel_Inv s : Inv s -> Inv (fst (do_rel s)).
Proof.
  intros HI. unfold do_rel. destruct (isSome (resetErr s)) eqn:HR; [exact HI|]. cbn [fst].
  assert (ER : resetErr s = None) by (destruct (resetErr s); [discriminate|reflexivity]).
  pose proof (nfLen_nonneg s) as Hn.
  destruct HI as [H1 H2 H3 H4 H5 H6 H7 H0 H8 H9 H10].
  constructor; inv_unf; auto; try lia.
  destruct H10 as [A|[A|[A|A]]]; auto; destruct A as [A _]; congruence.
Qed.

Lemma do_enable_Inv s : Inv s -> late (fst (do_enable s)) = false -> Inv (fst (do_enable s)).
Proof.
  intros HI. unfold do_enable. cbn [fst]. ssimp. intros HL.
  apply orb_false_iff in HL. destruct HL as [_ HR].
  destruct HI as [H1 H2 H3 H4 H5 H6 H7 H0 H8 H9 H10].
  constructor; inv_unf; auto.
  destruct (supportsRSA s) eqn:ES; [exact H10|].
  assert (ER : resetErr s = None) by (destruct (resetErr s); [discriminate|reflexivity]).
  destruct H10 as [A|[A|[A|A]]]; auto; destruct A as [A _]; congruence.
Qed.

Lemma isSome_false {A} (o : option A) : isSome o = false -> o = None.
Proof. destruct o; simpl; congruence. Qed.
Lemma isSome_true {A} (o : option A) : isSome o = true -> o <> None.
Proof. destruct o; simpl; congruence. Qed.

Lemma do_cancel_Inv c s : Inv s -> Inv (fst (do_cancel c s)).
Proof.
  intros HI. unfold do_cancel. destruct (shutdown s) eqn:Esh; [exact HI|].
  ssimp. destruct (isSome (resetErr s)) eqn:ER.
  { nc_core. apply Inv_core with s; auto. }
  apply isSome_false in ER.
  destruct HI as [H1 H2 H3 H4 H5 H6 H7 H0 H8 H9 H10].
  specialize (H8 ER Esh).
  set (r := ro (set_resetErr (Some (c, false)) (set_cancellationFlagged true s))).
  assert (Er : r = ro s) by reflexivity.
  destruct (Z.eqb_spec r 0) as [E0|E0].
  - (* no reliable size: everything is dropped *)
    assert (E1 : (0 <? r) = false) by (apply Z.ltb_ge; lia). rewrite E1. cbn [fst].
    constructor; inv_unf; auto; try discriminate; try apply ssmax_pos.
    right. right. left. split; [discriminate|]. left. exact E0.
  - assert (Hr : 0 < r) by (clearbody r; subst r; unfold ro in *; destruct (supportsRSA s); lia).
    assert (E1 : (0 <? r) = true) by (apply Z.ltb_lt; lia). rewrite E1. cbn [fst].
    destruct H10 as [A|[A|[A|A]]]; try congruence; try (destruct A as [A _]; congruence).
    destruct A as [_ (sent & EW & Ls)].
    constructor; unfold pending_ok, nfLen, nfData in *; ssimp; auto; try discriminate.
    + intros o d. destruct (nextFrame s) as [[o0 d0]|]; [|discriminate].
      specialize (H2 _ _ eq_refl). destruct (o0 >=? r); [discriminate|].
      destruct (o0 + zlen d0 >? r); intros E; inversion E; subst; auto.
    + destruct (nextFrame s) as [[o0 d0]|]; [|apply ssmax_pos].
      destruct (o0 >=? r); [apply ssmax_pos|].
      destruct (o0 + zlen d0 >? r); auto. pose proof (zlen_zfirstn_le (r - o0) d0). lia.
    + apply trunc_queue_good; auto.
    + (* pending *)
      right. right. fold r.
      destruct (Z.le_gt_cases r (writeOffset s)) as [Hle|Hgt].
      * left. split; [discriminate|]. right. change (ro _) with r. exact Hle.
      * right. split; [discriminate|]. change (ro _) with r. split; [lia|]. split; [lia|].
        destruct (nextFrame s) as [[o0 d0]|] eqn:Enf.
        2:{ exfalso. clearbody r. unfold ro in *. destruct (supportsRSA s); lia. }
        specialize (H2 _ _ eq_refl). subst o0.
        destruct (Z.geb_spec (writeOffset s) r); [lia|].
        assert (Hd : r - writeOffset s <= zlen d0) by (clearbody r; unfold ro in *; destruct (supportsRSA s); lia).
        exists sent, (zskipn (r - writeOffset s) d0 ++ dataForWriting s).
        destruct (Z.gtb_spec (writeOffset s + zlen d0) r).
        -- rewrite zfirstn_zfirstn by lia. rewrite zlen_zfirstn by lia. split; [|split; [auto|lia]].
           rewrite EW. f_equal. rewrite app_assoc, zfirstn_skipn. reflexivity.
        -- split; [|split; [auto|lia]]. rewrite EW. f_equal.
           rewrite app_assoc, zfirstn_skipn. reflexivity.
Qed.

Lemma write_iter_Inv first s : Inv s -> Inv (fst (write_iter first s)).
Proof.
  intros HI. unfold write_iter.
  destruct (negb (isSome (resetErr s)) && negb (shutdown s) && canBuffer s && (0 <? zlen (dataForWriting s))) eqn:EC.
  - (* the rest of the data is copied into nextFrame *)
    apply andb_prop in EC. destruct EC as [EC EC2]. apply andb_prop in EC. destruct EC as [_ EC1].
    unfold canBuffer in EC1.
    apply Z.leb_le in EC1. apply Z.ltb_lt in EC2.
    destruct HI as [H1 H2 H3 H4 H5 H6 H7 H0 H8 H9 H10]. cbn [fst].
    assert (ED : nfData (set_nextFrame (match nextFrame s with
                                        | Some (o, d) => Some (o, d ++ dataForWriting s)
                                        | None => Some (writeOffset s, dataForWriting s) end) s)
                 = nfData s ++ dataForWriting s).
    { unfold nfData. ssimp. destruct (nextFrame s) as [[o d]|]; reflexivity. }
    constructor; unfold pending_ok, nfLen in *; ssimp; auto.
    + intros o d. destruct (nextFrame s) as [[o0 d0]|]; intros E; inversion E; subst; eauto.
    + destruct (nextFrame s) as [[o0 d0]|]; ssimp; rewrite ?zlen_app; lia.
    + intros A B. specialize (H8 A B). destruct (nextFrame s) as [[o0 d0]|]; ssimp; rewrite ?zlen_app; lia.
    + unfold nfData in *. ssimp. unfold ro in *. ssimp.
      destruct H10 as [A|[A|[A|A]]]; auto.
      * right. left. destruct A as [A (sent & EW & Ls)]. split; auto. exists sent. split; auto.
        rewrite EW. destruct (nextFrame s) as [[o0 d0]|]; rewrite ?app_nil_r, <- ?app_assoc; reflexivity.
      * right. right. right. destruct A as (A & B & C & sent & rest & EW & Ls & Hl).
        repeat (split; auto). exists sent, rest.
        destruct (nextFrame s) as [[o0 d0]|]; cbn [app] in *.
        -- rewrite zfirstn_app_l by lia. rewrite zlen_app. repeat split; auto. lia.
        -- change (zlen (@nil Z)) with 0 in Hl. lia.
  - destruct (isNil (dataForWriting s) || shutdown s || isSome (resetErr s)) eqn:EB; [|exact HI].
    assert (Hs1 : Inv (set_writing false s)).
    { destruct HI as [H1 H2 H3 H4 H5 H6 H7 H0 H8 H9 H10].
      constructor; inv_unf; auto. intros _ A B. rewrite B in EB. rewrite A in EB. cbn in EB.
      rewrite !orb_false_r in EB. now apply isNil_true in EB. }
    destruct (_ =? _); [exact Hs1|]. destruct (shutdown s); [exact Hs1|].
    destruct (resetErr s) as [[c r]|]; [|exact Hs1].
    nc_core. cbn [fst]. eapply Inv_core; [|exact Hs1]. rewrite Enc. reflexivity.
Qed.

Lemma do_resume_Inv s : Inv s -> Inv (fst (do_resume s)).
Proof.
  intros HI. unfold do_resume. destruct (writing s && token s); [|exact HI].
  apply write_iter_Inv. apply Inv_core with s; auto.
Qed.

Lemma do_write_Inv p s : Inv s -> Inv (fst (do_write p s)).
Proof.
  intros HI. unfold do_write. destruct (writing s) eqn:EW; [exact HI|].
  destruct (resetErr s) as [[c r]|] eqn:ER.
  { nc_core. cbn [fst]. apply Inv_core with s; auto. }
  destruct (shutdown s) eqn:Esh; [exact HI|].
  destruct (finishedWriting s); [exact HI|]. destruct (isNil p); [exact HI|].
  apply write_iter_Inv.
  destruct HI as [H1 H2 H3 H4 H5 H6 H7 H0 H8 H9 H10].
  specialize (H9 EW ER Esh).
  constructor; inv_unf; auto; try discriminate.
  - eapply Forall_impl; [|exact H4]. intros; now apply fgood_app.
  - eapply Forall_impl; [|exact H5]. intros; now apply fgood_app.
  - eapply Forall_impl; [|exact H6]. intros; now apply good_app.
  - destruct H10 as [A|[A|[A|A]]]; try congruence; try (destruct A as [A _]; congruence).
    destruct A as [_ (sent & EW' & Ls)]. right. left. split; auto. exists sent. split; auto.
    rewrite EW', H9, app_nil_r, <- app_assoc. reflexivity.
Qed.

(** ** popStreamFrame *)
Lemma vlen_nonneg v : 0 <= vlen v.
Proof. unfold vlen. repeat match goal with |- context [if ?c then _ else _] => destruct c end; lia. Qed.
Lemma offLen_nonneg o : 0 <= offLen o.
Proof. unfold offLen. destruct (o =? 0); [lia|apply vlen_nonneg]. Qed.
Lemma mdl_nonneg sid0 off mb : 0 <= max_data_len sid0 off mb.
Proof. apply max_data_len_nonneg; [apply vlen_nonneg|apply offLen_nonneg]. Qed.

Lemma emit_retx_Inv s f q' :
  Inv s -> fgood (W s) f -> Forall (fgood (W s)) q' -> Inv (emit false f (set_retransQ q' s)).
Proof.
  intros [H1 H2 H3 H4 H5 H6 H7 H0 H8 H9 H10] Hf Hq. unfold emit.
  constructor; inv_unf; auto.
  - apply Forall_app. split; auto.
  - apply Forall_app. split; auto. constructor; [apply Hf|constructor].
Qed.

(* the state after a first transmission *)
Lemma new_frame_Inv s s' f :
  Inv s -> shutdown s = false ->
  (resetErr s = None \/
   (resetErr s <> None /\ 0 < ro s /\ writeOffset s < ro s /\ zlen (f_data f) <= ro s - writeOffset s)) ->
  f_off f = writeOffset s -> zlen (f_data f) <= ssMaxPacketBufferSize ->
  writeOffset s' = writeOffset s + zlen (f_data f) ->
  W s' = W s -> retransQ s' = retransQ s -> outstanding s' = outstanding s ++ [f] ->
  emitted s' = emitted s ++ [f] -> emittedNew s' = emittedNew s ++ [f] ->
  resetErr s' = resetErr s -> shutdown s' = shutdown s -> reliableSize s' = reliableSize s ->
  supportsRSA s' = supportsRSA s -> writing s' = writing s ->
  ((nextFrame s <> None /\ nfData s = f_data f ++ nfData s' /\ dataForWriting s' = dataForWriting s /\
    (forall o d, nextFrame s' = Some (o, d) -> o = writeOffset s'))
   \/ (nextFrame s = None /\ nextFrame s' = None /\ dataForWriting s = f_data f ++ dataForWriting s')) ->
  Inv s'.
Proof.
  intros [H1 H2 H3 H4 H5 H6 H7 H0 H8 H9 H10] Hsh Hg Eo Hl Ewo EW EQ Eout Eem Enew Er Es Ers Esup Ewr Hshape.
  pose proof (zlen_nonneg (f_data f)) as Hdl.
  assert (Hnf' : forall o d, nextFrame s' = Some (o, d) -> o = writeOffset s').
  { destruct Hshape as [(_ & _ & _ & A)|(_ & A & _)]; auto. rewrite A. discriminate. }
  assert (Hlen' : nfLen s' <= nfLen s /\ writeOffset s + nfLen s <= writeOffset s' + nfLen s').
  { rewrite !nfLen_nfData. destruct Hshape as [(_ & A & _)|(A & B & _)].
    - rewrite A, zlen_app. pose proof (zlen_nonneg (nfData s')). lia.
    - unfold nfData. rewrite A, B. change (zlen (@nil Z)) with 0. lia. }
  assert (Hpre : exists sent post, W s = sent ++ f_data f ++ post /\ zlen sent = writeOffset s /\
                   pending_ok s').
  { destruct Hg as [Hg|(Hg1 & Hg2 & Hg3 & Hg4)].
    - (* not reset *)
      destruct H10 as [A|[A|[A|A]]]; try congruence; try (destruct A as [A _]; congruence).
      destruct A as [_ (sent & EWs & Ls)].
      exists sent, (nfData s' ++ dataForWriting s'). split; [|split; auto].
      + rewrite EWs. f_equal. destruct Hshape as [(_ & A & B & _)|(A & B & C)].
        * rewrite A, B, <- app_assoc. reflexivity.
        * unfold nfData. rewrite A, B, C. reflexivity.
      + right. left. split; [congruence|]. exists (sent ++ f_data f). rewrite EW, zlen_app. split; [|lia].
        rewrite EWs, <- app_assoc. f_equal. destruct Hshape as [(_ & A & B & _)|(A & B & C)].
        * rewrite A, B, <- app_assoc. reflexivity.
        * unfold nfData. rewrite A, B, C. reflexivity.
    - (* reset with a reliable size that is not reached yet: only nextFrame can be the source *)
      destruct H10 as [A|[A|[A|A]]]; try congruence; try (destruct A as [A _]; congruence).
      { destruct A as [_ [A|A]]; lia. }
      destruct A as (_ & _ & _ & sent & rest & EWs & Ls & Hn).
      destruct Hshape as [(_ & A & B & _)|(A & _)].
      2:{ unfold nfData in Hn. rewrite A in Hn. change (zlen (@nil Z)) with 0 in Hn. lia. }
      assert (Ero : ro s' = ro s) by (unfold ro; rewrite Esup, Ers; reflexivity).
      assert (Esplit : zfirstn (ro s - writeOffset s) (nfData s) =
                       f_data f ++ zfirstn (ro s - writeOffset s') (nfData s')).
      { rewrite A. unfold zfirstn. rewrite firstn_app. f_equal.
        - apply firstn_all2. unfold zlen in *. lia.
        - f_equal. unfold zlen in *. lia. }
      exists sent, (zfirstn (ro s - writeOffset s') (nfData s') ++ rest). split; [|split; auto].
      + rewrite EWs, Esplit, <- app_assoc. reflexivity.
      + right. right. rewrite Ero.
        destruct (Z.le_gt_cases (ro s) (writeOffset s')) as [Hle|Hgt].
        * left. split; [congruence|]. right. exact Hle.
        * right. split; [congruence|]. split; [lia|]. split; [lia|].
          exists (sent ++ f_data f), rest. rewrite EW, zlen_app. split; [|split; [lia|]].
          -- rewrite EWs, Esplit, <- !app_assoc. reflexivity.
          -- rewrite A, zlen_app in Hn. lia. }
  destruct Hpre as (sent & post & EWs & Ls & Hp').
  assert (Hgood : fgood (W s) f).
  { split; auto. exists sent, post. split; auto. lia. }
  constructor; auto.
  - lia.
  - lia.
  - rewrite EW, EQ. exact H4.
  - rewrite EW, Eout. apply Forall_app. split; auto.
  - rewrite EW, Eem. apply Forall_app. split; auto. constructor; [apply Hgood|constructor].
  - rewrite Enew, Ewo. replace (writeOffset s + zlen (f_data f)) with (f_end f) by (unfold f_end; lia).
    eapply contiguous_snoc; eauto.
  - lia.
  - rewrite Er, Es, Ers. intros A B. specialize (H8 A B). lia.
  - rewrite Ewr, Er, Es. intros A B C. specialize (H9 A B C).
    destruct Hshape as [(_ & _ & D & _)|(_ & _ & D)]; [congruence|].
    rewrite H9 in D. symmetry in D. apply app_eq_nil in D. tauto.
Qed.

Lemma finish_new_fields mdl r more s1 f0 :
  let s' := fst (finish_new mdl r more s1 f0) in
  exists fin, let f := mkF (f_off f0) (f_data f0) fin in
  writeOffset s' = writeOffset s1 + zlen (f_data f0) /\ nextFrame s' = nextFrame s1 /\
  dataForWriting s' = dataForWriting s1 /\ W s' = W s1 /\ retransQ s' = retransQ s1 /\
  outstanding s' = outstanding s1 ++ [f] /\ emitted s' = emitted s1 ++ [f] /\
  emittedNew s' = emittedNew s1 ++ [f] /\ resetErr s' = resetErr s1 /\ shutdown s' = shutdown s1 /\
  reliableSize s' = reliableSize s1 /\ supportsRSA s' = supportsRSA s1 /\ writing s' = writing s1 /\
  late s' = late s1 /\
  (fin = true -> finishedWriting s1 = true /\ dataForWriting s1 = [] /\ nextFrame s1 = None /\ finSent s1 = false /\ resetErr s1 = None) /\
  finishedWriting s' = finishedWriting s1 /\ (finSent s' = finSent s1 || fin) /\
  acked s' = acked s1 /\ outReset s' = outReset s1 /\ queuedReset s' = queuedReset s1 /\
  numOut s' = numOut s1 + 1 /\ panicked s' = panicked s1.
Proof.
  intros s'. subst s'. unfold finish_new.
  pose proof (zlen_nonneg (f_data f0)) as Hn.
  set (dl := zlen (f_data f0)) in *.
  set (s2 := if 0 <? dl then _ else s1).
  assert (E2 : writeOffset s2 = writeOffset s1 + dl /\ nextFrame s2 = nextFrame s1 /\
               dataForWriting s2 = dataForWriting s1 /\ W s2 = W s1 /\ retransQ s2 = retransQ s1 /\
               outstanding s2 = outstanding s1 /\ emitted s2 = emitted s1 /\ emittedNew s2 = emittedNew s1 /\
               resetErr s2 = resetErr s1 /\ shutdown s2 = shutdown s1 /\ reliableSize s2 = reliableSize s1 /\
               supportsRSA s2 = supportsRSA s1 /\ writing s2 = writing s1 /\ late s2 = late s1 /\
               finishedWriting s2 = finishedWriting s1 /\ finSent s2 = finSent s1 /\
               acked s2 = acked s1 /\ outReset s2 = outReset s1 /\ queuedReset s2 = queuedReset s1 /\
               numOut s2 = numOut s1 /\ panicked s2 = panicked s1).
  { subst s2. destruct (Z.ltb_spec 0 dl); unfold addBytesSent; ssimp; repeat split; auto; lia. }
  clearbody s2.
  set (p3 := if dl =? mdl then _ else (s2, None)).
  assert (E3 : core (fst p3) = core s2 /\ late (fst p3) = late s2 /\ finishedWriting (fst p3) = finishedWriting s2 /\
               finSent (fst p3) = finSent s2 /\ acked (fst p3) = acked s2 /\ outReset (fst p3) = outReset s2 /\
               queuedReset (fst p3) = queuedReset s2 /\ numOut (fst p3) = numOut s2 /\ panicked (fst p3) = panicked s2).
  { subst p3. destruct (dl =? mdl); [|repeat split; reflexivity].
    unfold isNewlyBlocked. destruct (_ || _); repeat split; reflexivity. }
  destruct p3 as [s3 blocked]. cbn [fst] in E3. destruct E3 as (E3 & E3l & E3a & E3b & E3c & E3d & E3e & E3f & E3g).
  unfold core in E3. inversion E3 as [[A1 A2 A3 A4 A5 A6 A7 A8 A9 A10 A11 A12 A13]]. clear E3.
  destruct E2 as (B1 & B2 & B3 & B4 & B5 & B6 & B7 & B8 & B9 & B10 & B11 & B12 & B13 & B14 & B15 & B16 & B17 & B18 & B19 & B20 & B21).
  set (fin := finishedWriting s3 && isNil (dataForWriting s3) && negb (isSome (nextFrame s3)) && negb (finSent s3) && negb (isSome (resetErr s3))).
  exists fin. cbn [fst]. unfold emit.
  assert (Hfin : fin = true -> finishedWriting s1 = true /\ dataForWriting s1 = [] /\ nextFrame s1 = None /\ finSent s1 = false /\ resetErr s1 = None).
  { subst fin. intros H. apply andb_prop in H. destruct H as [H H5]. apply andb_prop in H. destruct H as [H H4]. apply andb_prop in H. destruct H as [H H3].
    apply andb_prop in H. destruct H as [H1 H2].
    rewrite E3a, B15 in H1. rewrite A12, B3 in H2. rewrite A2, B2 in H3. rewrite E3b, B16 in H4. rewrite A8, B9 in H5.
    repeat split; auto.
    - now apply isNil_true.
    - destruct (nextFrame s1); [discriminate|reflexivity].
    - destruct (finSent s1); [discriminate|reflexivity].
    - destruct (resetErr s1); [discriminate|reflexivity]. }
  destruct fin; ssimp; repeat split; try congruence; try lia; auto.
  all: try (rewrite E3b, B16; destruct (finSent s1); reflexivity).
  all: destruct (Hfin eq_refl) as (? & ? & ? & ? & ?); assumption.
Qed.

Definition same_rest (s1 s : state) : Prop :=
  writeOffset s1 = writeOffset s /\ W s1 = W s /\ retransQ s1 = retransQ s /\ outstanding s1 = outstanding s /\
  emitted s1 = emitted s /\ emittedNew s1 = emittedNew s /\ resetErr s1 = resetErr s /\ shutdown s1 = shutdown s /\
  reliableSize s1 = reliableSize s /\ supportsRSA s1 = supportsRSA s /\ writing s1 = writing s /\ late s1 = late s /\
  finishedWriting s1 = finishedWriting s /\ finSent s1 = finSent s /\ acked s1 = acked s /\ outReset s1 = outReset s /\
  queuedReset s1 = queuedReset s /\ numOut s1 = numOut s /\ sid s1 = sid s.

Lemma same_rest_refl s : same_rest s s.
Proof. unfold same_rest. repeat split. Qed.

Lemma getData_spec n s :
  let '(s1, data) := getDataForWriting n s in
  same_rest s1 s /\ nextFrame s1 = nextFrame s /\ dataForWriting s = data ++ dataForWriting s1 /\
  zlen data <= zlen (dataForWriting s) /\ (0 <= n -> zlen data <= n) /\ panicked s1 = panicked s.
Proof.
  unfold getDataForWriting. destruct (Z.leb_spec (zlen (dataForWriting s)) n).
  - unfold same_rest. ssimp. repeat split; auto; try lia. now rewrite app_nil_r.
  - set (s1 := set_dataForWriting _ s).
    assert (A : same_rest s1 s /\ nextFrame s1 = nextFrame s /\ panicked s1 = panicked s) by (subst s1; unfold same_rest; ssimp; repeat split).
    destruct A as (A & B & C).
    assert (D : dataForWriting s = zfirstn n (dataForWriting s) ++ dataForWriting s1) by (subst s1; ssimp; now rewrite zfirstn_skipn).
    pose proof (zlen_zfirstn_le n (dataForWriting s)).
    destruct (canBuffer s1); unfold same_rest in *; ssimp; repeat split; try tauto; try lia;
      intros; apply zlen_zfirstn_le'; lia.
Qed.

Lemma popNew_spec mb mdl s :
  (forall o d, nextFrame s = Some (o, d) -> o = writeOffset s) ->
  nfLen s <= ssMaxPacketBufferSize -> 0 < mdl ->
  let '(s1, fo, more) := popNewStreamFrame mb mdl s in
  same_rest s1 s /\
  match fo with
  | None => nextFrame s1 = nextFrame s /\ dataForWriting s1 = dataForWriting s
  | Some f0 =>
    panicked s1 = panicked s /\
    f_off f0 = writeOffset s /\ f_fin f0 = false /\ zlen (f_data f0) <= ssMaxPacketBufferSize /\ zlen (f_data f0) <= mdl /\
    ((nextFrame s <> None /\ nfData s = f_data f0 ++ nfData s1 /\ dataForWriting s1 = dataForWriting s /\
      (forall o d, nextFrame s1 = Some (o, d) -> o = writeOffset s + zlen (f_data f0)))
     \/ (nextFrame s = None /\ nextFrame s1 = None /\ dataForWriting s = f_data f0 ++ dataForWriting s1 /\ f_data f0 <> []))
  end.
Proof.
  intros Hoff Hlen Hm. unfold popNewStreamFrame.
  destruct (nextFrame s) as [[o d]|] eqn:Enf.
  - specialize (Hoff _ _ eq_refl). subst o. unfold nfLen in Hlen. rewrite Enf in Hlen.
    pose proof (mdl_nonneg (sid s) (writeOffset s) mb) as Hnn.
    set (m := Z.min mdl (max_data_len (sid s) (writeOffset s) mb)) in *.
    destruct (Z.eqb_spec m 0) as [Ez|Ez]; [split; [apply same_rest_refl|auto]|].
    assert (Hmp : 0 < m <= mdl) by lia.
    destruct (Z.gtb_spec (zlen d) m).
    + split; [unfold same_rest; ssimp; repeat split|]. ssimp. split; auto.
      pose proof (zlen_zfirstn_le m d). rewrite zlen_zfirstn by lia.
      repeat split; auto; try lia. left. unfold nfData. ssimp. rewrite Enf.
      repeat split; auto; try discriminate.
      * now rewrite zfirstn_skipn.
      * intros o' d' E. inversion E; subst. reflexivity.
    + split; [unfold same_rest; ssimp; repeat split|]. ssimp.
      repeat split; auto; try lia. left. unfold nfData. ssimp. rewrite Enf.
      repeat split; auto; try discriminate. now rewrite app_nil_r.
  - pose proof (mdl_nonneg (sid s) (writeOffset s) mb) as Hnn.
    destruct (Z.eqb_spec (max_data_len (sid s) (writeOffset s) mb) 0) as [Ez|Ez]; [split; [apply same_rest_refl|auto]|].
    set (n := Z.min (max_data_len (sid s) (writeOffset s) mb) mdl) in *.
    destruct (Z.gtb_spec (Z.min (zlen (dataForWriting s)) n) ssMaxPacketBufferSize) as [Hp|Hp].
    { split; [unfold same_rest; ssimp; repeat split|auto]. }
    pose proof (getData_spec n s) as G. destruct (getDataForWriting n s) as [s1 data].
    destruct G as (G1 & G2 & G3 & G4 & G5 & G6). specialize (G5 ltac:(lia)).
    destruct (isNil data) eqn:En.
    + apply isNil_true in En. subst data. split; auto. split; [congruence|]. now rewrite G3.
    + split; auto. cbn [f_off f_data f_fin]. repeat split; auto; try lia.
      right. rewrite Enf in G2. repeat split; auto. now apply isNil_false.
Qed.

Lemma sendWindowSize_nonneg s : 0 <= sendWindowSize s.
Proof.
  unfold sendWindowSize, fcSendWindow, ccSendWindow.
  destruct (Z.gtb_spec (fcSent s) (fcWindow s)); destruct (Z.gtb_spec (ccSent s) (ccWindow s)); lia.
Qed.

Lemma ro_nonneg s : Inv s -> 0 <= ro s.
Proof. intros HI. unfold ro. destruct (supportsRSA s); [apply HI|lia]. Qed.

(* what the guard at the top of popNewOrRetransmittedStreamFrame leaves when the queue is empty *)
Lemma pop_guard s :
  Inv s -> retransQ s = [] ->
  isSome (resetErr s) && ((ro s =? 0) || ((writeOffset s >=? ro s) && isNil (retransQ s))) = false ->
  resetErr s = None \/ (resetErr s <> None /\ 0 < ro s /\ writeOffset s < ro s).
Proof.
  intros HI EQ EG. rewrite EQ in EG. cbn [isNil] in EG. rewrite andb_true_r in EG.
  pose proof (ro_nonneg s HI).
  destruct (resetErr s); [right|now left]. cbn [isSome] in EG. cbn [andb] in EG.
  apply orb_false_iff in EG. destruct EG as [E1 E2].
  apply Z.eqb_neq in E1. rewrite Z.geb_leb in E2. apply Z.leb_gt in E2.
  split; [discriminate|lia].
Qed.

Lemma same_rest_Inv s1 s :
  same_rest s1 s -> nextFrame s1 = nextFrame s -> dataForWriting s1 = dataForWriting s -> Inv s -> Inv s1.
Proof.
  intros (A1 & A2 & A3 & A4 & A5 & A6 & A7 & A8 & A9 & A10 & A11 & _) B C HI.
  apply Inv_upd with s; auto.
  - rewrite A3. apply HI.
  - rewrite A4. apply HI.
Qed.

Lemma do_pop_Inv mb s : Inv s -> Inv (fst (do_pop mb s)).
Proof.
  intros HI. unfold do_pop. destruct (shutdown s) eqn:Esh; [exact HI|].
  destruct (isSome (resetErr s) && ((ro s =? 0) || ((writeOffset s >=? ro s) && isNil (retransQ s)))) eqn:EG; [exact HI|].
  pose proof (pop_guard s HI) as Hg.
  destruct (retransQ s) as [|f q] eqn:EQ.
  2:{ (* retransmission, possibly split *)
    pose proof (i_q _ HI) as Hq. rewrite EQ in Hq. inversion Hq as [|? ? Hf Hq']; subst.
    destruct (maybe_split (sid s) f mb) as [[[new rest]|]|] eqn:ES; cbn [fst].
    - assert (Hd : zlen (f_data f) <= 16383) by (destruct Hf; pose proof ss_bufsize_small; lia).
      destruct (maybe_split_spec _ _ _ _ _ Hd ES) as (n & Hn & -> & ->).
      destruct f as [o d b]. destruct Hf as [Hgd Hl]. cbn [f_off f_data f_fin] in *.
      apply emit_retx_Inv; auto.
      + split; [eapply good_firstn; eauto|]. cbn [f_data]. pose proof (zlen_zfirstn_le n d). lia.
      + constructor; auto. split; [eapply good_skipn; eauto; lia|]. cbn [f_data]. rewrite zlen_zskipn by lia. lia.
    - exact HI.
    - apply emit_retx_Inv; auto. }
  specialize (Hg eq_refl EG).
  destruct (isNil (dataForWriting s) && negb (isSome (nextFrame s))) eqn:EE.
  - destruct (finishedWriting s && negb (finSent s)); [|exact HI]. cbn [fst].
    apply andb_prop in EE. destruct EE as [E1 E2]. apply isNil_true in E1.
    assert (Enf : nextFrame s = None) by (destruct (nextFrame s); [discriminate|reflexivity]).
    apply new_frame_Inv with (s := s) (f := mkF (writeOffset s) [] true); unfold emit; ssimp; auto;
      change (zlen (@nil Z)) with 0; try lia; try apply ssmax_pos;
      try (destruct Hg as [Hg|(A & B & C)]; [now left|right]; repeat split; auto; lia);
      try (right; repeat split; auto).
  - pose proof (sendWindowSize_nonneg s) as Hw.
    destruct (Z.eqb_spec (sendWindowSize s) 0) as [Ew|Ew]; [exact HI|].
    set (mdl := if isSome (resetErr s) && (0 <? ro s) then _ else sendWindowSize s).
    assert (Hmdl : 0 < mdl /\ (resetErr s <> None -> mdl <= ro s - writeOffset s)).
    { subst mdl. destruct Hg as [Hg|(A & B & C)].
      - rewrite Hg. cbn. split; [lia|congruence].
      - destruct (resetErr s); [|congruence]. cbn [isSome andb].
        assert (E : (0 <? ro s) = true) by (apply Z.ltb_lt; lia). rewrite E. split; [lia|]. intros _. lia. }
    destruct Hmdl as [Hm1 Hm2].
    pose proof (popNew_spec mb mdl s (i_nfoff _ HI) (i_nflen _ HI) Hm1) as P.
    destruct (popNewStreamFrame mb mdl s) as [[s1 fo] more]. destruct P as [SR P].
    destruct fo as [f0|]; cbn [fst].
    2:{ destruct P as [P1 P2]. eapply same_rest_Inv; eauto. }
    destruct P as (Pp & Po & Pf & Pl & Pm & Pshape).
    pose proof (finish_new_fields mdl (ro s) more s1 f0) as F. cbn zeta in F.
    destruct F as (fin & F1 & F2 & F3 & F4 & F5 & F6 & F7 & F8 & F9 & F10 & F11 & F12 & F13 & _).
    destruct SR as (A1 & A2 & A3 & A4 & A5 & A6 & A7 & A8 & A9 & A10 & A11 & _).
    set (s' := fst (finish_new mdl (ro s) more s1 f0)) in *.
    apply new_frame_Inv with (s := s) (f := mkF (f_off f0) (f_data f0) fin); cbn [f_off f_data f_fin]; auto; try congruence.
    + destruct Hg as [Hg|(A & B & C)]; [now left|right]. repeat split; auto. specialize (Hm2 A). lia.
    + destruct Pshape as [(Q1 & Q2 & Q3 & Q4)|(Q1 & Q2 & Q3 & Q4)]; [left|right].
      * repeat split; auto.
        -- unfold nfData in *. rewrite F2. exact Q2.
        -- congruence.
        -- intros o d E. rewrite F2 in E. rewrite F1, A1. eauto.
      * repeat split; auto; congruence.
Qed.

(** ** [late] is sticky, so the invariant can be guarded by it *)
Ltac brk :=
  repeat match goal with
         | |- context [match ?x with _ => _ end] => destruct x
         end.

Lemma write_iter_late b s : late (fst (write_iter b s)) = late s.
Proof.
  unfold write_iter.
  destruct (_ && _); [reflexivity|]. destruct (_ || _); [|reflexivity].
  destruct (_ =? _); [reflexivity|]. destruct (shutdown s); [reflexivity|].
  destruct (resetErr s) as [[c r]|]; [|reflexivity]. nc_core. cbn [fst]. rewrite Lnc. reflexivity.
Qed.

Lemma dec_late s : late (fst (dec_outstanding_then_complete s)) = late s.
Proof.
  unfold dec_outstanding_then_complete. destruct (_ <? 0); [reflexivity|]. nc_core. cbn [fst]. now rewrite Lnc.
Qed.

Lemma popNew_late mb mdl s : late (fst (fst (popNewStreamFrame mb mdl s))) = late s.
Proof.
  unfold popNewStreamFrame. destruct (nextFrame s) as [[o d]|].
  - destruct (_ =? 0); [reflexivity|]. destruct (_ >? _); reflexivity.
  - destruct (_ =? 0); [reflexivity|]. destruct (_ >? _); [reflexivity|].
    pose proof (getData_spec (Z.min (max_data_len (sid s) (writeOffset s) mb) mdl) s) as G.
    destruct (getDataForWriting _ s) as [s1 data]. destruct G as (G & _).
    unfold same_rest in G. destruct (isNil data); cbn [fst]; tauto.
Qed.

Lemma finish_new_late mdl r more s1 f0 : late (fst (finish_new mdl r more s1 f0)) = late s1.
Proof.
  pose proof (finish_new_fields mdl r more s1 f0) as F. cbn zeta in F.
  destruct F as (fin & F). tauto.
Qed.

Lemma step_late s o : late s = true -> late (fst (step s o)) = true.
Proof.
  intros H. unfold step. destruct (panicked s); [exact H|].
  destruct o; cbn [fst].
  - unfold do_write. destruct (writing s); [exact H|]. destruct (resetErr s) as [[c r]|].
    + nc_core. cbn [fst]. now rewrite Lnc.
    + destruct (shutdown s); [exact H|]. destruct (finishedWriting s); [exact H|]. destruct (isNil p); [exact H|].
      rewrite write_iter_late. exact H.
  - unfold do_resume. destruct (_ && _); [|exact H]. rewrite write_iter_late. exact H.
  - unfold do_close. destruct (_ || _); [exact H|]. nc_core. destruct (isSome (resetErr s)); cbn [fst]; rewrite Lnc; exact H.
  - unfold do_pop. destruct (shutdown s); [exact H|]. destruct (_ && _); [exact H|].
    destruct (retransQ s) as [|f q].
    + destruct (_ && _). { destruct (_ && _); [|exact H]. unfold emit. ssimp. exact H. }
      destruct (_ =? 0); [exact H|].
      match goal with |- context [popNewStreamFrame ?a ?b ?c] => pose proof (popNew_late a b c) as P; destruct (popNewStreamFrame a b c) as [[s1 fo] more] end.
      cbn [fst] in P. destruct fo; cbn [fst]; [rewrite finish_new_late|]; congruence.
    + destruct (maybe_split _ _ _) as [[[new rest]|]|]; unfold emit; ssimp; exact H.
  - unfold do_acked. destruct (nth_error _ _); [|exact H]. destruct (_ && _); [exact H|]. rewrite dec_late. exact H.
  - unfold do_lost. destruct (nth_error _ _); [|exact H]. destruct (_ && _); [exact H|].
    destruct (_ <? 0); [exact H|]. destruct (_ && _).
    + nc_core. cbn [fst]. now rewrite Lnc.
    + exact H.
  - unfold do_cancel. destruct (shutdown s); [exact H|]. destruct (isSome _).
    + nc_core. cbn [fst]. now rewrite Lnc.
    + cbn [fst]. destruct (_ =? 0); destruct (0 <? _); ssimp; exact H.
  - unfold do_stop. destruct (shutdown s); [exact H|]. destruct (_ && _); [exact H|]. cbn [fst]. ssimp.
    destruct (resetErr s); ssimp; exact H.
  - unfold do_ctrl. destruct (queuedReset s); exact H.
  - unfold do_racked. destruct (nth_error _ _); [|exact H]. destruct (negb _); [exact H|]. rewrite dec_late. exact H.
  - unfold do_rlost. destruct (nth_error _ _); [|exact H]. destruct (negb _); exact H.
  - unfold do_win. destruct (_ >? _); exact H.
  - unfold do_cwin. destruct (_ >? _); exact H.
  - unfold do_rel. destruct (isSome (resetErr s)); exact H.
  - unfold do_enable. ssimp. rewrite H. reflexivity.
  - unfold do_shutdown. destruct (_ && _); exact H.
Qed.

Lemma step_late_false s o : late (fst (step s o)) = false -> late s = false.
Proof. intros H. destruct (late s) eqn:E; auto. rewrite (step_late s o E) in H. discriminate. Qed.

Lemma step_Inv s o : Inv s -> late (fst (step s o)) = false -> Inv (fst (step s o)).
Proof.
  intros HI HL. unfold step in *. destruct (panicked s); [exact HI|].
  destruct o; auto using do_write_Inv, do_resume_Inv, do_close_Inv, do_pop_Inv, do_acked_Inv, do_lost_Inv,
    do_cancel_Inv, do_stop_Inv, do_ctrl_Inv, do_racked_Inv, do_rlost_Inv, do_win_Inv, do_cwin_Inv,
    do_rel_Inv, do_enable_Inv, do_shutdown_Inv.
Qed.

Lemma run_state_snoc s ops o : run_state s (ops ++ [o]) = fst (step (run_state s ops) o).
Proof. unfold run_state. rewrite fold_left_app. reflexivity. Qed.

Lemma run_late_false s ops : late (run_state s ops) = false -> late s = false.
Proof.
  revert s. induction ops as [|o ops IH]; intros s H; [exact H|].
  unfold run_state in *. cbn [fold_left] in H. apply IH in H. now apply step_late_false in H.
Qed.

Theorem run_Inv s ops : Inv s -> late (run_state s ops) = false -> Inv (run_state s ops).
Proof.
  revert s. induction ops as [|o ops IH]; intros s HI HL; [exact HI|].
  unfold run_state in *. cbn [fold_left] in *. apply IH; auto.
  apply step_Inv; auto. eapply run_late_false. exact HL.
Qed.
