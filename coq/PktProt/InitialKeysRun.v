(** Correspondence glue for the `initialkeys` harness unit. *)
From Coq Require Import List ZArith Bool String.
From V Require Import Lib.Corr Lib.Hex Gen.Params PktProt.Sha256 PktProt.InitialKeys.
Import ListNotations.
Open Scope Z_scope.

Inductive case :=
| IKCase (v2 client : bool) (dcid key iv hp : string).

Definition model_obs (c : case) : list Z * list Z * list Z :=
  match c with IKCase v2 client dcid _ _ _ => initial_keys v2 client (hx dcid) end.

Definition check_case (c : case) : bool :=
  match c, model_obs c with
  | IKCase _ _ _ key iv hp, (k, i, h) => zeqb_list k (hx key) && zeqb_list i (hx iv) && zeqb_list h (hx hp)
  end.
