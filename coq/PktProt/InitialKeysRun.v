(** Correspondence glue for the `initialkeys` harness unit. *)
From Coq Require Import List ZArith Bool String.
From V Require Import Lib.Corr Lib.Hex Gen.Params PktProt.Sha256 PktProt.InitialKeys PktProt.Protect PktProt.InitialProtect PktProt.Retry.
Import ListNotations.
Open Scope Z_scope.

Inductive case :=
| IKCase (v2 client : bool) (dcid key iv hp : string)
| IPCase (v2 client : bool) (dcid hdr payload : string) (pn pnLen : Z) (packet : string)
    (* an Initial packet protected by the implementation: the model must produce the same
       bytes and, as the peer, open them to the same payload *)
| RetryCase (v2 : bool) (odcid retry tag : string).

Inductive obs :=
| IKObs (k i h : list Z)
| IPObs (packet : list Z) (opened : ures)
| RetryObs (tag : list Z).

Definition model_obs (c : case) : obs :=
  match c with
  | IKCase v2 client dcid _ _ _ => let '(k, i, h) := initial_keys v2 client (hx dcid) in IKObs k i h
  | IPCase v2 client dcid hdr payload pn pnLen _ =>
    let pkt := initial_protect v2 client (hx dcid) (hx hdr) (hx payload) pn (Z.to_nat pnLen) in
    IPObs pkt (initial_unprotect v2 client (hx dcid) (List.length (hx hdr) - Z.to_nat pnLen) 0 pkt)
  | RetryCase v2 odcid retry _ => RetryObs (retry_tag v2 (hx odcid) (hx retry))
  end.

Definition check_case (c : case) : bool :=
  match c, model_obs c with
  | IKCase _ _ _ key iv hp, IKObs k i h => zeqb_list k (hx key) && zeqb_list i (hx iv) && zeqb_list h (hx hp)
  | IPCase _ _ _ hdr payload pn pnLen packet, IPObs pkt (UOk f pn' l' _ p) =>
    zeqb_list pkt (hx packet) && (pn' =? pn) && (l' =? pnLen) && zeqb_list p (hx payload) && (f =? nth 0 (hx hdr) 0)
  | RetryCase _ _ _ tag, RetryObs t => zeqb_list t (hx tag)
  | _, _ => false
  end.
