(** The receive side of updatableAEAD over all histories of one endpoint: a genuine packet of
    the peer's key generation g is opened to its plaintext when g is the current phase,
    when g is the next phase (and the peer was allowed to update), and when g is the
    previous phase and the previous keys are still there — the branch Open takes is the one
    holding the right key.  The facts about the peer that a two-endpoint argument would
    supply (its packet numbers grow across its key updates) are explicit hypotheses. *)
From Coq Require Import List ZArith Bool Lia Sorted.
From Coq Require Import ZifyBool.
From V Require Import Gen.Params PktProt.PktNum PktProt.KeyPhase PktProt.KeyPhaseProofs.
Import ListNotations.
Open Scope Z_scope.

Section Window.
  Variables ctext ptext adata : Type.
  Variable aead_seal : key -> Z -> adata -> ptext -> ctext.
  Variable aead_open : key -> Z -> adata -> ctext -> option ptext.

  Notation uop := (uop ctext ptext adata).
  Notation entry := (entry ctext ptext adata).
  Notation step := (ua_step ctext ptext adata aead_seal aead_open).
  Notation run := (ua_run ctext ptext adata aead_seal aead_open).
  Notation trace := (ua_trace ctext ptext adata aead_seal aead_open).
  Notation uopen := (ua_open ctext ptext adata aead_open).

  Definition dropped_now (a : ua) (now : Z) : bool :=
    match prevRcvAEAD a with
    | Some _ => negb (prevRcvAEADExpiry a =? 0) && (now >? prevRcvAEADExpiry a)
    | None => false
    end.

  (** * Step level: which key Open uses *)

  Lemma open_current a now pto3 pn kp ad c p :
    kp = phase_bit a -> aead_open (rdir a, rcvAEAD a) pn ad c = Some p ->
    fst (uopen a now pto3 pn kp ad c) = OpenOK p /\ keyPhase (snd (uopen a now pto3 pn kp ad c)) = keyPhase a.
  Proof.
    intros Hkp Ho. unfold ua_open, ua_open_inner, phase_bit in *.
    set (a1 := match prevRcvAEAD a with
               | Some _ => if negb (prevRcvAEADExpiry a =? 0) && (now >? prevRcvAEADExpiry a) then drop_prev a else a
               | None => a end).
    assert (E1 : keyPhase a1 = keyPhase a /\ rcvAEAD a1 = rcvAEAD a /\ rdir a1 = rdir a).
    { subst a1. destruct (prevRcvAEAD a); [destruct (negb _ && _)|]; cbn; auto. }
    destruct E1 as (Ek & Er & Ed). clearbody a1. rewrite <- Ek, <- Er, <- Ed in *.
    rewrite Hkp, Z.eqb_refl. cbn [negb]. rewrite Ho. cbn.
    destruct (firstRcvdWithCurrentKey a1 =? InvalidPacketNumber); [destruct (keyPhase a1 >? 0)|]; cbn; auto.
  Qed.

  Lemma open_next a now pto3 pn kp ad c p :
    0 <= keyPhase a -> kp <> phase_bit a -> 0 <= pn ->
    (keyPhase a = 0 \/ firstRcvdWithCurrentKey a <> -1) -> firstRcvdWithCurrentKey a <= pn ->
    (keyPhase a = 0 \/ firstSentWithCurrentKey a <> -1) ->
    aead_open (rdir a, nextRcvAEAD a) pn ad c = Some p ->
    fst (uopen a now pto3 pn kp ad c) = OpenOK p /\ keyPhase (snd (uopen a now pto3 pn kp ad c)) = keyPhase a + 1.
  Proof.
    intros Hge Hkp Hpn Hfr Hle Hfs Ho. unfold ua_open, ua_open_inner, phase_bit in *.
    set (a1 := match prevRcvAEAD a with
               | Some _ => if negb (prevRcvAEADExpiry a =? 0) && (now >? prevRcvAEADExpiry a) then drop_prev a else a
               | None => a end).
    assert (E1 : keyPhase a1 = keyPhase a /\ nextRcvAEAD a1 = nextRcvAEAD a /\ rdir a1 = rdir a /\
                 firstRcvdWithCurrentKey a1 = firstRcvdWithCurrentKey a /\ firstSentWithCurrentKey a1 = firstSentWithCurrentKey a).
    { subst a1. destruct (prevRcvAEAD a); [destruct (negb _ && _)|]; cbn; auto. }
    destruct E1 as (Ek & En & Ed & Efr & Efs). clearbody a1. rewrite <- Ek, <- En, <- Ed, <- Efr, <- Efs in *.
    destruct (Z.eqb_spec kp (keyPhase a1 mod 2)) as [E|_]; [congruence|]. cbn [negb].
    rewrite inv_m1.
    assert (Hpath : (keyPhase a1 >? 0) && (firstRcvdWithCurrentKey a1 =? -1) || (pn <? firstRcvdWithCurrentKey a1) = false) by lia.
    rewrite Hpath, Ho.
    assert (Hku : (keyPhase a1 >? 0) && (firstSentWithCurrentKey a1 =? -1) = false) by lia.
    rewrite Hku. cbn. unfold rollKeys. destruct (prevRcvAEAD a1); cbn; auto.
  Qed.

  Lemma open_prev a now pto3 pn kp ad c p k :
    kp <> phase_bit a ->
    ((keyPhase a > 0 /\ firstRcvdWithCurrentKey a = -1) \/ pn < firstRcvdWithCurrentKey a) ->
    prevRcvAEAD a = Some k -> dropped_now a now = false ->
    aead_open (rdir a, k) pn ad c = Some p ->
    fst (uopen a now pto3 pn kp ad c) = OpenOK p /\ keyPhase (snd (uopen a now pto3 pn kp ad c)) = keyPhase a.
  Proof.
    intros Hkp Hpath Hprev Hdrop Ho. unfold ua_open, ua_open_inner, phase_bit, dropped_now in *.
    rewrite Hprev in *. rewrite Hdrop.
    destruct (Z.eqb_spec kp (keyPhase a mod 2)) as [E|_]; [congruence|]. cbn [negb].
    rewrite inv_m1.
    assert (Hp : (keyPhase a >? 0) && (firstRcvdWithCurrentKey a =? -1) || (pn <? firstRcvdWithCurrentKey a) = true) by lia.
    rewrite Hp, Hprev, Ho. cbn. auto.
  Qed.

  Local Ltac fin :=
    try solve [ intros Hk' [p' Hp']; first [ discriminate Hp' | congruence | rewrite inv_m1 in *; lia ] ].

  (** * What Open does to the receive-side fields *)
  Lemma open_fields a now pto3 pn kp ad c res a' :
    uopen a now pto3 pn kp ad c = (res, a') ->
    rdir a' = rdir a /\
    ( (keyPhase a' = keyPhase a /\ rcvAEAD a' = rcvAEAD a /\ nextRcvAEAD a' = nextRcvAEAD a /\
       (prevRcvAEAD a' = prevRcvAEAD a \/ prevRcvAEAD a' = None) /\
       ((firstRcvdWithCurrentKey a' = firstRcvdWithCurrentKey a /\
         (kp = phase_bit a -> (exists p, res = OpenOK p) -> firstRcvdWithCurrentKey a <> -1)) \/
        (firstRcvdWithCurrentKey a' = pn /\ kp = phase_bit a /\ exists p, res = OpenOK p)))
      \/
      (keyPhase a' = keyPhase a + 1 /\ rcvAEAD a' = nextRcvAEAD a /\ nextRcvAEAD a' = nextRcvAEAD a + 1 /\
       prevRcvAEAD a' = Some (rcvAEAD a) /\ firstRcvdWithCurrentKey a' = pn /\ exists p, res = OpenOK p) ).
  Proof.
    unfold ua_open, ua_open_inner, phase_bit.
    set (a1 := match prevRcvAEAD a with
               | Some _ => if negb (prevRcvAEADExpiry a =? 0) && (now >? prevRcvAEADExpiry a) then drop_prev a else a
               | None => a end).
    assert (E1 : keyPhase a1 = keyPhase a /\ rcvAEAD a1 = rcvAEAD a /\ nextRcvAEAD a1 = nextRcvAEAD a /\ rdir a1 = rdir a /\
                 firstRcvdWithCurrentKey a1 = firstRcvdWithCurrentKey a /\
                 (prevRcvAEAD a1 = prevRcvAEAD a \/ prevRcvAEAD a1 = None)).
    { subst a1. destruct (prevRcvAEAD a) eqn:Epa; [destruct (negb _ && _)|]; cbn; repeat split; auto. }
    destruct E1 as (Ek & Er & En & Ed & Efr & Ep). clearbody a1.
    rewrite <- Ek, <- Er, <- En, <- Ed, <- Efr.
    assert (Ep' : forall x, x = prevRcvAEAD a1 \/ x = None -> x = prevRcvAEAD a \/ x = None).
    { intros x [->| ->]; auto. }
    clear Ep. intros H.
    assert (Same : forall a2 r2, (r2, a2) = (res, a') ->
              rdir a2 = rdir a1 -> keyPhase a2 = keyPhase a1 -> rcvAEAD a2 = rcvAEAD a1 -> nextRcvAEAD a2 = nextRcvAEAD a1 ->
              prevRcvAEAD a2 = prevRcvAEAD a1 -> firstRcvdWithCurrentKey a2 = firstRcvdWithCurrentKey a1 ->
              (kp = keyPhase a1 mod 2 -> (exists p, r2 = OpenOK p) -> firstRcvdWithCurrentKey a1 <> -1) ->
              rdir a' = rdir a1 /\
              (keyPhase a' = keyPhase a1 /\ rcvAEAD a' = rcvAEAD a1 /\ nextRcvAEAD a' = nextRcvAEAD a1 /\
               (prevRcvAEAD a' = prevRcvAEAD a \/ prevRcvAEAD a' = None) /\
               ((firstRcvdWithCurrentKey a' = firstRcvdWithCurrentKey a1 /\
                 (kp = keyPhase a1 mod 2 -> (exists p, res = OpenOK p) -> firstRcvdWithCurrentKey a1 <> -1)) \/
                firstRcvdWithCurrentKey a' = pn /\ kp = keyPhase a1 mod 2 /\ (exists p : ptext, res = OpenOK p)) \/
               keyPhase a' = keyPhase a1 + 1 /\ rcvAEAD a' = nextRcvAEAD a1 /\ nextRcvAEAD a' = nextRcvAEAD a1 + 1 /\
               prevRcvAEAD a' = Some (rcvAEAD a1) /\ firstRcvdWithCurrentKey a' = pn /\ (exists p : ptext, res = OpenOK p))).
    { intros a2 r2 E Hd Hk Hr Hn Hp Hf Hq. inversion E; subst. split; [exact Hd|]. left.
      split; [exact Hk|]. split; [exact Hr|]. split; [exact Hn|]. split; [apply Ep'; left; exact Hp|]. left. split; [exact Hf|exact Hq]. }
    destruct (negb (kp =? keyPhase a1 mod 2)) eqn:Ekp.
    - assert (Hne : kp <> keyPhase a1 mod 2) by (apply negb_true_iff, Z.eqb_neq in Ekp; exact Ekp).
      destruct ((keyPhase a1 >? 0) && (firstRcvdWithCurrentKey a1 =? InvalidPacketNumber) || (pn <? firstRcvdWithCurrentKey a1)).
      + destruct (prevRcvAEAD a1) eqn:Eprev.
        * destruct (aead_open (rdir a1, z) pn ad c); cbn in H.
          -- eapply Same; [exact H|..]; cbn; auto; fin.
          -- destruct (invalidPacketCount a1 + 1 >=? invalidPacketLimit a1); (eapply Same; [exact H|..]; cbn; auto; fin).
        * eapply Same; [exact H|..]; cbn; auto; fin.
      + destruct (aead_open (rdir a1, nextRcvAEAD a1) pn ad c).
        * destruct ((keyPhase a1 >? 0) && (firstSentWithCurrentKey a1 =? InvalidPacketNumber)).
          -- eapply Same; [exact H|..]; cbn; auto; fin.
          -- cbn in H. inversion H; subst; clear H. unfold rollKeys, startKeyDropTimer.
             destruct (prevRcvAEAD a1); cbn; (split; [reflexivity|]; right; repeat split; eauto).
        * cbn in H. destruct (invalidPacketCount a1 + 1 >=? invalidPacketLimit a1); (eapply Same; [exact H|..]; cbn; auto; fin).
    - apply negb_false_iff, Z.eqb_eq in Ekp.
      destruct (aead_open (rdir a1, rcvAEAD a1) pn ad c).
      + cbn in H. destruct (firstRcvdWithCurrentKey a1 =? InvalidPacketNumber) eqn:Efr1; cbn in H.
        * destruct (keyPhase a1 >? 0); cbn in H; inversion H; subst; clear H; cbn;
            (split; [reflexivity|]; left; repeat split; auto; right; repeat split; eauto).
        * eapply Same; [exact H|..]; cbn; auto; fin.
      + cbn in H. destruct (invalidPacketCount a1 + 1 >=? invalidPacketLimit a1); (eapply Same; [exact H|..]; cbn; auto; fin).
  Qed.

  (** * Histories *)
  Notation sealed_in := (sealed_in ctext ptext adata).
  Notation Inv := (Inv ctext ptext adata).
  Notation wf_ops := (wf_ops ctext ptext adata).

  (** packet numbers opened in phase g: with the current key of phase g, or by the Open that
      moved the endpoint from g-1 to g *)
  Definition rcvd_in (g : Z) (tr : list entry) (pn : Z) : Prop :=
    (exists now pto3 ad c p, In (g, UOpen now pto3 pn (g mod 2) ad c, EvOpen (OpenOK p), g) tr) \/
    (exists now pto3 kp ad c p, In (g - 1, UOpen now pto3 pn kp ad c, EvOpen (OpenOK p), g) tr).

  Definition open_pns_nonneg (ops : list uop) : Prop :=
    Forall (fun op => match op with UOpen _ _ pn _ _ _ => 0 <= pn | _ => True end) ops.

  Record Inv2 (rd : Z) (tr : list entry) (a : ua) : Prop := {
    k_rdir : rdir a = rd;
    k_rcv : rcvAEAD a = keyPhase a;
    k_next : nextRcvAEAD a = keyPhase a + 1;
    k_prev : forall k, prevRcvAEAD a = Some k -> k = keyPhase a - 1;
    k_prev0 : keyPhase a = 0 -> prevRcvAEAD a = None;
    k_fr : firstRcvdWithCurrentKey a <> -1 -> rcvd_in (keyPhase a) tr (firstRcvdWithCurrentKey a);
    k_fr2 : (exists pn, rcvd_in (keyPhase a) tr pn) -> firstRcvdWithCurrentKey a <> -1
  }.

  Lemma rcvd_in_snoc g tr g1 op ev g2 pn :
    rcvd_in g (tr ++ [(g1, op, ev, g2)]) pn <->
    rcvd_in g tr pn \/
    (exists now pto3 kp ad c p, op = UOpen now pto3 pn kp ad c /\ ev = EvOpen (OpenOK p) /\ g2 = g /\
                                 ((g1 = g /\ kp = g mod 2) \/ g1 = g - 1)).
  Proof.
    unfold rcvd_in. split.
    - intros [(now & pto3 & ad & c & p & H)|(now & pto3 & kp & ad & c & p & H)]; apply in_snoc in H; destruct H as [H|H].
      + left. left. eauto 10.
      + right. injection H as E1 E2 E3 E4. subst g1 op ev g2. exists now, pto3, (g mod 2), ad, c, p. auto 10.
      + left. right. eauto 10.
      + right. injection H as E1 E2 E3 E4. subst g1 op ev g2. exists now, pto3, kp, ad, c, p. auto 10.
    - intros [[(now & pto3 & ad & c & p & H)|(now & pto3 & kp & ad & c & p & H)]|(now & pto3 & kp & ad & c & p & -> & -> & -> & [[-> ->]| ->])].
      + left. exists now, pto3, ad, c, p. apply in_snoc. auto.
      + right. exists now, pto3, kp, ad, c, p. apply in_snoc. auto.
      + left. exists now, pto3, ad, c, p. apply in_snoc. auto.
      + right. exists now, pto3, kp, ad, c, p. apply in_snoc. auto.
  Qed.

  Lemma inv2_0 rd wd lim : Inv2 rd [] (ua_new rd wd lim).
  Proof.
    constructor; cbn; try reflexivity; try rewrite inv_m1; try lia.
    - discriminate.
    - intros [pn [(? & ? & ? & ? & ? & [])|(? & ? & ? & ? & ? & ? & [])]].
  Qed.

  (** steps that do not change the receive-side fields and add no successful Open entry *)
  Lemma inv2_frame rd tr a a' op ev :
    Inv2 rd tr a ->
    rdir a' = rdir a -> keyPhase a' = keyPhase a -> rcvAEAD a' = rcvAEAD a -> nextRcvAEAD a' = nextRcvAEAD a ->
    (prevRcvAEAD a' = prevRcvAEAD a \/ prevRcvAEAD a' = None) ->
    firstRcvdWithCurrentKey a' = firstRcvdWithCurrentKey a ->
    (forall now pto3 pn kp ad c p, ~ (op = UOpen now pto3 pn kp ad c /\ ev = EvOpen (OpenOK p) /\ kp = keyPhase a mod 2)) ->
    Inv2 rd (tr ++ [(keyPhase a, op, ev, keyPhase a')]) a'.
  Proof.
    intros I Ed Ek Er En Ep Ef Hno.
    assert (Hnew : forall pn, rcvd_in (keyPhase a) (tr ++ [(keyPhase a, op, ev, keyPhase a)]) pn <-> rcvd_in (keyPhase a) tr pn).
    { intros pn. rewrite rcvd_in_snoc. split; [|auto].
      intros [H|(now & pto3 & kp & ad & c & p & E1 & E2 & _ & [[_ E3]|E3])]; [exact H| |lia].
      exfalso. eapply Hno. split; [exact E1|]. split; [exact E2|exact E3]. }
    rewrite Ek. constructor; rewrite ?Ed, ?Ek, ?Er, ?En, ?Ef.
    - apply (k_rdir _ _ _ I).
    - apply (k_rcv _ _ _ I).
    - apply (k_next _ _ _ I).
    - intros k H. destruct Ep as [Ep|Ep]; rewrite Ep in H; [apply (k_prev _ _ _ I _ H)|discriminate].
    - intros H. destruct Ep as [Ep|Ep]; rewrite Ep; [apply (k_prev0 _ _ _ I H)|reflexivity].
    - intros H. apply Hnew. apply (k_fr _ _ _ I H).
    - intros [pn H]. apply Hnew in H. apply (k_fr2 _ _ _ I). eauto.
  Qed.

  (** a local key update *)
  Lemma inv2_roll rd ops tr a ev :
    Inv ops tr a -> Inv2 rd tr a ->
    Inv2 rd (tr ++ [(keyPhase a, UKeyPhase, ev, keyPhase (rollKeys a))]) (rollKeys a).
  Proof.
    intros I0 I.
    assert (F : keyPhase (rollKeys a) = keyPhase a + 1 /\ rdir (rollKeys a) = rdir a /\ rcvAEAD (rollKeys a) = nextRcvAEAD a /\
                nextRcvAEAD (rollKeys a) = nextRcvAEAD a + 1 /\ prevRcvAEAD (rollKeys a) = Some (rcvAEAD a) /\
                firstRcvdWithCurrentKey (rollKeys a) = -1).
    { unfold rollKeys. destruct (prevRcvAEAD a); cbn; repeat split; reflexivity. }
    destruct F as (Ek & Ed & Er & En & Ep & Ef). pose proof (i_ge _ _ _ _ _ _ I0) as Hge.
    constructor; rewrite ?Ek, ?Ed, ?Er, ?En, ?Ep, ?Ef.
    - apply (k_rdir _ _ _ I).
    - apply (k_next _ _ _ I).
    - rewrite (k_next _ _ _ I). reflexivity.
    - intros k H. inversion H; subst. rewrite (k_rcv _ _ _ I). lia.
    - lia.
    - congruence.
    - intros [pn H]. exfalso. apply rcvd_in_snoc in H.
      destruct H as [[(now & pto3 & ad & c & p & H)|(now & pto3 & kp & ad & c & p & H)]|(now & pto3 & kp & ad & c & p & E & _)];
        [| |discriminate]; apply (i_bound _ _ _ _ _ _ I0) in H; lia.
  Qed.

  Lemma step_inv2 cfg rd ops tr a op :
    Inv ops tr a -> Inv2 rd tr a ->
    (match op with UOpen _ _ pn _ _ _ => 0 <= pn | _ => True end) ->
    Inv2 rd (tr ++ [(keyPhase a, op, fst (step cfg a op), keyPhase (snd (step cfg a op)))]) (snd (step cfg a op)).
  Proof.
    intros I0 I Hnn. pose proof (i_ge _ _ _ _ _ _ I0) as Hge.
    destruct op as [|pn ad p|now pto3 pn kp ad c|pn|]; cbn [ua_step].
    - unfold ua_keyphase. destruct (shouldInitiateKeyUpdate cfg a); cbn [fst snd].
      + eapply inv2_roll; eassumption.
      + apply inv2_frame; auto. intros ? ? ? ? ? ? ? (E & _). discriminate.
    - unfold ua_seal. cbn [fst snd]. apply inv2_frame; auto. intros ? ? ? ? ? ? ? (E & _). discriminate.
    - destruct (uopen a now pto3 pn kp ad c) as [res a'] eqn:Eo. cbn [fst snd].
      destruct (open_fields _ _ _ _ _ _ _ _ _ Eo) as (Ed & [(Ek & Er & En & Ep & Hf)|(Ek & Er & En & Ep & Ef & (p & ->))]).
      + destruct Hf as [(Ef & Hq)|(Ef & Ekp & (p & ->))].
        * (* first received unchanged *)
          assert (Hnew : forall pn0, rcvd_in (keyPhase a) (tr ++ [(keyPhase a, UOpen now pto3 pn kp ad c, EvOpen res, keyPhase a)]) pn0 ->
                                     rcvd_in (keyPhase a) tr pn0 \/ firstRcvdWithCurrentKey a <> -1).
          { intros pn0 H. apply rcvd_in_snoc in H.
            destruct H as [H|(now0 & pto0 & kp0 & ad0 & c0 & p0 & E1 & E2 & _ & [[_ E3]|E3])]; [left; exact H| |lia].
            right. injection E1 as <- <- <- <- <- <-. injection E2 as ->. apply Hq; [exact E3|eauto]. }
          rewrite Ek. constructor; rewrite ?Ed, ?Ek, ?Er, ?En, ?Ef.
          -- apply (k_rdir _ _ _ I).
          -- apply (k_rcv _ _ _ I).
          -- apply (k_next _ _ _ I).
          -- intros k H. destruct Ep as [Ep|Ep]; rewrite Ep in H; [apply (k_prev _ _ _ I _ H)|discriminate].
          -- intros H. destruct Ep as [Ep|Ep]; rewrite Ep; [apply (k_prev0 _ _ _ I H)|reflexivity].
          -- intros H. apply rcvd_in_snoc. left. apply (k_fr _ _ _ I H).
          -- intros [pn0 H]. destruct (Hnew _ H) as [H'|H']; [apply (k_fr2 _ _ _ I); eauto|exact H'].
        * (* the first packet opened with the current key *)
          rewrite Ek. constructor; rewrite ?Ed, ?Ek, ?Er, ?En, ?Ef.
          -- apply (k_rdir _ _ _ I).
          -- apply (k_rcv _ _ _ I).
          -- apply (k_next _ _ _ I).
          -- intros k H. destruct Ep as [Ep|Ep]; rewrite Ep in H; [apply (k_prev _ _ _ I _ H)|discriminate].
          -- intros H. destruct Ep as [Ep|Ep]; rewrite Ep; [apply (k_prev0 _ _ _ I H)|reflexivity].
          -- intros _. apply rcvd_in_snoc. right. unfold phase_bit in Ekp. exists now, pto3, kp, ad, c, p. auto 10.
          -- intros _. lia.
      + (* the peer's update was accepted *)
        constructor; rewrite ?Ed, ?Ek, ?Er, ?En, ?Ep, ?Ef.
        -- apply (k_rdir _ _ _ I).
        -- apply (k_next _ _ _ I).
        -- rewrite (k_next _ _ _ I). reflexivity.
        -- intros k H. inversion H; subst. rewrite (k_rcv _ _ _ I). lia.
        -- lia.
        -- intros _. apply rcvd_in_snoc. right. exists now, pto3, kp, ad, c, p. repeat split; auto. right. lia.
        -- intros _. lia.
    - unfold ua_set_largest_acked.
      destruct (negb (firstSentWithCurrentKey a =? InvalidPacketNumber) && (pn >=? firstSentWithCurrentKey a) && (numRcvdWithCurrentKey a =? 0));
        cbn [fst snd]; (apply inv2_frame; auto; intros ? ? ? ? ? ? ? (E & _); discriminate).
    - cbn [fst snd]. apply inv2_frame; auto. intros ? ? ? ? ? ? ? (E & _). discriminate.
  Qed.

  Lemma open_pns_prefix ops op : open_pns_nonneg (ops ++ [op]) ->
    open_pns_nonneg ops /\ match op with UOpen _ _ pn _ _ _ => 0 <= pn | _ => True end.
  Proof. unfold open_pns_nonneg. intros H. apply Forall_app in H. destruct H as [H1 H2]. inversion H2; subst. auto. Qed.

  Lemma history_inv2 cfg rd wd lim ops :
    wf_ops ops -> open_pns_nonneg ops ->
    Inv2 rd (trace cfg (ua_new rd wd lim) ops) (run cfg (ua_new rd wd lim) ops).
  Proof.
    induction ops as [|op ops IH] using rev_ind; intros Hwf Hnn.
    - apply inv2_0.
    - destruct (open_pns_prefix _ _ Hnn) as [Hnn' Hop].
      pose proof (wf_prefix _ _ _ _ _ Hwf) as Hwf'.
      destruct (history_claims ctext ptext adata aead_seal aead_open cfg rd wd lim ops Hwf') as [I0 _].
      rewrite run_snoc, trace_snoc. apply step_inv2 with (ops := ops); auto.
  Qed.

  (** * The window theorem *)
  Hypothesis open_seal : forall k n ad p, aead_open k n ad (aead_seal k n ad p) = Some p.

  Definition keyphase_window_statement : Prop :=
    forall cfg rd wd lim ops now pto3 pn ad p g,
      wf_ops ops -> open_pns_nonneg ops -> 0 <= pn ->
      let a := run cfg (ua_new rd wd lim) ops in
      let tr := trace cfg (ua_new rd wd lim) ops in
      let r := keyPhase a in
      let res := uopen a now pto3 pn (g mod 2) ad (aead_seal (rd, g) pn ad p) in
      (* a packet of the current generation always opens *)
      (g = r -> fst res = OpenOK p /\ keyPhase (snd res) = r) /\
      (* the peer's next generation: accepted when the peer was allowed to update and its
         packet numbers kept growing *)
      (g = r + 1 ->
       (r = 0 \/ ((exists pn', sealed_in r tr pn') /\ (exists pn', rcvd_in r tr pn'))) ->
       (forall pn', rcvd_in r tr pn' -> pn' <= pn) ->
       fst res = OpenOK p /\ keyPhase (snd res) = r + 1) /\
      (* a reordered packet of the previous generation: opens as long as the previous keys are kept *)
      (g = r - 1 ->
       (forall pn', rcvd_in r tr pn' -> pn < pn') ->
       prevRcvAEAD a <> None -> dropped_now a now = false ->
       fst res = OpenOK p /\ keyPhase (snd res) = r).

  Local Ltac Zify.zify_post_hook ::= Z.div_mod_to_equations.

  Lemma keyphase_window : keyphase_window_statement.
  Proof.
    intros cfg rd wd lim ops now pto3 pn ad p g Hwf Hnn Hpn a tr r res.
    destruct (history_claims ctext ptext adata aead_seal aead_open cfg rd wd lim ops Hwf) as [I0 _].
    pose proof (history_inv2 cfg rd wd lim ops Hwf Hnn) as I.
    fold a in I0, I. fold tr in I0, I.
    pose proof (i_ge _ _ _ _ _ _ I0) as Hge. fold r in Hge.
    split; [|split].
    - intros ->. subst res. apply open_current; [reflexivity|].
      rewrite (k_rdir _ _ _ I), (k_rcv _ _ _ I). apply open_seal.
    - intros -> Hallowed Hgrow. subst res. apply open_next; try assumption.
      + unfold phase_bit. fold r. lia.
      + destruct Hallowed as [H0|[_ Hr]]; [left; exact H0|right]. apply (k_fr2 _ _ _ I). exact Hr.
      + destruct (Z.eq_dec (firstRcvdWithCurrentKey a) (-1)) as [E|NE]; [lia|].
        apply Hgrow. apply (k_fr _ _ _ I NE).
      + destruct Hallowed as [H0|[[pn' Hs] _]]; [left; exact H0|right]. apply (i_fs_min _ _ _ _ _ _ I0 _ Hs).
      + rewrite (k_rdir _ _ _ I), (k_next _ _ _ I). apply open_seal.
    - intros -> Hbelow Hprev Hdrop. subst res.
      destruct (prevRcvAEAD a) as [k|] eqn:Ep; [|congruence].
      pose proof (k_prev _ _ _ I _ Ep) as Hk.
      apply open_prev with (k := k); try assumption.
      + unfold phase_bit. fold r. lia.
      + destruct (Z.eq_dec (firstRcvdWithCurrentKey a) (-1)) as [E|NE].
        * left. split; [|exact E]. destruct (Z.eq_dec r 0) as [E0|]; [|lia].
          rewrite (k_prev0 _ _ _ I E0) in Ep. discriminate.
        * right. apply Hbelow. apply (k_fr _ _ _ I NE).
      + rewrite (k_rdir _ _ _ I), Hk. apply open_seal.
  Qed.
End Window.
