(** Byte-level model of packet protection:
      packet_packer.go   encryptPacket            (seal, then header protection)
      packet_unpacker.go unpackShortHeader / unpackLongHeader + unpack*HeaderPacket
                         (remove header protection assuming a 4-byte packet number, parse the
                          first byte, restore the over-decrypted bytes, decode the packet
                          number, open)
      internal/wire      appendPacketNumber / readPacketNumber, the first-byte layout of
                         short_header.go and extended_header.go
      internal/handshake header_protector.go apply (mask & 0x0f / 0x1f, pn bytes xor mask[1..])
    over an abstract AEAD and an abstract header-protection mask function (Section
    variables).  Bytes are [Z] in [0,256).  Executable definitions only. *)
From Coq Require Import List ZArith Bool.
From V Require Import Gen.Params PktProt.PktNum.
Import ListNotations.
Open Scope Z_scope.

Definition slice (l : list Z) (from len : nat) : list Z := firstn len (skipn from l).

(** xor the bytes of [a] with the mask bytes (hdrBytes[i] ^= mask[i+1] is [xor_bytes hdrBytes (skipn 1 mask)]) *)
Fixpoint xor_bytes (a m : list Z) : list Z :=
  match a, m with
  | x :: a', y :: m' => Z.lxor x y :: xor_bytes a' m'
  | _, _ => a
  end.

(** wire.appendPacketNumber: the low pnLen bytes of pn, big endian (uint8/uint16/uint32(pn),
    for 3 bytes the low three of uint32(pn)) *)
Fixpoint pn_bytes (pnLen : nat) (pn : Z) : list Z :=
  match pnLen with
  | O => []
  | S n => pn_bytes n (pn / 256) ++ [pn mod 256]
  end.
(** wire.readPacketNumber: big-endian value of the bytes *)
Definition read_pn (b : list Z) : Z := fold_left (fun acc x => acc * 256 + x) b 0.

(** first byte of a short header (wire.AppendShortHeader): 0x40 | (pnLen-1) | kp<<2 *)
Definition short_first (pnLen : nat) (kp : Z) : Z := 64 + (Z.of_nat pnLen - 1) + 4 * kp.
(** first byte of a long header (ExtendedHeader.Append): 0xc0 | type<<4 | (pnLen-1) *)
Definition long_first (ptype : Z) (pnLen : nat) : Z := 192 + 16 * ptype + (Z.of_nat pnLen - 1).

(** header = first byte, the bytes between it and the packet number (connection ID for
    short headers; version, connection IDs, token, length for long headers), packet number *)
Definition mk_header (first : Z) (mid : list Z) (pnLen : nat) (pn : Z) : list Z :=
  first :: mid ++ pn_bytes pnLen pn.

Definition first_mask (long : bool) : Z := if long then 15 else 31.
Definition reserved_mask (long : bool) : Z := if long then 12 else 24.

Inductive ures :=
| UOk (first pn pnLen kp : Z) (payload : list Z)
| UTooSmall          (* headerParseError: packet too small *)
| UNotShort          (* headerParseError: not a short header packet *)
| UNotQUIC           (* headerParseError: not a QUIC packet *)
| UDecryptFailed     (* the opener's error *)
| UReserved          (* wire.ErrInvalidReservedBits (reported only after a successful open) *)
| UEmpty.            (* PROTOCOL_VIOLATION: empty packet *)

Record open_args := {
  oa_first : Z; oa_pnLen : nat; oa_kp : Z; oa_reserved_bad : bool;
  oa_pn : Z; oa_hdr : list Z; oa_ct : list Z }.

Section Protect.
  (** seal/open take the (full) packet number, the key phase bit of the header (0 for long
      headers) and the associated data; the mask function maps the 16-byte sample to the mask. *)
  Variable aead_seal : Z -> Z -> list Z -> list Z -> list Z.
  Variable aead_open : Z -> Z -> list Z -> list Z -> option (list Z).
  Variable hp_mask : list Z -> list Z.

  (** func (p *packetPacker) encryptPacket(raw, sealer, pn, payloadOffset, pnLen) with
      raw = hdr ++ payload, payloadOffset = len(hdr) *)
  Definition protect (long : bool) (hdr payload : list Z) (pn kp : Z) (pnLen : nat) : list Z :=
    let ct := aead_seal pn kp hdr payload in
    let raw := hdr ++ ct in
    let pnOffset := (length hdr - pnLen)%nat in
    let sample := slice raw (pnOffset + 4) 16 in
    let mask := hp_mask sample in
    let first := Z.lxor (nth 0 raw 0) (Z.land (nth 0 mask 0) (first_mask long)) in
    let pnb := xor_bytes (slice raw pnOffset pnLen) (skipn 1 mask) in
    first :: slice raw 1 (pnOffset - 1) ++ pnb ++ skipn (pnOffset + pnLen) raw.

  (** What the unpacker hands to the opener: unpackShortHeader / unpackLongHeader (header
      protection removed assuming a 4-byte packet number, first byte parsed, over-decrypted
      bytes restored) and the packet number decoded against [largest] (the opener's
      highestRcvdPN).  [hdrLen] is the offset of the packet number (1 + connection ID
      length, resp. Header.ParsedLen()). *)
  Definition unprotect_pre (long : bool) (hdrLen : nat) (largest : Z) (data : list Z) : ures + open_args :=
    if (length data <? hdrLen + 4 + 16)%nat then inl UTooSmall else
    let orig := slice data hdrLen 4 in
    let sample := slice data (hdrLen + 4) 16 in
    let mask := hp_mask sample in
    let first := Z.lxor (nth 0 data 0) (Z.land (nth 0 mask 0) (first_mask long)) in
    let pn4 := xor_bytes orig (skipn 1 mask) in
    if negb long && (Z.land first 128 >? 0) then inl UNotShort else
    if negb long && (Z.land first 64 =? 0) then inl UNotQUIC else
    let pnLen := Z.to_nat (Z.land first 3 + 1) in
    let wire := read_pn (firstn pnLen pn4) in
    inr {| oa_first := first; oa_pnLen := pnLen;
           oa_kp := if long then 0 else if Z.land first 4 >? 0 then 1 else 0;
           oa_reserved_bad := negb (Z.land first (reserved_mask long) =? 0);
           oa_pn := decodePN (Z.of_nat pnLen) largest wire;
           oa_hdr := first :: slice data 1 (hdrLen - 1) ++ firstn pnLen pn4;
           oa_ct := skipn (hdrLen + pnLen) data |}.

  (** unpack*HeaderPacket after the open, and the empty-payload check of Unpack*Header *)
  Definition unprotect_post (a : open_args) (r : option (list Z)) : ures :=
    match r with
    | None => UDecryptFailed
    | Some p =>
      if oa_reserved_bad a then UReserved
      else if (length p =? 0)%nat then UEmpty
      else UOk (oa_first a) (oa_pn a) (Z.of_nat (oa_pnLen a)) (oa_kp a) p
    end.

  Definition unprotect (long : bool) (hdrLen : nat) (largest : Z) (data : list Z) : ures :=
    match unprotect_pre long hdrLen largest data with
    | inl e => e
    | inr a => unprotect_post a (aead_open (oa_pn a) (oa_kp a) (oa_hdr a) (oa_ct a))
    end.
End Protect.
