(** Long-header datagrams end to end: wire.ParsePacket (the unprotected part of the long
    header: version, connection IDs, token, Length, and the split into this packet and the
    coalesced rest) in front of the unpacker, and getLongHeader + ExtendedHeader.Append +
    appendLongHeaderPacket in front of encryptPacket.  The header codec is the model of the
    wire unit (coq/Wire/Headers.v, property C08, imported read-only and tied to the code by
    its own correspondence unit).  Executable definitions only. *)
From Coq Require Import List ZArith Bool.
From V Require Import Gen.Params Lib.Hex Wire.Varint Wire.Headers PktProt.PktNum PktProt.Protect PktProt.ProtectPack.
Import ListNotations.
Open Scope Z_scope.

Section Long.
  Variable aead_seal : Z -> Z -> list Z -> list Z -> list Z.
  Variable aead_open : Z -> Z -> list Z -> list Z -> option (list Z).
  Variable hp_mask : list Z -> list Z.

  (** wire.ParsePacket, then packetUnpacker.UnpackLongHeader on the packet it cut out:
      (header, result, coalesced rest) or ParsePacket's error class *)
  Definition unpack_long_datagram (largest : Z) (data : list Z) : Z + (header * ures * list Z) :=
    match parse_packet data with
    | (0, Some h, pkt, rest) =>
      inr (h, unprotect aead_open hp_mask true (Z.to_nat (hParsedLen h)) largest pkt, rest)
    | (cls, _, _, _) => inl cls
    end.

  (** getLongHeader + appendLongHeaderPacket: Length = pnLen + |payload| + AEAD overhead *)
  Definition long_ext (ty v : Z) (src dst tok : list Z) (pn pnLen plen : Z) : exthdr :=
    mkExt (mkHeader 0 ty v src dst (pnLen + plen + 16) tok 0) 0 pnLen pn 0.

  Definition pack_long_datagram (ty v : Z) (src dst tok : list Z) (pn largestAcked : Z)
             (ack frames : list Z) (extra : nat) : option (list Z) :=
    let pnLen := lenForHeader pn largestAcked in
    let n := Z.to_nat pnLen in
    let payload := packet_payload ack (pad_len n (length ack + length frames) extra) frames in
    match append_ext (long_ext ty v src dst tok pn pnLen (zlen payload)) v with
    | (0, enc) => Some (protect aead_seal hp_mask true enc payload pn 0 n)
    | _ => None
    end.
End Long.
