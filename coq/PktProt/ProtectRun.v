(** Correspondence glue for the `protect` harness unit.  The abstract AEAD and mask function
    are instantiated by the oracle values the harness logged at the sealer/opener interface
    (what Seal returned, the raw header-protection mask for the sample the implementation
    used, what Open returned); the model has to reproduce the packet bytes, the arguments
    the implementation passed to Open, and the result. *)
From Coq Require Import List ZArith Bool String.
From V Require Import Lib.Corr Lib.Hex Gen.Params Wire.Varint Wire.Headers PktProt.PktNum PktProt.Protect PktProt.ProtectPack PktProt.ProtectLong PktProt.ChaCha.
Import ListNotations.
Open Scope Z_scope.

Inductive case :=
| ProtCase (long : bool) (hdr payload : string) (pn kp pnLen : Z)
           (seal_ct : string) (sample mask : string) (packet : string)
| PackCase (long : bool) (tcode kp : Z) (mid : string) (pn largestAcked : Z) (ack frames : string) (extra : Z)
           (seal_ct sample mask : string) (pnLen : Z) (packet : string)
    (* the packer's call site: pn length chosen by sentPacketHandler.PeekPacketNumber, packet built by
       appendShortHeaderPacket / appendLongHeaderPacket (padding, ACK | padding | frames) *)
| LongDgCase (ty v : Z) (src dst tok : string) (pn largestAcked : Z) (ack frames : string) (extra : Z)
             (seal_ct sample mask : string) (packet rest : string)
             (hdrLen pktLen length : Z)
    (* a long-header packet built by getLongHeader + appendLongHeaderPacket, followed by coalesced
       bytes, cut out again by wire.ParsePacket: header fields, offset of the packet number, packet length *)
| ChaChaMaskCase (hpkey sample mask : string)
    (* the raw header-protection mask of the ChaCha20 suite, recomputed by the Gallina ChaCha20 *)
| UnprotCase (long : bool) (hdrLen largest : Z) (data : string)
             (sample mask : string)                                  (* DecryptHeader oracle; "" if not called *)
             (open_call : option (Z * Z * string * string))          (* pn, kp, ad, ciphertext handed to Open *)
             (open_res : option string)                              (* what Open returned *)
             (cls : Z) (res : option (Z * Z * Z * Z * string)).      (* class; first byte, pn, pnLen, kp, payload *)

Definition zeros : list Z := [0; 0; 0; 0; 0].
Definition mask_tab (sample mask : list Z) (s : list Z) : list Z :=
  if zeqb_list s sample then mask else zeros.

Definition cls_of (r : ures) : Z :=
  match r with
  | UOk _ _ _ _ _ => 0 | UTooSmall => 1 | UDecryptFailed => 2 | UReserved => 3 | UEmpty => 4
  | UNotShort => 5 | UNotQUIC => 6
  end.

Inductive obs :=
| ProtObs (packet : list Z)
| PackObs (pnLen : Z) (packet : list Z)
| LongDgObs (packet : option (list Z)) (parsed : Z * option header * list Z * list Z)
| MaskObs (mask : list Z)
| UnprotObs (call : option (Z * Z * list Z * list Z)) (cls : Z) (res : option (Z * Z * Z * Z * list Z)).

Definition model_obs (c : case) : obs :=
  match c with
  | ProtCase long hdr payload pn kp pnLen ct sample mask _ =>
    let seal := fun pn' kp' ad pt =>
      if (pn' =? pn) && (kp' =? kp) && zeqb_list ad (hx hdr) && zeqb_list pt (hx payload) then hx ct else [] in
    ProtObs (protect seal (mask_tab (hx sample) (hx mask)) long (hx hdr) (hx payload) pn kp (Z.to_nat pnLen))
  | PackCase long tcode kp mid pn la ack frames extra ct sample mask _ _ =>
    let n := Z.to_nat (lenForHeader pn la) in
    let hdr := mk_header (pack_first long tcode kp n) (hx mid) n pn in
    let payload := packet_payload (hx ack) (pad_len n (List.length (hx ack) + List.length (hx frames)) (Z.to_nat extra)) (hx frames) in
    let kp' := if long then 0 else kp in
    let seal := fun pn' k' ad pt =>
      if (pn' =? pn) && (k' =? kp') && zeqb_list ad hdr && zeqb_list pt payload then hx ct else [] in
    PackObs (lenForHeader pn la)
            (pack seal (mask_tab (hx sample) (hx mask)) long tcode kp (hx mid) pn la (hx ack) (hx frames) (Z.to_nat extra))
  | LongDgCase ty v src dst tok pn la ack frames extra ct sample mask packet rest _ _ _ =>
    let seal := fun (_ _ : Z) (_ _ : list Z) => hx ct in
    LongDgObs (pack_long_datagram seal (mask_tab (hx sample) (hx mask)) ty v (hx src) (hx dst) (hx tok) pn la (hx ack) (hx frames) (Z.to_nat extra))
              (parse_packet (hx packet ++ hx rest))
  | ChaChaMaskCase k sample _ => MaskObs (chacha_mask (hx k) (hx sample))
  | UnprotCase long hdrLen largest data sample mask _ open_res _ _ =>
    match unprotect_pre (mask_tab (hx sample) (hx mask)) long (Z.to_nat hdrLen) largest (hx data) with
    | inl e => UnprotObs None (cls_of e) None
    | inr a =>
      let r := unprotect_post a (match open_res with Some p => Some (hx p) | None => None end) in
      UnprotObs (Some (oa_pn a, oa_kp a, oa_hdr a, oa_ct a)) (cls_of r)
                (match r with UOk f pn l kp p => Some (f, pn, l, kp, p) | _ => None end)
    end
  end.

Definition check_case (c : case) : bool :=
  match c, model_obs c with
  | ProtCase _ _ _ _ _ _ _ _ _ packet, ProtObs p => zeqb_list p (hx packet)
  | PackCase _ _ _ _ _ _ _ _ _ _ _ _ pnLen packet, PackObs l p => (l =? pnLen) && zeqb_list p (hx packet)
  | LongDgCase ty v src dst tok _ _ _ _ _ _ _ _ packet rest hdrLen pktLen len, LongDgObs (Some p) (0, Some h, pkt, r) =>
    zeqb_list p (hx packet) && zeqb_list pkt (hx packet) && zeqb_list r (hx rest) &&
    (hType h =? ty) && (hVersion h =? v) && zeqb_list (hSrc h) (hx src) && zeqb_list (hDst h) (hx dst) &&
    zeqb_list (hToken h) (if ty =? H_PacketTypeInitial then hx tok else []) &&
    (hParsedLen h =? hdrLen) && (zlen pkt =? pktLen) && (hLength h =? len)
  | ChaChaMaskCase _ _ mask, MaskObs m => zeqb_list m (hx mask)
  | UnprotCase _ _ _ _ _ _ call _ cls res, UnprotObs call' cls' res' =>
    (cls =? cls') &&
    match call, call' with
    | None, None => true
    | Some (pn, kp, ad, ct), Some (pn', kp', ad', ct') =>
      (pn =? pn') && (kp =? kp') && zeqb_list (hx ad) ad' && zeqb_list (hx ct) ct'
    | _, _ => false
    end &&
    match res, res' with
    | None, None => true
    | Some (f, pn, l, kp, p), Some (f', pn', l', kp', p') =>
      (f =? f') && (pn =? pn') && (l =? l') && (kp =? kp') && zeqb_list (hx p) p'
    | _, _ => false
    end
  | _, _ => false
  end.
