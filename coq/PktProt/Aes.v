(** AES-128 (FIPS 197: key expansion and block encryption, table-driven S-box) and
    AES-128-GCM (NIST SP 800-38D, 96-bit IV: GHASH + CTR) over byte lists; 128-bit blocks of
    GHASH are [Z].  Written for [vm_compute]; shares no code with /repo.
    Executable definitions only. *)
From Coq Require Import List ZArith Bool.
Import ListNotations.
Open Scope Z_scope.

Definition aes_sbox : list (list Z) :=
  [[99; 124; 119; 123; 242; 107; 111; 197; 48; 1; 103; 43; 254; 215; 171; 118];
   [202; 130; 201; 125; 250; 89; 71; 240; 173; 212; 162; 175; 156; 164; 114; 192];
   [183; 253; 147; 38; 54; 63; 247; 204; 52; 165; 229; 241; 113; 216; 49; 21];
   [4; 199; 35; 195; 24; 150; 5; 154; 7; 18; 128; 226; 235; 39; 178; 117];
   [9; 131; 44; 26; 27; 110; 90; 160; 82; 59; 214; 179; 41; 227; 47; 132];
   [83; 209; 0; 237; 32; 252; 177; 91; 106; 203; 190; 57; 74; 76; 88; 207];
   [208; 239; 170; 251; 67; 77; 51; 133; 69; 249; 2; 127; 80; 60; 159; 168];
   [81; 163; 64; 143; 146; 157; 56; 245; 188; 182; 218; 33; 16; 255; 243; 210];
   [205; 12; 19; 236; 95; 151; 68; 23; 196; 167; 126; 61; 100; 93; 25; 115];
   [96; 129; 79; 220; 34; 42; 144; 136; 70; 238; 184; 20; 222; 94; 11; 219];
   [224; 50; 58; 10; 73; 6; 36; 92; 194; 211; 172; 98; 145; 149; 228; 121];
   [231; 200; 55; 109; 141; 213; 78; 169; 108; 86; 244; 234; 101; 122; 174; 8];
   [186; 120; 37; 46; 28; 166; 180; 198; 232; 221; 116; 31; 75; 189; 139; 138];
   [112; 62; 181; 102; 72; 3; 246; 14; 97; 53; 87; 185; 134; 193; 29; 158];
   [225; 248; 152; 17; 105; 217; 142; 148; 155; 30; 135; 233; 206; 85; 40; 223];
   [140; 161; 137; 13; 191; 230; 66; 104; 65; 153; 45; 15; 176; 84; 187; 22]].

Definition sub_byte (b : Z) : Z := nth (Z.to_nat (Z.land b 15)) (nth (Z.to_nat (Z.shiftr b 4)) aes_sbox []) 0.
Definition xtime (b : Z) : Z := let t := 2 * b in if t >=? 256 then Z.lxor (t - 256) 27 else t.
Definition mul3 (b : Z) : Z := Z.lxor (xtime b) b.

Fixpoint xor_list (a b : list Z) : list Z :=
  match a, b with x :: a', y :: b' => Z.lxor x y :: xor_list a' b' | _, _ => [] end.

Definition shift_rows_idx : list nat := [0; 5; 10; 15; 4; 9; 14; 3; 8; 13; 2; 7; 12; 1; 6; 11]%nat.
Definition shift_rows (st : list Z) : list Z := map (fun i => nth i st 0) shift_rows_idx.

Fixpoint mix_columns (st : list Z) : list Z :=
  match st with
  | a0 :: a1 :: a2 :: a3 :: r =>
    Z.lxor (Z.lxor (xtime a0) (mul3 a1)) (Z.lxor a2 a3) ::
    Z.lxor (Z.lxor a0 (xtime a1)) (Z.lxor (mul3 a2) a3) ::
    Z.lxor (Z.lxor a0 a1) (Z.lxor (xtime a2) (mul3 a3)) ::
    Z.lxor (Z.lxor (mul3 a0) a1) (Z.lxor a2 (xtime a3)) :: mix_columns r
  | _ => []
  end.

(** key expansion: next 16-byte round key from the previous one *)
Definition next_round_key (rk : list Z) (rcon : Z) : list Z :=
  match rk with
  | [a0; a1; a2; a3; b0; b1; b2; b3; c0; c1; c2; c3; d0; d1; d2; d3] =>
    let n0 := xor_list [a0; a1; a2; a3] [Z.lxor (sub_byte d1) rcon; sub_byte d2; sub_byte d3; sub_byte d0] in
    let n1 := xor_list [b0; b1; b2; b3] n0 in
    let n2 := xor_list [c0; c1; c2; c3] n1 in
    let n3 := xor_list [d0; d1; d2; d3] n2 in
    n0 ++ n1 ++ n2 ++ n3
  | _ => []
  end.

Definition aes_rcon : list Z := [1; 2; 4; 8; 16; 32; 64; 128; 27; 54].

Fixpoint expand_from (rk : list Z) (rcons : list Z) : list (list Z) :=
  match rcons with [] => [] | r :: rs => let n := next_round_key rk r in n :: expand_from n rs end.
(** the 11 round keys of a 16-byte key *)
Definition aes_expand (key : list Z) : list (list Z) := key :: expand_from key aes_rcon.

Fixpoint aes_rounds (st : list Z) (rks : list (list Z)) : list Z :=
  match rks with
  | [] => st
  | [last] => xor_list (shift_rows (map sub_byte st)) last
  | rk :: r => aes_rounds (xor_list (mix_columns (shift_rows (map sub_byte st))) rk) r
  end.

Definition aes_encrypt (rks : list (list Z)) (block : list Z) : list Z :=
  match rks with rk0 :: r => aes_rounds (xor_list block rk0) r | [] => [] end.

(** * GCM *)
Definition bytes_to_Z (b : list Z) : Z := fold_left (fun acc x => Z.lor (Z.shiftl acc 8) x) b 0.
Fixpoint Z_to_bytes (n : nat) (v : Z) : list Z :=
  match n with O => [] | S n' => Z_to_bytes n' (Z.shiftr v 8) ++ [Z.land v 255] end.

Definition gcm_R : Z := Z.shiftl 225 120.

(** multiplication in GF(2^128), bit order of SP 800-38D 6.3 *)
Fixpoint gf_mul_loop (n : nat) (i : Z) (x z v : Z) : Z :=
  match n with
  | O => z
  | S n' =>
    let z := if Z.testbit x i then Z.lxor z v else z in
    let v := if Z.odd v then Z.lxor (Z.shiftr v 1) gcm_R else Z.shiftr v 1 in
    gf_mul_loop n' (i - 1) x z v
  end.
Definition gf_mul (x y : Z) : Z := gf_mul_loop 128 127 x 0 y.

Definition pad16 (b : list Z) : list Z := b ++ repeat 0 ((16 - length b mod 16) mod 16).

Fixpoint ghash_loop (fuel : nat) (h y : Z) (data : list Z) : Z :=
  match fuel with
  | O => y
  | S f => match data with [] => y | _ => ghash_loop f h (gf_mul (Z.lxor y (bytes_to_Z (firstn 16 data))) h) (skipn 16 data) end
  end.
Definition ghash (h : Z) (data : list Z) : Z := ghash_loop (S (length data / 16)) h 0 data.

Fixpoint ctr_loop (fuel : nat) (rks : list (list Z)) (iv : list Z) (ctr : Z) (data : list Z) : list Z :=
  match fuel with
  | O => []
  | S f =>
    match data with
    | [] => []
    | _ => xor_list (firstn 16 data) (aes_encrypt rks (iv ++ Z_to_bytes 4 ctr)) ++ ctr_loop f rks iv (ctr + 1) (skipn 16 data)
    end
  end.
Definition gcm_ctr (rks : list (list Z)) (iv data : list Z) : list Z := ctr_loop (S (length data / 16)) rks iv 2 data.

Definition gcm_tag (rks : list (list Z)) (iv ad ct : list Z) : list Z :=
  let h := bytes_to_Z (aes_encrypt rks (repeat 0 16)) in
  let s := ghash h (pad16 ad ++ pad16 ct ++ Z_to_bytes 8 (8 * Z.of_nat (length ad)) ++ Z_to_bytes 8 (8 * Z.of_nat (length ct))) in
  xor_list (Z_to_bytes 16 s) (aes_encrypt rks (iv ++ [0; 0; 0; 1])).

(** AES-128-GCM with a 12-byte nonce: ciphertext || 16-byte tag *)
Definition gcm_seal (rks : list (list Z)) (iv ad pt : list Z) : list Z :=
  let ct := gcm_ctr rks iv pt in ct ++ gcm_tag rks iv ad ct.

Fixpoint bytes_eqb (a b : list Z) : bool :=
  match a, b with
  | [], [] => true
  | x :: a', y :: b' => (x =? y) && bytes_eqb a' b'
  | _, _ => false
  end.

Definition gcm_open (rks : list (list Z)) (iv ad c : list Z) : option (list Z) :=
  if (length c <? 16)%nat then None else
  let n := (length c - 16)%nat in
  let ct := firstn n c in
  if bytes_eqb (gcm_tag rks iv ad ct) (skipn n c) then Some (gcm_ctr rks iv ct) else None.
