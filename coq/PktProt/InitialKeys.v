(** Initial packet protection keys (RFC 9001 5.2, RFC 9369 3.3.1), concretely:
      internal/handshake/initial_aead.go  computeSecrets, computeInitialKeyAndIV, NewInitialAEAD
    over the Gallina SHA-256 / HMAC / HKDF of Sha256.v.  Salts and labels come from the code
    through Gen/Params.v (salts: the package's variables; "client in"/"server in": extracted
    by behaviour; key/iv/hp: as for KeyDerive).  Executable definitions only. *)
From Coq Require Import List ZArith Bool String.
From V Require Import Gen.Params Lib.Hex PktProt.Sha256 PktProt.KeyDerive.
Import ListNotations.
Open Scope Z_scope.

Definition initial_salt (v2 : bool) : list Z := hx (if v2 then PP_quicSaltV2 else PP_quicSaltV1).
Definition initial_label (client : bool) : string := if client then PP_initialLabelClient else PP_initialLabelServer.

(** computeSecrets: one side's Initial secret for the client's first Destination Connection ID *)
Definition initial_secret (v2 client : bool) (dcid : list Z) : list Z :=
  expand_label (hkdf_extract (initial_salt v2) dcid) (initial_label client) 32.

(** key, iv and header-protection key of one side (AES-128-GCM: 16 / 12 / 16 bytes) *)
Definition initial_keys (v2 client : bool) (dcid : list Z) : list Z * list Z * list Z :=
  let s := initial_secret v2 client dcid in
  (aead_key expand_label v2 16 s, aead_iv expand_label v2 s, hp_key expand_label v2 16 s).
