(** A protected long-header packet, followed by anything, is cut out by ParsePacket and opened
    by the unpacker to what the packer put in. *)
From Coq Require Import List ZArith Bool Lia.
From Coq Require Import ZifyBool.
From V Require Import Gen.Params Lib.Hex Wire.Varint Wire.VarintProofs Wire.Headers Wire.HeadersProofs
     PktProt.PktNum PktProt.PktNumProofs PktProt.Protect PktProt.ProtectProofs PktProt.ProtectPack PktProt.ProtectPackProofs PktProt.ProtectLong.
Import ListNotations.
Open Scope Z_scope.

Local Ltac Zify.zify_post_hook ::= Z.div_mod_to_equations.

Definition retb (h : header) (tb : Z) : header :=
  mkHeader tb (hType h) (hVersion h) (hSrc h) (hDst h) (hLength h) (hToken h) (hParsedLen h).

(** parseLongHeader looks at the first byte only through its upper four bits (header form,
    fixed bit, packet type): header protection of the lower four bits does not disturb it. *)
Lemma plh_tb_indep tb tb' b : tb / 16 = tb' / 16 ->
  parse_long_header tb' b = (let '(h, l, e) := parse_long_header tb b in (retb h tb', l, e)).
Proof.
  intros H.
  assert (Hq : quic_bit tb' = quic_bit tb).
  { unfold quic_bit. replace (tb' / 64) with (tb' / 16 / 4) by (rewrite Z.div_div by lia; reflexivity).
    replace (tb / 64) with (tb / 16 / 4) by (rewrite Z.div_div by lia; reflexivity). rewrite H. reflexivity. }
  assert (Ht : forall v, long_type v tb' = long_type v tb).
  { intros v. unfold long_type, type_bits. rewrite H. reflexivity. }
  unfold parse_long_header, plh_rest, plh_length. cbv zeta. rewrite Hq. rewrite !Ht.
  repeat match goal with
         | |- context [if ?c then _ else _] => destruct c
         | |- context [match vparse ?x with _ => _ end] => destruct (vparse x) as [?|[[? ?] ?]]
         end; rewrite ?Ht; reflexivity.
Qed.

(** * packet number bytes: the wire unit's appendPacketNumber and ours agree; and every
    byte string of length 1..4 is the encoding of the number it reads as *)
Lemma append_pn_pn_bytes pn n : (1 <= n <= 4)%nat -> append_pn pn (Z.of_nat n) = Some (pn_bytes n pn).
Proof.
  intros H. assert (n = 1 \/ n = 2 \/ n = 3 \/ n = 4)%nat as [-> | [-> | [-> | ->]]] by lia; reflexivity.
Qed.

Lemma append_pn_of_bytes q n : (1 <= n <= 4)%nat -> length q = n -> Forall is_byte q ->
  append_pn (unbe q 0) (Z.of_nat n) = Some q.
Proof.
  intros H L B. assert (n = 1 \/ n = 2 \/ n = 3 \/ n = 4)%nat as [-> | [-> | [-> | ->]]] by lia;
    repeat (destruct q as [|? q]; [discriminate L|]); destruct q; try discriminate L;
    repeat match goal with B : Forall _ (_ :: _) |- _ => inversion B; clear B; subst end;
    unfold is_byte in *; unfold append_pn; cbn [Z.of_nat Pos.of_succ_nat Pos.succ Z.eqb Pos.eqb];
    rewrite ?be1_eq, ?be2_eq, ?be4_eq; cbn [unbe tl]; do 2 f_equal; repeat f_equal; lia.
Qed.

Lemma lxor_byte a b : is_byte a -> is_byte b -> is_byte (Z.lxor a b).
Proof.
  unfold is_byte. intros Ha Hb. split; [apply Z.lxor_nonneg; lia|].
  destruct (Z.eq_dec (Z.lxor a b) 0) as [->|NZ]; [lia|].
  apply Z.log2_lt_cancel. change (Z.log2 256) with 8.
  assert (Z.log2 (Z.lxor a b) <= Z.max (Z.log2 a) (Z.log2 b)) by (apply Z.log2_lxor; lia).
  assert (Z.log2 a < 8) by (destruct (Z.eq_dec a 0) as [->|]; [cbn; lia|apply Z.log2_lt_pow2; lia]).
  assert (Z.log2 b < 8) by (destruct (Z.eq_dec b 0) as [->|]; [cbn; lia|apply Z.log2_lt_pow2; lia]).
  lia.
Qed.

Lemma xor_bytes_bytes a m : Forall is_byte a -> Forall is_byte m -> Forall is_byte (xor_bytes a m).
Proof.
  intros Ha; revert m; induction Ha as [|x a Hx Ha IH]; intros m Hm; [destruct m; constructor|].
  destruct m as [|y m]; cbn; [constructor; assumption|]. inversion Hm; subst.
  constructor; [apply lxor_byte; assumption|apply IH; assumption].
Qed.

Lemma pn_bytes_bytes n pn : Forall is_byte (pn_bytes n pn).
Proof.
  revert pn; induction n as [|n IH]; intros pn; cbn; [constructor|].
  apply Forall_app. split; [apply IH|]. constructor; [|constructor]. unfold is_byte. lia.
Qed.

(** header protection leaves the upper four bits of a long header's first byte alone *)
Lemma lxor_low4_div16 fb m : 0 <= fb -> Z.lxor fb (Z.land m 15) / 16 = fb / 16.
Proof.
  intros H. change 16 with (2 ^ 4). rewrite <- !Z.shiftr_div_pow2 by lia.
  rewrite Z.shiftr_lxor, Z.shiftr_land. change (Z.shiftr 15 4) with 0. rewrite Z.land_0_r, Z.lxor_0_r. reflexivity.
Qed.

(** * shape of ExtendedHeader.Append's output *)
Definition long_mid (ty v : Z) (src dst tok : list Z) (L : Z) : list Z :=
  be 4 v ++ [zlen dst] ++ dst ++ [zlen src] ++ src ++
  (if ty =? H_PacketTypeInitial then vappend (zlen tok) ++ tok else []) ++ vappend_len L 2.

Lemma gtb_false' a b : a <= b -> (a >? b) = false.
Proof. intros. lia. Qed.

Lemma append_long_shape ty v src dst tok pnv pnLen plen p :
  pn_type ty -> zlen dst <= W_MaxConnIDLen -> zlen src <= W_MaxConnIDLen ->
  0 <= pnLen + plen + 16 <= maxVarInt2 -> append_pn pnv pnLen = Some p ->
  append_ext (long_ext ty v src dst tok pnv pnLen plen) v =
  (0, (192 + 16 * type_code v ty + (pnLen - 1)) :: long_mid ty v src dst tok (pnLen + plen + 16) ++ p).
Proof.
  intros Hty Hd Hs HL Hp. unfold append_ext, long_prefix, long_ext, long_mid.
  cbn [eHdr ePnLen ePn hVersion hType hDst hSrc hLength hToken].
  rewrite (gtb_false' _ _ Hd), (gtb_false' _ _ Hs). cbn [orb].
  rewrite (pn_type_not_retry ty Hty).
  replace ((pnLen + plen + 16 <? 0) || (pnLen + plen + 16 >? maxVarInt2)) with false by lia.
  rewrite Hp. f_equal. cbn [app]. f_equal. repeat (rewrite <- ?app_assoc; cbn [app]). repeat rewrite <- app_assoc. reflexivity.
Qed.

Section Proofs.
  Variable aead_seal : Z -> Z -> list Z -> list Z -> list Z.
  Variable aead_open : Z -> Z -> list Z -> list Z -> option (list Z).
  Variable hp_mask : list Z -> list Z.
  Hypothesis open_seal : forall pn kp ad p, aead_open pn kp ad (aead_seal pn kp ad p) = Some p.
  Hypothesis seal_length : forall pn kp ad p, length (aead_seal pn kp ad p) = (length p + 16)%nat.
  Hypothesis mask_bytes : forall s, Forall is_byte (hp_mask s).

  Definition long_datagram_statement : Prop :=
    forall (ty v : Z) (src dst tok : list Z) (pn la largest : Z) (ack frames : list Z) (extra : nat) (rest : list Z),
      valid_version v -> pn_type ty ->
      zlen dst <= W_MaxConnIDLen -> zlen src <= W_MaxConnIDLen -> zlen tok <= maxVarInt8 ->
      0 <= pn < 2 ^ 62 -> -1 <= la -> la <= largest <= pn + reorder_tolerance (lenForHeader pn la) -> pn - la <= 2 ^ 31 ->
      ack ++ frames <> [] ->
      let pnLen := lenForHeader pn la in
      let payload := packet_payload ack (pad_len (Z.to_nat pnLen) (length ack + length frames) extra) frames in
      pnLen + zlen payload + 16 <= maxVarInt2 ->
      exists pkt h,
        pack_long_datagram aead_seal hp_mask ty v src dst tok pn la ack frames extra = Some pkt /\
        unpack_long_datagram aead_open hp_mask largest (pkt ++ rest) =
          inr (h, UOk (192 + 16 * type_code v ty + (pnLen - 1)) pn pnLen 0 payload, rest) /\
        hType h = ty /\ hVersion h = v /\ hSrc h = src /\ hDst h = dst /\
        hToken h = (if ty =? H_PacketTypeInitial then tok else []) /\
        hLength h = pnLen + zlen payload + 16.

  Lemma retb_set_parsed_len h tb n : set_parsed_len (retb h tb) n = retb (set_parsed_len h n) tb.
  Proof. reflexivity. Qed.

  Lemma long_datagram : long_datagram_statement.
  Proof.
    intros ty v src dst tok pn la largest ack frames extra rest Hv Hty Hd Hs Htok Hpn Hla Hlg Hout Hne pnLen payload HL.
    pose proof (lenForHeader_ge2 pn la) as Hl. fold pnLen in Hl.
    set (n := Z.to_nat pnLen) in *.
    assert (En : pnLen = Z.of_nat n) by (subst n; lia). assert (Hn : (1 <= n <= 4)%nat) by lia.
    set (L := pnLen + zlen payload + 16) in *.
    assert (HL0 : 0 <= L <= maxVarInt2) by (subst L; pose proof (zlen_nonneg payload); lia).
    set (tc := type_code v ty). pose proof (type_code_range v ty) as Htc. fold tc in Htc.
    set (fb := 192 + 16 * tc + (pnLen - 1)).
    set (mid := long_mid ty v src dst tok L).
    assert (Eenc : append_ext (long_ext ty v src dst tok pn pnLen (zlen payload)) v = (0, mk_header fb mid n pn)).
    { unfold mk_header. apply (append_long_shape ty v src dst tok pn pnLen (zlen payload) (pn_bytes n pn)); try assumption.
      rewrite En. apply append_pn_pn_bytes. exact Hn. }
    set (pkt := protect aead_seal hp_mask true (mk_header fb mid n pn) payload pn 0 n).
    assert (Epack : pack_long_datagram aead_seal hp_mask ty v src dst tok pn la ack frames extra = Some pkt).
    { unfold pack_long_datagram. cbv zeta. fold pnLen. fold n. fold payload. rewrite Eenc. reflexivity. }
    (* what the unpacker does with the packet itself *)
    pose proof (pack_unpack aead_seal aead_open hp_mask open_seal seal_length true tc 0 mid pn la largest ack frames extra Htc Hpn Hla Hlg Hout Hne) as (_ & Hpl & Hun).
    cbv zeta in Hun, Hpl. fold pnLen in Hun, Hpl. fold n in Hun, Hpl. fold payload in Hun, Hpl.
    unfold pack in Hun. cbv zeta in Hun. fold pnLen in Hun. fold n in Hun. fold payload in Hun.
    assert (Efb : pack_first true tc 0 n = fb) by (unfold pack_first, long_first; subst fb; rewrite En; reflexivity).
    rewrite Efb in Hun. fold pkt in Hun.
    (* shape of the protected packet *)
    set (pnb := pn_bytes n pn).
    assert (Hpnb : length pnb = n) by apply pn_bytes_length.
    pose proof (protect_shape aead_seal aead_open hp_mask true fb mid pnb payload pn 0) as Hshape. cbv zeta in Hshape.
    rewrite Hpnb in Hshape. change (fb :: mid ++ pnb) with (mk_header fb mid n pn) in Hshape. fold pkt in Hshape.
    set (ct := aead_seal pn 0 (mk_header fb mid n pn) payload) in *.
    set (mask := hp_mask (firstn 16 (skipn 4 (pnb ++ ct)))) in *.
    set (fb' := Z.lxor fb (Z.land (nth 0 mask 0) (first_mask true))) in *.
    set (pnb' := xor_bytes pnb (skipn 1 mask)) in *.
    assert (Hct : zlen ct = zlen payload + 16) by (unfold zlen; subst ct; rewrite seal_length; lia).
    assert (Hpnb' : length pnb' = n) by (subst pnb'; rewrite xor_bytes_length; exact Hpnb).
    assert (Bpnb' : Forall is_byte pnb').
    { subst pnb'. apply xor_bytes_bytes; [apply pn_bytes_bytes|apply Forall_skipn, mask_bytes]. }
    (* the unprotected part parses as the wire unit's theorem says, for the header whose packet number bytes are pnb' *)
    set (e2 := long_ext ty v src dst tok (unbe pnb' 0) pnLen (zlen payload)).
    assert (Hwf : wf_long e2 v).
    { constructor; cbn; try assumption; try reflexivity; try lia. }
    destruct (longhdr_roundtrip e2 v (ct ++ rest) Hwf) as (enc2 & Eapp2 & Eph2 & _).
    assert (Eenc2 : enc2 = fb :: mid ++ pnb').
    { assert (E := append_long_shape ty v src dst tok (unbe pnb' 0) pnLen (zlen payload) pnb' Hty Hd Hs HL0).
      rewrite En in E at 1. rewrite (append_pn_of_bytes pnb' n Hn Hpnb' Bpnb') in E. specialize (E eq_refl).
      fold e2 in E. rewrite E in Eapp2. inversion Eapp2. reflexivity. }
    assert (Hlen2 : zlen enc2 = 1 + zlen mid + pnLen).
    { rewrite Eenc2. unfold zlen. cbn [length]. rewrite app_length, Hpnb'. lia. }
    set (H2 := parsed_header e2 v (zlen enc2)) in *.
    set (R := mid ++ pnb' ++ ct ++ rest).
    assert (ER : enc2 ++ ct ++ rest = fb :: R) by (rewrite Eenc2; subst R; cbn [app]; rewrite <- !app_assoc; reflexivity).
    rewrite ER in Eph2.
    assert (Edata : pkt ++ rest = fb' :: R) by (rewrite Hshape; subst R; cbn [app]; rewrite <- !app_assoc; reflexivity).
    assert (Hfb0 : 0 <= fb) by (subst fb; lia).
    assert (Hdiv : fb' / 16 = fb / 16) by (subst fb'; apply lxor_low4_div16; exact Hfb0).
    assert (Eph' : parse_header (fb' :: R) = Some (retb H2 fb', 0)).
    { cbn [parse_header] in Eph2 |- *. rewrite (plh_tb_indep fb fb' R (eq_sym Hdiv)).
      destruct (parse_long_header fb R) as [[h l] e]. assert (E1 : set_parsed_len h (l + 1) = H2) by congruence. assert (E2 : e = 0) by congruence.
      rewrite retb_set_parsed_len, E1, E2. reflexivity. }
    assert (Hfb'0 : 0 <= fb') by (subst fb'; apply Z.lxor_nonneg; split; intros; [apply Z.land_nonneg; right; unfold first_mask; lia|exact Hfb0]).
    assert (Hlong : is_long fb' = true).
    { unfold is_long. apply Z.leb_le. pose proof (Z.div_mod fb' 16 ltac:(lia)) as Hdm. pose proof (Z.mod_pos_bound fb' 16 ltac:(lia)) as Hmb.
      assert (H12 : 12 <= fb / 16) by (apply Z.div_le_lower_bound; subst fb; lia). rewrite Hdiv in Hdm. clear - Hdm Hmb H12. lia. }
    assert (HP : hParsedLen H2 = 1 + zlen mid) by (subst H2; unfold parsed_header; cbn [hParsedLen]; unfold e2, long_ext; cbn [ePnLen]; rewrite Hlen2; lia).
    assert (HLen : hLength H2 = L) by reflexivity.
    assert (Hzpkt : zlen pkt = 1 + zlen mid + L).
    { rewrite Hshape. unfold zlen in *. cbn [length]. rewrite !app_length, Hpnb'. subst L. lia. }
    exists pkt, (retb H2 fb'). split; [exact Epack|]. split.
    - unfold unpack_long_datagram, parse_packet. rewrite Edata. rewrite Hlong. cbn [negb]. rewrite Eph'.
      change (0 =? E_Unsupported) with false. change (negb (0 =? 0)) with false. cbv iota.
      change (hParsedLen (retb H2 fb')) with (hParsedLen H2). change (hLength (retb H2 fb')) with (hLength H2).
      rewrite HP, HLen. rewrite <- Edata.
      assert (Hz : zlen (pkt ++ rest) = zlen pkt + zlen rest) by (unfold zlen; rewrite app_length; lia).
      destruct (Z.ltb_spec (zlen (pkt ++ rest)) (1 + zlen mid + L)) as [Hc|_]; [pose proof (zlen_nonneg rest); lia|].
      rewrite <- Hzpkt, zfirstn_app_exact, zskipn_app_exact.
      change (hParsedLen (retb H2 fb')) with (hParsedLen H2). rewrite HP.
      replace (Z.to_nat (1 + zlen mid)) with (1 + length mid)%nat by (unfold zlen; lia).
      rewrite Hun. rewrite En. reflexivity.
    - subst H2. unfold parsed_header. cbn. repeat split; reflexivity.
  Qed.
End Proofs.
