(** Non-vacuity witness for the Protect theorems: a (cryptographically useless, but
    hypothesis-satisfying) AEAD instance and a concrete round trip. *)
From Coq Require Import List ZArith Bool Lia.
From V Require Import Lib.Hex PktProt.PktNum PktProt.Protect PktProt.ProtectProofs.
Import ListNotations.
Open Scope Z_scope.

Definition zeros16 : list Z := repeat 0 16.
Definition toy_seal (_ _ : Z) (_ p : list Z) : list Z := zeros16 ++ p.
Definition toy_open (_ _ : Z) (_ c : list Z) : option (list Z) :=
  if zeqb_list (firstn 16 c) zeros16 then Some (skipn 16 c) else None.
Definition toy_mask (s : list Z) : list Z := firstn 5 (map (fun x => (x + 77) mod 256) s).

Lemma toy_open_seal pn kp ad p : toy_open pn kp ad (toy_seal pn kp ad p) = Some p.
Proof. reflexivity. Qed.
Lemma toy_seal_length pn kp ad p : length (toy_seal pn kp ad p) = (length p + 16)%nat.
Proof. unfold toy_seal. rewrite app_length. cbn. lia. Qed.
Lemma toy_integrity pn kp ad c p : toy_open pn kp ad c = Some p -> True /\ c = toy_seal pn kp ad p.
Proof.
  unfold toy_open, toy_seal. destruct (zeqb_list (firstn 16 c) zeros16) eqn:E; [|discriminate].
  intros H; inversion H; subst. split; [exact I|]. apply zeqb_list_eq in E. rewrite <- E. symmetry. apply firstn_skipn.
Qed.

Definition ex_packet : list Z :=
  protect toy_seal toy_mask false (mk_header (short_first 2 1) [1; 2; 3] 2 65537) [9; 8; 7] 65537 1 2.

Lemma protect_example :
  unprotect toy_open toy_mask false 4 65530 ex_packet = UOk (short_first 2 1) 65537 2 1 [9; 8; 7]
  /\ ex_packet <> mk_header (short_first 2 1) [1; 2; 3] 2 65537 ++ toy_seal 65537 1 [] [9; 8; 7].
Proof. split; [vm_compute; reflexivity|vm_compute; discriminate]. Qed.
