(** Header authentication exhibited on concrete ciphers (non-vacuity companion of
    C05_tamper_rejected, whose integrity hypothesis no real cipher satisfies as a theorem):
    the RFC 9001 A.3 server Initial under the Gallina AES-128-GCM and the A.5 short header
    packet under the Gallina ChaCha20-Poly1305 are opened; with one bit flipped in the
    unprotected header part (version / connection ID), in the protected first byte (the key
    phase bit of the short header, a reserved bit of the long header), in the packet number
    bytes, in the ciphertext or in the tag, the unpacker's open fails. *)
From Coq Require Import List ZArith Bool String.
From V Require Import Lib.Hex PktProt.Protect PktProt.InitialKeysProofs PktProt.InitialProtect PktProt.InitialProtectExamples
     PktProt.ChaCha PktProt.ChaChaExamples.
Import ListNotations.
Open Scope Z_scope.

Definition flip_bit (l : list Z) (byte : nat) (bit : Z) : list Z :=
  firstn byte l ++ Z.lxor (nth byte l 0) (2 ^ bit) :: skipn (S byte) l.

Definition a3_open (pkt : list Z) : ures := initial_unprotect false false rfc_dcid 18 0 pkt.
Definition a5_unprotect (pkt : list Z) : ures := unprotect a5_open (chacha_mask a5_hp) false 1 654360563 pkt.
Definition a5_packet : list Z := hx "4cfe4189655e5cd55c41f69080575d7999c25a5bfb".

Lemma tamper_concrete :
  (* AES-128-GCM, long header: bytes 1..4 version, 6.. DCID (length 0 here: byte 5 is its length), 18,19 packet number *)
  a3_open server_initial_version1_packet = UOk 193 1 2 0 server_initial_version1_payload /\
  a3_open (flip_bit server_initial_version1_packet 0 2) = UDecryptFailed /\   (* reserved bit of the protected first byte *)
  a3_open (flip_bit server_initial_version1_packet 0 0) = UDecryptFailed /\   (* packet number length bit *)
  a3_open (flip_bit server_initial_version1_packet 4 0) = UDecryptFailed /\   (* version *)
  a3_open (flip_bit server_initial_version1_packet 8 7) = UDecryptFailed /\   (* source connection ID *)
  a3_open (flip_bit server_initial_version1_packet 18 0) = UDecryptFailed /\  (* packet number *)
  a3_open (flip_bit server_initial_version1_packet 40 3) = UDecryptFailed /\  (* ciphertext *)
  a3_open (flip_bit server_initial_version1_packet 134 0) = UDecryptFailed /\ (* last byte of the tag *)
  (* ChaCha20-Poly1305, short header *)
  a5_unprotect a5_packet = UOk 66 654360564 3 0 (hx "01") /\
  a5_unprotect (flip_bit a5_packet 0 2) = UDecryptFailed /\                    (* key phase bit *)
  a5_unprotect (flip_bit a5_packet 2 0) = UDecryptFailed /\                    (* packet number *)
  a5_unprotect (flip_bit a5_packet 4 5) = UDecryptFailed /\                    (* ciphertext *)
  a5_unprotect (flip_bit a5_packet 20 7) = UDecryptFailed.                     (* tag *)
Proof. vm_compute. repeat split; reflexivity. Qed.
