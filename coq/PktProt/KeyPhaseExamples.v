(** Non-vacuity witnesses for the KeyPhase theorems (concrete histories over the symbolic AEAD). *)
From Coq Require Import List ZArith Bool Lia Sorted.
From V Require Import Gen.Params PktProt.PktNum PktProt.KeyPhase PktProt.KeyPhaseProofs PktProt.KeyPhaseRun.
Import ListNotations.
Open Scope Z_scope.

Lemma update_example_ok :
  wf_ops sct Z Z update_example_ops /\
  map (fun e => snd e) (ua_trace sct Z Z sym_seal sym_open {| keyUpdateInterval := 2; firstKeyUpdateInterval := 1 |} (ua_new 1 0 10) update_example_ops)
  = [0; 0; 1; 1; 1; 1; 1; 1; 2; 2; 2; 3].
Proof.
  split; [|vm_compute; reflexivity].
  split; [|split].
  - cbn. repeat (constructor; [|repeat constructor; lia]). constructor.
  - cbn. repeat constructor; lia.
  - intros pre pn post E. unfold update_example_ops in E.
    repeat (destruct pre as [|? pre]; cbn in E; [try discriminate; inversion E; subst; cbn; auto 10|
                                                 injection E as <- E]).
    destruct pre; discriminate.
Qed.

(** Non-vacuity of the window theorem: the symbolic AEAD opens what it sealed, and after
    [confirm; seal 0; KeyPhase() -> phase 1] the premises of the "previous generation" case
    hold (nothing received in phase 1 yet, previous keys present, no drop timer running);
    at phase 0 the premises of the "next generation" case hold trivially. *)
From V Require Import PktProt.KeyPhaseWindow.

Lemma sym_open_seal k n ad p : sym_open k n ad (sym_seal k n ad p) = Some p.
Proof. unfold sym_open, sym_seal. rewrite !Z.eqb_refl. reflexivity. Qed.

Definition window_example_ops : list (uop sct Z Z) := [UConfirm; USeal 0 0 0; UKeyPhase].
Definition window_example_cfg : kcfg := {| keyUpdateInterval := 2; firstKeyUpdateInterval := 1 |}.

Lemma window_example_ok :
  let a := ua_run sct Z Z sym_seal sym_open window_example_cfg (ua_new 1 0 10) window_example_ops in
  let tr := ua_trace sct Z Z sym_seal sym_open window_example_cfg (ua_new 1 0 10) window_example_ops in
  wf_ops sct Z Z window_example_ops /\ open_pns_nonneg sct Z Z window_example_ops /\
  keyPhase a = 1 /\ (forall pn', rcvd_in sct Z Z 1 tr pn' -> 5 < pn') /\
  prevRcvAEAD a <> None /\ dropped_now a 100 = false.
Proof.
  cbv zeta. split; [|split; [|split; [|split; [|split]]]].
  - split; [|split].
    + cbn. repeat constructor.
    + cbn. repeat constructor; lia.
    + intros pre pn post E. unfold window_example_ops in E.
      repeat (destruct pre as [|? pre]; cbn in E; [try discriminate|injection E as <- E]).
      destruct pre; discriminate.
  - repeat constructor.
  - vm_compute. reflexivity.
  - intros pn' [(now & pto3 & ad & c & p & H)|(now & pto3 & kp & ad & c & p & H)]; vm_compute in H;
      repeat (destruct H as [H|H]; [discriminate H|]); destruct H.
  - vm_compute. discriminate.
  - vm_compute. reflexivity.
Qed.
