(** Non-vacuity witnesses for the KeyPhase theorems (concrete histories over the symbolic AEAD). *)
From Coq Require Import List ZArith Bool Lia Sorted.
From V Require Import Gen.Params PktProt.PktNum PktProt.KeyPhase PktProt.KeyPhaseProofs PktProt.KeyPhaseRun.
Import ListNotations.
Open Scope Z_scope.

Lemma update_example_ok :
  wf_ops sct Z Z update_example_ops /\
  map (fun e => snd e) (ua_trace sct Z Z sym_seal sym_open {| keyUpdateInterval := 2; firstKeyUpdateInterval := 1 |} (ua_new 1 0 10) update_example_ops)
  = [0; 0; 1; 1; 1; 1; 1; 1; 2; 2; 2; 3].
Proof.
  split; [|vm_compute; reflexivity].
  split; [|split].
  - cbn. repeat (constructor; [|repeat constructor; lia]). constructor.
  - cbn. repeat constructor; lia.
  - intros pre pn post E. unfold update_example_ops in E.
    repeat (destruct pre as [|? pre]; cbn in E; [try discriminate; inversion E; subst; cbn; auto 10|
                                                 injection E as <- E]).
    destruct pre; discriminate.
Qed.
