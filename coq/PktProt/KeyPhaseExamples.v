(** Non-vacuity witnesses for the KeyPhase theorems (concrete histories over the symbolic AEAD). *)
From Coq Require Import List ZArith Bool Lia Sorted.
From V Require Import Gen.Params PktProt.PktNum PktProt.KeyPhase PktProt.KeyPhaseProofs PktProt.KeyPhaseRun.
Import ListNotations.
Open Scope Z_scope.

Lemma update_example_ok :
  wf_ops sct Z Z update_example_ops /\
  map (fun e => snd e) (ua_trace sct Z Z sym_seal sym_open {| keyUpdateInterval := 2; firstKeyUpdateInterval := 1 |} (ua_new 1 0 10) update_example_ops)
  = [0; 0; 1; 1; 1; 1; 1; 1; 2; 2; 2; 3].
Proof.
  split; [|vm_compute; reflexivity].
  split; [|split].
  - cbn. repeat (constructor; [|repeat constructor; lia]). constructor.
  - cbn. repeat constructor; lia.
  - intros pre pn post E. unfold update_example_ops in E.
    repeat (destruct pre as [|? pre]; cbn in E; [try discriminate; inversion E; subst; cbn; auto 10|
                                                 injection E as <- E]).
    destruct pre; discriminate.
Qed.

(** Non-vacuity of the window theorem: the symbolic AEAD opens what it sealed, and after
    [confirm; seal 0; KeyPhase() -> phase 1] the premises of the "previous generation" case
    hold (nothing received in phase 1 yet, previous keys present, no drop timer running);
    at phase 0 the premises of the "next generation" case hold trivially. *)
From V Require Import PktProt.KeyPhaseWindow.

Lemma sym_open_seal k n ad p : sym_open k n ad (sym_seal k n ad p) = Some p.
Proof. unfold sym_open, sym_seal. rewrite !Z.eqb_refl. reflexivity. Qed.

Definition window_example_ops : list (uop sct Z Z) := [UConfirm; USeal 0 0 0; UKeyPhase].
Definition window_example_cfg : kcfg := {| keyUpdateInterval := 2; firstKeyUpdateInterval := 1 |}.

Lemma window_example_ok :
  let a := ua_run sct Z Z sym_seal sym_open window_example_cfg (ua_new 1 0 10) window_example_ops in
  let tr := ua_trace sct Z Z sym_seal sym_open window_example_cfg (ua_new 1 0 10) window_example_ops in
  wf_ops sct Z Z window_example_ops /\ open_pns_nonneg sct Z Z window_example_ops /\
  keyPhase a = 1 /\ (forall pn', rcvd_in sct Z Z 1 tr pn' -> 5 < pn') /\
  prevRcvAEAD a <> None /\ dropped_now a 100 = false.
Proof.
  cbv zeta. split; [|split; [|split; [|split; [|split]]]].
  - split; [|split].
    + cbn. repeat constructor.
    + cbn. repeat constructor; lia.
    + intros pre pn post E. unfold window_example_ops in E.
      repeat (destruct pre as [|? pre]; cbn in E; [try discriminate|injection E as <- E]).
      destruct pre; discriminate.
  - repeat constructor.
  - vm_compute. reflexivity.
  - intros pn' [(now & pto3 & ad & c & p & H)|(now & pto3 & kp & ad & c & p & H)]; vm_compute in H;
      repeat (destruct H as [H|H]; [discriminate H|]); destruct H.
  - vm_compute. discriminate.
  - vm_compute. reflexivity.
Qed.

(** Non-vacuity of C05_keyphase_histories: the symbolic AEAD satisfies both hypotheses, and
    there is a reachable state of the composed system in which a packet of the PREVIOUS
    generation is still in flight while the receiver holds the previous keys (so the third
    disjunct of the window condition is inhabited), and one in which a packet of the NEXT
    generation is in flight. *)
From V Require Import PktProt.KeyPhaseSys PktProt.KeyPhaseSysProofs.

Lemma sym_open_wrong_key (k k' : key) n ad p : k <> k' -> sym_open k n ad (sym_seal k' n ad p) = None.
Proof.
  intros Hne. unfold sym_open, sym_seal. destruct k as [d g], k' as [d' g']. cbn.
  destruct (Z.eqb_spec d' d) as [->|]; [|reflexivity]. destruct (Z.eqb_spec g' g) as [->|]; [|reflexivity].
  congruence.
Qed.

Definition sys_example_ops : list (sop Z Z) :=
  [ SConfirm _ _ true; SConfirm _ _ false;
    SSeal _ _ true 0 0 100;        (* #0: true -> false, generation 0 *)
    SSeal _ _ false 0 0 200;       (* #1: false -> true, generation 0, stays in flight *)
    SDeliver _ _ 0 10 50;
    SKeyPhase _ _ true;            (* true initiates 0 -> 1 *)
    SSeal _ _ true 0 0 101 ].      (* #2: generation 1 *)

Definition sys_example : sys Z Z :=
  srun sct Z Z sym_seal sym_open window_example_cfg (sinit Z Z 10 (fun _ => 0)) sys_example_ops.

Lemma sys_example_ok :
  (* packet #1 (generation 0) towards endpoint true, which is in phase 1 and keeps the previous keys *)
  (exists p, nth_error (sent sys_example) 1 = Some p /\ p_from p = false /\
             p_gen p = keyPhase (ep (sd sys_example true)) - 1 /\
             prevRcvAEAD (ep (sd sys_example true)) <> None /\ dropped_now (ep (sd sys_example true)) 20 = false) /\
  (* packet #2 (generation 1) towards endpoint false, which is still in phase 0 *)
  (exists p, nth_error (sent sys_example) 2 = Some p /\ p_from p = true /\
             p_gen p = keyPhase (ep (sd sys_example false)) + 1).
Proof.
  split.
  - eexists. split; [vm_compute; reflexivity|]. vm_compute. repeat split; discriminate.
  - eexists. split; [vm_compute; reflexivity|]. vm_compute. repeat split.
Qed.

(** Non-vacuity of the decode-in-the-system theorem: in the run of [sys_example_ops] with the
    on-the-wire packet numbers, packet #1 (sent with nothing acknowledged: la = -1, 2 bytes) is
    in flight and the premises about the receiver hold. *)
From V Require Import PktProt.KeyPhaseSysPn PktProt.KeyPhaseSysPnProofs PktProt.PktNumProofs.

Definition sys_example2 : sys Z Z * list Z :=
  srun2 sct Z Z sym_seal sym_open window_example_cfg (sinit Z Z 10 (fun _ => 0), []) sys_example_ops.

Lemma sys_example2_ok :
  exists p, nth_error (sent (fst sys_example2)) 1 = Some p /\ nth_error (snd sys_example2) 1 = Some (-1) /\
    p_pn p < 2 ^ 62 /\ p_pn p - (-1) <= 2 ^ 31 /\
    highestRcvdPN (ep (sd (fst sys_example2) (negb (p_from p)))) <= p_pn p + reorder_tolerance (wire_len Z Z p (-1)).
Proof. eexists. split; [vm_compute; reflexivity|]. vm_compute. repeat split; discriminate. Qed.
