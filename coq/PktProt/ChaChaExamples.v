(** RFC 9001 Appendix A.5: the ChaCha20-Poly1305 short header packet, reproduced inside Coq:
    keys by the Gallina HKDF, ChaCha20-Poly1305 AEAD with nonce = IV xor packet number,
    ChaCha20 header-protection mask, the byte-level Protect model. *)
From Coq Require Import List ZArith Bool String.
From V Require Import Lib.Hex PktProt.Sha256 PktProt.Aes PktProt.ChaCha PktProt.Protect PktProt.InitialProtect.
Import ListNotations.
Open Scope Z_scope.

Definition a5_secret : list Z := hx "9ac312a7f877468ebe69422748ad00a15443f18203a07d6060f688f30f21632b".
Definition a5_key : list Z := expand_label a5_secret "quic key" 32.
Definition a5_iv : list Z := expand_label a5_secret "quic iv" 12.
Definition a5_hp : list Z := expand_label a5_secret "quic hp" 32.

Definition a5_seal (pn kp : Z) (ad pt : list Z) : list Z := chachapoly_seal a5_key (quic_nonce a5_iv pn) ad pt.
Definition a5_open (pn kp : Z) (ad c : list Z) : option (list Z) := chachapoly_open a5_key (quic_nonce a5_iv pn) ad c.

Lemma rfc9001_A5 :
  a5_key = hx "c6d98ff3441c3fe1b2182094f69caa2ed4b716b65488960a7a984979fb23e1c8" /\
  a5_iv = hx "e0459b3474bdd0e44a41c144" /\
  a5_hp = hx "25a282b9e82f06f21f488917a4fc8f1b73573685608597d0efcb076b0ab7a7a4" /\
  expand_label a5_secret "quic ku" 32 = hx "1223504755036d556342ee9361d253421a826c9ecdf3c7148684b36b714881f9" /\
  chacha_mask a5_hp (hx "5e5cd55c41f69080575d7999c25a5bfb") = hx "aefefe7d03" /\
  protect a5_seal (chacha_mask a5_hp) false (hx "4200bff4") (hx "01") 654360564 0 3
    = hx "4cfe4189655e5cd55c41f69080575d7999c25a5bfb" /\
  unprotect a5_open (chacha_mask a5_hp) false 1 654360563 (hx "4cfe4189655e5cd55c41f69080575d7999c25a5bfb")
    = UOk 66 654360564 3 0 (hx "01").
Proof. vm_compute. repeat split; reflexivity. Qed.
