(** C05_keyphase_histories: in every reachable state of two conformant endpoints and a
    lossy / duplicating / reordering network, every genuine packet that is delivered while
    the receiver still holds the key of its generation opens to its plaintext. *)
From Coq Require Import List ZArith Bool Lia.
From Coq Require Import ZifyBool.
From V Require Import Gen.Params PktProt.PktNum PktProt.KeyPhase PktProt.KeyPhaseProofs PktProt.KeyPhaseWindow PktProt.KeyPhaseSys.
Import ListNotations.
Open Scope Z_scope.

Local Ltac Zify.zify_post_hook ::= Z.div_mod_to_equations.

(** * Endpoint level *)
Definition keep (a a' : ua) : Prop :=
  rdir a' = rdir a /\ wdir a' = wdir a /\ largestAcked a' = largestAcked a /\ handshakeConfirmed a' = handshakeConfirmed a.

Definition same_keys (a a' : ua) : Prop :=
  keyPhase a' = keyPhase a /\ rcvAEAD a' = rcvAEAD a /\ sendAEAD a' = sendAEAD a /\
  nextRcvAEAD a' = nextRcvAEAD a /\ nextSendAEAD a' = nextSendAEAD a /\
  firstSentWithCurrentKey a' = firstSentWithCurrentKey a /\
  (prevRcvAEAD a' = prevRcvAEAD a \/ prevRcvAEAD a' = None).

Definition rolled (a a' : ua) : Prop :=
  keyPhase a' = keyPhase a + 1 /\ rcvAEAD a' = nextRcvAEAD a /\ sendAEAD a' = nextSendAEAD a /\
  nextRcvAEAD a' = nextRcvAEAD a + 1 /\ nextSendAEAD a' = nextSendAEAD a + 1 /\
  prevRcvAEAD a' = Some (rcvAEAD a) /\ firstSentWithCurrentKey a' = -1 /\ numRcvdWithCurrentKey a' = 0.

Lemma rollKeys_rolled a : rolled a (rollKeys a) /\ keep a (rollKeys a) /\ firstRcvdWithCurrentKey (rollKeys a) = -1.
Proof. unfold rolled, keep, rollKeys. destruct (prevRcvAEAD a); cbn; repeat split; reflexivity. Qed.

Lemma fail_intro (K A B C D : Prop) : K /\ D -> K /\ (A \/ B \/ C \/ D).
Proof. tauto. Qed.

Ltac failcase Hres :=
  apply fail_intro; apply Hres;
  [unfold keep; cbn; auto | unfold same_keys; cbn; auto 10 | reflexivity | reflexivity | intros; discriminate].

Section Endpoint.
  Variables ctext ptext adata : Type.
  Variable aead_seal : key -> Z -> adata -> ptext -> ctext.
  Variable aead_open : key -> Z -> adata -> ctext -> option ptext.
  Hypothesis open_seal : forall k n ad p, aead_open k n ad (aead_seal k n ad p) = Some p.
  Hypothesis open_wrong_key : forall k k' n ad p, k <> k' -> aead_open k n ad (aead_seal k' n ad p) = None.

  Notation uopen := (ua_open ctext ptext adata aead_open).

  (** Everything Open can do with a genuine packet of generation g. *)
  Lemma open_genuine a now pto3 pn d g ad pt res a' :
    rdir a = d -> 0 <= keyPhase a -> rcvAEAD a = keyPhase a -> nextRcvAEAD a = keyPhase a + 1 ->
    (forall k, prevRcvAEAD a = Some k -> k = keyPhase a - 1) ->
    uopen a now pto3 pn (g mod 2) ad (aead_seal (d, g) pn ad pt) = (res, a') ->
    keep a a' /\
    ( (res = OpenOK pt /\ g = keyPhase a /\ same_keys a a' /\
       numRcvdWithCurrentKey a' = numRcvdWithCurrentKey a + 1 /\
       firstRcvdWithCurrentKey a' = (if firstRcvdWithCurrentKey a =? -1 then pn else firstRcvdWithCurrentKey a))
      \/
      (res = OpenOK pt /\ g = keyPhase a + 1 /\ rolled a a' /\ firstRcvdWithCurrentKey a' = pn /\
       (keyPhase a = 0 \/ firstSentWithCurrentKey a <> -1))
      \/
      (res = OpenOK pt /\ g = keyPhase a - 1 /\ same_keys a a' /\ prevRcvAEAD a' = Some g /\
       numRcvdWithCurrentKey a' = numRcvdWithCurrentKey a /\
       firstRcvdWithCurrentKey a' = firstRcvdWithCurrentKey a /\
       (firstRcvdWithCurrentKey a = -1 \/ pn < firstRcvdWithCurrentKey a))
      \/
      ((forall p, res <> OpenOK p) /\ same_keys a a' /\
       numRcvdWithCurrentKey a' = numRcvdWithCurrentKey a /\
       firstRcvdWithCurrentKey a' = firstRcvdWithCurrentKey a) ).
  Proof.
    intros Hd Hge Hrcv Hnext Hprev. unfold ua_open, ua_open_inner, phase_bit.
    set (a1 := match prevRcvAEAD a with
               | Some _ => if negb (prevRcvAEADExpiry a =? 0) && (now >? prevRcvAEADExpiry a) then drop_prev a else a
               | None => a end).
    assert (E1 : keep a a1 /\ same_keys a a1 /\ numRcvdWithCurrentKey a1 = numRcvdWithCurrentKey a /\
                 firstRcvdWithCurrentKey a1 = firstRcvdWithCurrentKey a /\
                 (forall k, prevRcvAEAD a1 = Some k -> k = keyPhase a - 1)).
    { subst a1. unfold keep, same_keys. destruct (prevRcvAEAD a) eqn:Ep; [destruct (negb _ && _)|]; cbn; rewrite ?Ep;
        repeat split; auto; try discriminate; intros k Hk; apply Hprev; congruence. }
    destruct E1 as ((K1 & K2 & K3 & K4) & (S1 & S2 & S3 & S4 & S5 & S6 & S7) & En & Ef & Hprev1). clearbody a1.
    assert (Hres : forall a2 (r2 : ores ptext),
               keep a1 a2 -> same_keys a1 a2 -> numRcvdWithCurrentKey a2 = numRcvdWithCurrentKey a1 ->
               firstRcvdWithCurrentKey a2 = firstRcvdWithCurrentKey a1 -> (forall p, r2 <> OpenOK p) ->
               keep a a2 /\
                 ((forall p, r2 <> OpenOK p) /\ same_keys a a2 /\ numRcvdWithCurrentKey a2 = numRcvdWithCurrentKey a1 /\
                  firstRcvdWithCurrentKey a2 = firstRcvdWithCurrentKey a1)).
    { intros a2 r2 (k1 & k2 & k3 & k4) (s1 & s2 & s3 & s4 & s5 & s6 & s7) n2 f2 Hno.
      split; [unfold keep; repeat split; congruence|].
      split; [exact Hno|]. split; [|split; congruence].
      unfold same_keys. repeat split; try congruence. destruct s7 as [s7|s7]; [destruct S7 as [S7|S7]; [left|right]; congruence|right; exact s7]. }
    rewrite K1, Hd in *. rewrite <- S1 in Hge.
    assert (Hr1 : rcvAEAD a1 = keyPhase a1) by congruence.
    assert (Hn1 : nextRcvAEAD a1 = keyPhase a1 + 1) by congruence.
    assert (Hp1 : forall k, prevRcvAEAD a1 = Some k -> k = keyPhase a1 - 1) by (intros k Hk; rewrite S1; auto).
    rewrite <- S1. rewrite <- Ef, <- En. rewrite <- S6.
    clear Hrcv Hnext Hprev Hprev1.
    intros H.
    assert (Fin : forall X, keep a1 a' /\ X -> keep a a' /\ X).
    { intros X ((k1 & k2 & k3 & k4) & HX). split; [unfold keep; repeat split; congruence|exact HX]. }
    assert (SK : same_keys a1 a' -> same_keys a a').
    { intros (s1 & s2 & s3 & s4 & s5 & s6 & s7). unfold same_keys. repeat split; try congruence.
      destruct s7 as [s7|s7]; [destruct S7 as [S7|S7]; [left|right]; congruence|right; exact s7]. }
    destruct (negb (g mod 2 =? keyPhase a1 mod 2)) eqn:Ekp.
    - apply negb_true_iff, Z.eqb_neq in Ekp.
      destruct ((keyPhase a1 >? 0) && (firstRcvdWithCurrentKey a1 =? InvalidPacketNumber) || (pn <? firstRcvdWithCurrentKey a1)) eqn:Epath.
      + destruct (prevRcvAEAD a1) as [k|] eqn:Eprev.
        * pose proof (Hp1 k eq_refl) as Hk.
          destruct (Z.eq_dec g k) as [Egk|Ngk].
          -- rewrite <- Egk in H, Hk, Eprev. rewrite open_seal in H. cbn in H. injection H as Eres Ea'; subst res a'. apply Fin. split; [unfold keep; cbn; auto|].
             right. right. left. split; [reflexivity|]. split; [exact Hk|]. split; [apply SK; unfold same_keys; cbn; auto 10|].
             cbn. rewrite Eprev. split; [reflexivity|]. split; [reflexivity|]. split; [reflexivity|].
             rewrite inv_m1 in Epath. lia.
          -- rewrite open_wrong_key in H by congruence. cbn in H.
             destruct (invalidPacketCount a1 + 1 >=? invalidPacketLimit a1); injection H as Eres Ea'; subst res a'; failcase Hres.
        * injection H as Eres Ea'; subst res a'. failcase Hres.
      + destruct (Z.eq_dec g (keyPhase a1 + 1)) as [Eg|Ng].
        * rewrite Hn1, <- Eg, open_seal in H.
          destruct ((keyPhase a1 >? 0) && (firstSentWithCurrentKey a1 =? InvalidPacketNumber)) eqn:Eku.
          -- injection H as Eres Ea'; subst res a'. failcase Hres.
          -- cbv beta iota zeta in H. injection H as Eres Ea'; subst res a'. apply Fin.
             destruct (rollKeys_rolled a1) as ((r1 & r2 & r3 & r4 & r5 & r6 & r7 & r8) & (k1 & k2 & k3 & k4) & _).
             split; [unfold keep; cbn -[rollKeys]; auto|]. right. left. split; [reflexivity|]. split; [exact Eg|].
             split; [|split; [reflexivity|rewrite inv_m1 in Eku; lia]].
             unfold rolled; cbn -[rollKeys]. rewrite <- ?S1, <- ?S2, <- ?S3, <- ?S4, <- ?S5. repeat split; assumption.
        * rewrite Hn1, open_wrong_key in H by congruence. cbn in H.
          destruct (invalidPacketCount a1 + 1 >=? invalidPacketLimit a1); injection H as Eres Ea'; subst res a'; failcase Hres.
    - apply negb_false_iff, Z.eqb_eq in Ekp.
      destruct (Z.eq_dec g (keyPhase a1)) as [Eg|Ng].
      + rewrite Hr1, <- Eg, open_seal in H. cbn in H. rewrite inv_m1 in H.
        destruct (firstRcvdWithCurrentKey a1 =? -1) eqn:Efr; cbn in H.
        * destruct (keyPhase a1 >? 0); cbn in H; injection H as Eres Ea'; subst res a'; apply Fin;
            (split; [unfold keep; cbn; auto|]); left; (split; [reflexivity|]); (split; [exact Eg|]);
            (split; [apply SK; unfold same_keys; cbn; auto 10|]); rewrite ?Efr; cbn; split; reflexivity.
        * injection H as Eres Ea'; subst res a'. apply Fin. split; [unfold keep; cbn; auto|]. left.
          split; [reflexivity|]. split; [exact Eg|]. split; [apply SK; unfold same_keys; cbn; auto 10|]. rewrite ?Efr. cbn. split; reflexivity.
      + rewrite Hr1, open_wrong_key in H by congruence. cbn in H.
        destruct (invalidPacketCount a1 + 1 >=? invalidPacketLimit a1); injection H as Eres Ea'; subst res a'; failcase Hres.
  Qed.
End Endpoint.

(** * View level: the part of the composed state the argument is about *)
Section View.
  Variables ptext adata : Type.
  Notation pkt := (pkt ptext adata).

  Record view := {
    w_ph : bool -> Z;            (* key phase *)
    w_fs : bool -> Z;            (* firstSentWithCurrentKey *)
    w_fr : bool -> Z;            (* firstRcvdWithCurrentKey *)
    w_la : bool -> Z;            (* largestAcked *)
    w_nxt : bool -> Z;
    w_rcv : bool -> Z;
    w_op : bool -> list (Z * Z);
    w_sent : list pkt
  }.

  Record InvV (w : view) : Prop := {
    v_ph0 : forall x, 0 <= w_ph w x;
    v_nxt : forall x, 0 <= w_nxt w x;
    v_rcv_ge : forall x, -1 <= w_rcv w x;
    v_close : forall x, w_ph w x <= w_ph w (negb x) + 1;
    v_pk : forall p, In p (w_sent w) ->
             0 <= p_gen p <= w_ph w (p_from p) /\ 0 <= p_pn p < w_nxt w (p_from p) /\ -1 <= p_ack p;
    v_mono : forall p q, In p (w_sent w) -> In q (w_sent w) -> p_from p = p_from q ->
             p_pn p <= p_pn q -> p_gen p <= p_gen q;
    v_fs_in : forall x, w_fs w x <> -1 ->
             exists p, In p (w_sent w) /\ p_from p = x /\ p_gen p = w_ph w x /\ p_pn p = w_fs w x;
    v_fs_min : forall p, In p (w_sent w) -> p_gen p = w_ph w (p_from p) ->
             w_fs w (p_from p) <> -1 /\ w_fs w (p_from p) <= p_pn p;
    v_op : forall y g pn, In (g, pn) (w_op w y) ->
             g <= w_ph w y /\ exists p, In p (w_sent w) /\ p_from p = negb y /\ p_gen p = g /\ p_pn p = pn;
    v_fr_in : forall y, w_fr w y <> -1 -> In (w_ph w y, w_fr w y) (w_op w y);
    v_fr_ex : forall y pn, In (w_ph w y, pn) (w_op w y) -> w_fr w y <> -1;
    v_rcv : forall y, w_rcv w y = -1 \/ exists g, In (g, w_rcv w y) (w_op w y);
    v_ak1 : forall q, In q (w_sent w) -> 0 <= p_ack q ->
             exists g, g <= p_gen q /\ In (g, p_ack q) (w_op w (p_from q));
    v_ak2 : forall x, w_la w x <> -1 ->
             exists q, In q (w_sent w) /\ p_from q = negb x /\ p_ack q = w_la w x /\ 0 <= p_ack q;
    v_ahead : forall x, w_ph w x = w_ph w (negb x) + 1 -> 0 < w_ph w (negb x) ->
             w_fr w (negb x) <> -1 /\ w_fs w (negb x) <> -1
  }.

  Lemma bool_cases (x z : bool) : x = z \/ x = negb z.
  Proof. destruct x, z; auto. Qed.

  Lemma negb_neq (z : bool) : negb z <> z.
  Proof. destruct z; discriminate. Qed.

  (** ** consequences used at a delivery *)
  Lemma V_gen_bound w p : InvV w -> In p (w_sent w) -> p_gen p <= w_ph w (negb (p_from p)) + 1.
  Proof.
    intros I Hp. destruct (v_pk w I p Hp) as ((_ & Hg) & _).
    pose proof (v_close w I (p_from p)). lia.
  Qed.

  Lemma V_next_ok w p : InvV w -> In p (w_sent w) ->
    let y := negb (p_from p) in
    p_gen p = w_ph w y + 1 ->
    (w_ph w y = 0 \/ (w_fr w y <> -1 /\ w_fs w y <> -1)) /\ w_fr w y <= p_pn p.
  Proof.
    intros I Hp y Hg. destruct (v_pk w I p Hp) as ((_ & Hgb) & (Hpn & _) & _).
    pose proof (v_close w I (p_from p)) as Hc. fold y in Hc.
    pose proof (v_ph0 w I y) as H0.
    assert (Hph : w_ph w (negb y) = w_ph w y + 1).
    { subst y. rewrite negb_involutive. lia. }
    split.
    - destruct (Z.eq_dec (w_ph w y) 0) as [E|NE]; [left; exact E|right].
      assert (Ha := v_ahead w I (negb y)). rewrite negb_involutive in Ha. apply Ha; lia.
    - destruct (Z.eq_dec (w_fr w y) (-1)) as [E|NE]; [lia|].
      apply (v_fr_in w I) in NE. apply (v_op w I) in NE. destruct NE as (_ & q & Hq & Hqf & Hqg & Hqp).
      destruct (Z_lt_le_dec (w_fr w y) (p_pn p)) as [Hlt|Hle]; [lia|].
      assert (Hy : p_from p = negb y) by (subst y; rewrite negb_involutive; reflexivity).
      assert (Hm := v_mono w I p q Hp Hq). rewrite Hqf in Hm. specialize (Hm Hy). rewrite Hqp in Hm. specialize (Hm Hle). lia.
  Qed.

  Lemma V_prev_ok w p : InvV w -> In p (w_sent w) ->
    let y := negb (p_from p) in
    p_gen p = w_ph w y - 1 -> w_fr w y = -1 \/ p_pn p < w_fr w y.
  Proof.
    intros I Hp y Hg.
    destruct (Z.eq_dec (w_fr w y) (-1)) as [E|NE]; [left; exact E|right].
    apply (v_fr_in w I) in NE. apply (v_op w I) in NE. destruct NE as (_ & q & Hq & Hqf & Hqg & Hqp).
    destruct (Z_lt_le_dec (p_pn p) (w_fr w y)) as [Hlt|Hle]; [exact Hlt|].
    assert (Hy : negb y = p_from p) by (subst y; apply negb_involutive).
    assert (Hm := v_mono w I q p Hq Hp). rewrite Hqf in Hm. specialize (Hm Hy). rewrite Hqp in Hm. specialize (Hm Hle). lia.
  Qed.

  (** an ACK carried by a packet of the previous generation is below everything sent in the current phase *)
  Lemma V_prev_ack w p : InvV w -> In p (w_sent w) ->
    let y := negb (p_from p) in
    p_gen p = w_ph w y - 1 -> 0 <= p_ack p -> w_fs w y <> -1 -> p_ack p < w_fs w y.
  Proof.
    intros I Hp y Hg Ha Hfs.
    destruct (v_ak1 w I p Hp Ha) as (g & Hgle & Hin).
    apply (v_op w I) in Hin. destruct Hin as (_ & q & Hq & Hqf & Hqg & Hqp).
    destruct (v_fs_in w I y Hfs) as (q0 & Hq0 & Hq0f & Hq0g & Hq0p).
    destruct (Z_lt_le_dec (p_ack p) (w_fs w y)) as [Hlt|Hle]; [exact Hlt|].
    assert (Hm := v_mono w I q0 q Hq0 Hq). rewrite Hq0f, Hqf in Hm. specialize (Hm eq_refl). rewrite Hq0p, Hqp in Hm. specialize (Hm Hle). lia.
  Qed.
End View.

Arguments w_ph {ptext adata} v x.
Arguments w_fs {ptext adata} v x.
Arguments w_fr {ptext adata} v x.
Arguments w_la {ptext adata} v x.
Arguments w_nxt {ptext adata} v x.
Arguments w_rcv {ptext adata} v x.
Arguments w_op {ptext adata} v x.
Arguments w_sent {ptext adata} v.
Arguments v_ph0 {ptext adata w}.
Arguments v_nxt {ptext adata w}.
Arguments v_rcv_ge {ptext adata w}.
Arguments v_close {ptext adata w}.
Arguments v_pk {ptext adata w}.
Arguments v_mono {ptext adata w}.
Arguments v_fs_in {ptext adata w}.
Arguments v_fs_min {ptext adata w}.
Arguments v_op {ptext adata w}.
Arguments v_fr_in {ptext adata w}.
Arguments v_fr_ex {ptext adata w}.
Arguments v_rcv {ptext adata w}.
Arguments v_ak1 {ptext adata w}.
Arguments v_ak2 {ptext adata w}.
Arguments v_ahead {ptext adata w}.

Section ViewSteps.
  Variables ptext adata : Type.
  Notation pkt := (pkt ptext adata).
  Notation view := (view ptext adata).
  Notation InvV := (InvV ptext adata).

  Ltac sides x z := destruct (bool_cases x z) as [->| ->]; rewrite ?negb_involutive in *.

  (** pointwise equal views *)
  Lemma V_ext (w w' : view) :
    InvV w ->
    (forall x, w_ph w' x = w_ph w x) -> (forall x, w_fs w' x = w_fs w x) ->
    (forall x, w_fr w' x = w_fr w x) -> (forall x, w_la w' x = w_la w x) ->
    (forall x, w_nxt w' x = w_nxt w x) -> (forall x, w_rcv w' x = w_rcv w x) ->
    (forall x, w_op w' x = w_op w x) -> w_sent w' = w_sent w ->
    InvV w'.
  Proof.
    intros I Eph Efs Efr Ela Enx Erc Eop Esent.
    constructor; intros; rewrite ?Eph, ?Efs, ?Efr, ?Ela, ?Enx, ?Erc, ?Eop, ?Esent in *.
    - apply (v_ph0 I).
    - apply (v_nxt I).
    - apply (v_rcv_ge I).
    - apply (v_close I).
    - apply (v_pk I); assumption.
    - apply (v_mono I p q); assumption.
    - apply (v_fs_in I); assumption.
    - apply (v_fs_min I); assumption.
    - apply (v_op I); assumption.
    - apply (v_fr_in I); assumption.
    - eapply (v_fr_ex I); eassumption.
    - apply (v_rcv I).
    - apply (v_ak1 I); assumption.
    - apply (v_ak2 I); assumption.
    - apply (v_ahead I); assumption.
  Qed.

  (** z initiates a key update *)
  Lemma V_roll_local (w w' : view) z :
    InvV w ->
    w_ph w' z = w_ph w z + 1 -> w_ph w' (negb z) = w_ph w (negb z) ->
    w_fs w' z = -1 -> w_fs w' (negb z) = w_fs w (negb z) ->
    w_fr w' z = -1 -> w_fr w' (negb z) = w_fr w (negb z) ->
    (forall x, w_la w' x = w_la w x) -> (forall x, w_nxt w' x = w_nxt w x) ->
    (forall x, w_rcv w' x = w_rcv w x) -> (forall x, w_op w' x = w_op w x) -> w_sent w' = w_sent w ->
    (w_ph w z = 0 \/ (w_fs w z <> -1 /\ w_la w z <> -1 /\ w_fs w z <= w_la w z)) ->
    InvV w'.
  Proof.
    intros I Ephz Epho Efsz Efso Efrz Efro Ela Enx Erc Eop Esent Hallow.
    (* the peer has reached z's phase, and if it is exactly there it has received and sent in it *)
    assert (Hpeer : w_ph w z <= w_ph w (negb z) /\
                    (w_ph w z = w_ph w (negb z) -> 0 < w_ph w z -> w_fr w (negb z) <> -1 /\ w_fs w (negb z) <> -1)).
    { destruct Hallow as [H0|(Hfs & Hla & Hle)].
      - pose proof (v_ph0 I (negb z)). split; [lia|intros; lia].
      - destruct (v_ak2 I z Hla) as (q & Hq & Hqf & Hqa & Hqa0).
        destruct (v_ak1 I q Hq Hqa0) as (g & Hgq & Hin). rewrite Hqf, Hqa in Hin.
        destruct (v_op I _ _ _ Hin) as (Hgph & p & Hp & Hpf & Hpg & Hpp). rewrite negb_involutive in Hpf.
        destruct (v_fs_in I z Hfs) as (p0 & Hp0 & Hp0f & Hp0g & Hp0p).
        assert (Hm := v_mono I p0 p Hp0 Hp). rewrite Hp0f, Hpf in Hm. specialize (Hm eq_refl). rewrite Hp0p, Hpp in Hm. specialize (Hm Hle).
        destruct (v_pk I q Hq) as ((_ & Hqg) & _). rewrite Hqf in Hqg.
        split; [lia|]. intros Heq Hpos. split.
        + apply (v_fr_ex I (negb z) (w_la w z)). replace (w_ph w (negb z)) with g by lia. exact Hin.
        + assert (Hqgen : p_gen q = w_ph w (p_from q)) by (rewrite Hqf; lia).
          destruct (v_fs_min I q Hq Hqgen) as [Hne _]. rewrite Hqf in Hne. exact Hne. }
    destruct Hpeer as [Hle Hboth].
    constructor.
    - intros x. sides x z; rewrite ?Ephz, ?Epho; pose proof (v_ph0 I z); pose proof (v_ph0 I (negb z)); lia.
    - intros x. rewrite Enx. apply (v_nxt I).
    - intros x. rewrite Erc. apply (v_rcv_ge I).
    - intros x. pose proof (v_close I z). pose proof (v_close I (negb z)). rewrite negb_involutive in *.
      sides x z; rewrite ?Ephz, ?Epho; lia.
    - intros p Hp. rewrite Esent in Hp. rewrite Enx. destruct (v_pk I p Hp) as (Hg & Hn & Ha).
      split; [|split; assumption]. destruct (bool_cases (p_from p) z) as [E|E]; rewrite E in *; rewrite ?Ephz, ?Epho; lia.
    - intros p q Hp Hq. rewrite Esent in Hp, Hq. apply (v_mono I p q Hp Hq).
    - intros x Hx. sides x z; [congruence|]. rewrite Efso in Hx. rewrite Epho, Efso, Esent. apply (v_fs_in I _ Hx).
    - intros p Hp Hg. rewrite Esent in Hp. destruct (v_pk I p Hp) as ((_ & Hgb) & _).
      destruct (bool_cases (p_from p) z) as [E|E]; rewrite E in *.
      + rewrite Ephz in Hg. lia.
      + rewrite Epho in Hg. rewrite Efso. rewrite <- E in Hg |- *. apply (v_fs_min I p Hp Hg).
    - intros y g pn Hin. rewrite Eop in Hin. rewrite Esent. destruct (v_op I _ _ _ Hin) as [Hg Hex].
      split; [|exact Hex]. sides y z; rewrite ?Ephz, ?Epho; lia.
    - intros y Hy. sides y z; [congruence|]. rewrite Efro in Hy. rewrite Epho, Efro, Eop. apply (v_fr_in I _ Hy).
    - intros y pn Hin. rewrite Eop in Hin. sides y z.
      + rewrite Ephz in Hin. destruct (v_op I _ _ _ Hin) as [Hg _]. lia.
      + rewrite Epho in Hin. rewrite Efro. eapply (v_fr_ex I); exact Hin.
    - intros y. rewrite Erc, Eop. apply (v_rcv I).
    - intros q Hq Ha. rewrite Esent in Hq. rewrite Eop. apply (v_ak1 I q Hq Ha).
    - intros x Hx. rewrite Ela in Hx. rewrite Ela, Esent. apply (v_ak2 I x Hx).
    - intros x Hx Hpos. sides x z.
      + rewrite Ephz, Epho in Hx. rewrite Epho in Hpos. rewrite Efro, Efso. apply Hboth; lia.
      + rewrite Ephz, Epho in Hx. pose proof (v_close I (negb z)). rewrite negb_involutive in *. lia.
  Qed.

  (** z seals a packet *)
  Lemma V_seal (w w' : view) z skip ad pt :
    InvV w ->
    let p := {| p_from := z; p_gen := w_ph w z; p_pn := w_nxt w z; p_ack := w_rcv w z; p_ad := ad; p_pt := pt |} in
    (forall x, w_ph w' x = w_ph w x) ->
    w_fs w' z = (if w_fs w z =? -1 then w_nxt w z else w_fs w z) -> w_fs w' (negb z) = w_fs w (negb z) ->
    (forall x, w_fr w' x = w_fr w x) -> (forall x, w_la w' x = w_la w x) ->
    w_nxt w' z = w_nxt w z + 1 + Z.of_nat skip -> w_nxt w' (negb z) = w_nxt w (negb z) ->
    (forall x, w_rcv w' x = w_rcv w x) -> (forall x, w_op w' x = w_op w x) ->
    w_sent w' = w_sent w ++ [p] ->
    InvV w'.
  Proof.
    intros I p Eph Efsz Efso Efr Ela Enxz Enxo Erc Eop Esent.
    pose proof (v_nxt I z) as Hnz.
    assert (Hold : forall q, In q (w_sent w) -> p_from q = z -> p_pn q < w_nxt w z).
    { intros q Hq Hf. destruct (v_pk I q Hq) as (_ & (_ & Hn) & _). rewrite Hf in Hn. exact Hn. }
    assert (Hfs' : w_fs w' z <> -1 /\ w_fs w' z <= w_nxt w z /\ (w_fs w z <> -1 -> w_fs w' z = w_fs w z)).
    { rewrite Efsz. destruct (Z.eqb_spec (w_fs w z) (-1)) as [E|NE]; [lia|].
      destruct (v_fs_in I z NE) as (q & Hq & Hqf & _ & Hqp). pose proof (Hold q Hq Hqf). lia. }
    destruct Hfs' as (Hfs1 & Hfs2 & Hfs3).
    assert (Hin' : forall q, In q (w_sent w') <-> In q (w_sent w) \/ q = p).
    { intros q. rewrite Esent, in_app_iff. cbn. intuition. }
    constructor.
    - intros x. rewrite Eph. apply (v_ph0 I).
    - intros x. sides x z; rewrite ?Enxz, ?Enxo; pose proof (v_nxt I (negb z)); lia.
    - intros x. rewrite Erc. apply (v_rcv_ge I).
    - intros x. rewrite !Eph. apply (v_close I).
    - intros q Hq. apply Hin' in Hq. rewrite Eph. destruct Hq as [Hq| ->].
      + destruct (v_pk I q Hq) as (Hg & Hn & Ha). split; [exact Hg|]. split; [|exact Ha].
        destruct (bool_cases (p_from q) z) as [E|E]; rewrite E in *; rewrite ?Enxz, ?Enxo; lia.
      + cbn. rewrite Enxz. pose proof (v_ph0 I z). pose proof (v_rcv_ge I z). lia.
    - intros q1 q2 H1 H2 Hf Hle. apply Hin' in H1. apply Hin' in H2.
      destruct H1 as [H1| ->]; destruct H2 as [H2| ->].
      + apply (v_mono I q1 q2 H1 H2 Hf Hle).
      + cbn in *. destruct (v_pk I q1 H1) as ((_ & Hg) & _). rewrite Hf in Hg. exact Hg.
      + cbn in *. pose proof (Hold q2 H2 (eq_sym Hf)). lia.
      + lia.
    - intros x Hx. rewrite Eph. sides x z.
      + destruct (Z.eq_dec (w_fs w z) (-1)) as [E|NE].
        * exists p. split; [apply Hin'; right; reflexivity|]. cbn. repeat split; try reflexivity.
          rewrite Efsz, E. reflexivity.
        * destruct (v_fs_in I z NE) as (q & Hq & Hq2). exists q. split; [apply Hin'; left; exact Hq|].
          rewrite (Hfs3 NE). exact Hq2.
      + rewrite Efso in Hx |- *. destruct (v_fs_in I _ Hx) as (q & Hq & Hq2). exists q. split; [apply Hin'; left; exact Hq|exact Hq2].
    - intros q Hq Hg. apply Hin' in Hq. rewrite Eph in Hg. destruct Hq as [Hq| ->].
      + destruct (v_fs_min I q Hq Hg) as [Hne Hle].
        destruct (bool_cases (p_from q) z) as [E|E]; rewrite E in *.
        * rewrite (Hfs3 Hne). split; assumption.
        * rewrite Efso. split; assumption.
      + cbn. split; assumption.
    - intros y g pn Hin. rewrite Eop in Hin. rewrite Eph. destruct (v_op I _ _ _ Hin) as (Hg & q & Hq & Hq2).
      split; [exact Hg|]. exists q. split; [apply Hin'; left; exact Hq|exact Hq2].
    - intros y Hy. rewrite Efr in Hy. rewrite Eph, Efr, Eop. apply (v_fr_in I _ Hy).
    - intros y pn Hin. rewrite Eph, Eop in Hin. rewrite Efr. eapply (v_fr_ex I); exact Hin.
    - intros y. rewrite Erc, Eop. apply (v_rcv I).
    - intros q Hq Ha. apply Hin' in Hq. rewrite Eop. destruct Hq as [Hq| ->]; [apply (v_ak1 I q Hq Ha)|].
      cbn in *. destruct (v_rcv I z) as [E|(g & Hg)]; [lia|]. exists g. split; [|exact Hg].
      apply (v_op I) in Hg. tauto.
    - intros x Hx. rewrite Ela in Hx |- *. destruct (v_ak2 I x Hx) as (q & Hq & Hq2). exists q. split; [apply Hin'; left; exact Hq|exact Hq2].
    - intros x Hx Hpos. rewrite !Eph in *. rewrite Efr. destruct (v_ahead I x Hx Hpos) as [H1 H2]. split; [exact H1|].
      sides x z; [rewrite Efso; exact H2 | exact Hfs1].
  Qed.

  (** z processes the ACK carried by a packet q of its peer *)
  Lemma V_ack (w w' : view) z q :
    InvV w -> In q (w_sent w) -> p_from q = negb z -> 0 <= p_ack q ->
    (forall x, w_ph w' x = w_ph w x) -> (forall x, w_fs w' x = w_fs w x) -> (forall x, w_fr w' x = w_fr w x) ->
    w_la w' z = p_ack q -> w_la w' (negb z) = w_la w (negb z) ->
    (forall x, w_nxt w' x = w_nxt w x) -> (forall x, w_rcv w' x = w_rcv w x) ->
    (forall x, w_op w' x = w_op w x) -> w_sent w' = w_sent w ->
    InvV w'.
  Proof.
    intros I Hq Hqf Hqa Eph Efs Efr Elaz Elao Enx Erc Eop Esent.
    constructor; intros; rewrite ?Eph, ?Efs, ?Efr, ?Enx, ?Erc, ?Eop, ?Esent in *.
    - apply (v_ph0 I).
    - apply (v_nxt I).
    - apply (v_rcv_ge I).
    - apply (v_close I).
    - apply (v_pk I); assumption.
    - apply (v_mono I p q0); assumption.
    - apply (v_fs_in I); assumption.
    - apply (v_fs_min I); assumption.
    - apply (v_op I); assumption.
    - apply (v_fr_in I); assumption.
    - eapply (v_fr_ex I); eassumption.
    - apply (v_rcv I).
    - apply (v_ak1 I); assumption.
    - sides x z.
      + exists q. rewrite Elaz. auto.
      + rewrite Elao in *. pose proof (v_ak2 I (negb z) H) as Hk. rewrite negb_involutive in Hk. exact Hk.
    - apply (v_ahead I); assumption.
  Qed.

  (** y opens packet p of its peer with the key of its current phase, or with the previous key *)
  Lemma V_open_same (w w' : view) y p :
    InvV w -> In p (w_sent w) -> p_from p = negb y ->
    (p_gen p = w_ph w y \/ p_gen p = w_ph w y - 1) ->
    (forall x, w_ph w' x = w_ph w x) -> (forall x, w_fs w' x = w_fs w x) ->
    w_fr w' y = (if (p_gen p =? w_ph w y) && (w_fr w y =? -1) then p_pn p else w_fr w y) ->
    w_fr w' (negb y) = w_fr w (negb y) ->
    (forall x, w_la w' x = w_la w x) -> (forall x, w_nxt w' x = w_nxt w x) ->
    w_rcv w' y = Z.max (w_rcv w y) (p_pn p) -> w_rcv w' (negb y) = w_rcv w (negb y) ->
    w_op w' y = (p_gen p, p_pn p) :: w_op w y -> w_op w' (negb y) = w_op w (negb y) ->
    w_sent w' = w_sent w ->
    InvV w'.
  Proof.
    intros I Hp Hpf Hg Eph Efs Efry Efro Ela Enx Ercy Erco Eopy Eopo Esent.
    destruct (v_pk I p Hp) as (_ & (Hpn0 & _) & _).
    assert (Hfr' : (w_fr w y <> -1 -> w_fr w' y = w_fr w y) /\ (p_gen p = w_ph w y -> w_fr w' y <> -1) /\
                   (w_fr w' y <> -1 -> w_fr w y <> -1 \/ (w_fr w' y = p_pn p /\ p_gen p = w_ph w y))).
    { rewrite Efry. destruct (Z.eqb_spec (p_gen p) (w_ph w y)); destruct (Z.eqb_spec (w_fr w y) (-1)); cbn; repeat split; intros; try lia; auto. }
    destruct Hfr' as (Hfr1 & Hfr2 & Hfr3).
    assert (Hop' : forall x g pn, In (g, pn) (w_op w' x) <-> In (g, pn) (w_op w x) \/ (x = y /\ g = p_gen p /\ pn = p_pn p)).
    { intros x g pn. sides x y.
      - rewrite Eopy. cbn. split; [intros [H|H]; [right; inversion H; auto|left; exact H]|intros [H|(_ & -> & ->)]; auto].
      - rewrite Eopo. split; [auto|intros [H|(H & _)]; [exact H|destruct (negb_neq _ H)]]. }
    constructor.
    - intros x. rewrite Eph. apply (v_ph0 I).
    - intros x. rewrite Enx. apply (v_nxt I).
    - intros x. sides x y; rewrite ?Ercy, ?Erco; pose proof (v_rcv_ge I y); pose proof (v_rcv_ge I (negb y)); lia.
    - intros x. rewrite !Eph. apply (v_close I).
    - intros q Hq. rewrite Esent in Hq. rewrite Eph, Enx. apply (v_pk I q Hq).
    - intros q1 q2 H1 H2. rewrite Esent in H1, H2. apply (v_mono I q1 q2 H1 H2).
    - intros x Hx. rewrite Efs in Hx. rewrite Eph, Efs, Esent. apply (v_fs_in I _ Hx).
    - intros q Hq Hgq. rewrite Esent in Hq. rewrite Eph in Hgq. rewrite Efs. apply (v_fs_min I q Hq Hgq).
    - intros x g pn Hin. apply Hop' in Hin. rewrite Eph, Esent. destruct Hin as [Hin|(-> & -> & ->)].
      + apply (v_op I _ _ _ Hin).
      + split; [lia|]. exists p. auto.
    - intros x Hx. rewrite Eph. apply Hop'. sides x y.
      + destruct (Hfr3 Hx) as [Hold|(E1 & E2)].
        * left. rewrite (Hfr1 Hold). apply (v_fr_in I _ Hold).
        * right. rewrite E1. auto.
      + rewrite Efro in Hx |- *. left. apply (v_fr_in I _ Hx).
    - intros x pn Hin. rewrite Eph in Hin. apply Hop' in Hin. sides x y.
      + destruct Hin as [Hin|(_ & E & _)].
        * pose proof (v_fr_ex I _ _ Hin) as Hne. rewrite (Hfr1 Hne). exact Hne.
        * apply Hfr2. lia.
      + rewrite Efro. destruct Hin as [Hin|(E & _)]; [eapply (v_fr_ex I); exact Hin|destruct (negb_neq _ E)].
    - intros x. sides x y.
      + rewrite Ercy. destruct (Z.max_spec (w_rcv w y) (p_pn p)) as [[_ ->]|[_ ->]].
        * right. exists (p_gen p). apply Hop'. right. auto.
        * destruct (v_rcv I y) as [E|(g & Hgo)]; [left; exact E|right; exists g; apply Hop'; left; exact Hgo].
      + rewrite Erco. destruct (v_rcv I (negb y)) as [E|(g & Hgo)]; [left; exact E|right; exists g; apply Hop'; left; exact Hgo].
    - intros q Hq Ha. rewrite Esent in Hq. destruct (v_ak1 I q Hq Ha) as (g & Hgo & Hin). exists g. split; [exact Hgo|]. apply Hop'. left; exact Hin.
    - intros x Hx. rewrite Ela in Hx |- *. rewrite Esent. apply (v_ak2 I x Hx).
    - intros x Hx Hpos. rewrite !Eph in *. rewrite Efs. destruct (v_ahead I x Hx Hpos) as [H1 H2]. split; [|exact H2].
      sides x y; [rewrite Efro; exact H1 | rewrite (Hfr1 H1); exact H1].
  Qed.

  (** y accepts a key update of its peer: opens packet p of generation phase+1 *)
  Lemma V_open_next (w w' : view) y p :
    InvV w -> In p (w_sent w) -> p_from p = negb y -> p_gen p = w_ph w y + 1 ->
    w_ph w' y = w_ph w y + 1 -> w_ph w' (negb y) = w_ph w (negb y) ->
    w_fs w' y = -1 -> w_fs w' (negb y) = w_fs w (negb y) ->
    w_fr w' y = p_pn p -> w_fr w' (negb y) = w_fr w (negb y) ->
    (forall x, w_la w' x = w_la w x) -> (forall x, w_nxt w' x = w_nxt w x) ->
    w_rcv w' y = Z.max (w_rcv w y) (p_pn p) -> w_rcv w' (negb y) = w_rcv w (negb y) ->
    w_op w' y = (p_gen p, p_pn p) :: w_op w y -> w_op w' (negb y) = w_op w (negb y) ->
    w_sent w' = w_sent w ->
    InvV w'.
  Proof.
    intros I Hp Hpf Hg Ephy Epho Efsy Efso Efry Efro Ela Enx Ercy Erco Eopy Eopo Esent.
    destruct (v_pk I p Hp) as ((_ & Hgb) & (Hpn0 & _) & _). rewrite Hpf in Hgb.
    pose proof (v_close I (negb y)) as Hc. rewrite negb_involutive in Hc.
    assert (Hpeer : w_ph w (negb y) = w_ph w y + 1) by lia.
    assert (Hop' : forall x g pn, In (g, pn) (w_op w' x) <-> In (g, pn) (w_op w x) \/ (x = y /\ g = p_gen p /\ pn = p_pn p)).
    { intros x g pn. sides x y.
      - rewrite Eopy. cbn. split; [intros [H|H]; [right; inversion H; auto|left; exact H]|intros [H|(_ & -> & ->)]; auto].
      - rewrite Eopo. split; [auto|intros [H|(H & _)]; [exact H|destruct (negb_neq _ H)]]. }
    constructor.
    - intros x. sides x y; rewrite ?Ephy, ?Epho; pose proof (v_ph0 I y); pose proof (v_ph0 I (negb y)); lia.
    - intros x. rewrite Enx. apply (v_nxt I).
    - intros x. sides x y; rewrite ?Ercy, ?Erco; pose proof (v_rcv_ge I y); pose proof (v_rcv_ge I (negb y)); lia.
    - intros x. sides x y; rewrite ?Ephy, ?Epho; lia.
    - intros q Hq. rewrite Esent in Hq. rewrite Enx. destruct (v_pk I q Hq) as (Hgq & Hn & Ha).
      split; [|split; assumption]. destruct (bool_cases (p_from q) y) as [E|E]; rewrite E in *; rewrite ?Ephy, ?Epho; lia.
    - intros q1 q2 H1 H2. rewrite Esent in H1, H2. apply (v_mono I q1 q2 H1 H2).
    - intros x Hx. sides x y; [congruence|]. rewrite Efso in Hx. rewrite Epho, Efso, Esent. apply (v_fs_in I _ Hx).
    - intros q Hq Hgq. rewrite Esent in Hq. destruct (v_pk I q Hq) as ((_ & Hqb) & _).
      destruct (bool_cases (p_from q) y) as [E|E]; rewrite E in *.
      + rewrite Ephy in Hgq. lia.
      + rewrite Epho in Hgq. rewrite Efso. rewrite <- E in Hgq |- *. apply (v_fs_min I q Hq Hgq).
    - intros x g pn Hin. apply Hop' in Hin. rewrite Esent. destruct Hin as [Hin|(-> & -> & ->)].
      + destruct (v_op I _ _ _ Hin) as [Hgx Hex]. split; [|exact Hex]. sides x y; rewrite ?Ephy, ?Epho; lia.
      + split; [lia|]. exists p. auto.
    - intros x Hx. apply Hop'. sides x y.
      + right. rewrite Ephy, Efry. auto.
      + rewrite Efro in Hx. rewrite Epho, Efro. left. apply (v_fr_in I _ Hx).
    - intros x pn Hin. apply Hop' in Hin. sides x y.
      + rewrite Efry. lia.
      + rewrite Epho in Hin. rewrite Efro. destruct Hin as [Hin|(E & _)]; [eapply (v_fr_ex I); exact Hin|destruct (negb_neq _ E)].
    - intros x. sides x y.
      + rewrite Ercy. destruct (Z.max_spec (w_rcv w y) (p_pn p)) as [[_ ->]|[_ ->]].
        * right. exists (p_gen p). apply Hop'. right. auto.
        * destruct (v_rcv I y) as [E|(g & Hg')]; [left; exact E|right; exists g; apply Hop'; left; exact Hg'].
      + rewrite Erco. destruct (v_rcv I (negb y)) as [E|(g & Hg')]; [left; exact E|right; exists g; apply Hop'; left; exact Hg'].
    - intros q Hq Ha. rewrite Esent in Hq. destruct (v_ak1 I q Hq Ha) as (g & Hg' & Hin). exists g. split; [exact Hg'|]. apply Hop'. left; exact Hin.
    - intros x Hx. rewrite Ela in Hx |- *. rewrite Esent. apply (v_ak2 I x Hx).
    - intros x Hx Hpos. sides x y; rewrite ?Ephy, ?Epho in *; lia.
  Qed.
End ViewSteps.

(** * The composed system *)
Section SysInv.
  Variables ctext ptext adata : Type.
  Variable aead_seal : key -> Z -> adata -> ptext -> ctext.
  Variable aead_open : key -> Z -> adata -> ctext -> option ptext.
  Hypothesis open_seal : forall k n ad p, aead_open k n ad (aead_seal k n ad p) = Some p.
  Hypothesis open_wrong_key : forall k k' n ad p, k <> k' -> aead_open k n ad (aead_seal k' n ad p) = None.

  Notation sys := (sys ptext adata).
  Notation pkt := (pkt ptext adata).
  Notation uopen := (ua_open ctext ptext adata aead_open).
  Notation sstep := (sstep ctext ptext adata aead_seal aead_open).
  Notation srun := (srun ctext ptext adata aead_seal aead_open).
  Notation p_ct := (p_ct ctext ptext adata aead_seal).

  Definition E (s : sys) (x : bool) : ua := ep (sd s x).

  Definition view_of (s : sys) : view ptext adata :=
    {| w_ph := fun x => keyPhase (E s x);
       w_fs := fun x => firstSentWithCurrentKey (E s x);
       w_fr := fun x => firstRcvdWithCurrentKey (E s x);
       w_la := fun x => largestAcked (E s x);
       w_nxt := fun x => nxt (sd s x);
       w_rcv := fun x => rcv (sd s x);
       w_op := fun x => opened (sd s x);
       w_sent := sent s |}.

  Definition wf_ep (x : bool) (a : ua) : Prop :=
    rdir a = dirZ (negb x) /\ wdir a = dirZ x /\ 0 <= keyPhase a /\
    rcvAEAD a = keyPhase a /\ sendAEAD a = keyPhase a /\
    nextRcvAEAD a = keyPhase a + 1 /\ nextSendAEAD a = keyPhase a + 1 /\
    (forall k, prevRcvAEAD a = Some k -> k = keyPhase a - 1) /\
    (keyPhase a = 0 -> prevRcvAEAD a = None) /\
    0 <= numRcvdWithCurrentKey a.

  Definition Inv (s : sys) : Prop := (forall x, wf_ep x (E s x)) /\ InvV ptext adata (view_of s).

  Lemma upd_same f z v : upd f z v z = v.
  Proof. unfold upd. rewrite Bool.eqb_reflx. reflexivity. Qed.
  Lemma upd_other f z v : upd f z v (negb z) = f (negb z).
  Proof. unfold upd. destruct z; reflexivity. Qed.

  Ltac sides x z := destruct (bool_cases x z) as [->| ->]; rewrite ?negb_involutive in *.

  (** ** wf_ep is kept by every endpoint operation *)
  Lemma wf_same x a a' : wf_ep x a -> keep a a' -> same_keys a a' ->
    0 <= numRcvdWithCurrentKey a' -> wf_ep x a'.
  Proof.
    intros (w1 & w2 & w3 & w4 & w5 & w6 & w7 & w8 & w9 & w10) (k1 & k2 & _ & _) (s1 & s2 & s3 & s4 & s5 & _ & s7) Hn.
    unfold wf_ep. rewrite k1, k2, s1, s2, s3, s4, s5. repeat split; auto.
    - intros k Hk. destruct s7 as [s7|s7]; rewrite s7 in Hk; [auto|discriminate].
    - intros H0. destruct s7 as [s7|s7]; rewrite s7; auto.
  Qed.

  Lemma wf_rolled x a a' : wf_ep x a -> keep a a' -> rolled a a' -> wf_ep x a'.
  Proof.
    intros (w1 & w2 & w3 & w4 & w5 & w6 & w7 & w8 & w9 & w10) (k1 & k2 & _ & _) (r1 & r2 & r3 & r4 & r5 & r6 & r7 & r8).
    unfold wf_ep. rewrite k1, k2, r1, r2, r3, r4, r5, r6, r8, w6, w7. repeat split; auto; try lia.
    intros k Hk. inversion Hk. lia.
  Qed.

  (** ** replacing one endpoint by one with the same tracked fields *)
  Lemma inv_replace (s : sys) z a' :
    Inv s -> wf_ep z a' ->
    keyPhase a' = keyPhase (E s z) -> firstSentWithCurrentKey a' = firstSentWithCurrentKey (E s z) ->
    firstRcvdWithCurrentKey a' = firstRcvdWithCurrentKey (E s z) -> largestAcked a' = largestAcked (E s z) ->
    Inv {| sd := upd (sd s) z (set_ep (sd s z) a'); sent := sent s |}.
  Proof.
    intros [Hw I] Hwf E1 E2 E3 E4. split.
    - intros x. unfold E; cbn [sd]. sides x z; [rewrite upd_same; exact Hwf|rewrite upd_other; apply Hw].
    - apply (V_ext ptext adata (view_of s)); [exact I|..]; try reflexivity;
        intros x; unfold view_of, E; cbn [w_ph w_fs w_fr w_la w_nxt w_rcv w_op sd];
        (sides x z; [rewrite upd_same; cbn; auto|rewrite upd_other; reflexivity]).
  Qed.

  (** ** the four operations keep the invariant *)
  Lemma step_confirm (s : sys) cfg z : Inv s -> Inv (sstep cfg s (SConfirm _ _ z)).
  Proof.
    intros HI. cbn [KeyPhaseSys.sstep]. apply inv_replace; try reflexivity; [exact HI|].
    destruct HI as [Hw _]. specialize (Hw z). unfold wf_ep in *. cbn. exact Hw.
  Qed.

  Lemma step_keyphase (s : sys) cfg z : Inv s -> Inv (sstep cfg s (SKeyPhase _ _ z)).
  Proof.
    intros HI. cbn [KeyPhaseSys.sstep]. unfold ua_keyphase.
    destruct (shouldInitiateKeyUpdate cfg (ep (sd s z))) eqn:Es; cbn [snd].
    - apply shouldInitiate_allowed, updateAllowed_true in Es. destruct Es as [_ Hallow].
      destruct (rollKeys_rolled (ep (sd s z))) as (Hr & Hk & Hfr).
      pose proof Hr as (r1 & r2 & r3 & r4 & r5 & r6 & r7 & r8). pose proof Hk as (k1 & k2 & k3 & k4).
      destruct HI as [Hw I]. split.
      + intros x. unfold E; cbn [sd]. sides x z; [rewrite upd_same; cbn [ep set_ep]; eapply wf_rolled; [apply Hw|exact Hk|exact Hr]|rewrite upd_other; apply Hw].
      + apply (V_roll_local ptext adata (view_of s) _ z I); unfold view_of, E; cbn [w_ph w_fs w_fr w_la w_nxt w_rcv w_op w_sent sd sent];
          rewrite ?upd_same, ?upd_other; cbn [ep set_ep nxt rcv opened]; try reflexivity; try assumption.
        all: try (intros x; sides x z; rewrite ?upd_same, ?upd_other; cbn [ep set_ep nxt rcv opened]; auto).
    - apply (inv_replace s z (ep (sd s z))); try reflexivity; [exact HI|]. destruct HI as [Hw _]. apply (Hw z).
  Qed.

  Lemma step_seal (s : sys) cfg z skip ad pt : Inv s -> Inv (sstep cfg s (SSeal _ _ z skip ad pt)).
  Proof.
    intros [Hw I]. cbn [KeyPhaseSys.sstep]. unfold ua_seal. cbn [snd]. split.
    - intros x. unfold E; cbn [sd]. sides x z; [rewrite upd_same; cbn [ep]|rewrite upd_other; apply Hw].
      specialize (Hw z). unfold E, wf_ep in *. cbn. exact Hw.
    - apply (V_seal ptext adata (view_of s) _ z skip ad pt I); unfold view_of, E; cbn [w_ph w_fs w_fr w_la w_nxt w_rcv w_op w_sent sd sent];
        rewrite ?upd_same, ?upd_other; cbn; try reflexivity.
      all: try (intros x; sides x z; rewrite ?upd_same, ?upd_other; cbn; reflexivity).
  Qed.

  (** processing the ACK a packet carries *)
  Lemma inv_ack_step (f : bool -> side_st) (l : list pkt) y t1 (p : pkt) :
    Inv {| sd := upd f y t1; sent := l |} -> In p l -> p_from p = negb y ->
    Inv {| sd := upd f y (set_ep t1 (if 0 <=? p_ack p then snd (ua_set_largest_acked (ep t1) (p_ack p)) else ep t1)); sent := l |}.
  Proof.
    intros [Hw I] Hp Hpf.
    assert (Hwy : wf_ep y (ep t1)).
    { specialize (Hw y). unfold E in Hw. cbn [sd] in Hw. rewrite upd_same in Hw. exact Hw. }
    set (a2 := if 0 <=? p_ack p then snd (ua_set_largest_acked (ep t1) (p_ack p)) else ep t1).
    assert (Ha2 : wf_ep y a2 /\ keyPhase a2 = keyPhase (ep t1) /\ firstSentWithCurrentKey a2 = firstSentWithCurrentKey (ep t1) /\
                  firstRcvdWithCurrentKey a2 = firstRcvdWithCurrentKey (ep t1) /\
                  (largestAcked a2 = largestAcked (ep t1) \/ (largestAcked a2 = p_ack p /\ 0 <= p_ack p))).
    { subst a2. destruct (Z.leb_spec 0 (p_ack p)) as [Hge|Hlt]; [|repeat split; auto; apply Hwy].
      unfold ua_set_largest_acked.
      destruct (negb (firstSentWithCurrentKey (ep t1) =? InvalidPacketNumber) && (p_ack p >=? firstSentWithCurrentKey (ep t1)) && (numRcvdWithCurrentKey (ep t1) =? 0));
        cbn [snd]; [repeat split; auto; apply Hwy|].
      split; [unfold wf_ep in *; cbn; exact Hwy|]. cbn. auto 10. }
    destruct Ha2 as (Hwf2 & E1 & E2 & E3 & E4). clearbody a2.
    split.
    - intros x. unfold E; cbn [sd]. sides x y; [rewrite upd_same; exact Hwf2|].
      rewrite upd_other. specialize (Hw (negb y)). unfold E in Hw. cbn [sd] in Hw. rewrite upd_other in Hw. exact Hw.
    - destruct E4 as [E4|[E4 Hge]].
      + apply (V_ext ptext adata _ _ I); try reflexivity;
          intros x; unfold view_of, E; cbn [w_ph w_fs w_fr w_la w_nxt w_rcv w_op sd];
          (sides x y; [rewrite !upd_same; cbn [ep set_ep nxt rcv opened]; auto|rewrite !upd_other; reflexivity]).
      + apply (V_ack ptext adata _ _ y p I); try assumption; try reflexivity;
          unfold view_of, E; cbn [w_ph w_fs w_fr w_la w_nxt w_rcv w_op w_sent sd sent]; rewrite ?upd_same, ?upd_other; cbn [ep set_ep nxt rcv opened]; auto;
          intros x; (sides x y; [rewrite !upd_same; cbn [ep set_ep nxt rcv opened]; auto|rewrite !upd_other; reflexivity]).
  Qed.

  Lemma step_deliver (s : sys) cfg i now pto3 : Inv s -> Inv (sstep cfg s (SDeliver _ _ i now pto3)).
  Proof.
    intros HI. cbn [KeyPhaseSys.sstep]. destruct (nth_error (sent s) i) as [p|] eqn:En; [|exact HI].
    assert (Hp : In p (sent s)) by (eapply nth_error_In; exact En).
    set (y := negb (p_from p)).
    assert (Hpf : p_from p = negb y) by (subst y; rewrite negb_involutive; reflexivity).
    destruct (uopen (ep (sd s y)) now pto3 (p_pn p) (p_gen p mod 2) (p_ad p) (p_ct p)) as [res a1] eqn:Eo. cbn [fst snd].
    destruct HI as [Hw I]. pose proof (Hw y) as Hwy. unfold E in Hwy.
    pose proof Hwy as (w1 & w2 & w3 & w4 & w5 & w6 & w7 & w8 & w9 & w10).
    assert (Hd : rdir (ep (sd s y)) = dirZ (p_from p)) by (rewrite w1, <- Hpf; reflexivity).
    unfold KeyPhaseSys.p_ct in Eo.
    destruct (open_genuine ctext ptext adata aead_seal aead_open open_seal open_wrong_key _ _ _ _ _ _ _ _ _ _ Hd w3 w4 w6 w8 Eo)
      as (Hk & [(-> & Hg & Hsk & Hnum & Hfr)|[(-> & Hg & Hr & Hfr & _)|[(-> & Hg & Hsk & _ & Hnum & Hfr & _)|(Hno & Hsk & Hnum & Hfr)]]]).
    - (* current key *)
      apply (inv_ack_step (sd s) (sent s) y {| ep := a1; nxt := nxt (sd s y); rcv := Z.max (rcv (sd s y)) (p_pn p); opened := (p_gen p, p_pn p) :: opened (sd s y) |} p); [|exact Hp|exact Hpf].
      pose proof Hsk as (s1 & _ & _ & _ & _ & s6 & _). pose proof Hk as (_ & _ & k3 & _).
      split.
      + intros x. unfold E; cbn [sd]. sides x y; [rewrite upd_same; cbn [ep]; eapply wf_same; [exact Hwy|exact Hk|exact Hsk|lia]|rewrite upd_other; apply Hw].
      + apply (V_open_same ptext adata (view_of s) _ y p I Hp Hpf (or_introl Hg));
          unfold view_of, E; cbn [w_ph w_fs w_fr w_la w_nxt w_rcv w_op w_sent sd sent]; rewrite ?upd_same, ?upd_other; cbn [ep nxt rcv opened]; try reflexivity; auto.
        all: try (intros x; sides x y; rewrite ?upd_same, ?upd_other; cbn [ep nxt rcv opened]; auto).
        rewrite Hfr, Hg, Z.eqb_refl. reflexivity.
    - (* the peer's next generation: key update accepted *)
      apply (inv_ack_step (sd s) (sent s) y {| ep := a1; nxt := nxt (sd s y); rcv := Z.max (rcv (sd s y)) (p_pn p); opened := (p_gen p, p_pn p) :: opened (sd s y) |} p); [|exact Hp|exact Hpf].
      pose proof Hr as (r1 & _ & _ & _ & _ & _ & r7 & _). pose proof Hk as (_ & _ & k3 & _).
      split.
      + intros x. unfold E; cbn [sd]. sides x y; [rewrite upd_same; cbn [ep]; eapply wf_rolled; [exact Hwy|exact Hk|exact Hr]|rewrite upd_other; apply Hw].
      + apply (V_open_next ptext adata (view_of s) _ y p I Hp Hpf Hg);
          unfold view_of, E; cbn [w_ph w_fs w_fr w_la w_nxt w_rcv w_op w_sent sd sent]; rewrite ?upd_same, ?upd_other; cbn [ep nxt rcv opened]; try reflexivity; auto.
        all: try (intros x; sides x y; rewrite ?upd_same, ?upd_other; cbn [ep nxt rcv opened]; auto).
    - (* previous key *)
      apply (inv_ack_step (sd s) (sent s) y {| ep := a1; nxt := nxt (sd s y); rcv := Z.max (rcv (sd s y)) (p_pn p); opened := (p_gen p, p_pn p) :: opened (sd s y) |} p); [|exact Hp|exact Hpf].
      pose proof Hsk as (s1 & _ & _ & _ & _ & s6 & _). pose proof Hk as (_ & _ & k3 & _).
      split.
      + intros x. unfold E; cbn [sd]. sides x y; [rewrite upd_same; cbn [ep]; eapply wf_same; [exact Hwy|exact Hk|exact Hsk|lia]|rewrite upd_other; apply Hw].
      + apply (V_open_same ptext adata (view_of s) _ y p I Hp Hpf (or_intror Hg));
          unfold view_of, E; cbn [w_ph w_fs w_fr w_la w_nxt w_rcv w_op w_sent sd sent]; rewrite ?upd_same, ?upd_other; cbn [ep nxt rcv opened]; try reflexivity; auto.
        all: try (intros x; sides x y; rewrite ?upd_same, ?upd_other; cbn [ep nxt rcv opened]; auto).
        rewrite Hfr. destruct (Z.eqb_spec (p_gen p) (keyPhase (ep (sd s y)))) as [E0|_]; [lia|reflexivity].
    - (* not opened *)
      assert (Hgoal : Inv {| sd := upd (sd s) y (set_ep (sd s y) a1); sent := sent s |}).
      { pose proof Hsk as (s1 & _ & _ & _ & _ & s6 & _). pose proof Hk as (_ & _ & k3 & _).
        apply inv_replace; [split; assumption| |exact s1|exact s6|exact Hfr|exact k3].
        eapply wf_same; [exact Hwy|exact Hk|exact Hsk|lia]. }
      destruct res; try exact Hgoal. exfalso. eapply Hno. reflexivity.
  Qed.

  Lemma inv_init lim n0 : (forall x, 0 <= n0 x) -> Inv (sinit ptext adata lim n0).
  Proof.
    intros Hn. split.
    - intros x. unfold E, wf_ep. cbn. rewrite ?inv_m1. repeat split; try reflexivity; try lia; discriminate.
    - constructor; cbn; intros; try rewrite inv_m1 in *; try lia; try contradiction; auto.
  Qed.

  Lemma step_inv cfg s op : Inv s -> Inv (sstep cfg s op).
  Proof.
    destruct op; [apply step_keyphase|apply step_seal|apply step_deliver|apply step_confirm].
  Qed.

  Lemma run_inv cfg ops s : Inv s -> Inv (srun cfg s ops).
  Proof. revert s; induction ops as [|op r IH]; intros s H; cbn; [exact H|apply IH, step_inv, H]. Qed.

  (** ** what the invariant gives at a delivery *)
  Lemma deliver_ok (s : sys) (p : pkt) now pto3 :
    Inv s -> In p (sent s) ->
    let R := ep (sd s (negb (p_from p))) in
    let r := keyPhase R in
    let res := uopen R now pto3 (p_pn p) (p_gen p mod 2) (p_ad p) (p_ct p) in
    p_gen p <= r + 1 /\
    ((p_gen p = r \/ p_gen p = r + 1 \/ (p_gen p = r - 1 /\ prevRcvAEAD R <> None /\ dropped_now R now = false)) ->
     fst res = OpenOK (p_pt p)) /\
    (forall pt', fst res = OpenOK pt' ->
       pt' = p_pt p /\ (0 <= p_ack p -> fst (ua_set_largest_acked (snd res) (p_ack p)) = false)).
  Proof.
    intros [Hw I] Hp R r res.
    set (y := negb (p_from p)) in *.
    assert (Hpf : p_from p = negb y) by (subst y; rewrite negb_involutive; reflexivity).
    pose proof (Hw y) as Hwy. unfold E in Hwy. fold R in Hwy.
    pose proof Hwy as (w1 & w2 & w3 & w4 & w5 & w6 & w7 & w8 & w9 & w10). fold r in w3, w4, w6, w8, w9.
    assert (Hd : rdir R = dirZ (p_from p)) by (rewrite w1, <- Hpf; reflexivity).
    destruct (v_pk I p Hp) as (_ & (Hpn0 & _) & _).
    pose proof (V_gen_bound ptext adata _ p I Hp) as Hb.
    pose proof (V_next_ok ptext adata _ p I Hp) as Hnext.
    pose proof (V_prev_ok ptext adata _ p I Hp) as Hprev.
    pose proof (V_prev_ack ptext adata _ p I Hp) as Hpack.
    cbv zeta in Hnext, Hprev, Hpack. fold y in Hb, Hnext, Hprev, Hpack.
    unfold view_of, E in Hb, Hnext, Hprev, Hpack. cbn [w_ph w_fs w_fr] in Hb, Hnext, Hprev, Hpack. fold R in Hb, Hnext, Hprev, Hpack. fold r in Hb, Hnext, Hprev, Hpack.
    split; [exact Hb|]. split.
    - intros [Hg|[Hg|(Hg & Hpv & Hdrop)]]; subst res; unfold KeyPhaseSys.p_ct.
      + apply open_current; [unfold phase_bit; fold r; rewrite Hg; reflexivity|].
        rewrite Hd, w4, <- Hg. apply open_seal.
      + destruct (Hnext Hg) as [Hal Hle].
        apply open_next; try assumption.
        * unfold phase_bit. fold r. lia.
        * destruct Hal as [H0|[H1 _]]; [left; exact H0|right; exact H1].
        * destruct Hal as [H0|[_ H2]]; [left; exact H0|right; exact H2].
        * rewrite Hd, w6, <- Hg. apply open_seal.
      + destruct (prevRcvAEAD R) as [k|] eqn:Ek; [|congruence].
        pose proof (w8 k eq_refl) as Hk.
        apply open_prev with (k := k); try assumption.
        * unfold phase_bit. fold r. lia.
        * destruct (Hprev Hg) as [E1|Hlt]; [left; split; [|exact E1]|right; exact Hlt].
          destruct (Z.eq_dec r 0) as [E0|]; [|lia]. specialize (w9 E0). congruence.
        * rewrite Hd, Hk, <- Hg. apply open_seal.
    - intros pt' Hres. subst res.
      destruct (uopen R now pto3 (p_pn p) (p_gen p mod 2) (p_ad p) (p_ct p)) as [rs a1] eqn:Eo. cbn [fst snd] in *. subst rs.
      unfold KeyPhaseSys.p_ct in Eo.
      destruct (open_genuine ctext ptext adata aead_seal aead_open open_seal open_wrong_key _ _ _ _ _ _ _ _ _ _ Hd w3 w4 w6 w8 Eo)
        as (Hk & [(Er & Hg & Hsk & Hnum & Hfr)|[(Er & Hg & Hr & Hfr & _)|[(Er & Hg & Hsk & _ & Hnum & Hfr & _)|(Hno & _)]]]).
      + injection Er as ->. split; [reflexivity|]. intros Ha. unfold ua_set_largest_acked.
        replace (numRcvdWithCurrentKey a1 =? 0) with false by lia. rewrite andb_false_r. reflexivity.
      + injection Er as ->. split; [reflexivity|]. intros Ha. unfold ua_set_largest_acked.
        destruct Hr as (_ & _ & _ & _ & _ & _ & r7 & _). rewrite r7, inv_m1. reflexivity.
      + injection Er as ->. split; [reflexivity|]. intros Ha. unfold ua_set_largest_acked.
        destruct Hsk as (_ & _ & _ & _ & _ & s6 & _). rewrite s6, inv_m1.
        destruct (Z.eq_dec (firstSentWithCurrentKey R) (-1)) as [E1|NE].
        * rewrite E1. reflexivity.
        * specialize (Hpack Hg Ha NE). replace (p_ack p >=? firstSentWithCurrentKey R) with false by lia.
          rewrite andb_false_r. reflexivity.
      + exfalso. eapply Hno. reflexivity.
  Qed.

  (** the ciphertext Seal produces is the packet's wire image *)
  Lemma seal_is_pct (s : sys) z ad pt :
    Inv s ->
    fst (ua_seal ctext ptext adata aead_seal (ep (sd s z)) (nxt (sd s z)) ad pt) =
    p_ct {| p_from := z; p_gen := keyPhase (ep (sd s z)); p_pn := nxt (sd s z); p_ack := rcv (sd s z); p_ad := ad; p_pt := pt |}.
  Proof.
    intros [Hw _]. destruct (Hw z) as (_ & w2 & _ & _ & w5 & _). unfold E in *.
    unfold ua_seal, KeyPhaseSys.p_ct. cbn. rewrite w2, w5. reflexivity.
  Qed.

  Definition keyphase_histories_statement : Prop :=
    forall cfg lim n0 ops, (forall x, 0 <= n0 x) ->
      let s := srun cfg (sinit ptext adata lim n0) ops in
      forall i p now pto3, nth_error (sent s) i = Some p ->
        let R := ep (sd s (negb (p_from p))) in
        let r := keyPhase R in
        let res := uopen R now pto3 (p_pn p) (p_gen p mod 2) (p_ad p) (p_ct p) in
        p_gen p <= r + 1 /\
        ((p_gen p = r \/ p_gen p = r + 1 \/ (p_gen p = r - 1 /\ prevRcvAEAD R <> None /\ dropped_now R now = false)) ->
         fst res = OpenOK (p_pt p)) /\
        (forall pt', fst res = OpenOK pt' ->
           pt' = p_pt p /\ (0 <= p_ack p -> fst (ua_set_largest_acked (snd res) (p_ack p)) = false)).

  Lemma keyphase_histories : keyphase_histories_statement.
  Proof.
    intros cfg lim n0 ops Hn s i p now pto3 Hnth.
    apply deliver_ok; [apply run_inv, inv_init, Hn|eapply nth_error_In; exact Hnth].
  Qed.
End SysInv.
