(** Proofs about the packet protection model: round trip and (under ideal integrity of the
    AEAD) rejection of every byte string that is not a genuinely protected packet. *)
From Coq Require Import List ZArith Bool Lia.
From V Require Import Gen.Params PktProt.PktNum PktProt.PktNumProofs PktProt.Protect.
Import ListNotations.
Open Scope Z_scope.

(** * xor *)
Lemma lxor_cancel a m : Z.lxor (Z.lxor a m) m = a.
Proof. rewrite Z.lxor_assoc, Z.lxor_nilpotent, Z.lxor_0_r. reflexivity. Qed.

Lemma xor_bytes_nil_r a : xor_bytes a [] = a.
Proof. destruct a; reflexivity. Qed.

Lemma xor_bytes_invol a m : xor_bytes (xor_bytes a m) m = a.
Proof.
  revert m; induction a as [|x a IH]; intros [|y m]; cbn; try reflexivity.
  rewrite lxor_cancel, IH. reflexivity.
Qed.

Lemma xor_bytes_length a m : length (xor_bytes a m) = length a.
Proof. revert m; induction a as [|x a IH]; intros [|y m]; cbn; auto. Qed.

Lemma xor_bytes_app a b m : xor_bytes (a ++ b) m = xor_bytes a m ++ xor_bytes b (skipn (length a) m).
Proof.
  revert m; induction a as [|x a IH]; intros m; cbn.
  - reflexivity.
  - destruct m as [|y m]; cbn.
    + rewrite ?skipn_nil, xor_bytes_nil_r. reflexivity.
    + rewrite IH. reflexivity.
Qed.

Lemma firstn_xor_bytes n a m : firstn n (xor_bytes a m) = xor_bytes (firstn n a) m.
Proof.
  revert a m; induction n as [|n IH]; intros a m; cbn.
  - destruct m; reflexivity.
  - destruct a as [|x a]; cbn; [reflexivity|]. destruct m as [|y m]; cbn; [reflexivity|]. rewrite IH. reflexivity.
Qed.

(** * packet number bytes *)
Lemma pn_bytes_length n pn : length (pn_bytes n pn) = n.
Proof. revert pn; induction n as [|n IH]; intros pn; cbn; [reflexivity|]. rewrite app_length, IH. cbn. lia. Qed.

Lemma read_pn_app a x : read_pn (a ++ [x]) = read_pn a * 256 + x.
Proof. unfold read_pn. rewrite fold_left_app. reflexivity. Qed.

Lemma read_pn_bytes n pn : read_pn (pn_bytes n pn) = pn mod 256 ^ Z.of_nat n.
Proof.
  revert pn; induction n as [|n IH]; intros pn.
  - cbn. rewrite Z.mod_1_r. reflexivity.
  - cbn [pn_bytes]. rewrite read_pn_app, IH.
    rewrite Nat2Z.inj_succ, Z.pow_succ_r by lia.
    assert (Hp : 0 < 256 ^ Z.of_nat n) by (apply Z.pow_pos_nonneg; lia).
    rewrite Z.rem_mul_r by lia. lia.
Qed.

Lemma read_pn_truncate n pn : read_pn (pn_bytes n pn) = truncatePN (Z.of_nat n) pn.
Proof.
  rewrite read_pn_bytes. unfold truncatePN. rewrite Z.shiftl_mul_pow2, Z.mul_1_l by lia.
  replace 256 with (2 ^ 8) by reflexivity. rewrite <- Z.pow_mul_r by lia. f_equal. f_equal. lia.
Qed.

(** * list plumbing *)
Lemma skipn_app_ge {A} n (a b : list A) : (length a <= n)%nat -> skipn n (a ++ b) = skipn (n - length a) b.
Proof. intros H. rewrite skipn_app. rewrite (skipn_all2 a) by exact H. reflexivity. Qed.

Lemma firstn_app_exact {A} (a b : list A) : firstn (length a) (a ++ b) = a.
Proof. rewrite firstn_app, Nat.sub_diag, firstn_all. cbn. apply app_nil_r. Qed.

Lemma skipn_app_exact {A} (a b : list A) : skipn (length a) (a ++ b) = b.
Proof. rewrite skipn_app, Nat.sub_diag, skipn_all. reflexivity. Qed.

(** The shape of a packet: first byte, middle, packet number bytes, rest. *)
Lemma shape_nth f (mid pnb rest : list Z) : nth 0 (f :: mid ++ pnb ++ rest) 0 = f.
Proof. reflexivity. Qed.

Lemma shape_mid f (mid pnb rest : list Z) : slice (f :: mid ++ pnb ++ rest) 1 (length mid) = mid.
Proof. unfold slice. cbn. apply firstn_app_exact. Qed.

Lemma shape_pnb f (mid pnb rest : list Z) : slice (f :: mid ++ pnb ++ rest) (1 + length mid) (length pnb) = pnb.
Proof. unfold slice. cbn [skipn Nat.add]. rewrite skipn_app_exact. apply firstn_app_exact. Qed.

Lemma shape_rest f (mid pnb rest : list Z) : skipn (1 + length mid + length pnb) (f :: mid ++ pnb ++ rest) = rest.
Proof.
  cbn [skipn Nat.add]. rewrite skipn_app_ge by lia.
  replace (length mid + length pnb - length mid)%nat with (length pnb) by lia. apply skipn_app_exact.
Qed.

Lemma shape_after f (mid pnb rest : list Z) k :
  skipn (1 + length mid + k) (f :: mid ++ pnb ++ rest) = skipn k (pnb ++ rest).
Proof.
  cbn [skipn Nat.add]. rewrite skipn_app_ge by lia. f_equal. lia.
Qed.

(** the sample does not depend on the (at most 4) packet number bytes *)
Lemma sample_indep (pnb pnb' rest : list Z) :
  length pnb = length pnb' -> (length pnb <= 4)%nat ->
  skipn 4 (pnb ++ rest) = skipn 4 (pnb' ++ rest).
Proof. intros E H. rewrite !skipn_app_ge by lia. rewrite E. reflexivity. Qed.

(** * Layout of the first byte *)
Definition wf_first (long : bool) (first : Z) (pnLen : nat) (kp : Z) : Prop :=
  Z.to_nat (Z.land first 3 + 1) = pnLen /\
  (if long then Z.land first 12 = 0 /\ kp = 0
   else Z.land first 128 = 0 /\ Z.land first 64 <> 0 /\ Z.land first 24 = 0 /\
        kp = (if Z.land first 4 >? 0 then 1 else 0)).

Lemma short_first_wf pnLen kp : (1 <= pnLen <= 4)%nat -> kp = 0 \/ kp = 1 -> wf_first false (short_first pnLen kp) pnLen kp.
Proof.
  intros Hl Hk. assert (pnLen = 1 \/ pnLen = 2 \/ pnLen = 3 \/ pnLen = 4)%nat as [-> | [-> | [-> | ->]]] by lia;
    destruct Hk as [-> | ->]; vm_compute; repeat split; congruence.
Qed.

Lemma long_first_wf ptype pnLen : (1 <= pnLen <= 4)%nat -> 0 <= ptype <= 3 -> wf_first true (long_first ptype pnLen) pnLen 0.
Proof.
  intros Hl Hk. assert (pnLen = 1 \/ pnLen = 2 \/ pnLen = 3 \/ pnLen = 4)%nat as [-> | [-> | [-> | ->]]] by lia;
    (assert (ptype = 0 \/ ptype = 1 \/ ptype = 2 \/ ptype = 3) as [-> | [-> | [-> | ->]]] by lia); vm_compute; repeat split; congruence.
Qed.


Section Proofs.
  Variable aead_seal : Z -> Z -> list Z -> list Z -> list Z.
  Variable aead_open : Z -> Z -> list Z -> list Z -> option (list Z).
  Variable hp_mask : list Z -> list Z.

  Notation protect := (protect aead_seal hp_mask).
  Notation unprotect := (unprotect aead_open hp_mask).
  Notation unprotect_pre := (unprotect_pre hp_mask).

  (** protect, computed on the shape *)
  Lemma protect_shape long f mid pnb payload pn kp :
    let hdr := f :: mid ++ pnb in
    let ct := aead_seal pn kp hdr payload in
    let mask := hp_mask (firstn 16 (skipn 4 (pnb ++ ct))) in
    protect long hdr payload pn kp (length pnb) =
    Z.lxor f (Z.land (nth 0 mask 0) (first_mask long)) :: mid ++ xor_bytes pnb (skipn 1 mask) ++ ct.
  Proof.
    intros hdr ct mask. unfold Protect.protect. fold hdr. fold ct.
    assert (Hlen : (length hdr - length pnb = 1 + length mid)%nat).
    { subst hdr. cbn [length]. rewrite app_length. lia. }
    rewrite Hlen.
    assert (Hraw : hdr ++ ct = f :: mid ++ pnb ++ ct).
    { subst hdr. cbn. rewrite <- app_assoc. reflexivity. }
    rewrite Hraw.
    replace (1 + length mid - 1)%nat with (length mid) by lia.
    rewrite shape_mid, shape_pnb, shape_rest.
    unfold slice. rewrite !shape_after. fold mask. reflexivity.
  Qed.

  (** unprotect_pre, computed on the shape *)
  Lemma unprotect_pre_shape long f mid pnb rest largest :
    (1 <= length pnb <= 4)%nat -> (20 <= length pnb + length rest)%nat ->
    let data := f :: mid ++ pnb ++ rest in
    let mask := hp_mask (firstn 16 (skipn 4 (pnb ++ rest))) in
    let first := Z.lxor f (Z.land (nth 0 mask 0) (first_mask long)) in
    Z.to_nat (Z.land first 3 + 1) = length pnb ->
    unprotect_pre long (1 + length mid) largest data =
    if negb long && (Z.land first 128 >? 0) then inl UNotShort else
    if negb long && (Z.land first 64 =? 0) then inl UNotQUIC else
    inr {| oa_first := first; oa_pnLen := length pnb;
           oa_kp := if long then 0 else if Z.land first 4 >? 0 then 1 else 0;
           oa_reserved_bad := negb (Z.land first (reserved_mask long) =? 0);
           oa_pn := decodePN (Z.of_nat (length pnb)) largest (read_pn (xor_bytes pnb (skipn 1 mask)));
           oa_hdr := first :: mid ++ xor_bytes pnb (skipn 1 mask);
           oa_ct := rest |}.
  Proof.
    intros Hl Hlen data mask first Hpl.
    assert (Hd : length data = (1 + length mid + length pnb + length rest)%nat).
    { subst data. cbn [length]. rewrite !app_length. lia. }
    assert (H1 : nth 0 data 0 = f) by reflexivity.
    assert (H2 : skipn (1 + length mid + 4) data = skipn 4 (pnb ++ rest)) by apply shape_after.
    assert (H3 : skipn (1 + length mid) data = pnb ++ rest).
    { replace (1 + length mid)%nat with (1 + length mid + 0)%nat by lia. subst data. rewrite shape_after. reflexivity. }
    assert (H4 : firstn (1 + length mid - 1) (skipn 1 data) = mid).
    { replace (1 + length mid - 1)%nat with (length mid) by lia. apply (shape_mid f mid pnb rest). }
    assert (H5 : skipn (1 + length mid + length pnb) data = rest) by apply shape_rest.
    clearbody data.
    unfold Protect.unprotect_pre, slice.
    destruct (Nat.ltb_spec (length data) (1 + length mid + 4 + 16)) as [Hc|_]; [lia|].
    rewrite H1, H2, H3, H4. fold mask. fold first. rewrite Hpl, H5.
    assert (Horig : firstn 4 (pnb ++ rest) = pnb ++ firstn (4 - length pnb) rest).
    { rewrite firstn_app. f_equal. apply firstn_all2. lia. }
    rewrite Horig, xor_bytes_app, firstn_app, xor_bytes_length, Nat.sub_diag.
    change (firstn 0 (xor_bytes (firstn (4 - length pnb) rest) (skipn (length pnb) (skipn 1 mask)))) with (@nil Z).
    rewrite app_nil_r. rewrite firstn_all2 by (rewrite xor_bytes_length; lia).
    reflexivity.
  Qed.

  (** * Round trip *)
  Hypothesis open_seal : forall pn kp ad p, aead_open pn kp ad (aead_seal pn kp ad p) = Some p.
  Hypothesis seal_length : forall pn kp ad p, length (aead_seal pn kp ad p) = (length p + 16)%nat.

  Lemma protect_roundtrip long first mid pn kp pnLen payload largest :
    (1 <= pnLen <= 4)%nat -> wf_first long first pnLen kp ->
    0 <= pn < 2 ^ 62 -> -1 <= largest ->
    largest + 1 - 2 ^ (Z.of_nat pnLen * 8) / 2 < pn <= largest + 1 + 2 ^ (Z.of_nat pnLen * 8) / 2 ->
    payload <> [] -> (4 <= pnLen + length payload)%nat ->
    unprotect long (1 + length mid) largest (protect long (mk_header first mid pnLen pn) payload pn kp pnLen)
    = UOk first pn (Z.of_nat pnLen) kp payload.
  Proof.
    intros Hl (Hpl & Hwf) Hpn Hlg Hwin Hne Hmin.
    unfold mk_header.
    pose proof (pn_bytes_length pnLen pn) as Hpb.
    pose proof (protect_shape long first mid (pn_bytes pnLen pn) payload pn kp) as Hp.
    cbv zeta in Hp. rewrite Hpb in Hp. rewrite Hp. clear Hp.
    set (hdr := first :: mid ++ pn_bytes pnLen pn).
    set (ct := aead_seal pn kp hdr payload).
    set (mask := hp_mask (firstn 16 (skipn 4 (pn_bytes pnLen pn ++ ct)))).
    set (pnb' := xor_bytes (pn_bytes pnLen pn) (skipn 1 mask)).
    assert (Hpb' : length pnb' = pnLen) by (subst pnb'; rewrite xor_bytes_length; exact Hpb).
    assert (Hct : length ct = (length payload + 16)%nat) by (subst ct; apply seal_length).
    unfold Protect.unprotect.
    assert (Hs : skipn 4 (pnb' ++ ct) = skipn 4 (pn_bytes pnLen pn ++ ct)).
    { apply sample_indep; lia. }
    assert (P1 : (1 <= length pnb' <= 4)%nat) by lia.
    assert (P2 : (20 <= length pnb' + length ct)%nat) by lia.
    pose proof (unprotect_pre_shape long (Z.lxor first (Z.land (nth 0 mask 0) (first_mask long))) mid pnb' ct largest P1 P2) as Hu.
    cbv zeta in Hu. rewrite Hs in Hu. fold mask in Hu. rewrite lxor_cancel in Hu. rewrite Hpb' in Hu.
    specialize (Hu Hpl). rewrite Hu. clear Hu.
    subst pnb'. rewrite xor_bytes_invol. fold hdr.
    rewrite read_pn_truncate.
    assert (Hdec : decodePN (Z.of_nat pnLen) largest (truncatePN (Z.of_nat pnLen) pn) = pn).
    { apply decode_window; try assumption. unfold valid_len. lia. }
    rewrite Hdec.
    destruct long.
    - destruct Hwf as (Hres & ->). cbn [negb andb first_mask reserved_mask]. cbn [oa_pn oa_kp oa_hdr oa_ct].
      unfold ct. rewrite open_seal. unfold unprotect_post. cbn [oa_reserved_bad oa_first oa_pn oa_pnLen oa_kp].
      rewrite Hres. cbn [Z.eqb negb]. destruct payload; [congruence|]. reflexivity.
    - destruct Hwf as (H128 & H64 & Hres & Hkp). cbn [negb andb first_mask reserved_mask].
      rewrite H128. cbn [Z.gtb Z.compare].
      destruct (Z.eqb_spec (Z.land first 64) 0) as [E|_]; [congruence|].
      cbn [oa_pn oa_kp oa_hdr oa_ct]. rewrite <- Hkp. unfold ct. rewrite open_seal.
      unfold unprotect_post. cbn [oa_reserved_bad oa_first oa_pn oa_pnLen oa_kp].
      rewrite Hres. cbn [Z.eqb negb]. destruct payload; [congruence|]. reflexivity.
  Qed.
End Proofs.

(** * Tampering *)
Lemma land3_range a : 0 <= Z.land a 3 <= 3.
Proof.
  change 3 with (Z.ones 2) at 1 2. rewrite Z.land_ones by lia.
  pose proof (Z.mod_pos_bound a (2 ^ 2) ltac:(lia)). change (2 ^ 2) with 4 in *. lia.
Qed.

Lemma skipn_skipn' {A} a b (l : list A) : skipn a (skipn b l) = skipn (b + a) l.
Proof. revert l; induction b as [|b IH]; intros l; [reflexivity|]. destruct l; [rewrite !skipn_nil; reflexivity|]. cbn. apply IH. Qed.

Lemma data_shape (data : list Z) hdrLen L :
  (1 <= hdrLen)%nat -> (hdrLen + L <= length data)%nat ->
  data = nth 0 data 0 :: firstn (hdrLen - 1) (skipn 1 data) ++ firstn L (skipn hdrLen data) ++ skipn (hdrLen + L) data.
Proof.
  intros Hh Hl. destruct data as [|d0 data]; [cbn in Hl; lia|]. cbn [nth skipn]. f_equal.
  destruct hdrLen as [|h]; [lia|]. cbn [Nat.sub skipn Nat.add]. rewrite Nat.sub_0_r.
  rewrite <- (firstn_skipn h data) at 1. f_equal.
  rewrite <- (firstn_skipn L (skipn h data)) at 1. f_equal.
  rewrite skipn_skipn'. reflexivity.
Qed.

Section Tamper.
  Variable aead_seal : Z -> Z -> list Z -> list Z -> list Z.
  Variable aead_open : Z -> Z -> list Z -> list Z -> option (list Z).
  Variable hp_mask : list Z -> list Z.
  (** [sealed pn kp ad p]: the honest sender sealed plaintext p with this nonce and header *)
  Variable sealed : Z -> Z -> list Z -> list Z -> Prop.

  (** Ideal integrity: whatever opens was sealed by the honest sender, and is that ciphertext. *)
  Hypothesis integrity : forall pn kp ad c p,
    aead_open pn kp ad c = Some p -> sealed pn kp ad p /\ c = aead_seal pn kp ad p.

  Notation protect := (protect aead_seal hp_mask).
  Notation unprotect := (unprotect aead_open hp_mask).

  Lemma tamper_rejected long hdrLen largest data first pn pnLen kp p :
    (1 <= hdrLen)%nat ->
    unprotect long hdrLen largest data = UOk first pn pnLen kp p ->
    exists hdr, sealed pn kp hdr p /\ length hdr = (hdrLen + Z.to_nat pnLen)%nat /\ nth 0 hdr 0 = first /\
                data = protect long hdr p pn kp (Z.to_nat pnLen).
  Proof.
    intros Hh Hu.
    assert (Hlen : (hdrLen + 20 <= length data)%nat).
    { destruct (Nat.ltb_spec (length data) (hdrLen + 4 + 16)) as [Hc|Hc]; [|lia]. exfalso.
      unfold Protect.unprotect, unprotect_pre in Hu. rewrite (proj2 (Nat.ltb_lt _ _) Hc) in Hu. discriminate. }
    set (mask := hp_mask (firstn 16 (skipn (hdrLen + 4) data))).
    set (f1 := Z.lxor (nth 0 data 0) (Z.land (nth 0 mask 0) (first_mask long))).
    set (L := Z.to_nat (Z.land f1 3 + 1)).
    assert (HL : (1 <= L <= 4)%nat) by (subst L; pose proof (land3_range f1); lia).
    pose proof (data_shape data hdrLen L Hh ltac:(lia)) as Hshape.
    set (d0 := nth 0 data 0) in *.
    set (mid := firstn (hdrLen - 1) (skipn 1 data)) in *.
    set (pnraw := firstn L (skipn hdrLen data)) in *.
    set (rest := skipn (hdrLen + L) data) in *.
    assert (Hmid : length mid = (hdrLen - 1)%nat).
    { subst mid. rewrite firstn_length, skipn_length. lia. }
    assert (Hpnraw : length pnraw = L).
    { subst pnraw. rewrite firstn_length, skipn_length. lia. }
    assert (Hrest : length rest = (length data - (hdrLen + L))%nat).
    { subst rest. apply skipn_length. }
    assert (Hh' : hdrLen = (1 + length mid)%nat) by lia.
    assert (Hmask : mask = hp_mask (firstn 16 (skipn 4 (pnraw ++ rest)))).
    { subst mask. f_equal. f_equal. rewrite Hshape at 1. rewrite Hh'. apply shape_after. }
    clearbody d0 mid pnraw rest. subst data.
    rewrite Hh' in Hu. unfold Protect.unprotect in Hu.
    rewrite (unprotect_pre_shape aead_seal aead_open hp_mask long d0 mid pnraw rest largest) in Hu;
      [| lia | rewrite Hpnraw; cbn [length] in Hlen; rewrite !app_length in Hlen; lia | rewrite <- Hmask; fold f1; fold L; lia].
    rewrite <- Hmask in Hu. fold f1 in Hu.
    destruct (negb long && (Z.land f1 128 >? 0)); [discriminate|].
    destruct (negb long && (Z.land f1 64 =? 0)); [discriminate|].
    cbn [oa_pn oa_kp oa_hdr oa_ct] in Hu.
    match type of Hu with unprotect_post _ (aead_open ?a ?b _ _) = _ => set (pnv := a) in Hu; set (kpv := b) in Hu end.
    match type of Hu with unprotect_post _ ?o = _ => destruct o as [p'|] eqn:Eo end; [|discriminate].
    unfold unprotect_post in Hu. cbn [oa_reserved_bad oa_first oa_pn oa_pnLen oa_kp] in Hu.
    destruct (negb (Z.land f1 (reserved_mask long) =? 0)); [discriminate|].
    destruct (length p' =? 0)%nat; [discriminate|].
    injection Hu as E1 E2 E3 E4 E5. subst p' first pnLen pn kp.
    apply integrity in Eo. destruct Eo as [Hsealed Hct].
    set (pnb := xor_bytes pnraw (skipn 1 mask)) in *.
    assert (Hpnb : length pnb = L) by (subst pnb; rewrite xor_bytes_length; exact Hpnraw).
    exists (f1 :: mid ++ pnb). rewrite Nat2Z.id.
    split; [exact Hsealed|]. split; [cbn [length]; rewrite app_length; lia|]. split; [reflexivity|].
    rewrite Hpnraw, <- Hpnb. rewrite (protect_shape aead_seal aead_open hp_mask). rewrite <- Hct.
    assert (Hs : skipn 4 (pnb ++ rest) = skipn 4 (pnraw ++ rest)) by (apply sample_indep; lia).
    rewrite Hs, <- Hmask. subst pnb f1. rewrite xor_bytes_invol, lxor_cancel. reflexivity.
  Qed.
End Tamper.
