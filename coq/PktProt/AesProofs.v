(** The Gallina AES-128-GCM opens what it seals (for well-formed round keys and a 12-byte
    nonce), and so does the concrete Initial packet protection: an unconditional round trip. *)
From Coq Require Import List ZArith Bool Lia String.
From V Require Import Gen.Params Lib.Hex PktProt.PktNum PktProt.Sha256 PktProt.Aes PktProt.KeyDerive PktProt.InitialKeys
     PktProt.Protect PktProt.ProtectProofs PktProt.InitialProtect.
Import ListNotations.
Open Scope Z_scope.

(** * lists *)
Lemma xor_list_length a b : List.length (xor_list a b) = Nat.min (List.length a) (List.length b).
Proof. revert b; induction a as [|x a IH]; intros [|y b]; cbn; auto. Qed.

Lemma xor_list_invol a k : (List.length a <= List.length k)%nat -> xor_list (xor_list a k) k = a.
Proof.
  revert k; induction a as [|x a IH]; intros [|y k] H; cbn in *; try reflexivity; try lia.
  rewrite lxor_cancel, IH by lia. reflexivity.
Qed.

Lemma Z_to_bytes_length n v : List.length (Z_to_bytes n v) = n.
Proof. revert v; induction n as [|n IH]; intros v; cbn; [reflexivity|]. rewrite app_length, IH. cbn. lia. Qed.

Lemma bytes_eqb_refl a : bytes_eqb a a = true.
Proof. induction a as [|x a IH]; cbn; [reflexivity|]. rewrite Z.eqb_refl, IH. reflexivity. Qed.

(** * AES block length *)
Definition wf_rks (rks : list (list Z)) : Prop := rks <> [] /\ Forall (fun rk => List.length rk = 16%nat) rks.

Lemma len16_destruct (l : list Z) : List.length l = 16%nat ->
  exists a0 a1 a2 a3 a4 a5 a6 a7 a8 a9 a10 a11 a12 a13 a14 a15,
    l = [a0; a1; a2; a3; a4; a5; a6; a7; a8; a9; a10; a11; a12; a13; a14; a15].
Proof.
  intros H. do 16 (destruct l as [|? l]; [discriminate|]). destruct l; [|discriminate]. eauto 20.
Qed.

Lemma shift_rows_length st : List.length (shift_rows st) = 16%nat.
Proof. reflexivity. Qed.

Lemma mix_columns_length st : List.length st = 16%nat -> List.length (mix_columns st) = 16%nat.
Proof.
  intros H. destruct (len16_destruct st H) as (a0 & a1 & a2 & a3 & a4 & a5 & a6 & a7 & a8 & a9 & a10 & a11 & a12 & a13 & a14 & a15 & ->).
  reflexivity.
Qed.

Lemma aes_rounds_length rks st :
  Forall (fun rk => List.length rk = 16%nat) rks -> List.length st = 16%nat -> List.length (aes_rounds st rks) = 16%nat.
Proof.
  revert st; induction rks as [|rk r IH]; intros st Hf Hst; [exact Hst|].
  inversion Hf as [|? ? Hrk Hr]; subst. cbn [aes_rounds]. destruct r as [|rk2 r2].
  - rewrite xor_list_length, shift_rows_length, Hrk. reflexivity.
  - apply IH; [exact Hr|]. rewrite xor_list_length, mix_columns_length, Hrk; [reflexivity|apply shift_rows_length].
Qed.

Lemma aes_encrypt_length rks blk : wf_rks rks -> List.length blk = 16%nat -> List.length (aes_encrypt rks blk) = 16%nat.
Proof.
  intros [Hne Hf] Hb. destruct rks as [|rk0 r]; [congruence|]. inversion Hf as [|? ? H0 Hr]; subst.
  cbn [aes_encrypt]. apply aes_rounds_length; [exact Hr|]. rewrite xor_list_length, Hb, H0. reflexivity.
Qed.

Lemma next_round_key_length rk rcon : List.length rk = 16%nat -> List.length (next_round_key rk rcon) = 16%nat.
Proof.
  intros H. destruct (len16_destruct rk H) as (a0 & a1 & a2 & a3 & a4 & a5 & a6 & a7 & a8 & a9 & a10 & a11 & a12 & a13 & a14 & a15 & ->).
  reflexivity.
Qed.

Lemma expand_from_wf rk rcons : List.length rk = 16%nat -> Forall (fun rk => List.length rk = 16%nat) (expand_from rk rcons).
Proof.
  revert rk; induction rcons as [|r rs IH]; intros rk H; cbn; constructor.
  - apply next_round_key_length, H.
  - apply IH, next_round_key_length, H.
Qed.

Lemma aes_expand_wf key : List.length key = 16%nat -> wf_rks (aes_expand key).
Proof. intros H. split; [discriminate|]. constructor; [exact H|apply expand_from_wf, H]. Qed.

(** * CTR and GCM *)
Lemma ctr_loop_nil f rks iv c : ctr_loop f rks iv c [] = [].
Proof. destruct f; reflexivity. Qed.

Lemma ctr_loop_step f rks iv c data : data <> [] ->
  ctr_loop (S f) rks iv c data =
  xor_list (firstn 16 data) (aes_encrypt rks (iv ++ Z_to_bytes 4 c)) ++ ctr_loop f rks iv (c + 1) (skipn 16 data).
Proof. destruct data; [congruence|reflexivity]. Qed.

Lemma ctr_loop_invol rks iv : wf_rks rks -> List.length iv = 12%nat ->
  forall f data c, (List.length data <= 16 * f)%nat ->
    List.length (ctr_loop f rks iv c data) = List.length data /\
    ctr_loop f rks iv c (ctr_loop f rks iv c data) = data.
Proof.
  intros Hw Hiv. induction f as [|f IH]; intros data c Hlen; [destruct data; [split; reflexivity|cbn in Hlen; lia]|].
  destruct data as [|d0 data0]; [split; reflexivity|]. set (data := d0 :: data0) in *.
  assert (Hne : data <> []) by discriminate.
  rewrite (ctr_loop_step f rks iv c data Hne).
  set (ks := aes_encrypt rks (iv ++ Z_to_bytes 4 c)).
  assert (Hks : List.length ks = 16%nat).
  { subst ks. apply aes_encrypt_length; [exact Hw|]. rewrite app_length, Z_to_bytes_length, Hiv. reflexivity. }
  set (blk := xor_list (firstn 16 data) ks).
  assert (Hblk : List.length blk = Nat.min 16 (List.length data)).
  { subst blk. rewrite xor_list_length, firstn_length, Hks. lia. }
  assert (Hrest : (List.length (skipn 16 data) <= 16 * f)%nat) by (rewrite skipn_length; lia).
  destruct (IH (skipn 16 data) (c + 1) Hrest) as [IHl IHi].
  set (rest := ctr_loop f rks iv (c + 1) (skipn 16 data)) in *.
  split.
  - subst data. rewrite app_length, Hblk, IHl, skipn_length. cbn [List.length] in *. lia.
  - assert (Hout : blk ++ rest <> []).
    { intros E. apply app_eq_nil in E. destruct E as [E _]. rewrite E in Hblk. cbn in Hblk. subst data. cbn in Hblk. lia. }
    rewrite (ctr_loop_step f rks iv c (blk ++ rest) Hout).
    destruct (Nat.le_gt_cases 16 (List.length data)) as [Hge|Hlt].
    + assert (Hb16 : List.length blk = 16%nat) by lia.
      assert (E1 : firstn 16 (blk ++ rest) = blk) by (rewrite <- Hb16; apply firstn_app_exact).
      assert (E2 : skipn 16 (blk ++ rest) = rest) by (rewrite <- Hb16; apply skipn_app_exact).
      rewrite E1, E2. fold ks. subst blk. rewrite xor_list_invol by (rewrite firstn_length, Hks; lia).
      subst rest. rewrite IHi. apply firstn_skipn.
    + assert (Hsk : skipn 16 data = []) by (apply skipn_all2; lia).
      assert (Hr : rest = []) by (subst rest; rewrite Hsk; apply ctr_loop_nil).
      rewrite Hr, app_nil_r.
      assert (E1 : firstn 16 blk = blk) by (apply firstn_all2; lia).
      assert (E2 : skipn 16 blk = []) by (apply skipn_all2; lia).
      rewrite E1, E2, ctr_loop_nil, app_nil_r. fold ks. subst blk.
      rewrite xor_list_invol by (rewrite firstn_length, Hks; lia). apply firstn_all2. lia.
Qed.

Lemma fuel_enough (n : nat) : (n <= 16 * S (n / 16))%nat.
Proof. pose proof (Nat.div_mod n 16 ltac:(lia)). pose proof (Nat.mod_upper_bound n 16 ltac:(lia)). lia. Qed.

Lemma gcm_ctr_invol rks iv data : wf_rks rks -> List.length iv = 12%nat ->
  List.length (gcm_ctr rks iv data) = List.length data /\ gcm_ctr rks iv (gcm_ctr rks iv data) = data.
Proof.
  intros Hw Hiv. unfold gcm_ctr.
  destruct (ctr_loop_invol rks iv Hw Hiv (S (List.length data / 16)) data 2 (fuel_enough _)) as [Hl Hi].
  split; [exact Hl|]. rewrite Hl. exact Hi.
Qed.

Lemma gcm_tag_length rks iv ad ct : wf_rks rks -> List.length iv = 12%nat -> List.length (gcm_tag rks iv ad ct) = 16%nat.
Proof.
  intros Hw Hiv. unfold gcm_tag. rewrite xor_list_length, Z_to_bytes_length, aes_encrypt_length; [reflexivity|exact Hw|].
  rewrite app_length, Hiv. reflexivity.
Qed.

Lemma gcm_seal_length rks iv ad pt : wf_rks rks -> List.length iv = 12%nat ->
  List.length (gcm_seal rks iv ad pt) = (List.length pt + 16)%nat.
Proof.
  intros Hw Hiv. unfold gcm_seal. rewrite app_length, gcm_tag_length by assumption.
  destruct (gcm_ctr_invol rks iv pt Hw Hiv) as [Hl _]. rewrite Hl. reflexivity.
Qed.

Lemma gcm_open_seal rks iv ad pt : wf_rks rks -> List.length iv = 12%nat ->
  gcm_open rks iv ad (gcm_seal rks iv ad pt) = Some pt.
Proof.
  intros Hw Hiv. unfold gcm_open. rewrite gcm_seal_length by assumption.
  destruct (Nat.ltb_spec (List.length pt + 16) 16) as [H|_]; [lia|].
  replace (List.length pt + 16 - 16)%nat with (List.length pt) by lia.
  destruct (gcm_ctr_invol rks iv pt Hw Hiv) as [Hl Hi].
  unfold gcm_seal. set (ct := gcm_ctr rks iv pt) in *. rewrite <- Hl.
  rewrite firstn_app_exact, skipn_app_exact, bytes_eqb_refl. subst ct. rewrite Hi. reflexivity.
Qed.

(** * Lengths of the derived key material *)
Lemma sha_compress_length h block : List.length h = 8%nat -> List.length (sha_compress h block) = 8%nat.
Proof.
  intros H. do 8 (destruct h as [|? h]; [discriminate|]). destruct h; [|discriminate].
  unfold sha_compress. destruct (fold_left sha_round _ _) as [[[[[[[a' b'] c'] d'] e'] f'] g'] h']. reflexivity.
Qed.

Lemma sha_blocks_length fuel h m : List.length h = 8%nat -> List.length (sha_blocks fuel h m) = 8%nat.
Proof.
  revert h m; induction fuel as [|f IH]; intros h m H; cbn; [exact H|].
  destruct m; [exact H|]. apply IH, sha_compress_length, H.
Qed.

Lemma flat_map_word_bytes_length l : List.length (flat_map word_bytes l) = (4 * List.length l)%nat.
Proof. induction l as [|x l IH]; cbn; [reflexivity|]. rewrite IH. lia. Qed.

Lemma sha256_length msg : List.length (sha256 msg) = 32%nat.
Proof. unfold sha256. rewrite flat_map_word_bytes_length, sha_blocks_length; reflexivity. Qed.

Lemma hmac_length key msg : List.length (hmac_sha256 key msg) = 32%nat.
Proof. apply sha256_length. Qed.

Lemma expand_label_length secret label (len : Z) : 1 <= len <= 32 -> List.length (expand_label secret label len) = Z.to_nat len.
Proof.
  intros H. unfold expand_label, hkdf_expand.
  replace (Z.to_nat ((len + 31) / 32)) with 1%nat.
  - cbn [hkdf_expand_loop]. rewrite app_nil_r, firstn_length, hmac_length. lia.
  - assert ((len + 31) / 32 = 1) by (symmetry; apply Z.div_unique with (r := len - 1); lia). lia.
Qed.

Lemma initial_keys_lengths v2 client dcid :
  let '(k, iv, hp) := initial_keys v2 client dcid in
  List.length k = 16%nat /\ List.length iv = 12%nat /\ List.length hp = 16%nat.
Proof.
  unfold initial_keys, aead_key, aead_iv, hp_key. repeat split; rewrite expand_label_length by lia; reflexivity.
Qed.

Lemma quic_nonce_length iv pn : List.length iv = 12%nat -> List.length (quic_nonce iv pn) = 12%nat.
Proof.
  intros H. unfold quic_nonce. rewrite app_length, firstn_length, xor_list_length, skipn_length, Z_to_bytes_length, H. reflexivity.
Qed.

(** * The concrete Initial packet protection round-trips, with no cryptographic hypothesis *)
Definition initial_roundtrip_statement : Prop :=
  forall (v2 client : bool) (dcid : list Z) first mid pn pnLen payload largest,
    (1 <= pnLen <= 4)%nat -> wf_first true first pnLen 0 ->
    0 <= pn < 2 ^ 62 -> -1 <= largest ->
    largest + 1 - 2 ^ (Z.of_nat pnLen * 8) / 2 < pn <= largest + 1 + 2 ^ (Z.of_nat pnLen * 8) / 2 ->
    payload <> [] -> (4 <= pnLen + List.length payload)%nat ->
    initial_unprotect v2 client dcid (1 + List.length mid) largest
      (initial_protect v2 client dcid (mk_header first mid pnLen pn) payload pn pnLen)
    = UOk first pn (Z.of_nat pnLen) 0 payload.

Lemma initial_roundtrip : initial_roundtrip_statement.
Proof.
  intros v2 client dcid first mid pn pnLen payload largest Hl Hwf Hpn Hlg Hwin Hne Hmin.
  unfold initial_unprotect, initial_protect, mk_ikeys.
  pose proof (initial_keys_lengths v2 client dcid) as HL.
  destruct (initial_keys v2 client dcid) as [[k iv] hp]. destruct HL as (Hk & Hiv & Hhp).
  set (K := {| ik_rks := aes_expand k; ik_iv := iv; ik_hp := aes_expand hp |}).
  apply (protect_roundtrip (init_seal K) (init_open K) (init_mask K)); try assumption.
  - intros n kp ad p. unfold init_open, init_seal. apply gcm_open_seal; [apply aes_expand_wf, Hk|apply quic_nonce_length, Hiv].
  - intros n kp ad p. unfold init_seal. apply gcm_seal_length; [apply aes_expand_wf, Hk|apply quic_nonce_length, Hiv].
Qed.
