(** Two conformant updatableAEAD endpoints and a network (composition of the KeyPhase model
    with itself).  Every packet ever sealed stays deliverable, any number of times and in any
    order (loss, duplication, reordering); ACKs travel inside packets (a packet carries the
    largest packet number its sender had opened) and are processed, as in the connection,
    after a successful Open.  Executable definitions only. *)
From Coq Require Import List ZArith Bool.
From V Require Import Gen.Params PktProt.PktNum PktProt.KeyPhase.
Import ListNotations.
Open Scope Z_scope.

Definition dirZ (x : bool) : Z := if x then 1 else 0.

Section Sys.
  Variables ctext ptext adata : Type.
  Variable aead_seal : key -> Z -> adata -> ptext -> ctext.
  Variable aead_open : key -> Z -> adata -> ctext -> option ptext.

  Record pkt := { p_from : bool; p_gen : Z; p_pn : Z; p_ack : Z; p_ad : adata; p_pt : ptext }.

  (** the bytes on the wire *)
  Definition p_ct (p : pkt) : ctext := aead_seal (dirZ (p_from p), p_gen p) (p_pn p) (p_ad p) (p_pt p).

  (** one side: its updatableAEAD, the next packet number of its generator, the largest
      packet number it has opened (-1: none); [opened] is a ghost log of (generation, packet
      number) of the packets it has opened. *)
  Record side_st := { ep : ua; nxt : Z; rcv : Z; opened : list (Z * Z) }.
  Record sys := { sd : bool -> side_st; sent : list pkt }.

  Definition upd (f : bool -> side_st) (z : bool) (v : side_st) : bool -> side_st :=
    fun x => if Bool.eqb z x then v else f x.
  Definition set_ep (t : side_st) (a : ua) : side_st :=
    {| ep := a; nxt := nxt t; rcv := rcv t; opened := opened t |}.

  Inductive sop :=
  | SKeyPhase (x : bool)                                   (* KeyPhase(): may initiate a key update *)
  | SSeal (x : bool) (skip : nat) (ad : adata) (pt : ptext) (* Seal with the next packet number; the generator may skip numbers *)
  | SDeliver (i : nat) (now pto3 : Z)                       (* the i-th packet ever sent reaches its destination *)
  | SConfirm (x : bool).

  Definition sstep (cfg : kcfg) (s : sys) (op : sop) : sys :=
    match op with
    | SKeyPhase x =>
      let t := sd s x in
      {| sd := upd (sd s) x (set_ep t (snd (ua_keyphase cfg (ep t)))); sent := sent s |}
    | SSeal x skip ad pt =>
      let t := sd s x in
      let a := snd (ua_seal ctext ptext adata aead_seal (ep t) (nxt t) ad pt) in
      let p := {| p_from := x; p_gen := keyPhase (ep t); p_pn := nxt t; p_ack := rcv t; p_ad := ad; p_pt := pt |} in
      {| sd := upd (sd s) x {| ep := a; nxt := nxt t + 1 + Z.of_nat skip; rcv := rcv t; opened := opened t |};
         sent := sent s ++ [p] |}
    | SDeliver i now pto3 =>
      match nth_error (sent s) i with
      | None => s
      | Some p =>
        let y := negb (p_from p) in
        let t := sd s y in
        let ra := ua_open ctext ptext adata aead_open (ep t) now pto3 (p_pn p) (p_gen p mod 2) (p_ad p) (p_ct p) in
        match fst ra with
        | OpenOK _ =>
          let a := if 0 <=? p_ack p then snd (ua_set_largest_acked (snd ra) (p_ack p)) else snd ra in
          {| sd := upd (sd s) y {| ep := a; nxt := nxt t; rcv := Z.max (rcv t) (p_pn p);
                                   opened := (p_gen p, p_pn p) :: opened t |};
             sent := sent s |}
        | _ => {| sd := upd (sd s) y (set_ep t (snd ra)); sent := sent s |}
        end
      end
    | SConfirm x =>
      let t := sd s x in
      {| sd := upd (sd s) x (set_ep t (ua_confirm (ep t))); sent := sent s |}
    end.

  Definition sinit (lim : Z) (n0 : bool -> Z) : sys :=
    {| sd := fun x => {| ep := ua_new (dirZ (negb x)) (dirZ x) lim; nxt := n0 x; rcv := -1; opened := [] |};
       sent := [] |}.

  Fixpoint srun (cfg : kcfg) (s : sys) (ops : list sop) : sys :=
    match ops with [] => s | op :: r => srun cfg (sstep cfg s op) r end.
End Sys.

Arguments p_from {ptext adata} p.
Arguments p_gen {ptext adata} p.
Arguments p_pn {ptext adata} p.
Arguments p_ack {ptext adata} p.
Arguments p_ad {ptext adata} p.
Arguments p_pt {ptext adata} p.
Arguments sd {ptext adata} s.
Arguments sent {ptext adata} s.
Arguments Build_pkt {ptext adata}.
Arguments Build_sys {ptext adata}.
