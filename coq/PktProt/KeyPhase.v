(** Model of internal/handshake/updatable_aead.go (type updatableAEAD).

    Keys are not byte strings here: a key is (direction, generation), generation n being
    the n-th application of getNextTrafficSecret ("quic ku") to the initial traffic
    secret.  The AEAD itself is a Section variable (see KeyPhaseProofs for the two
    hypotheses the theorems need).  Time is an input (nanoseconds, 0 = unset as in the
    code); 3*PTO is an oracle argument of Open (rttStats is outside the model).
    Executable definitions only. *)
From Coq Require Import List ZArith Bool.
From V Require Import Gen.Params PktProt.PktNum.
Import ListNotations.
Open Scope Z_scope.

Definition key : Type := (Z * Z)%type. (* direction (= id of the sealing endpoint), generation *)

(** Result classes of Open / SetLargestAcked. *)
Inductive ores (ptext : Type) :=
| OpenOK (p : ptext)
| ErrDecryptionFailed
| ErrKeysDropped
| ErrKeyUpdate        (* qerr.KeyUpdateError *)
| ErrAEADLimit.       (* qerr.AEADLimitReached *)
Arguments OpenOK {ptext} p.
Arguments ErrDecryptionFailed {ptext}.
Arguments ErrKeysDropped {ptext}.
Arguments ErrKeyUpdate {ptext}.
Arguments ErrAEADLimit {ptext}.

(** The package-level knobs: keyUpdateInterval (atomic, initialised from
    protocol.KeyUpdateInterval) and FirstKeyUpdateInterval. *)
Record kcfg := { keyUpdateInterval : Z; firstKeyUpdateInterval : Z }.
Definition default_cfg : kcfg := {| keyUpdateInterval := PP_KeyUpdateIntervalLoaded; firstKeyUpdateInterval := PP_FirstKeyUpdateInterval |}.

Record ua := {
  rdir : Z;                       (* direction of the keys this endpoint reads with *)
  wdir : Z;                       (* direction of the keys this endpoint writes with *)
  keyPhase : Z;
  largestAcked : Z;
  firstPacketNumber : Z;
  handshakeConfirmed : bool;
  invalidPacketLimit : Z;
  invalidPacketCount : Z;
  prevRcvAEADExpiry : Z;
  prevRcvAEAD : option Z;         (* generation of the previous receive key; None = nil *)
  firstRcvdWithCurrentKey : Z;
  firstSentWithCurrentKey : Z;
  highestRcvdPN : Z;
  numRcvdWithCurrentKey : Z;
  numSentWithCurrentKey : Z;
  rcvAEAD : Z;                    (* generations of the four installed keys *)
  sendAEAD : Z;
  nextRcvAEAD : Z;
  nextSendAEAD : Z
}.

(** newUpdatableAEAD + SetReadKey + SetWriteKey *)
Definition ua_new (rd wd limit : Z) : ua :=
  {| rdir := rd; wdir := wd; keyPhase := 0; largestAcked := InvalidPacketNumber;
     firstPacketNumber := InvalidPacketNumber; handshakeConfirmed := false;
     invalidPacketLimit := limit; invalidPacketCount := 0;
     prevRcvAEADExpiry := 0; prevRcvAEAD := None;
     firstRcvdWithCurrentKey := InvalidPacketNumber; firstSentWithCurrentKey := InvalidPacketNumber;
     highestRcvdPN := 0; numRcvdWithCurrentKey := 0; numSentWithCurrentKey := 0;
     rcvAEAD := 0; sendAEAD := 0; nextRcvAEAD := 1; nextSendAEAD := 1 |}.

Definition set_expiry (a : ua) (e : Z) : ua :=
  {| rdir := rdir a; wdir := wdir a; keyPhase := keyPhase a; largestAcked := largestAcked a;
     firstPacketNumber := firstPacketNumber a; handshakeConfirmed := handshakeConfirmed a;
     invalidPacketLimit := invalidPacketLimit a; invalidPacketCount := invalidPacketCount a;
     prevRcvAEADExpiry := e; prevRcvAEAD := prevRcvAEAD a;
     firstRcvdWithCurrentKey := firstRcvdWithCurrentKey a; firstSentWithCurrentKey := firstSentWithCurrentKey a;
     highestRcvdPN := highestRcvdPN a; numRcvdWithCurrentKey := numRcvdWithCurrentKey a;
     numSentWithCurrentKey := numSentWithCurrentKey a;
     rcvAEAD := rcvAEAD a; sendAEAD := sendAEAD a; nextRcvAEAD := nextRcvAEAD a; nextSendAEAD := nextSendAEAD a |}.

(** func (a *updatableAEAD) rollKeys() *)
Definition rollKeys (a : ua) : ua :=
  let a := match prevRcvAEAD a with Some _ => set_expiry a 0 | None => a end in
  {| rdir := rdir a; wdir := wdir a; keyPhase := keyPhase a + 1; largestAcked := largestAcked a;
     firstPacketNumber := firstPacketNumber a; handshakeConfirmed := handshakeConfirmed a;
     invalidPacketLimit := invalidPacketLimit a; invalidPacketCount := invalidPacketCount a;
     prevRcvAEADExpiry := prevRcvAEADExpiry a; prevRcvAEAD := Some (rcvAEAD a);
     firstRcvdWithCurrentKey := InvalidPacketNumber; firstSentWithCurrentKey := InvalidPacketNumber;
     highestRcvdPN := highestRcvdPN a; numRcvdWithCurrentKey := 0; numSentWithCurrentKey := 0;
     rcvAEAD := nextRcvAEAD a; sendAEAD := nextSendAEAD a;
     nextRcvAEAD := nextRcvAEAD a + 1; nextSendAEAD := nextSendAEAD a + 1 |}.

(** startKeyDropTimer(now): prevRcvAEADExpiry = now + 3*PTO *)
Definition startKeyDropTimer (a : ua) (now pto3 : Z) : ua := set_expiry a (now + pto3).

Definition drop_prev (a : ua) : ua :=
  {| rdir := rdir a; wdir := wdir a; keyPhase := keyPhase a; largestAcked := largestAcked a;
     firstPacketNumber := firstPacketNumber a; handshakeConfirmed := handshakeConfirmed a;
     invalidPacketLimit := invalidPacketLimit a; invalidPacketCount := invalidPacketCount a;
     prevRcvAEADExpiry := 0; prevRcvAEAD := None;
     firstRcvdWithCurrentKey := firstRcvdWithCurrentKey a; firstSentWithCurrentKey := firstSentWithCurrentKey a;
     highestRcvdPN := highestRcvdPN a; numRcvdWithCurrentKey := numRcvdWithCurrentKey a;
     numSentWithCurrentKey := numSentWithCurrentKey a;
     rcvAEAD := rcvAEAD a; sendAEAD := sendAEAD a; nextRcvAEAD := nextRcvAEAD a; nextSendAEAD := nextSendAEAD a |}.

Definition set_rcvd (a : ua) (first num : Z) : ua :=
  {| rdir := rdir a; wdir := wdir a; keyPhase := keyPhase a; largestAcked := largestAcked a;
     firstPacketNumber := firstPacketNumber a; handshakeConfirmed := handshakeConfirmed a;
     invalidPacketLimit := invalidPacketLimit a; invalidPacketCount := invalidPacketCount a;
     prevRcvAEADExpiry := prevRcvAEADExpiry a; prevRcvAEAD := prevRcvAEAD a;
     firstRcvdWithCurrentKey := first; firstSentWithCurrentKey := firstSentWithCurrentKey a;
     highestRcvdPN := highestRcvdPN a; numRcvdWithCurrentKey := num;
     numSentWithCurrentKey := numSentWithCurrentKey a;
     rcvAEAD := rcvAEAD a; sendAEAD := sendAEAD a; nextRcvAEAD := nextRcvAEAD a; nextSendAEAD := nextSendAEAD a |}.

Definition set_open_counters (a : ua) (invalid highest : Z) : ua :=
  {| rdir := rdir a; wdir := wdir a; keyPhase := keyPhase a; largestAcked := largestAcked a;
     firstPacketNumber := firstPacketNumber a; handshakeConfirmed := handshakeConfirmed a;
     invalidPacketLimit := invalidPacketLimit a; invalidPacketCount := invalid;
     prevRcvAEADExpiry := prevRcvAEADExpiry a; prevRcvAEAD := prevRcvAEAD a;
     firstRcvdWithCurrentKey := firstRcvdWithCurrentKey a; firstSentWithCurrentKey := firstSentWithCurrentKey a;
     highestRcvdPN := highest; numRcvdWithCurrentKey := numRcvdWithCurrentKey a;
     numSentWithCurrentKey := numSentWithCurrentKey a;
     rcvAEAD := rcvAEAD a; sendAEAD := sendAEAD a; nextRcvAEAD := nextRcvAEAD a; nextSendAEAD := nextSendAEAD a |}.

Definition set_sent (a : ua) (firstSent firstPN num : Z) : ua :=
  {| rdir := rdir a; wdir := wdir a; keyPhase := keyPhase a; largestAcked := largestAcked a;
     firstPacketNumber := firstPN; handshakeConfirmed := handshakeConfirmed a;
     invalidPacketLimit := invalidPacketLimit a; invalidPacketCount := invalidPacketCount a;
     prevRcvAEADExpiry := prevRcvAEADExpiry a; prevRcvAEAD := prevRcvAEAD a;
     firstRcvdWithCurrentKey := firstRcvdWithCurrentKey a; firstSentWithCurrentKey := firstSent;
     highestRcvdPN := highestRcvdPN a; numRcvdWithCurrentKey := numRcvdWithCurrentKey a;
     numSentWithCurrentKey := num;
     rcvAEAD := rcvAEAD a; sendAEAD := sendAEAD a; nextRcvAEAD := nextRcvAEAD a; nextSendAEAD := nextSendAEAD a |}.

Definition set_largestAcked (a : ua) (pn : Z) : ua :=
  {| rdir := rdir a; wdir := wdir a; keyPhase := keyPhase a; largestAcked := pn;
     firstPacketNumber := firstPacketNumber a; handshakeConfirmed := handshakeConfirmed a;
     invalidPacketLimit := invalidPacketLimit a; invalidPacketCount := invalidPacketCount a;
     prevRcvAEADExpiry := prevRcvAEADExpiry a; prevRcvAEAD := prevRcvAEAD a;
     firstRcvdWithCurrentKey := firstRcvdWithCurrentKey a; firstSentWithCurrentKey := firstSentWithCurrentKey a;
     highestRcvdPN := highestRcvdPN a; numRcvdWithCurrentKey := numRcvdWithCurrentKey a;
     numSentWithCurrentKey := numSentWithCurrentKey a;
     rcvAEAD := rcvAEAD a; sendAEAD := sendAEAD a; nextRcvAEAD := nextRcvAEAD a; nextSendAEAD := nextSendAEAD a |}.

(** SetHandshakeConfirmed *)
Definition ua_confirm (a : ua) : ua :=
  {| rdir := rdir a; wdir := wdir a; keyPhase := keyPhase a; largestAcked := largestAcked a;
     firstPacketNumber := firstPacketNumber a; handshakeConfirmed := true;
     invalidPacketLimit := invalidPacketLimit a; invalidPacketCount := invalidPacketCount a;
     prevRcvAEADExpiry := prevRcvAEADExpiry a; prevRcvAEAD := prevRcvAEAD a;
     firstRcvdWithCurrentKey := firstRcvdWithCurrentKey a; firstSentWithCurrentKey := firstSentWithCurrentKey a;
     highestRcvdPN := highestRcvdPN a; numRcvdWithCurrentKey := numRcvdWithCurrentKey a;
     numSentWithCurrentKey := numSentWithCurrentKey a;
     rcvAEAD := rcvAEAD a; sendAEAD := sendAEAD a; nextRcvAEAD := nextRcvAEAD a; nextSendAEAD := nextSendAEAD a |}.

(** keyPhase.Bit(): 0 for KeyPhaseZero, 1 for KeyPhaseOne *)
Definition phase_bit (a : ua) : Z := keyPhase a mod 2.

(** func (a *updatableAEAD) updateAllowed() bool *)
Definition updateAllowed (a : ua) : bool :=
  if negb (handshakeConfirmed a) then false
  else (keyPhase a =? 0) ||
       (negb (firstSentWithCurrentKey a =? InvalidPacketNumber) &&
        negb (largestAcked a =? InvalidPacketNumber) &&
        (largestAcked a >=? firstSentWithCurrentKey a)).

(** func (a *updatableAEAD) shouldInitiateKeyUpdate() bool *)
Definition shouldInitiateKeyUpdate (c : kcfg) (a : ua) : bool :=
  if negb (updateAllowed a) then false
  else if (keyPhase a =? 0) &&
          ((numRcvdWithCurrentKey a >=? firstKeyUpdateInterval c) || (numSentWithCurrentKey a >=? firstKeyUpdateInterval c))
  then true
  else if numRcvdWithCurrentKey a >=? keyUpdateInterval c then true
  else if numSentWithCurrentKey a >=? keyUpdateInterval c then true
  else false.

(** func (a *updatableAEAD) KeyPhase() protocol.KeyPhaseBit *)
Definition ua_keyphase (c : kcfg) (a : ua) : Z * ua :=
  let a := if shouldInitiateKeyUpdate c a then rollKeys a else a in
  (phase_bit a, a).

(** func (a *updatableAEAD) SetLargestAcked(pn) error — true = KEY_UPDATE_ERROR *)
Definition ua_set_largest_acked (a : ua) (pn : Z) : bool * ua :=
  if negb (firstSentWithCurrentKey a =? InvalidPacketNumber) &&
     (pn >=? firstSentWithCurrentKey a) && (numRcvdWithCurrentKey a =? 0)
  then (true, a)
  else (false, set_largestAcked a pn).

(** DecodePacketNumber(wirePN, wirePNLen) *)
Definition ua_decode_pn (a : ua) (wirePN wirePNLen : Z) : Z := decodePN wirePNLen (highestRcvdPN a) wirePN.

Section AEAD.
  Variables ctext ptext adata : Type.
  Variable aead_seal : key -> Z -> adata -> ptext -> ctext.
  Variable aead_open : key -> Z -> adata -> ctext -> option ptext.

  (** func (a *updatableAEAD) Seal(dst, src, pn, ad) []byte *)
  Definition ua_seal (a : ua) (pn : Z) (ad : adata) (p : ptext) : ctext * ua :=
    let fs := if firstSentWithCurrentKey a =? InvalidPacketNumber then pn else firstSentWithCurrentKey a in
    let fp := if firstPacketNumber a =? InvalidPacketNumber then pn else firstPacketNumber a in
    (aead_seal (wdir a, sendAEAD a) pn ad p, set_sent a fs fp (numSentWithCurrentKey a + 1)).

  (** func (a *updatableAEAD) open(dst, src, rcvTime, pn, kp, ad) ([]byte, error) *)
  Definition ua_open_inner (a : ua) (now pto3 pn kp : Z) (ad : adata) (c : ctext) : ores ptext * ua :=
    let a :=
      match prevRcvAEAD a with
      | Some _ => if negb (prevRcvAEADExpiry a =? 0) && (now >? prevRcvAEADExpiry a) then drop_prev a else a
      | None => a
      end in
    if negb (kp =? phase_bit a) then
      if ((keyPhase a >? 0) && (firstRcvdWithCurrentKey a =? InvalidPacketNumber)) || (pn <? firstRcvdWithCurrentKey a) then
        match prevRcvAEAD a with
        | None => (ErrKeysDropped, a)
        | Some g =>
          (* we updated the key, but the peer hasn't updated yet *)
          match aead_open (rdir a, g) pn ad c with
          | Some p => (OpenOK p, a)
          | None => (ErrDecryptionFailed, a)
          end
        end
      else
        (* try opening the packet with the next key phase *)
        match aead_open (rdir a, nextRcvAEAD a) pn ad c with
        | None => (ErrDecryptionFailed, a)
        | Some p =>
          if (keyPhase a >? 0) && (firstSentWithCurrentKey a =? InvalidPacketNumber) then (ErrKeyUpdate, a)
          else
            let a := rollKeys a in
            let a := startKeyDropTimer a now pto3 in
            (OpenOK p, set_rcvd a pn (numRcvdWithCurrentKey a))
        end
    else
      match aead_open (rdir a, rcvAEAD a) pn ad c with
      | None => (ErrDecryptionFailed, a)
      | Some p =>
        let a := set_rcvd a (firstRcvdWithCurrentKey a) (numRcvdWithCurrentKey a + 1) in
        if firstRcvdWithCurrentKey a =? InvalidPacketNumber then
          let a := if keyPhase a >? 0 then startKeyDropTimer a now pto3 else a in
          (OpenOK p, set_rcvd a pn (numRcvdWithCurrentKey a))
        else (OpenOK p, a)
      end.

  (** func (a *updatableAEAD) Open(dst, src, rcvTime, pn, kp, ad) ([]byte, error) *)
  Definition ua_open (a : ua) (now pto3 pn kp : Z) (ad : adata) (c : ctext) : ores ptext * ua :=
    let '(r, a) := ua_open_inner a now pto3 pn kp ad c in
    match r with
    | ErrDecryptionFailed =>
      let a := set_open_counters a (invalidPacketCount a + 1) (highestRcvdPN a) in
      if invalidPacketCount a >=? invalidPacketLimit a then (ErrAEADLimit, a) else (ErrDecryptionFailed, a)
    | OpenOK p => (OpenOK p, set_open_counters a (invalidPacketCount a) (Z.max (highestRcvdPN a) pn))
    | _ => (r, a)
    end.

  (** ** One endpoint against an arbitrary environment: operations, events, traces. *)
  Inductive uop :=
  | UKeyPhase                                         (* KeyPhase(), as the packer calls it before sealing *)
  | USeal (pn : Z) (ad : adata) (p : ptext)
  | UOpen (now pto3 pn kp : Z) (ad : adata) (c : ctext)
  | UAck (pn : Z)                                     (* SetLargestAcked(pn) *)
  | UConfirm.                                         (* SetHandshakeConfirmed() *)

  Inductive uev :=
  | EvKeyPhase (bit : Z)
  | EvSeal (c : ctext)
  | EvOpen (r : ores ptext)
  | EvAck (err : bool)                                (* true = KEY_UPDATE_ERROR *)
  | EvConfirm.

  Definition ua_step (cfg : kcfg) (a : ua) (op : uop) : uev * ua :=
    match op with
    | UKeyPhase => let '(b, a') := ua_keyphase cfg a in (EvKeyPhase b, a')
    | USeal pn ad p => let '(c, a') := ua_seal a pn ad p in (EvSeal c, a')
    | UOpen now pto3 pn kp ad c => let '(r, a') := ua_open a now pto3 pn kp ad c in (EvOpen r, a')
    | UAck pn => let '(e, a') := ua_set_largest_acked a pn in (EvAck e, a')
    | UConfirm => (EvConfirm, ua_confirm a)
    end.

  (** A trace entry: key phase before the call, the call, what it returned, key phase after. *)
  Definition entry : Type := (Z * uop * uev * Z)%type.

  Fixpoint ua_run (cfg : kcfg) (a : ua) (ops : list uop) : ua :=
    match ops with [] => a | op :: r => ua_run cfg (snd (ua_step cfg a op)) r end.

  Fixpoint ua_trace (cfg : kcfg) (a : ua) (ops : list uop) : list entry :=
    match ops with
    | [] => []
    | op :: r => let '(ev, a') := ua_step cfg a op in (keyPhase a, op, ev, keyPhase a') :: ua_trace cfg a' r
    end.

  Definition seal_pns (ops : list uop) : list Z :=
    flat_map (fun op => match op with USeal pn _ _ => [pn] | _ => [] end) ops.
End AEAD.

Arguments UKeyPhase {ctext ptext adata}.
Arguments USeal {ctext ptext adata} pn ad p.
Arguments UOpen {ctext ptext adata} now pto3 pn kp ad c.
Arguments UAck {ctext ptext adata} pn.
Arguments UConfirm {ctext ptext adata}.
Arguments EvKeyPhase {ctext ptext} bit.
Arguments EvSeal {ctext ptext} c.
Arguments EvOpen {ctext ptext} r.
Arguments EvAck {ctext ptext} err.
Arguments EvConfirm {ctext ptext}.
