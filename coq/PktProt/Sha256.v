(** SHA-256 (FIPS 180-4), HMAC-SHA256 (RFC 2104) and HKDF (RFC 5869) / HKDF-Expand-Label
    (RFC 8446 7.1) over byte lists ([list Z], every element in [0,256)); 32-bit words are [Z]
    with explicit [mod 2^32].  Written for [vm_compute]; shares no code with /repo.
    Executable definitions only. *)
From Coq Require Import List ZArith Bool String Ascii.
Import ListNotations.
Open Scope Z_scope.

Definition w32 : Z := 4294967296.
Definition mask32 : Z := 4294967295.
Definition add32 (a b : Z) : Z := Z.land (a + b) mask32.
Definition rotr (n x : Z) : Z := Z.lor (Z.shiftr x n) (Z.land (Z.shiftl x (32 - n)) mask32).
Definition not32 (x : Z) : Z := Z.lxor x 4294967295.

Definition sha_K : list Z := [1116352408; 1899447441; 3049323471; 3921009573; 961987163; 1508970993; 2453635748; 2870763221; 3624381080; 310598401; 607225278; 1426881987; 1925078388; 2162078206; 2614888103; 3248222580; 3835390401; 4022224774; 264347078; 604807628; 770255983; 1249150122; 1555081692; 1996064986; 2554220882; 2821834349; 2952996808; 3210313671; 3336571891; 3584528711; 113926993; 338241895; 666307205; 773529912; 1294757372; 1396182291; 1695183700; 1986661051; 2177026350; 2456956037; 2730485921; 2820302411; 3259730800; 3345764771; 3516065817; 3600352804; 4094571909; 275423344; 430227734; 506948616; 659060556; 883997877; 958139571; 1322822218; 1537002063; 1747873779; 1955562222; 2024104815; 2227730452; 2361852424; 2428436474; 2756734187; 3204031479; 3329325298].
Definition sha_H0 : list Z := [1779033703; 3144134277; 1013904242; 2773480762; 1359893119; 2600822924; 528734635; 1541459225].

Definition Ch (x y z : Z) : Z := Z.lxor (Z.land x y) (Z.land (not32 x) z).
Definition Maj (x y z : Z) : Z := Z.lxor (Z.lxor (Z.land x y) (Z.land x z)) (Z.land y z).
Definition bsig0 (x : Z) : Z := Z.lxor (Z.lxor (rotr 2 x) (rotr 13 x)) (rotr 22 x).
Definition bsig1 (x : Z) : Z := Z.lxor (Z.lxor (rotr 6 x) (rotr 11 x)) (rotr 25 x).
Definition ssig0 (x : Z) : Z := Z.lxor (Z.lxor (rotr 7 x) (rotr 18 x)) (Z.shiftr x 3).
Definition ssig1 (x : Z) : Z := Z.lxor (Z.lxor (rotr 17 x) (rotr 19 x)) (Z.shiftr x 10).

(** big-endian words of a byte list (length a multiple of 4) *)
Fixpoint be_words (b : list Z) : list Z :=
  match b with
  | b0 :: b1 :: b2 :: b3 :: r => (((b0 * 256 + b1) * 256 + b2) * 256 + b3) :: be_words r
  | _ => []
  end.
Definition word_bytes (w : Z) : list Z :=
  [Z.land (Z.shiftr w 24) 255; Z.land (Z.shiftr w 16) 255; Z.land (Z.shiftr w 8) 255; Z.land w 255].

(** message schedule: [win] holds the last 16 words, most recent first *)
Fixpoint schedule (n : nat) (win : list Z) (acc : list Z) : list Z :=
  match n with
  | O => rev acc
  | S n' =>
    let w := add32 (add32 (ssig1 (nth 1 win 0)) (nth 6 win 0)) (add32 (ssig0 (nth 14 win 0)) (nth 15 win 0)) in
    schedule n' (w :: firstn 15 win) (w :: acc)
  end.

Definition sha_round (st : Z * Z * Z * Z * Z * Z * Z * Z) (kw : Z * Z) : Z * Z * Z * Z * Z * Z * Z * Z :=
  let '(a, b, c, d, e, f, g, h) := st in
  let t1 := add32 (add32 (add32 h (bsig1 e)) (add32 (Ch e f g) (fst kw))) (snd kw) in
  let t2 := add32 (bsig0 a) (Maj a b c) in
  (add32 t1 t2, a, b, c, add32 d t1, e, f, g).

Definition sha_compress (h : list Z) (block : list Z) : list Z :=
  let w16 := be_words block in
  let w := w16 ++ schedule 48 (rev w16) [] in
  match h with
  | [a; b; c; d; e; f; g; hh] =>
    let '(a', b', c', d', e', f', g', h') := fold_left sha_round (combine sha_K w) (a, b, c, d, e, f, g, hh) in
    [add32 a a'; add32 b b'; add32 c c'; add32 d d'; add32 e e'; add32 f f'; add32 g g'; add32 hh h']
  | _ => []
  end.

Definition sha_pad (msg : list Z) : list Z :=
  let l := Z.of_nat (List.length msg) in
  let k := (55 - l) mod 64 in
  let bits := 8 * l in
  msg ++ [128] ++ repeat 0 (Z.to_nat k) ++
  [0; 0; 0; bits / 4294967296 mod 256] ++ word_bytes (bits mod 4294967296).

Fixpoint sha_blocks (fuel : nat) (h : list Z) (m : list Z) : list Z :=
  match fuel with
  | O => h
  | S f => match m with [] => h | _ => sha_blocks f (sha_compress h (firstn 64 m)) (skipn 64 m) end
  end.

Definition sha256 (msg : list Z) : list Z :=
  let m := sha_pad msg in
  flat_map word_bytes (sha_blocks (S (List.length m / 64)) sha_H0 m).

(** HMAC-SHA256 *)
Definition hmac_key (k : list Z) : list Z :=
  let k := if (64 <? List.length k)%nat then sha256 k else k in
  k ++ repeat 0 (64 - List.length k).
Definition hmac_sha256 (key msg : list Z) : list Z :=
  let k := hmac_key key in
  sha256 (map (Z.lxor 92) k ++ sha256 (map (Z.lxor 54) k ++ msg)).

(** HKDF *)
Definition hkdf_extract (salt ikm : list Z) : list Z := hmac_sha256 salt ikm.

Fixpoint hkdf_expand_loop (n : nat) (prk info prev : list Z) (ctr : Z) : list Z :=
  match n with
  | O => []
  | S n' => let t := hmac_sha256 prk (prev ++ info ++ [ctr]) in t ++ hkdf_expand_loop n' prk info t (ctr + 1)
  end.
Definition hkdf_expand (prk info : list Z) (len : Z) : list Z :=
  firstn (Z.to_nat len) (hkdf_expand_loop (Z.to_nat ((len + 31) / 32)) prk info [] 1).

Fixpoint str_bytes (s : string) : list Z :=
  match s with EmptyString => [] | String c r => Z.of_N (N_of_ascii c) :: str_bytes r end.

(** HKDF-Expand-Label(secret, label, "", len): HkdfLabel = uint16 len || opaque "tls13 "+label || opaque "" *)
Definition expand_label (secret : list Z) (label : string) (len : Z) : list Z :=
  let l := str_bytes ("tls13 " ++ label) in
  hkdf_expand secret ([len / 256 mod 256; len mod 256; Z.of_nat (List.length l)] ++ l ++ [0]) len.
