(** (g) composed with (c): in every reachable state of the two-endpoint system the receiver's
    highestRcvdPN satisfies the decode hypothesis for every packet in flight whose length the
    sender chose from ITS largest acknowledged number — as long as the receiver has not run
    ahead of the packet by more than the tolerance of that length. *)
From Coq Require Import List ZArith Bool Lia.
From V Require Import Gen.Params PktProt.PktNum PktProt.PktNumProofs PktProt.KeyPhase PktProt.KeyPhaseProofs PktProt.KeyPhaseWindow
     PktProt.KeyPhaseSys PktProt.KeyPhaseSysProofs PktProt.KeyPhaseSysPn.
Import ListNotations.
Open Scope Z_scope.

(** * highestRcvdPN under the endpoint operations *)
Lemma rollKeys_highest a : highestRcvdPN (rollKeys a) = highestRcvdPN a.
Proof. unfold rollKeys. destruct (prevRcvAEAD a); reflexivity. Qed.

Lemma keyphase_highest cfg a : highestRcvdPN (snd (ua_keyphase cfg a)) = highestRcvdPN a.
Proof. unfold ua_keyphase. destruct (shouldInitiateKeyUpdate cfg a); cbn [snd]; [apply rollKeys_highest|reflexivity]. Qed.

Lemma ack_highest a pn : highestRcvdPN (snd (ua_set_largest_acked a pn)) = highestRcvdPN a.
Proof. unfold ua_set_largest_acked. destruct (_ && _); reflexivity. Qed.

Section Endpoint.
  Variables ctext ptext adata : Type.
  Variable aead_seal : key -> Z -> adata -> ptext -> ctext.
  Variable aead_open : key -> Z -> adata -> ctext -> option ptext.

  Lemma seal_highest a pn ad p : highestRcvdPN (snd (ua_seal ctext ptext adata aead_seal a pn ad p)) = highestRcvdPN a.
  Proof. reflexivity. Qed.

  Lemma open_inner_highest a now pto3 pn kp ad c :
    highestRcvdPN (snd (ua_open_inner ctext ptext adata aead_open a now pto3 pn kp ad c)) = highestRcvdPN a.
  Proof.
    unfold ua_open_inner.
    set (a1 := match prevRcvAEAD a with
               | Some _ => if negb (prevRcvAEADExpiry a =? 0) && (now >? prevRcvAEADExpiry a) then drop_prev a else a
               | None => a end).
    assert (E : highestRcvdPN a1 = highestRcvdPN a).
    { subst a1. destruct (prevRcvAEAD a); [destruct (negb _ && _)|]; reflexivity. }
    rewrite <- E. clearbody a1.
    repeat match goal with
           | |- context [if ?c then _ else _] => destruct c
           | |- context [match prevRcvAEAD ?x with _ => _ end] => destruct (prevRcvAEAD x) eqn:?
           | |- context [match aead_open ?k ?n ?d ?e with _ => _ end] => destruct (aead_open k n d e)
           end; cbn [snd]; rewrite ?rollKeys_highest; try reflexivity;
      unfold startKeyDropTimer, set_rcvd, set_expiry, rollKeys; cbn;
      repeat match goal with |- context [match prevRcvAEAD ?x with _ => _ end] => destruct (prevRcvAEAD x) end; reflexivity.
  Qed.

  (** Open: highestRcvdPN = max(highestRcvdPN, pn) exactly when it returns a plaintext *)
  Lemma open_highest a now pto3 pn kp ad c :
    let ra := ua_open ctext ptext adata aead_open a now pto3 pn kp ad c in
    highestRcvdPN (snd ra) = match fst ra with OpenOK _ => Z.max (highestRcvdPN a) pn | _ => highestRcvdPN a end.
  Proof.
    cbv zeta. unfold ua_open. pose proof (open_inner_highest a now pto3 pn kp ad c) as H.
    destruct (ua_open_inner ctext ptext adata aead_open a now pto3 pn kp ad c) as [r a1]. cbn [snd] in H.
    destruct r; cbn [fst snd]; try (rewrite <- H; reflexivity).
    destruct (_ >=? _); cbn [fst snd]; rewrite <- H; reflexivity.
  Qed.
End Endpoint.

(** * The system *)
Section SysPnProofs.
  Variables ctext ptext adata : Type.
  Variable aead_seal : key -> Z -> adata -> ptext -> ctext.
  Variable aead_open : key -> Z -> adata -> ctext -> option ptext.
  Hypothesis open_seal : forall k n ad p, aead_open k n ad (aead_seal k n ad p) = Some p.
  Hypothesis open_wrong_key : forall k k' n ad p, k <> k' -> aead_open k n ad (aead_seal k' n ad p) = None.

  Notation sys := (sys ptext adata).
  Notation pkt := (pkt ptext adata).
  Notation sstep := (sstep ctext ptext adata aead_seal aead_open).
  Notation sstep2 := (sstep2 ctext ptext adata aead_seal aead_open).
  Notation srun2 := (srun2 ctext ptext adata aead_seal aead_open).
  Notation Inv := (Inv ptext adata).
  Notation E := (E ptext adata).
  Notation uopen := (ua_open ctext ptext adata aead_open).

  Ltac sides x z := destruct (bool_cases x z) as [->| ->]; rewrite ?negb_involutive in *.

  Lemma upd_rcv_same (f : bool -> side_st) x t z : rcv t = rcv (f x) -> rcv (upd f x t z) = rcv (f z).
  Proof. intros H. sides z x; rewrite ?upd_same, ?upd_other; auto. Qed.
  Lemma upd_rcv_ge (f : bool -> side_st) x t z : rcv (f x) <= rcv t -> rcv (f z) <= rcv (upd f x t z).
  Proof. intros H. sides z x; rewrite ?upd_same, ?upd_other; lia. Qed.

  Record Inv3 (s : sys) (las : list Z) : Prop := {
    j_inv : Inv s;
    j_len : length las = length (sent s);
    (** the decode reference is the largest opened number (0 before the first) *)
    j_high : forall y, highestRcvdPN (E s y) = Z.max 0 (rcv (sd s y));
    j_opened : forall y g pn, In (g, pn) (opened (sd s y)) -> pn <= rcv (sd s y);
    (** what a sender knew to be acknowledged has been opened by the receiver *)
    j_la : forall i p la, nth_error (sent s) i = Some p -> nth_error las i = Some la ->
             -1 <= la /\ (la <> -1 -> la <= rcv (sd s (negb (p_from p))))
  }.

  Lemma inv3_init lim n0 : (forall x, 0 <= n0 x) -> Inv3 (sinit ptext adata lim n0) [].
  Proof.
    intros Hn. constructor; cbn.
    - apply (inv_init ctext ptext adata aead_seal aead_open open_seal); exact Hn.
    - reflexivity.
    - intros y. reflexivity.
    - intros ? ? ? [].
    - intros i p la H. destruct i; discriminate.
  Qed.

  Lemma step_inv3 cfg s las op : Inv3 s las -> Inv3 (fst (sstep2 cfg (s, las) op)) (snd (sstep2 cfg (s, las) op)).
  Proof.
    intros [HI Hlen Hhigh Hop Hla]. unfold KeyPhaseSysPn.sstep2. cbn [fst snd].
    pose proof (step_inv ctext ptext adata aead_seal aead_open open_seal open_wrong_key cfg s op HI) as HI'.
    destruct op as [x|x skip ad pt|i now pto3|x]; cbn [KeyPhaseSys.sstep] in *.
    - (* KeyPhase() *)
      constructor; cbn [sent sd]; try assumption.
      + intros y. unfold KeyPhaseSysProofs.E; cbn [sd]. sides y x; rewrite ?upd_same, ?upd_other; cbn [ep set_ep rcv]; [rewrite keyphase_highest|]; apply Hhigh.
      + intros y g pn. sides y x; rewrite ?upd_same, ?upd_other; cbn [opened set_ep rcv]; apply Hop.
      + intros i p la H1 H2. destruct (Hla i p la H1 H2) as [A B]. split; [exact A|]. intros Hne. specialize (B Hne).
        rewrite upd_rcv_same by reflexivity. exact B.
    - (* Seal *)
      constructor; cbn [sent sd]; try assumption.
      + rewrite !app_length, Hlen. reflexivity.
      + intros y. unfold KeyPhaseSysProofs.E; cbn [sd]. sides y x; rewrite ?upd_same, ?upd_other; cbn [ep rcv]; apply Hhigh.
      + intros y g pn. sides y x; rewrite ?upd_same, ?upd_other; cbn [opened rcv]; apply Hop.
      + intros i p la H1 H2.
        assert (Hrc : forall z, rcv (upd (sd s) x {| ep := snd (ua_seal ctext ptext adata aead_seal (ep (sd s x)) (nxt (sd s x)) ad pt);
                                                     nxt := nxt (sd s x) + 1 + Z.of_nat skip; rcv := rcv (sd s x); opened := opened (sd s x) |} z) = rcv (sd s z)).
        { intros z. sides z x; rewrite ?upd_same, ?upd_other; reflexivity. }
        rewrite Hrc.
        destruct (Nat.lt_ge_cases i (length (sent s))) as [Hlt|Hge].
        * rewrite nth_error_app1 in H1 by exact Hlt. rewrite nth_error_app1 in H2 by (rewrite Hlen; exact Hlt). apply (Hla i p la H1 H2).
        * rewrite nth_error_app2 in H1 by exact Hge. rewrite nth_error_app2 in H2 by (rewrite Hlen; exact Hge). rewrite Hlen in H2.
          destruct (i - length (sent s))%nat as [|k]; [|destruct k; discriminate].
          cbn in H1, H2. inversion H1; subst p. inversion H2; subst la. cbn [p_from]. clear H1 H2.
          destruct HI as [_ IV].
          destruct (Z.eq_dec (largestAcked (ep (sd s x))) (-1)) as [Em|Nm]; [rewrite Em; split; [lia|congruence]|].
          destruct (v_ak2 IV x Nm) as (q & Hq & Hqf & Hqa & Hq0).
          destruct (v_ak1 IV q Hq Hq0) as (g & _ & Hin). rewrite Hqf, Hqa in Hin.
          cbn [w_la w_op view_of] in *. unfold KeyPhaseSysProofs.E in *.
          split; [lia|]. intros _. apply (Hop _ _ _ Hin).
    - (* Deliver *)
      destruct (nth_error (sent s) i) as [p|] eqn:En; [|constructor; assumption].
      set (y := negb (p_from p)) in *.
      pose proof (open_highest ctext ptext adata aead_open (ep (sd s y)) now pto3 (p_pn p) (p_gen p mod 2) (p_ad p) (p_ct ctext ptext adata aead_seal p)) as Hoh.
      cbv zeta in Hoh.
      destruct (fst (uopen (ep (sd s y)) now pto3 (p_pn p) (p_gen p mod 2) (p_ad p) (p_ct ctext ptext adata aead_seal p))) eqn:Er;
        [| (constructor; cbn [sent sd]; try assumption;
          [ intros z; unfold KeyPhaseSysProofs.E; cbn [sd]; sides z y; rewrite ?upd_same, ?upd_other; cbn [ep set_ep rcv]; [rewrite Hoh|]; apply Hhigh
          | intros z g pn; sides z y; rewrite ?upd_same, ?upd_other; cbn [opened set_ep rcv]; apply Hop
          | intros j q la H1 H2; destruct (Hla j q la H1 H2) as [A B]; split; [exact A|]; intros Hne; specialize (B Hne);
            rewrite upd_rcv_same by reflexivity; exact B ]) .. ].
      + (* opened *)
        constructor; cbn [sent sd]; try assumption.
        * intros z. unfold KeyPhaseSysProofs.E; cbn [sd]. sides z y; rewrite ?upd_same, ?upd_other; cbn [ep rcv]; [|apply Hhigh].
          assert (Hh : highestRcvdPN (if 0 <=? p_ack p then snd (ua_set_largest_acked (snd (uopen (ep (sd s y)) now pto3 (p_pn p) (p_gen p mod 2) (p_ad p) (p_ct ctext ptext adata aead_seal p))) (p_ack p))
                                      else snd (uopen (ep (sd s y)) now pto3 (p_pn p) (p_gen p mod 2) (p_ad p) (p_ct ctext ptext adata aead_seal p)))
                           = Z.max (highestRcvdPN (ep (sd s y))) (p_pn p)).
          { destruct (0 <=? p_ack p); [rewrite ack_highest|]; exact Hoh. }
          rewrite Hh. pose proof (Hhigh y) as H0. unfold KeyPhaseSysProofs.E in H0. rewrite H0. lia.
        * intros z g pn. sides z y; rewrite ?upd_same, ?upd_other; cbn [opened rcv]; [|apply Hop].
          intros [Heq|Hin]; [inversion Heq; lia|]. specialize (Hop _ _ _ Hin). lia.
        * intros j q la H1 H2. destruct (Hla j q la H1 H2) as [A B]. split; [exact A|]. intros Hne. specialize (B Hne).
          eapply Z.le_trans; [exact B|]. apply upd_rcv_ge. cbn [rcv]. lia.
    - (* Confirm *)
      constructor; cbn [sent sd]; try assumption.
      + intros y. unfold KeyPhaseSysProofs.E; cbn [sd]. sides y x; rewrite ?upd_same, ?upd_other; cbn [ep set_ep rcv]; apply Hhigh.
      + intros y g pn. sides y x; rewrite ?upd_same, ?upd_other; cbn [opened set_ep rcv]; apply Hop.
      + intros i p la H1 H2. destruct (Hla i p la H1 H2) as [A B]. split; [exact A|]. intros Hne. specialize (B Hne).
        rewrite upd_rcv_same by reflexivity. exact B.
  Qed.

  Lemma run_inv3 cfg ops s las : Inv3 s las -> Inv3 (fst (srun2 cfg (s, las) ops)) (snd (srun2 cfg (s, las) ops)).
  Proof.
    revert s las; induction ops as [|op r IH]; intros s las H; cbn [KeyPhaseSysPn.srun2]; [exact H|].
    pose proof (step_inv3 cfg s las op H) as H'. destruct (sstep2 cfg (s, las) op) as [s' las']. apply IH. exact H'.
  Qed.

  Notation p_ct := (p_ct ctext ptext adata aead_seal).

  Definition pn_in_system_statement : Prop :=
    forall cfg lim n0 ops, (forall x, 0 <= n0 x) ->
      let sl := srun2 cfg (sinit ptext adata lim n0, []) ops in
      let s := fst sl in
      let las := snd sl in
      forall i p la, nth_error (sent s) i = Some p -> nth_error las i = Some la ->
        let R := ep (sd s (negb (p_from p))) in
        let len := wire_len ptext adata p la in
        p_pn p < 2 ^ 62 -> p_pn p - la <= 2 ^ 31 ->
        highestRcvdPN R <= p_pn p + reorder_tolerance len ->
        -1 <= la <= highestRcvdPN R /\
        2 <= len <= 4 /\
        ua_decode_pn R (wire_pn ptext adata p la) len = p_pn p /\
        (forall now pto3,
           let r := keyPhase R in
           (p_gen p = r \/ p_gen p = r + 1 \/ (p_gen p = r - 1 /\ prevRcvAEAD R <> None /\ dropped_now R now = false)) ->
           fst (uopen R now pto3 (ua_decode_pn R (wire_pn ptext adata p la) len) (p_gen p mod 2) (p_ad p) (p_ct p)) = OpenOK (p_pt p)).

  Lemma pn_in_system : pn_in_system_statement.
  Proof.
    intros cfg lim n0 ops Hn sl s las i p la H1 H2 R len Hpn Hout Htol.
    pose proof (run_inv3 cfg ops _ _ (inv3_init lim n0 Hn)) as [HI Hlen Hhigh Hop Hla]. fold sl in HI, Hlen, Hhigh, Hop, Hla. fold s in HI, Hlen, Hhigh, Hop, Hla. fold las in Hlen, Hla.
    assert (Hp : In p (sent s)) by (eapply nth_error_In; exact H1).
    destruct (Hla i p la H1 H2) as [Hla1 Hla2].
    pose proof (Hhigh (negb (p_from p))) as Hh. unfold KeyPhaseSysProofs.E in Hh. fold R in Hh.
    assert (Hle : la <= highestRcvdPN R).
    { rewrite Hh. destruct (Z.eq_dec la (-1)) as [->|Nm]; [lia|]. specialize (Hla2 Nm). lia. }
    destruct HI as [Hw IV]. destruct (v_pk IV p Hp) as (_ & (Hpn0 & _) & _).
    assert (Hdec : ua_decode_pn R (wire_pn ptext adata p la) len = p_pn p).
    { unfold ua_decode_pn, wire_pn. fold len. unfold len, wire_len.
      apply decode_sender_reordered; try lia. split; [exact Hle|exact Htol]. }
    split; [lia|]. split; [apply lenForHeader_ge2|]. split; [exact Hdec|].
    intros now pto3 r Hwin. rewrite Hdec.
    destruct (deliver_ok ctext ptext adata aead_seal aead_open open_seal open_wrong_key s p now pto3 (conj Hw IV) Hp) as (_ & Hok & _).
    apply Hok. exact Hwin.
  Qed.
End SysPnProofs.
